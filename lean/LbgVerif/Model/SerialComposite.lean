/-
  Model/SerialComposite — LITERAL hand model of the (de)serialisers, copy constructors and
  equality keys of the seven COMPOSITE geometry classes and of the dictionary type dispatcher:

    Polygon2D   geometry2d/polygon.py   __init__ l.52, from_dict l.65, from_array l.81, to_dict l.1292,
                                        to_array l.1297, __copy__ l.2705, __key/__eq__ l.2715-2723
    Polyline2D  geometry2d/polyline.py  __init__ l.38, from_dict l.47, from_array l.64, to_dict l.325,
                                        to_array l.333, __copy__ l.387, __key/__eq__ l.390-398
    Polyline3D  geometry3d/polyline.py  (same layout, l.40-66, l.272-283, l.325-336)
    Mesh2D      geometry2d/mesh.py      __init__ l.50, from_dict l.74, to_dict l.494, __copy__ l.743,
                                        __key/__eq__ l.750-758; _mesh.py _check_faces_input l.196,
                                        colors setter l.73, _transfer_properties l.360
    Mesh3D      geometry3d/mesh.py      __init__ l.52, from_dict l.77, to_dict l.473, __copy__ l.764
    Face3D      geometry3d/face.py      __init__ l.105, from_dict l.165, from_array l.191,
                                        to_dict l.2820, to_array l.2845, _plane_from_vertices l.3254,
                                        __copy__ l.3313, __key/__eq__ l.3323-3331;
                                        Plane.__init__/from_dict/to_dict (geometry3d/plane.py l.40-85, l.453)
    Polyface3D  geometry3d/polyface.py  __init__ l.67, from_dict l.114, to_dict l.838, __copy__ l.881,
                                        __key/__eq__ l.886-894
    dictutil.geometry_dict_to_object    dictutil.py l.16

  Dictionaries are values of the JSON-like type `DV`: what `to_dict` returns, what `from_dict`
  receives, what `json.dumps`/`json.loads` transports (Python tuples and lists are both `DV.list`;
  this is the one identification the model makes, see TRUSTED in the correspondence module).
  Python exceptions are values of `PyErr`; the KIND of exception is modelled because
  `geometry_dict_to_object` catches `KeyError` around `from_dict`.

  Leaves: the point/vector/plane kernels are the generated ones (`Gen/Plane.lean`
  `plane_init`, `plane_init_x`, `plane_xyz_to_xy`, `plane_xy_to_xyz`; `Gen/Poly.lean`
  `polygon2d_is_clockwise`, `polygon2d_are_clockwise`; `Gen/Face.lean` `face3d_normal_from_3pts`);
  the edge-incidence loop of `Polyface3D.__init__` is `Model/EdgeInfo.edgeInfo`.

  Not interpreted (parameters of the model): `Polygon2D.from_shape_with_holes(_fast)` — the
  vertex list of the merged polygon — is the field `merge` / `mergeFast` of `FaceOps`;
  `ladybug.color.Color.from_dict` / `to_dict` are the identity on the colour's dictionary.
-/
import LbgVerif.Basic
import LbgVerif.Gen.Plane
import LbgVerif.Gen.Poly
import LbgVerif.Gen.Face
import LbgVerif.Model.EdgeInfo

namespace Lbg.Model.SerialComposite
open Lbg Lbg.Gen

/-! ## Values, exceptions -/

/-- JSON-like value: what a `to_dict` returns / a `from_dict` receives.  `num` is a Python
`float`, `int` a Python `int` (face indices, edge types; also accepted as a coordinate). -/
inductive DV (α : Type) where
  | num (x : α)
  | int (i : Int)
  | str (s : String)
  | bool (b : Bool)
  | null
  | list (l : List (DV α))
  | dict (kv : List (String × DV α))

/-- The kind of Python exception raised. -/
inductive PyErr where
  | KeyError | AssertionError | TypeError | IndexError | ValueError
deriving DecidableEq, Repr

/-- Result of a Python call: a value or an exception. -/
abbrev R (τ : Type) := Except PyErr τ

/-- `[f(a) for a in l]` where `f` may raise (first exception wins). -/
def mapR {σ τ : Type} (f : σ → R τ) : List σ → R (List τ)
  | [] => .ok []
  | a :: t => match f a with
    | .error e => .error e
    | .ok b => match mapR f t with
      | .error e => .error e
      | .ok bs => .ok (b :: bs)

/-- First value stored under `k` in an association list (`dict` look-up). -/
def lookup {τ : Type} (k : String) : List (String × τ) → Option τ
  | [] => none
  | (k', v) :: t => if k' = k then some v else lookup k t

variable {α : Type}

/-- `k in data` … `data[k]`; `none` = key absent (or `data` is not a dict). -/
def DV.get? (d : DV α) (k : String) : Option (DV α) :=
  match d with
  | .dict kv => lookup k kv
  | _ => none

/-- `data[k]`: `KeyError` if absent, `TypeError` if `data` is not subscriptable by a string. -/
def DV.item (d : DV α) (k : String) : R (DV α) :=
  match d with
  | .dict kv => match lookup k kv with
    | some v => .ok v
    | none => .error .KeyError
  | _ => .error .TypeError

/-- `k in data and data[k] is not None` (the idiom of every optional key). -/
def DV.present (d : DV α) (k : String) : Option (DV α) :=
  match d.get? k with
  | some .null => none
  | some v => some v
  | none => none

/-- Iterating a value (`for pt in data['vertices']`): lists only. -/
def DV.asList (d : DV α) : R (List (DV α)) :=
  match d with
  | .list l => .ok l
  | _ => .error .TypeError

variable [Field α] [LinearOrder α]

/-! ## Leaves: numbers, points -/

/-- `Vector2D._cast_to_float(value)` = `float(value)` for the number kinds of `DV`. -/
def numOf (d : DV α) : R α :=
  match d with
  | .num x => .ok x
  | .int i => .ok (i : α)
  | .bool b => .ok (if b then 1 else 0)
  | _ => .error .TypeError

/-- `Point2D.from_array(array)` = `cls(array[0], array[1])` (longer arrays: the rest is ignored). -/
def pt2OfArray (d : DV α) : R (V2 α) :=
  match d with
  | .list (a :: b :: _) => do
      let x ← numOf a
      let y ← numOf b
      pure ⟨x, y⟩
  | .list _ => .error .IndexError
  | _ => .error .TypeError

/-- `Point3D.from_array(array)` = `cls(array[0], array[1], array[2])`. -/
def pt3OfArray (d : DV α) : R (V3 α) :=
  match d with
  | .list (a :: b :: c :: _) => do
      let x ← numOf a
      let y ← numOf b
      let z ← numOf c
      pure ⟨x, y, z⟩
  | .list _ => .error .IndexError
  | _ => .error .TypeError

/-- `Point2D(*point)` with the defaults `x=0, y=0`: at most two positional arguments. -/
def pt2OfStar (d : DV α) : R (V2 α) :=
  match d with
  | .list [] => .ok ⟨0, 0⟩
  | .list [a] => do let x ← numOf a; pure ⟨x, 0⟩
  | .list [a, b] => do
      let x ← numOf a
      let y ← numOf b
      pure ⟨x, y⟩
  | _ => .error .TypeError

/-- `Point3D(*point)` with the defaults `x=0, y=0, z=0`. -/
def pt3OfStar (d : DV α) : R (V3 α) :=
  match d with
  | .list [] => .ok ⟨0, 0, 0⟩
  | .list [a] => do let x ← numOf a; pure ⟨x, 0, 0⟩
  | .list [a, b] => do
      let x ← numOf a
      let y ← numOf b
      pure ⟨x, y, 0⟩
  | .list [a, b, c] => do
      let x ← numOf a
      let y ← numOf b
      let z ← numOf c
      pure ⟨x, y, z⟩
  | _ => .error .TypeError

/-- `pt.to_array()` = `(x, y)`. -/
def pt2ToArray (p : V2 α) : DV α := .list [.num p.x, .num p.y]
/-- `pt.to_array()` = `(x, y, z)`. -/
def pt3ToArray (p : V3 α) : DV α := .list [.num p.x, .num p.y, .num p.z]

/-- A tuple of integers as `DV`. -/
def intsToDV (f : List Int) : DV α := .list (f.map .int)
def natsToDV (f : List Nat) : DV α := .list (f.map (fun (n : Nat) => DV.int (Int.ofNat n)))

/-- An integer entry (`TypeError` stands for "not usable as an index"). -/
def intOf (d : DV α) : R Int :=
  match d with
  | .int i => .ok i
  | .bool b => .ok (if b then 1 else 0)
  | _ => .error .TypeError

/-- A non-negative integer entry (the `Polyface3D` model keeps indices as `Nat`). -/
def natOf (d : DV α) : R Nat :=
  match d with
  | .int i => if 0 ≤ i then .ok i.toNat else .error .IndexError
  | _ => .error .TypeError

/-- `tuple(f)` for a mesh face: a list of integers. -/
def intsOfDV (f : DV α) : R (List Int) := do
  let fl ← f.asList
  mapR intOf fl

/-- `tuple(Point3D.from_array(pt) for pt in hole)`: one loop of 3D points. -/
def loop3OfDV (h : DV α) : R (List (V3 α)) := do
  let l ← h.asList
  mapR pt3OfArray l

/-- `tuple(Point3D(*point) for point in hole)`: one loop of 3D points (array route). -/
def loop3OfStar (h : DV α) : R (List (V3 α)) := do
  let l ← h.asList
  mapR pt3OfStar l

/-- `tuple(loop)`: one index loop of a polyface face. -/
def natLoopOfDV (lp : DV α) : R (List Nat) := do
  let l ← lp.asList
  mapR natOf l

/-- `tuple(tuple(loop) for loop in face)`: the loops of one polyface face. -/
def faceLoopsOfDV (f : DV α) : R (List (List Nat)) := do
  let loops ← f.asList
  mapR natLoopOfDV loops

/-! ## Keys (`__key()`), shared by `__eq__` and `__hash__`

Every composite `__key` is a flat tuple `tuple(points) + (something,)`.  Items of different
kinds never compare equal in Python (`Point2D.__eq__` and `tuple.__eq__` test the type), which
is what the derived equality of `KItem` says. -/
inductive KItem (α : Type) where
  | p2 (v : V2 α)                       -- a `Point2D`
  | p3 (v : V3 α)                       -- a `Point3D`
  | flag (b : Option Bool)              -- `interpolated` (`True`, `False` or `None`)
  | idx (f : List Int)                  -- a mesh face tuple
  | loops (f : List (List Nat))         -- a polyface face (tuple of index loops)
  | plane (n o x : V3 α)                -- a `Plane` (its own key `(n, o, x)`)
deriving DecidableEq

abbrev Key (α : Type) := List (KItem α)

/-! ## Polygon2D -/

structure Polygon2DS (α : Type) where
  vertices : List (V2 α)
deriving DecidableEq

/-- `Polygon2D.__init__` → `Base2DIn2D._check_vertices_input`: at least 3 vertices. -/
def polygonInit (vs : List (V2 α)) : R (Polygon2DS α) :=
  if vs.length < 3 then .error .AssertionError else .ok ⟨vs⟩

def polygonToDict (x : Polygon2DS α) : DV α :=
  .dict [("type", .str "Polygon2D"), ("vertices", .list (x.vertices.map pt2ToArray))]

/-- `cls(tuple(Point2D.from_array(pt) for pt in data['vertices']))` — the `type` key is not read. -/
def polygonFromDict (d : DV α) : R (Polygon2DS α) := do
  let vs ← d.item "vertices"
  let l ← vs.asList
  let pts ← mapR pt2OfArray l
  polygonInit pts

def polygonToArray (x : Polygon2DS α) : DV α := .list (x.vertices.map pt2ToArray)

/-- `Polygon2D(Point2D(*point) for point in point_array)`. -/
def polygonFromArray (a : DV α) : R (Polygon2DS α) := do
  let l ← a.asList
  let pts ← mapR pt2OfStar l
  polygonInit pts

/-- `Polygon2D.__copy__`: `Polygon2D(self._vertices)` (+ memo slots, not modelled here). -/
def polygonCopy (x : Polygon2DS α) : R (Polygon2DS α) := polygonInit x.vertices

/-- `Polygon2D.__key`: `tuple(self._vertices)`. -/
def polygonKey (x : Polygon2DS α) : Key α := x.vertices.map .p2

/-! ## Polyline2D / Polyline3D -/

structure Polyline2DS (α : Type) where
  vertices : List (V2 α)
  /-- `_interpolated`: whatever was passed, `None` included (no check in `__init__`). -/
  interpolated : Option Bool
deriving DecidableEq

structure Polyline3DS (α : Type) where
  vertices : List (V3 α)
  interpolated : Option Bool
deriving DecidableEq

def polyline2Init (vs : List (V2 α)) (interp : Option Bool) : R (Polyline2DS α) :=
  if vs.length < 3 then .error .AssertionError else .ok ⟨vs, interp⟩

def polyline3Init (vs : List (V3 α)) (interp : Option Bool) : R (Polyline3DS α) :=
  if vs.length < 3 then .error .AssertionError else .ok ⟨vs, interp⟩

/-- `interp = data['interpolated'] if 'interpolated' in data else False` — the value is stored
as it is; the model knows the values `True`, `False` and `None` (a `null` is NOT turned into
`False`, unlike the other optional keys). -/
def interpOf (d : DV α) : R (Option Bool) :=
  match d.get? "interpolated" with
  | none => .ok (some false)
  | some (.bool b) => .ok (some b)
  | some .null => .ok none
  | some _ => .error .TypeError

/-- `to_dict`: the key `interpolated` is written only when the flag is true. -/
def polyline2ToDict (x : Polyline2DS α) : DV α :=
  .dict ([("type", .str "Polyline2D"), ("vertices", .list (x.vertices.map pt2ToArray))]
    ++ (if x.interpolated = some true then [("interpolated", .bool true)] else []))

def polyline3ToDict (x : Polyline3DS α) : DV α :=
  .dict ([("type", .str "Polyline3D"), ("vertices", .list (x.vertices.map pt3ToArray))]
    ++ (if x.interpolated = some true then [("interpolated", .bool true)] else []))

def polyline2FromDict (d : DV α) : R (Polyline2DS α) := do
  let interp ← interpOf d
  let vs ← d.item "vertices"
  let l ← vs.asList
  let pts ← mapR pt2OfArray l
  polyline2Init pts interp

def polyline3FromDict (d : DV α) : R (Polyline3DS α) := do
  let interp ← interpOf d
  let vs ← d.item "vertices"
  let l ← vs.asList
  let pts ← mapR pt3OfArray l
  polyline3Init pts interp

def polyline2ToArray (x : Polyline2DS α) : DV α := .list (x.vertices.map pt2ToArray)
def polyline3ToArray (x : Polyline3DS α) : DV α := .list (x.vertices.map pt3ToArray)

/-- `Polyline2D(Point2D(*point) for point in point_array)` — `interpolated` defaults to False. -/
def polyline2FromArray (a : DV α) : R (Polyline2DS α) := do
  let l ← a.asList
  let pts ← mapR pt2OfStar l
  polyline2Init pts (some false)

def polyline3FromArray (a : DV α) : R (Polyline3DS α) := do
  let l ← a.asList
  let pts ← mapR pt3OfStar l
  polyline3Init pts (some false)

def polyline2Copy (x : Polyline2DS α) : R (Polyline2DS α) := polyline2Init x.vertices x.interpolated
def polyline3Copy (x : Polyline3DS α) : R (Polyline3DS α) := polyline3Init x.vertices x.interpolated

/-- `tuple(self._vertices) + (self._interpolated,)`. -/
def polyline2Key (x : Polyline2DS α) : Key α := x.vertices.map .p2 ++ [.flag x.interpolated]
def polyline3Key (x : Polyline3DS α) : Key α := x.vertices.map .p3 ++ [.flag x.interpolated]

/-! ## Mesh2D / Mesh3D (`P` = vertex type) -/

structure MeshS (P : Type) (α : Type) where
  vertices : List P
  faces : List (List Int)
  /-- `_colors`: `None` or the tuple of colours (each colour = its dictionary, uninterpreted). -/
  colors : Option (List (DV α))
  is_color_by_face : Bool

abbrev Mesh2DS (α : Type) := MeshS (V2 α) α
abbrev Mesh3DS (α : Type) := MeshS (V3 α) α

/-- One face in `MeshBase._check_faces_input`: 3 or 4 indices, each valid for
`self._vertices[ind]` (Python accepts `-n ≤ ind < n`). -/
def meshCheckFace (n : Nat) (f : List Int) : R Unit :=
  if f.length = 3 ∨ f.length = 4 then
    if f.all (fun i => decide (-(n : Int) ≤ i ∧ i < (n : Int))) then .ok () else .error .IndexError
  else .error .AssertionError

/-- `MeshBase._check_faces_input`: at least one face, then face by face. -/
def meshCheckFaces (n : Nat) (faces : List (List Int)) : R Unit :=
  if faces.length = 0 then .error .AssertionError else
    match mapR (meshCheckFace n) faces with
    | .error e => .error e
    | .ok _ => .ok ()

/-- The `colors` setter (`_mesh.py` l.73): per face first, then per vertex, empty → None. -/
def meshSetColors (nf nv : Nat) (col : Option (List (DV α))) : R (Option (List (DV α)) × Bool) :=
  match col with
  | none => .ok (none, false)
  | some c =>
    if c.length = nf then .ok (some c, true)
    else if c.length = nv then .ok (some c, false)
    else if c.length = 0 then .ok (none, false)
    else .error .ValueError

/-- `Mesh2D.__init__` / `Mesh3D.__init__`. -/
def meshInit {P : Type} (vs : List P) (faces : List (List Int)) (col : Option (List (DV α))) :
    R (MeshS P α) :=
  match meshCheckFaces vs.length faces with
  | .error e => .error e
  | .ok _ => match meshSetColors faces.length vs.length col with
    | .error e => .error e
    | .ok (c, byFace) => .ok ⟨vs, faces, c, byFace⟩

/-- `colors` part of `Mesh2D/3D.from_dict`:
`'colors' in data and data['colors'] is not None and len(data['colors']) != 0`. -/
def meshColorsOf (d : DV α) : R (Option (List (DV α))) :=
  match d.present "colors" with
  | none => .ok none
  | some (.list []) => .ok none
  | some (.list l) => .ok (some l)       -- `tuple(Color.from_dict(col) for col in …)`
  | some (.dict []) => .ok none           -- len({}) = 0
  | some (.str "") => .ok none            -- len('') = 0
  | some _ => .error .TypeError

/-- `fcs = tuple(tuple(f) for f in data['faces'])`. -/
def meshFacesOf (d : DV α) : R (List (List Int)) := do
  let fs ← d.item "faces"
  let l ← fs.asList
  mapR intsOfDV l

def mesh2FromDict (d : DV α) : R (Mesh2DS α) := do
  let colors ← meshColorsOf d
  let fcs ← meshFacesOf d
  let vs ← d.item "vertices"
  let l ← vs.asList
  let pts ← mapR pt2OfArray l
  meshInit pts fcs colors

def mesh3FromDict (d : DV α) : R (Mesh3DS α) := do
  let colors ← meshColorsOf d
  let fcs ← meshFacesOf d
  let vs ← d.item "vertices"
  let l ← vs.asList
  let pts ← mapR pt3OfArray l
  meshInit pts fcs colors

/-- `Mesh2D.to_dict`: the key `colors` is always written (`None` when there are none). -/
def mesh2ToDict (x : Mesh2DS α) : DV α :=
  .dict [("type", .str "Mesh2D"), ("vertices", .list (x.vertices.map pt2ToArray)),
    ("faces", .list (x.faces.map intsToDV)),
    ("colors", match x.colors with | none => .null | some c => .list c)]

/-- `Mesh3D.to_dict`: the key `colors` is written only when there are colours. -/
def mesh3ToDict (x : Mesh3DS α) : DV α :=
  .dict ([("type", .str "Mesh3D"), ("vertices", .list (x.vertices.map pt3ToArray)),
    ("faces", .list (x.faces.map intsToDV))]
    ++ (match x.colors with | none => [] | some c => [("colors", .list c)]))

/-- `__copy__`: `Mesh(self.vertices, self.faces)` then `_transfer_properties` copies `_colors`
and `_is_color_by_face` verbatim. -/
def meshCopy {P : Type} (x : MeshS P α) : R (MeshS P α) :=
  match meshInit (α := α) x.vertices x.faces none with
  | .error e => .error e
  | .ok y => .ok { y with colors := x.colors, is_color_by_face := x.is_color_by_face }

/-- `tuple(self._vertices) + tuple(self._faces)` (colours are not part of the key). -/
def mesh2Key (x : Mesh2DS α) : Key α := x.vertices.map .p2 ++ x.faces.map .idx
def mesh3Key (x : Mesh3DS α) : Key α := x.vertices.map .p3 ++ x.faces.map .idx

/-! ## Plane (as nested in Face3D) -/

/-- `Plane.to_dict`. -/
def planeToDict (p : PlaneS α) : DV α :=
  .dict [("type", .str "Plane"), ("n", pt3ToArray p.n), ("o", pt3ToArray p.o),
    ("x", pt3ToArray p.x)]

/-- `Plane.__init__(n, o, x)` with an x-axis: the generated `plane_init_x` plus the assertion
`abs(n·x) < 1e-2` on the normalised vectors that the generated kernel leaves out. -/
def planeInitX (M : MathOps α) (n o x : V3 α) : R (PlaneS α) :=
  let p := plane_init_x M n o x
  if |p.n.x * p.x.x + p.n.y * p.x.y + p.n.z * p.x.z| < 1 / 100 then .ok p
  else .error .AssertionError

/-- `Plane.from_dict`: `x` is optional. -/
def planeFromDict (M : MathOps α) (d : DV α) : R (PlaneS α) :=
  match d.present "x" with
  | some xv => do
      let x ← pt3OfArray xv
      let nv ← d.item "n"
      let n ← pt3OfArray nv
      let ov ← d.item "o"
      let o ← pt3OfArray ov
      planeInitX M n o x
  | none => do
      let nv ← d.item "n"
      let n ← pt3OfArray nv
      let ov ← d.item "o"
      let o ← pt3OfArray ov
      pure (plane_init M n o)

/-- `Plane.__key`: `(n, o, x)`. -/
def planeKeyItem (p : PlaneS α) : KItem α := .plane p.n p.o p.x

/-! ## Face3D -/

/-- The two hole-merging routines, uninterpreted: the vertex list of
`Polygon2D.from_shape_with_holes(boundary2d, holes2d)` and of `…_fast`. -/
structure FaceOps (α : Type) where
  merge : List (V2 α) → List (List (V2 α)) → List (V2 α)
  mergeFast : List (V2 α) → List (List (V2 α)) → List (V2 α)

/-- The slots of a `Face3D` that the serialisers, `__copy__` and `__key` read or write. -/
structure Face3DS (α : Type) where
  boundary : List (V3 α)
  plane : PlaneS α
  holes : Option (List (List (V3 α)))
  /-- `_vertices`: the boundary, or the merged boundary-and-holes loop. -/
  vertices : List (V3 α)
  /-- `_polygon2d` (vertex list) — a cache. -/
  poly2d : Option (List (V2 α))
  /-- `_polygon2d._is_clockwise` — a cache inside the cache. -/
  poly_cw : Option Bool
deriving DecidableEq

/-- `Face3D._plane_from_vertices`: fan of cross products from the first vertex, summed,
normalised (zero → +Z), then `Plane(normal_vec, verts[0])`. -/
def planeFromVertices (M : MathOps α) (verts : List (V3 α)) : R (PlaneS α) :=
  match verts with
  | [] => .error .ValueError               -- verts[0] raises inside the try
  | v0 :: rest =>
    let cprods := (rest.zip rest.tail).map (fun p => face3d_normal_from_3pts v0 p.1 p.2)
    let nrm : V3 α := cprods.foldl (fun acc c => ⟨acc.x + c.x, acc.y + c.y, acc.z + c.z⟩) ⟨0, 0, 0⟩
    let nv : V3 α :=
      if nrm.x = 0 ∧ nrm.y = 0 ∧ nrm.z = 0 then ⟨0, 0, 1⟩ else
        let ds := M.sqrt (nrm.x * nrm.x + nrm.y * nrm.y + nrm.z * nrm.z)
        ⟨nrm.x / ds, nrm.y / ds, nrm.z / ds⟩
    .ok (plane_init M nv v0)

/-- `Face3D.polygon2d.is_clockwise` as the constructor evaluates it: the cached flag of the
merged polygon when there are holes, else computed from the projected vertices. -/
def faceReadClockwise (x : Face3DS α) : Bool :=
  match x.poly2d, x.poly_cw with
  | some _, some b => b
  | some p, none => polygon2d_is_clockwise p
  | none, _ => polygon2d_is_clockwise (x.vertices.map (plane_xyz_to_xy x.plane))

/-- State after evaluating `self.is_clockwise` (fills `_polygon2d` and its flag). -/
def faceCachePolygon (x : Face3DS α) : Face3DS α :=
  match x.poly2d, x.poly_cw with
  | some _, some _ => x
  | some p, none => { x with poly_cw := some (polygon2d_is_clockwise p) }
  | none, _ =>
    let p := x.vertices.map (plane_xyz_to_xy x.plane)
    { x with poly2d := some p, poly_cw := some (polygon2d_is_clockwise p) }

/-- `Face3D.__init__`, the part "process boundary and holes input" (after the plane is known). -/
def faceBase (F : FaceOps α) (boundary : List (V3 α)) (pl : PlaneS α)
    (holes : Option (List (List (V3 α)))) : R (Face3DS α) :=
  match holes with
  | some (h :: hs) =>                          -- `if holes:` (non-empty)
    if (h :: hs).any (fun hole => decide (hole.length < 3)) then .error .AssertionError else
    let b2d := boundary.map (plane_xyz_to_xy pl)
    let h2d := (h :: hs).map (fun hole => hole.map (plane_xyz_to_xy pl))
    let vcount := b2d.length + (h2d.map List.length).sum
    let merged := if vcount > 400 then F.mergeFast b2d h2d else F.merge b2d h2d
    .ok ⟨boundary, pl, some (h :: hs), merged.map (plane_xy_to_xyz pl), some merged,
      some (polygon2d_are_clockwise b2d)⟩     -- `_new_poly._is_clockwise = bound_direction`
  | _ => .ok ⟨boundary, pl, none, boundary, none, none⟩

/-- `Face3D.__init__`, the part "enforce counter clockwise vertices":
`if self.is_clockwise is True:` reverse `_boundary`, `_vertices` and `_polygon2d`. -/
def faceEnforce (x : Face3DS α) : Face3DS α :=
  let x1 := faceCachePolygon x
  if faceReadClockwise x then
    { x1 with boundary := x1.boundary.reverse, vertices := x1.vertices.reverse,
              poly2d := x1.poly2d.map List.reverse,
              poly_cw := x1.poly_cw.map (fun b => !b) }
  else x1

/-- `Face3D.__init__(boundary, plane, holes, enforce_right_hand)`. -/
def faceInit (F : FaceOps α) (M : MathOps α) (boundary : List (V3 α)) (plane : Option (PlaneS α))
    (holes : Option (List (List (V3 α)))) (erh : Bool) : R (Face3DS α) :=
  if boundary.length < 3 then .error .AssertionError else
  match (match plane with
    | some p => (.ok p : R (PlaneS α))
    | none => planeFromVertices M boundary) with
  | .error e => .error e
  | .ok pl =>
    match faceBase F boundary pl holes with
    | .error e => .error e
    | .ok x => if erh then .ok (faceEnforce x) else .ok x

/-- `Face3D.to_dict(include_plane, enforce_upper_left=False)`. -/
def faceToDict (x : Face3DS α) (includePlane : Bool) : DV α :=
  .dict ([("type", .str "Face3D"), ("boundary", .list (x.boundary.map pt3ToArray))]
    ++ (if includePlane then [("plane", planeToDict x.plane)] else [])
    ++ (match x.holes with
        | some hs => [("holes", .list (hs.map (fun h => .list (h.map pt3ToArray))))]
        | none => []))

/-- `Face3D.from_dict`. -/
def faceFromDict (F : FaceOps α) (M : MathOps α) (d : DV α) : R (Face3DS α) := do
  let holes ← (match d.present "holes" with
    | some hv => do
        let hl ← hv.asList
        let hs ← mapR loop3OfDV hl
        pure (some hs)
    | none => (pure none : R (Option (List (List (V3 α))))))
  let plane ← (match d.present "plane" with
    | some pv => do let p ← planeFromDict M pv; pure (some p)
    | none => (pure none : R (Option (PlaneS α))))
  let bv ← d.item "boundary"
  let bl ← bv.asList
  let b ← mapR pt3OfArray bl
  faceInit F M b plane holes true

/-- `Face3D.to_array`: `(boundary,)` or `(boundary, hole1, …)`. -/
def faceToArray (x : Face3DS α) : DV α :=
  match x.holes with
  | some hs => .list (.list (x.boundary.map pt3ToArray) :: hs.map (fun h => .list (h.map pt3ToArray)))
  | none => .list [.list (x.boundary.map pt3ToArray)]

/-- `Face3D.from_array`: `cls(boundary, None, holes)`, holes = `None` iff one loop only. -/
def faceFromArray (F : FaceOps α) (M : MathOps α) (a : DV α) : R (Face3DS α) := do
  let loops ← a.asList
  match loops with
  | [] => .error .IndexError
  | b0 :: rest => do
    let bl ← b0.asList
    let b ← mapR pt3OfStar bl
    match rest with
    | [] => faceInit F M b none none true
    | _ => do
      let hs ← mapR loop3OfStar rest
      faceInit F M b none (some hs) true

/-- `Face3D.__copy__`: constructor without the orientation check, then `_vertices`,
`_polygon2d` taken over verbatim. -/
def faceCopy (F : FaceOps α) (M : MathOps α) (x : Face3DS α) : R (Face3DS α) :=
  match faceInit F M x.boundary (some x.plane) x.holes false with
  | .error e => .error e
  | .ok y => .ok { y with vertices := x.vertices, poly2d := x.poly2d, poly_cw := x.poly_cw }

/-- `tuple(self._vertices) + (self._plane,)`. -/
def faceKey (x : Face3DS α) : Key α := x.vertices.map .p3 ++ [planeKeyItem x.plane]

/-! ## Polyface3D -/

structure Polyface3DS (α : Type) where
  vertices : List (V3 α)
  face_indices : List (List (List Nat))
  edge_indices : List (Nat × Nat)
  edge_types : List Nat
  is_solid : Bool
deriving DecidableEq

/-- `Polyface3D.__init__(vertices, face_indices, edge_information)`. -/
def polyfaceInit (vs : List (V3 α)) (fi : List (List (List Nat)))
    (ei : Option (List (Nat × Nat) × List Nat)) : R (Polyface3DS α) :=
  if vs.length < 3 then .error .AssertionError else
  match ei with
  | some (e, t) => .ok ⟨vs, fi, e, t, EdgeInfo.isSolidOf t⟩
  | none =>
    let s := EdgeInfo.edgeInfo fi
    .ok ⟨vs, fi, s.edge_i, s.edge_t, EdgeInfo.isSolidOf s.edge_t⟩

/-- `Polyface3D.to_dict(include_edge_information)`. -/
def polyfaceToDict (x : Polyface3DS α) (includeEdges : Bool) : DV α :=
  .dict ([("type", .str "Polyface3D"), ("vertices", .list (x.vertices.map pt3ToArray)),
    ("face_indices", .list (x.face_indices.map (fun f => .list (f.map natsToDV))))]
    ++ (if includeEdges then
          [("edge_information", .dict [
            ("edge_indices", .list (x.edge_indices.map (fun e => natsToDV [e.1, e.2]))),
            ("edge_types", natsToDV x.edge_types)])]
        else []))

/-- An edge `(a, b)` of `edge_information['edge_indices']`. -/
def edgeOf (d : DV α) : R (Nat × Nat) :=
  match d with
  | .list [a, b] => do
      let x ← natOf a
      let y ← natOf b
      pure (x, y)
  | _ => .error .TypeError

/-- `Polyface3D.from_dict` followed by the constructor, in the order the code evaluates:
`data['vertices']`, `data['face_indices']`, the vertex-count assertion, the index tuples, and
only then `edge_information['edge_indices']` / `['edge_types']`. -/
def polyfaceFromDict (d : DV α) : R (Polyface3DS α) := do
  let eiv := d.present "edge_information"
  let vv ← d.item "vertices"
  let vl ← vv.asList
  let vs ← mapR pt3OfArray vl
  let fv ← d.item "face_indices"
  if vs.length < 3 then .error .AssertionError else do
  let fl ← fv.asList
  let fi ← mapR faceLoopsOfDV fl
  let ei ← (match eiv with
    | some ev => do
        let iv ← ev.item "edge_indices"
        let tv ← ev.item "edge_types"
        let il ← iv.asList
        let e ← mapR edgeOf il
        let tl ← tv.asList
        let t ← mapR natOf tl
        pure (some (e, t))
    | none => (pure none : R (Option (List (Nat × Nat) × List Nat))))
  polyfaceInit vs fi ei

/-- `Polyface3D.__copy__`: `Polyface3D(self.vertices, self.face_indices, self.edge_information)`. -/
def polyfaceCopy (x : Polyface3DS α) : R (Polyface3DS α) :=
  polyfaceInit x.vertices x.face_indices (some (x.edge_indices, x.edge_types))

/-- `tuple(self._vertices) + tuple(self._face_indices)`. -/
def polyfaceKey (x : Polyface3DS α) : Key α := x.vertices.map .p3 ++ x.face_indices.map .loops

/-! ## `==` across classes: the `isinstance` guard -/

/-- A composite object of any of the seven classes. -/
inductive Comp (α : Type) where
  | polygon2d (x : Polygon2DS α)
  | polyline2d (x : Polyline2DS α)
  | polyline3d (x : Polyline3DS α)
  | mesh2d (x : Mesh2DS α)
  | mesh3d (x : Mesh3DS α)
  | face3d (x : Face3DS α)
  | polyface3d (x : Polyface3DS α)

/-- The class name (`type(x).__name__`, also the `type` string of `to_dict`). -/
def Comp.className : Comp α → String
  | .polygon2d _ => "Polygon2D" | .polyline2d _ => "Polyline2D" | .polyline3d _ => "Polyline3D"
  | .mesh2d _ => "Mesh2D" | .mesh3d _ => "Mesh3D" | .face3d _ => "Face3D"
  | .polyface3d _ => "Polyface3D"

/-- `x.__key()`. -/
def Comp.key : Comp α → Key α
  | .polygon2d x => polygonKey x | .polyline2d x => polyline2Key x | .polyline3d x => polyline3Key x
  | .mesh2d x => mesh2Key x | .mesh3d x => mesh3Key x | .face3d x => faceKey x
  | .polyface3d x => polyfaceKey x

/-- `a == b`: `isinstance(other, <own class>) and self.__key() == other.__key()`.
None of the seven classes is a subclass of another, so `isinstance` is "same class". -/
def compEq (a b : Comp α) : Bool :=
  match a, b with
  | .polygon2d x, .polygon2d y => decide (polygonKey x = polygonKey y)
  | .polyline2d x, .polyline2d y => decide (polyline2Key x = polyline2Key y)
  | .polyline3d x, .polyline3d y => decide (polyline3Key x = polyline3Key y)
  | .mesh2d x, .mesh2d y => decide (mesh2Key x = mesh2Key y)
  | .mesh3d x, .mesh3d y => decide (mesh3Key x = mesh3Key y)
  | .face3d x, .face3d y => decide (faceKey x = faceKey y)
  | .polyface3d x, .polyface3d y => decide (polyfaceKey x = polyfaceKey y)
  | _, _ => false

/-- `x.to_dict()` with the default arguments. -/
def Comp.toDict : Comp α → DV α
  | .polygon2d x => polygonToDict x | .polyline2d x => polyline2ToDict x
  | .polyline3d x => polyline3ToDict x | .mesh2d x => mesh2ToDict x | .mesh3d x => mesh3ToDict x
  | .face3d x => faceToDict x true | .polyface3d x => polyfaceToDict x true

/-! ## `dictutil.geometry_dict_to_object` -/

/-- The 14 classes of the table whose `from_dict` is not modelled here (covered by the generated
round-trip kernels of `Gen/Serial.lean`) — the dispatcher's answer for them is "call that
class's `from_dict` on the same dictionary". -/
inductive SimpleClass where
  | Vector2D | Point2D | Ray2D | LineSegment2D | Arc2D
  | Vector3D | Point3D | Ray3D | LineSegment3D | Arc3D | Sphere | Cone | Cylinder
deriving DecidableEq, Repr

/-- What the dispatcher returns. -/
inductive Geo (α : Type) where
  | comp (c : Comp α)
  | plane (p : PlaneS α)
  | simple (c : SimpleClass) (d : DV α)      -- `c.from_dict(d)`, uninterpreted

/-- Entry of `lbt_types`. -/
inductive ClassTag where
  | polygon2d | polyline2d | polyline3d | mesh2d | mesh3d | face3d | polyface3d | plane
  | simple (c : SimpleClass)
deriving DecidableEq, Repr

/-- The table `lbt_types` (21 entries). -/
def lbtTypes (s : String) : Option ClassTag :=
  if s = "Vector2D" then some (.simple .Vector2D)
  else if s = "Point2D" then some (.simple .Point2D)
  else if s = "Ray2D" then some (.simple .Ray2D)
  else if s = "LineSegment2D" then some (.simple .LineSegment2D)
  else if s = "Arc2D" then some (.simple .Arc2D)
  else if s = "Polyline2D" then some .polyline2d
  else if s = "Polygon2D" then some .polygon2d
  else if s = "Mesh2D" then some .mesh2d
  else if s = "Vector3D" then some (.simple .Vector3D)
  else if s = "Point3D" then some (.simple .Point3D)
  else if s = "Ray3D" then some (.simple .Ray3D)
  else if s = "LineSegment3D" then some (.simple .LineSegment3D)
  else if s = "Arc3D" then some (.simple .Arc3D)
  else if s = "Polyline3D" then some .polyline3d
  else if s = "Mesh3D" then some .mesh3d
  else if s = "Plane" then some .plane
  else if s = "Polyface3D" then some .polyface3d
  else if s = "Face3D" then some .face3d
  else if s = "Sphere" then some (.simple .Sphere)
  else if s = "Cone" then some (.simple .Cone)
  else if s = "Cylinder" then some (.simple .Cylinder)
  else none

/-- `lbt_class.from_dict(d)` for a table entry. -/
def classFromDict (F : FaceOps α) (M : MathOps α) (c : ClassTag) (d : DV α) : R (Geo α) :=
  match c with
  | .polygon2d => (polygonFromDict d).map (fun x => .comp (.polygon2d x))
  | .polyline2d => (polyline2FromDict d).map (fun x => .comp (.polyline2d x))
  | .polyline3d => (polyline3FromDict d).map (fun x => .comp (.polyline3d x))
  | .mesh2d => (mesh2FromDict d).map (fun x => .comp (.mesh2d x))
  | .mesh3d => (mesh3FromDict d).map (fun x => .comp (.mesh3d x))
  | .face3d => (faceFromDict F M d).map (fun x => .comp (.face3d x))
  | .polyface3d => (polyfaceFromDict d).map (fun x => .comp (.polyface3d x))
  | .plane => (planeFromDict M d).map .plane
  | .simple c => .ok (.simple c d)

/-- `geometry_dict_to_object(d, raise_exception)`.

    try: obj_type = d['type']            except KeyError: raise ValueError
    try: lbt_class = lbt_types[obj_type]; return lbt_class.from_dict(d)
    except KeyError: raise ValueError if raise_exception else return None

The second `try` also encloses `from_dict`: a `KeyError` raised INSIDE `from_dict` (a missing
mandatory key) is reported like an unknown type. -/
def dictToObject (F : FaceOps α) (M : MathOps α) (d : DV α) (raiseException : Bool) :
    R (Option (Geo α)) :=
  match d.item "type" with
  | .error .KeyError => .error .ValueError
  | .error e => .error e
  | .ok t =>
    let unknown : R (Option (Geo α)) := if raiseException then .error .ValueError else .ok none
    match t with
    | .str s =>
      match lbtTypes s with
      | none => unknown
      | some c =>
        match classFromDict F M c d with
        | .ok g => .ok (some g)
        | .error .KeyError => unknown
        | .error e => .error e
    | .list _ => .error .TypeError         -- unhashable
    | .dict _ => .error .TypeError         -- unhashable
    | _ => unknown                          -- hashable non-string: not in the table

end Lbg.Model.SerialComposite
