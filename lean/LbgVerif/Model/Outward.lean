/-
  Model/Outward — LITERAL executable hand models of the orientation / containment / volume
  routines of `geometry3d/polyface.py` and the `Face3D` helpers they call (properties C07,
  C08, C01), on top of the GENERATED kernels
  `Gen.face3d_normal_from_3pts`, `Gen.plane_init`, `Gen.plane_flip`, `Gen.plane_xyz_to_xy`,
  `Gen.intersect_line3d_plane_r`, `Gen.polygon2d_area`, `Gen.polygon2d_is_clockwise`,
  `Gen.v3_*`, and the hand models `Model.PointInside` (`Polygon2D.is_point_inside[_bound_rect]`),
  `Model.Colinear` (`Face3D._remove_colinear`), `Model.EdgeInfo` (`Polyface3D.__init__`).

  A face is its vertex list (no holes: `_vertices = _boundary`) and its plane.

      # Face3D.__init__(boundary)                       (plane=None, holes=None)
      plane = self._plane_from_vertices(boundary)
      if enforce_right_hand and self.polygon2d.is_clockwise:   reverse the vertices
      # Face3D._plane_from_vertices(verts)
      cprods = [_normal_from_3pts(verts[0], verts[i+1], verts[i+2]) for i in range(len-2)]
      normal = sum(cprods)                     # from [0, 0, 0]
      if normal != [0, 0, 0]:
          ds = math.sqrt(normal[0]**2 + normal[1]**2 + normal[2]**2)
          normal_vec = Vector3D(normal[0]/ds, normal[1]/ds, normal[2]/ds)
      else: normal_vec = Vector3D(0, 0, 1)
      return Plane(normal_vec, verts[0])

      # Face3D.flip
      Face3D(reversed(self.vertices), self.plane.flip(), enforce_right_hand=False)

      # Face3D.intersect_line_ray(line_ray)
      _plane_int = self._plane.intersect_line_ray(line_ray)      # intersect_line3d_plane
      if _plane_int is not None:
          _int2d = self._plane.xyz_to_xy(_plane_int)
          if self.polygon2d.is_point_inside_bound_rect(_int2d):  # default (1, 0.00001)
              return _plane_int
      return None

      # Face3D._point_on_face(tolerance)
      try:
          face = self.remove_colinear_vertices(tolerance)        # Face3D(new, self.plane, erh=False)
          move_vec = self._inward_pointing_vec(face)
      except (AssertionError, ZeroDivisionError):
          return self.center
      move_vec = move_vec * (tolerance + 0.00001)
      point_on_face = face.boundary[0] + move_vec
      vert2d = face.plane.xyz_to_xy(point_on_face)
      if not face.polygon2d.is_point_inside(vert2d):
          point_on_face = face.boundary[0] - move_vec
      return point_on_face
      # Face3D._inward_pointing_vec(face)
      v1 = face.boundary[-1] - face.boundary[0];  v2 = face.boundary[1] - face.boundary[0]
      if v1.angle(v2) == math.pi:  return v1.rotate(face.normal, math.pi / 2).normalize()
      else: return Vector3D((v1.x+v2.x)/2, (v1.y+v2.y)/2, (v1.z+v2.z)/2).normalize()

      # Polyface3D.get_outward_faces(faces, tolerance)
      for i, face in enumerate(faces):
          test_ray = Ray3D(face._point_on_face(tolerance), face.normal)
          n_int = 0
          for _f in faces[i + 1:]:
              if _f.intersect_line_ray(test_ray): n_int += 1
          for _f in faces[:i]:
              if _f.intersect_line_ray(test_ray): n_int += 1
          outward_faces.append(face if n_int % 2 == 0 else face.flip())

      # Polyface3D.is_point_inside(point, test_vector=Vector3D(1, 0, 0))
      if not self.is_solid: return False
      n_int = number of self.faces with _f.intersect_line_ray(Ray3D(point, test_vector))
      return n_int % 2 != 0
      # Polyface3D.volume
      _v = 0
      for face in self.faces: _v += face[0].dot(face.normal) * face.area
      return _v / 3

  `if _f.intersect_line_ray(ray):` tests the truth value of `None` / a `Point3D`; under
  Python 3 a `Point3D` is always true (`__len__` is 3, `__nonzero__` is not consulted), so the
  test is "an intersection exists".

  Exceptions: `AssertionError` (fewer than 3 vertices left, seam assertion of
  `_remove_colinear`) and `ZeroDivisionError` (`angle` of a zero vector) are modelled by
  `Option`; both lead to `self.center`.
-/
import LbgVerif.Basic
import LbgVerif.Gen.Vec
import LbgVerif.Gen.Plane
import LbgVerif.Gen.Face
import LbgVerif.Gen.Isect3
import LbgVerif.Gen.Poly
import LbgVerif.Model.PointInside
import LbgVerif.Model.Colinear
import LbgVerif.Model.EdgeInfo
import Mathlib.Algebra.Order.Field.Rat

namespace Lbg.Model.Outward
open Lbg Lbg.Gen Lbg.Lemmas
variable {α : Type} [Field α] [LinearOrder α]

/-- A `Face3D` without holes: `_vertices` (= `_boundary`) and `_plane`. -/
structure Face (α : Type) where
  verts : List (V3 α)
  plane : PlaneS α
deriving Repr

/-- The double `0.00001` (exact value). -/
def tenMicro : α := 5902958103587057 / 590295810358705651712

/-- Default `test_vector=Vector2D(1, 0.00001)` of `Polygon2D.is_point_inside[_bound_rect]`. -/
def testVector2 : V2 α := ⟨1, tenMicro⟩

/-! ### `Face3D.__init__`, `flip`, `polygon2d`, `area`, `center` -/

/-- The cross-product fan of `Face3D._plane_from_vertices` (same fold as `Props.C06.fanNormal`). -/
def fanNormal : List (V3 α) → V3 α
  | [] => ⟨0, 0, 0⟩
  | p0 :: rest =>
    (rest.zip rest.tail).foldl
      (fun acc p => V3.add acc (face3d_normal_from_3pts p0 p.1 p.2)) ⟨0, 0, 0⟩

/-- `normal_vec` of `Face3D._plane_from_vertices`. -/
def normalVec (M : MathOps α) (verts : List (V3 α)) : V3 α :=
  let n := fanNormal verts
  if n.x = 0 ∧ n.y = 0 ∧ n.z = 0 then ⟨0, 0, 1⟩
  else
    let ds := M.sqrt (n.x * n.x + n.y * n.y + n.z * n.z)
    ⟨n.x / ds, n.y / ds, n.z / ds⟩

/-- `Face3D._plane_from_vertices(verts)` = `Plane(normal_vec, verts[0])`. -/
def planeFromVertices (M : MathOps α) (verts : List (V3 α)) : PlaneS α :=
  plane_init M (normalVec M verts) (verts.head?.getD ⟨0, 0, 0⟩)

/-- `Face3D.polygon2d` of a face without holes. -/
def poly2d (f : Face α) : List (V2 α) := f.verts.map (plane_xyz_to_xy f.plane)

/-- `Face3D(boundary)` (plane from the vertices, `enforce_right_hand=True`). -/
def mkFace (M : MathOps α) (verts : List (V3 α)) : Face α :=
  let pl := planeFromVertices M verts
  if polygon2d_is_clockwise (verts.map (plane_xyz_to_xy pl)) then ⟨verts.reverse, pl⟩
  else ⟨verts, pl⟩

/-- `Face3D.flip()`. -/
def flip (M : MathOps α) (f : Face α) : Face α := ⟨f.verts.reverse, plane_flip M f.plane⟩

/-- `Face3D.area` = `self.polygon2d.area`. -/
def area (f : Face α) : α := polygon2d_area (poly2d f)

/-- `Base2DIn3D.center`: centre of the bounding box found by `_calculate_min_max` (the scan of
`Lemmas/MinMax.lean`, same loop as `Props.C10.minMax3`). -/
def center (verts : List (V3 α)) : V3 α :=
  match verts with
  | [] => ⟨0, 0, 0⟩
  | v0 :: rest =>
    let st := rest.foldl
      (fun (st : (α × α) × (α × α) × (α × α)) v =>
        (scanStep st.1 v.x, scanStep st.2.1 v.y, scanStep st.2.2 v.z))
      ((v0.x, v0.x), (v0.y, v0.y), (v0.z, v0.z))
    ⟨(st.1.1 + st.1.2) / 2, (st.2.1.1 + st.2.1.2) / 2, (st.2.2.1 + st.2.2.2) / 2⟩

/-! ### `Face3D.intersect_line_ray` for a `Ray3D` -/

/-- `Face3D.intersect_line_ray(ray)`. -/
def intersectRay (f : Face α) (ray : LR3 α) : Option (V3 α) :=
  match intersect_line3d_plane_r ray f.plane with
  | none => none
  | some q =>
    if PointInside.isPointInsideBoundRect (poly2d f) (plane_xyz_to_xy f.plane q) testVector2
    then some q else none

/-- `if _f.intersect_line_ray(test_ray):`. -/
def rayHits (ray : LR3 α) (f : Face α) : Bool := (intersectRay f ray).isSome

/-- `for _f in fs: if _f.intersect_line_ray(test_ray): n_int += 1`, continuing from `n`. -/
def countHitsFrom (ray : LR3 α) (n : Nat) (fs : List (Face α)) : Nat :=
  fs.foldl (fun n f => if rayHits ray f then n + 1 else n) n

/-! ### `Face3D._point_on_face` -/

/-- `Vector3D.angle(other)`; `none` = `ZeroDivisionError`.  `math.acos` raises `ValueError`
outside `[-1, 1]`, handled by the `except` branch of the source. -/
def angle (M : MathOps α) (a b : V3 α) : Option α :=
  let m := v3_magnitude M a * v3_magnitude M b
  if m = 0 then none
  else
    let c := v3_dot a b / m
    if c < -1 ∨ 1 < c then
      (if v3_dot a b < 0 then some (M.acos (-1)) else some (M.acos 1))
    else some (M.acos c)

/-- `Face3D._inward_pointing_vec(face)` on the boundary `b` and normal `n` of `face`
(`none` = `ZeroDivisionError`). -/
def inwardPointingVec (M : MathOps α) (b : List (V3 α)) (n : V3 α) : Option (V3 α) :=
  let b0 := b.head?.getD ⟨0, 0, 0⟩
  let v1 := V3.sub (b.getLast?.getD ⟨0, 0, 0⟩) b0
  let v2 := V3.sub (b.getD 1 ⟨0, 0, 0⟩) b0
  match angle M v1 v2 with
  | none => none
  | some a =>
    if a = M.pi then some (v3_normalize M (v3_rotate M v1 n (M.pi / 2)))
    else some (v3_normalize M ⟨(v1.x + v2.x) / 2, (v1.y + v2.y) / 2, (v1.z + v2.z) / 2⟩)

/-- `self.remove_colinear_vertices(tolerance)` for a face without holes: the new vertex list
(`none` = `AssertionError`: seam assertion, or fewer than 3 vertices for the new `Face3D`). -/
def removeColinear (M : MathOps α) (f : Face α) (tol : α) : Option (List (V3 α)) :=
  match Colinear.removeColinearPolygonIdxCode M tol (poly2d f) with
  | none => none
  | some idx =>
    let nv := Colinear.verts (⟨0, 0, 0⟩ : V3 α) f.verts idx
    if nv.length < 3 then none else some nv

/-- `Face3D._point_on_face(tolerance)`. -/
def pointOnFace (M : MathOps α) (f : Face α) (tol : α) : V3 α :=
  match removeColinear M f tol with
  | none => center f.verts
  | some nv =>
    match inwardPointingVec M nv f.plane.n with
    | none => center f.verts
    | some mv =>
      let s := tol + tenMicro
      let move_vec : V3 α := ⟨mv.x * s, mv.y * s, mv.z * s⟩
      let b0 := nv.head?.getD ⟨0, 0, 0⟩
      let p : V3 α := ⟨b0.x + move_vec.x, b0.y + move_vec.y, b0.z + move_vec.z⟩
      let vert2d := plane_xyz_to_xy f.plane p
      if PointInside.isPointInside (nv.map (plane_xyz_to_xy f.plane)) vert2d testVector2 then p
      else ⟨b0.x - move_vec.x, b0.y - move_vec.y, b0.z - move_vec.z⟩

/-! ### `Polyface3D.get_outward_faces` -/

/-- `test_ray = Ray3D(face._point_on_face(tolerance), face.normal)`. -/
def testRay (M : MathOps α) (f : Face α) (tol : α) : LR3 α := ⟨pointOnFace M f tol, f.plane.n⟩

/-- `n_int` of face `i` (= `face`) in `get_outward_faces(faces, tolerance)`. -/
def nInt (M : MathOps α) (faces : List (Face α)) (tol : α) (i : Nat) (face : Face α) : Nat :=
  let ray := testRay M face tol
  countHitsFrom ray (countHitsFrom ray 0 (faces.drop (i + 1))) (faces.take i)

/-- Is face `i` flipped by `get_outward_faces` (`n_int % 2 != 0`)? -/
def flipFlag (M : MathOps α) (faces : List (Face α)) (tol : α) (i : Nat) (face : Face α) : Bool :=
  if nInt M faces tol i face % 2 = 0 then false else true

/-- Per face: is it flipped? -/
def outwardFlags (M : MathOps α) (faces : List (Face α)) (tol : α) : List Bool :=
  faces.zipIdx.map (fun fi => flipFlag M faces tol fi.2 fi.1)

/-- `Polyface3D.get_outward_faces(faces, tolerance)`. -/
def outwardFaces (M : MathOps α) (faces : List (Face α)) (tol : α) : List (Face α) :=
  faces.zipIdx.map (fun fi => if flipFlag M faces tol fi.2 fi.1 then flip M fi.1 else fi.1)

/-! ### `Polyface3D.faces`, `is_point_inside`, `volume` -/

/-- The double `0.01` (tolerance hard-coded in `Polyface3D.faces` / `from_faces`). -/
def tolFaces : α := 5764607523034235 / 576460752303423488

/-- `Polyface3D.faces` for `Polyface3D(vertices, face_indices)` whose faces have one loop each. -/
def polyfaceFaces (M : MathOps α) (verts : List (V3 α)) (idx : List (List Nat)) : List (Face α) :=
  let faces := idx.map (fun loop => mkFace M (loop.map (fun i => verts.getD i ⟨0, 0, 0⟩)))
  if EdgeInfo.isSolid (idx.map (fun loop => [loop])) then outwardFaces M faces tolFaces else faces

/-- `Polyface3D.is_point_inside(point, test_vector)` given `is_solid` and `faces`. -/
def isPointInside (solid : Bool) (faces : List (Face α)) (point test_vector : V3 α) : Bool :=
  if !solid then false
  else
    let n_int := countHitsFrom (⟨point, test_vector⟩ : LR3 α) 0 faces
    if n_int % 2 = 0 then false else true

/-- `Polyface3D(vertices, face_indices).is_point_inside(point, test_vector)`. -/
def polyfaceIsPointInside (M : MathOps α) (verts : List (V3 α)) (idx : List (List Nat))
    (point test_vector : V3 α) : Bool :=
  isPointInside (EdgeInfo.isSolid (idx.map (fun loop => [loop]))) (polyfaceFaces M verts idx)
    point test_vector

/-- The triple `(face[0], face.normal, face.area)` the volume loop reads. -/
def triple (f : Face α) : V3 α × V3 α × α := (f.verts.head?.getD ⟨0, 0, 0⟩, f.plane.n, area f)

/-- `Polyface3D.volume` on the list `self.faces`. -/
def volume (faces : List (Face α)) : α :=
  (faces.foldl (fun v f => v + v3_dot (f.verts.head?.getD ⟨0, 0, 0⟩) f.plane.n * area f) 0) / 3

/-- `Polyface3D(vertices, face_indices).volume`. -/
def polyfaceVolume (M : MathOps α) (verts : List (V3 α)) (idx : List (List Nat)) : α :=
  volume (polyfaceFaces M verts idx)

/-! ### An exact `math` module on ℚ for kernel-checked witnesses

`ratOps.sqrt` is the exact square root on squares of rationals (kernel-checked at every argument
the witnesses' plane frames use, `Props/C07b.lean`) and `⌊√(q·4^64)⌋ / 2^64`-accurate elsewhere (integer Newton iteration, structurally recursive so that the kernel can evaluate it);
`acos`, `sin`, `cos` are only correct at the arguments the models compare them at
(`acos (-1) = π`, `acos 1 = 0`, `sin (π/2) = 1`, `cos (π/2) = 0`): the witnesses of
`Props/C07b.lean` are chosen so that the plane frames are rational and no rotation is taken. -/

/-- Integer Newton iteration for `⌊√n⌋` from a guess `g ≥ ⌊√n⌋`, with fuel. -/
def sqrtIter (n : Nat) : Nat → Nat → Nat
  | 0, g => g
  | fuel + 1, g =>
    let next := (g + n / g) / 2
    if next < g then sqrtIter n fuel next else g

/-- `⌊√n⌋` for `n < 2^1024` (start `2^512`, at most 512 halvings + a few Newton steps). -/
def natSqrt (n : Nat) : Nat := if n = 0 then 0 else sqrtIter n 600 (2 ^ 512)

/-- `⌊√(num·den·4^64)⌋ / (den·2^64)`: exact on squares of rationals, `0` on negatives. -/
def ratSqrt (q : ℚ) : ℚ :=
  if q < 0 then 0
  else (natSqrt (q.num.toNat * q.den * 4 ^ 64) : ℚ) / ((q.den : ℚ) * 2 ^ 64)

/-- The double `math.pi` (exact value). -/
def piQ : ℚ := 884279719003555 / 281474976710656

/-- Exact-on-squares `math` module for the kernel-checked witnesses. -/
def ratOps : MathOps ℚ where
  sqrt := ratSqrt
  sin x := if x = piQ / 2 then 1 else 0
  cos x := if x = 0 then 1 else 0
  tan _ := 0
  acos x := if x = -1 then piQ else if x = 1 then 0 else piQ / 2
  asin _ := 0
  atan2 _ _ := 0
  pi := piQ
  floor x := (Rat.floor x : ℚ)

end Lbg.Model.Outward
