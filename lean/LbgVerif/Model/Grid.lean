/-
  Model.Grid — literal hand models of the grid generators of `Mesh2D`
  (geometry2d/mesh.py l.695-740): `_domain_dimensions`, `_grid_vertices`, `_grid_faces`,
  `_grid_centroids`.  Each Python `for` loop is a `List.foldl` over `List.range` carrying the
  same running variables (`_x`, `_y`, `_c`) and appending to the same list.

  Numbers: generic ordered field (exact arithmetic; executed at ℚ).  `int(_dom / _dim)` is
  truncation toward zero, modelled with `⌊·⌋` / `⌈·⌉` of a `FloorRing`.  In floats the
  division may round across an integer boundary (e.g. `0.3 / 0.1`); that is outside the model.
  `num_x`, `num_y` are natural numbers (`xrange` of a negative number is empty anyway).
-/
import LbgVerif.Basic
import Mathlib.Algebra.Order.Floor.Ring

namespace Lbg.Model
open Lbg

variable {α : Type} [Field α] [LinearOrder α]

/-- `int(x)` for a number: truncation toward zero. -/
def pyInt [FloorRing α] (x : α) : ℤ := if 0 ≤ x then ⌊x⌋ else ⌈x⌉

/-- `Mesh2D._domain_dimensions(_dom, _dim)` → `(_dim, _num)`. -/
def domainDimensions [FloorRing α] (dom dim : α) : α × ℤ :=
  let num : ℤ := pyInt (dom / dim)
  let num : ℤ := if num = 0 then 1 else num
  let dim' : α := dom / (num : α)
  (dim', num)

/-- `Mesh2D._grid_vertices(base_point, num_x, num_y, x_dim, y_dim)`; state of the outer loop:
`(_verts, _x)`, of the inner loop: `(_verts, _y)`. -/
def gridVertices (base : V2 α) (numX numY : ℕ) (xDim yDim : α) : List (V2 α) :=
  ((List.range (numX + 1)).foldl (fun (st : List (V2 α) × α) _i =>
      let inner := (List.range (numY + 1)).foldl (fun (st2 : List (V2 α) × α) _j =>
          (st2.1 ++ [(⟨st.2, st2.2⟩ : V2 α)], st2.2 + yDim)) (st.1, base.y)
      (inner.1, st.2 + xDim)) ([], base.x)).1

/-- `Mesh2D._grid_faces(num_x, num_y)`; state `(_faces, _c)`.  A face tuple is a list of
vertex indices. -/
def gridFaces (numX numY : ℕ) : List (List ℕ) :=
  ((List.range numX).foldl (fun (st : List (List ℕ) × ℕ) _i =>
      let inner := (List.range numY).foldl (fun (st2 : List (List ℕ) × ℕ) _j =>
          (st2.1 ++ [[st2.2, st2.2 + numY + 1, st2.2 + numY + 2, st2.2 + 1]], st2.2 + 1))
          (st.1, st.2)
      (inner.1, inner.2 + 1)) ([], 0)).1

/-- `Mesh2D._grid_centroids(base_point, num_x, num_y, x_dim, y_dim)`. -/
def gridCentroids (base : V2 α) (numX numY : ℕ) (xDim yDim : α) : List (V2 α) :=
  let xHalf := xDim / 2
  let yHalf := yDim / 2
  ((List.range numX).foldl (fun (st : List (V2 α) × α) _i =>
      let inner := (List.range numY).foldl (fun (st2 : List (V2 α) × α) _j =>
          (st2.1 ++ [(⟨st.2 + xHalf, st2.2 + yHalf⟩ : V2 α)], st2.2 + yDim)) (st.1, base.y)
      (inner.1, st.2 + xDim)) ([], base.x)).1

end Lbg.Model
