/- Driver ops for the literal hand models of C07 / C08:
   `Model/EdgeInfo.lean` (edge incidence loop of `Polyface3D.__init__` /
   `MeshBase._compute_edge_info`) and `Model/PointInside.lean` (`Polygon2D.is_point_inside`,
   `is_point_inside_bound_rect`, `is_point_on_edge`, `point_relationship`). -/
import LbgVerif.Wire
import LbgVerif.Model.EdgeInfo
import LbgVerif.Model.PointInside

namespace Lbg.Model
open Lean Lbg.Wire

/-- * `model.edge_info [faces]`, `faces : List (List (List Nat))` (face = list of loops) →
      `[edge_indices as [[a, b], …], edge_types, is_solid]`;
    * `model.mesh_edge_info [faces]`, `faces : List (List Nat)` → `[edge_indices, edge_types]`;
    * `model.point_inside [vertices, point, test_vector]` → bool;
    * `model.point_inside_bound_rect [vertices, point, test_vector]` → bool;
    * `model.point_on_edge [vertices, point, tol]` → bool (float `sqrt`);
    * `model.point_relationship [vertices, point, tol, test_vector]` → −1 / 0 / +1. -/
def dispatchEdgeInfo (op : String) (args : Array Json) : Option (Except String Json) :=
  match op with
  | "model.edge_info" => some (do
      let fs ← (dec (args.getD 0 Json.null) : Except String (List (List (List Nat))))
      let s := EdgeInfo.edgeInfo fs
      pure (Json.arr #[enc s.edge_i, enc s.edge_t, enc (EdgeInfo.isSolidOf s.edge_t)]))
  | "model.mesh_edge_info" => some (do
      let fs ← (dec (args.getD 0 Json.null) : Except String (List (List Nat)))
      let s := EdgeInfo.meshEdgeInfo fs
      pure (Json.arr #[enc s.edge_i, enc s.edge_t]))
  | "model.point_inside" => some (do
      let vs ← (dec (args.getD 0 Json.null) : Except String (List (V2 ℚ)))
      let p ← (dec (args.getD 1 Json.null) : Except String (V2 ℚ))
      let d ← (dec (args.getD 2 Json.null) : Except String (V2 ℚ))
      pure (enc (PointInside.isPointInside vs p d)))
  | "model.point_inside_bound_rect" => some (do
      let vs ← (dec (args.getD 0 Json.null) : Except String (List (V2 ℚ)))
      let p ← (dec (args.getD 1 Json.null) : Except String (V2 ℚ))
      let d ← (dec (args.getD 2 Json.null) : Except String (V2 ℚ))
      pure (enc (PointInside.isPointInsideBoundRect vs p d)))
  | "model.point_on_edge" => some (do
      let vs ← (dec (args.getD 0 Json.null) : Except String (List (V2 ℚ)))
      let p ← (dec (args.getD 1 Json.null) : Except String (V2 ℚ))
      let tol ← (dec (args.getD 2 Json.null) : Except String ℚ)
      pure (enc (PointInside.isPointOnEdge floatOps vs p tol)))
  | "model.point_relationship" => some (do
      let vs ← (dec (args.getD 0 Json.null) : Except String (List (V2 ℚ)))
      let p ← (dec (args.getD 1 Json.null) : Except String (V2 ℚ))
      let tol ← (dec (args.getD 2 Json.null) : Except String ℚ)
      let d ← (dec (args.getD 3 Json.null) : Except String (V2 ℚ))
      pure (enc (PointInside.pointRelationship floatOps vs p tol d)))
  | _ => none

end Lbg.Model
