/- Driver table for the hand-written models and executable specifications. -/
import LbgVerif.Wire

namespace Lbg.Model
open Lean Lbg.Wire

def dispatch (op : String) (args : Array Json) : Option (Except String Json) :=
  match op with
  | "ping" => some (pure (Json.str "pong"))
  | _ => none

end Lbg.Model
