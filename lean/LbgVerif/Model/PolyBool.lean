/-
  Model of the sweep of `ladybug_geometry.boolean` (a port of polybooljs):
  `_Intersecter` (l.338–588), `_RegionIntersecter`, `_SegmentIntersecter`, `_segments`,
  `_combine`, `__operate` and the public `union / intersect / difference /
  difference_reversed / xor`.

  How the mutable Python objects are represented
  ----------------------------------------------
  * every `_Segment` created during a sweep gets an index into the store `St.segs`
    (`SegRec`: start, end, myfill, otherfill, plus `primary` and the `status` pointer of its END
    event node); segments are mutated in place in the code (`seg.end`, `seg.myfill.above`, …)
    and by `List.set` here;
  * an event node is `(segment index, isStart)`: `eventAddSegment` creates exactly one start and
    one end node per segment, `ev.other` is the node with the flag flipped, `ev.pt` is
    `seg.start` / `seg.end` (the code keeps `evEnd.pt == seg.end` in `__eventUpdateEnd`),
    `ev.primary` is the segment's;
  * the event `_LinkedList` is the list `St.events` (head = `getHead()`); `insertBefore(node,
    check)` is `insertBefore`; `node.remove()` is `removeNode` (an unlinked node makes the code
    raise `AttributeError` — here the error "unlinked");
  * the status `_LinkedList` is the list `St.status` of segment indices (a status node holds the
    START event of its segment); `findTransition` is `findIdx`, `before`/`after` the
    neighbours of that position, `insert` is `insertIdx`;
  * `ev.status` (`None` until the start event was put into the status list) is `hasStatus`.

  The `while not eventRoot.isEmpty()` loop is `loop` with fuel (error "fuel" when it runs out:
  the code has no termination argument either).  Python exceptions are `Except String`:
    "zero-length"  the code's own `Exception('PolyBool: Zero-length segment detected …')`
    "unlinked"     `AttributeError` from removing a node that is not in its list
    "nofill"       `AttributeError` from reading `.above` of an `otherfill` that is `None`
    "index"        `IndexError` (`region[-1]` of an empty region)
  The tolerance predicates are the GENERATED `Gen.bool_*` definitions; `_lines_intersect`
  (not generated) is transcribed as `linesIntersect`.
-/
import LbgVerif.Basic
import LbgVerif.Gen.Bool
import LbgVerif.Model.BoolSelect
import LbgVerif.Model.Chainer

namespace Lbg.Model.PolyBool
open Lbg Lbg.Gen

variable {α : Type} [Field α] [LinearOrder α]

/-! ## `_Epsilon` / `BooleanPoint` predicates not generated -/

/-- `BooleanPoint.__calc_along_using_value`. -/
def calcAlong (value tol : α) : Int :=
  if value ≤ -tol then -2
  else if value < tol then -1
  else if value - 1 ≤ -tol then 0
  else if value - 1 < tol then 1
  else 2

/-- `BooleanPoint._lines_intersect(a0, a1, b0, b1, tol)`: `none` when the direction cross
product is below the tolerance, else `(alongA, alongB, pt)`. -/
def linesIntersect (a0 a1 b0 b1 : V2 α) (tol : α) : Option (Int × Int × V2 α) :=
  let adx := a1.x - a0.x
  let ady := a1.y - a0.y
  let bdx := b1.x - b0.x
  let bdy := b1.y - b0.y
  let axb := adx * bdy - ady * bdx
  if |axb| < tol then none
  else
    let dx := a0.x - b0.x
    let dy := a0.y - b0.y
    let a := (bdx * dy - bdy * dx) / axb
    let b := (adx * dy - ady * dx) / axb
    some (calcAlong a tol, calcAlong b tol, ⟨a0.x + a * adx, a0.y + a * ady⟩)

/-! ## Store, events, status -/

/-- One `_Segment` object of a sweep with the per-segment node data. -/
structure SegRec (α : Type) where
  start : V2 α
  stop : V2 α
  myfill : Fill
  otherfill : Option Fill
  primary : Bool
  /-- `evEnd.status is not None` -/
  hasStatus : Bool
deriving Repr

/-- Event node: `(segment index, isStart)`. -/
abbrev Ev := Nat × Bool

/-- State of one `_Intersecter`. -/
structure St (α : Type) where
  segs : List (SegRec α)
  events : List Ev
  status : List Nat
  out : List Nat

/-- Parameters of a sweep: `selfIntersection`, `tol`, and the two flags of `calculate`. -/
structure Cfg (α : Type) where
  selfInt : Bool
  tol : α
  primaryInv : Bool
  secondaryInv : Bool

def SegRec.dflt : SegRec α := ⟨⟨0, 0⟩, ⟨0, 0⟩, ⟨none, none⟩, none, false, false⟩

def St.seg (st : St α) (i : Nat) : SegRec α := st.segs.getD i SegRec.dflt

def St.setSeg (st : St α) (i : Nat) (s : SegRec α) : St α := { st with segs := st.segs.set i s }

/-- `ev.pt` -/
def St.evPt (st : St α) (e : Ev) : V2 α := if e.2 then (st.seg e.1).start else (st.seg e.1).stop

/-- `ev.other.pt` -/
def St.evOtherPt (st : St α) (e : Ev) : V2 α :=
  if e.2 then (st.seg e.1).stop else (st.seg e.1).start

/-- `_Intersecter.__eventCompare`. -/
def eventCompare (tol : α) (p1IsStart : Bool) (p11 p12 : V2 α) (p2IsStart : Bool)
    (p21 p22 : V2 α) : Int :=
  let comp := bool_compare p11 p21 tol
  if comp ≠ 0 then comp
  else if bool_is_equivalent p12 p22 tol then 0
  else if p1IsStart ≠ p2IsStart then (if p1IsStart then 1 else -1)
  else if bool_point_above_or_on_line p12 (if p2IsStart then p21 else p22)
      (if p2IsStart then p22 else p21) tol then 1 else -1

/-- `_LinkedList.insertBefore(node, check)`: before the first node satisfying `check`, else at
the end. -/
def insertBefore {β : Type} (x : β) (check : β → Bool) : List β → List β
  | [] => [x]
  | h :: t => if check h then x :: h :: t else h :: insertBefore x check t

/-- `_Intersecter.__eventAdd(ev, otherPt)` (`otherPt` is always the other end of `ev.seg`). -/
def eventAdd (tol : α) (st : St α) (e : Ev) : St α :=
  let pt := st.evPt e
  let otherPt := st.evOtherPt e
  let check : Ev → Bool := fun here =>
    decide (eventCompare tol e.2 pt otherPt here.2 (st.evPt here) (st.evOtherPt here) < 0)
  { st with events := insertBefore e check st.events }

/-- `eventAddSegment(segment, primary)`: new store entry, start node, end node.  Returns the
state and the new segment's index (= its start event). -/
def eventAddSegment (tol : α) (st : St α) (s : SegRec α) : St α × Nat :=
  let i := st.segs.length
  let st1 : St α := { st with segs := st.segs ++ [s] }
  let st2 := eventAdd tol st1 (i, true)
  (eventAdd tol st2 (i, false), i)

/-- `node.remove()` on the event list. -/
def removeEvent (st : St α) (e : Ev) : Except String (St α) :=
  if st.events.contains e then pure { st with events := st.events.erase e }
  else throw "unlinked"

/-- `__eventDivide(ev, pt)` (with `__eventUpdateEnd` and `segmentCopy` inlined); `i` is the
segment of the start event `ev`. -/
def eventDivide (tol : α) (st : St α) (i : Nat) (pt : V2 α) : Except String (St α) := do
  let s := st.seg i
  let ns : SegRec α := ⟨pt, s.stop, s.myfill, none, s.primary, false⟩
  let st1 ← removeEvent st (i, false)
  let st2 := st1.setSeg i { s with stop := pt }
  let st3 := eventAdd tol st2 (i, false)
  pure (eventAddSegment tol st3 ns).1

/-- `__statusCompare(ev1, ev2)` on the segments of the two start events. -/
def statusCompare (tol : α) (st : St α) (e1 e2 : Nat) : Int :=
  let a1 := (st.seg e1).start
  let a2 := (st.seg e1).stop
  let b1 := (st.seg e2).start
  let b2 := (st.seg e2).stop
  if bool_collinear a1 b1 b2 tol then
    if bool_collinear a2 b1 b2 tol then 1
    else if bool_point_above_or_on_line a2 b1 b2 tol then 1 else -1
  else if bool_point_above_or_on_line a1 b1 b2 tol then 1 else -1

/-- What `__checkIntersection(ev1, ev2)` decides from the four end points (read once, before any
mutation, exactly like the code's locals `a1, a2, b1, b2`): the `__eventDivide(ev, pt)` calls it
makes, in order, and the event it returns (`ev2` or `None`). -/
def intersectionPlan (tol : α) (st : St α) (e1 e2 : Nat) : List (Nat × V2 α) × Option Nat :=
  let a1 := (st.seg e1).start
  let a2 := (st.seg e1).stop
  let b1 := (st.seg e2).start
  let b2 := (st.seg e2).stop
  match linesIntersect a1 a2 b1 b2 tol with
  | none =>
    if !bool_collinear a1 a2 b1 tol then ([], none)
    else if bool_is_equivalent a1 b2 tol || bool_is_equivalent a2 b1 tol then ([], none)
    else
      let a1EquB1 := bool_is_equivalent a1 b1 tol
      let a2EquB2 := bool_is_equivalent a2 b2 tol
      if a1EquB1 && a2EquB2 then ([], some e2)
      else
        let a1Between := !a1EquB1 && bool_between a1 b1 b2 tol
        let a2Between := !a2EquB2 && bool_between a2 b1 b2 tol
        if a1EquB1 then ([if a2Between then (e2, a2) else (e1, b2)], some e2)
        else if a1Between then
          ((if !a2EquB2 then [if a2Between then (e2, a2) else (e1, b2)] else []) ++ [(e2, a1)],
            none)
        else ([], none)
  | some (alongA, alongB, ipt) =>
    ((if alongA = 0 then
        (if alongB = -1 then [(e1, b1)]
         else if alongB = 0 then [(e1, ipt)]
         else if alongB = 1 then [(e1, b2)]
         else [])
      else []) ++
     (if alongB = 0 then
        (if alongA = -1 then [(e2, a1)]
         else if alongA = 0 then [(e2, ipt)]
         else if alongA = 1 then [(e2, a2)]
         else [])
      else []), none)

/-- `__checkIntersection(ev1, ev2)`: carry out the planned divides one after the other (each on
the state left by the previous one); the new state and the returned event. -/
def checkIntersection (tol : α) (st : St α) (e1 e2 : Nat) :
    Except String (St α × Option Nat) := do
  let plan := intersectionPlan tol st e1 e2
  let st' ← plan.1.foldlM (fun s d => eventDivide tol s d.1 d.2) st
  pure (st', plan.2)

/-- `__checkBothIntersections(above, ev, below)`. -/
def checkBoth (tol : α) (st : St α) (above : Option Nat) (e : Nat) (below : Option Nat) :
    Except String (St α × Option Nat) := do
  let (st1, r1) ← match above with
    | some a => checkIntersection tol st e a
    | none => pure (st, none)
  match r1 with
  | some eve => pure (st1, some eve)
  | none =>
    match below with
    | some b => checkIntersection tol st1 e b
    | none => pure (st1, none)

/-- `toggle` as computed (twice) in `calculate` from `ev.seg.myfill`. -/
def toggleOf (f : Fill) : Bool :=
  if f.below = none then true else f.above != f.below

/-- The fill annotation of a start event that stays in the event list (l.539–569), as a function
of the event's segment `s` and of the segment `below` it in the status list (if any). -/
def annotateSeg (cfg : Cfg α) (s : SegRec α) (below : Option (SegRec α)) :
    Except String (SegRec α) :=
  if cfg.selfInt then
    let toggle := toggleOf s.myfill
    let newBelow : Option Bool := match below with
      | none => some cfg.primaryInv
      | some sb => sb.myfill.above
    let newAbove : Option Bool := if toggle then some (!(truthy newBelow)) else newBelow
    pure { s with myfill := ⟨newAbove, newBelow⟩ }
  else
    match s.otherfill with
    | some _ => pure s
    | none =>
      match below with
      | none =>
        let inside := if s.primary then cfg.secondaryInv else cfg.primaryInv
        pure { s with otherfill := some ⟨some inside, some inside⟩ }
      | some sb =>
        if s.primary == sb.primary then
          match sb.otherfill with
          | none => throw "nofill"
          | some o => pure { s with otherfill := some ⟨o.above, o.above⟩ }
        else
          pure { s with otherfill := some ⟨sb.myfill.above, sb.myfill.above⟩ }

/-- What happens to the status segment `se` = `eve.seg` when the new segment `sv` = `ev.seg`
coincides with it (l.521–532): in a self-intersection sweep its `above` flag is toggled when
`sv` would toggle, in a combine sweep it receives `sv`'s fill as `otherfill`. -/
def eveUpdate (cfg : Cfg α) (sv se : SegRec α) : SegRec α :=
  if cfg.selfInt then
    if toggleOf sv.myfill then
      { se with myfill := ⟨some (!(truthy se.myfill.above)), se.myfill.below⟩ }
    else se
  else { se with otherfill := some sv.myfill }

/-- The `myfill` / `otherfill` swap of a secondary segment when its END event is processed
(l.582–585). -/
def finishSeg (s : SegRec α) : Except String (SegRec α) :=
  if !s.primary then
    match s.otherfill with
    | none => throw "nofill"
    | some o => pure { s with myfill := o, otherfill := some s.myfill }
  else pure s

/-- l.521–534: when `__checkBothIntersections` returned a coinciding status segment `eve`, it is
updated and both events of the new segment are unlinked. -/
def applyEve (cfg : Cfg α) (st1 : St α) (i : Nat) : Option Nat → Except String (St α)
  | none => pure st1
  | some e => do
    let st' := st1.setSeg e (eveUpdate cfg (st1.seg i) (st1.seg e))
    let st'' ← removeEvent st' (i, false)
    removeEvent st'' (i, true)

/-- l.539–570 and 587: annotate the segment of the start event, put it into the status list at
the position found before, set `ev.other.status`, unlink the start event. -/
def placeStart (cfg : Cfg α) (st2 : St α) (i k : Nat) (below : Option Nat) :
    Except String (St α) := do
  let s' ← annotateSeg cfg (st2.seg i) (below.map st2.seg)
  let st4 := st2.setSeg i { s' with hasStatus := true }
  pure { st4 with status := st4.status.insertIdx k i, events := st4.events.tail }

/-- One pass of the `while` body for a START event `(i, true)` at the head of the list. -/
def stepStart (cfg : Cfg α) (st : St α) (i : Nat) : Except String (St α) := do
  let k := st.status.findIdx (fun here => decide (statusCompare cfg.tol st i here > 0))
  let above : Option Nat := if k = 0 then none else st.status[k - 1]?
  let below : Option Nat := st.status[k]?
  let r ← checkBoth cfg.tol st above i below
  let st2 ← applyEve cfg r.1 i r.2
  if st2.events.head? ≠ some (i, true) then pure st2      -- `continue`
  else placeStart cfg st2 i k below

/-- l.578–587 for an end event whose status node is at position `idx`: unlink the status node,
swap the fills of a secondary segment, emit the segment, unlink the head event. -/
def finishEnd (st1 : St α) (i idx : Nat) : Except String (St α) := do
  if idx ≥ st1.status.length then throw "unlinked"
  let st2 : St α := { st1 with status := st1.status.eraseIdx idx }
  let s' ← finishSeg (st2.seg i)
  let st3 := st2.setSeg i s'
  match st3.events with
  | [] => throw "unlinked"
  | _ :: rest => pure { st3 with out := st3.out ++ [i], events := rest }

/-- One pass of the `while` body for an END event `(i, false)` at the head of the list. -/
def stepEnd (cfg : Cfg α) (st : St α) (i : Nat) : Except String (St α) := do
  if !(st.seg i).hasStatus then throw "zero-length"
  let idx := st.status.idxOf i
  let st1 ← if 0 < idx ∧ idx + 1 < st.status.length then
      (do let r ← checkIntersection cfg.tol st (st.status.getD (idx - 1) 0)
                    (st.status.getD (idx + 1) 0)
          pure r.1)
    else pure st
  finishEnd st1 i idx

/-- One pass of the `while` body. -/
def stepEvent (cfg : Cfg α) (st : St α) : Except String (St α) :=
  match st.events.head? with
  | none => pure st
  | some (i, true) => stepStart cfg st i
  | some (i, false) => stepEnd cfg st i

/-- `while not eventRoot.isEmpty()` with fuel. -/
def loop (cfg : Cfg α) : Nat → St α → Except String (St α)
  | 0, st => if st.events.isEmpty then pure st else throw "fuel"
  | n + 1, st =>
    if st.events.isEmpty then pure st
    else do
      let st' ← stepEvent cfg st
      loop cfg n st'

/-- The `segments` list `calculate` returns. -/
def outSegs (st : St α) : List (FSeg α) :=
  st.out.map fun i => let s := st.seg i; ⟨s.start, s.stop, s.myfill, s.otherfill⟩

def St.empty : St α := ⟨[], [], [], []⟩

/-! ## `_RegionIntersecter`, `_SegmentIntersecter` -/

/-- `_RegionIntersecter.addRegion(region)`. -/
def addRegion (tol : α) (st : St α) (region : List (V2 α)) : Except String (St α) :=
  match region.getLast? with
  | none => throw "index"
  | some last =>
    pure ((region.foldl (fun (acc : St α × V2 α) pt2 =>
      let pt1 := acc.2
      let forward := bool_compare pt1 pt2 tol
      if forward = 0 then (acc.1, pt2)
      else
        let s : SegRec α :=
          ⟨if forward < 0 then pt1 else pt2, if forward < 0 then pt2 else pt1,
            ⟨none, none⟩, none, true, false⟩
        ((eventAddSegment tol acc.1 s).1, pt2)) (st, last)).1)

/-- `_segments(poly, tol)`: the self-intersection sweep over all regions of a polygon. -/
def segments (regions : List (List (V2 α))) (inverted : Bool) (tol : α) (fuel : Nat) :
    Except String (List (FSeg α)) := do
  let st ← regions.foldlM (addRegion tol) St.empty
  let st' ← loop ⟨true, tol, inverted, false⟩ fuel st
  pure (outSegs st')

/-- `segmentCopy(seg.start, seg.end, seg)` + `eventAddSegment(…, primary)` for a list. -/
def addSegs (tol : α) (st : St α) (segs : List (FSeg α)) (primary : Bool) : St α :=
  segs.foldl (fun acc s =>
    (eventAddSegment tol acc ⟨s.start, s.stop, s.myfill, none, primary, false⟩).1) st

/-- `_combine(segments1, segments2, tol)`: the `combined` list. -/
def combine (segs1 : List (FSeg α)) (inv1 : Bool) (segs2 : List (FSeg α)) (inv2 : Bool)
    (tol : α) (fuel : Nat) : Except String (List (FSeg α)) := do
  let st := addSegs tol (addSegs tol St.empty segs1 true) segs2 false
  let st' ← loop ⟨false, tol, inv1, inv2⟩ fuel st
  pure (outSegs st')

/-- `_polygon(segments, tol)`: the regions of the returned `BooleanPolygon`. -/
def polygon (segs : List (FSeg α)) (tol : α) : List (List (V2 α)) :=
  Chainer.chainer (segs.map fun s => (s.start, s.stop)) tol

/-- `__operate(poly1, poly2, selector, tol)` = the public `union`, `intersect`, `difference`,
`difference_reversed`, `xor`: regions and `is_inverted` of the returned `BooleanPolygon`. -/
def operate (op : Op) (regions1 : List (List (V2 α))) (inv1 : Bool)
    (regions2 : List (List (V2 α))) (inv2 : Bool) (tol : α) (fuel : Nat) :
    Except String (List (List (V2 α)) × Bool) := do
  let s1 ← segments regions1 inv1 tol fuel
  let s2 ← segments regions2 inv2 tol fuel
  let comb ← combine s1 inv1 s2 inv2 tol fuel
  let sel := selectOp op comb inv1 inv2
  pure (polygon sel.1 tol, sel.2)

end Lbg.Model.PolyBool
