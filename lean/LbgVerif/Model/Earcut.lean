/-
  LbgVerif.Model.Earcut — executable model of the ear-clipping LOOP of
  `ladybug_geometry/triangulation.py` (`earcut(data, hole_indices, dim=2)`), non-hashed path.

  Representation.  A ring of the Python doubly linked `_Node` list is a `List Node`
  (`Node` = vertex index `i` + the `steiner` flag) *rotated so that the cursor node is the
  head*; `p.next` is the second element, `p.prev` the last one.  Node identity in the Python
  code (`ear == stop`, `p != end`, `p != start`) only ever asks "has the cursor come back to
  a remembered node"; the model keeps the number of cursor steps instead:

  * `_earcut_linked`:  `k` = number of `ear = next` steps since `stop` was set; `ear == stop`
    iff `k = ring.length`.
  * `_filter_points(start, end)`:  `r` = number of `p = p.next` steps still to go before
    `p == end` with `again == False` (`r = length` for `end = start`, `r = 1` for
    `end = start.next`; after a removal `p = end = p.prev; again = True` gives `r = length`).
  * `_cure_local_intersections`:  `r` = number of loop bodies still to run before
    `p == start` (after a cure `p = start = b; p = p.next` gives `r = length − 1`).

  All arithmetic goes through the generated kernels of `Gen/Tri.lean` (`earcut_area`,
  `earcut_equals`, `earcut_intersects`, `earcut_point_in_triangle`).  Coordinates are looked
  up through `v : ℕ → V2 α` (node `.x/.y` are copies of `data[i], data[i+1]`).

  The run is recorded as a list of events (`Ev`) in emission order; the triangle index list
  returned by `earcut` is `trianglesOf`.  Recursion is structural on a fuel argument; when
  fuel runs out the current ring is abandoned with an `oof` event (the driver reports it);
  `Lemmas/EarcutFuel.lean` proves that the fuel passed here is never exhausted.

  Not modelled: `dim ≠ 2`; the z-order hash (`_index_curve`, `_is_ear_hashed`: the model
  runs `_is_ear` instead — compared against the real hashed path by the correspondence
  module).  Modelled by its observed effect rather than pointer by pointer: the corner of
  `_eliminate_holes` where `outerNode` itself has been unlinked (see `eliminateHole`).
-/
import LbgVerif.Gen.Tri

namespace Lbg.Model.Earcut
open Lbg Lbg.Gen

/-- A `_Node`: index into the vertex table (`node.i // dim`) and the `steiner` flag. -/
structure Node where
  i : Nat
  st : Bool
deriving DecidableEq, Repr

/-- A ring of the linked list, cursor node first. -/
abbrev Ring := List Node

/-- Events of a run, in the order they happen. -/
inductive Ev where
  /-- `_earcut_linked` cut the ear `prev, ear, next`. -/
  | ear (a b c : Node)
  /-- `_cure_local_intersections` emitted `(a, p, b)` and removed `p, q = p.next`. -/
  | cure (a p q b : Node)
  /-- `_filter_points` removed this node (collinear or duplicate). -/
  | filt (a b c : Node)
  /-- `_split_earcut` cut the ring along the diagonal `a — b`. -/
  | split (a b : Node)
  /-- `_eliminate_hole`: the hole ring `r` (seen from its leftmost node) was linked into the
  outer ring through a bridge (`true`), or no bridge was found and it was skipped. -/
  | hole (r : Ring) (bridged : Bool)
  /-- A ring on which the code stops without emitting anything more (fewer than three
  nodes, `_filter_points` returned `None`, or `_split_earcut` found no diagonal). -/
  | left (r : Ring)
  /-- Model fuel exhausted on this ring (never happens with the fuel `earcut` passes;
  checked by the correspondence module). -/
  | oof (r : Ring)
deriving DecidableEq, Repr

/-- `p.prev` moves to the front: the ring seen from `p.prev` after `p` (the old head) has
been dropped is `rotR tail`. -/
def rotR {β : Type} (l : List β) : List β := l.getLast?.toList ++ l.dropLast

section kernels
variable {α : Type} [Field α] [LinearOrder α]
variable (v : Nat → V2 α)

/-- `_area(p, q, r)` on nodes. -/
def area (p q r : Node) : α := earcut_area (v p.i) (v q.i) (v r.i)

/-- `_equals(p, q)` on nodes. -/
def eqN (p q : Node) : Bool := earcut_equals (v p.i) (v q.i)

/-- `_intersects(p1, q1, p2, q2)` on nodes. -/
def isectN (p1 q1 p2 q2 : Node) : Bool := earcut_intersects (v p1.i) (v q1.i) (v p2.i) (v q2.i)

/-- `_point_in_triangle(a.x, a.y, b.x, b.y, c.x, c.y, p.x, p.y)`. -/
def pitN (a b c p : Node) : Bool :=
  earcut_point_in_triangle (v a.i).x (v a.i).y (v b.i).x (v b.i).y (v c.i).x (v c.i).y
    (v p.i).x (v p.i).y

/-- `_locally_inside(a, b)` with `ap = a.prev`, `an = a.next`. -/
def locallyInside (ap a an b : Node) : Bool :=
  if area v ap a an < 0 then
    decide (0 ≤ area v a b an) && decide (0 ≤ area v a ap b)
  else
    decide (area v a b ap < 0) || decide (area v a an b < 0)

/-- `_signed_area(data, start, end, dim)`: `Σ (x_j − x_i)·(y_i + y_j)` with `j = i − 1`
(wrapping). -/
def signedArea (l : List (V2 α)) : α :=
  (cyclicPairs l).foldl (fun acc p => acc + (p.1.x - p.2.x) * (p.2.y + p.1.y)) 0

/-! ### `_is_ear` -/

/-- The loop of `_is_ear`: `p` runs over the middle elements of the consecutive triples
`(p.prev, p, p.next)` of `ring.tail`; a point inside the candidate ear that is not a convex
corner vetoes it. -/
def noBlocker (a b c : Node) : List Node → Bool
  | pp :: p :: pn :: t =>
    if pitN v a b c p && decide (0 ≤ area v pp p pn) then false
    else noBlocker a b c (p :: pn :: t)
  | _ => true

/-- `_is_ear(ear)` for `ear` = head of the ring. -/
def isEar (ring : Ring) : Bool :=
  match ring with
  | b :: tl =>
    let a := tl.getLast?.getD b
    let c := tl.head?.getD b
    if 0 ≤ area v a b c then false else noBlocker v a b c tl
  | [] => false

/-! ### `_filter_points` -/

/-- The removal test of `_filter_points`. -/
def removable (a b c : Node) : Bool :=
  !b.st && (eqN v b c || decide (area v a b c = 0))

/-- Result of `_filter_points`: the ring seen from the returned node, the removed nodes
(as `filt` events), `dead = true` when the code returned `None` (`p == p.next`), and the
position in `ring` of one tracked node; the flag says that the tracked node itself was
removed and the position is that of its nearest surviving predecessor (the node reached
from it through the `prev` pointers it had when removed). -/
structure FRes where
  ring : Ring
  evs : List Ev
  dead : Bool
  pos : Option (Nat × Bool)
deriving Repr

/-- Position of the tracked node after the cursor moved to `p.next`. -/
def posStep (n : Nat) (pos : Option (Nat × Bool)) : Option (Nat × Bool) :=
  pos.map fun k => (if k.1 = 0 then n - 1 else k.1 - 1, k.2)

/-- Position of the tracked node after the head was removed and the cursor moved to
`p.prev` (old last element, now first). -/
def posDrop (n : Nat) (pos : Option (Nat × Bool)) : Option (Nat × Bool) :=
  pos.map fun k => if k.1 = 0 then (0, true) else if k.1 = n - 1 then (0, k.2) else k

/-- The `while again or p != end` loop of `_filter_points`; `ring.head` = `p`, `r` = steps
to go (see the file header); `pos` follows one node through the rotations/removals. -/
def filterLoop : Nat → Ring → Nat → List Ev → Option (Nat × Bool) → FRes
  | 0, ring, _, acc, pos => ⟨ring, acc, false, pos⟩
  | f + 1, ring, r, acc, pos =>
    if r = 0 then ⟨ring, acc, false, pos⟩ else
    match ring with
    | [] => ⟨[], acc, true, none⟩
    | b :: tl =>
      let a := tl.getLast?.getD b
      let c := tl.head?.getD b
      if removable v a b c then
        let ring' := rotR tl
        let pos' := posDrop ring.length pos
        if ring'.length ≤ 1 then ⟨ring', acc ++ [Ev.filt a b c], true, pos'⟩
        else filterLoop f ring' ring'.length (acc ++ [Ev.filt a b c]) pos'
      else filterLoop f (tl ++ [b]) (r - 1) acc (posStep ring.length pos)

/-- Fuel that `filterLoop` cannot exhaust on a ring of `n` nodes. -/
def filterFuel (n : Nat) : Nat := (n + 1) * (n + 1) + 1

/-- `_filter_points(start)` (`end = start`). -/
def filterAll (ring : Ring) : FRes := filterLoop v (filterFuel ring.length) ring ring.length [] none

/-- `_filter_points(start, start.next)`. -/
def filterTwo (ring : Ring) : FRes := filterLoop v (filterFuel ring.length) ring 1 [] none

/-! ### `_cure_local_intersections` -/

/-- The loop of `_cure_local_intersections`; `ring.head` = `p`, `r` = bodies to go.
For rings of fewer than four nodes the Python condition is false (`a` and `b` are the same
node, or all four orientation values vanish), the model does not evaluate it there. -/
def cureLoop : Nat → Ring → Nat → List Ev → List Ev × Ring
  | 0, ring, _, acc => (acc, ring)
  | f + 1, ring, r, acc =>
    if r = 0 then (acc, ring) else
    match ring with
    | p :: q :: b :: bn :: rest =>
      let a := (bn :: rest).getLast?.getD bn
      let ap := (b :: bn :: rest).dropLast.getLast?.getD b
      if !eqN v a b && isectN v a p q b && locallyInside v ap a p b && locallyInside v q b bn a then
        -- remove p and q; p = start = b; p = p.next
        cureLoop f (bn :: rest ++ [b]) (rest.length + 1) (acc ++ [Ev.cure a p q b])
      else cureLoop f (q :: b :: bn :: rest ++ [p]) (r - 1) acc
    | p :: tl => cureLoop f (tl ++ [p]) (r - 1) acc
    | [] => (acc, [])

/-- `_cure_local_intersections(start, triangles, dim)`. -/
def cure (ring : Ring) : List Ev × Ring :=
  cureLoop v (filterFuel ring.length) ring ring.length []

/-! ### `_split_earcut`, `_is_valid_diagonal`, `_split_polygon` -/

/-- The edges `(p, p.next)` of the ring starting at the head. -/
def ringEdges (ring : Ring) : List (Node × Node) := ring.zip (ring.rotate 1)

/-- `_intersects_polygon(a, b)`. -/
def intersectsPolygon (ring : Ring) (a b : Node) : Bool :=
  (ringEdges ring).any fun e =>
    (e.1.i != a.i && e.2.i != a.i && e.1.i != b.i && e.2.i != b.i) && isectN v e.1 e.2 a b

/-- `_middle_inside(a, b)`: parity of the edges crossed by the ray from the midpoint. -/
def middleInside (ring : Ring) (a b : Node) : Bool :=
  let px := ((v a.i).x + (v b.i).x) / 2
  let py := ((v a.i).y + (v b.i).y) / 2
  (ringEdges ring).foldl (fun inside e =>
    let p := v e.1.i
    let n := v e.2.i
    if (decide (py < p.y) != decide (py < n.y)) &&
        decide (px < (n.x - p.x) * (py - p.y) / (n.y - p.y) + p.x)
    then !inside else inside) false

/-- `a.i != b.i and _is_valid_diagonal(a, b)` for `a` = head of `ring`, `b = ring[j]`. -/
def validDiagonal (ring : Ring) (j : Nat) : Bool :=
  match ring with
  | a :: tl =>
    let n := ring.length
    let b := ring.getD j a
    let an := tl.head?.getD a
    let ap := tl.getLast?.getD a
    let bp := ring.getD (j - 1) a
    let bn := ring.getD ((j + 1) % n) a
    a.i != b.i && (an.i != b.i && ap.i != b.i && !intersectsPolygon v ring a b &&
      locallyInside v ap a an b && locallyInside v bp b bn a && middleInside v ring a b)
  | [] => false

/-- `_split_polygon(a, b)` for `a` = head, `b = ring[j]`: the ring through `a` (seen from
`a`) and the new ring (seen from the returned `b2`). -/
def splitAt (ring : Ring) (j : Nat) : Ring × Ring :=
  match ring with
  | a :: tl =>
    let b := ring.getD j a
    (a :: b :: ring.drop (j + 1), ⟨b.i, false⟩ :: ⟨a.i, false⟩ :: tl.take (j - 1))
  | [] => ([], [])

/-- First `b` (`j = 2 … n − 2`) with a valid diagonal from the head. -/
def findB (ring : Ring) : Option Nat :=
  (List.range (ring.length - 3)).map (· + 2) |>.find? (validDiagonal v ring)

/-- The double loop of `_split_earcut`: first `(a, b)` in scan order; returns the ring
rotated to `a`, and `j`. -/
def findSplit (ring : Ring) : Option (Ring × Nat) :=
  (List.range ring.length).findSome? fun s =>
    (findB v (ring.rotate s)).map fun j => (ring.rotate s, j)

/-! ### `_earcut_linked` -/

/-- The ear-slicing loop with its fallbacks.  `ring.head` = `ear`, `k` = steps since `stop`,
`pass` ∈ {0, 1, 2} (`None` and `0` behave alike). -/
def linked : Nat → Ring → Nat → Nat → List Ev
  | 0, ring, _, _ => [Ev.oof ring]
  | f + 1, ring, k, pass =>
    match ring with
    | b :: c :: d :: rest =>
      if isEar v ring then
        let a := (d :: rest).getLast?.getD d
        -- _remove_node(ear); ear = stop = next.next
        Ev.ear a b c :: linked f (d :: rest ++ [c]) 0 pass
      else
        let ring' := c :: d :: rest ++ [b]
        if k + 1 = ring.length then
          if pass = 0 then
            let fr := filterAll v ring'
            fr.evs ++ (if fr.dead then [Ev.left fr.ring] else linked f fr.ring 0 1)
          else if pass = 1 then
            let cr := cure v ring'
            cr.1 ++ linked f cr.2 0 2
          else
            match findSplit v ring' with
            | none => [Ev.left ring']
            | some (rg, j) =>
              let s := splitAt rg j
              let f1 := filterTwo v s.1
              let f2 := filterTwo v s.2
              Ev.split (rg.head?.getD b) (rg.getD j b) :: f1.evs ++ f2.evs ++
                (if f1.dead then [Ev.left f1.ring] else linked f f1.ring 0 0) ++
                (if f2.dead then [Ev.left f2.ring] else linked f f2.ring 0 0)
        else linked f ring' (k + 1) pass
    | _ => [Ev.left ring]

/-- Fuel for a ring of `n` nodes (far above what a run needs). -/
def linkedFuel (n : Nat) : Nat := 4 * (n + 2) * (n + 2) * (n + 2)

/-! ### `_linked_list` and the top level -/

/-- `_linked_list(data, start, end, dim, clockwise)` for the vertex indices `idx`
(`start/dim … end/dim − 1`): orientation by signed area, duplicate end removal; the ring is
returned seen from the returned node `last`. -/
def linkedList (idx : List Nat) (clockwise : Bool) : Ring :=
  let sa := signedArea (idx.map v)
  let order := if clockwise == decide (0 < sa) then idx else idx.reverse
  let nodes : Ring := order.map fun i => ⟨i, false⟩
  match nodes.getLast?, nodes.head? with
  | some last, some first =>
    if nodes.length = 1 then nodes
    else if eqN v last first then nodes.dropLast else rotR nodes
  | _, _ => []

/-- The flat triangle index list (`triangles.append(prev.i // dim)` …). -/
def trianglesOf : List Ev → List Nat
  | [] => []
  | Ev.ear a b c :: t => a.i :: b.i :: c.i :: trianglesOf t
  | Ev.cure a p _ b :: t => a.i :: p.i :: b.i :: trianglesOf t
  | _ :: t => trianglesOf t

/-- Was the fuel exhausted anywhere? -/
def outOfFuel (evs : List Ev) : Bool := evs.any fun e => match e with | Ev.oof _ => true | _ => false

/-- The events of `earcut(data)` without holes, `n` = number of vertices. -/
def runSimple (n : Nat) : List Ev :=
  let ring := linkedList v (List.range n) true
  -- `if not outerNode: return triangles` is the `left []` answer of `linked` on `[]`
  linked v (linkedFuel ring.length) ring 0 0

/-! ### Holes: `_eliminate_holes`, `_eliminate_hole`, `_find_hole_bridge` -/

/-- Node `k` of the ring, cyclically. -/
def nodeAt (ring : Ring) (k : Nat) : Node := ring.getD (k % ring.length) ⟨0, false⟩

/-- The update test of `_get_leftmost`:
`p.x < leftmost.x or (p.x == leftmost.x and p.y < leftmost.y)`. -/
def leftOf (p best : V2 α) : Prop := p.x < best.x ∨ (p.x = best.x ∧ p.y < best.y)

instance (p best : V2 α) : Decidable (leftOf p best) := by unfold leftOf; infer_instance

/-- `_get_leftmost(start)`: position of the first node, from the head, that is minimal for
"smaller `x`, ties by smaller `y`" (a later node with the same `x` and `y` does not replace
an earlier one). -/
def leftmostPos (ring : Ring) : Nat :=
  match ring with
  | [] => 0
  | h :: _ =>
    ((List.range ring.length).foldl (fun (best : Nat × V2 α) k =>
      let p := v (nodeAt ring k).i
      if leftOf p best.2 then (k, p) else best) (0, v h.i)).1

/-- `x > q` where `none` stands for `float('-inf')`. -/
def aboveOpt (q : Option α) (x : α) : Bool :=
  match q with | none => true | some q => decide (q < x)

/-- `x < q` where `none` stands for `float('inf')`. -/
def belowOpt (x : α) (q : Option α) : Bool :=
  match q with | none => true | some q => decide (x < q)

/-- State of the first loop of `_find_hole_bridge`: `qx` (`none` = −∞), `m`, and the early
`return p` / `return p.next` (all nodes as positions in the ring). -/
structure Scan (α : Type) where
  qx : Option α
  m : Option Nat
  ret : Option Nat

/-- First loop of `_find_hole_bridge`: the edge hit first by the ray from the hole point to
the left. -/
def bridgeScan (ring : Ring) (hx hy : α) : Scan α :=
  let n := ring.length
  (List.range n).foldl (fun (s : Scan α) k =>
    if s.ret.isSome then s else
    let p := v (nodeAt ring k).i
    let pn := v (nodeAt ring (k + 1)).i
    if hy ≤ p.y ∧ pn.y ≤ hy ∧ pn.y - p.y ≠ 0 then
      let x := p.x + (hy - p.y) * (pn.x - p.x) / (pn.y - p.y)
      if x ≤ hx ∧ aboveOpt s.qx x = true then
        if x = hx ∧ hy = p.y then { s with qx := some x, ret := some k }
        else if x = hx ∧ hy = pn.y then { s with qx := some x, ret := some ((k + 1) % n) }
        else { qx := some x, m := some (if p.x < pn.x then k else (k + 1) % n), ret := none }
      else s
    else s) ⟨none, none, none⟩

/-- State of the second loop: current `m`, `tanMin` (`none` = +∞), `break` taken. -/
structure Pick (α : Type) where
  m : Nat
  tanMin : Option α
  stopped : Bool

/-- `_find_hole_bridge(hole, outerNode)`: position of the bridge node in `ring`
(`ring.head` = `outerNode`), `none` when the code returns `None`. -/
def findHoleBridge (ring : Ring) (hole : Node) : Option Nat :=
  let n := ring.length
  let hx := (v hole.i).x
  let hy := (v hole.i).y
  let s := bridgeScan v ring hx hy
  match s.ret with
  | some k => some k
  | none =>
    match s.m, s.qx with
    | some m0, some qx =>
      if hx = qx then some ((m0 + n - 1) % n) else
      let mx := (v (nodeAt ring m0).i).x
      let my := (v (nodeAt ring m0).i).y
      let r := (List.range (n - 1)).foldl (fun (s : Pick α) t =>
        if s.stopped then s else
        let k := (m0 + 1 + t) % n
        let pk := nodeAt ring k
        let p := v pk.i
        let h1 := if hy < my then hx else qx
        let h2 := if hy < my then qx else hx
        if p.x ≤ hx ∧ mx ≤ p.x ∧ earcut_point_in_triangle h1 hy mx my h2 hy p.x p.y = true then
          if hx - p.x = 0 then { s with stopped := true } else
          let tan := |hy - p.y| / (hx - p.x)
          if (belowOpt tan s.tanMin = true ∨
              (s.tanMin = some tan ∧ (v (nodeAt ring s.m).i).x < p.x)) ∧
              locallyInside v (nodeAt ring (k + n - 1)) pk (nodeAt ring (k + 1)) hole = true then
            { s with m := k, tanMin := some tan }
          else s
        else s) ⟨m0, none, false⟩
      some r.m
    | _, _ => none

/-- State while holes are linked in: the outer ring seen from `outerNode`, the events so
far, and `dead = true` when `outerNode` has become `None`. -/
structure HState where
  ring : Ring
  evs : List Ev
  dead : Bool

/-- One round of the second loop of `_eliminate_holes`:
`_eliminate_hole(hole, outerNode); outerNode = _filter_points(outerNode, outerNode.next)`.
`hring` is the hole ring seen from its leftmost node.  When the `_filter_points(b, b.next)`
inside `_eliminate_hole` removes `outerNode` itself, the Python code goes on with that
unlinked node; see the comment at `stale` below for what that call then does (validated
by the correspondence module, not derived).  Error: the code crashes because `outerNode`
is `None` when another hole is processed. -/
def eliminateHole (st : HState) (hring : Ring) : Except String HState :=
  if st.dead then .error "outerNode is None" else
  match hring with
  | [] => .error "empty hole"
  | hole :: hrest =>
    match findHoleBridge v st.ring hole with
    | none =>
      let fr := filterTwo v st.ring
      .ok ⟨fr.ring, st.evs ++ Ev.hole hring false :: fr.evs, fr.dead⟩
    | some k =>
      match st.ring.drop k with
      | [] => .error "bridge position out of range"   -- unreachable: `k < length`
      | a :: post =>
        -- _split_polygon(a, hole): … a → hole → (hole ring) → b2 → a2 → a.next …
        let merged := st.ring.take k ++
          a :: (hole :: hrest ++ (⟨hole.i, false⟩ : Node) :: ⟨a.i, false⟩ :: post)
        let pb2 := k + 1 + hring.length
        -- _filter_points(b2, b2.next), following outerNode (position 0 of `merged`)
        let rot := merged.rotate pb2
        let fr := filterLoop v (filterFuel rot.length) rot 1 []
          (some (merged.length - pb2, false))
        match fr.pos with
        | none => .error "lost outerNode"
        | some (q, stale) =>
          let ring1 := fr.ring.rotate q
          -- `stale`: `outerNode` was removed; `_filter_points(outerNode, outerNode.next)`
          -- walks the stale `prev` pointers back to the nearest surviving node and then
          -- runs a full cycle from there
          let fr2 := if stale then filterAll v ring1 else filterTwo v ring1
          .ok ⟨fr2.ring, st.evs ++ Ev.hole hring true :: fr.evs ++ fr2.evs, fr2.dead⟩

/-- `hole_indices` → the index ranges of the holes. -/
def holeRanges (holes : List Nat) (n : Nat) : List (List Nat) :=
  (holes.zip (holes.drop 1 ++ [n])).map fun se => (List.range (se.2 - se.1)).map (· + se.1)

/-- Sort key of `sorted(queue, key=lambda i: i.x)`: `x` of the ring's head node. -/
def headX (r : Ring) : α := (v (r.head?.getD ⟨0, false⟩).i).x

/-- Insert a ring before the first ring of the (sorted) list whose key is not smaller. -/
def insertByX (r : Ring) : List Ring → List Ring
  | [] => [r]
  | s :: t => if headX v r ≤ headX v s then r :: s :: t else s :: insertByX r t

/-- `sorted(queue, key=lambda i: i.x)`: stable insertion sort (rings with equal keys keep
their order), structurally recursive so that concrete runs evaluate in the kernel. -/
def sortByX (l : List Ring) : List Ring := l.foldr (insertByX v) []

/-- First loop of `_eliminate_holes`: every hole as a ring seen from its leftmost node
(single-vertex holes are Steiner points), sorted by that node's `x` (stable). -/
def holeQueue (holes : List Nat) (n : Nat) : List Ring :=
  sortByX v ((holeRanges holes n).map fun idx =>
    let l := linkedList v idx false
    let l := if l.length = 1 then l.map fun nd => { nd with st := true } else l
    l.rotate (leftmostPos v l))

/-- `_eliminate_holes(data, hole_indices, outerNode, dim)`. -/
def eliminateHoles (outer : Ring) (holes : List Nat) (n : Nat) : Except String HState :=
  (holeQueue v holes n).foldlM (eliminateHole v) ⟨outer, [], false⟩

/-- The events of `earcut(data, hole_indices)`, `n` = total number of vertices. -/
def run (n : Nat) (holes : List Nat) : Except String (List Ev) :=
  match holes with
  | [] => .ok (runSimple v n)
  | h0 :: _ =>
    let ring := linkedList v (List.range h0) true
    if ring.isEmpty then .ok [Ev.left ring] else
    match eliminateHoles v ring holes n with
    | .error e => .error e
    | .ok st =>
      if st.dead then .ok (st.evs ++ [Ev.left st.ring])
      else .ok (st.evs ++ linked v (linkedFuel st.ring.length) st.ring 0 0)

end kernels

/-- `earcut(vertices)` (no holes, `dim = 2`): the flat triangle index list. -/
def earcut {α : Type} [Field α] [LinearOrder α] (pts : List (V2 α)) : List Nat :=
  trianglesOf (runSimple (fun i => pts.getD i ⟨0, 0⟩) pts.length)

end Lbg.Model.Earcut
