/-
  Driver entry points of the hand model in `Model/Network.lean` (C09: graph-based splitting).

  Optional trailing arguments: "lat" = run with the kernel-computable `latticeOps` instead of
  IEEE doubles (`floatOps`); "old" = the model of the code before the repairs 0a32af8 / 2c5e096
  (graph_cut, min_cycles, split_*); default: the code as it is now.

  model.coord_key          [pt, t]                       → [kx, ky]  (coordinates_hash(pt, t))
  model.key_grid           [t]                           → [base, rtol, ztol]
  model.graph_ops          [tol, ops]                    → graph dump after the ops
        ops: ["add", pt, [adj pts], ext] | ["insert", base pt, new pt, next pt, ext]
             | ["remove_adj", pt, [pts]] | ["loop", [pts], outer?]
  model.graph_from_shape   [boundary, holes, tol]        → graph dump (from_shape_with_holes)
  model.intersect_segments [segs, adds, tol]             → pieces [[p1, p2] …]
  model.graph_cut          [boundary, holes, cuts, tol]  → graph dump (from_shape_to_split) | null
  model.min_cycles         [boundary, holes, cuts, tol]  → list of key lists | null
  model.split_pieces       [boundary, holes, cuts, tol]  → loops before merge_faces_to_holes | null
  model.split_with_line    [boundary, holes, cut, tol]   → {"faces": [[boundary, holes] …] | null,
                                                            "pieces": loops | null, "raise": bool}
  model.split_with_lines   [boundary, holes, cuts, tol]  → same
  model.split_with_polyline [boundary, holes, pts, tol]  → same
  model.merge_faces        [loops]                       → faces
  model.split_report       [boundary, holes, cuts | pts, tol, mode]  (mode "line" | "lines" |
        "polyline") → {"shape": dump, "cut": dump | {"raise": true}, "cycles": … | null,
        "split": {"faces", "pieces", "raise"}}: the four answers above with the graph built once
        ("cut" / "cycles" use ALL the segments, "split" the segments the method keeps)

  graph dump = {"nodes": [[key, pt, adj keys, ext] …], "outer": key | null, "holes": [keys]}
  ("raise": true replaces the dump when remove_colinear_vertices raised).
-/
import LbgVerif.Wire
import LbgVerif.Model.Network

namespace Lbg.Model
open Lean Lbg.Wire Lbg.Model.Net

private def argN {τ : Type} [Codec τ] (args : Array Json) (i : Nat) : Except String τ :=
  dec (args.getD i Json.null)

abbrev NKey := Int × Int

private def dumpGraph (g : Graph ℚ NKey) : Json :=
  Json.mkObj [
    ("nodes", Json.arr (g.nodes.map (fun n =>
      Json.arr #[enc n.key, enc n.pt, enc n.adj, enc n.ext])).toArray),
    ("outer", enc g.outerRoot),
    ("holes", enc g.holeRoots)]

private def opsOf (args : Array Json) (i : Nat) : MathOps ℚ :=
  if (args.toList.drop i).contains (Json.str "lat") then latticeOps else floatOps

/-- The current code (`fixed = true`) unless "old" is among the trailing arguments (the code
before the repairs 0a32af8 / 2c5e096). -/
private def fixOf (args : Array Json) (i : Nat) : Bool :=
  !((args.toList.drop i).contains (Json.str "old"))

private def segs (cs : List (V2 ℚ × V2 ℚ)) : List (LR2 ℚ) := cs.map segOf

/-- {"faces": result | null, "pieces": split_faces before merge_faces_to_holes | null,
"raise": remove_colinear_vertices of the boundary / a hole raised}. -/
private def encSplit (fx : Bool) (M : MathOps ℚ) (b : List (V2 ℚ)) (hs : List (List (V2 ℚ)))
    (sg : Option (List (LR2 ℚ))) (tol : ℚ) (r : Option (List (FaceL ℚ))) : Json :=
  let pieces : Option (List (List (V2 ℚ))) := match sg with
    | some s => splitPiecesG fx M (coordKey tol) b hs s tol
    | none => none
  let raised : Bool := match sg with
    | some s => (fromShapeToSplitG fx M (coordKey tol) b hs s tol).isNone
    | none => false
  Json.mkObj [("faces", enc r), ("pieces", enc pieces), ("raise", Json.bool raised)]

private def graphOp (hash : V2 ℚ → NKey) (g : Graph ℚ NKey) (j : Json) :
    Except String (Graph ℚ NKey) := do
  match j with
  | Json.arr a =>
    match a.getD 0 Json.null with
    | Json.str "add" =>
      let p ← (dec (a.getD 1 Json.null) : Except String (V2 ℚ))
      let adj ← (dec (a.getD 2 Json.null) : Except String (List (V2 ℚ)))
      let ext ← (dec (a.getD 3 Json.null) : Except String (Option Bool))
      pure (addNode hash g p adj ext).1
    | Json.str "insert" =>
      let b ← (dec (a.getD 1 Json.null) : Except String (V2 ℚ))
      let n ← (dec (a.getD 2 Json.null) : Except String (V2 ℚ))
      let x ← (dec (a.getD 3 Json.null) : Except String (V2 ℚ))
      let ext ← (dec (a.getD 4 Json.null) : Except String (Option Bool))
      pure (insertNode hash g (hash b) n (hash x) ext).1
    | Json.str "remove_adj" =>
      let p ← (dec (a.getD 1 Json.null) : Except String (V2 ℚ))
      let ps ← (dec (a.getD 2 Json.null) : Except String (List (V2 ℚ)))
      pure (removeAdj g (hash p) (ps.map hash))
    | Json.str "loop" =>
      let ps ← (dec (a.getD 1 Json.null) : Except String (List (V2 ℚ)))
      let o ← (dec (a.getD 2 Json.null) : Except String Bool)
      pure (addLoop hash g o ps)
    | _ => throw "bad graph op"
  | _ => throw "bad graph op"

def dispatchNetwork (op : String) (args : Array Json) : Option (Except String Json) :=
  match op with
  | "model.coord_key" => some (do
      let p ← (argN args 0 : Except String (V2 ℚ))
      let t ← (argN args 1 : Except String ℚ)
      pure (enc (coordKeyG (keyGrid t) p)))
  | "model.key_grid" => some (do
      let t ← (argN args 0 : Except String ℚ)
      let g := keyGrid t
      pure (Json.arr #[enc g.base, enc g.rtol, enc g.ztol]))
  | "model.graph_ops" => some (do
      let tol ← (argN args 0 : Except String ℚ)
      let ops ← (match args.getD 1 Json.null with
        | Json.arr a => pure a.toList
        | _ => throw "expected list of ops" : Except String (List Json))
      let g ← ops.foldlM (graphOp (coordKey tol)) (Graph.empty : Graph ℚ NKey)
      pure (dumpGraph g))
  | "model.graph_from_shape" => some (do
      let b ← (argN args 0 : Except String (List (V2 ℚ)))
      let hs ← (argN args 1 : Except String (List (List (V2 ℚ))))
      let tol ← (argN args 2 : Except String ℚ)
      pure (dumpGraph (fromShapeWithHoles (coordKey tol) b hs)))
  | "model.graph_intersect_segments" => some (do
      let s ← (argN args 0 : Except String (List (V2 ℚ × V2 ℚ)))
      let a ← (argN args 1 : Except String (List (V2 ℚ × V2 ℚ)))
      let tol ← (argN args 2 : Except String ℚ)
      let M := opsOf args 3
      pure (enc ((intersectSegments M (segs s) (segs a) tol).map
        (fun (l : LR2 ℚ) => (l.p, Gen.seg2_p2 l)))))
  | "model.graph_cut" => some (do
      let b ← (argN args 0 : Except String (List (V2 ℚ)))
      let hs ← (argN args 1 : Except String (List (List (V2 ℚ))))
      let cs ← (argN args 2 : Except String (List (V2 ℚ × V2 ℚ)))
      let tol ← (argN args 3 : Except String ℚ)
      let M := opsOf args 4
      match fromShapeToSplitG (fixOf args 4) M (coordKey tol) b hs (segs cs) tol with
      | some g => pure (dumpGraph g)
      | none => pure (Json.mkObj [("raise", Json.bool true)]))
  | "model.min_cycles" => some (do
      let b ← (argN args 0 : Except String (List (V2 ℚ)))
      let hs ← (argN args 1 : Except String (List (List (V2 ℚ))))
      let cs ← (argN args 2 : Except String (List (V2 ℚ × V2 ℚ)))
      let tol ← (argN args 3 : Except String ℚ)
      let M := opsOf args 4
      match fromShapeToSplitG (fixOf args 4) M (coordKey tol) b hs (segs cs) tol with
      | some g => pure (enc (allMinCycles M g))
      | none => pure Json.null)
  | "model.split_pieces" => some (do
      let b ← (argN args 0 : Except String (List (V2 ℚ)))
      let hs ← (argN args 1 : Except String (List (List (V2 ℚ))))
      let cs ← (argN args 2 : Except String (List (V2 ℚ × V2 ℚ)))
      let tol ← (argN args 3 : Except String ℚ)
      let M := opsOf args 4
      pure (enc (splitPiecesG (fixOf args 4) M (coordKey tol) b hs (segs cs) tol)))
  | "model.split_with_line" => some (do
      let b ← (argN args 0 : Except String (List (V2 ℚ)))
      let hs ← (argN args 1 : Except String (List (List (V2 ℚ))))
      let c ← (argN args 2 : Except String (V2 ℚ × V2 ℚ))
      let tol ← (argN args 3 : Except String ℚ)
      let M := opsOf args 4
      pure (encSplit (fixOf args 4) M b hs (lineSegs b c tol) tol
        (splitWithLineG (fixOf args 4) M (coordKey tol) b hs c tol)))
  | "model.split_with_lines" => some (do
      let b ← (argN args 0 : Except String (List (V2 ℚ)))
      let hs ← (argN args 1 : Except String (List (List (V2 ℚ))))
      let cs ← (argN args 2 : Except String (List (V2 ℚ × V2 ℚ)))
      let tol ← (argN args 3 : Except String ℚ)
      let M := opsOf args 4
      pure (encSplit (fixOf args 4) M b hs (linesSegs M b cs tol) tol
        (splitWithLinesG (fixOf args 4) M (coordKey tol) b hs cs tol)))
  | "model.split_with_polyline" => some (do
      let b ← (argN args 0 : Except String (List (V2 ℚ)))
      let hs ← (argN args 1 : Except String (List (List (V2 ℚ))))
      let pl ← (argN args 2 : Except String (List (V2 ℚ)))
      let tol ← (argN args 3 : Except String ℚ)
      let M := opsOf args 4
      pure (encSplit (fixOf args 4) M b hs (polylineSegs M b pl tol) tol
        (splitWithPolylineG (fixOf args 4) M (coordKey tol) b hs pl tol)))
  | "model.split_report" => some (do
      let b ← (argN args 0 : Except String (List (V2 ℚ)))
      let hs ← (argN args 1 : Except String (List (List (V2 ℚ))))
      let tol ← (argN args 3 : Except String ℚ)
      let mode ← (match args.getD 4 Json.null with
        | Json.str m => pure m
        | _ => throw "mode expected" : Except String String)
      let M := opsOf args 5
      let fx := fixOf args 5
      let key := coordKey tol
      let (allSegs, relSegs) ← (match mode with
        | "polyline" => do
            let pl ← (argN args 2 : Except String (List (V2 ℚ)))
            pure (Gen.polyline2_segments pl false, polylineSegs M b pl tol)
        | "line" => do
            let cs ← (argN args 2 : Except String (List (V2 ℚ × V2 ℚ)))
            pure (segs cs, match cs with
              | [c] => lineSegs b c tol
              | _ => none)
        | _ => do
            let cs ← (argN args 2 : Except String (List (V2 ℚ × V2 ℚ)))
            pure (segs cs, linesSegs M b cs tol)
        : Except String (List (LR2 ℚ) × Option (List (LR2 ℚ))))
      let g1 := fromShapeToSplitG fx M key b hs allSegs tol
      let g2 : Option (Option (Graph ℚ NKey)) := match relSegs with
        | none => none
        | some r => some (if r = allSegs then g1 else fromShapeToSplitG fx M key b hs r tol)
      let pieces : Option (List (List (V2 ℚ))) := match g2 with
        | some (some g) => some (piecesOfGraph M g tol)
        | _ => none
      let faces : Option (List (FaceL ℚ)) := match pieces with
        | some p => facesOfPiecesG fx p
        | none => none
      let raised : Bool := match g2 with
        | some none => true
        | _ => false
      pure (Json.mkObj [
        ("shape", dumpGraph (fromShapeWithHoles key b hs)),
        ("cut", match g1 with
          | some g => dumpGraph g
          | none => Json.mkObj [("raise", Json.bool true)]),
        ("cycles", match g1 with
          | some g => enc (allMinCycles M g)
          | none => Json.null),
        ("split", Json.mkObj [("faces", enc faces), ("pieces", enc pieces),
          ("raise", Json.bool raised)])]))
  | "model.merge_faces" => some (do
      let ls ← (argN args 0 : Except String (List (List (V2 ℚ))))
      pure (enc (mergeFacesToHoles ls)))
  | _ => none

end Lbg.Model
