/- Driver table for the triangulation certificate `Spec/TriCert` (property C05).

   op "tricert"  args = [loops, verts, faces]
     loops : [[[x, y], …], …]   boundary first, then the holes  (numbers as "n/d")
     verts : [[x, y], …]        vertex table of the returned mesh
     faces : [[i, j, k], …]     faces of the returned mesh
   answer: object with one boolean per clause (see Spec/TriCert.lean) and the numbers. -/
import LbgVerif.Wire
import LbgVerif.Spec.TriCert

namespace Lbg.Model
open Lean Lbg.Wire Lbg.Spec.TriCert

def encReport (r : Report ℚ) : Json :=
  Json.mkObj [
    ("ok", Json.bool r.ok),
    ("provenance", Json.bool r.provenance),
    ("orientation", Json.bool r.orientation),
    ("edges", Json.bool r.edges),
    ("edges_refined", Json.bool r.edgesRefined),
    ("area", Json.bool r.area),
    ("centroids", Json.bool r.centroids),
    ("input_distinct", Json.bool r.inputDistinct),
    ("sign", enc r.sign),
    ("area2_tris", enc r.area2Tris),
    ("area2_shape", enc r.area2Shape),
    ("n_tris", enc r.nTris),
    ("witness", Json.str r.witness)]

def dispatchTriCert (op : String) (args : Array Json) : Option (Except String Json) :=
  match op with
  | "tricert" => some (do
      let loops ← (dec (args.getD 0 Json.null) : Except String (List (List (V2 ℚ))))
      let verts ← (dec (args.getD 1 Json.null) : Except String (List (V2 ℚ)))
      let faces ← (dec (args.getD 2 Json.null) : Except String (List (List Nat)))
      pure (encReport (certify loops verts faces)))
  | "tri_inside" => some (do
      let loop ← (dec (args.getD 0 Json.null) : Except String (List (V2 ℚ)))
      let p ← (dec (args.getD 1 Json.null) : Except String (V2 ℚ))
      pure (Json.str (if onLoop loop p then "on" else
        if crossingNumber loop p % 2 == 1 then "in" else "out")))
  | "tri_shoelace2" => some (do
      let loop ← (dec (args.getD 0 Json.null) : Except String (List (V2 ℚ)))
      pure (enc (shoelace2 loop)))
  | _ => none

end Lbg.Model
