/-
  Driver entry points of the hand models in `Model/SubRects.lean` (C19).  The `math` module is
  the driver's Float-backed `floatOps` (`sqrt`, `acos`, `sin`, `cos` through IEEE doubles, `floor`
  exact).

  model.sub_rects_ratio      [plane, parent_base, parent_height, ratio, sub_rect_height,
                              sill_height, horizontal_separation, vertical_separation]
                             → list of faces (each a list of [x, y, z]); error = the exception name
  model.sub_rects_dimensions [plane, parent_base, parent_height, sub_rect_height, sub_rect_width,
                              sill_height, horizontal_separation] → list of faces
  model.sub_faces_ratio_rectangle [plane, clean boundary, ratio, tolerance]
                             → null (outside the modelled case) | list of faces
  model.polygon_offset       [vertices, distance] → list of [x, y]
  (plane = [n, o, k, x, y] as everywhere on the wire)
-/
import LbgVerif.Wire
import LbgVerif.Model.SubRects
import Mathlib.Data.Rat.Floor

namespace Lbg.Model
open Lean Lbg.Wire

private def argS {τ : Type} [Codec τ] (args : Array Json) (i : Nat) : Except String τ :=
  dec (args.getD i Json.null)

/-- Fuel for the `while` loop of `subdivide_evenly(number)`: `number + 1` passes suffice. -/
private def fuelFor (number : ℚ) : Nat := (Rat.ceil |number|).toNat + 3

def dispatchSubRects (op : String) (args : Array Json) : Option (Except String Json) :=
  match op with
  | "model.sub_rects_ratio" => some (do
      let pl ← (argS args 0 : Except String (PlaneS ℚ))
      let b ← (argS args 1 : Except String ℚ)
      let h ← (argS args 2 : Except String ℚ)
      let r ← (argS args 3 : Except String ℚ)
      let srh ← (argS args 4 : Except String ℚ)
      let sill ← (argS args 5 : Except String ℚ)
      let hs ← (argS args 6 : Except String ℚ)
      let vs ← (argS args 7 : Except String ℚ)
      let fuel := fuelFor (ratioNumDiv floatOps b hs)
      let res ← subRectsRatio floatOps fuel pl b h r srh sill hs vs
      pure (enc res))
  | "model.sub_rects_dimensions" => some (do
      let pl ← (argS args 0 : Except String (PlaneS ℚ))
      let b ← (argS args 1 : Except String ℚ)
      let h ← (argS args 2 : Except String ℚ)
      let srh ← (argS args 3 : Except String ℚ)
      let w ← (argS args 4 : Except String ℚ)
      let sill ← (argS args 5 : Except String ℚ)
      let hs0 ← (argS args 6 : Except String ℚ)
      let hs := dimsHorizSep w hs0
      let fuel := fuelFor (dimsNumDiv floatOps b w hs)
      let res ← subRectsDims floatOps fuel pl b h srh w sill hs0
      pure (enc res))
  | "model.sub_faces_ratio_rectangle" => some (do
      let pl ← (argS args 0 : Except String (PlaneS ℚ))
      let vs ← (argS args 1 : Except String (List (V3 ℚ)))
      let r ← (argS args 2 : Except String ℚ)
      let tol ← (argS args 3 : Except String ℚ)
      pure (enc (subFacesRatioRectangle floatOps pl vs r tol)))
  | "model.polygon_offset" => some (do
      let vs ← (argS args 0 : Except String (List (V2 ℚ)))
      let d ← (argS args 1 : Except String ℚ)
      pure (enc (polygonOffset floatOps vs d)))
  | _ => none

end Lbg.Model
