/- Driver table for Model.MeshCache (property C03, mesh classes).

   `model.mesh2d_history [vertices, faces, seeded_slots, ops]` → one entry per op: the
   complete slot state after the op (`{"vertices":…, "faces":…, "min":…, "max":…,
   "center":…, "centroid":…, "area":…, "face_areas": null | {"inl": c} | {"inr": […]},
   "face_centroids":…, "face_area_centroids":…}`, numbers as "n/d" strings, empty slot =
   null) or `{"err":"assert"}` when the python method would raise (state unchanged).
   `seeded_slots`: object with any of the slot keys (the pre-seeding factories).
   ops: `{"op":"read_area"}`, `{"op":"move","v":[x,y]}`, `{"op":"rotate","c":…,"s":…,"o":[x,y]}`,
   `{"op":"reflect","n":[x,y],"o":[x,y]}`, `{"op":"scale","k":…,"o":[x,y]}`,
   `{"op":"scale_world","k":…}`, `{"op":"remove_faces_only","pattern":[bool…]}`,
   `{"op":"remove_vertices","pattern":[bool…]}`, `{"op":"join","other":{state}}`, … -/
import LbgVerif.Wire
import LbgVerif.Model.MeshCache
import LbgVerif.Model.MeshCache3

namespace Lbg.Model
open Lean Lbg.Wire Lbg.Model.MeshCache Lbg.Model.MeshCache3

namespace MeshCacheWire

def optField {τ : Type} [Codec τ] (j : Json) (k : String) : Except String (Option τ) :=
  match j.getObjVal? k with
  | .ok v => dec v
  | .error _ => pure none

def field {τ : Type} [Codec τ] (j : Json) (k : String) : Except String τ := do
  let v ← j.getObjVal? k
  dec v

def decSlots (vs : List (V2 ℚ)) (fs : List (List Nat)) (j : Json) :
    Except String (Mesh2C ℚ) := do
  pure { vertices := vs, faces := fs,
         min := ← optField j "min", max := ← optField j "max",
         center := ← optField j "center", centroid := ← optField j "centroid",
         area := ← optField j "area", face_areas := ← optField j "face_areas",
         face_centroids := ← optField j "face_centroids",
         face_area_centroids := ← optField j "face_area_centroids" }

def decState (j : Json) : Except String (Mesh2C ℚ) := do
  let vs ← (field j "vertices" : Except String (List (V2 ℚ)))
  let fs ← (field j "faces" : Except String (List (List Nat)))
  decSlots vs fs j

def encState (s : Mesh2C ℚ) : Json :=
  Json.mkObj [("vertices", enc s.vertices), ("faces", enc s.faces),
    ("min", enc s.min), ("max", enc s.max), ("center", enc s.center),
    ("centroid", enc s.centroid), ("area", enc s.area), ("face_areas", enc s.face_areas),
    ("face_centroids", enc s.face_centroids),
    ("face_area_centroids", enc s.face_area_centroids)]

def decOp (j : Json) : Except String (Op ℚ) := do
  let name ← j.getObjValAs? String "op"
  match name with
  | "read_area" => pure .readArea
  | "read_face_areas" => pure .readFaceAreas
  | "read_face_centroids" => pure .readFaceCentroids
  | "read_face_area_centroids" => pure .readFaceAreaCentroids
  | "read_min" => pure .readMin
  | "read_max" => pure .readMax
  | "read_center" => pure .readCenter
  | "read_centroid" => pure .readCentroid
  | "duplicate" => pure .duplicate
  | "triangulated" => pure .triangulated
  | "move" => pure (.move (← field j "v"))
  | "rotate" => pure (.rotate (← field j "c") (← field j "s") (← field j "o"))
  | "reflect" => pure (.reflect (← field j "n") (← field j "o"))
  | "scale" => pure (.scale (← field j "k") (← field j "o"))
  | "scale_world" => pure (.scaleWorld (← field j "k"))
  | "remove_faces_only" => pure (.removeFacesOnly (← field j "pattern"))
  | "remove_vertices" => pure (.removeVertices (← field j "pattern"))
  | "join" => do
      let o ← j.getObjVal? "other"
      pure (.joinWith (← decState o))
  | _ => throw s!"unknown mesh op {name}"

/-- Decidable version of `Op.Ok`. -/
def okB (s : Mesh2C ℚ) : Op ℚ → Bool
  | .removeFacesOnly pat => pat.length == s.faces.length && !(zipFilter s.faces pat).isEmpty
  | .removeVertices vpat =>
    vpat.length == s.vertices.length && !(s.faces.filter (faceKept vpat)).isEmpty
  | _ => true

/-- The library's default test vector `Vector2D(1, 0.00001)` as exact doubles. -/
def stdTv : V2 ℚ := ⟨1, floatToRat 0.00001⟩

def runHistory (s0 : Mesh2C ℚ) (ops : List (Op ℚ)) : List Json :=
  (ops.foldl (fun (acc : Mesh2C ℚ × List Json) op =>
    if okB acc.1 op then
      let s1 := step (stdKern stdTv) acc.1 op
      (s1, encState s1 :: acc.2)
    else (acc.1, Json.mkObj [("err", Json.str "assert")] :: acc.2)) (s0, [])).2.reverse

/-! Mesh3D (reduced machine): `model.mesh3d_history`, same conventions; slots `area`,
`face_areas`, `face_normals` (`{"inl":[x,y,z]}` = one shared normal); `math.sqrt` = IEEE. -/

def decSlots3 (vs : List (V3 ℚ)) (fs : List (List Nat)) (j : Json) :
    Except String (Mesh3C ℚ) := do
  pure { vertices := vs, faces := fs, area := ← optField j "area",
         face_areas := ← optField j "face_areas", face_normals := ← optField j "face_normals" }

def encState3 (s : Mesh3C ℚ) : Json :=
  Json.mkObj [("vertices", enc s.vertices), ("faces", enc s.faces), ("area", enc s.area),
    ("face_areas", enc s.face_areas), ("face_normals", enc s.face_normals)]

def decOp3 (j : Json) : Except String (Op3 ℚ) := do
  let name ← j.getObjValAs? String "op"
  match name with
  | "read_area" => pure .readArea
  | "read_face_areas" => pure .readFaceAreas
  | "read_face_normals" => pure .readFaceNormals
  | "duplicate" => pure .duplicate
  | "move" => pure (.move (← field j "v"))
  | "rotate_xy" => pure (.rigid (ptRotateXY3 (← field j "c") (← field j "s") (← field j "o")))
  | "reflect" => pure (.rigid (ptReflect3 (← field j "n") (← field j "o")))
  | "scale" => pure (.scale (← field j "k") (← field j "o"))
  | "scale_world" => pure (.scaleWorld (← field j "k"))
  | "remove_faces_only" => pure (.removeFacesOnly (← field j "pattern"))
  | _ => throw s!"unknown mesh3d op {name}"

def okB3 (s : Mesh3C ℚ) : Op3 ℚ → Bool
  | .removeFacesOnly pat => pat.length == s.faces.length && !(zipFilter s.faces pat).isEmpty
  | _ => true

def runHistory3 (s0 : Mesh3C ℚ) (ops : List (Op3 ℚ)) : List Json :=
  (ops.foldl (fun (acc : Mesh3C ℚ × List Json) op =>
    if okB3 acc.1 op then
      let s1 := step3 floatOps acc.1 op
      (s1, encState3 s1 :: acc.2)
    else (acc.1, Json.mkObj [("err", Json.str "assert")] :: acc.2)) (s0, [])).2.reverse

end MeshCacheWire

open MeshCacheWire in
def dispatchMeshCache (op : String) (args : Array Json) : Option (Except String Json) :=
  match op with
  | "model.mesh2d_history" => some (do
      let vs ← (dec (args.getD 0 Json.null) : Except String (List (V2 ℚ)))
      let fs ← (dec (args.getD 1 Json.null) : Except String (List (List Nat)))
      let seeded := args.getD 2 Json.null
      let s0 ← decSlots vs fs seeded
      let ops ← match args.getD 3 Json.null with
        | Json.arr a => a.toList.mapM decOp
        | _ => throw "expected op list"
      pure (Json.arr (runHistory s0 ops).toArray))
  | "model.mesh3d_history" => some (do
      let vs ← (dec (args.getD 0 Json.null) : Except String (List (V3 ℚ)))
      let fs ← (dec (args.getD 1 Json.null) : Except String (List (List Nat)))
      let s0 ← decSlots3 vs fs (args.getD 2 Json.null)
      let ops ← match args.getD 3 Json.null with
        | Json.arr a => a.toList.mapM decOp3
        | _ => throw "expected op list"
      pure (Json.arr (runHistory3 s0 ops).toArray))
  | _ => none

end Lbg.Model
