/-
  Model of `ladybug_geometry.boolean.__select(segments, selection)` (l.779–797) and of the five
  wrappers `_select_union / _select_intersect / _select_difference / _select_difference_rev /
  _select_xor` (l.837–1014).

  The model CALLS the generated definitions of `Gen/Tables.lean` (regenerated from the source
  on every check): the five table literals, the index formula `select_index` /
  `select_index_nofill` and the five `is_inverted` formulas — a change of a table entry, of
  the index weights or of an inversion flag in `boolean.py` changes this model.
-/
import LbgVerif.Basic
import LbgVerif.Gen.Tables

namespace Lbg.Model.PolyBool
open Lbg

/-- `_Fill(below, above)`: both flags may be `None` before the sweep has annotated them. -/
structure Fill where
  above : Option Bool
  below : Option Bool
deriving DecidableEq, Repr

/-- Python truthiness of a fill flag (`8 if seg.myfill.above else 0`, `not x`): `None` is falsy. -/
def truthy : Option Bool → Bool
  | some b => b
  | none => false

/-- `_Segment(start, end, myfill, otherfill)` as seen by `__select`, `_segmentChainer`,
`segmentCopy`. -/
structure FSeg (α : Type) where
  start : V2 α
  stop : V2 α
  myfill : Fill
  otherfill : Option Fill
deriving Repr

/-- The five operations (`selector` argument of `__operate`). -/
inductive Op
  | union | intersect | difference | differenceRev | xor
deriving DecidableEq, Repr

/-- The table literal passed to `__select` by each wrapper (generated). -/
def Op.table : Op → List Nat
  | .union => Gen.select_union_table
  | .intersect => Gen.select_intersect_table
  | .difference => Gen.select_difference_table
  | .differenceRev => Gen.select_difference_rev_table
  | .xor => Gen.select_xor_table

/-- The `is_inverted` flag each wrapper gives its result (generated). -/
def Op.inverted : Op → Bool → Bool → Bool
  | .union => Gen.select_union_inverted
  | .intersect => Gen.select_intersect_inverted
  | .difference => Gen.select_difference_inverted
  | .differenceRev => Gen.select_difference_rev_inverted
  | .xor => Gen.select_xor_inverted

def Op.ofString : String → Option Op
  | "union" => some .union
  | "intersect" => some .intersect
  | "difference" => some .difference
  | "difference_rev" => some .differenceRev
  | "xor" => some .xor
  | _ => none

variable {α : Type}

/-- The `index` computed by `__select` for one segment (generated formula; a segment whose
`otherfill is None` uses the generated no-other-fill variant). -/
def selIndex (s : FSeg α) : Nat :=
  match s.otherfill with
  | none => Gen.select_index_nofill (truthy s.myfill.above) (truthy s.myfill.below)
  | some o => Gen.select_index (truthy s.myfill.above) (truthy s.myfill.below)
      (truthy o.above) (truthy o.below)

/-- `selection[index]`.  (Out of range gives the sentinel 3; `Props.C04.select_index_lt` and
`select_tables_length` show this never happens — Python would raise `IndexError`.) -/
def tableAt (t : List Nat) (i : Nat) : Nat := t.getD i 3

/-- What `__select` does with one segment: dropped (`none`) when `selection[index] == 0`, else a
fresh `_Segment(start, end, _Fill(below = (v == 2), above = (v == 1)))`. -/
def selectOne (t : List Nat) (s : FSeg α) : Option (FSeg α) :=
  let v := tableAt t (selIndex s)
  if v != 0 then some ⟨s.start, s.stop, ⟨some (v == 1), some (v == 2)⟩, none⟩ else none

/-- `__select(segments, selection)`. -/
def select (segs : List (FSeg α)) (t : List Nat) : List (FSeg α) :=
  segs.filterMap (selectOne t)

/-- `_select_<op>(polyseg)` on a `_CombinedPolySegments(combined, is_inverted1, is_inverted2)`:
the `_PolySegments(segments, is_inverted)` it returns. -/
def selectOp (op : Op) (combined : List (FSeg α)) (inv1 inv2 : Bool) : List (FSeg α) × Bool :=
  (select combined op.table, op.inverted inv1 inv2)

end Lbg.Model.PolyBool
