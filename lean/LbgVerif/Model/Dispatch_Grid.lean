/-
  Driver entry points of the hand models for C19 / C20 / C09
  (`Model/Grid`, `Model/MeshRemove`, `Model/Offset`, `Model/BoolGroup`).

  model.grid_vertices     [bx, by, nx, ny, xd, yd]   → list of [x, y]
  model.grid_centroids    [bx, by, nx, ny, xd, yd]   → list of [x, y]
  model.grid_faces        [nx, ny]                   → list of index lists
  model.domain_dimensions [dom, dim]                 → [dim', num]
  model.remove_vertices   [nverts, faces, pattern]   → [new_faces, face_pattern]
  model.remove_vertices_full [nverts, faces, pattern]
        → [kept old vertex ids, new_faces, kept old face ids, face_pattern]
  model.remove_faces_only [faces, pattern]           → [new_faces, kept old face ids]
  model.vertex_pattern_from_faces [nverts, faces, pattern] → vertex pattern
  model.perimeter_quads   [outer, inner]             → list of quads (lists of [x, y])
  model.perimeter_quads_holes [polygon, core, [[hole, hole_offset], …]] → list of quads
  model.stl_split         [face]                     → list of triangles (index lists)
  model.bool_group        [n, inside]  (inside : n×n Boolean matrix, inside[a][b] ⇔ loop b
        lies inside loop a; loops are 0 … n-1 in sorted order) → list of groups (index lists,
        outer first)
-/
import LbgVerif.Wire
import LbgVerif.Model.Grid
import LbgVerif.Model.MeshRemove
import LbgVerif.Model.Offset
import LbgVerif.Model.BoolGroup
import Mathlib.Data.Rat.Floor

namespace Lbg.Model
open Lean Lbg.Wire

private def arg {τ : Type} [Codec τ] (args : Array Json) (i : Nat) : Except String τ :=
  dec (args.getD i Json.null)

def dispatchGrid (op : String) (args : Array Json) : Option (Except String Json) :=
  match op with
  | "model.grid_vertices" => some (do
      let bx ← (arg args 0 : Except String ℚ)
      let by' ← (arg args 1 : Except String ℚ)
      let nx ← (arg args 2 : Except String Nat)
      let ny ← (arg args 3 : Except String Nat)
      let xd ← (arg args 4 : Except String ℚ)
      let yd ← (arg args 5 : Except String ℚ)
      pure (enc (gridVertices (⟨bx, by'⟩ : V2 ℚ) nx ny xd yd)))
  | "model.grid_centroids" => some (do
      let bx ← (arg args 0 : Except String ℚ)
      let by' ← (arg args 1 : Except String ℚ)
      let nx ← (arg args 2 : Except String Nat)
      let ny ← (arg args 3 : Except String Nat)
      let xd ← (arg args 4 : Except String ℚ)
      let yd ← (arg args 5 : Except String ℚ)
      pure (enc (gridCentroids (⟨bx, by'⟩ : V2 ℚ) nx ny xd yd)))
  | "model.grid_faces" => some (do
      let nx ← (arg args 0 : Except String Nat)
      let ny ← (arg args 1 : Except String Nat)
      pure (enc (gridFaces nx ny)))
  | "model.domain_dimensions" => some (do
      let dom ← (arg args 0 : Except String ℚ)
      let dim ← (arg args 1 : Except String ℚ)
      if dim = 0 then throw "ZeroDivisionError" else
      let r := domainDimensions dom dim
      pure (Json.arr #[enc r.1, enc r.2]))
  | "model.remove_vertices" => some (do
      let nv ← (arg args 0 : Except String Nat)
      let faces ← (arg args 1 : Except String (List (List Nat)))
      let pat ← (arg args 2 : Except String (List Bool))
      let r := removeVertices (List.range nv) faces (List.range faces.length) ([] : List Nat) pat
      pure (Json.arr #[enc r.2.1, enc r.2.2.2.2]))
  | "model.remove_vertices_full" => some (do
      let nv ← (arg args 0 : Except String Nat)
      let faces ← (arg args 1 : Except String (List (List Nat)))
      let pat ← (arg args 2 : Except String (List Bool))
      let r := removeVertices (List.range nv) faces (List.range faces.length) ([] : List Nat) pat
      pure (Json.arr #[enc r.1, enc r.2.1, enc r.2.2.1, enc r.2.2.2.2]))
  | "model.remove_faces_only" => some (do
      let faces ← (arg args 0 : Except String (List (List Nat)))
      let pat ← (arg args 1 : Except String (List Bool))
      let r := removeFacesOnly faces (List.range faces.length) pat
      pure (Json.arr #[enc r.1, enc r.2]))
  | "model.vertex_pattern_from_faces" => some (do
      let nv ← (arg args 0 : Except String Nat)
      let faces ← (arg args 1 : Except String (List (List Nat)))
      let pat ← (arg args 2 : Except String (List Bool))
      pure (enc (vertexPatternFromFaces nv faces pat)))
  | "model.perimeter_quads" => some (do
      let outer ← (arg args 0 : Except String (List (V2 ℚ)))
      let inner ← (arg args 1 : Except String (List (V2 ℚ)))
      pure (enc (perimeterQuads outer inner)))
  | "model.perimeter_quads_holes" => some (do
      let poly ← (arg args 0 : Except String (List (V2 ℚ)))
      let core ← (arg args 1 : Except String (List (V2 ℚ)))
      let holes ← (arg args 2 : Except String (List (List (V2 ℚ) × List (V2 ℚ))))
      pure (enc (perimeterQuadsHoles poly core holes)))
  | "model.stl_split" => some (do
      let f ← (arg args 0 : Except String (List Nat))
      pure (enc (stlSplit f)))
  | "model.bool_group" => some (do
      let n ← (arg args 0 : Except String Nat)
      let m ← (arg args 1 : Except String (List (List Bool)))
      let inside : Nat → Nat → Bool := fun a b => (m.getD a []).getD b false
      pure (enc ((groupLoops inside (List.range n)).map (fun g => g.1 :: g.2))))
  | _ => none

end Lbg.Model
