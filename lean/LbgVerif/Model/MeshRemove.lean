/-
  Model.MeshRemove — literal hand models of the index bookkeeping of
  `MeshBase._remove_vertices`, `_transfer_face_centroids_areas`, `_remove_faces_only` and
  `_vertex_pattern_from_remove_faces` (_mesh.py l.227-338) and of the quad split of
  `STL.from_mesh3d` (interop/stl.py).

  Vertices, colours, centroids, areas are opaque payloads (`β`, `γ`): only the index structure
  is modelled.  The dictionary `_vdict` is an association list in insertion order; `_vdict[k]`
  is `List.lookup`, a missing key is the `KeyError` that marks the face as removed.

  Domain: `len(pattern) == len(vertices)` (asserted by the code), faces are tuples of 3 or 4
  natural numbers (validated by `_check_faces_input`); the scalar (`float`) form of
  `_face_areas` is passed through unchanged by the code and is not part of the model.
-/
import LbgVerif.Basic

namespace Lbg.Model
open Lbg

variable {β γ : Type}

/-- State of the first loop of `_remove_vertices`: `(_vdict, _vcount, _new_verts)`. -/
structure VState (β : Type) where
  vdict : List (ℕ × ℕ)
  vcount : ℕ
  newVerts : List β

/-- The first loop of `_remove_vertices`:
`for i, _in_mesh in enumerate(pattern): if _in_mesh is True: _vdict[i] = _vcount; _vcount += 1;
_new_verts.append(self._vertices[i])`. -/
def vertexLoop (verts : List β) (pattern : List Bool) : VState β :=
  pattern.zipIdx.foldl (fun (st : VState β) (pi : Bool × ℕ) =>
    if pi.1 = true then
      { vdict := st.vdict ++ [(pi.2, st.vcount)],
        vcount := st.vcount + 1,
        newVerts := st.newVerts ++ (verts[pi.2]?).toList }
    else st) ⟨[], 0, []⟩

/-- `(_vdict[_f[0]], _vdict[_f[1]], _vdict[_f[2]])` for a triangle, four entries otherwise;
`none` is the `KeyError`. -/
def remapFace (vdict : List (ℕ × ℕ)) (f : List ℕ) : Option (List ℕ) :=
  (f.take (if f.length = 3 then 3 else 4)).mapM (fun v => vdict.lookup v)

/-- Body of the face loop of `_remove_vertices` (`try: … append, True; except KeyError: False`);
state `(_new_faces, face_pattern)`. -/
def faceStep (vdict : List (ℕ × ℕ)) (st : List (List ℕ) × List Bool) (f : List ℕ) :
    List (List ℕ) × List Bool :=
  match remapFace vdict f with
  | some nf => (st.1 ++ [nf], st.2 ++ [true])
  | none => (st.1, st.2 ++ [false])

/-- The face loop of `_remove_vertices` with `face_pattern=None`. -/
def faceLoop (vdict : List (ℕ × ℕ)) (faces : List (List ℕ)) : List (List ℕ) × List Bool :=
  faces.foldl (faceStep vdict) ([], [])

/-- `tuple(data[i] for i, _p in enumerate(pattern) if _p)` — the comprehension used for the
face colours, `_face_centroids` and `_face_areas` (and by `_remove_faces_only` for the
faces). -/
def keepBy (data : List γ) (pattern : List Bool) : List γ :=
  pattern.zipIdx.filterMap (fun (pi : Bool × ℕ) => if pi.1 = true then data[pi.2]? else none)

/-- `_remove_vertices(pattern)` (with `face_pattern=None`) on the index structure, together
with one per-face data list (colours by face / centroids / areas — all three are filtered by
the same expression) and one per-vertex data list (colours by vertex).
Returns `(new_verts, new_faces, new_face_data, new_vertex_data, face_pattern)`. -/
def removeVertices (verts : List β) (faces : List (List ℕ)) (faceData : List γ)
    (vertData : List γ) (pattern : List Bool) :
    List β × List (List ℕ) × List γ × List γ × List Bool :=
  let st := vertexLoop verts pattern
  let fl := faceLoop st.vdict faces
  (st.newVerts, fl.1, keepBy faceData fl.2, keepBy vertData pattern, fl.2)

/-- `_remove_faces_only(pattern)`: faces and per-face data filtered by the face pattern. -/
def removeFacesOnly (faces : List (List ℕ)) (faceData : List γ) (pattern : List Bool) :
    List (List ℕ) × List γ :=
  (keepBy faces pattern, keepBy faceData pattern)

/-- `_vertex_pattern_from_remove_faces(pattern)`: a vertex is kept iff some kept face uses it. -/
def vertexPatternFromFaces (nVerts : ℕ) (faces : List (List ℕ)) (pattern : List Bool) :
    List Bool :=
  pattern.zipIdx.foldl (fun (vp : List Bool) (pi : Bool × ℕ) =>
    if pi.1 = true then
      (faces.getD pi.2 []).foldl (fun (vp : List Bool) j => vp.set j true) vp
    else vp) (List.replicate nVerts false)

/-- `STL.from_mesh3d`: a triangle face is written as is, a quad face `(a, b, c, d)` as the two
triangles with local indices `(0, 1, 2)` and `(2, 3, 0)`. -/
def stlSplit {δ : Type} (face : List δ) : List (List δ) :=
  match face with
  | [a, b, c] => [[a, b, c]]
  | a :: b :: c :: d :: _ => [[a, b, c], [c, d, a]]
  | f => [f]   -- fewer than 3 indices: `IndexError` in Python, outside the domain

end Lbg.Model
