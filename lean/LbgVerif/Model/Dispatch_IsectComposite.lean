/- Driver ops for the literal hand models of the composite intersection / splitting routines
   (`Model/IsectComposite.lean`; properties C11 and C17). -/
import LbgVerif.Wire
import LbgVerif.Model.IsectComposite

namespace Lbg.Model
open Lean Lbg.Wire

/-- * `model.polygon_intersect_line_ray [vertices2, isRay, lr2]` → list of points;
    * `model.polygon_intersect_line_infinite [vertices2, isRay, lr2]` → list of points;
    * `model.polyline2_intersect_line_ray [vertices2, isRay, lr2]` → list of points;
    * `model.polyline2_intersect_line_infinite [vertices2, isRay, lr2]` → list of points;
    * `model.polyline3_intersect_plane [vertices3, plane]` → list of points;
    * `model.polyline3_split_with_plane [vertices3, plane]` → list of `{"inl": seg}` /
      `{"inr": vertices}`;
    * `model.polyline3_grouped_verts [vertices3, plane]` → list of vertex lists;
    * `model.seg3_split_with_plane [lr3, plane]` → list of segments;
    * `model.face_intersect_line_ray [face, isRay, lr3, test_vector]` → point / null, with
      `face = [plane, vertices3, polygon2d vertices | null]`;
    * `model.face_intersect_plane [face, plane2]` → list of segments / null;
    * `model.polyface_intersect_line_ray [[face, …], isRay, lr3, test_vector]` → list of points;
    * `model.polyface_intersect_plane [[face, …], plane2]` → list of segments. -/
def dispatchIsectComposite (op : String) (args : Array Json) : Option (Except String Json) :=
  let a2 : Except String (List (V2 ℚ) × Bool × LR2 ℚ) := do
    let vs ← (dec (args.getD 0 Json.null) : Except String (List (V2 ℚ)))
    let r ← (dec (args.getD 1 Json.null) : Except String Bool)
    let lr ← (dec (args.getD 2 Json.null) : Except String (LR2 ℚ))
    pure (vs, r, lr)
  let a3 : Except String (List (V3 ℚ) × PlaneS ℚ) := do
    let vs ← (dec (args.getD 0 Json.null) : Except String (List (V3 ℚ)))
    let pl ← (dec (args.getD 1 Json.null) : Except String (PlaneS ℚ))
    pure (vs, pl)
  -- a face travels as `[plane, vertices3, polygon2d vertices | null]`: with `null` the
  -- polygon is computed as the lazy `Face3D.polygon2d` does (face without holes)
  let face : Json → Except String (PlaneS ℚ × List (V2 ℚ)) := fun j => do
    let a ← arrN j 3
    let pl ← (dec a[0]! : Except String (PlaneS ℚ))
    let vs ← (dec a[1]! : Except String (List (V3 ℚ)))
    let p2 ← (dec a[2]! : Except String (Option (List (V2 ℚ))))
    pure (pl, p2.getD (IsectComposite.facePolygon2d pl vs))
  let faces : Json → Except String (List (PlaneS ℚ × List (V2 ℚ))) := fun j =>
    match j with
    | Json.arr a => a.toList.mapM face
    | _ => throw "expected array of faces"
  match op with
  | "model.polygon_intersect_line_ray" => some (do
      let (vs, r, lr) ← a2
      pure (enc (IsectComposite.polygonIntersectLineRay vs r lr)))
  | "model.polygon_intersect_line_infinite" => some (do
      let (vs, r, lr) ← a2
      pure (enc (IsectComposite.polygonIntersectLineInfinite vs r lr)))
  | "model.polyline2_intersect_line_ray" => some (do
      let (vs, r, lr) ← a2
      pure (enc (IsectComposite.polyline2IntersectLineRay vs r lr)))
  | "model.polyline2_intersect_line_infinite" => some (do
      let (vs, r, lr) ← a2
      pure (enc (IsectComposite.polyline2IntersectLineInfinite vs r lr)))
  | "model.polyline3_intersect_plane" => some (do
      let (vs, pl) ← a3
      pure (enc (IsectComposite.polyline3IntersectPlane vs pl)))
  | "model.polyline3_split_with_plane" => some (do
      let (vs, pl) ← a3
      pure (enc (IsectComposite.polyline3SplitWithPlane vs pl)))
  | "model.polyline3_grouped_verts" => some (do
      let (vs, pl) ← a3
      pure (enc (IsectComposite.polyline3GroupedVerts vs pl)))
  | "model.seg3_split_with_plane" => some (do
      let l ← (dec (args.getD 0 Json.null) : Except String (LR3 ℚ))
      let pl ← (dec (args.getD 1 Json.null) : Except String (PlaneS ℚ))
      pure (enc (IsectComposite.seg3SplitWithPlane l pl)))
  | "model.face_intersect_line_ray" => some (do
      let (pl, p2) ← face (args.getD 0 Json.null)
      let r ← (dec (args.getD 1 Json.null) : Except String Bool)
      let lr ← (dec (args.getD 2 Json.null) : Except String (LR3 ℚ))
      let tv ← (dec (args.getD 3 Json.null) : Except String (V2 ℚ))
      pure (enc (IsectComposite.faceIntersectLineRayP pl p2 r lr tv)))
  | "model.face_intersect_plane" => some (do
      let (pl, p2) ← face (args.getD 0 Json.null)
      let other ← (dec (args.getD 1 Json.null) : Except String (PlaneS ℚ))
      pure (enc (IsectComposite.faceIntersectPlaneP pl p2 other)))
  | "model.polyface_intersect_line_ray" => some (do
      let fs ← faces (args.getD 0 Json.null)
      let r ← (dec (args.getD 1 Json.null) : Except String Bool)
      let lr ← (dec (args.getD 2 Json.null) : Except String (LR3 ℚ))
      let tv ← (dec (args.getD 3 Json.null) : Except String (V2 ℚ))
      pure (enc (IsectComposite.polyfaceIntersectLineRay fs r lr tv)))
  | "model.polyface_intersect_plane" => some (do
      let fs ← faces (args.getD 0 Json.null)
      let other ← (dec (args.getD 1 Json.null) : Except String (PlaneS ℚ))
      pure (enc (IsectComposite.polyfaceIntersectPlane fs other)))
  | _ => none

end Lbg.Model
