/-
  Model/PointInside — LITERAL hand models of the containment routines of
  `geometry2d/polygon.py` on top of the GENERATED kernels
  (`Gen.does_intersection_exist_line2d_sr`, `Gen.seg2_from_end_points`,
  `Gen.closest_point2d_on_line2d_s`, `Gen.p2_distance_to_point`).

      @staticmethod
      def _segments_from_vertices(vertices):
          _segs = []
          for i, vert in enumerate(vertices):
              _seg = LineSegment2D.from_end_points(vertices[i - 1], vert)
              _segs.append(_seg)
          _segs.append(_segs.pop(0))  # segments will start from the first point
          return _segs

      def is_point_inside(self, point, test_vector=Vector2D(1, 0.00001)):
          test_ray = Ray2D(point, test_vector)
          n_int = 0
          for _s in self.segments:
              if does_intersection_exist_line2d(_s, test_ray):     # SEGMENT first, RAY second
                  n_int += 1
          if n_int % 2 == 0:
              return False
          return True

      def is_point_inside_bound_rect(self, point, test_vector=Vector2D(1, 0.00001)):
          min = self.min
          max = self.max
          if point.x < min.x or point.y < min.y or point.x > max.x or point.y > max.y:
              return False
          return self.is_point_inside(point, test_vector)

      def is_point_on_edge(self, point, tolerance):
          for _s in self.segments:
              close_pt = closest_point2d_on_line2d(point, _s)
              if point.distance_to_point(close_pt) <= tolerance:
                  return True
          return False

      def point_relationship(self, point, tolerance):
          if self.is_point_on_edge(point, tolerance):
              return 0
          if self.is_point_inside_bound_rect(point):
              return 1
          return -1

  `for i, vert in enumerate(vertices)` with `vertices[i - 1]` visits `Lbg.cyclicPairs`.
  `self.min / self.max` is the scan of `Base2DIn2D._calculate_min_max`
  (`Lemmas/MinMax.lean`, same loop body as `Props.C10.minMax2`).
-/
import LbgVerif.Basic
import LbgVerif.Gen.Isect2
import LbgVerif.Gen.Line
import LbgVerif.Gen.Vec
import LbgVerif.Lemmas.MinMax

namespace Lbg.Model.PointInside
open Lbg Lbg.Gen Lbg.Lemmas
variable {α : Type} [Field α] [LinearOrder α]

/-- `_segs.append(_segs.pop(0))`. -/
def popFirstToEnd {β : Type} : List β → List β
  | [] => []
  | s :: t => t ++ [s]

/-- `Polygon2D._segments_from_vertices`: segment `i` runs from vertex `i` to vertex `i+1`,
the last one closes the loop. -/
def segments (vs : List (V2 α)) : List (LR2 α) :=
  popFirstToEnd ((cyclicPairs vs).map (fun q => seg2_from_end_points q.1 q.2))

/-- `Polygon2D.is_point_inside(point, test_vector)`. -/
def isPointInside (vs : List (V2 α)) (point test_vector : V2 α) : Bool :=
  let test_ray : LR2 α := ⟨point, test_vector⟩
  let n_int : Nat := (segments vs).foldl
    (fun n s => if does_intersection_exist_line2d_sr s test_ray then n + 1 else n) 0
  if n_int % 2 = 0 then false else true

/-- `Base2DIn2D._calculate_min_max` → `(min, max)` (one pass, `if … elif …` body). -/
def boundRect (v0 : V2 α) (rest : List (V2 α)) : V2 α × V2 α :=
  let st := rest.foldl
    (fun (st : (α × α) × (α × α)) v => (scanStep st.1 v.x, scanStep st.2 v.y))
    ((v0.x, v0.x), (v0.y, v0.y))
  (⟨st.1.1, st.2.1⟩, ⟨st.1.2, st.2.2⟩)

/-- The rejection test of `is_point_inside_bound_rect`. -/
def outsideRect (mm : V2 α × V2 α) (point : V2 α) : Bool :=
  decide (point.x < mm.1.x ∨ point.y < mm.1.y ∨ point.x > mm.2.x ∨ point.y > mm.2.y)

/-- `Polygon2D.is_point_inside_bound_rect(point, test_vector)` (a polygon has at least one
vertex; for the empty list `self.min` raises, modelled as `false`). -/
def isPointInsideBoundRect (vs : List (V2 α)) (point test_vector : V2 α) : Bool :=
  match vs with
  | [] => false
  | v0 :: rest =>
    if outsideRect (boundRect v0 rest) point then false
    else isPointInside vs point test_vector

/-- `Polygon2D.is_point_on_edge(point, tolerance)`. -/
def isPointOnEdge (M : MathOps α) (vs : List (V2 α)) (point : V2 α) (tol : α) : Bool :=
  (segments vs).any (fun s =>
    decide (p2_distance_to_point M point (closest_point2d_on_line2d_s point s) ≤ tol))

/-- `Polygon2D.point_relationship(point, tolerance)` (default test vector passed explicitly). -/
def pointRelationship (M : MathOps α) (vs : List (V2 α)) (point : V2 α) (tol : α)
    (test_vector : V2 α) : Int :=
  if isPointOnEdge M vs point tol then 0
  else if isPointInsideBoundRect vs point test_vector then 1
  else -1

end Lbg.Model.PointInside
