/-
  Driver entry points of the hand models in `Model/HoleMerge.lean` (C01 / C06).

  model.merge_boundary_holes  [boundary, holes]  → vertices of Polygon2D.from_shape_with_holes
                                                   (orientation step + _merge_boundary_and_holes)
                                                   | null (the code raises)
  model.merge_holes_raw       [boundary, holes]  → Polygon2D._merge_boundary_and_holes | null
  model.merge_boundary_hole   [boundary, hole]   → vertices of Polygon2D.from_shape_with_hole | null
  model.merge_closest_hole    [boundary, holes]  → [new boundary, remaining holes] | null
  model.plane_from_vertices   [vertices]         → plane [n, o, k, x, y] | null  (sqrt through doubles)
  model.fan_normal            [vertices]         → the exact accumulated normal [x, y, z]
-/
import LbgVerif.Wire
import LbgVerif.Model.HoleMerge

namespace Lbg.Model
open Lean Lbg.Wire

private def argH {τ : Type} [Codec τ] (args : Array Json) (i : Nat) : Except String τ :=
  dec (args.getD i Json.null)

def dispatchHoleMerge (op : String) (args : Array Json) : Option (Except String Json) :=
  match op with
  | "model.merge_boundary_holes" => some (do
      let b ← (argH args 0 : Except String (List (V2 ℚ)))
      let hs ← (argH args 1 : Except String (List (List (V2 ℚ))))
      pure (enc (fromShapeWithHoles b hs)))
  | "model.merge_holes_raw" => some (do
      let b ← (argH args 0 : Except String (List (V2 ℚ)))
      let hs ← (argH args 1 : Except String (List (List (V2 ℚ))))
      pure (enc (mergeBoundaryAndHoles b hs)))
  | "model.merge_boundary_hole" => some (do
      let b ← (argH args 0 : Except String (List (V2 ℚ)))
      let h ← (argH args 1 : Except String (List (V2 ℚ)))
      pure (enc (fromShapeWithHole b h)))
  | "model.merge_closest_hole" => some (do
      let b ← (argH args 0 : Except String (List (V2 ℚ)))
      let hs ← (argH args 1 : Except String (List (List (V2 ℚ))))
      pure (enc (mergeClosestHole b hs)))
  | "model.plane_from_vertices" => some (do
      let vs ← (argH args 0 : Except String (List (V3 ℚ)))
      pure (enc (planeFromVerticesLit floatOps vs)))
  | "model.fan_normal" => some (do
      let vs ← (argH args 0 : Except String (List (V3 ℚ)))
      pure (enc (fanNormalLit vs)))
  | _ => none

end Lbg.Model
