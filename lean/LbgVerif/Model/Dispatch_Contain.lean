/- Driver table for Spec/Contain (property C08, and the interior witnesses of C07). -/
import LbgVerif.Wire
import LbgVerif.Spec.Contain

namespace Lbg.Model
open Lean Lbg.Wire Lbg.Spec.Contain

def encPoint (loops : List (List Pt)) (p : Pt) : Json :=
  let s := summary loops p
  Json.arr #[enc s.classify, enc s.winding, enc s.consistent, enc (minDistSq loops p)]

/-- `spec.contain [loops, points]` → per point `[class, winding, consistent, minDistSq]`;
`spec.classify [loops, points]` → per point `[class, winding, consistent]` (no distance);
`spec.contain_prism [loops, zlo, zhi, points3]` → per point `[class3, class2, minDistSq2]`. -/
def dispatchContain (op : String) (args : Array Json) : Option (Except String Json) :=
  match op with
  | "spec.contain" => some (do
      let loops ← (dec (args.getD 0 Json.null) : Except String (List (List Pt)))
      let pts ← (dec (args.getD 1 Json.null) : Except String (List Pt))
      pure (Json.arr (pts.map (encPoint loops)).toArray))
  | "spec.classify" => some (do
      let loops ← (dec (args.getD 0 Json.null) : Except String (List (List Pt)))
      let pts ← (dec (args.getD 1 Json.null) : Except String (List Pt))
      pure (Json.arr (pts.map (fun p =>
        let s := summary loops p
        Json.arr #[enc s.classify, enc s.winding, enc s.consistent])).toArray))
  | "spec.contain_prism" => some (do
      let loops ← (dec (args.getD 0 Json.null) : Except String (List (List Pt)))
      let zlo ← (dec (args.getD 1 Json.null) : Except String ℚ)
      let zhi ← (dec (args.getD 2 Json.null) : Except String ℚ)
      let pts ← (dec (args.getD 3 Json.null) : Except String (List (V3 ℚ)))
      pure (Json.arr (pts.map (fun q =>
        let p : Pt := ⟨q.x, q.y⟩
        let s := summary loops p
        Json.arr #[enc (prismOfClass s.classify zlo zhi q.z), enc s.classify,
          enc s.consistent, enc (minDistSq loops p)])).toArray))
  | _ => none

end Lbg.Model
