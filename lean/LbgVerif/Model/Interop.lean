/-
  Model.Interop — literal executable models of the OBJ / STL writers and readers
  (`ladybug_geometry/interop/obj.py`, `interop/stl.py`), of the `Mesh3D` wrappers
  `to_obj / from_obj / to_stl / from_stl` (geometry3d/mesh.py l.160-180, 482-515), of
  `MeshBase._interpret_input_from_face_vertices` (vertex welding, _mesh.py l.380-403), of the
  colour bookkeeping of `Mesh2D.triangulated` (geometry2d/mesh.py l.361-385; `Mesh3D` has no
  `triangulated`), and of the `Mesh3D` properties the writers read (`face_normals`,
  `face_areas`, `vertex_normals`).

  LEVEL OF THE MODEL: *token lines*.  A text file is a `List (List (Tok α))` — the result of
  `for line in fp: line.split()`.  A token is
    `w s`        a word that is neither an integer nor a float literal and contains no `/`,
    `z k`        an integer literal (`int(·)` and `float(·)` both succeed),
    `n x`        a float literal that is not an integer literal (`float(·)` succeeds, `int(·)`
                 raises `ValueError`),
    `g k rest`   a word with at least one `/`: `k` is `int(word.split('/')[0])` (`none` if that
                 raises), `rest` the other `/`-separated pieces as text.
  TRUSTED (outside the model): the character level — `str.split`, `float(text)`, `int(text)`,
  `'{}'.format(float)`, `'{:.6E}'.format(float)`, `str(int)`.  The composite
  "value of the text the writer prints for `x`" is the parameter `fmt : α → α` of the writers:
  for `'{}'` (OBJ) it is the identity (Python's `repr` of a float is the shortest string that
  parses back to the same float), for `'{:.6E}'` (STL) it is rounding to 7 significant decimal
  digits.  Non-finite numbers, numerals with `_`, non-ASCII digits and leading `+` are outside
  the token classes.  `line.startswith('#')` is a test on the first character; the model tests
  the first token (a line `  # x` with leading blanks is then skipped by the comment rule instead
  of by the unknown-keyword rule — same effect).

  Exceptions are modelled by their class name (`Except String`): an exception anywhere aborts the
  whole call, as in Python (no `try` in these routines except the ones transcribed).
-/
import LbgVerif.Basic
import LbgVerif.Gen.Mesh
import LbgVerif.Gen.Vec
import LbgVerif.Model.MeshRemove
import LbgVerif.Model.MeshCache
import LbgVerif.Model.MeshCache3

namespace Lbg.Model.Interop
open Lbg Lbg.Gen Lbg.Model

variable {α : Type} [Field α] [LinearOrder α]

/-! ## Tokens -/

inductive Tok (α : Type) where
  | w (s : String)
  | n (x : α)
  | z (k : ℤ)
  | g (k : Option ℤ) (rest : List String)
deriving DecidableEq, Repr

abbrev Line (α : Type) := List (Tok α)
abbrev File (α : Type) := List (Line α)

/-- A component of a colour object as the OBJ writer sees it: a Python `str` (whose text is
one token), an `int`, or a `float`.  A colour is a sequence of components
(`ladybug.color.Color` = `[int r, int g, int b, int a]`; a colour read from an OBJ file is a
tuple of `str`). -/
inductive CVal (α : Type) where
  | str (t : Tok α)
  | int (k : ℤ)
  | flt (x : α)
deriving DecidableEq, Repr

abbrev Color (α : Type) := List (CVal α)

/-- `float(word)`. -/
def tokFloat : Tok α → Except String α
  | .n x => pure x
  | .z k => pure (k : α)
  | _ => throw "ValueError"

/-- `int(word.split('/')[0])`. -/
def tokInt : Tok α → Except String ℤ
  | .z k => pure k
  | .g (some k) _ => pure k
  | _ => throw "ValueError"

/-- `wds[i]`. -/
def wordAt (wds : Line α) (i : ℕ) : Except String (Tok α) :=
  match wds[i]? with
  | some t => pure t
  | none => throw "IndexError"

/-- `float(wds[i])`. -/
def floatAt (wds : Line α) (i : ℕ) : Except String α := do
  let t ← wordAt wds i
  tokFloat t

/-- The first word of a line if it is a plain word (keywords are plain words). -/
def keyword : Line α → Option String
  | .w s :: _ => some s
  | _ => none

/-! ## Python indexing -/

/-- `range(n)[i]` for a Python `int` index: negative indices count from the end. -/
def pyIdx (n : ℕ) (i : ℤ) : Option ℕ :=
  if 0 ≤ i then (if i.toNat < n then some i.toNat else none)
  else (if (-i).toNat ≤ n then some (n - (-i).toNat) else none)

/-- `l[i]` (`none` = `IndexError`). -/
def pyGet {β : Type} (l : List β) (i : ℤ) : Option β := (pyIdx l.length i).bind (fun k => l[k]?)

/-- `l[i]` for an index known to be valid (validated by the constructors). -/
def pyGetD {β : Type} (l : List β) (d : β) (i : ℤ) : β := (pyGet l i).getD d

/-- `tuple(self._vertices[i] for i in f)`. -/
def faceVertsZ (vs : List (V3 α)) (f : List ℤ) : List (V3 α) := f.map (pyGetD vs ⟨0, 0, 0⟩)

/-! ## `Mesh3D` as far as the interop routines see it -/

structure Mesh3I (α : Type) where
  vertices : List (V3 α)
  faces : List (List ℤ)
  colors : Option (List (Color α))
  isColorByFace : Bool
  /-- slot `_face_normals`: `None`, one `Vector3D` for all faces, or a tuple. -/
  faceNormals : Option (V3 α ⊕ List (V3 α))
  /-- slot `_face_areas`. -/
  faceAreas : Option (α ⊕ List α)
  /-- slot `_vertex_normals`. -/
  vertexNormals : Option (V3 α ⊕ List (V3 α))

/-- `try: self._vertices[ind] except IndexError: raise IndexError(…)`. -/
def checkIdx (nv : ℕ) (i : ℤ) : Except String Unit :=
  if (pyIdx nv i).isSome then pure () else throw "IndexError"

/-- Body of `for f in faces` of `_check_faces_input`. -/
def checkFace (lenOk : ℕ → Bool) (nv : ℕ) (f : List ℤ) : Except String Unit :=
  if !lenOk f.length then throw "AssertionError" else f.forM (checkIdx nv)

/-- `MeshBase._check_faces_input` / `OBJ._check_faces_input` (`lenOk` is `len(f) == 3 or
len(f) == 4`, resp. `len(f) >= 3`): asserts in the order of the code. -/
def checkFaces (lenOk : ℕ → Bool) (nv : ℕ) (faces : List (List ℤ)) : Except String Unit :=
  if faces.length = 0 then throw "AssertionError" else faces.forM (checkFace lenOk nv)

/-- The `colors` setter of `MeshBase`: `(colors, is_color_by_face)` (the flag starts `False`). -/
def colorMode {γ : Type} (nf nv : ℕ) (col : Option (List γ)) : Except String (Option (List γ) × Bool) :=
  match col with
  | none => pure (none, false)
  | some c =>
    if c.length = nf then pure (some c, true)
    else if c.length = nv then pure (some c, false)
    else if c.length = 0 then pure (none, false)
    else throw "ValueError"

/-- `Mesh3D(vertices, faces, colors)`: all memo slots empty. -/
def mkMesh (vs : List (V3 α)) (faces : List (List ℤ)) (colors : Option (List (Color α))) :
    Except String (Mesh3I α) := do
  checkFaces (fun k => k = 3 || k = 4) vs.length faces
  let cm ← colorMode faces.length vs.length colors
  pure ⟨vs, faces, cm.1, cm.2, none, none, none⟩

/-- `Mesh3D.face_normals` (value only; the slot update keeps the value, see C03). -/
def faceNormals (M : MathOps α) (m : Mesh3I α) : List (V3 α) :=
  match m.faceNormals with
  | none => m.faces.map (fun f => (MeshCache3.faceNA M (faceVertsZ m.vertices f)).1)
  | some (.inl nrm) => m.faces.map (fun _ => nrm)
  | some (.inr l) => l

/-- `Mesh3D.face_areas` (keyed on `_face_normals`; `[]` stands for the `None` that is returned
when normals are cached without areas — a state no library routine produces). -/
def faceAreas (M : MathOps α) (m : Mesh3I α) : List α :=
  match m.faceNormals with
  | none => m.faces.map (fun f => (MeshCache3.faceNA M (faceVertsZ m.vertices f)).2)
  | some _ =>
    match m.faceAreas with
    | some (.inl c) => m.faces.map (fun _ => c)
    | some (.inr l) => l
    | none => []

/-- `mapper` of `_calculate_vertex_normals`: for every vertex the faces that contain it (a face
listed once per occurrence; `mapper[i]` with a negative `i` counts from the end). -/
def vertexMapper (nv : ℕ) (faces : List (List ℤ)) : List (List ℕ) :=
  (List.range nv).map (fun v =>
    faces.zipIdx.flatMap (fun (fc : List ℤ × ℕ) =>
      (fc.1.filter (fun i => pyIdx nv i = some v)).map (fun _ => fc.2)))

/-- `Mesh3D._calculate_vertex_normals`. -/
def calcVertexNormals (M : MathOps α) (m : Mesh3I α) : List (V3 α) :=
  let fn := faceNormals M m
  let fa := faceAreas M m
  (vertexMapper m.vertices.length m.faces).map (fun fi =>
    let s := fi.foldl (fun (acc : V3 α) i =>
        let nr := fn.getD i ⟨0, 0, 0⟩
        let a := fa.getD i 0
        (⟨acc.x + nr.x * a, acc.y + nr.y * a, acc.z + nr.z * a⟩ : V3 α)) ⟨0, 0, 0⟩
    v3_normalize M s)

/-- `Mesh3D.vertex_normals` (`if not self._vertex_normals` — `None` or an empty tuple). -/
def vertexNormals (M : MathOps α) (m : Mesh3I α) : List (V3 α) :=
  match m.vertexNormals with
  | none => calcVertexNormals M m
  | some (.inr []) => calcVertexNormals M m
  | some (.inl v) => m.vertices.map (fun _ => v)
  | some (.inr l) => l

/-! ## OBJ -/

structure Obj (α : Type) where
  vertices : List (V3 α)
  faces : List (List ℤ)
  vt : Option (List (V2 α))
  vn : Option (List (V3 α))
  colors : Option (List (Color α))
  /-- `material_structure` (material name = one token; face index ≥ 0). -/
  mats : Option (List (Tok α × ℕ))

/-- The setters of `vertex_texture_map`, `vertex_normals`, `vertex_colors`. -/
def alignOpt {β : Type} (nv : ℕ) (v : Option (List β)) : Except String (Option (List β)) :=
  match v with
  | none => pure none
  | some l =>
    if l.length = 0 then pure none
    else if l.length ≠ nv then throw "ValueError"
    else pure (some l)

/-- The setter of `material_structure`. -/
def checkMats (nf : ℕ) (ms : Option (List (Tok α × ℕ))) :
    Except String (Option (List (Tok α × ℕ))) :=
  match ms with
  | none => pure none
  | some l =>
    if l.length = 0 then pure none else do
      l.forM fun mt => if mt.2 < nf then pure () else throw "IndexError"
      pure (some (l.mergeSort (fun a b => decide (a.2 ≤ b.2))))

/-- `OBJ(vertices, faces, vertex_texture_map, vertex_normals, vertex_colors,
material_structure)`. -/
def mkObj (vs : List (V3 α)) (faces : List (List ℤ)) (vt : Option (List (V2 α)))
    (vn : Option (List (V3 α))) (colors : Option (List (Color α)))
    (mats : Option (List (Tok α × ℕ))) : Except String (Obj α) := do
  checkFaces (fun k => decide (3 ≤ k)) vs.length faces
  let vt ← alignOpt vs.length vt
  let vn ← alignOpt vs.length vn
  let colors ← alignOpt vs.length colors
  let mats ← checkMats faces.length mats
  pure ⟨vs, faces, vt, vn, colors, mats⟩

/-- Loop state of the unrolling branch of `OBJ.from_mesh3d`: `(vertices, faces, colors, v_ct)`. -/
structure Unroll (α : Type) where
  vertices : List (V3 α)
  faces : List (List ℤ)
  colors : List (Color α)
  vct : ℤ

/-- Body of `for face_verts, col in zip(mesh.face_vertices, mesh.colors)`. -/
def unrollStep (st : Unroll α) (fc : List (V3 α) × Color α) : Unroll α :=
  if fc.1.length = 4 then
    { vertices := st.vertices ++ fc.1,
      faces := st.faces ++ [[st.vct, st.vct + 1, st.vct + 2, st.vct + 3]],
      colors := st.colors ++ List.replicate 4 fc.2,
      vct := st.vct + 4 }
  else
    { vertices := st.vertices ++ fc.1,
      faces := st.faces ++ [[st.vct, st.vct + 1, st.vct + 2]],
      colors := st.colors ++ List.replicate 3 fc.2,
      vct := st.vct + 3 }

def unroll (m : Mesh3I α) : Unroll α :=
  ((m.faces.map (faceVertsZ m.vertices)).zip (m.colors.getD [])).foldl unrollStep ⟨[], [], [], 0⟩

/-- `OBJ.from_mesh3d(mesh, include_colors, include_normals)`. -/
def objFromMesh3d (M : MathOps α) (m : Mesh3I α) (includeColors includeNormals : Bool) :
    Except String (Obj α) :=
  if includeColors && m.isColorByFace then
    let u := unroll m
    if includeNormals then
      let mshNorms := vertexNormals M m
      let vertNormals := m.faces.flatMap (fun f => f.map (pyGetD mshNorms ⟨0, 0, 0⟩))
      mkObj u.vertices u.faces none (some vertNormals) (some u.colors) none
    else mkObj u.vertices u.faces none none (some u.colors) none
  else
    let vcol := if includeColors then m.colors else none
    if includeNormals then mkObj m.vertices m.faces none (some (vertexNormals M m)) vcol none
    else mkObj m.vertices m.faces none none vcol none

/-- `'{}'.format(c[i])` for a colour component. -/
def cvalTok (fmt : α → α) : CVal α → Tok α
  | .str t => t
  | .int k => .z k
  | .flt x => .n (fmt x)

def cvalIsStr : CVal α → Bool
  | .str _ => true
  | _ => false

def vLineHead (fmt : α → α) (v : V3 α) : Line α :=
  [.w "v", .n (fmt v.x), .n (fmt v.y), .n (fmt v.z)]

/-- The `v` lines of `OBJ.to_file`. -/
def vLines (fmt : α → α) (vs : List (V3 α)) (colors : Option (List (Color α))) :
    Except String (File α) :=
  match colors with
  | none => pure (vs.map (vLineHead fmt))
  | some cs =>
    if ((cs.head?.map List.length).getD 0) > 3 then      -- len(self.vertex_colors[0]) > 3
      (vs.zip cs).mapM fun (vc : V3 α × Color α) =>
        match vc.2 with
        | c0 :: c1 :: c2 :: _ =>
          pure (vLineHead fmt vc.1 ++ [cvalTok fmt c0, cvalTok fmt c1, cvalTok fmt c2])
        | _ => throw "IndexError"
    else                                                  -- ' '.join(c)
      (vs.zip cs).mapM fun (vc : V3 α × Color α) =>
        if vc.2.all cvalIsStr then pure (vLineHead fmt vc.1 ++ vc.2.map (cvalTok fmt))
        else throw "TypeError"

/-- `triangulate_quads`: `if len(f) > 3: (f[0], f[1], f[2]), (f[2], f[3], f[0]) else f`. -/
def objSplit (f : List ℤ) : List (List ℤ) :=
  match f with
  | a :: b :: c :: d :: _ => [[a, b, c], [c, d, a]]
  | f => [f]

/-- The material indices after triangulation (several materials): `mat_ind[j] += 1` for every
quad face `i` with `m[1] > i` (the ORIGINAL index `m[1]` is compared). -/
def shiftMats (faces : List (List ℤ)) (mats : List (Tok α × ℕ)) : List (Tok α × ℕ) :=
  let matInd := faces.zipIdx.foldl (fun (mi : List ℕ) (fi : List ℤ × ℕ) =>
      if fi.1.length > 3 then
        (mats.zip mi).map (fun (mx : (Tok α × ℕ) × ℕ) => if mx.1.2 > fi.2 then mx.2 + 1 else mx.2)
      else mi) (mats.map (fun mt => mt.2))
  (mats.zip matInd).map (fun (mm : (Tok α × ℕ) × ℕ) => (mm.1.1, mm.2))

/-- One face vertex: `str(fi + 1)` or `f_map.format(fi + 1)`. -/
def faceTok (hasVt hasVn : Bool) (i : ℤ) : Tok α :=
  let k := i + 1
  match hasVt, hasVn with
  | false, false => .z k
  | true, true => .g (some k) [toString k, toString k]
  | false, true => .g (some k) ["", toString k]
  | true, false => .g (some k) [toString k]

def faceLine (hasVt hasVn : Bool) (f : List ℤ) : Line α :=
  .w "f" :: f.map (faceTok hasVt hasVn)

/-- `list.insert(i, x)`. -/
def insertAt {β : Type} (l : List β) (i : ℕ) (x : β) : List β := l.take i ++ x :: l.drop i

/-- `for mat in reversed(formatted_mats): face_txt.insert(mat[1], 'usemtl …')`. -/
def insertMats (faceTxt : File α) (mats : List (Tok α × ℕ)) : File α :=
  mats.reverse.foldl (fun ft mt => insertAt ft mt.2 [.w "usemtl", mt.1]) faceTxt

def objHeader : File α :=
  [[.w "#", .w "OBJ", .w "file", .w "written", .w "by", .w "ladybug", .w "geometry"], []]

/-- `OBJ.to_file(folder, name, triangulate_quads, include_mtl)`: the token lines of the `.obj`
file (`mtl` = the name of the `.mtl` file; the `.mtl` file itself — constant text per material —
is not modelled). -/
def objToFile (fmt : α → α) (o : Obj α) (triangulate includeMtl : Bool) (mtl : Tok α) :
    Except String (File α) := do
  let mtlLines : File α :=
    if o.mats.isSome || includeMtl then
      (if includeMtl then [[.w "mtllib", mtl]] else []) ++
      (if o.mats.isNone then [[.w "usemtl", .w "diffuse_0"]] else [])
    else []
  let vl ← vLines fmt o.vertices o.colors
  let vtl : File α := match o.vt with
    | none => []
    | some l => l.map (fun t => [.w "vt", .n (fmt t.x), .n (fmt t.y)])
  let vnl : File α := match o.vn with
    | none => []
    | some l => l.map (fun v => [.w "vn", .n (fmt v.x), .n (fmt v.y), .n (fmt v.z)])
  let ff : List (List ℤ) × Option (List (Tok α × ℕ)) :=
    if triangulate then
      match o.mats with
      | none => (o.faces.flatMap objSplit, none)
      | some ms =>
        if ms.length = 1 then (o.faces.flatMap objSplit, some ms)
        else (o.faces.flatMap objSplit, some (shiftMats o.faces ms))
    else (o.faces, o.mats)
  let faceTxt : File α := ff.1.map (faceLine o.vt.isSome o.vn.isSome)
  let faceTxt : File α := match ff.2 with
    | none => faceTxt
    | some ms => insertMats faceTxt ms
  pure (objHeader ++ mtlLines ++ vl ++ vtl ++ vnl ++ faceTxt)

/-- Accumulators of `OBJ.from_file`. -/
structure RState (α : Type) where
  vertices : List (V3 α)
  faces : List (List ℤ)
  vt : List (V2 α)
  vn : List (V3 α)
  colors : List (Color α)
  mats : List (Tok α × ℕ)

def isComment : Line α → Bool
  | .w s :: _ => s.startsWith "#"
  | _ => false

/-- Body of `for line in fp` of `OBJ.from_file`. -/
def objStep (st : RState α) (wds : Line α) : Except String (RState α) :=
  if isComment wds then pure st
  else if wds.length = 0 then pure st
  else if keyword wds = some "v" then do
    let x ← floatAt wds 1
    let y ← floatAt wds 2
    let z ← floatAt wds 3
    let st := { st with vertices := st.vertices ++ [⟨x, y, z⟩] }
    if wds.length > 4 then pure { st with colors := st.colors ++ [(wds.drop 4).map CVal.str] }
    else pure st
  else if keyword wds = some "f" then do
    let face ← (wds.drop 1).mapM (fun fv => do let k ← tokInt fv; pure (k - 1))
    let face := if face.length > 4 then face.take 4 else face
    pure { st with faces := st.faces ++ [face] }
  else if keyword wds = some "vn" then do
    let x ← floatAt wds 1
    let y ← floatAt wds 2
    let z ← floatAt wds 3
    pure { st with vn := st.vn ++ [⟨x, y, z⟩] }
  else if keyword wds = some "vt" then do
    let x ← floatAt wds 1
    let y ← floatAt wds 2
    pure { st with vt := st.vt ++ [⟨x, y⟩] }
  else if keyword wds = some "usemtl" then do
    let nm ← wordAt wds 1
    pure { st with mats := st.mats ++ [(nm, st.faces.length)] }
  else pure st

def objInit : RState α := ⟨[], [], [], [], [], []⟩

/-- `OBJ.from_file(file_path)`. -/
def objFromFile (file : File α) : Except String (Obj α) := do
  let st ← file.foldlM objStep objInit
  mkObj st.vertices st.faces (some st.vt) (some st.vn) (some st.colors) (some st.mats)

/-- `Mesh3D.to_obj(folder, name, include_colors, include_normals, triangulate_quads,
include_mtl)`. -/
def meshToObj (M : MathOps α) (fmt : α → α) (m : Mesh3I α)
    (includeColors includeNormals triangulate includeMtl : Bool) (mtl : Tok α) :
    Except String (File α) := do
  let o ← objFromMesh3d M m includeColors includeNormals
  objToFile fmt o triangulate includeMtl mtl

/-- `Mesh3D.from_obj(file_path)`. -/
def meshFromObj (file : File α) : Except String (Mesh3I α) := do
  let o ← objFromFile file
  mkMesh o.vertices o.faces o.colors

/-! ## STL -/

structure Stl (α : Type) where
  /-- the solid name (one word; `Mesh3D.to_stl` always uses `polyhedron`). -/
  name : String
  faceVertices : List (List (V3 α))
  faceNormals : List (V3 α)

/-- The asserts of the `name` setter. -/
def nameOk (s : String) : Bool :=
  s.toList.all (fun c => decide (c.toNat < 128) && !([',', ';', '!', '\n', '\t'].contains c))
    && decide (0 < s.length) && decide (s.length ≤ 80)

/-- `STL(face_vertices, face_normals, name)`. -/
def mkStl (name : String) (fv : List (List (V3 α))) (fn : List (V3 α)) : Except String (Stl α) :=
  if !nameOk name then throw "AssertionError"
  else if !fv.all (fun f => decide (f.length = 3)) then throw "AssertionError"
  else if fv.length ≠ fn.length then throw "AssertionError"
  else pure ⟨name, fv, fn⟩

/-- Body of the loop of `STL.from_mesh3d`: the triangles (as points) of one face, each paired
with the face normal. -/
def stlFaceTris (vs : List (V3 α)) (fn : List ℤ × V3 α) : List (List (V3 α) × V3 α) :=
  if fn.1.length = 3 then [(faceVertsZ vs fn.1, fn.2)]
  else
    [([pyGetD vs ⟨0, 0, 0⟩ (fn.1.getD 0 0), pyGetD vs ⟨0, 0, 0⟩ (fn.1.getD 1 0),
       pyGetD vs ⟨0, 0, 0⟩ (fn.1.getD 2 0)], fn.2),
     ([pyGetD vs ⟨0, 0, 0⟩ (fn.1.getD 2 0), pyGetD vs ⟨0, 0, 0⟩ (fn.1.getD 3 0),
       pyGetD vs ⟨0, 0, 0⟩ (fn.1.getD 0 0)], fn.2)]

/-- `STL.from_mesh3d(mesh, name)`. -/
def stlFromMesh3d (M : MathOps α) (m : Mesh3I α) (name : String) : Except String (Stl α) :=
  let pairs := (m.faces.zip (faceNormals M m)).flatMap (stlFaceTris m.vertices)
  mkStl name (pairs.map Prod.fst) (pairs.map Prod.snd)

def stlFacetLines (fmt : α → α) (fn : List (V3 α) × V3 α) : File α :=
  [[.w "facet", .w "normal", .n (fmt fn.2.x), .n (fmt fn.2.y), .n (fmt fn.2.z)],
   [.w "outer", .w "loop"]] ++
  fn.1.map (fun p => [.w "vertex", .n (fmt p.x), .n (fmt p.y), .n (fmt p.z)]) ++
  [[.w "endloop"], [.w "endfacet"]]

/-- `STL.to_file(folder, name)`: the token lines of the ASCII file. -/
def stlToFile (fmt : α → α) (s : Stl α) : File α :=
  [[.w "solid", .w s.name]] ++
  (s.faceVertices.zip s.faceNormals).flatMap (stlFacetLines fmt) ++
  [[.w "endsolid", .w s.name]]

/-- Locals of `_load_text_stl`; `cur = none` is the unbound local `vertices`. -/
structure SState (α : Type) where
  cur : Option (List (V3 α))
  fv : List (List (V3 α))
  fn : List (V3 α)
  name : String

/-- The text of a token used as the solid name (`words[1]`). -/
def tokText : Tok α → String
  | .w s => s
  | .z k => toString k
  | _ => "?"

/-- Body of `for line in fp` of `STL._load_text_stl`. -/
def stlStep (st : SState α) (wds : Line α) : Except String (SState α) :=
  if wds.length = 0 then pure st
  else if keyword wds = some "facet" then do
    let x ← floatAt wds 2
    let y ← floatAt wds 3
    let z ← floatAt wds 4
    pure { st with cur := some [], fn := st.fn ++ [⟨x, y, z⟩] }
  else if keyword wds = some "vertex" then
    match st.cur with
    | none => throw "UnboundLocalError"
    | some vs => do
      let x ← floatAt wds 1
      let y ← floatAt wds 2
      let z ← floatAt wds 3
      pure { st with cur := some (vs ++ [⟨x, y, z⟩]) }
  else if keyword wds = some "endloop" then
    match st.cur with
    | none => throw "UnboundLocalError"
    | some vs => pure { st with fv := st.fv ++ [vs] }
  else if keyword wds = some "solid" then
    match wds[1]? with
    | some t => pure { st with name := tokText t }
    | none => pure st
  else pure st

def stlInit : SState α := ⟨none, [], [], "polyhedron"⟩

/-- `STL._load_text_stl` followed by the constructor. -/
def stlLoadText (file : File α) : Except String (Stl α) := do
  let st ← file.foldlM stlStep stlInit
  mkStl st.name st.fv st.fn

/-- A binary STL file: the 80-byte header (decoded and stripped), and the 50-byte records as
lists of (up to) 12 `float32` values — a record with fewer than 12 values is a truncated tail.
The 4-byte face count is read and ignored; the 2 attribute bytes are skipped. -/
structure BinStl (α : Type) where
  header : String
  records : List (List α)

/-- `STL._load_binary_stl` followed by the constructor: reading stops at the first short
record. -/
def stlLoadBinary (b : BinStl α) : Except String (Stl α) :=
  let recs := b.records.takeWhile (fun r => decide (12 ≤ r.length))
  mkStl b.header
    (recs.map (fun r =>
      [(⟨r.getD 3 0, r.getD 4 0, r.getD 5 0⟩ : V3 α), ⟨r.getD 6 0, r.getD 7 0, r.getD 8 0⟩,
       ⟨r.getD 9 0, r.getD 10 0, r.getD 11 0⟩]))
    (recs.map (fun r => (⟨r.getD 0 0, r.getD 1 0, r.getD 2 0⟩ : V3 α)))

inductive StlFile (α : Type) where
  | text (f : File α)
  | binary (b : BinStl α)

/-- Does the file start with the five characters `solid`? (token level: the first token of the
first line; leading blanks / blank first lines are outside the model). -/
def startsSolid : File α → Bool
  | (.w s :: _) :: _ => s.startsWith "solid"
  | _ => false

/-- `STL.from_file`: text if the first five bytes are `solid`, binary otherwise.  A text file
that does not start with `solid` / a binary file whose header does are read by the wrong loader
in Python; that is outside the model (`"NotModelled"`). -/
def stlFromFile : StlFile α → Except String (Stl α)
  | .text f => if startsSolid f then stlLoadText f else throw "NotModelled"
  | .binary b => if b.header.startsWith "solid" then throw "NotModelled" else stlLoadBinary b

/-- Inner loop of `_interpret_input_from_face_vertices(faces, purge=True)`:
`try: ind.append(vertices.index(v)) except ValueError: vertices.append(v); ind.append(len-1)`. -/
def weldStep {β : Type} [DecidableEq β] (st : List β × List ℕ) (v : β) : List β × List ℕ :=
  let k := st.1.idxOf v
  if k < st.1.length then (st.1, st.2 ++ [k]) else (st.1 ++ [v], st.2 ++ [st.1.length])

/-- `_interpret_input_from_face_vertices(faces, purge=True)` → `(vertices, face_collector)`. -/
def weld {β : Type} [DecidableEq β] (faces : List (List β)) : List β × List (List ℕ) :=
  faces.foldl (fun (st : List β × List (List ℕ)) f =>
    let r := f.foldl weldStep (st.1, [])
    (r.1, st.2 ++ [r.2])) ([], [])

/-- `Mesh3D.from_face_vertices(faces)` (purge=True). -/
def meshFromFaceVertices (fv : List (List (V3 α))) : Except String (Mesh3I α) :=
  let r := weld fv
  mkMesh r.1 (r.2.map (fun f => f.map (fun (k : ℕ) => (k : ℤ)))) none

/-- `Mesh3D.from_stl(file_path)`. -/
def meshFromStl (f : StlFile α) : Except String (Mesh3I α) := do
  let s ← stlFromFile f
  meshFromFaceVertices s.faceVertices

/-- `Mesh3D.to_stl(folder, name)`: `STL.from_mesh3d(self)` (solid name `polyhedron`) and
`to_file`. -/
def meshToStl (M : MathOps α) (fmt : α → α) (m : Mesh3I α) : Except String (File α) := do
  let s ← stlFromMesh3d M m "polyhedron"
  pure (stlToFile fmt s)

/-! ## `Mesh2D.triangulated` with colours -/

/-- The colour loop of `triangulated()` for face colours:
`for i, face in enumerate(self.faces): colors[i] once for a triangle, twice for a quad`. -/
def triColors {γ : Type} (faces : List (List ℕ)) (colors : List γ) : List γ :=
  faces.zipIdx.flatMap (fun (fi : List ℕ × ℕ) =>
    if fi.1.length = 3 then (colors[fi.2]?).toList
    else (colors[fi.2]?).toList ++ (colors[fi.2]?).toList)

/-- `Mesh2D.triangulated()`: new faces (`MeshCache.triangulateFace`), new colours, and the
colour mode the constructor of the new mesh derives. -/
def triangulated2 {γ : Type} (K : MeshCache.Kern α) (vs : List (V2 α)) (faces : List (List ℕ))
    (colors : Option (List γ)) (byFace : Bool) :
    Except String (List (List ℕ) × Option (List γ) × Bool) := do
  let newFaces := faces.flatMap (MeshCache.triangulateFace K vs)
  let newColors := if byFace then some (triColors faces (colors.getD [])) else colors
  let cm ← colorMode newFaces.length vs.length newColors
  pure (newFaces, cm.1, cm.2)

end Lbg.Model.Interop
