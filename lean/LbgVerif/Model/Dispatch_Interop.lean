/-
  Driver entry points of `Model/Interop.lean` (property C20, OBJ / STL interchange).

  Wire forms (numbers as "n/d" strings):
    token        {"w": "text"} | {"n": num} | {"z": int} | {"g": [int | null, ["piece", …]]}
    file         list of lines, a line = list of tokens
    colour       list of components {"s": token} (a Python str) | {"i": int} | {"f": num}
    mesh         [vertices, faces, colours | null, is_color_by_face,
                  _face_normals, _face_areas, _vertex_normals]   (slot = null | {"inl": x} | {"inr": […]})
    obj          [vertices, faces, vt | null, vn | null, colours | null, mats | null]
                 (mats = list of [token, face index])
    stl          [name, face_vertices, face_normals]
    stl file     {"text": file} | {"binary": [header, [[12 numbers] …]]}
    result       {"ok": value} | {"err": "ExceptionName"}

  model.obj_write      [mesh, include_colors, include_normals, triangulate_quads, include_mtl,
                        mtl file name]                   → result file   (Mesh3D.to_obj)
  model.obj_to_file    [obj (constructor arguments), triangulate_quads, include_mtl, mtl file name]
                                                          → result file   (OBJ(...).to_file)
  model.obj_read       [file]   → [result obj (OBJ.from_file), result [vertices, faces, colours,
                                   is_color_by_face] (Mesh3D.from_obj)]
  model.obj_roundtrip  [mesh, include_colors, include_normals, triangulate_quads, include_mtl]
                        → result [vertices, faces, colours, is_color_by_face]
                          (Mesh3D.from_obj of Mesh3D.to_obj; number printing = identity)
  model.stl_write      [mesh, name]  → result file  (STL.from_mesh3d(mesh, name).to_file; numbers
                                       rounded to 7 significant digits as '{:.6E}' prints them)
  model.stl_read       [stl file] → [result stl (STL.from_file), result [vertices, faces]
                                     (Mesh3D.from_stl)]
  model.triangulated   [vertices2d, faces, colours (list of ints) | null, is_color_by_face]
                        → result [faces, colours | null, is_color_by_face]  (Mesh2D.triangulated)
  model.sig7           [x] → x rounded to 7 significant decimal digits (half-even)
-/
import LbgVerif.Wire
import LbgVerif.Model.Interop
import LbgVerif.Model.Dispatch_MeshCache
import Mathlib.Data.Rat.Floor

namespace Lbg.Model
open Lean Lbg.Wire Lbg.Model.Interop

namespace InteropWire

instance : Codec String where
  dec j := match j with
    | Json.str s => pure s
    | _ => throw "expected string"
  enc s := Json.str s

partial def decTok (j : Json) : Except String (Tok ℚ) :=
  match j.getObjVal? "w" with
  | .ok v => do let s ← (dec v : Except String String); pure (.w s)
  | .error _ =>
    match j.getObjVal? "n" with
    | .ok v => do let x ← (dec v : Except String ℚ); pure (.n x)
    | .error _ =>
      match j.getObjVal? "z" with
      | .ok v => do let k ← (dec v : Except String Int); pure (.z k)
      | .error _ =>
        match j.getObjVal? "g" with
        | .ok v => do
            let p ← (dec v : Except String (Option Int × List String))
            pure (.g p.1 p.2)
        | .error e => throw e

def encTok : Tok ℚ → Json
  | .w s => Json.mkObj [("w", Json.str s)]
  | .n x => Json.mkObj [("n", enc x)]
  | .z k => Json.mkObj [("z", enc k)]
  | .g k r => Json.mkObj [("g", enc (k, r))]

instance : Codec (Tok ℚ) := ⟨decTok, encTok⟩

instance : Codec (CVal ℚ) where
  dec j := match j.getObjVal? "s" with
    | .ok v => do let t ← (dec v : Except String (Tok ℚ)); pure (.str t)
    | .error _ =>
      match j.getObjVal? "i" with
      | .ok v => do let k ← (dec v : Except String Int); pure (.int k)
      | .error _ =>
        match j.getObjVal? "f" with
        | .ok v => do let x ← (dec v : Except String ℚ); pure (.flt x)
        | .error e => throw e
  enc c := match c with
    | .str t => Json.mkObj [("s", enc t)]
    | .int k => Json.mkObj [("i", enc k)]
    | .flt x => Json.mkObj [("f", enc x)]

def arg {τ : Type} [Codec τ] (args : Array Json) (i : Nat) : Except String τ :=
  dec (args.getD i Json.null)

def decMesh (j : Json) : Except String (Mesh3I ℚ) := do
  let a ← arrN j 7
  pure { vertices := ← dec a[0]!, faces := ← dec a[1]!, colors := ← dec a[2]!,
         isColorByFace := ← dec a[3]!, faceNormals := ← dec a[4]!, faceAreas := ← dec a[5]!,
         vertexNormals := ← dec a[6]! }

def decObj (j : Json) : Except String (Obj ℚ) := do
  let a ← arrN j 6
  pure { vertices := ← dec a[0]!, faces := ← dec a[1]!, vt := ← dec a[2]!, vn := ← dec a[3]!,
         colors := ← dec a[4]!, mats := ← dec a[5]! }

def encObj (o : Obj ℚ) : Json :=
  Json.arr #[enc o.vertices, enc o.faces, enc o.vt, enc o.vn, enc o.colors, enc o.mats]

def encStl (s : Stl ℚ) : Json := Json.arr #[enc s.name, enc s.faceVertices, enc s.faceNormals]

def encMeshOut (m : Mesh3I ℚ) : Json :=
  Json.arr #[enc m.vertices, enc m.faces, enc m.colors, enc m.isColorByFace]

def decStlFile (j : Json) : Except String (StlFile ℚ) :=
  match j.getObjVal? "text" with
  | .ok v => do let f ← (dec v : Except String (File ℚ)); pure (.text f)
  | .error _ =>
    match j.getObjVal? "binary" with
    | .ok v => do
        let p ← (dec v : Except String (String × List (List ℚ)))
        pure (.binary ⟨p.1, p.2⟩)
    | .error e => throw e

def res {τ : Type} (f : τ → Json) (r : Except String τ) : Json :=
  match r with
  | .ok v => Json.mkObj [("ok", f v)]
  | .error e => Json.mkObj [("err", Json.str e)]

/-! ### `'{:.6E}'`: round to 7 significant decimal digits, ties to even -/

def pow10 (e : Int) : ℚ := if e ≥ 0 then (10 : ℚ) ^ e.toNat else 1 / (10 : ℚ) ^ (-e).toNat

/-- the decimal exponent `e` with `10^e ≤ a < 10^(e+1)` (`a > 0`), searched from `e`. -/
def decExp : Nat → ℚ → Int → Int
  | 0, _, e => e
  | fuel + 1, a, e =>
    if a ≥ pow10 (e + 1) then decExp fuel a (e + 1)
    else if a < pow10 e then decExp fuel a (e - 1)
    else e

def roundHalfEven (x : ℚ) : Int :=
  let f := Rat.floor x
  let r := x - (f : ℚ)
  if r < 1 / 2 then f else if r > 1 / 2 then f + 1 else if f % 2 = 0 then f else f + 1

def sig7 (q : ℚ) : ℚ :=
  if q = 0 then 0 else
  let a := |q|
  let e := decExp 800 a 0
  let scale := pow10 (e - 6)
  let k := roundHalfEven (a / scale)
  (if q < 0 then -1 else 1) * (k : ℚ) * scale

end InteropWire

open InteropWire

def dispatchInterop (op : String) (args : Array Json) : Option (Except String Json) :=
  match op with
  | "model.obj_write" => some (do
      let m ← decMesh (args.getD 0 Json.null)
      let ic ← (arg args 1 : Except String Bool)
      let inn ← (arg args 2 : Except String Bool)
      let tri ← (arg args 3 : Except String Bool)
      let mtl ← (arg args 4 : Except String Bool)
      let nm ← (arg args 5 : Except String String)
      pure (res enc (meshToObj floatOps id m ic inn tri mtl (.w nm))))
  | "model.obj_to_file" => some (do
      let o ← decObj (args.getD 0 Json.null)
      let tri ← (arg args 1 : Except String Bool)
      let mtl ← (arg args 2 : Except String Bool)
      let nm ← (arg args 3 : Except String String)
      pure (res enc (do
        let o ← mkObj o.vertices o.faces o.vt o.vn o.colors o.mats
        objToFile id o tri mtl (.w nm))))
  | "model.obj_read" => some (do
      let f ← (arg args 0 : Except String (File ℚ))
      pure (Json.arr #[res encObj (objFromFile f), res encMeshOut (meshFromObj f)]))
  | "model.obj_roundtrip" => some (do
      let m ← decMesh (args.getD 0 Json.null)
      let ic ← (arg args 1 : Except String Bool)
      let inn ← (arg args 2 : Except String Bool)
      let tri ← (arg args 3 : Except String Bool)
      let mtl ← (arg args 4 : Except String Bool)
      pure (res encMeshOut (do
        let f ← meshToObj floatOps id m ic inn tri mtl (.w "m.mtl")
        meshFromObj f)))
  | "model.stl_write" => some (do
      let m ← decMesh (args.getD 0 Json.null)
      let nm ← (arg args 1 : Except String String)
      pure (res enc (do
        let s ← stlFromMesh3d floatOps m nm
        pure (stlToFile sig7 s))))
  | "model.stl_read" => some (do
      let f ← decStlFile (args.getD 0 Json.null)
      pure (Json.arr #[res encStl (stlFromFile f),
        res (fun (m : Mesh3I ℚ) => Json.arr #[enc m.vertices, enc m.faces]) (meshFromStl f)]))
  | "model.triangulated" => some (do
      let vs ← (arg args 0 : Except String (List (V2 ℚ)))
      let fs ← (arg args 1 : Except String (List (List Nat)))
      let cs ← (arg args 2 : Except String (Option (List Int)))
      let bf ← (arg args 3 : Except String Bool)
      pure (res (fun (r : List (List Nat) × Option (List Int) × Bool) =>
          Json.arr #[enc r.1, enc r.2.1, enc r.2.2])
        (triangulated2 (MeshCache.stdKern MeshCacheWire.stdTv) vs fs cs bf)))
  | "model.sig7" => some (do
      let x ← (arg args 0 : Except String ℚ)
      pure (enc (sig7 x)))
  | _ => none

end Lbg.Model
