/-
  Model/PointOnFace — LITERAL hand model of `Face3D.is_point_on_face(point, tolerance)`
  (geometry3d/face.py l.892-910):

      if self.plane.distance_to_point(point) > tolerance:
          return False
      vert2d = self.plane.xyz_to_xy(point)
      return self.polygon2d.is_point_inside(vert2d)        # default test_vector (1, 0.00001)

  `Plane.distance_to_point` (generated kernel `Gen.plane_distance_to_point`) is
  `point.distance_to_point(closest_point3d_on_plane(point, plane))`, i.e. the square root of the
  squared length of `n * (point . n - k)`; `Polygon2D.is_point_inside` is the plain ray-parity
  test of `Model/PointInside.lean` (NOT the bounding-rectangle variant), with the default tilted
  test vector.

  `self.polygon2d`: for a face without holes the plane coordinates of `self.vertices`
  (`polygon2dNoHoles`); for a face with holes the single merged loop that `Face3D.__init__`
  built with `Polygon2D.from_shape_with_holes` (`Model/HoleMerge.lean`; `polygon2dHoles`),
  reversed if `enforce_right_hand` reversed the face — reversal does not change the answer
  (`Props/C08b.lean`).  `isPointOnFacePoly` takes that loop as an input.
  `HOLE_VERTEX_THRESHOLD` (more than 400 vertices: `from_shape_with_holes_fast`) is not modelled.
-/
import LbgVerif.Basic
import LbgVerif.Gen.Plane
import LbgVerif.Model.PointInside
import LbgVerif.Model.HoleMerge
import LbgVerif.Model.Outward

namespace Lbg.Model.PointOnFace
open Lbg Lbg.Gen
variable {α : Type} [Field α] [LinearOrder α]

/-- The body of `is_point_on_face` with the test vector of `is_point_inside` made explicit. -/
def isPointOnFaceTV (M : MathOps α) (plane : PlaneS α) (poly : List (V2 α)) (point : V3 α)
    (tol : α) (test_vector : V2 α) : Bool :=
  if tol < plane_distance_to_point M plane point then false
  else
    let vert2d := plane_xyz_to_xy plane point
    PointInside.isPointInside poly vert2d test_vector

/-- `Face3D.is_point_on_face(point, tolerance)` given the face's plane and the vertices of its
`polygon2d` (`is_point_inside` is called with its default `test_vector=Vector2D(1, 0.00001)`). -/
def isPointOnFacePoly (M : MathOps α) (plane : PlaneS α) (poly : List (V2 α)) (point : V3 α)
    (tol : α) : Bool :=
  isPointOnFaceTV M plane poly point tol Outward.testVector2

/-- `polygon2d` of a face without holes: `Polygon2D(plane.xyz_to_xy(v) for v in vertices)`. -/
def polygon2dNoHoles (plane : PlaneS α) (vertices : List (V3 α)) : List (V2 α) :=
  vertices.map (plane_xyz_to_xy plane)

/-- `_polygon2d` built by `Face3D.__init__(boundary, plane, holes)` for a face with holes
(before the possible `enforce_right_hand` reversal); `none`: the constructor raises. -/
def polygon2dHoles (plane : PlaneS α) (boundary : List (V3 α)) (holes : List (List (V3 α))) :
    Option (List (V2 α)) :=
  fromShapeWithHoles (boundary.map (plane_xyz_to_xy plane))
    (holes.map (fun h => h.map (plane_xyz_to_xy plane)))

/-- `Face3D(boundary, plane, holes, enforce_right_hand=False).is_point_on_face(point, tol)`;
`holes = []` stands for `holes=None` (Python: `if holes:`). -/
def isPointOnFace (M : MathOps α) (plane : PlaneS α) (boundary : List (V3 α))
    (holes : List (List (V3 α))) (point : V3 α) (tol : α) : Option Bool :=
  if holes.isEmpty then
    some (isPointOnFacePoly M plane (polygon2dNoHoles plane boundary) point tol)
  else
    (polygon2dHoles plane boundary holes).map (fun poly => isPointOnFacePoly M plane poly point tol)

end Lbg.Model.PointOnFace
