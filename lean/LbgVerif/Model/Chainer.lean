/-
  Model of `ladybug_geometry.boolean._segmentChainer(segments, tol)` (l.665–776): the literal
  list program.

  * a chain / a region is a `List (V2 α)`; `chains` and `regions` are lists of them;
  * every Python list access `chain[0]`, `chain[1]`, `chain[-1]`, `chain[-2]` is `nth` / `nthBack`
    with a default (theorem `Props.C04b.chains_length_ge_two`: stored chains always have at
    least two points, so the defaults are never used and Python never raises `IndexError`);
  * the `for i in range(len(chains))` search with `_SegmentChainerMatcher` is `findMatches`:
    one candidate per chain with the code's `if / elif` priority
    head~pt1, head~pt2, tail~pt1, tail~pt2, cut after the second match (the `break`);
  * the two tolerance predicates are parameters `eqv` (`BooleanPoint.is_equivalent`) and `col`
    (`BooleanPoint.collinear`); `chainer` plugs in the GENERATED `Gen.bool_is_equivalent` and
    `Gen.bool_collinear`, so a change of either source function propagates.
-/
import LbgVerif.Basic
import LbgVerif.Gen.Bool

namespace Lbg.Model.Chainer
open Lbg

variable {α : Type}

/-- `l[i]` with the default `d` (Python `l[i]`, `i ≥ 0`). -/
def nth (l : List (V2 α)) (i : Nat) (d : V2 α) : V2 α := l.getD i d

/-- `l[-(i+1)]` with the default `d` (Python `l[-1]`, `l[-2]`). -/
def nthBack (l : List (V2 α)) (i : Nat) (d : V2 α) : V2 α := l.reverse.getD i d

/-- `_Matcher(index, matchesHead, matchesPt1)`. -/
structure Matcher where
  index : Nat
  matchesHead : Bool
  matchesPt1 : Bool
deriving DecidableEq, Repr

/-- State of the `for seg in segments` loop. -/
structure State (α : Type) where
  chains : List (List (V2 α))
  regions : List (List (V2 α))

section
variable (eqv : V2 α → V2 α → Bool) (col : V2 α → V2 α → V2 α → Bool) (z : V2 α)

/-- The `if / elif` cascade of the search loop for ONE chain:
`some (matchesHead, matchesPt1)` when the chain matches. -/
def matchChain (chain : List (V2 α)) (pt1 pt2 : V2 α) : Option (Bool × Bool) :=
  let head := nth chain 0 z
  let tail := nthBack chain 0 z
  if eqv head pt1 then some (true, true)
  else if eqv head pt2 then some (true, false)
  else if eqv tail pt1 then some (false, true)
  else if eqv tail pt2 then some (false, false)
  else none

/-- All matching chains from index `i` on, in index order. -/
def allMatches (pt1 pt2 : V2 α) : List (List (V2 α)) → Nat → List Matcher
  | [], _ => []
  | c :: cs, i =>
    match matchChain eqv z c pt1 pt2 with
    | some (h, p) => ⟨i, h, p⟩ :: allMatches pt1 pt2 cs (i + 1)
    | none => allMatches pt1 pt2 cs (i + 1)

/-- `scm.firstMatch`, `scm.secondMatch` after the search loop (it `break`s at the second
`setMatch`): the first two matches. -/
def findMatches (chains : List (List (V2 α))) (pt1 pt2 : V2 α) : List Matcher :=
  (allMatches eqv z pt1 pt2 chains 0).take 2

/-- `appendChain(index1, index2)` (l.734–749). -/
def appendChain (chains : List (List (V2 α))) (i1 i2 : Nat) : List (List (V2 α)) :=
  let chain1 := chains.getD i1 []
  let chain2 := chains.getD i2 []
  let tail := nthBack chain1 0 z
  let tail2 := nthBack chain1 1 z
  let head := nth chain2 0 z
  let head2 := nth chain2 1 z
  let c1 := col tail2 tail head
  let chain1' := if c1 then chain1.dropLast else chain1
  let tail' := if c1 then tail2 else tail
  let chain2' := if col tail' head head2 then chain2.tail else chain2
  (chains.set i1 (chain1' ++ chain2')).eraseIdx i2

/-- `reverseChain(index)` (l.731). -/
def reverseChain (chains : List (List (V2 α))) (i : Nat) : List (List (V2 α)) :=
  chains.set i (chains.getD i []).reverse

/-- The single-match branch (l.699–729): grow the chain at one end, or close it. -/
def growChain (st : State α) (m : Matcher) (pt1 pt2 : V2 α) : State α :=
  let index := m.index
  let pt := if m.matchesPt1 then pt2 else pt1
  let addToHead := m.matchesHead
  let chain := st.chains.getD index []
  let grow := if addToHead then nth chain 0 z else nthBack chain 0 z
  let grow2 := if addToHead then nth chain 1 z else nthBack chain 1 z
  let oppo := if addToHead then nthBack chain 0 z else nth chain 0 z
  let oppo2 := if addToHead then nthBack chain 1 z else nth chain 1 z
  let c1 := col grow2 grow pt
  let chainA := if c1 then (if addToHead then chain.tail else chain.dropLast) else chain
  let growA := if c1 then grow2 else grow
  if eqv oppo pt then
    let chainB := if col oppo2 oppo growA then
        (if addToHead then chainA.dropLast else chainA.tail) else chainA
    { chains := st.chains.eraseIdx index, regions := st.regions ++ [chainB] }
  else
    let chainB := if addToHead then pt :: chainA else chainA ++ [pt]
    { chains := st.chains.set index chainB, regions := st.regions }

/-- The two-match branch (l.751–774): join two chains, reversing one when both matched at
the same kind of end (the shorter one; `reverseF = len(chains[f]) < len(chains[s])`). -/
def joinChains (st : State α) (m1 m2 : Matcher) : State α :=
  let f := m1.index
  let s := m2.index
  let reverseF := decide ((st.chains.getD f []).length < (st.chains.getD s []).length)
  let chains :=
    if m1.matchesHead then
      if m2.matchesHead then
        if reverseF then appendChain col z (reverseChain st.chains f) f s
        else appendChain col z (reverseChain st.chains s) s f
      else appendChain col z st.chains s f
    else
      if m2.matchesHead then appendChain col z st.chains f s
      else
        if reverseF then appendChain col z (reverseChain st.chains f) s f
        else appendChain col z (reverseChain st.chains s) f s
  { chains := chains, regions := st.regions }

/-- One iteration of `for seg in segments` (a segment is `(start, end)`). -/
def step (st : State α) (seg : V2 α × V2 α) : State α :=
  let pt1 := seg.1
  let pt2 := seg.2
  if eqv pt1 pt2 then st
  else
    match findMatches eqv z st.chains pt1 pt2 with
    | [] => { chains := st.chains ++ [[pt1, pt2]], regions := st.regions }
    | [m] => growChain eqv col z st m pt1 pt2
    | m1 :: m2 :: _ => joinChains col z st m1 m2

/-- The whole loop: final `(chains, regions)`. -/
def run (segs : List (V2 α × V2 α)) : State α :=
  segs.foldl (step eqv col z) ⟨[], []⟩

end

/-- `_segmentChainer(segments, tol)`: the returned `regions`, with the generated tolerance
predicates of `BooleanPoint`. -/
def chainer [Field α] [LinearOrder α] (segs : List (V2 α × V2 α)) (tol : α) :
    List (List (V2 α)) :=
  (run (fun a b => Gen.bool_is_equivalent a b tol) (fun a b c => Gen.bool_collinear a b c tol)
    ⟨0, 0⟩ segs).regions

/-- The chains still open when `_segmentChainer` returns (the code drops them silently). -/
def chainerOpen [Field α] [LinearOrder α] (segs : List (V2 α × V2 α)) (tol : α) :
    List (List (V2 α)) :=
  (run (fun a b => Gen.bool_is_equivalent a b tol) (fun a b c => Gen.bool_collinear a b c tol)
    ⟨0, 0⟩ segs).chains

end Lbg.Model.Chainer
