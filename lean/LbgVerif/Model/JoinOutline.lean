/-
  LbgVerif.Model.JoinOutline — literal executable models of the outline pipeline of property
  C18 (second half):

      geometry2d/polygon.py   Polygon2D._insert_updates_in_order        → `insertUpdates`
                              Polygon2D.intersect_segments              → `intersectSegments`
                              Polygon2D.intersect_polygon_segments      → `intersectPolygonSegments`
                              Polygon2D.joined_intersected_boundary     → `dedupAll`, `edgeTable`,
                                                                          `nakedSegments`, `closedPolys`,
                                                                          `joinedIntersectedBoundary`
                              Polygon2D.group_boundaries_and_holes,
                              Polygon2D._match_holes_to_poly            → `groupBoundariesAndHoles`
      geometry3d/face.py      Face3D.merge_faces_to_holes,
                              Face3D._match_holes_to_face               → `mergeFacesToHoles`
                              Face3D.join_coplanar_faces                → `joinCoplanarFaces2` (plane
                                                                          coordinates), `joinCoplanarFaces`

  AS CODED (the code is the reference; this differs from some descriptions of the method):

  * `joined_intersected_boundary` does NOT compare segments with `is_equivalent`.  It first
    replaces every vertex of every (intersected) polygon by the index of the first vertex seen so
    far that `is_equivalent` to it (`dedupAll`), and then counts EDGES AS INDEX PAIRS: an edge
    `(prev, cur)` bumps the counter of an already stored pair `(cur, prev)`, else of a stored pair
    `(prev, cur)`, else it is stored with counter 0 unless `prev == cur` (`edgeStep`).  The naked
    segments are the stored pairs whose counter is still 0, in order of first appearance, with the
    orientation of the first appearance (`nakedEdges`).
  * `joined_intersected_boundary` does NOT call `group_boundaries_and_holes`; it returns the
    closed polylines as polygons, in the order `join_segments` found them.  The grouping into
    boundary + holes is done by `Face3D.merge_faces_to_holes` in `join_coplanar_faces`.
  * `join_coplanar_faces` feeds the boundary and every hole of every face as SEPARATE loops
    (`faceLoops`), removes colinear vertices per loop and drops loops for which that raises.

  The point distance is a parameter `dist` (the code's `distance_to_point`, i.e.
  `p2_distance_to_point M` with `math.sqrt`); the theorems hold for every `dist`.
  Generated kernels used: `closest_point2d_on_line2d_s`, `seg2_from_end_points` (through
  `Model.PointInside.segments`, proved equal to the generated `polygon2d_segments` in
  `Props/C08g.lean`), `polygon2d_overlapping_bounding_rect`, `v2_is_equivalent`,
  `polygon2d_area`, `polygon2d_is_clockwise`, `polygon2d_is_polygon_inside`, `plane_xyz_to_xy`,
  `plane_xy_to_xyz`; hand models used: `Model.JoinSegments.joinSegments`,
  `Model.Colinear.removeColinearPolygon`.
-/
import LbgVerif.Basic
import LbgVerif.Gen.Vec
import LbgVerif.Gen.Isect2
import LbgVerif.Gen.Poly
import LbgVerif.Gen.PolyMore
import LbgVerif.Gen.Plane
import LbgVerif.Model.PointInside
import LbgVerif.Model.JoinSegments
import LbgVerif.Model.Colinear
import Mathlib.Data.List.Sort

namespace Lbg.Model.JoinOutline
open Lbg Lbg.Gen

/-! ### 0. Python list primitives -/

/-- `l.insert(k, x)` for `k ≥ 0` (a `k` beyond the end appends). -/
def insertAt {β : Type} (l : List β) (k : Nat) (x : β) : List β := l.take k ++ x :: l.drop k

/-- `l.sort(key=lambda x: x[0])`: stable, ascending in the segment index. -/
def sortByIdx {β : Type} (ups : List (Nat × β)) : List (Nat × β) :=
  ups.insertionSort (fun a b => a.1 ≤ b.1)

section Geometry
variable {α : Type} [Field α] [LinearOrder α]

/-! ### 1. `Polygon2D._insert_updates_in_order` -/

/-- One round of `for update in polygon_updates[::-1]:`.  State: `poly_points`, `last_i`,
`colinear_count`.  (`last_i` starts at `-1` in the source; `new_i ≥ 1` always, so `0` serves.)

    new_i = update[0] + 1
    if new_i == last_i:
        colinear_count += 1
        p1 = poly_points[update[0]]
        for i, pt in enumerate(poly_points[new_i:new_i + colinear_count]):
            if p1.distance_to_point(pt) > p1.distance_to_point(update[1]):
                poly_points.insert(new_i + i, update[1]); break
        else:
            poly_points.insert(new_i + colinear_count, update[1])
    else:
        colinear_count = 0
        poly_points.insert(new_i, update[1])
    last_i = new_i                                                                      -/
def insertStep (dist : V2 α → V2 α → α) (st : List (V2 α) × Nat × Nat) (u : Nat × V2 α) :
    List (V2 α) × Nat × Nat :=
  let newI := u.1 + 1
  if newI = st.2.1 then
    let cc := st.2.2 + 1
    let p1 := st.1.getD u.1 ⟨0, 0⟩
    match ((st.1.drop newI).take cc).findIdx? (fun pt => decide (dist p1 u.2 < dist p1 pt)) with
    | some i => (insertAt st.1 (newI + i) u.2, newI, cc)
    | none => (insertAt st.1 (newI + cc) u.2, newI, cc)
  else (insertAt st.1 newI u.2, newI, 0)

/-- `Polygon2D._insert_updates_in_order(polygon, polygon_updates)`: the new vertex list. -/
def insertUpdates (dist : V2 α → V2 α → α) (vs : List (V2 α)) (ups : List (Nat × V2 α)) :
    List (V2 α) :=
  ((sortByIdx ups).reverse.foldl (insertStep dist) (vs, 0, 0)).1

/-! ### 2. `Polygon2D.intersect_segments`, `intersect_polygon_segments` -/

/-- `all(p.distance_to_point(x) > tolerance for p in polygon.vertices)`. -/
def farFromAll (dist : V2 α → V2 α → α) (tol : α) (vs : List (V2 α)) (x : V2 α) : Bool :=
  vs.all (fun p => decide (tol < dist p x))

/-- `polygon1_updates`: for every segment `i1` of `poly1` and every vertex `q = seg2.p1` of
`poly2` (in this loop order): `x = closest_point2d_on_line2d(q, seg1)`; recorded as `(i1, x)`
when `x` is farther than `tol` from every vertex of `poly1` and within `tol` of `q`.  (The source
writes `all(…) and x.distance_to_point(q) <= tol`; both tests are pure, the model evaluates the
cheap one first.) -/
def updatesOnto (dist : V2 α → V2 α → α) (tol : α) (poly1 poly2 : List (V2 α)) :
    List (Nat × V2 α) :=
  (PointInside.segments poly1).zipIdx.flatMap (fun s1 =>
    (PointInside.segments poly2).filterMap (fun s2 =>
      let x := closest_point2d_on_line2d_s s2.p s1.1
      if decide (¬ tol < dist x s2.p) && farFromAll dist tol poly1 x then some (s1.2, x) else none))

/-- `polygon2_updates`: the same test the other way round, appended inside the SAME double loop
(outer loop over the segments `i1` of `poly1`, inner loop over the segments `i2` of `poly2`). -/
def updatesOnto' (dist : V2 α → V2 α → α) (tol : α) (poly1 poly2 : List (V2 α)) :
    List (Nat × V2 α) :=
  (PointInside.segments poly1).flatMap (fun s1 =>
    (PointInside.segments poly2).zipIdx.filterMap (fun s2 =>
      let y := closest_point2d_on_line2d_s s1.p s2.1
      if decide (¬ tol < dist y s1.p) && farFromAll dist tol poly2 y then some (s2.2, y) else none))

/-- `Polygon2D.intersect_segments(polygon1, polygon2, tolerance)`. -/
def intersectSegments (dist : V2 α → V2 α → α) (tol : α) (poly1 poly2 : List (V2 α)) :
    List (V2 α) × List (V2 α) :=
  if polygon2d_overlapping_bounding_rect poly1 poly2 tol then
    (insertUpdates dist poly1 (updatesOnto dist tol poly1 poly2),
     insertUpdates dist poly2 (updatesOnto' dist tol poly1 poly2))
  else (poly1, poly2)

/-- The index pairs `for i in range(n - 1): for j in range(i + 1, n)`. -/
def pairIdx (n : Nat) : List (Nat × Nat) :=
  (List.range (n - 1)).flatMap (fun i => (List.range' (i + 1) (n - (i + 1))).map (fun j => (i, j)))

/-- `polygon_list[i], polygon_list[j] = intersect_segments(polygon_list[i], polygon_list[j], tol)`. -/
def isectPairStep (dist : V2 α → V2 α → α) (tol : α) (l : List (List (V2 α))) (ij : Nat × Nat) :
    List (List (V2 α)) :=
  let r := intersectSegments dist tol (l.getD ij.1 []) (l.getD ij.2 [])
  (l.set ij.1 r.1).set ij.2 r.2

/-- `Polygon2D.intersect_polygon_segments(polygon_list, tolerance)`. -/
def intersectPolygonSegments (dist : V2 α → V2 α → α) (tol : α) (l : List (List (V2 α))) :
    List (List (V2 α)) :=
  (pairIdx l.length).foldl (isectPairStep dist tol) l

end Geometry

/-! ### 3. Naked edges of `joined_intersected_boundary` -/

section Naked
variable {P : Type}

/-- `for i, vert in enumerate(vertices): if v.is_equivalent(vert, tol): …` then the `if not
found` branch: state `(vertices, ind)`. -/
def dedupStep (eqv : P → P → Bool) (st : List P × List Nat) (v : P) : List P × List Nat :=
  match st.1.findIdx? (fun vert => eqv v vert) with
  | some i => (st.1, st.2 ++ [i])
  | none => (st.1 ++ [v], st.2 ++ [st.1.length])

/-- `for loop in int_poly:` — state `(vertices, poly_indices)`. -/
def dedupAll (eqv : P → P → Bool) (loops : List (List P)) : List P × List (List Nat) :=
  loops.foldl (fun st loop =>
    let r := loop.foldl (dedupStep eqv) (st.1, [])
    (r.1, st.2 ++ [r.2])) ([], [])

variable {K : Type} [DecidableEq K]

/-- `ind = edge_i.index(key); edge_t[ind] += 1` — `none` ≙ `ValueError`.  The two parallel lists
`edge_i`, `edge_t` are kept zipped. -/
def bump (key : K × K) : List ((K × K) × Nat) → Option (List ((K × K) × Nat))
  | [] => none
  | g :: rest =>
    if g.1 = key then some ((g.1, g.2 + 1) :: rest)
    else (bump key rest).map (g :: ·)

/-- Body of `for i, vi in enumerate(poly_i):` for the edge `e = (poly_i[i - 1], vi)`:
try `(vi, prev)`, then `(prev, vi)`, else store `(prev, vi)` with count 0 unless `prev == vi`. -/
def edgeStep (S : List ((K × K) × Nat)) (e : K × K) : List ((K × K) × Nat) :=
  match bump (e.2, e.1) S with
  | some S' => S'
  | none =>
    match bump e S with
    | some S' => S'
    | none => if e.1 ≠ e.2 then S ++ [(e, 0)] else S

/-- All directed edges `(loop[i-1], loop[i])` of all loops, in the order the code visits them. -/
def allEdges (loops : List (List K)) : List (K × K) := loops.flatMap cyclicPairs

/-- `(edge_i, edge_t)` after the double loop. -/
def edgeTable (loops : List (List K)) : List ((K × K) × Nat) :=
  (allEdges loops).foldl edgeStep []

/-- The stored index pairs whose counter is 0. -/
def nakedEdges (loops : List (List K)) : List (K × K) :=
  ((edgeTable loops).filter (fun g => g.2 == 0)).map (·.1)

end Naked

section Outline
variable {α : Type} [Field α] [LinearOrder α]

/-- `ext_edges`: the naked index pairs as point pairs `(vertices[e[0]], vertices[e[1]])`. -/
def nakedSegments (eqv : V2 α → V2 α → Bool) (polys : List (List (V2 α))) :
    List (V2 α × V2 α) :=
  let d := dedupAll eqv polys
  (nakedEdges d.2).map (fun e => (d.1.getD e.1 ⟨0, 0⟩, d.1.getD e.2 ⟨0, 0⟩))

/-- `isinstance(bnd, Polyline2D) and bnd.is_closed(tol)` on a chain of `join_segments`: a chain
of two vertices is a `LineSegment2D`; `is_closed` compares the first and the last vertex. -/
def isClosedChain {P : Type} (eqv : P → P → Bool) (c : List P) : Bool :=
  decide (c.length ≠ 2) && (match c.head?, c.getLast? with
    | some a, some b => eqv a b
    | _, _ => false)

/-- `for bnd in outlines: if isinstance(bnd, Polyline2D) and bnd.is_closed(tol):
closed_polys.append(bnd.to_polygon(tol))`.  `to_polygon` of a closed polyline drops the last
vertex; `none` ≙ the `AssertionError` of the `Polygon2D` constructor (fewer than 3 vertices). -/
def closedPolys {P : Type} (eqv : P → P → Bool) : List (List P) → Option (List (List P))
  | [] => some []
  | c :: rest =>
    if isClosedChain eqv c then
      if 3 ≤ c.dropLast.length then (closedPolys eqv rest).map (c.dropLast :: ·) else none
    else closedPolys eqv rest

/-- `Polygon2D.joined_intersected_boundary(polygons, tolerance)` with an explicit point
equivalence `eqv ≙ is_equivalent(·, ·, tol)`. -/
def joinedIntersectedBoundaryWith (dist : V2 α → V2 α → α) (eqv : V2 α → V2 α → Bool) (tol : α)
    (polys : List (List (V2 α))) : Option (List (List (V2 α))) :=
  closedPolys eqv
    (JoinSegments.joinSegments eqv (nakedSegments eqv (intersectPolygonSegments dist tol polys)))

/-- `Polygon2D.joined_intersected_boundary(polygons, tolerance)`. -/
def joinedIntersectedBoundary (dist : V2 α → V2 α → α) (tol : α) (polys : List (List (V2 α))) :
    Option (List (List (V2 α))) :=
  joinedIntersectedBoundaryWith dist (fun a b => v2_is_equivalent a b tol) tol polys

end Outline

/-! ### 4. Grouping loops: `group_boundaries_and_holes`, `merge_faces_to_holes` -/

section Group
variable {L : Type}

/-- The `for i, r in enumerate(others): if test: holes.append(r); del others[i]; break` pass:
`none` ≙ the `else` of the `for`. -/
def takeFirst (test : L × List L → L → Bool) (base : L) (holes : List L) :
    List L → Option (L × List L)
  | [] => none
  | r :: rest =>
    if test (base, holes) r then some (r, rest)
    else (takeFirst test base holes rest).map (fun q => (q.1, r :: q.2))

/-- `while more_to_check:` of `_match_holes_to_poly` / `_match_holes_to_face`, with fuel.
Returns `(holes, other_polys)`. -/
def matchLoop (test : L × List L → L → Bool) (base : L) :
    Nat → List L → List L → List L × List L
  | 0, holes, others => (holes, others)
  | fuel + 1, holes, others =>
    match takeFirst test base holes others with
    | some (r, others') => matchLoop test base fuel (holes ++ [r]) others'
    | none => (holes, others)

/-- `_match_holes_to_poly(base, others, tol)` / `_match_holes_to_face`: at most `len(others)`
polygons can be taken. -/
def matchHoles (test : L × List L → L → Bool) (base : L) (others : List L) : List L × List L :=
  matchLoop test base (others.length + 1) [] others

/-- `while len(remain) > 0:` of `group_boundaries_and_holes` / `merge_faces_to_holes`, fuelled. -/
def mergeLoop (test : L × List L → L → Bool) :
    Nat → L → List L → List (L × List L) → List (L × List L)
  | 0, _, _, acc => acc
  | fuel + 1, base, remain, acc =>
    if remain.length > 0 then
      let r := matchHoles test base remain
      let acc := acc ++ [(base, r.1)]
      match r.2 with
      | [] => acc
      | [s] => acc ++ [(s, [])]
      | s :: rest => mergeLoop test fuel s rest acc
    else acc

/-- The loops after `sorted(polygons, key=lambda x: x.area, reverse=True)` are grouped:
`base = polygons[0]; remain = polygons[1:]; while …`.  NOTE the literal behaviour on a single
loop: the `while` body never runs and NOTHING is returned (`Face3D.merge_faces_to_holes([f])`
returns `[]`; `join_coplanar_faces` and `group_boundaries_and_holes` guard this case). -/
def mergeSorted (test : L × List L → L → Bool) : List L → Option (List (L × List L))
  | [] => none                                   -- `polygons[0]`: IndexError
  | base :: remain => some (mergeLoop test (remain.length + 1) base remain [])

/-- The test of `Face3D._match_holes_to_face`: `base.is_sub_face(r) and not any(h.is_sub_face(r)
for h in holes)`. -/
def faceTest (inside : L → L → Bool) (g : L × List L) (r : L) : Bool :=
  inside g.1 r && !(g.2.any (fun h => inside h r))

/-- The test of `Polygon2D._match_holes_to_poly`: `base.polygon_relationship(r, tol) == 1`. -/
def polyTest (inside : L → L → Bool) (g : L × List L) (r : L) : Bool := inside g.1 r

variable {α : Type} [LinearOrder α]

/-- `sorted(xs, key=area, reverse=True)` (stable: equal keys keep their order). -/
def sortByAreaDesc (area : L → α) (xs : List L) : List L :=
  xs.insertionSort (fun a b => area b ≤ area a)

/-- `Polygon2D.group_boundaries_and_holes(polygons, tol)` over an abstract
`inside a b ≙ a.polygon_relationship(b, tol) == 1`. -/
def groupBoundariesAndHoles (area : L → α) (inside : L → L → Bool) (polys : List L) :
    Option (List (L × List L)) :=
  match polys with
  | [p] => some [(p, [])]
  | _ => mergeSorted (polyTest inside) (sortByAreaDesc area polys)

/-- `Face3D.merge_faces_to_holes(faces, tol)` over an abstract
`inside a b ≙ a.is_sub_face(b, tol, 1)`. -/
def mergeFacesToHoles (area : L → α) (inside : L → L → Bool) (faces : List L) :
    Option (List (L × List L)) :=
  mergeSorted (faceTest inside) (sortByAreaDesc area faces)

end Group

/-! ### 5. `Face3D.join_coplanar_faces` -/

section Faces
variable {α : Type} [Field α] [LinearOrder α]

/-- A face as `(boundary, holes)`. -/
abbrev FaceLoops (β : Type) := List β × List (List β)

/-- `face_polys`: for every face its BOUNDARY, then each of its HOLES, as separate polygons. -/
def faceLoops {β : Type} (faces : List (FaceLoops β)) : List (List β) :=
  faces.flatMap (fun f => f.1 :: f.2)

/-- `try: clean.append(geo.remove_colinear_vertices(tol)) except AssertionError: pass` — the
assertion of the seam patch or of the `Polygon2D` constructor (fewer than 3 vertices left). -/
def cleanLoops (tol : α) (loops : List (List (V2 α))) : List (List (V2 α)) :=
  loops.filterMap (fun l =>
    match Colinear.removeColinearPolygon tol l with
    | some vs => if 3 ≤ vs.length then some vs else none
    | none => none)

/-- `Face3D(verts3d, plane=base_plane)` seen in plane coordinates: the vertex order is reversed
when the loop is clockwise (`enforce_right_hand`). -/
def rightHand (vs : List (V2 α)) : List (V2 α) :=
  if polygon2d_is_clockwise vs then vs.reverse else vs

/-- `Face3D.join_coplanar_faces(faces, tol)` in the coordinates of `faces[0].plane`: faces in,
faces out, as `(boundary, holes)`.  `none` ≙ an exception (`AssertionError` of a degenerate
outline, `IndexError` of `merge_faces_to_holes([])` when no closed outline is found).
`a.is_sub_face(b, tol, 1)` of two faces without holes in the same plane is
`a.polygon2d.is_polygon_inside(b.polygon2d)`; `Face3D.area` of a face without holes is the
polygon area. -/
def joinCoplanarFaces2 (dist : V2 α → V2 α → α) (tol : α) (faces : List (FaceLoops (V2 α))) :
    Option (List (FaceLoops (V2 α))) :=
  match joinedIntersectedBoundary dist tol (cleanLoops tol (faceLoops faces)) with
  | none => none
  | some [b] => some [(rightHand b, [])]
  | some bounds =>
    mergeFacesToHoles polygon2d_area polygon2d_is_polygon_inside (bounds.map rightHand)

/-- `Face3D.join_coplanar_faces(faces, tol)` on 3D vertices, `pl = faces[0].plane`:
`plane.xyz_to_xy` on the way in, `plane.xy_to_xyz` on the way out. -/
def joinCoplanarFaces (dist : V2 α → V2 α → α) (tol : α) (pl : PlaneS α)
    (faces : List (FaceLoops (V3 α))) : Option (List (FaceLoops (V3 α))) :=
  (joinCoplanarFaces2 dist tol
      (faces.map (fun f => (f.1.map (plane_xyz_to_xy pl), f.2.map (·.map (plane_xyz_to_xy pl)))))).map
    (·.map (fun f => (f.1.map (plane_xy_to_xyz pl), f.2.map (·.map (plane_xy_to_xyz pl)))))

end Faces

end Lbg.Model.JoinOutline
