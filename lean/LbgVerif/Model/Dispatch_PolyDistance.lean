/- Driver ops for the literal hand models of the composite distance routines of C12:
   `Model/PolyDistance.lean` (`Polygon2D.distance_from_edge_to_point`, `distance_to_point`,
   `pole_of_inaccessibility` with `_Cell`) and `Model/SegSeg.lean`
   (`closest_point2d_between_line2d`, `closest_end_point2d_between_line2d`). -/
import LbgVerif.Wire
import LbgVerif.Model.PolyDistance
import LbgVerif.Model.SegSeg

namespace Lbg.Model
open Lean Lbg.Wire

namespace PolyDistanceDrv
open PolyDistance

/-- Decision margins of one run of the main loop (instrumentation OUTSIDE the model: the driver
iterates the model's `step` and looks at the states in between).  `mBest`: least
`|cell.d − best.d|` over the `cell.d > best_cell.d` tests (the test `bbox_cell.d > best_cell.d`
before the loop included); `mPrune`: least
`|cell.max − best.d − tol|` over the pruning tests; `mHead`: least gap between the `max` of the
cell taken and the `max` of the next entry of the queue (0 = the counter decided). -/
structure Margins where
  mBest : Option ℚ := none
  mPrune : Option ℚ := none
  mHead : Option ℚ := none

def omin (o : Option ℚ) (v : ℚ) : Option ℚ :=
  match o with
  | none => some v
  | some w => some (min w v)

def margins1 (tol : ℚ) (st : PState ℚ) (m : Margins) : Margins :=
  match st.queue with
  | [] => m
  | cell :: rest =>
    let best := if cell.d > st.best.d then cell else st.best
    let m1 : Margins := { m with mBest := omin m.mBest |cell.d - st.best.d|,
                                 mPrune := omin m.mPrune |cell.max - best.d - tol| }
    match rest with
    | [] => m1
    | nx :: _ => { m1 with mHead := omin m1.mHead (cell.max - nx.max) }

def runM (M : MathOps ℚ) (poly : List (V2 ℚ)) (tol : ℚ) :
    Nat → PState ℚ → Margins → PState ℚ × Margins
  | 0, st, m => (st, m)
  | fuel + 1, st, m =>
    match step M poly tol st with
    | none => (st, m)
    | some st' => runM M poly tol fuel st' (margins1 tol st m)

def encCell (c : Cell ℚ) : Json := Json.arr #[enc c.x, enc c.y, enc c.h, enc c.d, enc c.max]

/-- `[distance, point on a, point on b, squared distances of the four candidates]`. -/
def encBetween (r : ℚ × V2 ℚ × V2 ℚ)
    (sq : (ℚ × V2 ℚ × V2 ℚ) × List (ℚ × V2 ℚ × V2 ℚ)) : Json :=
  Json.arr #[enc r.1, enc r.2.1, enc r.2.2, enc ((sq.1 :: sq.2).map (fun c => c.1))]

end PolyDistanceDrv

open PolyDistance PolyDistanceDrv in
/-- * `model.polygon_edge_distance_sq [vertices, point]` → exact squared
      `distance_from_edge_to_point`;
    * `model.polygon_distance_sq [vertices, point, test_vector]` → exact squared
      `distance_to_point`;
    * `model.polygon_edge_distance [vertices, point]`, `model.polygon_distance [vertices, point,
      test_vector]` → the distances themselves with the float `sqrt`;
    * `model.cell [vertices, x, y, h]` → `[x, y, h, d, max]` of `_Cell(x, y, h, polygon)` (float
      `sqrt`); `model.cell_sq [vertices, x, y]` → `[inside, min_dist_sq]` exactly;
    * `model.centroid_cell [vertices]` → the cell of `_get_centroid_cell`;
    * `model.pole_of_inaccessibility [vertices, tol, fuel]` →
      `[degenerate, point, d, pops, probes, complete, initial queue length,
        [mBest, mPrune, mHead]]` (float `sqrt`; margins `null` when no such test was made);
    * `model.closest_points_between [a, b]`, `model.closest_end_points_between [a, b]`
      (`a`, `b` segments as `[p, v]`) → `[distance, point on a, point on b, [d1², d2², d3², d4²]]`
      (float `sqrt` for the routine itself; the candidates' squared distances exactly). -/
def dispatchPolyDistance (op : String) (args : Array Json) : Option (Except String Json) :=
  match op with
  | "model.polygon_edge_distance_sq" => some (do
      let vs ← (dec (args.getD 0 Json.null) : Except String (List (V2 ℚ)))
      let p ← (dec (args.getD 1 Json.null) : Except String (V2 ℚ))
      pure (enc (edgeDistSq vs p)))
  | "model.polygon_distance_sq" => some (do
      let vs ← (dec (args.getD 0 Json.null) : Except String (List (V2 ℚ)))
      let p ← (dec (args.getD 1 Json.null) : Except String (V2 ℚ))
      let d ← (dec (args.getD 2 Json.null) : Except String (V2 ℚ))
      pure (enc (distSq vs p d)))
  | "model.polygon_edge_distance" => some (do
      let vs ← (dec (args.getD 0 Json.null) : Except String (List (V2 ℚ)))
      let p ← (dec (args.getD 1 Json.null) : Except String (V2 ℚ))
      pure (enc (distanceFromEdgeToPoint floatOps vs p)))
  | "model.polygon_distance" => some (do
      let vs ← (dec (args.getD 0 Json.null) : Except String (List (V2 ℚ)))
      let p ← (dec (args.getD 1 Json.null) : Except String (V2 ℚ))
      let d ← (dec (args.getD 2 Json.null) : Except String (V2 ℚ))
      pure (enc (distanceToPoint floatOps vs p d)))
  | "model.cell" => some (do
      let vs ← (dec (args.getD 0 Json.null) : Except String (List (V2 ℚ)))
      let x ← (dec (args.getD 1 Json.null) : Except String ℚ)
      let y ← (dec (args.getD 2 Json.null) : Except String ℚ)
      let h ← (dec (args.getD 3 Json.null) : Except String ℚ)
      pure (encCell (mkCell floatOps vs x y h)))
  | "model.cell_sq" => some (do
      let vs ← (dec (args.getD 0 Json.null) : Except String (List (V2 ℚ)))
      let x ← (dec (args.getD 1 Json.null) : Except String ℚ)
      let y ← (dec (args.getD 2 Json.null) : Except String ℚ)
      let st := (cyclicPairs vs).foldl (cellStep x y) (false, none)
      pure (Json.arr #[enc st.1, enc (st.2.getD 0)]))
  | "model.centroid_cell" => some (do
      let vs ← (dec (args.getD 0 Json.null) : Except String (List (V2 ℚ)))
      pure (encCell (centroidCell floatOps vs)))
  | "model.pole_of_inaccessibility" => some (do
      let vs ← (dec (args.getD 0 Json.null) : Except String (List (V2 ℚ)))
      let tol ← (dec (args.getD 1 Json.null) : Except String ℚ)
      let fuel ← (dec (args.getD 2 Json.null) : Except String Nat)
      match poleInit floatOps vs tol fuel with
      | none =>
        pure (Json.arr #[enc true, enc (bboxCenter vs), Json.null, enc (0 : Nat), enc (0 : Nat),
          enc true, enc (0 : Nat), Json.arr #[Json.null, Json.null, Json.null]])
      | some st0 =>
        -- margin of the test `bbox_cell.d > best_cell.d` made before the loop
        let m0 : Margins := match vs with
          | [] => {}
          | v0 :: rest =>
            let mm := PointInside.boundRect v0 rest
            let bbox := mkCell floatOps vs (mm.1.x + (mm.2.x - mm.1.x) / 2)
              (mm.1.y + (mm.2.y - mm.1.y) / 2) 0
            { mBest := some |bbox.d - (centroidCell floatOps vs).d| }
        let (st, m) := runM floatOps vs tol fuel st0 m0
        pure (Json.arr #[enc false, enc (⟨st.best.x, st.best.y⟩ : V2 ℚ), enc st.best.d,
          enc st.pops, enc st.probes, enc (st.queue.isEmpty), enc st0.queue.length,
          Json.arr #[enc m.mBest, enc m.mPrune, enc m.mHead]]))
  | "model.closest_points_between" => some (do
      let a ← (dec (args.getD 0 Json.null) : Except String (LR2 ℚ))
      let b ← (dec (args.getD 1 Json.null) : Except String (LR2 ℚ))
      pure (encBetween (SegSeg.closestPointsBetween floatOps a b)
        (SegSeg.candidates (SegSeg.sqOps floatOps) a b)))
  | "model.closest_end_points_between" => some (do
      let a ← (dec (args.getD 0 Json.null) : Except String (LR2 ℚ))
      let b ← (dec (args.getD 1 Json.null) : Except String (LR2 ℚ))
      pure (encBetween (SegSeg.closestEndPointsBetween floatOps a b)
        (SegSeg.endCandidates (SegSeg.sqOps floatOps) a b)))
  | _ => none

end Lbg.Model
