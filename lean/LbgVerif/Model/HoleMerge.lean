/-
  Model.HoleMerge — literal hand models (C01 / C06) of

  * `Polygon2D._merge_boundary_and_hole`, `_merge_boundary_and_hole_detailed`,
    `_merge_boundary_and_closest_hole`, `_merge_boundary_and_holes` (`split=False`) and of the
    constructors `Polygon2D.from_shape_with_hole / from_shape_with_holes` that call them
    (geometry2d/polygon.py l.169-245, 2492-2560, 2619-2690) — what `Face3D.__init__` uses for a
    face with holes (up to `HOLE_VERTEX_THRESHOLD = 400` vertices);
  * `Face3D._plane_from_vertices` (geometry3d/face.py l.3253-3279).

  The distance dictionaries `dist_dict[b_pt.distance_to_point(h_pt)] = [i, j]` are modelled as
  the LOG of their writes, in program order (`DistLog`): `min(dist_dict.keys())` is the least key
  of the log and `dist_dict[min_dist]` the value of the LAST write with that key (a later write
  with an equal key overwrites the earlier one).  The keys are the SQUARED distances: `sqrt` is
  monotone, so the least key and the ties are the same as for the distances themselves (exactly
  so for the doubles of lattice points; stated as trusted in the correspondence module).

  `none` = the Python code raises (`min()` of an empty dictionary: empty boundary or empty hole;
  a hole with fewer than 3 vertices in `from_shape_with_holes`; `verts[0]` of an empty list).

  NOT modelled: `split=True` of `_merge_boundary_and_holes`, `from_shape_with_holes_fast`
  (earcut's `_eliminate_holes`, see `Model/Earcut.lean`).
-/
import LbgVerif.Basic
import LbgVerif.Gen.Vec
import LbgVerif.Gen.Poly
import LbgVerif.Gen.Plane
import LbgVerif.Gen.Face

namespace Lbg.Model
open Lbg Lbg.Gen

variable {α : Type} [Field α] [LinearOrder α]

/-- The key of a dictionary entry: squared distance of the two points. -/
def pdistSq (a b : V2 α) : α := (a.x - b.x) * (a.x - b.x) + (a.y - b.y) * (a.y - b.y)

/-- The writes `dist_dict[key] = [i, j]` of one dictionary, oldest first. -/
abbrev DistLog (α : Type) := List (α × Nat × Nat)

/-- `for bi, b_pt in zip(indices from start, pts): for j, h_pt in enumerate(hole):
dist_dict[b_pt.distance_to_point(h_pt)] = [bi, j]`. -/
def writesFor (pts : List (V2 α)) (start : Nat) (hole : List (V2 α)) : DistLog α :=
  (pts.zipIdx start).flatMap (fun b => (hole.zipIdx).map (fun h => (pdistSq b.1 h.1, b.2, h.2)))

/-- `min(dist_dict.keys())` (`none`: `ValueError`, the dictionary is empty). -/
def logMin : DistLog α → Option α
  | [] => none
  | e :: t => some (t.foldl (fun m x => min m x.1) e.1)

/-- `dist_dict[key]`: the value of the last write with this key. -/
def logLookup (log : DistLog α) (key : α) : Option (Nat × Nat) :=
  (log.reverse.find? (fun e => decide (e.1 = key))).map (fun e => e.2)

/-- `min(min_dists)` of a list of numbers. -/
def listMin : List α → Option α
  | [] => none
  | a :: t => some (t.foldl min a)

/-- `[boundary[i]] + list(deque(hole).rotate(-j)) + [hole[j]]`. -/
def holeInsert (boundary hole : List (V2 α)) (i j : Nat) : List (V2 α) :=
  [boundary.getD i ⟨0, 0⟩] ++ hole.rotate j ++ [hole.getD j ⟨0, 0⟩]

/-- `boundary[i:i] = insert`. -/
def spliceAt (boundary ins : List (V2 α)) (i : Nat) : List (V2 α) :=
  boundary.take i ++ ins ++ boundary.drop i

/-- `Polygon2D._merge_boundary_and_hole_detailed(boundary, hole, dist_dict)`:
`(new boundary, hole_insert, insert_index)`. -/
def mergeDetailed (boundary hole : List (V2 α)) (log : DistLog α) :
    Option (List (V2 α) × List (V2 α) × Nat) :=
  match logMin log with
  | none => none
  | some k =>
    match logLookup log k with
    | none => none
    | some (i, j) =>
      let ins := holeInsert boundary hole i j
      some (spliceAt boundary ins i, ins, i)

/-- `Polygon2D._merge_boundary_and_hole(boundary, hole, dist_dict)` with the dictionary built by
`from_shape_with_hole`. -/
def mergeBoundaryAndHole (boundary hole : List (V2 α)) : Option (List (V2 α)) :=
  (mergeDetailed boundary hole (writesFor boundary 0 hole)).map (fun r => r.1)

/-- The index shift of the remaining dictionaries after an insertion of `addInd` vertices at
`bInd`: `if ind_list[0] > b_ind: ind_list[0] += add_ind`. -/
def shiftLog (log : DistLog α) (bInd addInd : Nat) : DistLog α :=
  log.map (fun e => (e.1, (if e.2.1 > bInd then e.2.1 + addInd else e.2.1), e.2.2))

/-- The `while len(holes) > 0` loop of `_merge_boundary_and_holes` (`split=False`); `fuel` =
number of holes. -/
def mergeLoop : Nat → List (V2 α) → List (List (V2 α)) → List (DistLog α) → Option (List (V2 α))
  | 0, boundary, holes, _ => if holes.isEmpty then some boundary else none
  | fuel + 1, boundary, holes, logs =>
    if holes.isEmpty then some boundary else
    match logs.mapM logMin with
    | none => none
    | some minDists =>
      match listMin minDists with
      | none => none
      | some gmin =>
        let hi := minDists.findIdx (fun d => decide (d = gmin))
        match mergeDetailed boundary (holes.getD hi []) (logs.getD hi []) with
        | none => none
        | some (boundary', oldHole, bInd) =>
          let holes' := holes.eraseIdx hi
          let logs' := (logs.eraseIdx hi).map (fun l => shiftLog l bInd oldHole.length)
          let logs'' := (holes'.zip logs').map (fun hl => hl.2 ++ writesFor oldHole bInd hl.1)
          mergeLoop fuel boundary' holes' logs''

/-- `Polygon2D._merge_boundary_and_holes(boundary, holes)`. -/
def mergeBoundaryAndHoles (boundary : List (V2 α)) (holes : List (List (V2 α))) :
    Option (List (V2 α)) :=
  mergeLoop holes.length boundary holes (holes.map (fun h => writesFor boundary 0 h))

/-- `Polygon2D._merge_boundary_and_closest_hole(boundary, holes)`:
`(new boundary, remaining holes)`. -/
def mergeClosestHole (boundary : List (V2 α)) (holes : List (List (V2 α))) :
    Option (List (V2 α) × List (List (V2 α))) :=
  let logs := holes.map (fun h => writesFor boundary 0 h)
  match logs.mapM logMin with
  | none => none
  | some minDists =>
    match listMin minDists with
    | none => none
    | some gmin =>
      let hi := minDists.findIdx (fun d => decide (d = gmin))
      match mergeDetailed boundary (holes.getD hi []) (logs.getD hi []) with
      | none => none
      | some (boundary', _, _) => some (boundary', holes.eraseIdx hi)

/-- The orientation step of `from_shape_with_hole(s)`:
`if cls._are_clockwise(hole) is bound_direction: hole.reverse()`. -/
def orientHole (boundDirection : Bool) (hole : List (V2 α)) : List (V2 α) :=
  if polygon2d_are_clockwise hole = boundDirection then hole.reverse else hole

/-- `Polygon2D.from_shape_with_holes(boundary, holes).vertices` (`none`: an assertion or
`ValueError`). -/
def fromShapeWithHoles (boundary : List (V2 α)) (holes : List (List (V2 α))) :
    Option (List (V2 α)) :=
  if holes.any (fun h => decide (h.length < 3)) then none else
  let dir := polygon2d_are_clockwise boundary
  mergeBoundaryAndHoles boundary (holes.map (orientHole dir))

/-- `Polygon2D.from_shape_with_hole(boundary, hole).vertices`. -/
def fromShapeWithHole (boundary hole : List (V2 α)) : Option (List (V2 α)) :=
  mergeBoundaryAndHole boundary (orientHole (polygon2d_are_clockwise boundary) hole)

/-! ## `Face3D._plane_from_vertices` -/

/-- The accumulated `normal` of `_plane_from_vertices`:
`cprods = [_normal_from_3pts(verts[0], verts[i+1], verts[i+2]) for i in range(len(verts) - 2)]`,
then `normal[k] += cprodx[k]` from `[0, 0, 0]`. -/
def fanNormalLit (verts : List (V3 α)) : V3 α :=
  let base := verts.getD 0 ⟨0, 0, 0⟩
  let cprods := (List.range (verts.length - 2)).map (fun i =>
    face3d_normal_from_3pts base (verts.getD (i + 1) ⟨0, 0, 0⟩) (verts.getD (i + 2) ⟨0, 0, 0⟩))
  cprods.foldl (fun (n : V3 α) c => ⟨n.x + c.x, n.y + c.y, n.z + c.z⟩) ⟨0, 0, 0⟩

/-- `Face3D._plane_from_vertices(verts)` (`none`: `ValueError`, no vertices). -/
def planeFromVerticesLit (M : MathOps α) (verts : List (V3 α)) : Option (PlaneS α) :=
  match verts with
  | [] => none
  | base :: _ =>
    let normal := fanNormalLit verts
    let normalVec : V3 α :=
      if normal ≠ ⟨0, 0, 0⟩ then
        let ds := M.sqrt (normal.x * normal.x + normal.y * normal.y + normal.z * normal.z)
        ⟨normal.x / ds, normal.y / ds, normal.z / ds⟩
      else ⟨0, 0, 1⟩
    some (plane_init M normalVec base)

end Lbg.Model
