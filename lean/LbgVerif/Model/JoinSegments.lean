/-
  LbgVerif.Model.JoinSegments — literal executable model of `ladybug_geometry/_polyline.py`
  (`_group_vertices`, `_build_polyline`, `_connect_seg_to_poly`) as used by
  `Polyline2D.join_segments` / `Polyline3D.join_segments` (property C18).

  Points are an abstract type `P`; `eqv a b ≙ a.is_equivalent(b, tol)` is any Boolean test
  (no symmetry or transitivity is assumed by the model).  A segment is its pair of end
  points `(p1, p2)`; a chain is its vertex list.  The two `while` loops carry fuel; the
  public functions supply `len(segments)`, and `Lemmas/JoinSegments.lean` proves that the
  loops have really exited by then (the result does not depend on the fuel above that bound).
-/
import LbgVerif.Basic

namespace Lbg.Model.JoinSegments

variable {P : Type}

/-- A line segment as the pair (`p1`, `p2`). -/
abbrev Seg (P : Type) := P × P

/-- `_connect_seg_to_poly(poly_verts, seg, tol)`: the four attempts in the source's order
(`poly[-1]~p1` → append `p2`; `poly[0]~p2` → insert `p1` in front; `poly[-1]~p2` → append `p1`;
`poly[0]~p1` → insert `p2` in front).  `some poly'` ≙ returned `True` with the list mutated to
`poly'`; `none` ≙ returned `False` (the list is unchanged). -/
def connect (eqv : P → P → Bool) (poly : List P) (seg : Seg P) : Option (List P) :=
  match poly.head?, poly.getLast? with
  | some first, some last =>
    if eqv last seg.1 then some (poly ++ [seg.2])
    else if eqv first seg.2 then some (seg.1 :: poly)
    else if eqv last seg.2 then some (poly ++ [seg.1])
    else if eqv first seg.1 then some (seg.2 :: poly)
    else none
  | _, _ => none

/-- The `for i, r_seg in enumerate(other_segs): if _connect…: del other_segs[i]; break` pass:
the first segment that connects is attached and deleted from the list.  `none` ≙ the `else`
branch of the `for` (no segment connects). -/
def tryConnect (eqv : P → P → Bool) (poly : List P) : List (Seg P) → Option (List P × List (Seg P))
  | [] => none
  | s :: rest =>
    match connect eqv poly s with
    | some poly' => some (poly', rest)
    | none =>
      match tryConnect eqv poly rest with
      | some (poly', rest') => some (poly', s :: rest')
      | none => none

/-- `while more_to_check:` of `_build_polyline`, with fuel. Returns the chain and what is left
of `other_segs`. -/
def buildLoop (eqv : P → P → Bool) : Nat → List P → List (Seg P) → List P × List (Seg P)
  | 0, poly, segs => (poly, segs)
  | fuel + 1, poly, segs =>
    match tryConnect eqv poly segs with
    | some (poly', segs') => buildLoop eqv fuel poly' segs'
    | none => (poly, segs)

/-- `_build_polyline(base_seg, other_segs, tol)`: `poly_verts = [base_seg.p1, base_seg.p2]`
then the loop (at most `len(other_segs)` attachments are possible). -/
def buildPolyline (eqv : P → P → Bool) (base : Seg P) (others : List (Seg P)) :
    List P × List (Seg P) :=
  buildLoop eqv others.length [base.1, base.2] others

/-- `while len(remain_segs) > 0:` of `_group_vertices`, with fuel; `acc` is `grouped_verts`. -/
def groupLoop (eqv : P → P → Bool) :
    Nat → Seg P → List (Seg P) → List (List P) → List (List P)
  | 0, _, _, acc => acc
  | fuel + 1, base, remain, acc =>
    if remain.length > 0 then
      let r := buildPolyline eqv base remain
      let acc := acc ++ [r.1]
      match r.2 with
      | [] => acc                                   -- loop condition fails
      | [s] => acc ++ [[s.1, s.2]]                  -- lone last segment
      | s :: rest => groupLoop eqv fuel s rest acc  -- base_seg = remain_segs[0]; del remain_segs[0]
    else acc

/-- `_group_vertices(segments, tol)` (`segments[0]` raises on an empty list: `none`). -/
def groupVertices (eqv : P → P → Bool) : List (Seg P) → Option (List (List P))
  | [] => none
  | base :: remain => some (groupLoop eqv (remain.length + 1) base remain [])

/-- `Polyline2D.join_segments(segments, tol)` / `Polyline3D.join_segments`: the vertex lists of
the returned objects (`if len(segments) <= 1: return segments`; a two-vertex list becomes a
`LineSegment`, a longer one a `Polyline`). -/
def joinSegments (eqv : P → P → Bool) (segs : List (Seg P)) : List (List P) :=
  match segs with
  | [] => []
  | [s] => [[s.1, s.2]]
  | base :: remain => groupLoop eqv (remain.length + 1) base remain []

/-- The consecutive vertex pairs of a chain: its segments. -/
def edges : List P → List (Seg P)
  | [] => []
  | [_] => []
  | a :: b :: t => (a, b) :: edges (b :: t)

end Lbg.Model.JoinSegments
