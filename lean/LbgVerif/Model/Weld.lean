/-
  Model/Weld — LITERAL hand model of the vertex welding of `Polyface3D.from_faces`
  (geometry3d/polyface.py l.141-178):

      vertices = []
      face_indices = []
      for f in faces:
          ind = []
          loops = (f.boundary,) if not f.has_holes else (f.boundary,) + f.holes
          for j, loop in enumerate(loops):
              ind.append([])
              for v in loop:
                  found = False
                  for i, vert in enumerate(vertices):
                      if v.is_equivalent(vert, tolerance):      # first match wins
                          found = True
                          ind[j].append(i)
                          break
                  if not found:
                      vertices.append(v)                        # the input point itself
                      ind[j].append(len(vertices) - 1)
          face_indices.append(tuple(ind))
      face_obj = cls(vertices, face_indices)                    # Model/EdgeInfo; asserts
                                                                #   len(vertices) >= 3
      if face_obj._is_solid:
          face_obj._faces = cls.get_outward_faces(faces, 0.01)  # Model/Outward
      else:
          face_obj._faces = tuple(faces)

  A face is the list of its loops (boundary first, then the holes); a loop is the list of
  its points.  The model is generic over the point type `P` and the test
  `eqv v vert` (= `v.is_equivalent(vert, tolerance)`: first argument the NEW point, second
  the stored vertex); `weld3` instantiates it with the generated kernel
  `Gen.a_p3d_is_equivalent` (`Point3D.is_equivalent`).  One vertex list is threaded through
  all points of all loops of all faces, exactly as the code does.
  Property theorems: `Props/C07c.lean`.
-/
import LbgVerif.Basic
import LbgVerif.Gen.Auto
import LbgVerif.Model.EdgeInfo
import LbgVerif.Model.Outward

namespace Lbg.Model.Weld
variable {P : Type}

/-- `for i, vert in enumerate(vertices): if v.is_equivalent(vert, tol): … break`:
position of the first stored vertex that `v` is equivalent to (`none` = `not found`). -/
def findFirst (eqv : P → P → Bool) (v : P) : List P → Option Nat
  | [] => none
  | w :: t => if eqv v w then some 0 else (findFirst eqv v t).map (· + 1)

/-- Body of `for v in loop`: the vertex list afterwards and the index appended to `ind[j]`. -/
def weldPoint (eqv : P → P → Bool) (vs : List P) (v : P) : List P × Nat :=
  match findFirst eqv v vs with
  | some i => (vs, i)
  | none => (vs ++ [v], vs.length)

/-- The loop pattern used three times by `from_faces` (points of a loop, loops of a face,
faces): a state `s` (the vertex list) is threaded through the items of `l`; every item
produces one output that is APPENDED to the list of outputs (`ind[j].append(i)`,
`ind.append([...])`, `face_indices.append(tuple(ind))`). -/
def thread {S A B : Type} (f : S → A → S × B) (s : S) (l : List A) : S × List B :=
  l.foldl (fun acc a => let r := f acc.1 a; (r.1, acc.2 ++ [r.2])) (s, [])

/-- `ind.append([]); for v in loop: …` — one loop: vertex list afterwards and `ind[j]`. -/
def weldLoop (eqv : P → P → Bool) (vs : List P) (loop : List P) : List P × List Nat :=
  thread (weldPoint eqv) vs loop

/-- `ind = []; for j, loop in enumerate(loops): …` — one face: vertex list afterwards and
`ind`. -/
def weldFace (eqv : P → P → Bool) (vs : List P) (face : List (List P)) :
    List P × List (List Nat) :=
  thread (weldLoop eqv) vs face

/-- The welding part of `Polyface3D.from_faces`: `(vertices, face_indices)`. -/
def weld (eqv : P → P → Bool) (faces : List (List (List P))) :
    List P × List (List (List Nat)) :=
  thread (weldFace eqv) [] faces

/-- What `from_faces` then hands to the constructor, and what the constructor computes
(`Model/EdgeInfo`): `(vertices, face_indices, (edge_indices, edge_types), is_solid)`.
`none` = the `AssertionError` of `Base2DIn3D._check_vertices_input`
(`assert len(vertices) >= 3`), raised by `cls(vertices, face_indices)` before any edge is
counted. -/
def fromFacesEdgeInfo (eqv : P → P → Bool) (faces : List (List (List P))) :
    Option (List P × List (List (List Nat)) × EdgeInfo.St × Bool) :=
  let r := weld eqv faces
  if r.1.length < 3 then none
  else
    let s := EdgeInfo.edgeInfo r.2
    some (r.1, r.2, s, EdgeInfo.isSolidOf s.edge_t)

section point3d
variable {α : Type} [Field α] [LinearOrder α]

/-- `v.is_equivalent(vert, tolerance)` for `Point3D` — the generated kernel. -/
def eqv3 (tol : α) (v vert : V3 α) : Bool := Lbg.Gen.a_p3d_is_equivalent v vert tol

/-- `Polyface3D.from_faces(faces, tolerance)`: vertices and face indices. -/
def weld3 (tol : α) (faces : List (List (List (V3 α)))) :
    List (V3 α) × List (List (List Nat)) := weld (eqv3 tol) faces

/-- `Polyface3D.from_faces(faces, tolerance)._faces` for faces WITHOUT holes (the face type of
`Model/Outward`): re-oriented by `get_outward_faces(faces, 0.01)` if the welded structure is
solid, the input faces otherwise. -/
def fromFacesFaces (M : MathOps α) (tol : α) (faces : List (Outward.Face α)) :
    List (Outward.Face α) :=
  if EdgeInfo.isSolid (weld3 tol (faces.map (fun f => [f.verts]))).2 then
    Outward.outwardFaces M faces Outward.tolFaces
  else faces

end point3d

end Lbg.Model.Weld
