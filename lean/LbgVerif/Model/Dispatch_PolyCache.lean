/- Driver table for Model.PolylineCache / FaceCache / PolyfaceCache (property C03: Polyline2D,
   Polyline3D, Face3D, Polyface3D cache machines).

   `model.polyline2d_history [state, ops]`, `model.polyline3d_history [state, ops]`,
   `model.face3d_history [state, ops]`, `model.polyface_history [state, ops]`
   → one entry per op: the complete slot state after the op (object with one key per slot,
   numbers as "n/d" strings, empty slot = null), `{"err":"assert"}` when the python method
   raises an `AssertionError` (state unchanged), or `{"obs": …}` for conversions that return an
   object of another class (`to_polyline2d`, `to_polyline3d`; state unchanged).
   `state`: the defining data and the slots read off a real object (missing key = empty slot).

   ops (all): `{"op":"read_<slot>"}`, `{"op":"duplicate"}`, `{"op":"move","v":[…]}`,
   `{"op":"rotate", …,"c":cos,"s":sin,"o":[…]}` (3D: plus `"axis"`), `{"op":"rotate_xy","c","s","o"}`,
   `{"op":"reflect","n":[…],"o":[…]}`, `{"op":"scale","k":…,"o":[…]}`, `{"op":"scale_world","k":…}`;
   polylines: `reverse`, `remove_colinear_vertices` (`"tol"`), `to_polyline2d`,
   `to_polyline3d` (`"plane"`); faces: `flip`, `remove_colinear_vertices`; polyfaces:
   `read_faces` / `read_area` / `read_volume` carry `"fresh"`: the face states the `faces` getter
   builds when `_faces` is empty.  `math.sqrt` = IEEE; cos / sin of rotations are passed in. -/
import LbgVerif.Wire
import LbgVerif.Model.PolylineCache
import LbgVerif.Model.FaceCache
import LbgVerif.Model.PolyfaceCache

namespace Lbg.Model
open Lean Lbg.Wire Lbg.Gen

namespace PolyCacheWire
open Lbg.Model.PolylineCache

def optField {τ : Type} [Codec τ] (j : Json) (k : String) : Except String (Option τ) :=
  match j.getObjVal? k with
  | .ok v => dec v
  | .error _ => pure none

def field {τ : Type} [Codec τ] (j : Json) (k : String) : Except String τ := do
  let v ← j.getObjVal? k
  dec v

def errAssert : Json := Json.mkObj [("err", Json.str "assert")]

/-- `ratToFloat` that survives numerators / denominators beyond the double range (exact
rationals grow along a history): both are shifted down to ≤ 960 bits first. -/
def ratToFloatBig (q : ℚ) : Float :=
  let nb := q.num.natAbs.log2
  let db := q.den.log2
  if nb < 960 && db < 960 then ratToFloat q
  else
    let sh := (max nb db) - 900
    let n' : Int := if q.num < 0 then -((q.num.natAbs >>> sh : Nat) : Int) else ((q.num.natAbs >>> sh : Nat) : Int)
    let d' : Nat := q.den >>> sh
    if d' = 0 then (if q.num < 0 then -(1.0 / 0.0) else (1.0 / 0.0))
    else intToFloat n' / Float.ofNat d'

/-- `math.sqrt` on IEEE doubles (the only `math` function the machines call). -/
def fOps : MathOps ℚ := { floatOps with sqrt := fun x => floatToRat (Float.sqrt (ratToFloatBig x)) }

/-- `math` with the rotation's cosine and sine passed in by the harness. -/
def csOps (c s : ℚ) : MathOps ℚ := { fOps with cos := fun _ => c, sin := fun _ => s }

def opList (j : Json) : Except String (List Json) :=
  match j with
  | Json.arr a => pure a.toList
  | _ => throw "expected op list"

/-! ### Polyline2D -/

def decPL2 (j : Json) : Except String (PL2 ℚ) := do
  pure { vertices := ← field j "vertices", interpolated := ← field j "interpolated",
         min := ← optField j "min", max := ← optField j "max", center := ← optField j "center",
         segments := ← optField j "segments", length := ← optField j "length",
         is_self_intersecting := ← optField j "is_self_intersecting" }

def encPL2 (s : PL2 ℚ) : Json :=
  Json.mkObj [("vertices", enc s.vertices), ("interpolated", enc s.interpolated),
    ("min", enc s.min), ("max", enc s.max), ("center", enc s.center),
    ("segments", enc s.segments), ("length", enc s.length),
    ("is_self_intersecting", enc s.is_self_intersecting)]

def decPL3 (j : Json) : Except String (PL3 ℚ) := do
  pure { vertices := ← field j "vertices", interpolated := ← field j "interpolated",
         min := ← optField j "min", max := ← optField j "max", center := ← optField j "center",
         segments := ← optField j "segments", length := ← optField j "length" }

def encPL3 (s : PL3 ℚ) : Json :=
  Json.mkObj [("vertices", enc s.vertices), ("interpolated", enc s.interpolated),
    ("min", enc s.min), ("max", enc s.max), ("center", enc s.center),
    ("segments", enc s.segments), ("length", enc s.length)]

/-- A step of a wire history: a machine op, or an observation that leaves the state alone. -/
inductive WOp2 where
  | op (o : Op2 ℚ)
  | to3d (pl : PlaneS ℚ)

def decOp2 (j : Json) : Except String WOp2 := do
  let name ← j.getObjValAs? String "op"
  match name with
  | "read_segments" => pure (.op .readSegments)
  | "read_length" => pure (.op .readLength)
  | "read_is_self_intersecting" => pure (.op .readSelfInt)
  | "read_min" => pure (.op .readMin)
  | "read_max" => pure (.op .readMax)
  | "read_center" => pure (.op .readCenter)
  | "duplicate" => pure (.op .duplicate)
  | "reverse" => pure (.op .reverse)
  | "move" => do let v : V2 ℚ ← field j "v"; pure (.op (.rigid (fun p => p2_move p v)))
  | "rotate" => do
      let c : ℚ ← field j "c"; let s : ℚ ← field j "s"; let o : V2 ℚ ← field j "o"
      pure (.op (.rigid (fun p => p2_rotate (csOps c s) p 0 o)))
  | "reflect" => do
      let n : V2 ℚ ← field j "n"; let o : V2 ℚ ← field j "o"
      pure (.op (.rigid (fun p => p2_reflect p n o)))
  | "scale" => pure (.op (.scale (← field j "k") (← field j "o")))
  | "scale_world" => pure (.op (.scaleWorld (← field j "k")))
  | "remove_colinear_vertices" => pure (.op (.removeColinear (← field j "tol")))
  | "to_polyline3d" => pure (.to3d (← field j "plane"))
  | _ => throw s!"unknown polyline2d op {name}"

/-- `Polyline2D(new_vertices)` asserts `len >= 3`. -/
def okB2 (s : PL2 ℚ) : Op2 ℚ → Bool
  | .removeColinear tol => (removeColinear2 s tol).vertices.length ≥ 3
  | _ => true

def runHistory2 (s0 : PL2 ℚ) (ops : List WOp2) : List Json :=
  (ops.foldl (fun (acc : PL2 ℚ × List Json) w =>
    match w with
    | .op op =>
      if okB2 acc.1 op then
        let s1 := step2 fOps acc.1 op
        (s1, encPL2 s1 :: acc.2)
      else (acc.1, errAssert :: acc.2)
    | .to3d pl => (acc.1, Json.mkObj [("obs", encPL3 (fromPolyline2d pl acc.1))] :: acc.2))
    (s0, [])).2.reverse

/-! ### Polyline3D -/

inductive WOp3 where
  | op (o : Op3 ℚ)
  | to2d

def decOp3 (j : Json) : Except String WOp3 := do
  let name ← j.getObjValAs? String "op"
  match name with
  | "read_segments" => pure (.op .readSegments)
  | "read_length" => pure (.op .readLength)
  | "read_min" => pure (.op .readMin)
  | "read_max" => pure (.op .readMax)
  | "read_center" => pure (.op .readCenter)
  | "duplicate" => pure (.op .duplicate)
  | "reverse" => pure (.op .reverse)
  | "move" => do let v : V3 ℚ ← field j "v"; pure (.op (.rigid (fun p => p3_move p v)))
  | "rotate" => do
      let c : ℚ ← field j "c"; let s : ℚ ← field j "s"; let o : V3 ℚ ← field j "o"
      let ax : V3 ℚ ← field j "axis"
      pure (.op (.rigid (fun p => p3_rotate (csOps c s) p ax 0 o)))
  | "rotate_xy" => do
      let c : ℚ ← field j "c"; let s : ℚ ← field j "s"; let o : V3 ℚ ← field j "o"
      pure (.op (.rigid (fun p => p3_rotate_xy (csOps c s) p 0 o)))
  | "reflect" => do
      let n : V3 ℚ ← field j "n"; let o : V3 ℚ ← field j "o"
      pure (.op (.rigid (fun p => p3_reflect p n o)))
  | "scale" => pure (.op (.scale (← field j "k") (← field j "o")))
  | "scale_world" => pure (.op (.scaleWorld (← field j "k")))
  | "remove_colinear_vertices" => pure (.op (.removeColinear (← field j "tol")))
  | "to_polyline2d" => pure .to2d
  | _ => throw s!"unknown polyline3d op {name}"

def okB3 (s : PL3 ℚ) : Op3 ℚ → Bool
  | .removeColinear tol => (removeColinear3 s tol).vertices.length ≥ 3
  | _ => true

def runHistory3 (s0 : PL3 ℚ) (ops : List WOp3) : List Json :=
  (ops.foldl (fun (acc : PL3 ℚ × List Json) w =>
    match w with
    | .op op =>
      if okB3 acc.1 op then
        let s1 := step3 fOps acc.1 op
        (s1, encPL3 s1 :: acc.2)
      else (acc.1, errAssert :: acc.2)
    | .to2d => (acc.1, Json.mkObj [("obs", encPL2 (toPolyline2d acc.1))] :: acc.2))
    (s0, [])).2.reverse

/-! ### Face3D -/
open Lbg.Model.FaceCache

def decFace (j : Json) : Except String (FaceC ℚ) := do
  pure { boundary := ← field j "boundary", holes := ← optField j "holes",
         vertices := ← field j "vertices", plane := ← field j "plane",
         polygon2d := ← optField j "polygon2d", mesh2d := ← optField j "mesh2d",
         mesh3d := ← optField j "mesh3d",
         boundary_polygon2d := ← optField j "boundary_polygon2d",
         hole_polygon2d := ← optField j "hole_polygon2d",
         boundary_segments := ← optField j "boundary_segments",
         hole_segments := ← optField j "hole_segments",
         perimeter := ← optField j "perimeter", area := ← optField j "area",
         centroid := ← optField j "centroid", is_convex := ← optField j "is_convex",
         is_self_intersecting := ← optField j "is_self_intersecting",
         min := ← optField j "min", max := ← optField j "max", center := ← optField j "center" }

def encFace (s : FaceC ℚ) : Json :=
  Json.mkObj [("boundary", enc s.boundary), ("holes", enc s.holes), ("vertices", enc s.vertices),
    ("plane", enc s.plane), ("polygon2d", enc s.polygon2d), ("mesh2d", enc s.mesh2d),
    ("mesh3d", enc s.mesh3d), ("boundary_polygon2d", enc s.boundary_polygon2d),
    ("hole_polygon2d", enc s.hole_polygon2d), ("boundary_segments", enc s.boundary_segments),
    ("hole_segments", enc s.hole_segments), ("perimeter", enc s.perimeter), ("area", enc s.area),
    ("centroid", enc s.centroid), ("is_convex", enc s.is_convex),
    ("is_self_intersecting", enc s.is_self_intersecting), ("min", enc s.min), ("max", enc s.max),
    ("center", enc s.center)]

/-- The point map and the plane map of move / rotate / rotate_xy / reflect. -/
def decMaps (name : String) (j : Json) :
    Except String ((V3 ℚ → V3 ℚ) × (PlaneS ℚ → PlaneS ℚ)) := do
  match name with
  | "move" => do
      let v : V3 ℚ ← field j "v"
      pure (fun p => p3_move p v, fun pl => plane_move fOps pl v)
  | "rotate" => do
      let c : ℚ ← field j "c"; let s : ℚ ← field j "s"; let o : V3 ℚ ← field j "o"
      let ax : V3 ℚ ← field j "axis"
      pure (fun p => p3_rotate (csOps c s) p ax 0 o, fun pl => plane_rotate (csOps c s) pl ax 0 o)
  | "rotate_xy" => do
      let c : ℚ ← field j "c"; let s : ℚ ← field j "s"; let o : V3 ℚ ← field j "o"
      pure (fun p => p3_rotate_xy (csOps c s) p 0 o, fun pl => plane_rotate_xy (csOps c s) pl 0 o)
  | "reflect" => do
      let n : V3 ℚ ← field j "n"; let o : V3 ℚ ← field j "o"
      pure (fun p => p3_reflect p n o, fun pl => plane_reflect fOps pl n o)
  | _ => throw s!"no maps for {name}"

def decFaceOp (j : Json) : Except String (FaceCache.Op ℚ) := do
  let name ← j.getObjValAs? String "op"
  match name with
  | "read_polygon2d" => pure .readPolygon2d
  | "read_boundary_polygon2d" => pure .readBoundaryPolygon2d
  | "read_hole_polygon2d" => pure .readHolePolygon2d
  | "read_boundary_segments" => pure .readBoundarySegments
  | "read_hole_segments" => pure .readHoleSegments
  | "read_perimeter" => pure .readPerimeter
  | "read_area" => pure .readArea
  | "read_is_convex" => pure .readIsConvex
  | "read_is_self_intersecting" => pure .readSelfInt
  | "read_triangulated_mesh2d" => pure .readMesh2d
  | "read_triangulated_mesh3d" => pure .readMesh3d
  | "read_centroid" => pure .readCentroid
  | "read_min" => pure .readMin
  | "read_max" => pure .readMax
  | "read_center" => pure .readCenter
  | "duplicate" => pure .duplicate
  | "flip" => pure .flip
  | "move" | "rotate" | "rotate_xy" => do
      let m ← decMaps name j
      pure (.rigid m.1 m.2)
  | "reflect" => do
      let m ← decMaps name j
      pure (.reflect m.1 m.2)
  | "scale" => pure (.scale (← field j "k") (← field j "o"))
  | "scale_world" => pure (.scaleWorld (← field j "k"))
  | "remove_colinear_vertices" => pure (.removeColinear (← field j "tol"))
  | _ => throw s!"unknown face3d op {name}"

/-- `_remove_colinear`'s `assert` and the constructor's `len(vertices) >= 3`. -/
def okBF (s : FaceC ℚ) : FaceCache.Op ℚ → Bool
  | .removeColinear tol =>
    match (FaceCache.removeColinear s tol).2 with
    | some t => t.vertices.length ≥ 3
    | none => false
  | _ => true

def runFaceHistory (s0 : FaceC ℚ) (ops : List (FaceCache.Op ℚ)) : List Json :=
  (ops.foldl (fun (acc : FaceC ℚ × List Json) op =>
    if okBF acc.1 op then
      let s1 := FaceCache.step stdKern fOps acc.1 op
      (s1, encFace s1 :: acc.2)
    else (acc.1, errAssert :: acc.2)) (s0, [])).2.reverse

/-! ### Polyface3D -/
open Lbg.Model.PolyfaceCache

instance : Codec (FaceC ℚ) := ⟨decFace, encFace⟩

def decPf (j : Json) : Except String (PfC ℚ) := do
  pure { vertices := ← field j "vertices", face_indices := ← field j "face_indices",
         edge_indices := ← field j "edge_indices", edge_types := ← field j "edge_types",
         is_solid := ← field j "is_solid", faces := ← optField j "faces",
         edges := ← optField j "edges", naked_edges := ← optField j "naked_edges",
         internal_edges := ← optField j "internal_edges",
         non_manifold_edges := ← optField j "non_manifold_edges",
         area := ← optField j "area", volume := ← optField j "volume",
         min := ← optField j "min", max := ← optField j "max", center := ← optField j "center" }

def encPf (s : PfC ℚ) : Json :=
  Json.mkObj [("vertices", enc s.vertices), ("face_indices", enc s.face_indices),
    ("edge_indices", enc s.edge_indices), ("edge_types", enc s.edge_types),
    ("is_solid", enc s.is_solid), ("faces", enc s.faces), ("edges", enc s.edges),
    ("naked_edges", enc s.naked_edges), ("internal_edges", enc s.internal_edges),
    ("non_manifold_edges", enc s.non_manifold_edges), ("area", enc s.area),
    ("volume", enc s.volume), ("min", enc s.min), ("max", enc s.max), ("center", enc s.center)]

def decPfOp (j : Json) : Except String (PolyfaceCache.Op ℚ) := do
  let name ← j.getObjValAs? String "op"
  let fresh : Except String (List (FaceC ℚ)) :=
    match j.getObjVal? "fresh" with
    | .ok v => dec v
    | .error _ => pure []
  match name with
  | "read_faces" => pure (.readFaces (← fresh))
  | "read_area" => pure (.readArea (← fresh))
  | "read_volume" => pure (.readVolume (← fresh))
  | "read_edges" => pure .readEdges
  | "read_naked_edges" => pure .readNakedEdges
  | "read_internal_edges" => pure .readInternalEdges
  | "read_non_manifold_edges" => pure .readNonManifoldEdges
  | "read_min" => pure .readMin
  | "read_max" => pure .readMax
  | "read_center" => pure .readCenter
  | "duplicate" => pure .duplicate
  | "move" | "rotate" | "rotate_xy" => do
      let m ← decMaps name j
      pure (.rigid m.1 m.2)
  | "reflect" => do
      let m ← decMaps name j
      pure (.reflect m.1 m.2)
  | "scale" => pure (.scale (← field j "k") (← field j "o"))
  | "scale_world" => pure (.scaleWorld (← field j "k"))
  | _ => throw s!"unknown polyface op {name}"

def runPfHistory (s0 : PfC ℚ) (ops : List (PolyfaceCache.Op ℚ)) : List Json :=
  (ops.foldl (fun (acc : PfC ℚ × List Json) op =>
    let s1 := PolyfaceCache.step fOps acc.1 op
    (s1, encPf s1 :: acc.2)) (s0, [])).2.reverse

end PolyCacheWire

open PolyCacheWire in
def dispatchPolyCache (op : String) (args : Array Json) : Option (Except String Json) :=
  match op with
  | "model.polyline2d_history" => some (do
      let s0 ← decPL2 (args.getD 0 Json.null)
      let ops ← (← opList (args.getD 1 Json.null)).mapM decOp2
      pure (Json.arr (runHistory2 s0 ops).toArray))
  | "model.polyline3d_history" => some (do
      let s0 ← decPL3 (args.getD 0 Json.null)
      let ops ← (← opList (args.getD 1 Json.null)).mapM decOp3
      pure (Json.arr (runHistory3 s0 ops).toArray))
  | "model.face3d_history" => some (do
      let s0 ← decFace (args.getD 0 Json.null)
      let ops ← (← opList (args.getD 1 Json.null)).mapM decFaceOp
      pure (Json.arr (runFaceHistory s0 ops).toArray))
  | "model.polyface_history" => some (do
      let s0 ← decPf (args.getD 0 Json.null)
      let ops ← (← opList (args.getD 1 Json.null)).mapM decPfOp
      pure (Json.arr (runPfHistory s0 ops).toArray))
  | _ => none

end Lbg.Model
