/- Driver table for Spec/EdgeCount (property C07). -/
import LbgVerif.Wire
import LbgVerif.Spec.EdgeCount

namespace Lbg.Model
open Lean Lbg.Wire Lbg.Spec.EdgeCount

/-- `spec.edgecount [faces]` with `faces : List (List (List Nat))` →
`[counts, naked, internal, nonManifold, isClosed]`, `counts = [[[a, b], n], …]` sorted. -/
def dispatchEdgeCount (op : String) (args : Array Json) : Option (Except String Json) :=
  match op with
  | "spec.edgecount" => some (do
      let fs ← (dec (args.getD 0 Json.null) : Except String (List (List (List Nat))))
      let cs := edgeCounts fs
      pure (Json.arr #[enc cs, enc (nakedOf cs), enc (internalOf cs),
        enc (nonManifoldOf cs), enc (closedOf cs)]))
  | _ => none

end Lbg.Model
