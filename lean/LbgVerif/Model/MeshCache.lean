/-
  Model.MeshCache — hand-written literal model of the memo-slot machine of `Mesh2D`
  (`ladybug_geometry/_mesh.py` `MeshBase` + `geometry2d/mesh.py`) and, reduced to the slots
  that matter for C03, of `Mesh3D`.

  State `Mesh2C α` = the defining data (`_vertices`, `_faces`) + the value-carrying memo
  slots of `__slots__` as `Option`s (with their VALUES, not only filled/empty):
    `_min _max _center _centroid _area _face_areas _face_centroids _face_area_centroids`.
  `_face_areas : Option (α ⊕ List α)`: `inl c` is the python scalar ("every face has area
  c", as seeded by `from_grid` / `from_polygon_grid`), `inr l` the tuple.
  Not modelled: `_colors/_is_color_by_face` (payload, no geometry) and the topological
  slots `_vertex_connected_faces _edge_indices _edge_types _edges _naked_edges
  _internal_edges _non_manifold_edges` — no method ever transfers them (every new mesh
  starts with `None` there).

  Each operation is written as the code does it: which slots are copied, multiplied by
  `factor ** 2`, filtered by a pattern, or left `None` by the constructor.
  Python exceptions (`assert len(pattern) == len(faces)`) are described by `Op.Ok`; the
  functions are total (zip truncation) — the theorems in Props/C03b hold without them.
-/
import LbgVerif.Basic
import LbgVerif.Lemmas.Shoelace
import LbgVerif.Gen.Isect2

namespace Lbg.Model.MeshCache
open Lbg Lbg.Lemmas

variable {α : Type} [Field α] [LinearOrder α]

/-- `Mesh2D` with its value-carrying memo slots. -/
structure Mesh2C (α : Type) where
  vertices : List (V2 α)
  faces : List (List Nat)
  min : Option (V2 α)
  max : Option (V2 α)
  center : Option (V2 α)
  centroid : Option (V2 α)
  area : Option α
  face_areas : Option (α ⊕ List α)
  face_centroids : Option (List (V2 α))
  face_area_centroids : Option (List (V2 α))

/-- The one geometric decision the cache machine delegates: `Mesh2D._quad_to_triangles`
answers `[(0,1,2),(2,3,0)]` (`true`) or `[(1,2,3),(3,0,1)]` (`false`).  The theorems are
generic in it; `stdKern` is the literal transcription used by the driver. -/
structure Kern (α : Type) where
  diag02 : V2 α → V2 α → V2 α → V2 α → Bool

/-! ### Per-face kernels -/

/-- `tuple(self._vertices[i] for i in face)`. -/
def faceVerts (vs : List (V2 α)) (f : List Nat) : List (V2 α) :=
  f.map (fun i => vs.getD i ⟨0, 0⟩)

/-- `Mesh2D._get_area`: `abs(_a / 2)` with `_a` the shoelace accumulation. -/
def getArea (pts : List (V2 α)) : α := |shoelace pts / 2|

/-- `Mesh2D._face_area`. -/
def faceArea (vs : List (V2 α)) (f : List Nat) : α := getArea (faceVerts vs f)

/-- python `sum(l)`. -/
def pySum (l : List α) : α := l.foldl (· + ·) 0

/-- `Mesh2D._face_center`: mean of the coordinates. -/
def faceCenter (pts : List (V2 α)) : V2 α :=
  ⟨pySum (pts.map (·.x)) / (pts.length : α), pySum (pts.map (·.y)) / (pts.length : α)⟩

/-- `Mesh2D._tri_centroid`. -/
def triCentroid (a b c : V2 α) : V2 α :=
  ⟨pySum [a.x, b.x, c.x] / 3, pySum [a.y, b.y, c.y] / 3⟩

/-- `Mesh2D._quad_centroid`. -/
def quadCentroid (K : Kern α) (a b c d : V2 α) : V2 α :=
  let t : (V2 α × V2 α × V2 α) × (V2 α × V2 α × V2 α) :=
    if K.diag02 a b c d then ((a, b, c), (c, d, a)) else ((b, c, d), (d, a, b))
  let c0 := triCentroid t.1.1 t.1.2.1 t.1.2.2
  let c1 := triCentroid t.2.1 t.2.2.1 t.2.2.2
  let a0 := getArea [t.1.1, t.1.2.1, t.1.2.2]
  let a1 := getArea [t.2.1, t.2.2.1, t.2.2.2]
  let tot := pySum [a0, a1]
  ⟨(c0.x * a0 + c1.x * a1) / tot, (c0.y * a0 + c1.y * a1) / tot⟩

/-- One entry of `face_area_centroids` (`len(face) == 3` → triangle, else quad). -/
def faceAreaCentroid (K : Kern α) (pts : List (V2 α)) : V2 α :=
  match pts with
  | [a, b, c] => triCentroid a b c
  | [a, b, c, d] => quadCentroid K a b c d
  | _ => ⟨0, 0⟩

/-- `Mesh2D._calculate_min_max` (with its `if … elif …` update). -/
def calcMinMax (vs : List (V2 α)) : V2 α × V2 α :=
  match vs with
  | [] => (⟨0, 0⟩, ⟨0, 0⟩)
  | v0 :: rest =>
    rest.foldl (fun (st : V2 α × V2 α) (v : V2 α) =>
      let mn := st.1
      let mx := st.2
      let x : α × α := if v.x < mn.x then (v.x, mx.x) else if v.x > mx.x then (mn.x, v.x)
        else (mn.x, mx.x)
      let y : α × α := if v.y < mn.y then (v.y, mx.y) else if v.y > mx.y then (mn.y, v.y)
        else (mn.y, mx.y)
      ((⟨x.1, y.1⟩ : V2 α), (⟨x.2, y.2⟩ : V2 α))) (v0, v0)

/-- The weighted accumulation loop of `Mesh2D.centroid`. -/
def centroidLoop (cs : List (V2 α)) (as : List α) : α × α :=
  (cs.zip as).foldl (fun (acc : α × α) (ca : V2 α × α) =>
    (acc.1 + ca.1.x * ca.2, acc.2 + ca.1.y * ca.2)) (0, 0)

/-! ### Memoising getters (value, receiver's new slot state) -/

/-- `Mesh2D.face_areas`: compute, or expand the scalar to a tuple, or return the tuple. -/
def readFaceAreas (s : Mesh2C α) : List α × Mesh2C α :=
  match s.face_areas with
  | none =>
    let l := s.faces.map (faceArea s.vertices)
    (l, { s with face_areas := some (.inr l) })
  | some (.inl c) =>
    let l := s.faces.map (fun _ => c)
    (l, { s with face_areas := some (.inr l) })
  | some (.inr l) => (l, s)

/-- `MeshBase.area`: `sum(self.face_areas)` when empty. -/
def readArea (s : Mesh2C α) : α × Mesh2C α :=
  match s.area with
  | some a => (a, s)
  | none =>
    let r := readFaceAreas s
    let a := pySum r.1
    (a, { r.2 with area := some a })

/-- `MeshBase.face_centroids`. -/
def readFaceCentroids (s : Mesh2C α) : List (V2 α) × Mesh2C α :=
  match s.face_centroids with
  | some l => (l, s)
  | none =>
    let l := s.faces.map (fun f => faceCenter (faceVerts s.vertices f))
    (l, { s with face_centroids := some l })

/-- `MeshBase.face_area_centroids`. -/
def readFaceAreaCentroids (K : Kern α) (s : Mesh2C α) : List (V2 α) × Mesh2C α :=
  match s.face_area_centroids with
  | some l => (l, s)
  | none =>
    let l := s.faces.map (fun f => faceAreaCentroid K (faceVerts s.vertices f))
    (l, { s with face_area_centroids := some l })

/-- `Mesh2D.min` (`_calculate_min_max` fills both `_min` and `_max`). -/
def readMin (s : Mesh2C α) : V2 α × Mesh2C α :=
  match s.min with
  | some m => (m, s)
  | none =>
    let mm := calcMinMax s.vertices
    (mm.1, { s with min := some mm.1, max := some mm.2 })

/-- `Mesh2D.max`. -/
def readMax (s : Mesh2C α) : V2 α × Mesh2C α :=
  match s.max with
  | some m => (m, s)
  | none =>
    let mm := calcMinMax s.vertices
    (mm.2, { s with min := some mm.1, max := some mm.2 })

/-- `Mesh2D.center`. -/
def readCenter (s : Mesh2C α) : V2 α × Mesh2C α :=
  match s.center with
  | some c => (c, s)
  | none =>
    let r1 := readMin s
    let r2 := readMax r1.2
    let c : V2 α := ⟨(r1.1.x + r2.1.x) / 2, (r1.1.y + r2.1.y) / 2⟩
    (c, { r2.2 with center := some c })

/-- `Mesh2D.centroid` (reads `face_area_centroids`, `face_areas`, `area`: all get filled).
The code divides by `self.area`: a mesh of zero area raises `ZeroDivisionError`. -/
def readCentroid (K : Kern α) (s : Mesh2C α) : V2 α × Mesh2C α :=
  match s.centroid with
  | some c => (c, s)
  | none =>
    let r1 := readFaceAreaCentroids K s
    let r2 := readFaceAreas r1.2
    let w := centroidLoop r1.1 r2.1
    let r3 := readArea r2.2
    let c : V2 α := ⟨w.1 / r3.1, w.2 / r3.1⟩
    (c, { r3.2 with centroid := some c })

/-! ### Constructors and transforms -/

/-- `Mesh2D(vertices, faces)`: every memo slot `None`. -/
def fresh (vs : List (V2 α)) (fs : List (List Nat)) : Mesh2C α :=
  { vertices := vs, faces := fs, min := none, max := none, center := none, centroid := none,
    area := none, face_areas := none, face_centroids := none, face_area_centroids := none }

/-- `_mesh_transform`: `Mesh2D(verts, self.faces)` + `_transfer_properties`
(`_face_areas`, `_area` copied). -/
def meshTransform (s : Mesh2C α) (verts : List (V2 α)) : Mesh2C α :=
  { fresh verts s.faces with face_areas := s.face_areas, area := s.area }

/-- `_mesh_scale`: `Mesh2D(verts, self.faces)` + `_transfer_properties_scale`
(`_face_areas`, scalar or tuple, and `_area` multiplied by `factor ** 2`). -/
def meshScale (s : Mesh2C α) (verts : List (V2 α)) (k : α) : Mesh2C α :=
  { fresh verts s.faces with
    face_areas := match s.face_areas with
      | none => none
      | some (.inl c) => some (.inl (c * k ^ 2))
      | some (.inr l) => some (.inr (l.map (fun a => a * k ^ 2)))
    area := match s.area with
      | none => none
      | some a => some (a * k ^ 2) }

/-- `Point2D.move`. -/
def ptMove (v : V2 α) (p : V2 α) : V2 α := ⟨p.x + v.x, p.y + v.y⟩

/-- `Point2D.rotate` with `(c, sn) = (cos angle, sin angle)`. -/
def ptRotate (c sn : α) (o : V2 α) (p : V2 α) : V2 α :=
  ⟨(c * (p.x - o.x) - sn * (p.y - o.y)) + o.x, (sn * (p.x - o.x) + c * (p.y - o.y)) + o.y⟩

/-- `Point2D.reflect`. -/
def ptReflect (n o : V2 α) (p : V2 α) : V2 α :=
  let d := 2 * ((p.x - o.x) * n.x + (p.y - o.y) * n.y)
  ⟨((p.x - o.x) - d * n.x) + o.x, ((p.y - o.y) - d * n.y) + o.y⟩

/-- `Point2D.scale(factor, origin)`. -/
def ptScale (k : α) (o : V2 α) (p : V2 α) : V2 α :=
  ⟨k * (p.x - o.x) + o.x, k * (p.y - o.y) + o.y⟩

/-- `Point2D(pt.x * factor, pt.y * factor)` (`origin=None`). -/
def ptScaleWorld (k : α) (p : V2 α) : V2 α := ⟨p.x * k, p.y * k⟩

def move (s : Mesh2C α) (v : V2 α) : Mesh2C α := meshTransform s (s.vertices.map (ptMove v))
def rotate (s : Mesh2C α) (c sn : α) (o : V2 α) : Mesh2C α :=
  meshTransform s (s.vertices.map (ptRotate c sn o))
def reflect (s : Mesh2C α) (n o : V2 α) : Mesh2C α :=
  meshTransform s (s.vertices.map (ptReflect n o))
def scale (s : Mesh2C α) (k : α) (o : V2 α) : Mesh2C α :=
  meshScale s (s.vertices.map (ptScale k o)) k
def scaleWorld (s : Mesh2C α) (k : α) : Mesh2C α :=
  meshScale s (s.vertices.map (ptScaleWorld k)) k

/-- `Mesh2D.__copy__`: `_transfer_properties` + `_face_centroids` + `_centroid`. -/
def duplicate (s : Mesh2C α) : Mesh2C α :=
  { meshTransform s s.vertices with face_centroids := s.face_centroids, centroid := s.centroid }

/-- `x[i] for i, p in enumerate(pattern) if p` on a list aligned with the pattern. -/
def zipFilter {β : Type} (l : List β) (pat : List Bool) : List β :=
  ((l.zip pat).filter (·.2)).map (·.1)

/-- `_transfer_face_centroids_areas`: centroids filtered, scalar area kept, tuple filtered. -/
def transferFaceData (s : Mesh2C α) (facePat : List Bool) (t : Mesh2C α) : Mesh2C α :=
  { t with
    face_centroids := match s.face_centroids with
      | none => none
      | some l => some (zipFilter l facePat)
    face_areas := match s.face_areas with
      | none => none
      | some (.inl c) => some (.inl c)
      | some (.inr l) => some (.inr (zipFilter l facePat)) }

/-- `Mesh2D.remove_faces_only(pattern)`. -/
def removeFacesOnly (s : Mesh2C α) (pat : List Bool) : Mesh2C α :=
  transferFaceData s pat (fresh s.vertices (zipFilter s.faces pat))

/-- `_vdict[i]`: the new index of a surviving vertex = number of survivors before it. -/
def newIdx (vpat : List Bool) (i : Nat) : Nat := (vpat.take i).count true

/-- "no `KeyError`": every vertex of the face survives. -/
def faceKept (vpat : List Bool) (f : List Nat) : Bool := f.all (fun i => vpat.getD i false)

/-- `Mesh2D.remove_vertices(pattern)` (the returned mesh): surviving vertices, the faces all
of whose vertices survive re-indexed, face data filtered by the derived face pattern. -/
def removeVertices (s : Mesh2C α) (vpat : List Bool) : Mesh2C α :=
  transferFaceData s (s.faces.map (faceKept vpat))
    (fresh (zipFilter s.vertices vpat)
      ((s.faces.filter (faceKept vpat)).map (fun f => f.map (newIdx vpat))))

/-- One face of `Mesh2D.triangulated`. -/
def triangulateFace (K : Kern α) (vs : List (V2 α)) (f : List Nat) : List (List Nat) :=
  match f with
  | [i, j, k, l] =>
    if K.diag02 (vs.getD i ⟨0, 0⟩) (vs.getD j ⟨0, 0⟩) (vs.getD k ⟨0, 0⟩) (vs.getD l ⟨0, 0⟩)
    then [[i, j, k], [k, l, i]] else [[j, k, l], [l, i, j]]
  | f => [f]

/-- `Mesh2D.triangulated()`: a brand-new `Mesh2D` (no slot transferred). -/
def triangulated (K : Kern α) (s : Mesh2C α) : Mesh2C α :=
  fresh s.vertices (s.faces.flatMap (triangulateFace K s.vertices))

/-- `msh.face_areas` as evaluated inside `join_meshes` when `_face_areas is not None`. -/
def expandAreas (n : Nat) (fa : α ⊕ List α) : List α :=
  match fa with
  | .inl c => List.replicate n c
  | .inr l => l

/-- `Mesh2D.join_meshes([self, other])`. -/
def joinWith (s o : Mesh2C α) : Mesh2C α :=
  { fresh (s.vertices ++ o.vertices)
      (s.faces ++ o.faces.map (fun f => f.map (fun i => i + s.vertices.length))) with
    face_centroids := match s.face_centroids, o.face_centroids with
      | some l1, some l2 => some (l1 ++ l2)
      | _, _ => none
    face_areas := match s.face_areas, o.face_areas with
      | some a1, some a2 =>
        some (.inr (expandAreas s.faces.length a1 ++ expandAreas o.faces.length a2))
      | _, _ => none }

/-! ### What a freshly constructed mesh with the same vertices / faces computes -/

def trueFaceAreas (vs : List (V2 α)) (fs : List (List Nat)) : List α := fs.map (faceArea vs)
def trueArea (vs : List (V2 α)) (fs : List (List Nat)) : α := pySum (trueFaceAreas vs fs)
def trueFaceCentroids (vs : List (V2 α)) (fs : List (List Nat)) : List (V2 α) :=
  fs.map (fun f => faceCenter (faceVerts vs f))
def trueFaceAreaCentroids (K : Kern α) (vs : List (V2 α)) (fs : List (List Nat)) :
    List (V2 α) := fs.map (fun f => faceAreaCentroid K (faceVerts vs f))
def trueCenter (vs : List (V2 α)) : V2 α :=
  ⟨((calcMinMax vs).1.x + (calcMinMax vs).2.x) / 2, ((calcMinMax vs).1.y + (calcMinMax vs).2.y) / 2⟩
def trueCentroid (K : Kern α) (vs : List (V2 α)) (fs : List (List Nat)) : V2 α :=
  ⟨(centroidLoop (trueFaceAreaCentroids K vs fs) (trueFaceAreas vs fs)).1 / trueArea vs fs,
   (centroidLoop (trueFaceAreaCentroids K vs fs) (trueFaceAreas vs fs)).2 / trueArea vs fs⟩

/-! ### Operation alphabet -/

inductive Op (α : Type) where
  | readArea | readFaceAreas | readFaceCentroids | readFaceAreaCentroids
  | readMin | readMax | readCenter | readCentroid
  | duplicate | triangulated
  | move (v : V2 α)
  | rotate (c sn : α) (o : V2 α)
  | reflect (n o : V2 α)
  | scale (k : α) (o : V2 α)
  | scaleWorld (k : α)
  | removeFacesOnly (pat : List Bool)
  | removeVertices (vpat : List Bool)
  | joinWith (other : Mesh2C α)

/-- One step of the machine (reads: the receiver's new slot state). -/
def step (K : Kern α) (s : Mesh2C α) : Op α → Mesh2C α
  | .readArea => (readArea s).2
  | .readFaceAreas => (readFaceAreas s).2
  | .readFaceCentroids => (readFaceCentroids s).2
  | .readFaceAreaCentroids => (readFaceAreaCentroids K s).2
  | .readMin => (readMin s).2
  | .readMax => (readMax s).2
  | .readCenter => (readCenter s).2
  | .readCentroid => (readCentroid K s).2
  | .duplicate => duplicate s
  | .triangulated => triangulated K s
  | .move v => move s v
  | .rotate c sn o => rotate s c sn o
  | .reflect n o => reflect s n o
  | .scale k o => scale s k o
  | .scaleWorld k => scaleWorld s k
  | .removeFacesOnly pat => removeFacesOnly s pat
  | .removeVertices vpat => removeVertices s vpat
  | .joinWith o => joinWith s o

/-- The asserts of the python methods (pattern length; the constructor's "Mesh must have at
least one face"); otherwise `AssertionError` and no new object. -/
def Op.Ok (s : Mesh2C α) : Op α → Prop
  | .removeFacesOnly pat => pat.length = s.faces.length ∧ zipFilter s.faces pat ≠ []
  | .removeVertices vpat =>
    vpat.length = s.vertices.length ∧ s.faces.filter (faceKept vpat) ≠ []
  | _ => True

/-! ### The literal `_quad_to_triangles` (driver instance of `Kern`) -/

/-- `(pt2.x - pt1.x) * (pt3.y - pt2.y) - (pt2.y - pt1.y) * (pt3.x - pt2.x) > 0`. -/
def turnPos (p1 p2 p3 : V2 α) : Bool :=
  decide ((p2.x - p1.x) * (p3.y - p2.y) - (p2.y - p1.y) * (p3.x - p2.x) > 0)

/-- `Polygon2D.is_point_inside(point, test_vector)`: parity of the ray/segment hits. -/
def isPointInside (vs : List (V2 α)) (pt tv : V2 α) : Bool :=
  ((cyclicPairs vs).countP (fun ab =>
    Lbg.Gen.does_intersection_exist_line2d_sr
      (⟨ab.1, ⟨ab.2.x - ab.1.x, ab.2.y - ab.1.y⟩⟩ : LR2 α) (⟨pt, tv⟩ : LR2 α))) % 2 ≠ 0

/-- `Mesh2D._quad_to_triangles` + `_concave_quad_to_triangles`; `tv` is the test vector
`Vector2D(1, 0.00001)`, `half` the double `0.5`. -/
def stdKern (tv : V2 α) : Kern α where
  diag02 v0 v1 v2 v3 :=
    let sv := turnPos v1 v2 v3
    let convex := (turnPos v2 v3 v0 == sv) && (turnPos v3 v0 v1 == sv) && (turnPos v0 v1 v2 == sv)
    if convex then true
    else
      let mid : V2 α := ⟨v0.x + (v2.x - v0.x) * (1 / 2), v0.y + (v2.y - v0.y) * (1 / 2)⟩
      isPointInside [v0, v1, v2, v3] mid tv

end Lbg.Model.MeshCache
