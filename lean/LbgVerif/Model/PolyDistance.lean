/-
  Model/PolyDistance — LITERAL hand models of the composite distance routines of
  `geometry2d/polygon.py` on top of the GENERATED kernels (`Gen.seg2_distance_to_point`,
  `Gen.closest_point2d_on_line2d_s`, `Gen.polygon2d_area`) and of the hand model
  `Model/PointInside` (`segments`, `isPointInsideBoundRect`, `boundRect`).

      def distance_to_point(self, point):
          if self.is_point_inside_bound_rect(point):          # default test vector (1, 0.00001)
              return 0
          return min(seg.distance_to_point(point) for seg in self.segments)

      def distance_from_edge_to_point(self, point):
          return min(seg.distance_to_point(point) for seg in self.segments)

  `LineSegment2D.distance_to_point(point)` is `point.distance_to_point(closest_point2d_on_line2d
  (point, self))`, the generated kernel `seg2_distance_to_point`.

      def pole_of_inaccessibility(self, tolerance):
          min_x, min_y = self.min.x, self.min.y
          max_x, max_y = self.max.x, self.max.y
          width = max_x - min_x
          height = max_y - min_y
          cell_size = min(width, height)
          h = cell_size / 2.0
          max_dim = max(width, height)
          if cell_size == 0 or self.area < max_dim * tolerance:
              return self.center
          _polygon = tuple(pt.to_array() for pt in self.vertices)
          cell_queue = PriorityQueue()
          order = itertools.count()  # insertion order breaks ties between equal cells
          x = min_x
          while x < max_x:
              y = min_y
              while y < max_y:
                  c = _Cell(x + h, y + h, h, _polygon)
                  y += cell_size
                  cell_queue.put((-c.max, next(order), c))
              x += cell_size
          best_cell = self._get_centroid_cell(_polygon)
          bbox_cell = _Cell(min_x + width / 2, min_y + height / 2, 0, _polygon)
          if bbox_cell.d > best_cell.d:
              best_cell = bbox_cell
          num_of_probes = cell_queue.qsize()
          while not cell_queue.empty():
              _, __, cell = cell_queue.get()
              if cell.d > best_cell.d:
                  best_cell = cell
              if cell.max - best_cell.d <= tolerance:
                  continue
              h = cell.h / 2
              c = _Cell(cell.x - h, cell.y - h, h, _polygon); cell_queue.put((-c.max, next(order), c))
              c = _Cell(cell.x + h, cell.y - h, h, _polygon); cell_queue.put((-c.max, next(order), c))
              c = _Cell(cell.x - h, cell.y + h, h, _polygon); cell_queue.put((-c.max, next(order), c))
              c = _Cell(cell.x + h, cell.y + h, h, _polygon); cell_queue.put((-c.max, next(order), c))
              num_of_probes += 4
          return Point2D(best_cell.x, best_cell.y)

      class _Cell:
          def __init__(self, x, y, h, polygon):
              self.h = h; self.y = y; self.x = x
              self.d = self._point_to_polygon_distance(x, y, polygon)
              self.max = self.d + self.h * math.sqrt(2)
          def _point_to_polygon_distance(self, x, y, polygon):
              inside = False
              min_dist_sq = inf
              b = polygon[-1]
              for a in polygon:
                  if (a[1] > y) != (b[1] > y) and \
                          (x < (b[0] - a[0]) * (y - a[1]) / (b[1] - a[1]) + a[0]):
                      inside = not inside
                  min_dist_sq = min(min_dist_sq, self._get_seg_dist_sq(x, y, a, b))
                  b = a
              result = math.sqrt(min_dist_sq)
              if not inside:
                  return -result
              return result
          @staticmethod
          def _get_seg_dist_sq(px, py, a, b):
              x = a[0]; y = a[1]; dx = b[0] - x; dy = b[1] - y
              if dx != 0 or dy != 0:
                  t = ((px - x) * dx + (py - y) * dy) / (dx * dx + dy * dy)
                  if t > 1:
                      x = b[0]; y = b[1]
                  elif t > 0:
                      x += dx * t; y += dy * t
              dx = px - x; dy = py - y
              return dx * dx + dy * dy

  The priority queue holds tuples `(-c.max, counter, c)` with a strictly increasing counter, so
  the order in which `get()` returns entries is completely determined: ascending `-max`, ties by
  insertion order (the `_Cell` comparison methods are never reached).  The model represents the
  queue by the LIST OF ITS ENTRIES IN `get()` ORDER: `put` of a new entry (whose counter is
  larger than every counter in the queue) goes behind all entries with `max ≥` its `max`
  (`qInsert`); `get()` takes the head.  This is exact, also on ties.

  `for a in polygon` with `b = polygon[-1] … b = a` visits `Lbg.cyclicPairs` as `(b, a)`.
  `Face3D.pole_of_inaccessibility` is `plane.xy_to_xyz(polygon2d.pole_of_inaccessibility(tol))`.
  There is no polygon / face / polyline / polyface `closest_point` routine in the library.
-/
import LbgVerif.Basic
import LbgVerif.Gen.Isect2
import LbgVerif.Gen.Line
import LbgVerif.Gen.Vec
import LbgVerif.Gen.Poly
import LbgVerif.Model.PointInside

namespace Lbg.Model.PolyDistance
open Lbg Lbg.Gen Lbg.Model.PointInside
variable {α : Type} [Field α] [LinearOrder α]

/-! ### `distance_from_edge_to_point`, `distance_to_point` -/

/-- Python's `min(iterable)` (the first smallest element; `ValueError` on an empty iterable is
modelled as `0` — a polygon has at least one segment). -/
def minOf : List α → α
  | [] => 0
  | d :: ds => ds.foldl min d

/-- `Polygon2D.distance_from_edge_to_point(point)`. -/
def distanceFromEdgeToPoint (M : MathOps α) (vs : List (V2 α)) (point : V2 α) : α :=
  minOf ((segments vs).map (fun seg => seg2_distance_to_point M seg point))

/-- `Polygon2D.distance_to_point(point)` (the default test vector of
`is_point_inside_bound_rect` passed explicitly). -/
def distanceToPoint (M : MathOps α) (vs : List (V2 α)) (point test_vector : V2 α) : α :=
  if isPointInsideBoundRect vs point test_vector then 0
  else minOf ((segments vs).map (fun seg => seg2_distance_to_point M seg point))

/-- Squared distance between two points (what `Point2D.distance_to_point` takes the root of). -/
def sqDist (a b : V2 α) : α := (a.x - b.x) * (a.x - b.x) + (a.y - b.y) * (a.y - b.y)

/-- The square of `distance_from_edge_to_point` without `math.sqrt`: minimum over the segments
of the squared distance to the generated closest point. -/
def edgeDistSq (vs : List (V2 α)) (point : V2 α) : α :=
  minOf ((segments vs).map (fun seg => sqDist point (closest_point2d_on_line2d_s point seg)))

/-- The square of `distance_to_point`. -/
def distSq (vs : List (V2 α)) (point test_vector : V2 α) : α :=
  if isPointInsideBoundRect vs point test_vector then 0 else edgeDistSq vs point

/-! ### `_Cell` -/

/-- `_Cell._get_seg_dist_sq(px, py, a, b)`. -/
def segDistSq (px py : α) (a b : V2 α) : α :=
  let x := a.x
  let y := a.y
  let dx := b.x - x
  let dy := b.y - y
  let xy : α × α :=
    if dx ≠ 0 ∨ dy ≠ 0 then
      let t := ((px - x) * dx + (py - y) * dy) / (dx * dx + dy * dy)
      if t > 1 then (b.x, b.y)
      else if t > 0 then (x + dx * t, y + dy * t)
      else (x, y)
    else (x, y)
  let dx := px - xy.1
  let dy := py - xy.2
  dx * dx + dy * dy

/-- The crossing test of `_point_to_polygon_distance` for the pair `(b, a)`. -/
def cellCross (x y : α) (b a : V2 α) : Bool :=
  (decide (a.y > y) != decide (b.y > y)) &&
    decide (x < (b.x - a.x) * (y - a.y) / (b.y - a.y) + a.x)

/-- Loop body of `_point_to_polygon_distance`; state `(inside, min_dist_sq)` with `none` for
`inf`; the pair is `(b, a) = (previous, current)`. -/
def cellStep (x y : α) (st : Bool × Option α) (ba : V2 α × V2 α) : Bool × Option α :=
  let inside := if cellCross x y ba.1 ba.2 then !st.1 else st.1
  let s := segDistSq x y ba.2 ba.1
  let m := match st.2 with
    | none => s
    | some m0 => min m0 s
  (inside, some m)

/-- `_Cell._point_to_polygon_distance(x, y, polygon)` (`math.sqrt(inf)` of an empty polygon is
not reachable — `polygon[-1]` raises first; modelled as `sqrt 0`). -/
def pointToPolygonDistance (M : MathOps α) (x y : α) (poly : List (V2 α)) : α :=
  let st := (cyclicPairs poly).foldl (cellStep x y) (false, none)
  let result := M.sqrt (st.2.getD 0)
  if !st.1 then -result else result

/-- `_Cell` (slots `x`, `y`, `h`, `d`, `max`). -/
structure Cell (α : Type) where
  x : α
  y : α
  h : α
  d : α
  max : α
deriving Repr

/-- `_Cell(x, y, h, polygon)`. -/
def mkCell (M : MathOps α) (poly : List (V2 α)) (x y h : α) : Cell α :=
  let d := pointToPolygonDistance M x y poly
  ⟨x, y, h, d, d + h * M.sqrt 2⟩

/-- Loop body of `_get_centroid_cell`: state `(area, x, y)`, pair `(b, a)`. -/
def centroidStep (st : α × α × α) (ba : V2 α × V2 α) : α × α × α :=
  let a := ba.2
  let b := ba.1
  let f := a.x * b.y - b.x * a.y
  (st.1 + f * 3, st.2.1 + (a.x + b.x) * f, st.2.2 + (a.y + b.y) * f)

/-- `Polygon2D._get_centroid_cell(polygon)`. -/
def centroidCell (M : MathOps α) (poly : List (V2 α)) : Cell α :=
  let st := (cyclicPairs poly).foldl centroidStep (0, 0, 0)
  if st.1 = 0 then
    match poly with
    | [] => mkCell M poly 0 0 0        -- not reachable (`polygon[-1]` raises)
    | p0 :: _ => mkCell M poly p0.x p0.y 0
  else mkCell M poly (st.2.1 / st.1) (st.2.2 / st.1) 0

/-! ### The priority queue -/

/-- `cell_queue.put((-c.max, next(order), c))` on the `get()`-ordered list: behind every entry
whose `max` is `≥ c.max`. -/
def qInsert (c : Cell α) : List (Cell α) → List (Cell α)
  | [] => [c]
  | e :: rest => if e.max ≥ c.max then e :: qInsert c rest else c :: e :: rest

/-! ### The initial grid -/

/-- `y = min_y; while y < max_y: … y += cell_size` → the values of `y` visited (with fuel). -/
def gridCoords (step hi : α) : Nat → α → List α
  | 0, _ => []
  | fuel + 1, v => if v < hi then v :: gridCoords step hi fuel (v + step) else []

/-- The initial cover: cells are created (and `put`) column by column. -/
def initialQueue (M : MathOps α) (poly : List (V2 α)) (mn mx : V2 α) (cell_size h : α)
    (fuel : Nat) : List (Cell α) :=
  let xs := gridCoords cell_size mx.x fuel mn.x
  let ys := gridCoords cell_size mx.y fuel mn.y
  (xs.flatMap (fun x => ys.map (fun y => mkCell M poly (x + h) (y + h) h))).foldl
    (fun q c => qInsert c q) []

/-! ### The main loop -/

/-- Loop state: the queue in `get()` order, `best_cell`, `num_of_probes` and the number of
`get()` calls made so far. -/
structure PState (α : Type) where
  queue : List (Cell α)
  best : Cell α
  probes : Nat
  pops : Nat

/-- One iteration of `while not cell_queue.empty()`; `none` when the queue is empty. -/
def step (M : MathOps α) (poly : List (V2 α)) (tol : α) (st : PState α) : Option (PState α) :=
  match st.queue with
  | [] => none
  | cell :: rest =>
    let best := if cell.d > st.best.d then cell else st.best
    if cell.max - best.d ≤ tol then
      some ⟨rest, best, st.probes, st.pops + 1⟩
    else
      let h := cell.h / 2
      let q1 := qInsert (mkCell M poly (cell.x - h) (cell.y - h) h) rest
      let q2 := qInsert (mkCell M poly (cell.x + h) (cell.y - h) h) q1
      let q3 := qInsert (mkCell M poly (cell.x - h) (cell.y + h) h) q2
      let q4 := qInsert (mkCell M poly (cell.x + h) (cell.y + h) h) q3
      some ⟨q4, best, st.probes + 4, st.pops + 1⟩

/-- The loop with fuel: stops when the queue is empty or the fuel is used up. -/
def run (M : MathOps α) (poly : List (V2 α)) (tol : α) : Nat → PState α → PState α
  | 0, st => st
  | fuel + 1, st =>
    match step M poly tol st with
    | none => st
    | some st' => run M poly tol fuel st'

/-- Result of `pole_of_inaccessibility`: either the degenerate early return (`self.center`) or
the final loop state (`complete` iff the queue was emptied within the fuel). -/
inductive PoleResult (α : Type) where
  | degenerate (center : V2 α)
  | searched (st : PState α)

/-- The state on entry to the main loop (`none`: the degenerate early return or an empty vertex
list). -/
def poleInit (M : MathOps α) (vs : List (V2 α)) (tol : α) (fuel : Nat) :
    Option (PState α) :=
  match vs with
  | [] => none
  | v0 :: rest =>
    let mm := boundRect v0 rest
    let width := mm.2.x - mm.1.x
    let height := mm.2.y - mm.1.y
    let cell_size := min width height
    let h := cell_size / 2
    let max_dim := max width height
    if cell_size = 0 ∨ polygon2d_area vs < max_dim * tol then none
    else
      let q := initialQueue M vs mm.1 mm.2 cell_size h fuel
      let best := centroidCell M vs
      let bbox := mkCell M vs (mm.1.x + width / 2) (mm.1.y + height / 2) 0
      let best := if bbox.d > best.d then bbox else best
      some ⟨q, best, q.length, 0⟩

/-- `self.center` of the degenerate early return. -/
def bboxCenter (vs : List (V2 α)) : V2 α :=
  match vs with
  | [] => ⟨0, 0⟩
  | v0 :: rest =>
    let mm := boundRect v0 rest
    ⟨(mm.1.x + mm.2.x) / 2, (mm.1.y + mm.2.y) / 2⟩

/-- `Polygon2D.pole_of_inaccessibility(tolerance)` with fuel (used for each of the two grid
loops and for the main loop). -/
def poleOfInaccessibility (M : MathOps α) (vs : List (V2 α)) (tol : α) (fuel : Nat) :
    PoleResult α :=
  match poleInit M vs tol fuel with
  | none => .degenerate (bboxCenter vs)
  | some st0 => .searched (run M vs tol fuel st0)

/-- The returned `Point2D`. -/
def PoleResult.point : PoleResult α → V2 α
  | .degenerate c => c
  | .searched st => ⟨st.best.x, st.best.y⟩

end Lbg.Model.PolyDistance
