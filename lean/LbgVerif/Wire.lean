/-
  LbgVerif.Wire — JSON line protocol between the Python harness and the Lean driver.
  Numbers travel as strings "n/d" (the exact rational value of an IEEE double) or "n".
-/
import Lean.Data.Json
import LbgVerif.Basic
import Mathlib.Algebra.Order.Field.Rat

namespace Lbg.Wire
open Lean

def parseRat (s : String) : Except String ℚ :=
  match s.splitOn "/" with
  | [n] => match n.toInt? with
    | some k => pure (k : ℚ)
    | none => throw s!"bad number {s}"
  | [n, d] => match n.toInt?, d.toNat? with
    | some k, some m => if m = 0 then throw s!"zero denominator {s}" else pure ((k : ℚ) / (m : ℚ))
    | _, _ => throw s!"bad number {s}"
  | _ => throw s!"bad number {s}"

def showRat (q : ℚ) : String :=
  if q.den = 1 then toString q.num else s!"{q.num}/{q.den}"

class Codec (τ : Type) where
  dec : Json → Except String τ
  enc : τ → Json

export Codec (dec enc)

instance : Codec ℚ where
  dec j := match j with
    | Json.str s => parseRat s
    | Json.num n => if n.exponent = 0 then pure (n.mantissa : ℚ) else
        pure ((n.mantissa : ℚ) / ((10 : ℚ) ^ n.exponent))
    | _ => throw s!"expected number, got {j}"
  enc q := Json.str (showRat q)

instance : Codec Bool where
  dec j := match j with
    | Json.bool b => pure b
    | _ => throw "expected bool"
  enc b := Json.bool b

instance : Codec Unit where
  dec _ := pure ()
  enc _ := Json.bool true

instance : Codec Nat where
  dec j := match j.getNat? with
    | .ok n => pure n
    | .error e => throw e
  enc n := Json.num n

instance : Codec Int where
  dec j := match j.getInt? with
    | .ok n => pure n
    | .error e => throw e
  enc n := Json.num (JsonNumber.fromInt n)

instance {τ : Type} [Codec τ] : Codec (Option τ) where
  dec j := match j with
    | Json.null => pure none
    | _ => do let v ← dec j; pure (some v)
  enc o := match o with
    | none => Json.null
    | some v => enc v

instance {τ : Type} [Codec τ] : Codec (List τ) where
  dec j := match j with
    | Json.arr a => a.toList.mapM dec
    | _ => throw "expected array"
  enc l := Json.arr (l.map enc).toArray

instance {σ τ : Type} [Codec σ] [Codec τ] : Codec (σ × τ) where
  dec j := match j with
    | Json.arr a =>
      if a.size = 2 then do
        let x ← dec a[0]!
        let y ← dec a[1]!
        pure (x, y)
      else throw "expected pair"
    | _ => throw "expected pair"
  enc p := Json.arr #[enc p.1, enc p.2]

instance {σ τ : Type} [Codec σ] [Codec τ] : Codec (Sum σ τ) where
  dec j := match j.getObjVal? "inl" with
    | .ok v => do let x ← dec v; pure (Sum.inl x)
    | .error _ => match j.getObjVal? "inr" with
      | .ok v => do let x ← dec v; pure (Sum.inr x)
      | .error e => throw e
  enc s := match s with
    | Sum.inl x => Json.mkObj [("inl", enc x)]
    | Sum.inr x => Json.mkObj [("inr", enc x)]

def arrN (j : Json) (n : Nat) : Except String (Array Json) :=
  match j with
  | Json.arr a => if a.size = n then pure a else throw s!"expected {n} items, got {a.size}"
  | _ => throw s!"expected array of {n}"

instance : Codec (V2 ℚ) where
  dec j := do let a ← arrN j 2; pure ⟨← dec a[0]!, ← dec a[1]!⟩
  enc v := Json.arr #[enc v.x, enc v.y]

instance : Codec (V3 ℚ) where
  dec j := do let a ← arrN j 3; pure ⟨← dec a[0]!, ← dec a[1]!, ← dec a[2]!⟩
  enc v := Json.arr #[enc v.x, enc v.y, enc v.z]

instance : Codec (LR2 ℚ) where
  dec j := do let a ← arrN j 2; pure ⟨← dec a[0]!, ← dec a[1]!⟩
  enc v := Json.arr #[enc v.p, enc v.v]

instance : Codec (LR3 ℚ) where
  dec j := do let a ← arrN j 2; pure ⟨← dec a[0]!, ← dec a[1]!⟩
  enc v := Json.arr #[enc v.p, enc v.v]

instance : Codec (PlaneS ℚ) where
  dec j := do
    let a ← arrN j 5
    pure ⟨← dec a[0]!, ← dec a[1]!, ← dec a[2]!, ← dec a[3]!, ← dec a[4]!⟩
  enc v := Json.arr #[enc v.n, enc v.o, enc v.k, enc v.x, enc v.y]

instance : Codec (Arc2S ℚ) where
  dec j := do
    let a ← arrN j 8
    pure ⟨← dec a[0]!, ← dec a[1]!, ← dec a[2]!, ← dec a[3]!, ← dec a[4]!, ← dec a[5]!,
      ← dec a[6]!, ← dec a[7]!⟩
  enc v := Json.arr #[enc v.c, enc v.r, enc v.a1, enc v.a2, enc v.cos_a1, enc v.sin_a1,
    enc v.cos_a2, enc v.sin_a2]

instance : Codec (Arc3S ℚ) where
  dec j := do let a ← arrN j 2; pure ⟨← dec a[0]!, ← dec a[1]!⟩
  enc v := Json.arr #[enc v.plane, enc v.arc2d]

instance : Codec (SphereS ℚ) where
  dec j := do let a ← arrN j 2; pure ⟨← dec a[0]!, ← dec a[1]!⟩
  enc v := Json.arr #[enc v.center, enc v.radius]

instance : Codec (ConeS ℚ) where
  dec j := do let a ← arrN j 3; pure ⟨← dec a[0]!, ← dec a[1]!, ← dec a[2]!⟩
  enc v := Json.arr #[enc v.vertex, enc v.axis, enc v.angle]

instance : Codec (CylS ℚ) where
  dec j := do let a ← arrN j 3; pure ⟨← dec a[0]!, ← dec a[1]!, ← dec a[2]!⟩
  enc v := Json.arr #[enc v.center, enc v.axis, enc v.radius]

instance : Codec (Poly2C ℚ) where
  dec j := do
    let a ← arrN j 12
    pure ⟨← dec a[0]!, ← dec a[1]!, ← dec a[2]!, ← dec a[3]!, ← dec a[4]!, ← dec a[5]!,
      ← dec a[6]!, ← dec a[7]!, ← dec a[8]!, ← dec a[9]!, ← dec a[10]!, ← dec a[11]!⟩
  enc v := Json.arr #[enc v.vertices, enc v.min, enc v.max, enc v.center, enc v.segments,
    enc v.inside_angles, enc v.outside_angles, enc v.perimeter, enc v.area,
    enc v.is_clockwise, enc v.is_convex, enc v.is_self_intersecting]

/-! ### IEEE doubles ↔ ℚ, and the `math` module at ℚ through doubles

The driver evaluates `math.sqrt/sin/cos/…` with Lean `Float` (the same C library the
Python interpreter uses on this machine) and converts the result back exactly. -/

def floatToRat (f : Float) : ℚ :=
  if f.isNaN || f.isInf then 0 else
  let (m, e) := f.frExp           -- f = m * 2^e, 0.5 ≤ |m| < 1
  let mi : Int := (m.scaleB 53).toInt64.toInt
  let ex : Int := e - 53
  if ex ≥ 0 then (mi : ℚ) * ((2 : ℚ) ^ ex.toNat) else (mi : ℚ) / ((2 : ℚ) ^ (-ex).toNat)

def intToFloat (i : Int) : Float :=
  if i ≥ 0 then Float.ofNat i.toNat else -(Float.ofNat (-i).toNat)

/-- Nearest double of a rational whose numerator or denominator is too large to be a double
itself (more than ~300 digits: `Float.ofNat` would give `inf` and the quotient `NaN`): the
quotient is formed in integers with 66 significant bits plus a sticky bit, then scaled. -/
def ratToFloatScaled (q : ℚ) : Float :=
  let n := q.num.natAbs
  let d := q.den
  if n = 0 then 0.0 else
  let shift : Int := (d.log2 : Int) - (n.log2 : Int) + 66
  let num := if shift ≥ 0 then n <<< shift.toNat else n
  let den := if shift ≥ 0 then d else d <<< (-shift).toNat
  let quo := num / den
  let m := if num % den = 0 then quo else quo ||| 1
  let f := (Float.ofNat m).scaleB (-shift)
  if q.num < 0 then -f else f

def ratToFloat (q : ℚ) : Float :=
  if q.num.natAbs.log2 < 1000 && q.den.log2 < 1000 then intToFloat q.num / Float.ofNat q.den
  else ratToFloatScaled q

def floatOps : MathOps ℚ where
  sqrt x := floatToRat (Float.sqrt (ratToFloat x))
  sin x := floatToRat (Float.sin (ratToFloat x))
  cos x := floatToRat (Float.cos (ratToFloat x))
  tan x := floatToRat (Float.tan (ratToFloat x))
  acos x := floatToRat (Float.acos (ratToFloat x))
  asin x := floatToRat (Float.asin (ratToFloat x))
  atan2 y x := floatToRat (Float.atan2 (ratToFloat y) (ratToFloat x))
  pi := floatToRat (Float.acos (-1.0))
  floor x := (Rat.floor x : ℚ)

end Lbg.Wire
