/-
  Props.C05b — theorems about the ear-clipping LOOP of `triangulation.py` as modelled in
  `Model/Earcut.lean` (literal model of `earcut(data, hole_indices, dim=2)`, non-hashed
  path; tied to the real code, index for index, by `tools/harness/corr/earcut.py`).

  For EVERY input (any number of vertices, valid or not), every fuel, cursor state and pass:

  (a) provenance     every emitted index is an index of the input;
  (b) orientation    every triangle emitted by the ear-slicing loop passed `_is_ear` on the
                     ring it was cut from, hence has positive doubled signed area
                     `det(b − a, c − a)` — the orientation `_linked_list` gives the outer ring;
                     triangles emitted by `_cure_local_intersections` do NOT pass that test
                     (only `_intersects` + `_locally_inside`), the statement says so;
  (c) conservation   Σ area(emitted triangles) + Σ area(what the run dropped) = area of the
                     ring (`tiling_area`): dropped are, exactly, the triangle `(p, p.next, b)` of
                     every cure, the rings the run gives up on, and the (negative) hole rings
                     that were bridged in; `_filter_points` and `_split_polygon` cost nothing.
                     When no cure happened and every abandoned ring has fewer than three
                     nodes, the triangle areas add up to the area exactly (`tiling_exact`);
  (d) count          #triangles = (nodes of the ring) − 2 − #filtered − #cures − Σ(leftover − 2)
                     (`triangle_count`), i.e. `n − 2` when nothing is filtered, cured or left
                     over (`triangle_count_clean`).

  (e) fuel           the model's fuel arguments are irrelevant above an explicit bound that
                     the fuel `earcut` passes exceeds (`earcut_fuel_irrelevant`).

  The same (a)–(d) with holes (`run_*`): a bridged hole ring enters the conservation laws
  with its own (negative) area / node count, so a clean run emits exactly
  `|shoelace(outer)| − Σ |shoelace(hole)|`.

  Not proved here (see the report): that a VALID input always gives a clean run (no cure, a
  bridge for every hole — measured by the correspondence module instead), the geometric
  "no overlaps / inside the shape" clause (stays with the per-output certificate
  `Spec/TriCert.lean` + `Props/C05.lean`), and that `_is_ear_hashed` agrees with `_is_ear`
  (compared on every run by the correspondence module, group `hashed`).
-/
import LbgVerif.Model.Earcut
import LbgVerif.Lemmas.EarcutRun
import LbgVerif.Lemmas.EarcutFuel
import LbgVerif.Lemmas.EarcutMeasures
import Mathlib.Algebra.Order.Field.Rat

namespace Lbg.Props.C05b
open Lbg Lbg.Gen Lbg.Model.Earcut Lbg.Lemmas

set_option linter.unusedSectionVars false

variable {α : Type} [Field α] [LinearOrder α]

/-! ### Predicates and measures used in the statements -/

/-- A run without cures, without fuel exhaustion, whose abandoned rings all have fewer than
three nodes (what the code leaves behind after the last ear of a ring). -/
def CleanArea (evs : List Ev) : Prop := ∀ e ∈ evs, okArea e = true

/-- A run of plain ear slicing: no cure, no fuel exhaustion, no filtered node, every
abandoned ring is the two-node remainder of a finished ring. -/
def CleanCount (evs : List Ev) : Prop := ∀ e ∈ evs, okCount e = true

instance (evs : List Ev) : Decidable (CleanArea evs) := by unfold CleanArea; infer_instance

instance (evs : List Ev) : Decidable (CleanCount evs) := by unfold CleanCount; infer_instance

/-! ### (a) Provenance -/

/-- **(a) Provenance of `_earcut_linked`.**  Whatever ring the ear-slicing loop is started on
(any fuel, cursor state, pass): every index it appends to `triangles` is the index of a
node of that ring. -/
theorem linked_provenance (v : Nat → V2 α) (f : Nat) (ring : Ring) (k pass : Nat) :
    ∀ i ∈ trianglesOf (linked v f ring k pass), ∃ n ∈ ring, n.i = i := by
  intro i hi
  obtain ⟨e, he, n, hn, rfl⟩ := mem_trianglesOf hi
  have := linked_good (v := v) (S := fun j => ∃ m ∈ ring, m.i = j) f ring k pass
    (fun m hm => ⟨m, hm, rfl⟩) e he
  exact this.2 n hn

/-- **(a) Provenance of `earcut(data)`** (no holes): every returned index is `< n`, the
number of input vertices — for every input list. -/
theorem earcut_provenance (pts : List (V2 α)) : ∀ i ∈ earcut pts, i < pts.length := by
  intro i hi
  simp only [earcut, runSimple] at hi
  obtain ⟨n, hn, rfl⟩ := linked_provenance _ _ _ _ _ i hi
  have := linkedList_ringIn (v := fun i => pts.getD i ⟨0, 0⟩) (List.range pts.length) true n hn
  simpa using this

/-! ### (b) Orientation -/

/-- **(b) Every event of the run passed its test when it was emitted**: an `ear a b c` is the
head `b` of a ring `b, c, …, a` on which `_is_ear` returned `True`; a filtered node passed
the removal test; a cure passed `not _equals(a, b) and _intersects(a, p, p.next, b)`. -/
theorem linked_justified (v : Nat → V2 α) (f : Nat) (ring : Ring) (k pass : Nat) :
    ∀ e ∈ linked v f ring k pass, Justified v e := by
  intro e he
  exact (linked_good (v := v) (S := fun _ => True) f ring k pass (fun _ _ => trivial) e he).1

/-- **(b) Uniform orientation of the ear triangles.**  Every triangle `(prev, ear, next)`
emitted by the ear-slicing loop has positive doubled signed area `det(b − a, c − a)` — the
sign `_linked_list` gives the outer ring.  (Triangles emitted by
`_cure_local_intersections` are not covered: that function does not test their
orientation.) -/
theorem ear_positive (v : Nat → V2 α) [IsStrictOrderedRing α] (f : Nat) (ring : Ring)
    (k pass : Nat) (a b c : Node) (h : Ev.ear a b c ∈ linked v f ring k pass) :
    0 < triArea v a b c := by
  obtain ⟨mid, hm⟩ := linked_justified v f ring k pass _ h
  have := isEar_area_neg v a b c mid hm
  rw [area_eq_neg_triArea] at this
  linarith

/-! ### (c) Conservation of area -/

/-- **(c) Conservation, step form.**  At every moment of `_earcut_linked` — for every fuel,
ring, cursor state and pass — the event values of the rest of the run add up to the doubled
signed area of the current ring: an ear contributes its triangle, a cure the quadrilateral
`a p q b`, `_filter_points` and `_split_polygon` nothing, an abandoned ring its own area. -/
theorem linked_area (v : Nat → V2 α) (f : Nat) (ring : Ring) (k pass : Nat) :
    evSum (evArea v) (linked v f ring k pass) = ringArea v ring :=
  linked_inv (areaInv v) f ring k pass

/-- **(c) Tiling identity.**  Σ area(emitted triangles) = area(ring) − Σ area(dropped):
what the run can lose is exactly the triangle `(p, p.next, b)` of every cure and the rings
it gives up on; splitting along a diagonal and filtering collinear/duplicate nodes lose
nothing. -/
theorem tiling_area (v : Nat → V2 α) (f : Nat) (ring : Ring) (k pass : Nat) :
    evSum (emitArea v) (linked v f ring k pass) =
      ringArea v ring - evSum (lostArea v) (linked v f ring k pass) := by
  have := linked_area v f ring k pass
  rw [evArea_split] at this
  rw [← this]; ring

/-- **(c) Exact tiling.**  When the run ends without a cure and every ring it stops on has
fewer than three nodes, the doubled signed areas of the emitted triangles add up to the
doubled signed area of the ring exactly. -/
theorem tiling_exact (v : Nat → V2 α) (f : Nat) (ring : Ring) (k pass : Nat)
    (h : CleanArea (linked v f ring k pass)) :
    evSum (emitArea v) (linked v f ring k pass) = ringArea v ring := by
  rw [tiling_area, lostArea_clean v _ h, sub_zero]

/-- **(c) `_linked_list` hands the loop a ring of the input's absolute area**: the ring
`earcut` starts on has doubled signed area `|shoelace(input)|` (the outer ring is made
counter-clockwise in a y-up frame; a duplicated closing vertex is dropped at no cost). -/
theorem linkedList_area (v : Nat → V2 α) [IsStrictOrderedRing α] (n : Nat) :
    ringArea v (linkedList v (List.range n) true) = |shoelace ((List.range n).map v)| := by
  rw [linkedList_area_gen]; simp

/-- **(c) Exact tiling of `earcut(data)`**, for every input without holes: if the run is
clean (no cure, every abandoned ring has fewer than three nodes) the doubled signed areas of
the returned triangles add up to `|shoelace(input)|`. -/
theorem earcut_tiling_exact (v : Nat → V2 α) [IsStrictOrderedRing α] (n : Nat)
    (h : CleanArea (runSimple v n)) :
    evSum (emitArea v) (runSimple v n) = |shoelace ((List.range n).map v)| := by
  unfold runSimple at h ⊢
  simp only [] at h ⊢
  rw [tiling_exact v _ _ _ _ h, linkedList_area]

/-! ### (d) Number of triangles -/

/-- **(d) Triangle count.**  For every fuel, ring, cursor state and pass:
`#triangles = (nodes of the ring) − 2 − (nodes lost)`, where every filtered node and every
cure costs one, and a ring abandoned with `m` nodes costs `m − 2`. -/
theorem triangle_count (v : Nat → V2 α) (f : Nat) (ring : Ring) (k pass : Nat) :
    evSum emitCount (linked v f ring k pass) =
      (ring.length : ℤ) - 2 - evSum lostCount (linked v f ring k pass) := by
  have := linked_inv (countInv v) f ring k pass
  change evSum evCount _ = (ring.length : ℤ) - 2 at this
  rw [evCount_split] at this
  rw [← this]; ring

/-- **(d) `n − 2` triangles** when no vertex is filtered, nothing is cured and every ring is
sliced down to its last two nodes: the flat list has `3·(n − 2)` entries. -/
theorem triangle_count_clean (v : Nat → V2 α) (f : Nat) (ring : Ring) (k pass : Nat)
    (h : CleanCount (linked v f ring k pass)) :
    ((trianglesOf (linked v f ring k pass)).length : ℤ) = 3 * ((ring.length : ℤ) - 2) := by
  rw [trianglesOf_length, triangle_count, lostCount_clean _ h, sub_zero]

/-! ### The same with holes: `earcut(data, hole_indices)` -/

/-- A run with holes that found a bridge for every hole, without cures or fuel exhaustion,
whose abandoned rings all have fewer than three nodes. -/
def CleanHoles (evs : List Ev) : Prop := ∀ e ∈ evs, okHoles e = true

instance (evs : List Ev) : Decidable (CleanHoles evs) := by unfold CleanHoles; infer_instance

/-- **(a) Provenance with holes.**  When `earcut(data, hole_indices)` runs through (hole
start indices within the data), every returned index is `< n`. -/
theorem run_provenance (v : Nat → V2 α) (n : Nat) (holes : List Nat) (evs : List Ev)
    (h : run v n holes = .ok evs) (hh : ∀ h ∈ holes, h ≤ n) :
    ∀ i ∈ trianglesOf evs, i < n := by
  intro i hi
  obtain ⟨e, he, m, hm, rfl⟩ := mem_trianglesOf hi
  exact ((run_good n holes evs h hh).1 e he).nodes m hm

/-- **(b) Orientation with holes.**  Every ear triangle of the run has positive doubled
signed area (the orientation of the outer ring; hole rings are linked in with the opposite
orientation, so the merged ring is consistently oriented). -/
theorem run_ear_positive (v : Nat → V2 α) [IsStrictOrderedRing α] (n : Nat) (holes : List Nat)
    (evs : List Ev) (h : run v n holes = .ok evs) (hh : ∀ h ∈ holes, h ≤ n)
    (a b c : Node) (he : Ev.ear a b c ∈ evs) : 0 < triArea v a b c := by
  rcases (run_good n holes evs h hh).1 _ he with hg | ⟨r, b', hb, _⟩
  · obtain ⟨mid, hm⟩ := hg.1
    have := isEar_area_neg v a b c mid hm
    rw [area_eq_neg_triArea] at this
    linarith
  · cases hb

/-- **(c) Tiling identity with holes.**  Σ area(emitted triangles) = area(outer ring) −
Σ area(dropped), where a bridged hole ring counts as dropped with its (negative) area
negated — i.e. its absolute area is taken out of the shape. -/
theorem run_tiling_area (v : Nat → V2 α) (n : Nat) (holes : List Nat) (evs : List Ev)
    (h : run v n holes = .ok evs) :
    evSum (emitArea v) evs =
      ringArea v (linkedList v (List.range (holes.headD n)) true) - evSum (lostArea v) evs := by
  have := run_inv (areaInv v) n holes evs h
  change evSum (evArea v) evs = ringArea v _ at this
  rw [evArea_split] at this
  rw [← this]; ring

/-- **(c) Exact tiling with holes.**  For every input with at least one hole and a non-empty
outer loop: if the run goes through clean (a bridge for every hole, no cure, every
abandoned ring has fewer than three nodes) the doubled signed areas of the returned
triangles add up to `|shoelace(outer)| − Σ |shoelace(hole)|`. -/
theorem run_tiling_exact (v : Nat → V2 α) [IsStrictOrderedRing α] (n : Nat) (holes : List Nat)
    (evs : List Ev) (h : run v n holes = .ok evs) (hh : ∀ h ∈ holes, h ≤ n)
    (hne : holes ≠ []) (houter : linkedList v (List.range (holes.headD n)) true ≠ [])
    (hc : CleanHoles evs) :
    evSum (emitArea v) evs =
      |shoelace ((List.range (holes.headD n)).map v)| -
        ((holeRanges holes n).map fun idx => |shoelace (idx.map v)|).sum := by
  rw [run_tiling_area v n holes evs h, lostArea_cleanHoles v evs hc,
    (run_good n holes evs h hh).2 hne houter, holeQueue_area_sum, linkedList_area_gen]
  simp

/-- **(d) Triangle count with holes.**  `#triangles = (nodes of the outer ring) − 2 −
(nodes lost)`, where a bridged hole of `m` nodes counts as `−(m + 2)` lost nodes (its `m`
nodes and the two bridge copies join the ring). -/
theorem run_triangle_count (v : Nat → V2 α) (n : Nat) (holes : List Nat) (evs : List Ev)
    (h : run v n holes = .ok evs) :
    evSum emitCount evs =
      ((linkedList v (List.range (holes.headD n)) true).length : ℤ) - 2 -
        evSum lostCount evs := by
  have := run_inv (countInv v) n holes evs h
  change evSum evCount evs = ((linkedList v _ true).length : ℤ) - 2 at this
  rw [evCount_split] at this
  rw [← this]; ring

/-! ### Fuel -/

/-- **The model's fuel is irrelevant**: with any fuel at least the one `earcut` passes
(`linkedFuel`, a cubic in the ring length) the run of `_earcut_linked` is the same — the
model computes what the unbounded Python loop computes (the same holds for the inner loops,
`Lemmas.filterFuel_enough`, `Lemmas.cureFuel_enough`). -/
theorem earcut_fuel_irrelevant (v : Nat → V2 α) (ring : Ring) (g : Nat)
    (hg : linkedFuel ring.length ≤ g) :
    linked v g ring 0 0 = linked v (linkedFuel ring.length) ring 0 0 :=
  linkedFuel_enough v ring g hg

/-! ### Non-vacuity: concrete runs at ℚ -/

/-- Vertex table of a point list. -/
def tab (l : List (V2 ℚ)) : Nat → V2 ℚ := fun i => l.getD i ⟨0, 0⟩

/-- A concave pentagon ("dart", reflex vertex `(2,1)`). -/
def dart : List (V2 ℚ) := [⟨0, 0⟩, ⟨4, 0⟩, ⟨4, 4⟩, ⟨2, 1⟩, ⟨0, 4⟩]

/-- The model's answer on the dart — the list the real `earcut` returns. -/
example : earcut dart = [3, 4, 0, 1, 2, 3, 3, 0, 1] := by decide +kernel

/-- The dart run is clean in both senses, so `tiling_exact` and `triangle_count_clean`
apply: three triangles, doubled area `20 = |shoelace|`. -/
example : CleanArea (runSimple (tab dart) 5) ∧ CleanCount (runSimple (tab dart) 5) ∧
    evSum (emitArea (tab dart)) (runSimple (tab dart) 5) = 20 ∧ shoelace dart = 20 := by
  decide +kernel

/-- Clockwise input: `_linked_list` reverses it, the triangles are still positive. -/
example : earcut (dart.reverse) = [1, 0, 4, 3, 2, 1, 1, 4, 3] := by decide +kernel

/-- A self-intersecting hexagon on which `_cure_local_intersections` fires: the emitted
triangles have doubled area `4`, the ring `1` — the cure dropped the triangle
`(p, p.next, b)` of doubled area `−3` (`tiling_area`: `4 = 1 − (−3)`).  This is when area is
lost; it needs a self-intersection (`_intersects(a, p, p.next, b)`). -/
example :
    let P : List (V2 ℚ) := [⟨2, 1⟩, ⟨2, 2⟩, ⟨1, 0⟩, ⟨3, 1⟩, ⟨0, 4⟩, ⟨4, 1⟩]
    earcut P = [4, 3, 1, 1, 0, 5, 5, 4, 1] ∧
    evSum (emitArea (tab P)) (runSimple (tab P) 6) = 4 ∧
    evSum (lostArea (tab P)) (runSimple (tab P) 6) = -3 ∧
    ringArea (tab P) (linkedList (tab P) (List.range 6) true) = 1 := by
  decide +kernel

/-- A ring pinched at `(2,2)` on which `_split_earcut` finds a diagonal: both halves are
triangulated, nothing is lost (`5 = |shoelace|`). -/
example :
    let P : List (V2 ℚ) := [⟨3, 1⟩, ⟨4, 1⟩, ⟨2, 2⟩, ⟨1, 3⟩, ⟨0, 0⟩, ⟨2, 2⟩]
    earcut P = [3, 4, 2, 2, 0, 1] ∧
    (runSimple (tab P) 6).any (fun e => match e with | Ev.split _ _ => true | _ => false) ∧
    evSum (emitArea (tab P)) (runSimple (tab P) 6) = 5 ∧ shoelace P = 5 := by
  decide +kernel

/-- A square with a square hole: the run is clean, eight triangles, doubled area
`96 = 128 − 32` (`run_tiling_exact`). -/
example :
    let P : List (V2 ℚ) := [⟨0, 0⟩, ⟨8, 0⟩, ⟨8, 8⟩, ⟨0, 8⟩, ⟨2, 2⟩, ⟨2, 6⟩, ⟨6, 6⟩, ⟨6, 2⟩]
    (run (tab P) 8 [4]).toOption.map trianglesOf =
      some [3, 0, 4, 7, 4, 0, 3, 4, 5, 7, 0, 1, 2, 3, 5, 6, 7, 1, 2, 5, 6, 6, 1, 2] ∧
    (run (tab P) 8 [4]).toOption.map (fun evs => decide (CleanHoles evs)) = some true ∧
    (run (tab P) 8 [4]).toOption.map (evSum (emitArea (tab P))) = some 96 := by
  decide +kernel

/-- **The known finding, on the model** (`known_findings.json`: "earcut drops a vertex that
becomes collinear with the hole bridge, leaving a T-junction").  Boundary
`(0,0),(10,−4),(10,6)`, hole `(4,1),(3,0),(4,0)`: the bridge runs from the hole vertex
`(3,0)` (index 4) to the boundary vertex `(0,0)` (index 0); `_filter_points` after
`_split_polygon` removes the bridge copy of index 4 because it is collinear with `(4,0)`
(index 5) and `(0,0)` — event `filt 5 4 0`.  The returned triangles are those of the real
code; triangle `(5, 0, 1)` has the edge `(4,0)–(0,0)` through vertex 4 = `(3,0)`, which is a
corner of triangle `(0, 4, 3)`: a T-junction.  The areas still tile exactly. -/
example :
    let P : List (V2 ℚ) := [⟨0, 0⟩, ⟨10, -4⟩, ⟨10, 6⟩, ⟨4, 1⟩, ⟨3, 0⟩, ⟨4, 0⟩]
    (run (tab P) 6 [3]).toOption.map trianglesOf =
      some [0, 4, 3, 5, 0, 1, 2, 0, 3, 3, 5, 1, 1, 2, 3] ∧
    (run (tab P) 6 [3]).toOption.map
      (fun evs => decide (Ev.filt ⟨5, false⟩ ⟨4, false⟩ ⟨0, false⟩ ∈ evs)) = some true ∧
    (run (tab P) 6 [3]).toOption.map (evSum (emitArea (tab P))) = some (100 - 1) ∧
    earcut_area (tab P 5) (tab P 4) (tab P 0) = 0 := by
  decide +kernel

/-- **The repaired `_get_leftmost` tie-break, on the model.**  Boundary
`(9.25,−6.25),(−7.75,−3.25),(−5.75,−1.25),(−4.75,6.75),(8.25,9.75)` with holes
`(6.75,−3.75),(4.25,−3.75),(4.25,−1.25)` and `(−4.25,0.25),(−5.25,0.25),(−5.25,−0.75)`
(`hole_indices = [5, 8]`).  The first hole has two leftmost vertices, 6 and 7, with equal
`x = 4.25`; `_linked_list` hands its ring over seen from vertex 7.  With the upstream rule
(ties by smaller `y`) the hole is entered at vertex 6 = `(4.25,−3.75)`: the run is clean, uses
every hole vertex, emits 11 triangles and their doubled areas add up to
`368.75 = 2·184.375 = 376 − 6.25 − 1` exactly (`run_tiling_exact`).  Before the repair
(`if p.x < leftmost.x` only) the hole was entered at vertex 7, the bridge crossed the hole and
the real code returned 10 overlapping triangles of total area 186.125 that never use
vertex 8. -/
example :
    let P : List (V2 ℚ) := [⟨37/4, -25/4⟩, ⟨-31/4, -13/4⟩, ⟨-23/4, -5/4⟩, ⟨-19/4, 27/4⟩,
      ⟨33/4, 39/4⟩, ⟨27/4, -15/4⟩, ⟨17/4, -15/4⟩, ⟨17/4, -5/4⟩, ⟨-17/4, 1/4⟩, ⟨-21/4, 1/4⟩,
      ⟨-21/4, -3/4⟩]
    (holeQueue (tab P) [5, 8] 11).map (fun r => r.map Node.i) = [[10, 9, 8], [6, 7, 5]] ∧
    (linkedList (tab P) [5, 6, 7] false).map Node.i = [7, 5, 6] ∧
    (tab P 6).x = (tab P 7).x ∧ (tab P 6).y < (tab P 7).y ∧
    (run (tab P) 11 [5, 8]).toOption.map trianglesOf =
      some [2, 10, 9, 6, 1, 0, 3, 2, 9, 8, 1, 6, 5, 6, 0, 4, 3, 9, 8, 6, 7, 5, 0, 4, 4, 9, 8,
        7, 5, 4, 4, 8, 7] ∧
    (run (tab P) 11 [5, 8]).toOption.map (fun evs => decide (CleanHoles evs)) = some true ∧
    (run (tab P) 11 [5, 8]).toOption.map (evSum (emitArea (tab P))) = some (1475 / 4) ∧
    |shoelace (P.take 5)| - |shoelace ((P.drop 5).take 3)| - |shoelace (P.drop 8)| = 1475 / 4 := by
  decide +kernel

end Lbg.Props.C05b
