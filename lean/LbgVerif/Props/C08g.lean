/-
  C08g — point containment: the GENERATED definitions of `Polygon2D.segments`,
  `is_point_inside`, `is_point_inside_bound_rect`, `is_point_on_edge`, `point_relationship`
  (`Gen/PolyMore.lean`, regenerated from `geometry2d/polygon.py`) are EQUAL to the literal hand
  models of `Model/PointInside.lean`.  Hence every theorem of `Props/C08` about the hand models
  (parity of a count over the cyclic vertex pairs, invariance under rotation / reversal /
  translation / linear maps, agreement with the crossing-number specification, the
  bounding-rectangle shortcut, `point_relationship = 0` iff on an edge) is a theorem about the
  regenerated code; a change of the loops in `polygon.py` changes the generated terms and
  breaks these equalities.

  Receiver invariant: a `Polygon2D` has at least 3 vertices; the ties need only `vs ≠ []`.
-/
import LbgVerif.Gen.PolyMore
import LbgVerif.Model.PointInside
import LbgVerif.Lemmas.PointInside
import LbgVerif.Lemmas.GenLoops
import LbgVerif.Lemmas.Cyclic
import LbgVerif.Props.C10g
import Mathlib.Algebra.Order.Field.Rat

namespace Lbg.Props.C08g
open Lbg Lbg.Gen Lbg.Lemmas Lbg.Lemmas.PointInside Lbg.Model.PointInside
variable {α : Type} [Field α] [LinearOrder α] [IsStrictOrderedRing α]

omit [Field α] [LinearOrder α] [IsStrictOrderedRing α] in
/-- The cyclic pairs of a non-empty list are non-empty. -/
theorem cyclicPairs_ne_nil {β : Type} (l : List β) (h : l ≠ []) : cyclicPairs l ≠ [] := by
  cases l with
  | nil => exact absurd rfl h
  | cons a t => rw [cyclicPairs_cons]; simp

omit [LinearOrder α] [IsStrictOrderedRing α] in
/-- Generated `Polygon2D.segments` (`_segments_from_vertices`: append one segment per cyclic
vertex pair, then `_segs.append(_segs.pop(0))`) equals the hand model `segments`. -/
theorem polygon2d_segments_eq_model (vs : List (V2 α)) (h : vs ≠ []) :
    polygon2d_segments vs = segments vs := by
  unfold polygon2d_segments segments
  simp only []
  have e : List.foldl (fun (st : List (LR2 α)) (pp : V2 α × V2 α) =>
      st ++ [(⟨⟨pp.1.x, pp.1.y⟩, ⟨pp.2.x - pp.1.x, pp.2.y - pp.1.y⟩⟩ : LR2 α)]) [] (cyclicPairs vs)
      = (cyclicPairs vs).map (fun q => seg2_from_end_points q.1 q.2) :=
    (foldl_snoc_eq_map (fun q : V2 α × V2 α => seg2_from_end_points q.1 q.2)
      (cyclicPairs vs) []).trans (List.nil_append _)
  rw [e]
  have hne : (cyclicPairs vs).map (fun q => seg2_from_end_points q.1 q.2) ≠ [] := by
    simpa using cyclicPairs_ne_nil vs h
  generalize (cyclicPairs vs).map (fun q => seg2_from_end_points q.1 q.2) = l at hne
  cases l with
  | nil => exact absurd rfl hne
  | cons s t => rfl

omit [LinearOrder α] [IsStrictOrderedRing α] in
/-- The static `_segments_from_vertices` raises (IndexError of `pop(0)`) exactly on the empty
list and otherwise returns the hand model's segments. -/
theorem polygon2d_segments_from_vertices_eq (vs : List (V2 α)) :
    polygon2d_segments_from_vertices vs = if vs = [] then none else some (segments vs) := by
  by_cases h : vs = []
  · subst h; rfl
  · rw [if_neg h, ← polygon2d_segments_eq_model vs h]
    unfold polygon2d_segments_from_vertices polygon2d_segments
    simp only []
    have e : List.foldl (fun (st : List (LR2 α)) (pp : V2 α × V2 α) =>
        st ++ [(⟨⟨pp.1.x, pp.1.y⟩, ⟨pp.2.x - pp.1.x, pp.2.y - pp.1.y⟩⟩ : LR2 α)]) []
          (cyclicPairs vs) ≠ [] := by
      rw [(foldl_snoc_eq_map (fun q : V2 α × V2 α =>
        (⟨⟨q.1.x, q.1.y⟩, ⟨q.2.x - q.1.x, q.2.y - q.1.y⟩⟩ : LR2 α)) (cyclicPairs vs) [])]
      simpa using cyclicPairs_ne_nil vs h
    rw [if_neg e]

/-- An integer counter and a natural counter driven by the same test agree. -/
theorem foldl_int_nat_count {β : Type} (f : β → Bool) (l : List β) :
    l.foldl (fun (n : Int) s => if f s = true then n + 1 else n) 0
      = ((l.foldl (fun (n : Nat) s => if f s then n + 1 else n) 0 : Nat) : Int) := by
  rw [foldl_count, foldl_int_count (fun s => f s = true)]
  simp

omit [IsStrictOrderedRing α] in
/-- Generated `is_point_inside` is the parity test of an integer counter over the generated
segments, the per-segment test being the generated `does_intersection_exist_line2d`
(segment first, ray second). -/
theorem polygon2d_is_point_inside_eq_segments (vs : List (V2 α)) (p d : V2 α) :
    polygon2d_is_point_inside vs p d =
      decide (¬ ((polygon2d_segments vs).foldl (fun (n : Int) s =>
        if does_intersection_exist_line2d_sr s (⟨p, d⟩ : LR2 α) = true then n + 1 else n) 0)
          % 2 = 0) := by
  unfold polygon2d_is_point_inside polygon2d_segments does_intersection_exist_line2d_sr
  simp only [decide_eq_true_eq]

omit [IsStrictOrderedRing α] in
/-- TIE: generated `Polygon2D.is_point_inside(point, test_vector)` = hand model
`Model.PointInside.isPointInside`. -/
theorem polygon2d_is_point_inside_eq_model (vs : List (V2 α)) (h : vs ≠ []) (p d : V2 α) :
    polygon2d_is_point_inside vs p d = isPointInside vs p d := by
  rw [polygon2d_is_point_inside_eq_segments, polygon2d_segments_eq_model vs h]
  unfold isPointInside
  simp only []
  rw [foldl_int_nat_count (fun s => does_intersection_exist_line2d_sr s (⟨p, d⟩ : LR2 α))]
  generalize List.foldl (fun (n : Nat) s =>
    if does_intersection_exist_line2d_sr s (⟨p, d⟩ : LR2 α) = true then n + 1 else n) 0
      (segments vs) = k
  by_cases hk : k % 2 = 0
  · have : (k : Int) % 2 = 0 := by omega
    simp [hk, this]
  · have : ¬ (k : Int) % 2 = 0 := by omega
    simp [hk, this]

/-- Consequently the generated `is_point_inside` is the parity of the number of cyclic vertex
pairs whose edge meets the ray (`Lemmas.PointInside.hits`). -/
theorem polygon2d_is_point_inside_eq_parity (vs : List (V2 α)) (h : vs ≠ []) (p d : V2 α) :
    polygon2d_is_point_inside vs p d = decide (hits vs p d % 2 = 1) := by
  rw [polygon2d_is_point_inside_eq_model vs h, isPointInside_eq]

omit [IsStrictOrderedRing α] in
/-- The default test vector of `is_point_inside` is `Vector2D(1, 0.00001)` (its exact double
value). -/
theorem polygon2d_is_point_inside_default_eq (vs : List (V2 α)) (p : V2 α) :
    polygon2d_is_point_inside_default vs p =
      polygon2d_is_point_inside vs p ⟨1, (5902958103587057 : α) / 590295810358705651712⟩ := by
  unfold polygon2d_is_point_inside_default polygon2d_is_point_inside
  rfl

omit [Field α] [LinearOrder α] [IsStrictOrderedRing α] in
/-- `if a or b or c or d: return x` is the chain of four early returns. -/
theorem ite_or4 {β : Type} (a b c d : Prop) [Decidable a] [Decidable b] [Decidable c]
    [Decidable d] (x y : β) :
    (if a ∨ b ∨ c ∨ d then x else y) =
      if a then x else if b then x else if c then x else if d then x else y := by
  by_cases a <;> by_cases b <;> by_cases c <;> by_cases d <;> simp [*]

omit [IsStrictOrderedRing α] in
/-- Generated `is_point_inside_bound_rect`: reject outside the generated bounding rectangle,
otherwise the generated `is_point_inside`. -/
theorem polygon2d_is_point_inside_bound_rect_eq (vs : List (V2 α)) (p d : V2 α) :
    polygon2d_is_point_inside_bound_rect vs p d =
      if p.x < (base2d2_min vs).x ∨ p.y < (base2d2_min vs).y ∨
         (base2d2_max vs).x < p.x ∨ (base2d2_max vs).y < p.y then false
      else polygon2d_is_point_inside vs p d := by
  rw [ite_or4]
  rfl

omit [IsStrictOrderedRing α] in
/-- TIE: generated `is_point_inside_bound_rect` = hand model `isPointInsideBoundRect`. -/
theorem polygon2d_is_point_inside_bound_rect_eq_model (v0 : V2 α) (rest : List (V2 α))
    (p d : V2 α) :
    polygon2d_is_point_inside_bound_rect (v0 :: rest) p d
      = isPointInsideBoundRect (v0 :: rest) p d := by
  rw [polygon2d_is_point_inside_bound_rect_eq,
    polygon2d_is_point_inside_eq_model _ (List.cons_ne_nil _ _),
    (C10g.base2d2_min_max_eq _).1, (C10g.base2d2_min_max_eq _).2,
    C10g.base2d2_calculate_min_max_eq]
  simp only [isPointInsideBoundRect, outsideRect, gt_iff_lt, decide_eq_true_eq]
  rfl

omit [IsStrictOrderedRing α] in
/-- Generated `is_point_on_edge` is the early-return loop over the generated segments whose test
is `distance(point, closest_point(segment)) <= tolerance` (generated kernels). -/
theorem polygon2d_is_point_on_edge_eq_segments (M : MathOps α) (vs : List (V2 α)) (p : V2 α)
    (tol : α) :
    polygon2d_is_point_on_edge M vs p tol =
      if Option.isSome ((polygon2d_segments vs).foldl (fun (st : Option Bool) s =>
        if Option.isSome st = true then st
        else if tol < p2_distance_to_point M p (closest_point2d_on_line2d_s p s) then none
        else some true) none) = true then true else false := by
  unfold polygon2d_is_point_on_edge polygon2d_segments p2_distance_to_point
    closest_point2d_on_line2d_s
  rfl

omit [IsStrictOrderedRing α] in
/-- TIE: generated `is_point_on_edge` = hand model `isPointOnEdge`
(`for _s in self.segments: … if dist <= tolerance: return True` is `List.any`). -/
theorem polygon2d_is_point_on_edge_eq_model (M : MathOps α) (vs : List (V2 α)) (h : vs ≠ [])
    (p : V2 α) (tol : α) :
    polygon2d_is_point_on_edge M vs p tol = isPointOnEdge M vs p tol := by
  rw [polygon2d_is_point_on_edge_eq_segments, polygon2d_segments_eq_model vs h]
  unfold isPointOnEdge
  have key := foldl_return_true
    (fun s : LR2 α => p2_distance_to_point M p (closest_point2d_on_line2d_s p s) ≤ tol)
    (segments vs)
  rw [← key]
  have e : (fun (st : Option Bool) (s : LR2 α) =>
        if Option.isSome st = true then st
        else if tol < p2_distance_to_point M p (closest_point2d_on_line2d_s p s) then none
        else some true) =
      (fun (st : Option Bool) (s : LR2 α) =>
        if Option.isSome st = true then st
        else if p2_distance_to_point M p (closest_point2d_on_line2d_s p s) ≤ tol then some true
        else none) := by
    funext st s
    by_cases h1 : tol < p2_distance_to_point M p (closest_point2d_on_line2d_s p s)
    · simp [h1, not_le.mpr h1]
    · simp [h1, not_lt.mp h1]
  rw [e]
  cases Option.isSome _ <;> rfl

omit [Field α] [LinearOrder α] [IsStrictOrderedRing α] in
/-- Shape of `point_relationship`: `if on_edge: return 0; if inside_bound_rect: return 1;
return -1`, with the bounding-rectangle test and the parity test inlined. -/
theorem rel_shape (b : Bool) (c1 c2 c3 c4 par : Prop) [Decidable c1] [Decidable c2] [Decidable c3]
    [Decidable c4] [Decidable par] :
    (if b = true then (0 : Int) else if c1 then -1 else if c2 then -1 else if c3 then -1
      else if c4 then -1 else if par then -1 else 1) =
    (if (if b = true then true else false) = true then (0 : Int)
      else if (if c1 then false else if c2 then false else if c3 then false
        else if c4 then false else decide (¬ par)) = true then 1 else -1) := by
  cases b <;> by_cases c1 <;> by_cases c2 <;> by_cases c3 <;> by_cases c4 <;> by_cases par <;>
    simp [*]

omit [IsStrictOrderedRing α] in
/-- TIE: generated `point_relationship(point, tolerance)` = hand model `pointRelationship` with
the default test vector `Vector2D(1, 0.00001)`. -/
theorem polygon2d_point_relationship_eq_model (M : MathOps α) (v0 : V2 α) (rest : List (V2 α))
    (p : V2 α) (tol : α) :
    polygon2d_point_relationship M (v0 :: rest) p tol =
      pointRelationship M (v0 :: rest) p tol
        ⟨1, (5902958103587057 : α) / 590295810358705651712⟩ := by
  unfold pointRelationship
  rw [← polygon2d_is_point_on_edge_eq_model M _ (List.cons_ne_nil _ _),
    ← polygon2d_is_point_inside_bound_rect_eq_model, polygon2d_is_point_on_edge_eq_segments,
    polygon2d_is_point_inside_bound_rect_eq, ite_or4]
  unfold polygon2d_point_relationship polygon2d_segments p2_distance_to_point
    closest_point2d_on_line2d_s base2d2_min base2d2_max polygon2d_is_point_inside
  exact rel_shape _ _ _ _ _ _

/-! ### Non-vacuity: the generated kernels on a concrete square (ℚ) -/

example : polygon2d_is_point_inside ([⟨0, 0⟩, ⟨2, 0⟩, ⟨2, 2⟩, ⟨0, 2⟩] : List (V2 ℚ)) ⟨1, 1⟩ ⟨1, 0⟩
    = true := by decide +kernel

example : polygon2d_is_point_inside ([⟨0, 0⟩, ⟨2, 0⟩, ⟨2, 2⟩, ⟨0, 2⟩] : List (V2 ℚ)) ⟨3, 1⟩ ⟨1, 0⟩
    = false := by decide +kernel

example : polygon2d_segments ([⟨0, 0⟩, ⟨2, 0⟩, ⟨2, 2⟩] : List (V2 ℚ))
    = [⟨⟨0, 0⟩, ⟨2, 0⟩⟩, ⟨⟨2, 0⟩, ⟨0, 2⟩⟩, ⟨⟨2, 2⟩, ⟨-2, -2⟩⟩] := by decide +kernel

end Lbg.Props.C08g
