/-
  C15g — vertex clean-up: the GENERATED definitions of `Polygon2D.remove_duplicate_vertices`,
  `Face3D.remove_duplicate_vertices`, `Polyline2D/3D.remove_colinear_vertices`,
  `Polygon2D.remove_colinear_vertices`, `Face3D.remove_colinear_vertices`
  (`Gen/PolyMore.lean`, `Gen/Polyline.lean`, `Gen/FaceMore.lean`, regenerated from the Python
  source) are EQUAL to the literal hand models of `Model/Colinear.lean` followed by the
  constructor check `len(vertices) >= 3`.
-/
import LbgVerif.Gen.PolyMore
import LbgVerif.Gen.Polyline
import LbgVerif.Gen.FaceMore
import LbgVerif.Gen.Plane
import LbgVerif.Model.Colinear
import LbgVerif.Lemmas.Colinear
import LbgVerif.Lemmas.ColinearRuns
import LbgVerif.Lemmas.ColinearGeom
import LbgVerif.Lemmas.GenLoops2
import LbgVerif.Props.C15
import Mathlib.Algebra.Order.Field.Rat

namespace Lbg.Props.C15g
open Lbg Lbg.Gen Lbg.Model.Colinear Lbg.Lemmas.Colinear Lbg.Lemmas.GenLoops2
open scoped List
variable {α : Type} [Field α] [LinearOrder α] [IsStrictOrderedRing α]

/-- The constructors `Polygon2D(vertices)`, `Polyline2D(vertices)`, `Face3D(vertices, plane)`
raise unless there are at least 3 vertices (`none` = the exception). -/
def ctor3 {V : Type} (r : List V) : Option (List V) :=
  if ((r.length : Int) < 3) then none else some r

omit [IsStrictOrderedRing α] in
/-- TIE: generated `Polygon2D.remove_duplicate_vertices(tol)` = hand model `removeDuplicate`
followed by the constructor check. -/
theorem polygon2d_remove_duplicate_vertices_eq_model (vs : List (V2 α)) (tol : α) :
    polygon2d_remove_duplicate_vertices vs tol = ctor3 (removeDuplicate tol vs) := by
  have e : removeDuplicate tol vs = dedupCyc (fun a b => v2_is_equivalent a b tol) vs :=
    verts_dupIdx_eq _ _ vs
  rw [e, ← filterMap_cyclicPairs_eq_dedupCyc (fun a b => v2_is_equivalent a b tol)
    (fun e : V2 α × V2 α => if tol < |e.2.x - e.1.x| then some e.2
      else if tol < |e.2.y - e.1.y| then some e.2 else none)]
  · rfl
  · intro a b
    unfold v2_is_equivalent
    by_cases h1 : tol < |b.x - a.x| <;> by_cases h2 : tol < |b.y - a.y| <;> simp [h1, h2]

omit [IsStrictOrderedRing α] in
/-- TIE: generated `Face3D.remove_duplicate_vertices(tol)` (face without holes: the filter on
the 3D boundary, then the `Face3D` constructor) = hand model `removeDuplicate3Idx` read as
vertices, followed by the constructor check. -/
theorem face3d_remove_duplicate_vertices_eq_model (vs : List (V3 α)) (pl : PlaneS α) (tol : α) :
    face3d_remove_duplicate_vertices vs pl tol
      = ctor3 (verts ⟨0, 0, 0⟩ vs (removeDuplicate3Idx tol vs)) := by
  have e : verts ⟨0, 0, 0⟩ vs (removeDuplicate3Idx tol vs)
      = dedupCyc (fun a b => v3_is_equivalent a b tol) vs := verts_dupIdx_eq _ _ vs
  rw [e, ← filterMap_cyclicPairs_eq_dedupCyc (fun a b => v3_is_equivalent a b tol)
    (fun e : V3 α × V3 α => if tol < |e.2.x - e.1.x| then some e.2
      else if tol < |e.2.y - e.1.y| then some e.2
      else if tol < |e.2.z - e.1.z| then some e.2 else none)]
  · rfl
  · intro a b
    unfold v3_is_equivalent
    by_cases h1 : tol < |b.x - a.x| <;> by_cases h2 : tol < |b.y - a.y| <;>
      by_cases h3 : tol < |b.z - a.z| <;> simp [h1, h2, h3]

/-! ### Open chains: `Polyline2D/3D.remove_colinear_vertices` -/

/-- TIE: generated `Polyline2D.remove_colinear_vertices(tol)` (the indexed loop over
`vertices[1:-1]` with the `skip` counter, IndexError checks included, and the `Polyline2D`
constructor) = hand model `removeColinearPolyline2IdxCode` (source form of the test, with
`math.sqrt`) read as vertices, followed by the constructor check.  No `IndexError` branch of
the generated loop is reachable. -/
theorem polyline2_remove_colinear_vertices_eq_model (M : MathOps α) (vs : List (V2 α))
    (interp : Bool) (tol : α) (h3 : 3 ≤ vs.length) :
    polyline2_remove_colinear_vertices M vs interp tol =
      ctor3 (verts ⟨0, 0⟩ vs (removeColinearPolyline2IdxCode M tol vs)) := by
  unfold polyline2_remove_colinear_vertices removeColinearPolyline2IdxCode polylineIdx
  by_cases hn : vs.length = 3
  · have hn' : ((vs.length : Int) = 3) := by omega
    rw [if_pos hn', if_pos hn]
    obtain ⟨a, b, c, rfl⟩ : ∃ a b c, vs = [a, b, c] := by
      match vs, hn with
      | [a, b, c], _ => exact ⟨a, b, c, rfl⟩
    rfl
  · have hn' : ¬ ((vs.length : Int) = 3) := by omega
    rw [if_neg hn', if_neg hn]
    simp only []
    rw [foldl_zipIdx_sim (G := polylineStep vs.length (keepAt (keep2Code M tol) ⟨0, 0⟩ vs))
      (enc := fun t => (false, verts ⟨0, 0⟩ vs t.1, (t.2 : Int)))
      (Inv := fun i t => t.2 ≤ i) (t0 := ([0], 0))]
    · simp only [Bool.false_eq_true, if_false, List.length_drop, List.length_dropLast,
        getLastD_eq_getD_pyIdx]
      unfold ctor3 polylineScanTo verts
      have e : vs.length - 1 - 1 = vs.length - 2 := by omega
      rw [e]
      simp only [List.map_append, List.map_cons, List.map_nil]
    · cases vs with
      | nil => simp at h3
      | cons a t => rfl
    · exact Nat.le_refl 0
    · intro i hi t hinv
      rw [mid_getElem ⟨0, 0⟩ vs i hi]
      simp only [List.length_drop, List.length_dropLast] at hi
      obtain ⟨out, skip⟩ := t
      simp only [] at hinv
      dsimp only []
      have r1 : ¬ ((i : Int) - (skip : Int) < -(vs.length : Int) ∨
        (vs.length : Int) ≤ (i : Int) - (skip : Int)) := by omega
      have r2 : ¬ ((i : Int) + 2 < -(vs.length : Int) ∨ (vs.length : Int) ≤ (i : Int) + 2) := by
        omega
      simp only [r1, r2, if_false, Bool.false_eq_true, toNat_ite_eq_pyIdx]
      unfold polylineStep keepAt keep2Code twiceArea2 v2_determinant p2_distance_to_point
      simp only [decide_eq_true_eq]
      split_ifs <;> first
        | (exfalso; linarith)
        | (refine ⟨?_, ?_⟩
           · simp [verts]
           · simp only []; omega)

/-- TIE: generated `Polyline3D.remove_colinear_vertices(tol)` = hand model
`removeColinearPolyline3IdxCode` (cross-product magnitude test with `math.sqrt`) read as
vertices, followed by the constructor check. -/
theorem polyline3_remove_colinear_vertices_eq_model (M : MathOps α) (vs : List (V3 α))
    (interp : Bool) (tol : α) (h3 : 3 ≤ vs.length) :
    polyline3_remove_colinear_vertices M vs interp tol =
      ctor3 (verts ⟨0, 0, 0⟩ vs (removeColinearPolyline3IdxCode M tol vs)) := by
  unfold polyline3_remove_colinear_vertices removeColinearPolyline3IdxCode polylineIdx
  by_cases hn : vs.length = 3
  · have hn' : ((vs.length : Int) = 3) := by omega
    rw [if_pos hn', if_pos hn]
    obtain ⟨a, b, c, rfl⟩ : ∃ a b c, vs = [a, b, c] := by
      match vs, hn with
      | [a, b, c], _ => exact ⟨a, b, c, rfl⟩
    rfl
  · have hn' : ¬ ((vs.length : Int) = 3) := by omega
    rw [if_neg hn', if_neg hn]
    simp only []
    rw [foldl_zipIdx_sim (G := polylineStep vs.length (keepAt (keep3Code M tol) ⟨0, 0, 0⟩ vs))
      (enc := fun t => (false, verts ⟨0, 0, 0⟩ vs t.1, (t.2 : Int)))
      (Inv := fun i t => t.2 ≤ i) (t0 := ([0], 0))]
    · simp only [Bool.false_eq_true, if_false, List.length_drop, List.length_dropLast,
        getLastD_eq_getD_pyIdx]
      unfold ctor3 polylineScanTo verts
      have e : vs.length - 1 - 1 = vs.length - 2 := by omega
      rw [e]
      simp only [List.map_append, List.map_cons, List.map_nil]
    · cases vs with
      | nil => simp at h3
      | cons a t => rfl
    · exact Nat.le_refl 0
    · intro i hi t hinv
      rw [mid_getElem ⟨0, 0, 0⟩ vs i hi]
      simp only [List.length_drop, List.length_dropLast] at hi
      obtain ⟨out, skip⟩ := t
      simp only [] at hinv
      dsimp only []
      have r1 : ¬ ((i : Int) - (skip : Int) < -(vs.length : Int) ∨
        (vs.length : Int) ≤ (i : Int) - (skip : Int)) := by omega
      have r2 : ¬ ((i : Int) + 2 < -(vs.length : Int) ∨ (vs.length : Int) ≤ (i : Int) + 2) := by
        omega
      simp only [r1, r2, if_false, Bool.false_eq_true, toNat_ite_eq_pyIdx]
      unfold polylineStep keepAt keep3Code cross3 v3_magnitude v3_cross V3.sub
        p3_distance_to_point
      simp only [decide_eq_true_eq]
      split_ifs <;> first
        | (exfalso; linarith)
        | (refine ⟨?_, ?_⟩
           · simp [verts]
           · simp only []; omega)

/-! ### Closed loops: `Polygon2D.remove_colinear_vertices`, `Face3D.remove_colinear_vertices` -/

/-- TIE: generated `Polygon2D.remove_colinear_vertices(tol)` (the `enumerate` loop with `skip`,
`first_skip`, `is_first`, its IndexError checks, the seam patch with its `assert`, and the
`Polygon2D` constructor) = hand model `removeColinearPolygonIdxCode` (`none` = the
`AssertionError`) read as vertices, followed by the constructor check.  No `IndexError` branch
of the generated code is reachable. -/
theorem polygon2d_remove_colinear_vertices_eq_model (M : MathOps α) (vs : List (V2 α)) (tol : α)
    (h2 : 2 ≤ vs.length) :
    polygon2d_remove_colinear_vertices M vs tol =
      ((removeColinearPolygonIdxCode M tol vs).map (verts ⟨0, 0⟩ vs)).bind ctor3 := by
  have hb := scan_bounds vs.length (keepAt (keep2Code M tol) ⟨0, 0⟩ vs) (by omega)
  unfold polygon2d_remove_colinear_vertices removeColinearPolygonIdxCode polygonIdx
  unfold polygonScan polygonScanTo at *
  simp only []
  rw [foldl_zipIdx_sim (G := polygonStep vs.length (keepAt (keep2Code M tol) ⟨0, 0⟩ vs))
    (enc := encSt ⟨0, 0⟩ vs) (Inv := fun i st => st.skip ≤ i) (t0 := St.init)]
  · generalize List.foldl (polygonStep vs.length (keepAt (keep2Code M tol) ⟨0, 0⟩ vs)) St.init
      (List.range vs.length) = ST at hb ⊢
    obtain ⟨out, skip, fs, isFirst⟩ := ST
    unfold encSt
    dsimp only [] at hb ⊢
    simp only [Bool.false_eq_true, if_false, toNat_ite_eq_pyIdx, getLastD_eq_getD_pyIdx]
    unfold keepAt keep2Code twiceArea2 v2_determinant p2_distance_to_point ctor3
    simp only [decide_eq_true_eq]
    have habs : |(-2 : Int) - (skip : Int)| = 2 + (skip : Int) := by
      rw [abs_of_neg (by omega)]; ring
    rw [habs]
    by_cases hs : skip = 0
    · subst hs; simp
    · by_cases hf : fs = -1
      · subst hf; simp
      · have hs' : ¬ ((skip : Int) = 0) := by omega
        simp only [hs', hf, if_false, ne_eq, hs, not_false_eq_true, and_self, if_true]
        split_ifs <;> first
          | rfl
          | (exfalso; omega)
          | (exfalso; linarith)
          | (simp [verts] at *; done)
          | (simp [verts] at *; omega)
  · rfl
  · exact Nat.le_refl 0
  · intro i hi st hinv
    have hi0 : vs[i] = vs.getD i ⟨0, 0⟩ := by simp [List.getD_eq_getElem?_getD, hi]
    rw [hi0]
    obtain ⟨out, skip, fs, isFirst⟩ := st
    unfold encSt
    dsimp only [] at hinv ⊢
    have r1 : ¬ ((i : Int) - 2 - (skip : Int) < -(vs.length : Int) ∨
      (vs.length : Int) ≤ (i : Int) - 2 - (skip : Int)) := by omega
    have r2 : ¬ ((i : Int) - 1 < -(vs.length : Int) ∨ (vs.length : Int) ≤ (i : Int) - 1) := by
      omega
    simp only [r1, r2, if_false, Bool.false_eq_true, toNat_ite_eq_pyIdx]
    unfold polygonStep keepAt keep2Code twiceArea2 v2_determinant p2_distance_to_point
    simp only [decide_eq_true_eq]
    split_ifs <;> first
      | (exfalso; linarith)
      | (refine ⟨?_, ?_⟩
         · simp [verts]
         · simp only []; omega)

/-- The tie of `Polygon2D.remove_colinear_vertices` holds for EVERY vertex list: below 2
vertices (excluded by the constructor) both sides are `none` — the generated code by an
`IndexError` / the constructor check, the hand model by the constructor check. -/
theorem polygon2d_remove_colinear_vertices_eq_model_all (M : MathOps α) (vs : List (V2 α))
    (tol : α) :
    polygon2d_remove_colinear_vertices M vs tol =
      ((removeColinearPolygonIdxCode M tol vs).map (verts ⟨0, 0⟩ vs)).bind ctor3 := by
  by_cases h2 : 2 ≤ vs.length
  · exact polygon2d_remove_colinear_vertices_eq_model M vs tol h2
  · match vs, h2 with
    | [], _ => rfl
    | [a], _ =>
      unfold polygon2d_remove_colinear_vertices removeColinearPolygonIdxCode polygonIdx polygonScan
        polygonScanTo polygonStep
      simp [List.range_succ, St.init, ctor3, pyIdx]
      split_ifs <;> simp_all [ctor3, verts]
    | _ :: _ :: _, h => exact absurd (by simp) h

/-- The tie of `Polyline2D.remove_colinear_vertices` holds for EVERY vertex list (below 3
vertices both sides are `none`). -/
theorem polyline2_remove_colinear_vertices_eq_model_all (M : MathOps α) (vs : List (V2 α))
    (interp : Bool) (tol : α) :
    polyline2_remove_colinear_vertices M vs interp tol =
      ctor3 (verts ⟨0, 0⟩ vs (removeColinearPolyline2IdxCode M tol vs)) := by
  by_cases h3 : 3 ≤ vs.length
  · exact polyline2_remove_colinear_vertices_eq_model M vs interp tol h3
  · match vs, h3 with
    | [], _ => rfl
    | [_], _ => rfl
    | [_, _], _ => rfl
    | _ :: _ :: _ :: _, h => exact absurd (by simp) h

/-- The tie of `Polyline3D.remove_colinear_vertices` holds for EVERY vertex list. -/
theorem polyline3_remove_colinear_vertices_eq_model_all (M : MathOps α) (vs : List (V3 α))
    (interp : Bool) (tol : α) :
    polyline3_remove_colinear_vertices M vs interp tol =
      ctor3 (verts ⟨0, 0, 0⟩ vs (removeColinearPolyline3IdxCode M tol vs)) := by
  by_cases h3 : 3 ≤ vs.length
  · exact polyline3_remove_colinear_vertices_eq_model M vs interp tol h3
  · match vs, h3 with
    | [], _ => rfl
    | [_], _ => rfl
    | [_, _], _ => rfl
    | _ :: _ :: _ :: _, h => exact absurd (by simp) h

omit [LinearOrder α] [IsStrictOrderedRing α] in
/-- Generated `Face3D.polygon2d` (vertices) is the generated `Plane.xyz_to_xy` mapped over the
3D vertices. -/
theorem face3d_polygon2d_eq_map (vs : List (V3 α)) (pl : PlaneS α) :
    face3d_polygon2d vs pl = vs.map (plane_xyz_to_xy pl) := rfl

/-- TIE: generated `Face3D.remove_colinear_vertices(tol)` for a face without holes
(`_remove_colinear(self._vertices, self.polygon2d, tol)`: the same index loop run on the
projected 2D points, collecting the 3D points at the kept positions; then the `Face3D`
constructor) = hand model `removeColinearPolygonIdxCode` on the generated `polygon2d`
vertices, read as 3D vertices, followed by the constructor check. -/
theorem face3d_remove_colinear_vertices_eq_model (M : MathOps α) (vs : List (V3 α))
    (pl : PlaneS α) (tol : α) (h3 : 3 ≤ vs.length) :
    face3d_remove_colinear_vertices M vs pl tol =
      ((removeColinearPolygonIdxCode M tol (face3d_polygon2d vs pl)).map
        (verts ⟨0, 0, 0⟩ vs)).bind ctor3 := by
  unfold face3d_remove_colinear_vertices face3d_polygon2d
  simp only []
  generalize hp : List.map _ vs = p2
  have hlen : p2.length = vs.length := by rw [← hp, List.length_map]
  have hb := scan_bounds p2.length (keepAt (keep2Code M tol) ⟨0, 0⟩ p2) (by omega)
  have hl3 : ¬ ((p2.length : Int) < 3) := by omega
  rw [if_neg hl3]
  unfold removeColinearPolygonIdxCode polygonIdx
  unfold polygonScan polygonScanTo at *
  simp only []
  rw [foldl_zipIdx_sim (G := polygonStep p2.length (keepAt (keep2Code M tol) ⟨0, 0⟩ p2))
    (enc := encSt ⟨0, 0, 0⟩ vs) (Inv := fun i st => st.skip ≤ i) (t0 := St.init)]
  · generalize List.foldl (polygonStep p2.length (keepAt (keep2Code M tol) ⟨0, 0⟩ p2)) St.init
      (List.range p2.length) = ST at hb ⊢
    obtain ⟨out, skip, fs, isFirst⟩ := ST
    unfold encSt
    dsimp only [] at hb ⊢
    simp only [Bool.false_eq_true, if_false, toNat_ite_eq_pyIdx, getLastD_eq_getD_pyIdx]
    unfold keepAt keep2Code twiceArea2 v2_determinant p2_distance_to_point ctor3
    simp only [decide_eq_true_eq]
    have habs : |(-2 : Int) - (skip : Int)| = 2 + (skip : Int) := by
      rw [abs_of_neg (by omega)]; ring
    rw [habs]
    by_cases hs : skip = 0
    · subst hs; simp
    · by_cases hf : fs = -1
      · subst hf; simp
      · have hs' : ¬ ((skip : Int) = 0) := by omega
        simp only [hs', hf, if_false, ne_eq, hs, not_false_eq_true, and_self, if_true]
        split_ifs <;> first
          | rfl
          | (exfalso; omega)
          | (exfalso; linarith)
          | (simp [verts, hlen] at *; done)
          | (simp [verts, hlen] at *; omega)
  · rfl
  · exact Nat.le_refl 0
  · intro i hi st hinv
    have hi0 : p2[i] = p2.getD i ⟨0, 0⟩ := by simp [List.getD_eq_getElem?_getD, hi]
    rw [hi0]
    obtain ⟨out, skip, fs, isFirst⟩ := st
    unfold encSt
    dsimp only [] at hinv ⊢
    have r1 : ¬ ((i : Int) - 2 - (skip : Int) < -(p2.length : Int) ∨
      (p2.length : Int) ≤ (i : Int) - 2 - (skip : Int)) := by omega
    have r2 : ¬ ((i : Int) - 1 < -(p2.length : Int) ∨ (p2.length : Int) ≤ (i : Int) - 1) := by
      omega
    have r3 : ¬ ((i : Int) - 1 < -(vs.length : Int) ∨ (vs.length : Int) ≤ (i : Int) - 1) := by
      omega
    simp only [r1, r2, r3, if_false, Bool.false_eq_true, toNat_ite_eq_pyIdx]
    unfold polygonStep keepAt keep2Code twiceArea2 v2_determinant p2_distance_to_point
    simp only [decide_eq_true_eq]
    split_ifs <;> first
      | (exfalso; linarith)
      | (refine ⟨?_, ?_⟩
         · simp [verts, hlen]
         · simp only []; omega)

/-! ### The theorems of `Props/C15` transported to the generated definitions -/

/-- Generated `Polygon2D.remove_colinear_vertices` in terms of the SQUARED-form hand model
(`removeColinearPolygon`, the one `Props/C15` reasons about and the driver executes at ℚ), for
every `sqrt` obeying the law of the square root and `tol ≥ 0`. -/
theorem polygon2d_remove_colinear_vertices_eq_squared (M : MathOps α)
    (hsqrt : ∀ x, 0 ≤ x → M.sqrt x * M.sqrt x = x ∧ 0 ≤ M.sqrt x)
    (vs : List (V2 α)) (tol : α) (htol : 0 ≤ tol) (h2 : 2 ≤ vs.length) :
    polygon2d_remove_colinear_vertices M vs tol = (removeColinearPolygon tol vs).bind ctor3 := by
  rw [polygon2d_remove_colinear_vertices_eq_model M vs tol h2,
    C15.polygon_code_eq_squared M hsqrt tol htol vs]
  rfl

/-- Generated `Polyline2D.remove_colinear_vertices` in terms of the squared-form hand model. -/
theorem polyline2_remove_colinear_vertices_eq_squared (M : MathOps α)
    (hsqrt : ∀ x, 0 ≤ x → M.sqrt x * M.sqrt x = x ∧ 0 ≤ M.sqrt x)
    (vs : List (V2 α)) (interp : Bool) (tol : α) (htol : 0 ≤ tol) (h3 : 3 ≤ vs.length) :
    polyline2_remove_colinear_vertices M vs interp tol = ctor3 (removeColinearPolyline2 tol vs) := by
  rw [polyline2_remove_colinear_vertices_eq_model M vs interp tol h3,
    C15.polyline2_code_eq_squared M hsqrt tol htol vs]
  rfl

/-- Generated `Polyline3D.remove_colinear_vertices` in terms of the squared-form hand model. -/
theorem polyline3_remove_colinear_vertices_eq_squared (M : MathOps α)
    (hsqrt : ∀ x, 0 ≤ x → M.sqrt x * M.sqrt x = x ∧ 0 ≤ M.sqrt x)
    (vs : List (V3 α)) (interp : Bool) (tol : α) (htol : 0 ≤ tol) (h3 : 3 ≤ vs.length) :
    polyline3_remove_colinear_vertices M vs interp tol = ctor3 (removeColinearPolyline3 tol vs) := by
  rw [polyline3_remove_colinear_vertices_eq_model M vs interp tol h3,
    C15.polyline3_code_eq_squared M hsqrt tol htol vs]
  rfl

omit [Field α] [LinearOrder α] [IsStrictOrderedRing α] in
/-- `ctor3 r = some res` means `res = r` with at least 3 vertices. -/
theorem ctor3_eq_some {V : Type} (r res : List V) (h : ctor3 r = some res) :
    res = r ∧ 3 ≤ r.length := by
  unfold ctor3 at h
  split_ifs at h with h1
  exact ⟨(Option.some.inj h).symm, by omega⟩

/-- **C15 (generated code): original vertices in original cyclic order.**  Whenever the
generated `Polygon2D.remove_colinear_vertices` returns a polygon, its vertex list is a sublist
of a cyclic rotation of the input vertex list and has at least 3 vertices
(`C15.polygon_out_sublist_cyclic` transported). -/
theorem polygon2d_remove_colinear_sublist_cyclic (M : MathOps α)
    (hsqrt : ∀ x, 0 ≤ x → M.sqrt x * M.sqrt x = x ∧ 0 ≤ M.sqrt x)
    (vs : List (V2 α)) (tol : α) (htol : 0 ≤ tol) (h2 : 2 ≤ vs.length) (res : List (V2 α))
    (h : polygon2d_remove_colinear_vertices M vs tol = some res) :
    (∃ k, res <+ vs.rotate k) ∧ 3 ≤ res.length := by
  rw [polygon2d_remove_colinear_vertices_eq_squared M hsqrt vs tol htol h2] at h
  cases hm : removeColinearPolygon tol vs with
  | none => rw [hm] at h; cases h
  | some out =>
    rw [hm] at h
    obtain ⟨e, hl⟩ := ctor3_eq_some out res h
    subst e
    exact ⟨C15.polygon_out_sublist_cyclic tol vs res hm, hl⟩

/-- **C15 (generated code): every vertex the generated polygon clean-up drops is within the
tolerance of the chord that replaces it** (`C15.removed_within_tol` transported).  If the
generated `Polygon2D.remove_colinear_vertices` returns `res`, then `res` consists of the
vertices at a list `idx` of positions, and every position `i - 1` (cyclically) missing from
`idx` was dropped by iteration `i` of the scan: with `s` the number of immediately preceding
iterations that also dropped their vertex, `vs[i-1]` satisfies the drop condition `Drop2`
(doubled triangle area below `max(chord, tol)·tol/2`, on squares) for the chord from
`vs[i-2-s]` to `vs[i]`. -/
theorem polygon2d_remove_colinear_removed_within_tol (M : MathOps α)
    (hsqrt : ∀ x, 0 ≤ x → M.sqrt x * M.sqrt x = x ∧ 0 ≤ M.sqrt x)
    (vs : List (V2 α)) (tol : α) (htol : 0 ≤ tol) (h2 : 2 ≤ vs.length) (res : List (V2 α))
    (h : polygon2d_remove_colinear_vertices M vs tol = some res) :
    ∃ idx : List Nat, res = verts ⟨0, 0⟩ vs idx ∧
      ∀ i, i < vs.length → tested vs.length i ∉ idx →
        ∃ s, s ≤ i ∧
          Drop2 tol (vs.getD (pyIdx vs.length ((i : Int) - 2 - s)) ⟨0, 0⟩)
            (vs.getD (tested vs.length i) ⟨0, 0⟩) (vs.getD i ⟨0, 0⟩) := by
  rw [polygon2d_remove_colinear_vertices_eq_squared M hsqrt vs tol htol h2] at h
  unfold removeColinearPolygon at h
  cases hm : removeColinearPolygonIdx tol vs with
  | none => rw [hm] at h; cases h
  | some idx =>
    rw [hm] at h
    obtain ⟨e, _⟩ := ctor3_eq_some _ res h
    refine ⟨idx, e, ?_⟩
    intro i hi hnot
    have hout : tested vs.length i ∉ (polygonScan vs.length (keepAt (keep2 tol) ⟨0, 0⟩ vs)).out := by
      intro hmem
      apply hnot
      rcases polygonIdx_cases _ _ idx hm with e1 | e1
      · rw [e1]; exact hmem
      · rw [e1]; exact List.mem_append_left _ hmem
    obtain ⟨s, hs, _, _, hd⟩ := C15.removed_within_tol tol vs i hi hout
    exact ⟨s, hs, hd⟩

/-- **C15 (generated code), open chain:** whenever the generated
`Polyline2D.remove_colinear_vertices` returns a polyline, its vertices are a sublist of the
input that starts with the first and ends with the last input vertex
(`C15.polyline_out_sublist` transported). -/
theorem polyline2_remove_colinear_sublist (M : MathOps α)
    (hsqrt : ∀ x, 0 ≤ x → M.sqrt x * M.sqrt x = x ∧ 0 ≤ M.sqrt x)
    (vs : List (V2 α)) (interp : Bool) (tol : α) (htol : 0 ≤ tol) (h3 : 3 ≤ vs.length)
    (res : List (V2 α)) (h : polyline2_remove_colinear_vertices M vs interp tol = some res) :
    res <+ vs ∧ res.head? = vs.head? ∧ res.getLast? = vs.getLast? := by
  rw [polyline2_remove_colinear_vertices_eq_squared M hsqrt vs interp tol htol h3] at h
  obtain ⟨e, _⟩ := ctor3_eq_some _ res h
  subst e
  exact C15.polyline_out_sublist tol vs (by omega)

/-- The same for the generated `Polyline3D.remove_colinear_vertices`. -/
theorem polyline3_remove_colinear_sublist (M : MathOps α)
    (hsqrt : ∀ x, 0 ≤ x → M.sqrt x * M.sqrt x = x ∧ 0 ≤ M.sqrt x)
    (vs : List (V3 α)) (interp : Bool) (tol : α) (htol : 0 ≤ tol) (h3 : 3 ≤ vs.length)
    (res : List (V3 α)) (h : polyline3_remove_colinear_vertices M vs interp tol = some res) :
    res <+ vs ∧ res.head? = vs.head? ∧ res.getLast? = vs.getLast? := by
  rw [polyline3_remove_colinear_vertices_eq_squared M hsqrt vs interp tol htol h3] at h
  obtain ⟨e, _⟩ := ctor3_eq_some _ res h
  subst e
  exact C15.polyline3_out_sublist tol vs (by omega)

omit [IsStrictOrderedRing α] in
/-- **C15 (generated code), duplicates:** the generated `remove_duplicate_vertices` returns a
sublist of the input (`C15.dup_model_spec` transported). -/
theorem polygon2d_remove_duplicate_sublist (vs res : List (V2 α)) (tol : α)
    (h : polygon2d_remove_duplicate_vertices vs tol = some res) : res <+ vs ∧ 3 ≤ res.length := by
  rw [polygon2d_remove_duplicate_vertices_eq_model] at h
  obtain ⟨e, hl⟩ := ctor3_eq_some _ res h
  subst e
  exact ⟨(C15.dup_model_spec tol vs).2.2, hl⟩

/-- **C15 (generated code), idempotence of `remove_duplicate_vertices`** when `is_equivalent`
is transitive on the input vertices (`C15.dup_idempotent` transported): applying the generated
routine to its own result returns the same result. -/
theorem polygon2d_remove_duplicate_idempotent (vs res : List (V2 α)) (tol : α) (htol : 0 ≤ tol)
    (htrans : ∀ a b c, a ∈ vs → b ∈ vs → c ∈ vs → v2_is_equivalent a b tol = true →
      v2_is_equivalent b c tol = true → v2_is_equivalent a c tol = true)
    (h : polygon2d_remove_duplicate_vertices vs tol = some res) :
    polygon2d_remove_duplicate_vertices res tol = some res := by
  rw [polygon2d_remove_duplicate_vertices_eq_model] at h ⊢
  obtain ⟨e, hl⟩ := ctor3_eq_some _ res h
  subst e
  rw [C15.dup_idempotent tol htol vs htrans]
  exact h

/-! ### Non-vacuity: the generated kernels on concrete ℚ inputs -/

/-- A `math` module whose `sqrt` is exact on the squares that occur below. -/
def Mq : MathOps ℚ :=
  { sqrt := fun x => if x = 4 then 2 else if x = 1 then 1 else if x = 16 then 4 else
      if x = 9 then 3 else if x = 25 then 5 else x,
    sin := id, cos := id, tan := id, acos := id, asin := id, atan2 := fun a _ => a, pi := 3,
    floor := id }

example : polygon2d_remove_duplicate_vertices
    ([⟨0, 0⟩, ⟨0, 0⟩, ⟨2, 0⟩, ⟨2, 2⟩, ⟨0, 2⟩] : List (V2 ℚ)) (1/100)
    = some [⟨0, 0⟩, ⟨2, 0⟩, ⟨2, 2⟩, ⟨0, 2⟩] := by decide +kernel

example : (polygon2d_remove_duplicate_vertices
    ([⟨0, 0⟩, ⟨0, 0⟩, ⟨2, 0⟩] : List (V2 ℚ)) (1/100)).isSome = false := by decide +kernel

example : polyline2_remove_colinear_vertices Mq
    ([⟨0, 0⟩, ⟨1, 0⟩, ⟨2, 0⟩, ⟨2, 2⟩] : List (V2 ℚ)) false (1/100)
    = some [⟨0, 0⟩, ⟨2, 0⟩, ⟨2, 2⟩] := by decide +kernel

example : polygon2d_remove_colinear_vertices Mq
    ([⟨0, 0⟩, ⟨1, 0⟩, ⟨2, 0⟩, ⟨2, 2⟩, ⟨0, 2⟩] : List (V2 ℚ)) (1/100)
    = some [⟨0, 2⟩, ⟨0, 0⟩, ⟨2, 0⟩, ⟨2, 2⟩] := by decide +kernel

end Lbg.Props.C15g
