/-
  C10g — bounding boxes: theorems about the GENERATED definitions of `bounding.py`
  (`Gen/Bound.lean`) and of `Base2DIn2D/Base2DIn3D._calculate_min_max/min/max/center`
  (`Gen/Base2D.lean`), and their ties to the hand model / proved scan of `Props/C10`
  (`minMax2`, `minMax3`, `Lemmas/MinMax.scan`).

  * `base2d?_calculate_min_max_eq`: the generated vertex scan IS `C10.minMax?` (so every theorem
    of C10 about `minMax?` is a theorem about the regenerated code);
  * `base2d2_box_spec` / `base2d3_box_spec`: generated `min`/`max` bound every vertex and each
    side of the box is touched by a vertex (tight);
  * `bounding_domain_x_seg2_spec` …: `bounding_domain_x/y` of a list of segments: `none` exactly for
    the empty list (Python: IndexError); otherwise the interval contains both end points of every
    segment and both of its ends are attained;
  * `bounding_rectangle_seg2_eq`: `bounding_rectangle` is assembled from the two domains;
  * `bounding_rectangle_angle_seg2_zero`: `axis_angle = 0` takes the unrotated path;
  * `orient_geometry_seg2_eq_map`: `_orient_geometry` is `List.map` of the generated
    `seg2_rotate` by `-axis_angle`;
  * `overlapping_bounding_rect_seg2_comm`: the overlap test is symmetric in its two geometries.
-/
import LbgVerif.Gen.Base2D
import LbgVerif.Gen.Bound
import LbgVerif.Gen.Line
import LbgVerif.Props.C10
import LbgVerif.Lemmas.GenLoops
import Mathlib.Algebra.Order.Field.Rat

namespace Lbg.Props.C10g
open Lbg Lbg.Gen Lbg.Lemmas Lbg.Props.C10
variable {α : Type} [Field α] [LinearOrder α] [IsStrictOrderedRing α]

/-! ### `Base2DIn2D` / `Base2DIn3D` -/

omit [IsStrictOrderedRing α] in
/-- The generated `Base2DIn2D._calculate_min_max` (one `foldl` over `vertices[1:]` with the
`if / elif` body on the two coordinates) equals the hand model `C10.minMax2`. -/
theorem base2d2_calculate_min_max_eq (v0 : V2 α) (rest : List (V2 α)) :
    base2d2_calculate_min_max (v0 :: rest) = minMax2 v0 rest := by
  unfold base2d2_calculate_min_max minMax2
  simp only [List.headD_cons, List.drop_one, List.tail_cons]
  have key := List.foldl_hom (l := rest)
    (f := fun (s : (α × α) × (α × α)) => (s.1.1, s.2.1, s.1.2, s.2.2))
    (g₁ := fun (st : (α × α) × (α × α)) (v : V2 α) => (scanStep st.1 v.x, scanStep st.2 v.y))
    (g₂ := fun (st : α × α × α × α) (pp : V2 α) =>
      ((if pp.x < st.1 then pp.x else st.1), (if pp.y < st.2.1 then pp.y else st.2.1),
       (if pp.x < st.1 then st.2.2.1 else if st.2.2.1 < pp.x then pp.x else st.2.2.1),
       (if pp.y < st.2.1 then st.2.2.2 else if st.2.2.2 < pp.y then pp.y else st.2.2.2)))
    (init := ((v0.x, v0.x), (v0.y, v0.y)))
    (by intro s v; unfold scanStep; split_ifs <;> rfl)
  simp only at key
  rw [key]

omit [IsStrictOrderedRing α] in
/-- The generated `Base2DIn3D._calculate_min_max` equals the hand model `C10.minMax3`. -/
theorem base2d3_calculate_min_max_eq (v0 : V3 α) (rest : List (V3 α)) :
    base2d3_calculate_min_max (v0 :: rest) = minMax3 v0 rest := by
  unfold base2d3_calculate_min_max minMax3
  simp only [List.headD_cons, List.drop_one, List.tail_cons]
  have key := List.foldl_hom (l := rest)
    (f := fun (s : (α × α) × (α × α) × (α × α)) =>
      (s.1.1, s.2.1.1, s.2.2.1, s.1.2, s.2.1.2, s.2.2.2))
    (g₁ := fun (st : (α × α) × (α × α) × (α × α)) (v : V3 α) =>
      (scanStep st.1 v.x, scanStep st.2.1 v.y, scanStep st.2.2 v.z))
    (g₂ := fun (st : α × α × α × α × α × α) (pp : V3 α) =>
      ((if pp.x < st.1 then pp.x else st.1), (if pp.y < st.2.1 then pp.y else st.2.1),
       (if pp.z < st.2.2.1 then pp.z else st.2.2.1),
       (if pp.x < st.1 then st.2.2.2.1 else if st.2.2.2.1 < pp.x then pp.x else st.2.2.2.1),
       (if pp.y < st.2.1 then st.2.2.2.2.1
          else if st.2.2.2.2.1 < pp.y then pp.y else st.2.2.2.2.1),
       (if pp.z < st.2.2.1 then st.2.2.2.2.2
          else if st.2.2.2.2.2 < pp.z then pp.z else st.2.2.2.2.2)))
    (init := ((v0.x, v0.x), (v0.y, v0.y), (v0.z, v0.z)))
    (by intro s v; unfold scanStep; split_ifs <;> rfl)
  simp only at key
  rw [key]

omit [IsStrictOrderedRing α] in
/-- Generated `Base2DIn2D.min` / `.max` are the two components of the generated scan. -/
theorem base2d2_min_max_eq (vs : List (V2 α)) :
    base2d2_min vs = (base2d2_calculate_min_max vs).1 ∧
    base2d2_max vs = (base2d2_calculate_min_max vs).2 := ⟨rfl, rfl⟩

omit [IsStrictOrderedRing α] in
/-- Generated `Base2DIn3D.min` / `.max` are the two components of the generated scan. -/
theorem base2d3_min_max_eq (vs : List (V3 α)) :
    base2d3_min vs = (base2d3_calculate_min_max vs).1 ∧
    base2d3_max vs = (base2d3_calculate_min_max vs).2 := ⟨rfl, rfl⟩

omit [IsStrictOrderedRing α] in
/-- Generated `Base2DIn2D.center` is the midpoint of generated `min` and `max`. -/
theorem base2d2_center_eq (vs : List (V2 α)) :
    base2d2_center vs = ⟨((base2d2_min vs).x + (base2d2_max vs).x) / 2,
                         ((base2d2_min vs).y + (base2d2_max vs).y) / 2⟩ := rfl

omit [IsStrictOrderedRing α] in
/-- Generated `Base2DIn3D.center` is the midpoint of generated `min` and `max`. -/
theorem base2d3_center_eq (vs : List (V3 α)) :
    base2d3_center vs = ⟨((base2d3_min vs).x + (base2d3_max vs).x) / 2,
                         ((base2d3_min vs).y + (base2d3_max vs).y) / 2,
                         ((base2d3_min vs).z + (base2d3_max vs).z) / 2⟩ := rfl

/-- The generated 2D box contains every vertex and is tight: `min ≤ max`, every vertex lies
inside, and each of the four sides is touched by some vertex. -/
theorem base2d2_box_spec (v0 : V2 α) (rest : List (V2 α)) :
    (base2d2_min (v0 :: rest)).x ≤ (base2d2_max (v0 :: rest)).x ∧
    (base2d2_min (v0 :: rest)).y ≤ (base2d2_max (v0 :: rest)).y ∧
    (∀ v ∈ v0 :: rest,
      (base2d2_min (v0 :: rest)).x ≤ v.x ∧ v.x ≤ (base2d2_max (v0 :: rest)).x ∧
      (base2d2_min (v0 :: rest)).y ≤ v.y ∧ v.y ≤ (base2d2_max (v0 :: rest)).y) ∧
    (∃ v ∈ v0 :: rest, v.x = (base2d2_min (v0 :: rest)).x) ∧
    (∃ v ∈ v0 :: rest, v.y = (base2d2_min (v0 :: rest)).y) ∧
    (∃ v ∈ v0 :: rest, v.x = (base2d2_max (v0 :: rest)).x) ∧
    (∃ v ∈ v0 :: rest, v.y = (base2d2_max (v0 :: rest)).y) := by
  rw [(base2d2_min_max_eq _).1, (base2d2_min_max_eq _).2, base2d2_calculate_min_max_eq]
  exact minMax2_spec v0 rest

/-- Tightness in the other direction: any axis-aligned box that contains every vertex contains
the generated box. -/
theorem base2d2_box_least (v0 : V2 α) (rest : List (V2 α)) (lo hi : V2 α)
    (h : ∀ v ∈ v0 :: rest, lo.x ≤ v.x ∧ v.x ≤ hi.x ∧ lo.y ≤ v.y ∧ v.y ≤ hi.y) :
    lo.x ≤ (base2d2_min (v0 :: rest)).x ∧ lo.y ≤ (base2d2_min (v0 :: rest)).y ∧
    (base2d2_max (v0 :: rest)).x ≤ hi.x ∧ (base2d2_max (v0 :: rest)).y ≤ hi.y := by
  obtain ⟨_, _, _, ⟨a, ha, ea⟩, ⟨b, hb, eb⟩, ⟨c, hc, ec⟩, ⟨d, hd, ed⟩⟩ := base2d2_box_spec v0 rest
  exact ⟨ea ▸ (h a ha).1, eb ▸ (h b hb).2.2.1, ec ▸ (h c hc).2.1, ed ▸ (h d hd).2.2.2⟩

/-- The generated 3D box (`Base2DIn3D`: Polyline3D, Face3D boundary …) contains every vertex
and every side is touched. -/
theorem base2d3_box_spec (v0 : V3 α) (rest : List (V3 α)) :
    (∀ v ∈ v0 :: rest,
      (base2d3_min (v0 :: rest)).x ≤ v.x ∧ v.x ≤ (base2d3_max (v0 :: rest)).x ∧
      (base2d3_min (v0 :: rest)).y ≤ v.y ∧ v.y ≤ (base2d3_max (v0 :: rest)).y ∧
      (base2d3_min (v0 :: rest)).z ≤ v.z ∧ v.z ≤ (base2d3_max (v0 :: rest)).z) := by
  rw [(base2d3_min_max_eq _).1, (base2d3_min_max_eq _).2, base2d3_calculate_min_max_eq]
  exact (minMax3_spec v0 rest).2.2.2.1

/-! ### `bounding.py` on lists of segments -/

/-- Lower / upper end of a segment's x-extent (`LineSegment2D.min.x`, `.max.x`). -/
def segLoX (g : LR2 α) : α := min g.p.x (g.p.x + g.v.x)
def segHiX (g : LR2 α) : α := max g.p.x (g.p.x + g.v.x)
def segLoY (g : LR2 α) : α := min g.p.y (g.p.y + g.v.y)
def segHiY (g : LR2 α) : α := max g.p.y (g.p.y + g.v.y)

omit [IsStrictOrderedRing α] in
/-- `bounding_domain_x([])` raises (IndexError): the generated kernel returns `none` exactly
for the empty list. -/
theorem bounding_domain_x_seg2_none_iff (geoms : List (LR2 α)) :
    bounding_domain_x_seg2 geoms = none ↔ geoms = [] := by
  unfold bounding_domain_x_seg2
  split_ifs with h <;> simp [h]

omit [IsStrictOrderedRing α] in
/-- Generated `bounding_domain_x` on a non-empty list is the running min / max fold. -/
theorem bounding_domain_x_seg2_cons (g0 : LR2 α) (rest : List (LR2 α)) :
    bounding_domain_x_seg2 (g0 :: rest) =
      some (rest.foldl (mmStep segLoX segHiX) (segLoX g0, segHiX g0)) := by
  unfold bounding_domain_x_seg2
  simp only [List.cons_ne_nil, if_false, List.headD_cons, List.drop_one, List.tail_cons]
  rfl

omit [IsStrictOrderedRing α] in
/-- Generated `bounding_domain_y` on a non-empty list is the running min / max fold. -/
theorem bounding_domain_y_seg2_cons (g0 : LR2 α) (rest : List (LR2 α)) :
    bounding_domain_y_seg2 (g0 :: rest) =
      some (rest.foldl (mmStep segLoY segHiY) (segLoY g0, segHiY g0)) := by
  unfold bounding_domain_y_seg2
  simp only [List.cons_ne_nil, if_false, List.headD_cons, List.drop_one, List.tail_cons]
  rfl

omit [IsStrictOrderedRing α] in
/-- `bounding_domain_x` of a non-empty list of segments: the interval `[mn, mx]` contains both
end points of every segment, and `mn`, `mx` are x-coordinates of end points (tight). -/
theorem bounding_domain_x_seg2_spec (g0 : LR2 α) (rest : List (LR2 α)) :
    ∃ mn mx, bounding_domain_x_seg2 (g0 :: rest) = some (mn, mx) ∧
      (∀ g ∈ g0 :: rest, mn ≤ g.p.x ∧ mn ≤ g.p.x + g.v.x ∧ g.p.x ≤ mx ∧ g.p.x + g.v.x ≤ mx) ∧
      (∃ g ∈ g0 :: rest, mn = g.p.x ∨ mn = g.p.x + g.v.x) ∧
      (∃ g ∈ g0 :: rest, mx = g.p.x ∨ mx = g.p.x + g.v.x) := by
  refine ⟨_, _, bounding_domain_x_seg2_cons g0 rest, ?_, ?_, ?_⟩
  all_goals obtain ⟨h1, h2, h3, h4, h5⟩ :=
    foldl_mmStep_spec (segLoX (α := α)) segHiX rest (segLoX g0, segHiX g0)
  · intro g hg
    have hb : (rest.foldl (mmStep segLoX segHiX) (segLoX g0, segHiX g0)).1 ≤ segLoX g ∧
        segHiX g ≤ (rest.foldl (mmStep segLoX segHiX) (segLoX g0, segHiX g0)).2 := by
      rcases List.mem_cons.mp hg with rfl | hg
      · exact ⟨h1, h2⟩
      · exact h3 g hg
    unfold segLoX segHiX at hb
    exact ⟨hb.1.trans (min_le_left _ _), hb.1.trans (min_le_right _ _),
      (le_max_left _ _).trans hb.2, (le_max_right _ _).trans hb.2⟩
  · have pick : ∀ g : LR2 α, segLoX g = g.p.x ∨ segLoX g = g.p.x + g.v.x := by
      intro g; unfold segLoX; exact min_choice _ _
    rcases h4 with h4 | ⟨g, hg, h4⟩
    · exact ⟨g0, List.mem_cons_self, by rw [h4]; exact pick g0⟩
    · exact ⟨g, List.mem_cons_of_mem _ hg, by rw [h4]; exact pick g⟩
  · have pick : ∀ g : LR2 α, segHiX g = g.p.x ∨ segHiX g = g.p.x + g.v.x := by
      intro g; unfold segHiX; exact max_choice _ _
    rcases h5 with h5 | ⟨g, hg, h5⟩
    · exact ⟨g0, List.mem_cons_self, by rw [h5]; exact pick g0⟩
    · exact ⟨g, List.mem_cons_of_mem _ hg, by rw [h5]; exact pick g⟩

omit [IsStrictOrderedRing α] in
/-- Generated `bounding_rectangle` (axis_angle = 0) is assembled from the generated x and y
domains: `min = (xx[0], yy[0])`, `max = (xx[1], yy[1])`; it raises exactly when they do. -/
theorem bounding_rectangle_seg2_eq (geoms : List (LR2 α)) :
    bounding_rectangle_seg2 geoms =
      match bounding_domain_x_seg2 geoms, bounding_domain_y_seg2 geoms with
      | some xx, some yy => some (⟨xx.1, yy.1⟩, ⟨xx.2, yy.2⟩)
      | _, _ => none := by
  unfold bounding_rectangle_seg2 bounding_domain_x_seg2 bounding_domain_y_seg2
  split_ifs with h <;> rfl

omit [IsStrictOrderedRing α] in
/-- The bounding rectangle of a non-empty list of segments contains both end points of every
segment (the C10 containment clause for `bounding_rectangle`). -/
theorem bounding_rectangle_seg2_contains (g0 : LR2 α) (rest : List (LR2 α)) :
    ∃ mn mx : V2 α, bounding_rectangle_seg2 (g0 :: rest) = some (mn, mx) ∧
      ∀ g ∈ g0 :: rest, (mn.x ≤ g.p.x ∧ g.p.x ≤ mx.x ∧ mn.y ≤ g.p.y ∧ g.p.y ≤ mx.y) ∧
        (mn.x ≤ g.p.x + g.v.x ∧ g.p.x + g.v.x ≤ mx.x ∧
         mn.y ≤ g.p.y + g.v.y ∧ g.p.y + g.v.y ≤ mx.y) := by
  rw [bounding_rectangle_seg2_eq, bounding_domain_x_seg2_cons, bounding_domain_y_seg2_cons]
  refine ⟨_, _, rfl, ?_⟩
  intro g hg
  obtain ⟨x1, x2, x3, -, -⟩ :=
    foldl_mmStep_spec (segLoX (α := α)) segHiX rest (segLoX g0, segHiX g0)
  obtain ⟨y1, y2, y3, -, -⟩ :=
    foldl_mmStep_spec (segLoY (α := α)) segHiY rest (segLoY g0, segHiY g0)
  have hx : (rest.foldl (mmStep segLoX segHiX) (segLoX g0, segHiX g0)).1 ≤ segLoX g ∧
      segHiX g ≤ (rest.foldl (mmStep segLoX segHiX) (segLoX g0, segHiX g0)).2 := by
    rcases List.mem_cons.mp hg with rfl | hg
    · exact ⟨x1, x2⟩
    · exact x3 g hg
  have hy : (rest.foldl (mmStep segLoY segHiY) (segLoY g0, segHiY g0)).1 ≤ segLoY g ∧
      segHiY g ≤ (rest.foldl (mmStep segLoY segHiY) (segLoY g0, segHiY g0)).2 := by
    rcases List.mem_cons.mp hg with rfl | hg
    · exact ⟨y1, y2⟩
    · exact y3 g hg
  unfold segLoX segHiX at hx
  unfold segLoY segHiY at hy
  exact ⟨⟨hx.1.trans (min_le_left _ _), (le_max_left _ _).trans hx.2,
          hy.1.trans (min_le_left _ _), (le_max_left _ _).trans hy.2⟩,
         ⟨hx.1.trans (min_le_right _ _), (le_max_right _ _).trans hx.2,
          hy.1.trans (min_le_right _ _), (le_max_right _ _).trans hy.2⟩⟩

omit [IsStrictOrderedRing α] in
/-- With `axis_angle = 0` the oriented `bounding_rectangle` takes the unrotated path. -/
theorem bounding_rectangle_angle_seg2_zero (M : MathOps α) (geoms : List (LR2 α)) :
    bounding_rectangle_angle_seg2 M geoms 0 = bounding_rectangle_seg2 geoms := by
  unfold bounding_rectangle_angle_seg2 bounding_rectangle_seg2
  simp only [if_true]

omit [LinearOrder α] [IsStrictOrderedRing α] in
/-- `_orient_geometry(geometries, axis_angle, center)` rotates every segment by `-axis_angle`
about `center`: the generated loop is `List.map` of the generated `seg2_rotate`. -/
theorem orient_geometry_seg2_eq_map (M : MathOps α) (geoms : List (LR2 α)) (a : α) (c : V2 α) :
    orient_geometry_seg2 M geoms a c = geoms.map (fun g => seg2_rotate M g (-a) c) := by
  unfold orient_geometry_seg2
  exact (foldl_snoc_eq_map (fun g => seg2_rotate M g (-a) c) geoms []).trans (List.nil_append _)

omit [LinearOrder α] [IsStrictOrderedRing α] in
/-- `_orient_geometry` on 3D segments uses `rotate_xy` (the `except TypeError` branch). -/
theorem orient_geometry_seg3_eq_map (M : MathOps α) (geoms : List (LR3 α)) (a : α) (c : V3 α) :
    orient_geometry_seg3 M geoms a c = geoms.map (fun g => seg3_rotate_xy M g (-a) c) := by
  unfold orient_geometry_seg3
  exact (foldl_snoc_eq_map (fun g => seg3_rotate_xy M g (-a) c) geoms []).trans
    (List.nil_append _)

/-- `overlapping_bounding_rect` is symmetric in its two geometries. -/
theorem overlapping_bounding_rect_seg2_comm (g1 g2 : LR2 α) (d : α) :
    overlapping_bounding_rect_seg2 g1 g2 d = overlapping_bounding_rect_seg2 g2 g1 d := by
  unfold overlapping_bounding_rect_seg2
  simp only []
  rw [abs_sub_comm (g1.p.x + g1.v.x / 2), abs_sub_comm (g1.p.y + g1.v.y / 2)]
  congr 1
  apply propext
  constructor <;> (rintro ⟨h1, h2⟩; constructor <;> [skip; skip] <;> linarith)

/-- A segment always overlaps itself (`distance ≥ 0`). -/
theorem overlapping_bounding_rect_seg2_self (g : LR2 α) (d : α) (hd : 0 ≤ d) :
    overlapping_bounding_rect_seg2 g g d = true := by
  unfold overlapping_bounding_rect_seg2
  simp only [sub_self, abs_zero, decide_eq_true_eq]
  have hx : min g.p.x (g.p.x + g.v.x) ≤ max g.p.x (g.p.x + g.v.x) :=
    (min_le_left _ _).trans (le_max_left _ _)
  have hy : min g.p.y (g.p.y + g.v.y) ≤ max g.p.y (g.p.y + g.v.y) :=
    (min_le_left _ _).trans (le_max_left _ _)
  constructor <;> (rw [not_lt]; linarith)

/-! ### Non-vacuity: the generated kernels on concrete data (ℚ) -/

example : base2d2_calculate_min_max ([⟨1, 1⟩, ⟨0, 3⟩, ⟨4, -2⟩, ⟨2, 5⟩] : List (V2 ℚ))
    = (⟨0, -2⟩, ⟨4, 5⟩) := by decide +kernel

example : bounding_rectangle_seg2 ([⟨⟨0, 0⟩, ⟨2, 1⟩⟩, ⟨⟨-1, 3⟩, ⟨1, -4⟩⟩] : List (LR2 ℚ))
    = some (⟨-1, -1⟩, ⟨2, 3⟩) := by decide +kernel

example : bounding_rectangle_seg2 ([] : List (LR2 ℚ)) = none := by decide +kernel

end Lbg.Props.C10g
