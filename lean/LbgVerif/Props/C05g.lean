/-
  C05g — ear clipping: the arithmetic and the predicates of the hand model `Model/Earcut.lean`
  ARE the definitions regenerated from `ladybug_geometry/triangulation.py`
  (`Gen/Tri.lean`, `Gen/TriMore.lean`).

  1. Helpers of the hand model that CALL a generated kernel (recorded by `rfl`):
       `area` = `earcut_area` (`_area`), `eqN` = `earcut_equals` (`_equals`),
       `isectN` = `earcut_intersects` (`_intersects`), `pitN` = `earcut_point_in_triangle`
       (`_point_in_triangle`), each on the coordinates `v n.i` of the nodes.
     (`removable`, `cureLoop`, `bridgeScan`, `findHoleBridge` only use these and
     `locallyInside`; `signedArea` has no generated counterpart and is tied to `shoelace` by
     `Lemmas.signedArea_eq_shoelace`.)
  2. Helper that RE-IMPLEMENTS a generated kernel: `locallyInside` = `earcut_locally_inside`
     (`_locally_inside`), proved equal.
  3. The linked-list routines.  The translator instantiates them on doubly linked rings of
     3 / 4 nodes `n0 → n1 → … → n0` with `node.i` = position; the hand model runs them on a
     `List Node` (cursor node first) over a vertex table `v`.  For ALL tables `v` and nodes:
       `isEar v [k1, k2, k0]`            = `earcut_is_ear_3`   (`_is_ear(n1)`),
       `isEar v [k1, k2, k3, k0]`        = `earcut_is_ear_4`,
       `middleInside v [k0, k1, k2] k0 b`     = `earcut_middle_inside_3` (`_middle_inside(n0, b)`),
       `middleInside v [k0, k1, k2, k3] k0 b` = `earcut_middle_inside_4`,
       `intersectsPolygon v [k0, k1, k2, k3] k0 k2` = `earcut_intersects_polygon_4` (= `false`:
          every edge of a quadrilateral touches the diagonal's end nodes),
       `validDiagonal v [k0, k1, k2, k3] 2`  = `earcut_is_valid_diagonal_4`
          (`_is_valid_diagonal(n0, n2)`; the three node indices compared by the code distinct,
          as they are in a ring built by `_linked_list`),
       `v (nodeAt ring (leftmostPos v ring)).i` = `earcut_get_leftmost_3/4` (`_get_leftmost(n0)`).
  4. Corollaries: theorems proved about the hand model transported to the generated
     definitions (`earcut_is_ear_?_convex`, `linked_quad_step`, `earcut_is_valid_diagonal_4_parts`).

  A change of any of these Python functions changes the generated terms and breaks the
  corresponding equality.
-/
import LbgVerif.Gen.Tri
import LbgVerif.Gen.TriMore
import LbgVerif.Model.Earcut
import LbgVerif.Lemmas.EarcutMeasures
import LbgVerif.Lemmas.GenTiesC05
import LbgVerif.Props.C05
import Mathlib.Algebra.Order.Field.Rat

set_option linter.unusedSectionVars false

namespace Lbg.Props.C05g
open Lbg Lbg.Gen Lbg.Model.Earcut Lbg.Lemmas Lbg.Lemmas.GenTiesC05
variable {α : Type} [Field α] [LinearOrder α]

/-! ### 1. Helpers that call the generated kernels -/

/-- TIE (by construction): hand `area v p q r` (`_area` on nodes) is the generated
`earcut_area` (`triangulation._area`) on the node coordinates. -/
theorem area_eq_gen (v : Nat → V2 α) (p q r : Node) :
    area v p q r = earcut_area (v p.i) (v q.i) (v r.i) := rfl

/-- TIE (by construction): hand `eqN` is the generated `earcut_equals`
(`triangulation._equals`). -/
theorem eqN_eq_gen (v : Nat → V2 α) (p q : Node) :
    eqN v p q = earcut_equals (v p.i) (v q.i) := rfl

/-- TIE (by construction): hand `isectN` is the generated `earcut_intersects`
(`triangulation._intersects`). -/
theorem isectN_eq_gen (v : Nat → V2 α) (p1 q1 p2 q2 : Node) :
    isectN v p1 q1 p2 q2 = earcut_intersects (v p1.i) (v q1.i) (v p2.i) (v q2.i) := rfl

/-- TIE (by construction): hand `pitN` is the generated `earcut_point_in_triangle`
(`triangulation._point_in_triangle`) on the coordinates of the four nodes. -/
theorem pitN_eq_gen (v : Nat → V2 α) (a b c p : Node) :
    pitN v a b c p = earcut_point_in_triangle (v a.i).x (v a.i).y (v b.i).x (v b.i).y
      (v c.i).x (v c.i).y (v p.i).x (v p.i).y := rfl

/-- TIE (by construction): the removal test of `_filter_points` in the hand model is written
with the generated `earcut_equals` and `earcut_area`. -/
theorem removable_eq_gen (v : Nat → V2 α) (a b c : Node) :
    removable v a b c = (!b.st && (earcut_equals (v b.i) (v c.i) ||
      decide (earcut_area (v a.i) (v b.i) (v c.i) = 0))) := rfl

/-! ### 2. `_locally_inside` -/

/-- TIE: hand `locallyInside v ap a an b` (a re-implementation through `area`) equals the
generated `earcut_locally_inside` (`triangulation._locally_inside(a, b)` with `a.prev = ap`,
`a.next = an`). -/
theorem locallyInside_eq_gen (v : Nat → V2 α) (ap a an b : Node) :
    locallyInside v ap a an b =
      earcut_locally_inside (v ap.i) (v a.i) (v an.i) (v b.i) := by
  unfold locallyInside earcut_locally_inside area earcut_area
  exact locallyInside_shape _ _ _ _ _

/-! ### 3. The linked-list routines on rings of three / four nodes -/

/-- TIE: hand `isEar` on the ring `k1 → k2 → k0` seen from the ear `k1` equals the generated
`earcut_is_ear_3` (`triangulation._is_ear(n1)` on the ring `n0 → n1 → n2`). -/
theorem isEar_ring3_eq_gen (v : Nat → V2 α) (k0 k1 k2 : Node) :
    isEar v [k1, k2, k0] = earcut_is_ear_3 (v k0.i) (v k1.i) (v k2.i) := by
  unfold earcut_is_ear_3
  exact isEar3_shape _

/-- TIE: hand `isEar` on the ring `k1 → k2 → k3 → k0` seen from the ear `k1` equals the
generated `earcut_is_ear_4` (`triangulation._is_ear(n1)` on the ring `n0 → n1 → n2 → n3`: the
convexity test at `n1` and one pass of the blocker loop, at `n3`). -/
theorem isEar_ring4_eq_gen (v : Nat → V2 α) (k0 k1 k2 k3 : Node) :
    isEar v [k1, k2, k3, k0] = earcut_is_ear_4 (v k0.i) (v k1.i) (v k2.i) (v k3.i) := by
  unfold earcut_is_ear_4
  exact isEar4_shape _ _ _ _ _

/-- The hand `middleInside` on a ring of three nodes, unrolled into its three steps. -/
theorem middleInside_ring3 (v : Nat → V2 α) (k0 k1 k2 a b : Node) :
    middleInside v [k0, k1, k2] a b =
      midStepM (((v a.i).x + (v b.i).x) / 2) (((v a.i).y + (v b.i).y) / 2) (v k2.i) (v k0.i)
        (midStepM (((v a.i).x + (v b.i).x) / 2) (((v a.i).y + (v b.i).y) / 2) (v k1.i) (v k2.i)
          (midStepM (((v a.i).x + (v b.i).x) / 2) (((v a.i).y + (v b.i).y) / 2) (v k0.i)
            (v k1.i) false)) := rfl

/-- The hand `middleInside` on a ring of four nodes, unrolled into its four steps. -/
theorem middleInside_ring4 (v : Nat → V2 α) (k0 k1 k2 k3 a b : Node) :
    middleInside v [k0, k1, k2, k3] a b =
      midStepM (((v a.i).x + (v b.i).x) / 2) (((v a.i).y + (v b.i).y) / 2) (v k3.i) (v k0.i)
        (midStepM (((v a.i).x + (v b.i).x) / 2) (((v a.i).y + (v b.i).y) / 2) (v k2.i) (v k3.i)
          (midStepM (((v a.i).x + (v b.i).x) / 2) (((v a.i).y + (v b.i).y) / 2) (v k1.i) (v k2.i)
            (midStepM (((v a.i).x + (v b.i).x) / 2) (((v a.i).y + (v b.i).y) / 2) (v k0.i)
              (v k1.i) false))) := rfl

/-- TIE: hand `middleInside` on the ring `k0 → k1 → k2` with `a = k0` equals the generated
`earcut_middle_inside_3` (`triangulation._middle_inside(n0, b)`). -/
theorem middleInside_ring3_eq_gen (v : Nat → V2 α) (k0 k1 k2 b : Node) :
    middleInside v [k0, k1, k2] k0 b =
      earcut_middle_inside_3 (v k0.i) (v k1.i) (v k2.i) (v b.i) := by
  rw [middleInside_ring3, midStepM_false, midStepM_eq_G, midStepM_eq_G]
  rfl

/-- TIE: hand `middleInside` on the ring `k0 → k1 → k2 → k3` with `a = k0` equals the
generated `earcut_middle_inside_4` (`triangulation._middle_inside(n0, b)`). -/
theorem middleInside_ring4_eq_gen (v : Nat → V2 α) (k0 k1 k2 k3 b : Node) :
    middleInside v [k0, k1, k2, k3] k0 b =
      earcut_middle_inside_4 (v k0.i) (v k1.i) (v k2.i) (v k3.i) (v b.i) := by
  rw [middleInside_ring4, midStepM_false, midStepM_eq_G, midStepM_eq_G, midStepM_eq_G]
  rfl

/-- TIE: hand `intersectsPolygon` on a quadrilateral ring for the diagonal `k0 — k2` equals
the generated `earcut_intersects_polygon_4` (`triangulation._intersects_polygon(n0, n2)`),
i.e. `false`: each of the four edges has `k0` or `k2` as an end node, so `_intersects` is
never evaluated.  No assumption on the node indices. -/
theorem intersectsPolygon_ring4_eq_gen (v : Nat → V2 α) (k0 k1 k2 k3 : Node) :
    intersectsPolygon v [k0, k1, k2, k3] k0 k2 =
      earcut_intersects_polygon_4 (v k0.i) (v k1.i) (v k2.i) (v k3.i) := by
  unfold earcut_intersects_polygon_4 intersectsPolygon
  have e : ringEdges [k0, k1, k2, k3] = [(k0, k1), (k1, k2), (k2, k3), (k3, k0)] := rfl
  rw [e]
  simp

/-- The hand `validDiagonal` on a quadrilateral ring at `j = 2`, with the neighbours read
off the ring. -/
theorem validDiagonal_ring4 (v : Nat → V2 α) (k0 k1 k2 k3 : Node) :
    validDiagonal v [k0, k1, k2, k3] 2 =
      (k0.i != k2.i && (k1.i != k2.i && k3.i != k2.i &&
        !intersectsPolygon v [k0, k1, k2, k3] k0 k2 &&
        locallyInside v k3 k0 k1 k2 && locallyInside v k1 k2 k3 k0 &&
        middleInside v [k0, k1, k2, k3] k0 k2)) := rfl

/-- The generated `earcut_is_valid_diagonal_4` in terms of the other generated kernels:
`_locally_inside(a, b) and _locally_inside(b, a) and _middle_inside(a, b)` for `a = n0`,
`b = n2` (the index tests and `not _intersects_polygon` are decided on the ring of four). -/
theorem earcut_is_valid_diagonal_4_parts (n0 n1 n2 n3 : V2 α) :
    earcut_is_valid_diagonal_4 n0 n1 n2 n3 =
      (earcut_locally_inside n3 n0 n1 n2 && earcut_locally_inside n1 n2 n3 n0 &&
        earcut_middle_inside_4 n0 n1 n2 n3 n2) := by
  unfold earcut_is_valid_diagonal_4 earcut_locally_inside earcut_middle_inside_4
  exact validDiagonal_shape _ _ _

/-- TIE: hand `validDiagonal` on the ring `k0 → k1 → k2 → k3` for the diagonal from the head
`k0` to `k2` (`j = 2`) equals the generated `earcut_is_valid_diagonal_4`
(`triangulation._is_valid_diagonal(n0, n2)` preceded by `a.i != b.i` of `_split_earcut`),
when `k2.i` differs from the indices of the three other nodes (in the generated instance
`node.i` is the position in the ring). -/
theorem validDiagonal_ring4_eq_gen (v : Nat → V2 α) (k0 k1 k2 k3 : Node)
    (h0 : k0.i ≠ k2.i) (h1 : k1.i ≠ k2.i) (h3 : k3.i ≠ k2.i) :
    validDiagonal v [k0, k1, k2, k3] 2 =
      earcut_is_valid_diagonal_4 (v k0.i) (v k1.i) (v k2.i) (v k3.i) := by
  have b0 : (k0.i != k2.i) = true := by simpa using h0
  have b1 : (k1.i != k2.i) = true := by simpa using h1
  have b3 : (k3.i != k2.i) = true := by simpa using h3
  have bi : intersectsPolygon v [k0, k1, k2, k3] k0 k2 = false :=
    intersectsPolygon_ring4_eq_gen v k0 k1 k2 k3
  rw [validDiagonal_ring4, b0, b1, b3, bi, locallyInside_eq_gen, locallyInside_eq_gen,
    middleInside_ring4_eq_gen, earcut_is_valid_diagonal_4_parts]
  rfl

/-- When an index test fails the hand `validDiagonal` is `false` whatever the geometry
(`a.i != b.i and a.next.i != b.i and a.prev.i != b.i and …` short-circuits). -/
theorem validDiagonal_ring4_of_index_eq (v : Nat → V2 α) (k0 k1 k2 k3 : Node)
    (h : k0.i = k2.i ∨ k1.i = k2.i ∨ k3.i = k2.i) :
    validDiagonal v [k0, k1, k2, k3] 2 = false := by
  rw [validDiagonal_ring4]
  rcases h with h | h | h <;> simp [h]

/-- The hand model's update test is the lexicographic test of the shape lemmas. -/
theorem leftOf_iff_lexLt (p b : V2 α) : leftOf p b ↔ lexLt p b := Iff.rfl

/-- TIE: the node found by the hand `leftmostPos` (`_get_leftmost`: first node, from the head,
of minimal `x`, ties by smaller `y`) on the ring `k0 → k1 → k2` has the coordinates returned
by the generated `earcut_get_leftmost_3` (`triangulation._get_leftmost(n0)`). -/
theorem leftmost_ring3_eq_gen [IsStrictOrderedRing α] (v : Nat → V2 α) (k0 k1 k2 : Node) :
    v (nodeAt [k0, k1, k2] (leftmostPos v [k0, k1, k2])).i =
      earcut_get_leftmost_3 (v k0.i) (v k1.i) (v k2.i) := by
  have hl : leftmostPos v [k0, k1, k2] =
      (let s1 : Nat × V2 α := if lexLt (v k1.i) (v k0.i) then (1, v k1.i) else (0, v k0.i)
       let s2 : Nat × V2 α := if lexLt (v k2.i) s1.2 then (2, v k2.i) else s1
       s2.1) := by
    have hr : List.range ([k0, k1, k2] : Ring).length = [0, 1, 2] := rfl
    unfold leftmostPos
    simp only [hr, List.foldl_cons, List.foldl_nil]
    have e0 : nodeAt [k0, k1, k2] 0 = k0 := rfl
    have e1 : nodeAt [k0, k1, k2] 1 = k1 := rfl
    have e2 : nodeAt [k0, k1, k2] 2 = k2 := rfl
    simp only [e0, e1, e2, leftOf_iff_lexLt, lexLt_self, if_false]
  rw [hl]
  have key := leftmost3_shape (fun k => v (nodeAt [k0, k1, k2] k).i)
    (v k0.i) (v k1.i) (v k2.i)
  simp only [] at key ⊢
  rw [key]
  unfold earcut_get_leftmost_3
  simp only [ite_lex]
  rfl

/-- TIE: the same on a ring of four nodes: generated `earcut_get_leftmost_4`. -/
theorem leftmost_ring4_eq_gen [IsStrictOrderedRing α] (v : Nat → V2 α) (k0 k1 k2 k3 : Node) :
    v (nodeAt [k0, k1, k2, k3] (leftmostPos v [k0, k1, k2, k3])).i =
      earcut_get_leftmost_4 (v k0.i) (v k1.i) (v k2.i) (v k3.i) := by
  have hl : leftmostPos v [k0, k1, k2, k3] =
      (let s1 : Nat × V2 α := if lexLt (v k1.i) (v k0.i) then (1, v k1.i) else (0, v k0.i)
       let s2 : Nat × V2 α := if lexLt (v k2.i) s1.2 then (2, v k2.i) else s1
       let s3 : Nat × V2 α := if lexLt (v k3.i) s2.2 then (3, v k3.i) else s2
       s3.1) := by
    have hr : List.range ([k0, k1, k2, k3] : Ring).length = [0, 1, 2, 3] := rfl
    unfold leftmostPos
    simp only [hr, List.foldl_cons, List.foldl_nil]
    have e0 : nodeAt [k0, k1, k2, k3] 0 = k0 := rfl
    have e1 : nodeAt [k0, k1, k2, k3] 1 = k1 := rfl
    have e2 : nodeAt [k0, k1, k2, k3] 2 = k2 := rfl
    have e3 : nodeAt [k0, k1, k2, k3] 3 = k3 := rfl
    simp only [e0, e1, e2, e3, leftOf_iff_lexLt, lexLt_self, if_false]
  rw [hl]
  have key := leftmost4_shape (fun k => v (nodeAt [k0, k1, k2, k3] k).i)
    (v k0.i) (v k1.i) (v k2.i) (v k3.i)
  simp only [] at key ⊢
  rw [key]
  unfold earcut_get_leftmost_4
  simp only [ite_lex]
  rfl

/-! ### The instances exactly as generated: `node.i` = position, table = the point list -/

/-- Vertex table of a point list (what `earcut` builds from its flat `data`). -/
def tab (l : List (V2 α)) : Nat → V2 α := fun i => l.getD i ⟨0, 0⟩

/-- Node number `i` (not a Steiner point). -/
def nd (i : Nat) : Node := ⟨i, false⟩

/-- TIE, concrete form: on the ring `0 → 1 → 2 → 3` over the table `[n0, n1, n2, n3]` the hand
routines are the generated instances, for arbitrary points (no assumption). -/
theorem ring4_instances (n0 n1 n2 n3 : V2 α) :
    isEar (tab [n0, n1, n2, n3]) [nd 1, nd 2, nd 3, nd 0] = earcut_is_ear_4 n0 n1 n2 n3 ∧
    middleInside (tab [n0, n1, n2, n3]) [nd 0, nd 1, nd 2, nd 3] (nd 0) (nd 2) =
      earcut_middle_inside_4 n0 n1 n2 n3 n2 ∧
    intersectsPolygon (tab [n0, n1, n2, n3]) [nd 0, nd 1, nd 2, nd 3] (nd 0) (nd 2) =
      earcut_intersects_polygon_4 n0 n1 n2 n3 ∧
    validDiagonal (tab [n0, n1, n2, n3]) [nd 0, nd 1, nd 2, nd 3] 2 =
      earcut_is_valid_diagonal_4 n0 n1 n2 n3 :=
  ⟨isEar_ring4_eq_gen _ (nd 0) (nd 1) (nd 2) (nd 3),
   middleInside_ring4_eq_gen _ (nd 0) (nd 1) (nd 2) (nd 3) (nd 2),
   intersectsPolygon_ring4_eq_gen _ (nd 0) (nd 1) (nd 2) (nd 3),
   validDiagonal_ring4_eq_gen _ (nd 0) (nd 1) (nd 2) (nd 3) (by decide) (by decide) (by decide)⟩

/-- TIE, concrete form on the ring `0 → 1 → 2` over the table `[n0, n1, n2]`; the extra point
`b` of `_middle_inside` is entry `3` of the table. -/
theorem ring3_instances (n0 n1 n2 b : V2 α) :
    isEar (tab [n0, n1, n2]) [nd 1, nd 2, nd 0] = earcut_is_ear_3 n0 n1 n2 ∧
    middleInside (tab [n0, n1, n2, b]) [nd 0, nd 1, nd 2] (nd 0) (nd 3) =
      earcut_middle_inside_3 n0 n1 n2 b :=
  ⟨isEar_ring3_eq_gen _ (nd 0) (nd 1) (nd 2),
   middleInside_ring3_eq_gen _ (nd 0) (nd 1) (nd 2) (nd 3)⟩

/-! ### 4. Hand-model theorems transported to the generated definitions -/

/-- Transport of `Lemmas.isEar_area_neg` (+ `C05.earcut_area_eq_neg_triArea2`): when the
generated `earcut_is_ear_4` accepts the corner `n1` of the ring `n0 n1 n2 n3`, the generated
`_area(n0, n1, n2)` is negative, i.e. the corner is strictly convex: `det(n1 − n0, n2 − n0) > 0`. -/
theorem earcut_is_ear_4_convex [IsStrictOrderedRing α] (n0 n1 n2 n3 : V2 α)
    (h : earcut_is_ear_4 n0 n1 n2 n3 = true) :
    earcut_area n0 n1 n2 < 0 ∧ 0 < V2.det (V2.sub n1 n0) (V2.sub n2 n0) := by
  rw [← (ring4_instances n0 n1 n2 n3).1] at h
  have hneg : area (tab [n0, n1, n2, n3]) (nd 0) (nd 1) (nd 2) < 0 :=
    isEar_area_neg (tab [n0, n1, n2, n3]) (nd 0) (nd 1) (nd 2) [nd 3] h
  have e : area (tab [n0, n1, n2, n3]) (nd 0) (nd 1) (nd 2) = earcut_area n0 n1 n2 := rfl
  rw [e] at hneg
  refine ⟨hneg, ?_⟩
  have := C05.earcut_area_eq_neg_triArea2 n0 n1 n2
  unfold C05.triArea2 at this
  linarith

/-- The same for the generated `earcut_is_ear_3`. -/
theorem earcut_is_ear_3_convex [IsStrictOrderedRing α] (n0 n1 n2 : V2 α)
    (h : earcut_is_ear_3 n0 n1 n2 = true) :
    earcut_area n0 n1 n2 < 0 ∧ 0 < V2.det (V2.sub n1 n0) (V2.sub n2 n0) := by
  rw [← (ring3_instances n0 n1 n2 n0).1] at h
  have hneg : area (tab [n0, n1, n2]) (nd 0) (nd 1) (nd 2) < 0 :=
    isEar_area_neg (tab [n0, n1, n2]) (nd 0) (nd 1) (nd 2) [] h
  have e : area (tab [n0, n1, n2]) (nd 0) (nd 1) (nd 2) = earcut_area n0 n1 n2 := rfl
  rw [e] at hneg
  refine ⟨hneg, ?_⟩
  have := C05.earcut_area_eq_neg_triArea2 n0 n1 n2
  unfold C05.triArea2 at this
  linarith

/-- One step of the hand model's ear-slicing loop (`_earcut_linked`) on a quadrilateral ring
`b → c → d → a` is decided by the GENERATED `earcut_is_ear_4`: if it accepts, the triangle
`(a, b, c)` is emitted and the loop goes on with the ring `d → a → c`. -/
theorem linked_quad_step (v : Nat → V2 α) (f : Nat) (a b c d : Node) (k pass : Nat)
    (h : earcut_is_ear_4 (v a.i) (v b.i) (v c.i) (v d.i) = true) :
    linked v (f + 1) [b, c, d, a] k pass = Ev.ear a b c :: linked v f [d, a, c] 0 pass := by
  rw [← isEar_ring4_eq_gen v a b c d] at h
  simp only [linked, h, if_true]
  rfl

/-- Transport of `C05.earcut_intersects_spec`-style facts is immediate because `isectN` IS the
generated kernel; e.g. the cure test of the hand model's `cureLoop`
(`not _equals(a, b) and _intersects(a, p, p.next, b) and _locally_inside(a, b) and
_locally_inside(b, a)`) in terms of generated kernels only. -/
theorem cure_test_eq_gen (v : Nat → V2 α) (ap a p q b bn : Node) :
    (!eqN v a b && isectN v a p q b && locallyInside v ap a p b && locallyInside v q b bn a) =
      (!earcut_equals (v a.i) (v b.i) && earcut_intersects (v a.i) (v p.i) (v q.i) (v b.i) &&
        earcut_locally_inside (v ap.i) (v a.i) (v p.i) (v b.i) &&
        earcut_locally_inside (v q.i) (v b.i) (v bn.i) (v a.i)) := by
  rw [locallyInside_eq_gen, locallyInside_eq_gen]
  rfl

/-! ### Non-vacuity: the generated instances on concrete rings (ℚ) -/

/-- The unit square, counter-clockwise in the y-up frame is "clockwise" for earcut's `_area`
sign; the reversed square has all four corners accepted as ears. -/
example : earcut_is_ear_4 (⟨0, 0⟩ : V2 ℚ) ⟨0, 1⟩ ⟨1, 1⟩ ⟨1, 0⟩ = false ∧
    earcut_is_ear_4 (⟨0, 0⟩ : V2 ℚ) ⟨1, 0⟩ ⟨1, 1⟩ ⟨0, 1⟩ = true := by decide +kernel

/-- A dart whose reflex corner `n3 = (2, 1)` lies inside the candidate ear `n0 n1 n2` and
blocks it (the `while` loop of `_is_ear` is exercised). -/
example : earcut_is_ear_4 (⟨0, 0⟩ : V2 ℚ) ⟨4, 0⟩ ⟨2, 4⟩ ⟨2, 1⟩ = false ∧
    isEar (tab [(⟨0, 0⟩ : V2 ℚ), ⟨4, 0⟩, ⟨2, 4⟩, ⟨2, 1⟩]) [nd 1, nd 2, nd 3, nd 0] = false := by
  decide +kernel

/-- A convex quadrilateral has the valid diagonal `n0 — n2`; the dart with its reflex corner
at `n1 = (2, 1)` does not (the diagonal `n0 — n2` runs outside). -/
example : earcut_is_valid_diagonal_4 (⟨0, 0⟩ : V2 ℚ) ⟨4, 0⟩ ⟨5, 3⟩ ⟨1, 2⟩ = true ∧
    validDiagonal (tab [(⟨0, 0⟩ : V2 ℚ), ⟨4, 0⟩, ⟨5, 3⟩, ⟨1, 2⟩]) [nd 0, nd 1, nd 2, nd 3] 2 = true ∧
    earcut_is_valid_diagonal_4 (⟨0, 0⟩ : V2 ℚ) ⟨2, 1⟩ ⟨4, 0⟩ ⟨2, 4⟩ = false := by
  decide +kernel

/-- Ties in `x` are broken by the smaller `y` wherever the lower point sits in the ring (the
upstream rule; before the repair the first of the two was returned). -/
example : earcut_get_leftmost_3 (⟨1, 7⟩ : V2 ℚ) ⟨1, 5⟩ ⟨2, 2⟩ = ⟨1, 5⟩ ∧
    earcut_get_leftmost_4 (⟨3, 0⟩ : V2 ℚ) ⟨1, 7⟩ ⟨2, 2⟩ ⟨1, 5⟩ = ⟨1, 5⟩ := by decide +kernel

example : earcut_get_leftmost_4 (⟨3, 0⟩ : V2 ℚ) ⟨1, 5⟩ ⟨1, 7⟩ ⟨2, 2⟩ = ⟨1, 5⟩ ∧
    earcut_middle_inside_3 (⟨0, 0⟩ : V2 ℚ) ⟨4, 0⟩ ⟨0, 4⟩ ⟨2, 2⟩ = true := by decide +kernel

end Lbg.Props.C05g
