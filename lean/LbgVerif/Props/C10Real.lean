/-
  C10 / C17 / C06 — non-vacuity of the analytic hypotheses over ℝ.

  `arc2d_box` assumes `TrigQuadrants M` (cardinal values and quadrant monotonicity of cos / sin),
  `circle3d_box` for `Arc3D` assumes the `sqrt` law and `sin (acos t) = sqrt (1 - t²)`, several
  C06 / C17 theorems assume the `sqrt` law and `cos² + sin² = 1`.  All of them hold for the
  real functions.  Kept in a separate file because of the heavy import.  Only `example`s and
  the witness definition, no new property theorems.
-/
import LbgVerif.Props.C10
import Mathlib.Analysis.SpecialFunctions.Trigonometric.Basic
import Mathlib.Analysis.SpecialFunctions.Trigonometric.Inverse
import Mathlib.Analysis.Real.Sqrt

namespace Lbg.Props.C10
open Lbg Lbg.Lemmas

/-- The real `math` module. -/
noncomputable def Mreal : MathOps ℝ where
  sqrt := Real.sqrt
  sin := Real.sin
  cos := Real.cos
  tan := Real.tan
  acos := Real.arccos
  asin := Real.arcsin
  atan2 := fun _ _ => 0
  pi := Real.pi
  floor := fun x => ((⌊x⌋ : ℤ) : ℝ)

/-- The real cos / sin / π satisfy `TrigQuadrants`. -/
example : TrigQuadrants Mreal where
  pi_pos := Real.pi_pos
  cos_zero := Real.cos_zero
  cos_pi := Real.cos_pi
  cos_two_pi := Real.cos_two_pi
  sin_zero := Real.sin_zero
  sin_half_pi := Real.sin_pi_div_two
  sin_three_half_pi := by
    show Real.sin (Real.pi * (3 / 2)) = -1
    have : Real.pi * (3 / 2) = Real.pi / 2 + Real.pi := by ring
    rw [this, Real.sin_add_pi, Real.sin_pi_div_two]
  sin_two_pi := Real.sin_two_pi
  cos_anti := by
    intro s t h0 hst ht
    exact Real.strictAntiOn_cos.antitoneOn ⟨h0, le_trans hst ht⟩ ⟨le_trans h0 hst, ht⟩ hst
  cos_mono := by
    intro s t h0 hst ht
    show Real.cos s ≤ Real.cos t
    have hp := Real.pi_pos
    change t ≤ 2 * Real.pi at ht
    change Real.pi ≤ s at h0
    rw [← Real.cos_two_pi_sub s, ← Real.cos_two_pi_sub t]
    exact Real.strictAntiOn_cos.antitoneOn ⟨by linarith, by linarith⟩ ⟨by linarith, by linarith⟩
      (by linarith)
  sin_mono1 := by
    intro s t h0 hst ht
    have hp := Real.pi_pos
    change t ≤ Real.pi / 2 at ht
    exact Real.strictMonoOn_sin.monotoneOn ⟨by linarith, by linarith⟩ ⟨by linarith, ht⟩ hst
  sin_anti := by
    intro s t h0 hst ht
    show Real.sin t ≤ Real.sin s
    have hp := Real.pi_pos
    change t ≤ Real.pi * (3 / 2) at ht
    change Real.pi / 2 ≤ s at h0
    rw [← Real.sin_pi_sub s, ← Real.sin_pi_sub t]
    exact Real.strictMonoOn_sin.monotoneOn ⟨by linarith, by linarith⟩ ⟨by linarith, by linarith⟩
      (by linarith)
  sin_mono2 := by
    intro s t h0 hst ht
    show Real.sin s ≤ Real.sin t
    have hp := Real.pi_pos
    change t ≤ 2 * Real.pi at ht
    change Real.pi * (3 / 2) ≤ s at h0
    rw [← Real.sin_sub_two_pi s, ← Real.sin_sub_two_pi t]
    exact Real.strictMonoOn_sin.monotoneOn ⟨by linarith, by linarith⟩ ⟨by linarith, by linarith⟩
      (by linarith)

/-- The `sqrt` law, `sin (acos t) = sqrt (1 - t·t)`, `cos² + sin² = 1` at every angle,
`2π`-periodicity at `0` and the floor law hold together for `Mreal`. -/
example :
    (∀ x : ℝ, 0 ≤ x → Mreal.sqrt x * Mreal.sqrt x = x ∧ 0 ≤ Mreal.sqrt x) ∧
    (∀ t : ℝ, -1 ≤ t → t ≤ 1 → Mreal.sin (Mreal.acos t) = Mreal.sqrt (1 - t * t)) ∧
    (∀ θ : ℝ, Mreal.cos θ * Mreal.cos θ + Mreal.sin θ * Mreal.sin θ = 1) ∧
    (Mreal.cos (2 * Mreal.pi) = Mreal.cos 0 ∧ Mreal.sin (2 * Mreal.pi) = Mreal.sin 0) ∧
    (∀ x : ℝ, Mreal.floor x ≤ x ∧ x < Mreal.floor x + 1) :=
  ⟨fun x hx => ⟨Real.mul_self_sqrt hx, Real.sqrt_nonneg x⟩,
   fun t _ _ => by
     show Real.sin (Real.arccos t) = Real.sqrt (1 - t * t)
     rw [Real.sin_arccos, sq],
   fun θ => by
     show Real.cos θ * Real.cos θ + Real.sin θ * Real.sin θ = 1
     have := Real.cos_sq_add_sin_sq θ
     nlinarith [this],
   ⟨by show Real.cos (2 * Real.pi) = Real.cos 0; rw [Real.cos_two_pi, Real.cos_zero],
    by show Real.sin (2 * Real.pi) = Real.sin 0; rw [Real.sin_two_pi, Real.sin_zero]⟩,
   fun x => ⟨Int.floor_le x, Int.lt_floor_add_one x⟩⟩

end Lbg.Props.C10
