/-
  C19 (continued) — the sub-rectangle generators, `sub_faces_by_ratio_rectangle` and the
  `Polygon2D.offset` loop, about the literal hand models of `Model/SubRects.lean`
  (tied to the code by `tools/harness/corr/subrects.py`).

  A. `Face3D.sub_rects_from_rect_ratio` (`Model.subRectsRatio`).  The Python code has no
     `assert`; the preconditions used are the documented ranges: positive base, height, target
     height and separation, `0 < ratio`.  `ratioPlan n …` (Lemmas/SubRects) is the list of
     axis-parallel rectangles in plane coordinates, `n = num_div`.
       * `sub_rects_ratio_model`   the model raises nothing and returns exactly the rectangles
                                   of the plan, each counter-clockwise from its lower left corner
       * `sub_rects_ratio_count`   number of faces: `n` / `2n` / `1` / `2`
       * `sub_rects_ratio_area`    total area = `ratio · base · height`, in EVERY branch
       * `sub_rects_ratio_inside`  for `ratio ≤ 0.9702` every rectangle lies strictly between the
                                   left and right edge and in `[0, 0.99·H]` (≥ `0.01·H` for
                                   `ratio ≤ 0.9604` or in the several-rectangles branch)
       * `sub_rects_ratio_disjoint` pairwise separated by positive gaps
       * `sub_rects_ratio_congruent` all of the same width and height
       * `sub_rects_ratio_overflow`, `sub_rects_ratio_below`: where the code DEVIATES —
         `ratio > 0.98` with a target height above `0.98·H` makes the rectangles wider than their
         slots (they leave the parent and overlap); `ratio > 0.9702` in the single-rectangle
         branch puts the bottom edge below the parent.  The total area is still `ratio·B·H`.
       * `sub_rects_ratio_spec`    all of it about the model's output.
  B. `Face3D.sub_rects_from_rect_dimensions` (`Model.subRectsDims`): `sub_rects_dims_model`,
     `sub_rects_dims_count`, `sub_rects_dims_inside`, `sub_rects_dims_disjoint`,
     `sub_rects_dims_congruent`, `sub_rects_dims_spec` — for ALL positive parameters (no
     deviation); the faces are listed counter-clockwise from the UPPER RIGHT corner.
  C. `sub_faces_by_ratio_rectangle` on a rectangular parent: `ratio_rectangle_*`.
  D. `Polygon2D.offset` as a loop: `offset_*`.

  Assumed about `math`: the `sqrt` law, the `floor` laws (`floor x ≤ x < floor x + 1`, integer
  valued); for D the trigonometric hypotheses of `Props/C19.lean`.
-/
import LbgVerif.Model.SubRects
import LbgVerif.Lemmas.SubRects
import LbgVerif.Lemmas.OffsetLoop
import LbgVerif.Props.C02
import LbgVerif.Props.C06
import LbgVerif.Props.C19
import Mathlib.Tactic.Ring
import Mathlib.Tactic.FieldSimp
import Mathlib.Tactic.Linarith
import Mathlib.Tactic.Positivity
import Mathlib.Tactic.LinearCombination
import Mathlib.Tactic.SplitIfs
import Mathlib.Tactic.NormNum
import Mathlib.Algebra.Order.Field.Rat

set_option linter.unusedSectionVars false
set_option linter.unusedVariables false
set_option linter.unusedSimpArgs false

namespace Lbg.Props.C19b
open Lbg Lbg.Gen Lbg.Lemmas Lbg.Model
open Lbg.Props.C02 (PlaneValid OnPlane)
variable {α : Type} [Field α] [LinearOrder α] [IsStrictOrderedRing α]

/-! ## Predicates used in the statements -/

/-- The rectangle is non-degenerate and lies in the parent rectangle `[0, B] × [0, H]`. -/
def InsideParent (B H : α) (R : PRect α) : Prop :=
  0 ≤ R.u0 ∧ R.u0 < R.u1 ∧ R.u1 ≤ B ∧ 0 ≤ R.v0 ∧ R.v0 < R.v1 ∧ R.v1 ≤ H

/-- Two axis-parallel rectangles separated by a positive gap in one of the two directions. -/
def Apart (R S : PRect α) : Prop :=
  R.u1 < S.u0 ∨ S.u1 < R.u0 ∨ R.v1 < S.v0 ∨ S.v1 < R.v0

/-- Same width and same height (congruent axis-parallel rectangles). -/
def SameSize (R S : PRect α) : Prop :=
  R.u1 - R.u0 = S.u1 - S.u0 ∧ R.v1 - R.v0 = S.v1 - S.v0

/-- The standing assumptions about the plane and the `math` module. -/
structure Env (M : MathOps α) (pl : PlaneS α) : Prop where
  valid : PlaneValid pl
  sqrt : ∀ x, 0 ≤ x → M.sqrt x * M.sqrt x = x ∧ 0 ≤ M.sqrt x
  floor_le : ∀ x, M.floor x ≤ x ∧ x < M.floor x + 1
  floor_int : ∀ x, ∃ n : ℤ, M.floor x = n

/-! ## A. `sub_rects_from_rect_ratio` -/

/-- **Model = plan.**  For positive base, height, target height and separation and a
non-negative ratio, `num_div` is a natural number `n ≥ 1`, and for every fuel `≥ n` the model of
`sub_rects_from_rect_ratio` raises nothing and returns exactly the rectangles of `ratioPlan n`,
every face as the four plane points `(u0,v0), (u1,v0), (u1,v1), (u0,v1)` in this order. -/
theorem sub_rects_ratio_model (M : MathOps α) (pl : PlaneS α) (E : Env M pl)
    (B H r h0 s0 hs vs0 : α) (hB : 0 < B) (hH : 0 < H) (hr : 0 ≤ r) (hh0 : 0 < h0)
    (hhs : 0 < hs) :
    ∃ n : ℕ, 1 ≤ n ∧ ratioNumDiv M B hs = n ∧ ∀ fuel, n ≤ fuel →
      subRectsRatio M fuel pl B H r h0 s0 hs vs0 =
        .ok ((ratioPlan n B H r h0 s0 vs0).map (PRect.verts pl)) := by
  obtain ⟨n, hn, hnd⟩ := ratioNumDiv_nat M E.floor_le E.floor_int B hs hhs
  refine ⟨n, hn, hnd, fun fuel hf => ?_⟩
  rw [subRectsRatio_ok M E.sqrt pl E.valid.x_unit fuel n hn hf B H r h0 s0 hs vs0 hB hH hh0 hhs hnd,
    subRectsRatioCore_eq_plan M E.sqrt pl E.valid.x_unit (C06.plane_xy_roundtrip E.valid)
      fuel n hn hf B H r h0 s0 hs vs0 hB hH hr hh0 hnd]

/-- **Count.**  `n` faces (`2n` with a vertical split) in the several-rectangles branch, one face
(two with a split) in the single-rectangle branch. -/
theorem sub_rects_ratio_count (n : ℕ) (B H r h0 s0 vs0 : α) :
    (ratioPlan n B H r h0 s0 vs0).length =
      (if ratioSeveral B H r h0 then n else 1) *
        (if ratioVertSep B H r h0 s0 vs0 ≠ 0 then 2 else 1) := by
  unfold ratioPlan
  simp only []
  split_ifs <;> simp [rowRects_length] <;> omega

/-- **Total area = `ratio · base · height`**, exactly, in every branch (several / single, with or
without the vertical split, whatever the clamps did). -/
theorem sub_rects_ratio_area (n : ℕ) (hn : 1 ≤ n) (B H r h0 s0 vs0 : α)
    (hB : 0 < B) (hH : 0 < H) (hh0 : 0 < h0) :
    ((ratioPlan n B H r h0 s0 vs0).map PRect.area).sum = r * B * H := by
  have hn' : (n : α) ≠ 0 := by
    have : 0 < n := hn
    exact_mod_cast this.ne'
  have hB0 : B ≠ 0 := ne_of_gt hB
  unfold ratioPlan
  simp only []
  by_cases hb : ratioSeveral B H r h0
  · have hh : ratioRectH B H r h0 = ratioSubH H h0 := by unfold ratioRectH; rw [if_pos hb]
    have hpos : ratioSubH H h0 ≠ 0 := ne_of_gt (ratioSubH_pos hH hh0)
    rw [if_pos hb, hh]
    split_ifs
    · rw [List.map_append, List.sum_append, rowRects_area_sum, rowRects_area_sum]
      field_simp; ring
    · rw [rowRects_area_sum]
      field_simp; ring
  · rw [if_neg hb, ratioRectH_single hB hb]
    split_ifs
    · simp only [List.map_cons, List.map_nil, List.sum_cons, List.sum_nil, PRect.area]
      field_simp; ring
    · simp only [List.map_cons, List.map_nil, List.sum_cons, List.sum_nil, PRect.area]
      field_simp; ring

/-- Vertical position of every rectangle of the plan (any branch): above the sill, below
`0.99·H`, of positive height. -/
theorem ratio_plan_vertical (n : ℕ) (B H r h0 s0 vs0 : α)
    (hB : 0 < B) (hH : 0 < H) (hr : 0 < r) (hh0 : 0 < h0)
    {R : PRect α} (hR : R ∈ ratioPlan n B H r h0 s0 vs0) :
    ratioSill B H r h0 s0 ≤ R.v0 ∧ R.v0 < R.v1 ∧ R.v1 ≤ 99 / 100 * H := by
  have f1 := ratioRectH_pos hB hH hr hh0
  obtain ⟨f2, f5⟩ := ratioSill_le B H r h0 s0
  have f4 : ratioVertSep B H r h0 s0 vs0 ≠ 0 →
      0 < ratioVertSep B H r h0 s0 vs0 ∧
      ratioSill B H r h0 s0 + ratioRectH B H r h0 + ratioVertSep B H r h0 s0 vs0 ≤ 49 / 50 * H := by
    intro h
    obtain ⟨a, b⟩ := clampVertSep_pos (vs := vs0) h
    refine ⟨a, ?_⟩
    unfold ratioVertSep
    linarith
  unfold ratioPlan at hR
  simp only [] at hR
  split_ifs at hR with hb hv hv
  · obtain ⟨g1, g2⟩ := f4 hv
    rcases List.mem_append.mp hR with hR | hR
    · obtain ⟨i, _, rfl⟩ := rowRects_mem hR
      simp only []
      refine ⟨le_refl _, ?_, ?_⟩ <;> linarith
    · obtain ⟨i, _, rfl⟩ := rowRects_mem hR
      simp only []
      refine ⟨?_, ?_, ?_⟩ <;> linarith
  · obtain ⟨i, _, rfl⟩ := rowRects_mem hR
    simp only []
    refine ⟨le_refl _, ?_, ?_⟩ <;> linarith
  · obtain ⟨g1, g2⟩ := f4 hv
    simp only [List.mem_cons, List.not_mem_nil, or_false] at hR
    rcases hR with rfl | rfl
    · simp only []
      refine ⟨le_refl _, ?_, ?_⟩ <;> linarith
    · simp only []
      refine ⟨?_, ?_, ?_⟩ <;> linarith
  · simp only [List.mem_cons, List.not_mem_nil, or_false] at hR
    subst hR
    simp only []
    refine ⟨le_refl _, ?_, ?_⟩ <;> linarith

/-- Horizontal position: strictly between the left and the right edge, provided the total width
fits (`r < 0.98` or target height `≤ 0.98·H`; always in the single branch). -/
theorem ratio_plan_horizontal (n : ℕ) (hn : 1 ≤ n) (B H r h0 s0 vs0 : α)
    (hB : 0 < B) (hH : 0 < H) (hr : 0 < r) (hh0 : 0 < h0)
    (hc : r < 49 / 50 ∨ h0 ≤ 49 / 50 * H)
    {R : PRect α} (hR : R ∈ ratioPlan n B H r h0 s0 vs0) :
    0 < R.u0 ∧ R.u0 < R.u1 ∧ R.u1 < B := by
  have hn' : (0 : α) < n := by
    have : 0 < n := hn
    exact_mod_cast this
  unfold ratioPlan at hR
  simp only [] at hR
  by_cases hb : ratioSeveral B H r h0
  · have hh : ratioRectH B H r h0 = ratioSubH H h0 := by unfold ratioRectH; rw [if_pos hb]
    have hpos := ratioSubH_pos hH hh0
    have hw : 0 < B * H * r / ratioSubH H h0 / n := by positivity
    have hwn : B * H * r / ratioSubH H h0 / n * n < B := by
      rw [div_mul_cancel₀ _ (ne_of_gt hn')]
      exact ratio_total_width_lt hB hH hh0 hb hc
    rw [if_pos hb, hh] at hR
    have key : ∀ v0 v1, R ∈ rowRects n B (B * H * r / ratioSubH H h0 / n) v0 v1 →
        0 < R.u0 ∧ R.u0 < R.u1 ∧ R.u1 < B := by
      intro v0 v1 h
      obtain ⟨a, b, c, _, _⟩ := rowRects_inside hB hw hwn h
      exact ⟨a, by linarith, b⟩
    split_ifs at hR
    · rcases List.mem_append.mp hR with hR | hR <;> exact key _ _ hR
    · exact key _ _ hR
  · rw [if_neg hb] at hR
    split_ifs at hR
    · simp only [List.mem_cons, List.not_mem_nil, or_false] at hR
      rcases hR with rfl | rfl <;> (simp only []; refine ⟨?_, ?_, ?_⟩ <;> linarith)
    · simp only [List.mem_cons, List.not_mem_nil, or_false] at hR
      subst hR
      simp only []
      refine ⟨?_, ?_, ?_⟩ <;> linarith

/-- **Inside.**  For `0 < ratio ≤ 0.9702` every generated rectangle is non-degenerate and lies
inside the parent rectangle `[0, B] × [0, H]` — indeed strictly between the left and right edge
and below `0.99·H`; moreover at least `0.01·H` above the bottom edge in the several-rectangles
branch and whenever `ratio ≤ 0.9604`. -/
theorem sub_rects_ratio_inside (n : ℕ) (hn : 1 ≤ n) (B H r h0 s0 vs0 : α)
    (hB : 0 < B) (hH : 0 < H) (hr : 0 < r) (hr1 : r ≤ 4851 / 5000) (hh0 : 0 < h0)
    {R : PRect α} (hR : R ∈ ratioPlan n B H r h0 s0 vs0) :
    InsideParent B H R ∧ 0 < R.u0 ∧ R.u1 < B ∧ R.v1 ≤ 99 / 100 * H ∧
      (ratioSeveral B H r h0 ∨ r ≤ 2401 / 2500 → 1 / 100 * H ≤ R.v0) := by
  obtain ⟨a1, a2, a3⟩ := ratio_plan_vertical n B H r h0 s0 vs0 hB hH hr hh0 hR
  obtain ⟨b1, b2, b3⟩ := ratio_plan_horizontal n hn B H r h0 s0 vs0 hB hH hr hh0
    (Or.inl (by linarith)) hR
  obtain ⟨c1, c2⟩ := ratioSill_ge (s0 := s0) (h0 := h0) (r := r) hB hH
  have c3 := c2 hr1
  refine ⟨⟨b1.le, b2, b3.le, by linarith, a2, by linarith⟩, b1, b3, a3, fun h => ?_⟩
  have := c1 h
  linarith

/-- **Pairwise disjoint, with gaps.**  Under the same fitting condition any two generated
rectangles are separated by a positive gap: horizontally within a row, vertically between the
lower and the upper row of a vertical split. -/
theorem sub_rects_ratio_disjoint (n : ℕ) (hn : 1 ≤ n) (B H r h0 s0 vs0 : α)
    (hB : 0 < B) (hH : 0 < H) (hr : 0 < r) (hh0 : 0 < h0)
    (hc : r < 49 / 50 ∨ h0 ≤ 49 / 50 * H) :
    (ratioPlan n B H r h0 s0 vs0).Pairwise Apart := by
  have hn' : (0 : α) < n := by
    have : 0 < n := hn
    exact_mod_cast this
  have f1 := ratioRectH_pos hB hH hr hh0
  unfold ratioPlan
  simp only []
  by_cases hb : ratioSeveral B H r h0
  · have hh : ratioRectH B H r h0 = ratioSubH H h0 := by unfold ratioRectH; rw [if_pos hb]
    have hpos := ratioSubH_pos hH hh0
    have hwn : B * H * r / ratioSubH H h0 / n * n < B := by
      rw [div_mul_cancel₀ _ (ne_of_gt hn')]
      exact ratio_total_width_lt hB hH hh0 hb hc
    rw [if_pos hb]
    have row : ∀ v0 v1, (rowRects n B (B * H * r / ratioRectH B H r h0 / n) v0 v1).Pairwise Apart := by
      intro v0 v1
      rw [hh]
      exact (rowRects_pairwise_gap n B _ v0 v1 hB hwn).imp (fun h => Or.inl h)
    split_ifs with hv
    · obtain ⟨g1, _⟩ := clampVertSep_pos (vs := vs0) hv
      rw [List.pairwise_append]
      refine ⟨row _ _, row _ _, ?_⟩
      intro R hR S hS
      obtain ⟨i, _, rfl⟩ := rowRects_mem hR
      obtain ⟨j, _, rfl⟩ := rowRects_mem hS
      right; right; left
      simp only []
      unfold ratioVertSep
      linarith
    · exact row _ _
  · rw [if_neg hb]
    split_ifs with hv
    · obtain ⟨g1, _⟩ := clampVertSep_pos (vs := vs0) hv
      simp only [List.pairwise_cons, List.mem_cons, List.not_mem_nil, or_false, forall_eq,
        List.Pairwise.nil, and_true, IsEmpty.forall_iff, implies_true]
      right; right; left
      simp only []
      unfold ratioVertSep
      linarith
    · simp

/-- **Congruent.**  All generated rectangles have the same width and the same height. -/
theorem sub_rects_ratio_congruent (n : ℕ) (B H r h0 s0 vs0 : α)
    {R S : PRect α} (hR : R ∈ ratioPlan n B H r h0 s0 vs0)
    (hS : S ∈ ratioPlan n B H r h0 s0 vs0) : SameSize R S := by
  have key : ∀ w v0 v1 v0' v1' (R S : PRect α), v1 - v0 = v1' - v0' →
      R ∈ rowRects n B w v0 v1 → S ∈ rowRects n B w v0' v1' → SameSize R S := by
    intro w v0 v1 v0' v1' R S hv hR hS
    obtain ⟨i, _, rfl⟩ := rowRects_mem hR
    obtain ⟨j, _, rfl⟩ := rowRects_mem hS
    exact ⟨by simp only []; ring, by simp only []; exact hv⟩
  unfold ratioPlan at hR hS
  simp only [] at hR hS
  split_ifs at hR hS
  · rcases List.mem_append.mp hR with hR | hR <;> rcases List.mem_append.mp hS with hS | hS
    · exact key _ _ _ _ _ R S rfl hR hS
    · exact key _ _ _ _ _ R S (by ring) hR hS
    · exact key _ _ _ _ _ R S (by ring) hR hS
    · exact key _ _ _ _ _ R S rfl hR hS
  · exact key _ _ _ _ _ R S rfl hR hS
  · simp only [List.mem_cons, List.not_mem_nil, or_false] at hR hS
    rcases hR with rfl | rfl <;> rcases hS with rfl | rfl <;>
      exact ⟨by simp only [], by ring⟩
  · simp only [List.mem_cons, List.not_mem_nil, or_false] at hR hS
    subst hR; subst hS
    exact ⟨rfl, rfl⟩

/-- **Deviation 1 (several-rectangles branch).**  If `ratio > 0.98` and the requested height is
above `0.98·H` (and the branch test `H·r < 0.98·h0` holds), the rectangles are wider than their
slots `B / n`: the first one starts left of the parent's left edge (`u0 < 0`) — the
"inside the parent" clause fails although the total area is still `ratio·B·H`. -/
theorem sub_rects_ratio_overflow (n : ℕ) (hn : 1 ≤ n) (B H r h0 s0 vs0 : α)
    (hB : 0 < B) (hH : 0 < H) (hh0 : 49 / 50 * H < h0) (hr : 49 / 50 < r)
    (hb : ratioSeveral B H r h0) :
    ∃ R ∈ ratioPlan n B H r h0 s0 vs0, R.u0 < 0 := by
  have hn0 : 0 < n := hn
  have hn' : (0 : α) < n := by exact_mod_cast hn0
  have hh : ratioRectH B H r h0 = 49 / 50 * H := by
    unfold ratioRectH ratioSubH; rw [if_pos hb, if_pos hh0]
  have hw : B / n < B * H * r / (49 / 50 * H) / n := by
    apply div_lt_div_of_pos_right _ hn'
    rw [lt_div_iff₀ (by positivity)]
    have := mul_pos hB hH
    nlinarith
  have h0mem : ∀ v0 v1, (⟨((0 : ℕ) + 1 / 2 : α) * (B / n) - B * H * r / (49 / 50 * H) / n / 2,
      ((0 : ℕ) + 1 / 2 : α) * (B / n) + B * H * r / (49 / 50 * H) / n / 2, v0, v1⟩ : PRect α) ∈
      rowRects n B (B * H * r / (49 / 50 * H) / n) v0 v1 := by
    intro v0 v1
    unfold rowRects
    exact List.mem_map.mpr ⟨0, List.mem_range.mpr hn0, rfl⟩
  unfold ratioPlan
  simp only []
  rw [if_pos hb, hh]
  split_ifs
  · exact ⟨_, List.mem_append_left _ (h0mem _ _), by simp only [Nat.cast_zero]; linarith⟩
  · exact ⟨_, h0mem _ _, by simp only [Nat.cast_zero]; linarith⟩

/-- **Deviation 2 (single-rectangle branch).**  If `ratio > 0.9702 = 0.98·0.99` the single wide
rectangle (height `H·r/0.98`) is placed with its bottom edge BELOW the parent (`v0 < 0`). -/
theorem sub_rects_ratio_below (n : ℕ) (B H r h0 s0 vs0 : α)
    (hB : 0 < B) (hH : 0 < H) (hr : 4851 / 5000 < r) (hb : ¬ ratioSeveral B H r h0) :
    ∃ R ∈ ratioPlan n B H r h0 s0 vs0, R.v0 < 0 := by
  have hs : ratioSill B H r h0 s0 < 0 := by
    have h1 : H * (99 / 100) - ratioRectH B H r h0 < 0 := by
      rw [ratioRectH_single hB hb, sub_neg, lt_div_iff₀ (by norm_num)]
      nlinarith
    have h2 := ratioSill0_ge H s0
    unfold ratioSill
    rw [if_neg (by linarith)]
    exact h1
  unfold ratioPlan
  simp only []
  rw [if_neg hb]
  split_ifs
  · exact ⟨_, List.mem_cons_self, hs⟩
  · exact ⟨_, List.mem_cons_self, hs⟩

/-- **`sub_rects_from_rect_ratio`, everything about the model's output.**  For a valid plane,
positive base / height / target height / separation and `0 < ratio ≤ 0.9702`, the model returns
`Ok` of a list of faces that are axis-parallel rectangles of the base plane (vertices are plane
points, listed counter-clockwise from the lower left corner, all ON the plane), non-degenerate
and inside the parent rectangle, pairwise separated by positive gaps, all congruent, with total
area exactly `ratio · base · height`. -/
theorem sub_rects_ratio_spec (M : MathOps α) (pl : PlaneS α) (E : Env M pl)
    (B H r h0 s0 hs vs0 : α) (hB : 0 < B) (hH : 0 < H) (hr : 0 < r) (hr1 : r ≤ 4851 / 5000)
    (hh0 : 0 < h0) (hhs : 0 < hs) :
    ∃ n : ℕ, 1 ≤ n ∧ ratioNumDiv M B hs = n ∧ ∃ rects : List (PRect α),
      (∀ fuel, n ≤ fuel →
        subRectsRatio M fuel pl B H r h0 s0 hs vs0 = .ok (rects.map (PRect.verts pl))) ∧
      (rects.length = n ∨ rects.length = 2 * n ∨ rects.length = 1 ∨ rects.length = 2) ∧
      (∀ R ∈ rects, InsideParent B H R) ∧
      rects.Pairwise Apart ∧
      (∀ R ∈ rects, ∀ S ∈ rects, SameSize R S) ∧
      (rects.map PRect.area).sum = r * B * H ∧
      (∀ R ∈ rects, ∀ p ∈ PRect.verts pl R, OnPlane pl p) := by
  obtain ⟨n, hn, hnd, hm⟩ := sub_rects_ratio_model M pl E B H r h0 s0 hs vs0 hB hH hr.le hh0 hhs
  refine ⟨n, hn, hnd, ratioPlan n B H r h0 s0 vs0, hm, ?_, ?_, ?_, ?_, ?_, ?_⟩
  · rw [sub_rects_ratio_count]
    split_ifs <;> simp <;> omega
  · intro R hR
    exact (sub_rects_ratio_inside n hn B H r h0 s0 vs0 hB hH hr hr1 hh0 hR).1
  · exact sub_rects_ratio_disjoint n hn B H r h0 s0 vs0 hB hH hr hh0 (Or.inl (by linarith))
  · intro R hR S hS
    exact sub_rects_ratio_congruent n B H r h0 s0 vs0 hR hS
  · exact sub_rects_ratio_area n hn B H r h0 s0 vs0 hB hH hh0
  · intro R _ p hp
    simp only [PRect.verts, List.mem_cons, List.not_mem_nil, or_false] at hp
    rcases hp with rfl | rfl | rfl | rfl <;> exact C06.plane_xy_to_xyz_on_plane E.valid _

/-! ## B. `sub_rects_from_rect_dimensions` -/

/-- The spacing `div_dist` between the centre lines of neighbouring rectangles. -/
def dimsDivDist (M : MathOps α) (B w0 hs0 : α) : α :=
  if dimsNumDiv0 M B (dimsHorizSep w0 hs0) = 1 then B / 2 else dimsHorizSep w0 hs0

/-- **Model = plan.**  For positive base, height, target height and target width (ANY sill and
ANY separation, also `0` or negative: the code replaces a separation `≤ width` by
`1.02·width`), the model of `sub_rects_from_rect_dimensions` raises nothing and returns the
rectangles of `dimsPlan`, every face as the four plane points
`(u1,v1), (u0,v1), (u0,v0), (u1,v0)` — counter-clockwise from the upper right corner.  In the
several-rectangles branch (`w < B/2`) `n` is the final `num_div ≥ 1` and the rectangles fit:
`(n − 1)·div_dist + w ≤ B`. -/
theorem sub_rects_dims_model (M : MathOps α) (pl : PlaneS α) (E : Env M pl)
    (B H h0 w0 s0 hs0 : α) (hB : 0 < B) (hH : 0 < H) (hh0 : 0 < h0) (hw0 : 0 < w0) :
    ∃ n : ℕ, 1 ≤ n ∧
      (w0 < B / 2 → dimsNumDiv M B w0 (dimsHorizSep w0 hs0) = n ∧
        ((n : α) - 1) * dimsDivDist M B w0 hs0 + w0 ≤ B) ∧
      ∀ fuel, n ≤ fuel → subRectsDims M fuel pl B H h0 w0 s0 hs0 =
        .ok ((dimsPlan M n B H h0 w0 s0 hs0).map (PRect.vertsUR pl)) := by
  have hhs := dimsHorizSep_gt w0 hs0 hw0
  by_cases hw : w0 < B / 2
  · obtain ⟨n, hn, hnd, hfit⟩ := dimsNumDiv_nat M E.floor_le E.floor_int B w0 _ hw0 hhs hw
    refine ⟨n, hn, fun _ => ⟨hnd, hfit⟩, fun fuel hf => ?_⟩
    rw [subRectsDims_ok M E.sqrt pl E.valid.x_unit fuel B H h0 w0 s0 hs0 hB hw0
        (fun _ => by rw [hnd]; exact_mod_cast hn),
      subRectsDimsCore_eq_plan M E.sqrt pl E.valid.x_unit (C06.plane_xy_roundtrip E.valid)
        fuel n hn hf B H h0 w0 s0 hs0 hB hH hh0 hw0 (fun _ => hnd)]
  · refine ⟨1, le_refl _, fun h => absurd h hw, fun fuel hf => ?_⟩
    rw [subRectsDims_ok M E.sqrt pl E.valid.x_unit fuel B H h0 w0 s0 hs0 hB hw0
        (fun h => absurd h hw),
      subRectsDimsCore_eq_plan M E.sqrt pl E.valid.x_unit (C06.plane_xy_roundtrip E.valid)
        fuel 1 (le_refl _) hf B H h0 w0 s0 hs0 hB hH hh0 hw0 (fun h => absurd h hw)]

/-- **Count.**  `num_div` faces when `w < B/2`, otherwise one. -/
theorem sub_rects_dims_count (M : MathOps α) (n : ℕ) (B H h0 w0 s0 hs0 : α) :
    (dimsPlan M n B H h0 w0 s0 hs0).length = if w0 < B / 2 then n else 1 := by
  unfold dimsPlan
  simp only []
  by_cases hw : w0 < B / 2
  · simp [if_pos hw]
  · simp [if_neg hw]

/-- Membership in the plan, spelled out. -/
theorem dims_plan_mem (M : MathOps α) (n : ℕ) (B H h0 w0 s0 hs0 : α) {R : PRect α}
    (hR : R ∈ dimsPlan M n B H h0 w0 s0 hs0) :
    R.v0 = dimsSill H h0 s0 ∧ R.v1 = dimsSill H h0 s0 + dimsH H h0 ∧
      ((w0 < B / 2 ∧ ∃ i : ℕ, i < n ∧
          R.u0 = B / 2 - dimsDivDist M B w0 hs0 * n / 2 + ((i : α) + 1 / 2) * dimsDivDist M B w0 hs0
            - w0 / 2 ∧
          R.u1 = B / 2 - dimsDivDist M B w0 hs0 * n / 2 + ((i : α) + 1 / 2) * dimsDivDist M B w0 hs0
            + w0 / 2) ∨
       (¬ w0 < B / 2 ∧ R.u0 = B / 2 - (if w0 ≥ B then B * (49 / 50) else w0) / 2 ∧
          R.u1 = B / 2 + (if w0 ≥ B then B * (49 / 50) else w0) / 2)) := by
  unfold dimsPlan at hR
  simp only [] at hR
  by_cases hw : w0 < B / 2
  · rw [if_pos hw] at hR
    obtain ⟨i, hi, rfl⟩ := List.mem_map.mp hR
    exact ⟨rfl, rfl, Or.inl ⟨hw, i, List.mem_range.mp hi, rfl, rfl⟩⟩
  · rw [if_neg hw] at hR
    simp only [List.mem_cons, List.not_mem_nil, or_false] at hR
    subst hR
    exact ⟨rfl, rfl, Or.inr ⟨hw, rfl, rfl⟩⟩

/-- **Inside.**  Every generated rectangle is non-degenerate and lies inside the parent
rectangle, at least `0.01·H` above its bottom edge — for ALL positive parameters. -/
theorem sub_rects_dims_inside (M : MathOps α) (n : ℕ) (B H h0 w0 s0 hs0 : α)
    (hB : 0 < B) (hH : 0 < H) (hh0 : 0 < h0) (hw0 : 0 < w0)
    (hfit : w0 < B / 2 → 1 ≤ n ∧ ((n : α) - 1) * dimsDivDist M B w0 hs0 + w0 ≤ B)
    {R : PRect α} (hR : R ∈ dimsPlan M n B H h0 w0 s0 hs0) :
    InsideParent B H R ∧ 1 / 100 * H ≤ R.v0 := by
  obtain ⟨e0, e1, hu⟩ := dims_plan_mem M n B H h0 w0 s0 hs0 hR
  obtain ⟨a2, a1, a3⟩ := dims_vertical s0 hH hh0
  have hdd : w0 < dimsDivDist M B w0 hs0 → 0 < dimsDivDist M B w0 hs0 := fun h => by linarith
  rcases hu with ⟨hw, i, hi, eu0, eu1⟩ | ⟨hw, eu0, eu1⟩
  · obtain ⟨hn, hf⟩ := hfit hw
    have hddw : w0 < dimsDivDist M B w0 hs0 := by
      unfold dimsDivDist; split_ifs
      · exact hw
      · exact dimsHorizSep_gt w0 hs0 hw0
    have hd0 := hdd hddw
    have hi' : (i : α) + 1 ≤ n := by exact_mod_cast hi
    have hi0 : (0 : α) ≤ i := Nat.cast_nonneg i
    refine ⟨⟨?_, ?_, ?_, ?_, ?_, ?_⟩, ?_⟩
    · rw [eu0]; nlinarith
    · rw [eu0, eu1]; linarith
    · rw [eu1]; nlinarith
    · rw [e0]; linarith
    · rw [e0, e1]; linarith
    · rw [e1]; exact a3
    · rw [e0]; exact a1
  · have hwpos : 0 < (if w0 ≥ B then B * (49 / 50) else w0) ∧
        (if w0 ≥ B then B * (49 / 50) else w0) < B := by
      split_ifs with h
      · constructor <;> linarith
      · exact ⟨hw0, not_le.mp h⟩
    refine ⟨⟨?_, ?_, ?_, ?_, ?_, ?_⟩, ?_⟩
    · rw [eu0]; linarith
    · rw [eu0, eu1]; linarith
    · rw [eu1]; linarith
    · rw [e0]; linarith
    · rw [e0, e1]; linarith
    · rw [e1]; exact a3
    · rw [e0]; exact a1

/-- **Pairwise disjoint, with gaps.**  Neighbouring rectangles are `div_dist − w > 0` apart
(`div_dist` is the separation, which the code forces above the width, or `B/2 > w`). -/
theorem sub_rects_dims_disjoint (M : MathOps α) (n : ℕ) (B H h0 w0 s0 hs0 : α) (hw0 : 0 < w0) :
    (dimsPlan M n B H h0 w0 s0 hs0).Pairwise Apart := by
  unfold dimsPlan
  simp only []
  by_cases hw : w0 < B / 2
  · rw [if_pos hw]
    have hddw : w0 < (if dimsNumDiv0 M B (dimsHorizSep w0 hs0) = 1 then B / 2
        else dimsHorizSep w0 hs0) := by
      split_ifs
      · exact hw
      · exact dimsHorizSep_gt w0 hs0 hw0
    generalize (if dimsNumDiv0 M B (dimsHorizSep w0 hs0) = 1 then B / 2
        else dimsHorizSep w0 hs0) = dd at hddw
    rw [List.pairwise_map]
    apply List.Pairwise.imp_of_mem _ List.pairwise_lt_range
    intro i j _ _ hij
    have hij' : (i : α) + 1 ≤ j := by exact_mod_cast hij
    left
    simp only []
    nlinarith
  · rw [if_neg hw]
    simp

/-- **Congruent.**  All generated rectangles have the same width and height. -/
theorem sub_rects_dims_congruent (M : MathOps α) (n : ℕ) (B H h0 w0 s0 hs0 : α)
    {R S : PRect α} (hR : R ∈ dimsPlan M n B H h0 w0 s0 hs0)
    (hS : S ∈ dimsPlan M n B H h0 w0 s0 hs0) : SameSize R S := by
  unfold dimsPlan at hR hS
  simp only [] at hR hS
  by_cases hw : w0 < B / 2
  · rw [if_pos hw] at hR hS
    obtain ⟨i, _, rfl⟩ := List.mem_map.mp hR
    obtain ⟨j, _, rfl⟩ := List.mem_map.mp hS
    exact ⟨by simp only []; ring, rfl⟩
  · rw [if_neg hw] at hR hS
    simp only [List.mem_cons, List.not_mem_nil, or_false] at hR hS
    subst hR; subst hS
    exact ⟨rfl, rfl⟩

/-- Width of every rectangle: the requested width when it is below the base, `0.98·B`
otherwise; height: the requested height clamped to `0.98·H`. -/
theorem sub_rects_dims_size (M : MathOps α) (n : ℕ) (B H h0 w0 s0 hs0 : α)
    {R : PRect α} (hR : R ∈ dimsPlan M n B H h0 w0 s0 hs0) :
    R.u1 - R.u0 = (if w0 ≥ B ∧ ¬ w0 < B / 2 then B * (49 / 50) else w0) ∧
    R.v1 - R.v0 = dimsH H h0 := by
  unfold dimsPlan at hR
  simp only [] at hR
  by_cases hw : w0 < B / 2
  · rw [if_pos hw] at hR
    obtain ⟨i, _, rfl⟩ := List.mem_map.mp hR
    have e : (if w0 ≥ B ∧ ¬ w0 < B / 2 then B * (49 / 50) else w0) = w0 :=
      if_neg (fun h => h.2 hw)
    refine ⟨?_, by simp only []; ring⟩
    rw [e]
    simp only []; ring
  · rw [if_neg hw] at hR
    simp only [List.mem_cons, List.not_mem_nil, or_false] at hR
    subst hR
    refine ⟨?_, by simp only []; ring⟩
    simp only [hw, not_false_eq_true, and_true]
    split_ifs <;> ring

/-- **`sub_rects_from_rect_dimensions`, everything about the model's output**, for a valid plane
and ALL positive base / height / target height / target width (any sill, any separation): `Ok`
of axis-parallel rectangles of the base plane (counter-clockwise from the upper right corner,
all vertices on the plane), inside the parent rectangle, pairwise separated by positive gaps,
all congruent, `num_div` of them (one if `w ≥ B/2`). -/
theorem sub_rects_dims_spec (M : MathOps α) (pl : PlaneS α) (E : Env M pl)
    (B H h0 w0 s0 hs0 : α) (hB : 0 < B) (hH : 0 < H) (hh0 : 0 < h0) (hw0 : 0 < w0) :
    ∃ n : ℕ, 1 ≤ n ∧ ∃ rects : List (PRect α),
      (∀ fuel, n ≤ fuel →
        subRectsDims M fuel pl B H h0 w0 s0 hs0 = .ok (rects.map (PRect.vertsUR pl))) ∧
      rects.length = (if w0 < B / 2 then n else 1) ∧
      (w0 < B / 2 → dimsNumDiv M B w0 (dimsHorizSep w0 hs0) = n) ∧
      (∀ R ∈ rects, InsideParent B H R) ∧
      rects.Pairwise Apart ∧
      (∀ R ∈ rects, ∀ S ∈ rects, SameSize R S) ∧
      (∀ R ∈ rects, ∀ p ∈ PRect.vertsUR pl R, OnPlane pl p) := by
  obtain ⟨n, hn, hfit, hm⟩ := sub_rects_dims_model M pl E B H h0 w0 s0 hs0 hB hH hh0 hw0
  refine ⟨n, hn, dimsPlan M n B H h0 w0 s0 hs0, hm, sub_rects_dims_count M n B H h0 w0 s0 hs0,
    fun h => (hfit h).1, ?_, sub_rects_dims_disjoint M n B H h0 w0 s0 hs0 hw0, ?_, ?_⟩
  · intro R hR
    exact (sub_rects_dims_inside M n B H h0 w0 s0 hs0 hB hH hh0 hw0
      (fun h => ⟨hn, (hfit h).2⟩) hR).1
  · intro R hR S hS
    exact sub_rects_dims_congruent M n B H h0 w0 s0 hs0 hR hS
  · intro R _ p hp
    simp only [PRect.vertsUR, List.mem_cons, List.not_mem_nil, or_false] at hp
    rcases hp with rfl | rfl | rfl | rfl <;> exact C06.plane_xy_to_xyz_on_plane E.valid _

/-! ## C. `sub_faces_by_ratio_rectangle` on a rectangular parent -/

/-- Whenever the model of `sub_faces_by_ratio_rectangle` answers (parent with a horizontal bottom
and top edge, no left-over faces), the answer is ONE face: the extracted rectangle
`rect = Face3D((close_pt_2, close_pt_4, close_pt_3, close_pt_1), plane)` scaled by `sqrt ratio`
about the centre `c` of its bounding box.  Hence (for `0 ≤ ratio`) its Newell vector — normal
direction × doubled area — is exactly `ratio ·` that of the rectangle, it has the same number of
vertices, and every vertex is the convex combination `(1 − s)·c + s·v` (`s = sqrt ratio`) of the
centre and the corresponding rectangle vertex, so for `ratio ≤ 1` it stays in every half-space
(in particular: in the parent plane and inside every edge of the rectangle) that contains the
rectangle's vertices and `c` (`C19.scale_about_point_inside_convex3`). -/
theorem ratio_rectangle_spec (M : MathOps α)
    (hsqrt : ∀ x, 0 ≤ x → M.sqrt x * M.sqrt x = x ∧ 0 ≤ M.sqrt x)
    (pl : PlaneS α) (vs : List (V3 α)) (ratio tol : α) (hr : 0 ≤ ratio)
    (fs : List (List (V3 α))) (h : subFacesRatioRectangle M pl vs ratio tol = some fs) :
    ∃ e1 e2 : LR3 α, topBottomHorizontalEdges vs tol = some (e1, e2) ∧
      ∃ rect : List (V3 α),
        rect = faceInit pl [(rectanglePoints e1 e2).2.1,
          seg3_p2 (seg3_from_end_points (rectanglePoints e1 e2).2.1 (rectanglePoints e1 e2).2.2.2),
          seg3_p2 (seg3_from_end_points (rectanglePoints e1 e2).1 (rectanglePoints e1 e2).2.2.1),
          (rectanglePoints e1 e2).1] ∧
        fs = [rect.map (fun p => p3_scale p (M.sqrt ratio) (bboxCenter rect))] ∧
        rect.length = 4 ∧
        newell (rect.map (fun p => p3_scale p (M.sqrt ratio) (bboxCenter rect))) =
          V3.smul ratio (newell rect) ∧
        ∀ p ∈ rect, p3_scale p (M.sqrt ratio) (bboxCenter rect) =
          ⟨(1 - M.sqrt ratio) * (bboxCenter rect).x + M.sqrt ratio * p.x,
           (1 - M.sqrt ratio) * (bboxCenter rect).y + M.sqrt ratio * p.y,
           (1 - M.sqrt ratio) * (bboxCenter rect).z + M.sqrt ratio * p.z⟩ := by
  unfold subFacesRatioRectangle at h
  split_ifs at h with h0
  cases hte : topBottomHorizontalEdges vs tol with
  | none => rw [hte] at h; simp at h
  | some e =>
    obtain ⟨e1, e2⟩ := e
    rw [hte] at h
    simp only [] at h
    split_ifs at h with h1 h2
    simp only [Option.some.injEq] at h
    refine ⟨e1, e2, rfl, _, rfl, ?_, ?_, C19.ratio_area_3d M hsqrt _ _ ratio hr,
      fun p _ => C19.p3_scale_convex_comb p _ _⟩
    · rw [← h]; rfl
    · unfold faceInit; split_ifs <;> simp

/-- Non-vacuity: the wall `4 × 3` in the plane `y = 0` (normal `−y`), ratio `1/4`: the model
answers the centred `2 × 1.5` rectangle — what the real code returns. -/
example :
    let Mq : MathOps ℚ := ⟨fun x => if x = 1 / 4 then 1 / 2 else 0, id, id, id, id, id,
      fun _ _ => 0, 0, id⟩
    subFacesRatioRectangle Mq (⟨⟨0, -1, 0⟩, ⟨0, 0, 0⟩, 0, ⟨1, 0, 0⟩, ⟨0, 0, 1⟩⟩ : PlaneS ℚ)
      [⟨0, 0, 0⟩, ⟨4, 0, 0⟩, ⟨4, 0, 3⟩, ⟨0, 0, 3⟩] (1 / 4) (1 / 100) =
      some [[⟨1, 0, 3 / 4⟩, ⟨3, 0, 3 / 4⟩, ⟨3, 0, 9 / 4⟩, ⟨1, 0, 9 / 4⟩]] := by
  decide +kernel

/-! ## D. `Polygon2D.offset` as a loop -/

/-- `distance == 0`: the polygon itself is returned. -/
theorem offset_zero (M : MathOps α) (vs : List (V2 α)) : polygonOffset M vs 0 = vs := by
  unfold polygonOffset; rw [if_pos rfl]

/-- **Vertex-wise form, counter-clockwise input.**  For a loop without repeated neighbours, at
least 3 vertices, not clockwise, and `distance ≠ 0`: output vertex `i` is
`Model.offsetVertex M false d v[i-1] v[i] v[i+1]` =
`v[i].move(Model.offsetMoveVec M false (v[i-1] − v[i]) ang d)` — exactly the function the
per-vertex theorems `C19.offset_move_vec_ccw`, `C19.moved_vertex_offset` speak about; the
triples are in the order of the input and the `i`-th triple is centred at `v[i]`
(`Lemmas.cyclicTriples_map_mid`). -/
theorem offset_vertexwise_ccw (M : MathOps α) (vs : List (V2 α)) (d : α) (hd : d ≠ 0)
    (hnr : NoRepeat vs) (h3 : 3 ≤ vs.length) (hcw : polygon2d_is_clockwise vs = false) :
    polygonOffset M vs d =
      (cyclicTriples vs).map (fun t => offsetVertex M false d t.1 t.2.1 t.2.2) := by
  unfold polygonOffset
  rw [if_neg hd]
  simp only [hcw, Bool.false_eq_true, not_false_eq_true, if_true, if_false,
    dropRepeated_of_noRepeat hnr]
  rw [if_neg (by omega)]

/-- **Vertex-wise form, clockwise input**: the loop runs over the reversed (counter-clockwise)
list with the clockwise formula, and the result is reversed back. -/
theorem offset_vertexwise_cw (M : MathOps α) (vs : List (V2 α)) (d : α) (hd : d ≠ 0)
    (hnr : NoRepeat vs) (h3 : 3 ≤ vs.length) (hcw : polygon2d_is_clockwise vs = true) :
    polygonOffset M vs d =
      ((cyclicTriples vs.reverse).map (fun t => offsetVertex M true d t.1 t.2.1 t.2.2)).reverse := by
  unfold polygonOffset
  rw [if_neg hd]
  simp only [hcw, not_true_eq_false, if_false, if_true, dropRepeated_of_noRepeat hnr.reverse,
    List.length_reverse]
  rw [if_neg (by omega)]

/-- **Same vertex count**: for a loop without repeated neighbours the offset polygon has as many
vertices as the input, in every branch (`distance = 0`, degenerate loop, either winding). -/
theorem offset_length (M : MathOps α) (vs : List (V2 α)) (d : α) (hnr : NoRepeat vs) :
    (polygonOffset M vs d).length = vs.length := by
  by_cases hd : d = 0
  · rw [hd, offset_zero]
  by_cases h3 : 3 ≤ vs.length
  · cases hcw : polygon2d_is_clockwise vs with
    | false =>
      rw [offset_vertexwise_ccw M vs d hd hnr h3 hcw, List.length_map, cyclicTriples_length]
    | true =>
      rw [offset_vertexwise_cw M vs d hd hnr h3 hcw, List.length_reverse, List.length_map,
        cyclicTriples_length, List.length_reverse]
  · unfold polygonOffset
    rw [if_neg hd]
    simp only []
    have e : (dropRepeated (if ¬ (polygon2d_is_clockwise vs = true) then vs else vs.reverse)).length
        = vs.length := by
      split_ifs
      · rw [dropRepeated_of_noRepeat hnr.reverse, List.length_reverse]
      · rw [dropRepeated_of_noRepeat hnr]
    rw [if_pos (by rw [e]; omega)]

/-- The `i`-th output vertex is the offset of the `i`-th input vertex: the centres of the
triples the loop body is applied to are the input vertices, in order. -/
theorem offset_centres (vs : List (V2 α)) : (cyclicTriples vs).map (fun t => t.2.1) = vs :=
  cyclicTriples_map_mid vs

/-- **Start-vertex invariance**: rotating the input list rotates the output list by the same
amount (loops without repeated neighbours; all branches). -/
theorem offset_rotate (M : MathOps α) (vs : List (V2 α)) (d : α) (k : ℕ) (hnr : NoRepeat vs) :
    polygonOffset M (vs.rotate k) d = (polygonOffset M vs d).rotate k := by
  by_cases hd : d = 0
  · rw [hd, offset_zero, offset_zero]
  by_cases h3 : 3 ≤ vs.length
  · have h3' : 3 ≤ (vs.rotate k).length := by rw [List.length_rotate]; exact h3
    cases hcw : polygon2d_is_clockwise vs with
    | false =>
      rw [offset_vertexwise_ccw M vs d hd hnr h3 hcw,
        offset_vertexwise_ccw M _ d hd (hnr.rotate k) h3' (by rw [is_clockwise_rotate]; exact hcw),
        cyclicTriples_rotate, List.map_rotate]
    | true =>
      rw [offset_vertexwise_cw M vs d hd hnr h3 hcw,
        offset_vertexwise_cw M _ d hd (hnr.rotate k) h3' (by rw [is_clockwise_rotate]; exact hcw),
        List.reverse_rotate, cyclicTriples_rotate, List.map_rotate]
      apply rotate_reverse_roundtrip
      rw [List.length_map, cyclicTriples_length, List.length_reverse]
  · have e : ∀ l : List (V2 α), NoRepeat l → ¬ 3 ≤ l.length → polygonOffset M l d = l := by
      intro l hl h3l
      unfold polygonOffset
      rw [if_neg hd]
      simp only []
      have e : (dropRepeated (if ¬ (polygon2d_is_clockwise l = true) then l else l.reverse)).length
          = l.length := by
        split_ifs
        · rw [dropRepeated_of_noRepeat hl.reverse, List.length_reverse]
        · rw [dropRepeated_of_noRepeat hl]
      rw [if_pos (by rw [e]; omega)]
    rw [e vs hnr h3, e _ (hnr.rotate k) (by rw [List.length_rotate]; exact h3)]

/-- **Offset edges are parallel, at distance `d`** (counter-clockwise loop).  Let `a, p, q` be
consecutive vertices, `e = q − p` the edge, and let the two passes of the loop use the half
angles `angp` (at `p`) and `angq` (at `q`).  Under the `sqrt` law, `cos² + sin² = 1`, the parity
of `cos`/`sin` and `sin ≠ 0` at both half angles, and the meaning of the half angle at `p`
(`q − p` is `k > 0` times `a − p` rotated clockwise by `2·angp` — what
`angle_clockwise(v1, v2) / 2` provides), the moved edge `e' = (q + m_q) − (p + m_p)` is PARALLEL
to `e` (`det e e' = 0`) and both moved end points are at signed distance `d` from the line of
`e`, measured along its inward (left) normal `N = (−e.y, e.x)`: `N·m_p = N·m_q = d·|e|`. -/
theorem offset_edge_parallel (M : MathOps α)
    (hsqrt : ∀ x, 0 ≤ x → M.sqrt x * M.sqrt x = x ∧ 0 ≤ M.sqrt x)
    (a p q : V2 α) (angp angq d k : α)
    (hap : (v2Sub a p).x * (v2Sub a p).x + (v2Sub a p).y * (v2Sub a p).y ≠ 0)
    (hpq : (v2Sub p q).x * (v2Sub p q).x + (v2Sub p q).y * (v2Sub p q).y ≠ 0)
    (hcsp : M.cos angp * M.cos angp + M.sin angp * M.sin angp = 1)
    (hcnp : M.cos (-angp) = M.cos angp) (hsnp : M.sin (-angp) = - M.sin angp)
    (hsp : M.sin angp ≠ 0)
    (hcsq : M.cos angq * M.cos angq + M.sin angq * M.sin angq = 1)
    (hcnq : M.cos (-angq) = M.cos angq) (hsnq : M.sin (-angq) = - M.sin angq)
    (hsq : M.sin angq ≠ 0)
    (hk : 0 < k)
    (hrot : v2Sub q p =
      V2.smul k (v2_rotate M (v2_rotate M (v2Sub a p) (-angp)) (-angp))) :
    let mp := offsetMoveVec M false (v2Sub a p) angp d
    let mq := offsetMoveVec M false (v2Sub p q) angq d
    let e := v2Sub q p
    let e' := v2Sub (p2_move q mq) (p2_move p mp)
    V2.det e e' = 0 ∧
    V2.dot ⟨-e.y, e.x⟩ mp = d * M.sqrt (e.x * e.x + e.y * e.y) ∧
    V2.dot ⟨-e.y, e.x⟩ mq = d * M.sqrt (e.x * e.x + e.y * e.y) := by
  intro mp mq e e'
  obtain ⟨_, hp2, hp3⟩ := C19.offset_move_vec_ccw M hsqrt (v2Sub a p) hap angp d k hcsp hcnp hsnp hsp
  obtain ⟨hq1, _, _⟩ := C19.offset_move_vec_ccw M hsqrt (v2Sub p q) hpq angq d 1 hcsq hcnq hsnq hsq
  rw [← hrot] at hp2 hp3
  obtain ⟨_, hrp⟩ := v2_len_pos M hsqrt (v2Sub a p) hap
  -- |e| computed at q and k·|a − p| are equal: both non-negative with the same square
  have hN : (v2Sub p q).x * (v2Sub p q).x + (v2Sub p q).y * (v2Sub p q).y =
      e.x * e.x + e.y * e.y := by
    simp only [e, v2Sub]; ring
  have hL : k * M.sqrt ((v2Sub a p).x * (v2Sub a p).x + (v2Sub a p).y * (v2Sub a p).y) =
      M.sqrt (e.x * e.x + e.y * e.y) := by
    symm
    apply sqrt_unique M hsqrt (mul_nonneg hk.le hrp.le)
    simp only [V2.normSq] at hp3
    simp only [e]
    linarith [hp3]
  have h1 : V2.dot ⟨-e.y, e.x⟩ mp = d * M.sqrt (e.x * e.x + e.y * e.y) := by
    rw [← hL]; exact hp2
  have h2 : V2.dot ⟨-e.y, e.x⟩ mq = d * M.sqrt (e.x * e.x + e.y * e.y) := by
    rw [← hN]
    have : (⟨-e.y, e.x⟩ : V2 α) = v2_cross (v2Sub p q) := by
      simp only [e, v2_cross, v2Sub]; ext <;> simp only [] <;> ring
    rw [this]; exact hq1
  refine ⟨?_, h1, h2⟩
  simp only [V2.dot] at h1 h2
  simp only [V2.det, e', e, v2Sub, p2_move] at *
  linear_combination h2 - h1

/-- Non-vacuity of the loop at ℚ: the unit-free square `8 × 8` with a `MathOps` whose `acos`,
`sin`, `cos` take the exact values needed at the right angle (`acos 0 = π/2 ≙ 2`, half angle
`1`, `sin 1 = cos 1 = cos(−1) = −sin(−1) = 1/√2` replaced by the rational point `(3/5, 4/5)` of
the unit circle to stay in ℚ): same length, centred triples, rotation invariance are theorems;
here the duplicate filter, the winding branch and the degenerate branch are exercised. -/
example :
    let Mq : MathOps ℚ := ⟨fun x => x, fun _ => 4 / 5, fun _ => 3 / 5, id, fun _ => 2, id,
      fun _ _ => 0, 4, id⟩
    (polygonOffset Mq [⟨0, 0⟩, ⟨8, 0⟩, ⟨8, 0⟩, ⟨8, 8⟩, ⟨0, 8⟩] 1).length = 4 ∧
    polygonOffset Mq [⟨0, 0⟩, ⟨8, 0⟩, ⟨8, 0⟩, ⟨0, 0⟩] 1 = [⟨0, 0⟩, ⟨8, 0⟩, ⟨8, 0⟩, ⟨0, 0⟩] ∧
    polygonOffset Mq [⟨0, 0⟩, ⟨8, 0⟩, ⟨8, 8⟩, ⟨0, 8⟩] 0 = [⟨0, 0⟩, ⟨8, 0⟩, ⟨8, 8⟩, ⟨0, 8⟩] ∧
    polygonOffset Mq ([⟨0, 0⟩, ⟨8, 0⟩, ⟨8, 8⟩, ⟨0, 8⟩].rotate 1) 1 =
      (polygonOffset Mq [⟨0, 0⟩, ⟨8, 0⟩, ⟨8, 8⟩, ⟨0, 8⟩] 1).rotate 1 ∧
    NoRepeat ([⟨0, 0⟩, ⟨8, 0⟩, ⟨8, 8⟩, ⟨0, 8⟩] : List (V2 ℚ)) := by
  refine ⟨by decide +kernel, by decide +kernel, by decide +kernel, by decide +kernel, ?_⟩
  intro p hp
  simp only [cyclicPairs, List.getLast?_cons_cons, List.getLast?_singleton, List.zip_cons_cons,
    List.zip_nil_right, List.mem_cons, List.not_mem_nil, or_false] at hp
  rcases hp with rfl | rfl | rfl | rfl <;> decide +kernel

/-! ## Non-vacuity / sanity at ℚ (the analytic hypotheses are witnessed over ℝ in `C19bReal`) -/

/-- `sub_rects_from_rect_ratio(B=8, H=4, ratio=1/4, height 2, sill 1)`, `num_div = 4`: four
`1 × 2` rectangles centred in the four quarters, total area `8 = 1/4 · 32`. -/
example : ratioPlan 4 (8 : ℚ) 4 (1 / 4) 2 1 0 =
    [⟨1 / 2, 3 / 2, 1, 3⟩, ⟨5 / 2, 7 / 2, 1, 3⟩, ⟨9 / 2, 11 / 2, 1, 3⟩, ⟨13 / 2, 15 / 2, 1, 3⟩] ∧
    ((ratioPlan 4 (8 : ℚ) 4 (1 / 4) 2 1 0).map PRect.area).sum = 1 / 4 * 8 * 4 := by
  constructor <;> decide +kernel

/-- The same with a vertical separation `1/2`: two rows of four `1 × 1` rectangles. -/
example : (ratioPlan 4 (8 : ℚ) 4 (1 / 4) 2 1 (1 / 2)).length = 8 ∧
    ratioVertSep (8 : ℚ) 4 (1 / 4) 2 1 (1 / 2) = 1 / 2 ∧
    ((ratioPlan 4 (8 : ℚ) 4 (1 / 4) 2 1 (1 / 2)).map PRect.area).sum = 8 := by
  refine ⟨?_, ?_, ?_⟩ <;> decide +kernel

/-- Single-rectangle branch (`ratio = 3/4`, target height 2): one rectangle
`[0.08, 7.92] × [0.25·…]` of area `24`; here the sill is lowered to `0.99·H − H·r/0.98`. -/
example : ¬ ratioSeveral (8 : ℚ) 4 (3 / 4) 2 ∧
    ratioPlan 1 (8 : ℚ) 4 (3 / 4) 2 1 0 = [⟨2 / 25, 198 / 25, 1101 / 1225, 99 / 25⟩] ∧
    ((ratioPlan 1 (8 : ℚ) 4 (3 / 4) 2 1 0).map PRect.area).sum = 3 / 4 * 8 * 4 := by
  refine ⟨?_, ?_, ?_⟩ <;> decide +kernel

/-- The deviation is real: `ratio = 63/64 > 0.98` with target height `9 > 0.98·H` on an `8 × 4`
parent, one division: the rectangle `[−0.018…, 8.018…]` sticks out on both sides; and
`ratio = 63/64` with a small target height (single-rectangle branch) starts below the parent. -/
example : ratioSeveral (8 : ℚ) 4 (63 / 64) 9 ∧
    ratioPlan 1 (8 : ℚ) 4 (63 / 64) 9 1 0 = [⟨-1 / 56, 449 / 56, 1 / 25, 99 / 25⟩] ∧
    ¬ ratioSeveral (8 : ℚ) 4 (63 / 64) 2 ∧
    ratioPlan 1 (8 : ℚ) 4 (63 / 64) 2 1 0 = [⟨2 / 25, 198 / 25, -81 / 1400, 99 / 25⟩] := by
  refine ⟨?_, ?_, ?_, ?_⟩ <;> decide +kernel

/-- The literal model itself at ℚ (with `sqrt 1 = 1`, `sqrt 4 = 2`, exact `floor`): the same four
faces as the real code returns for this call. -/
example :
    let Mq : MathOps ℚ := ⟨fun x => if x = 1 then 1 else if x = 4 then 2 else 0, id, id, id, id,
      id, fun _ _ => 0, 0, fun x => (Rat.floor x : ℚ)⟩
    (subRectsRatio Mq 5 (⟨⟨0, -1, 0⟩, ⟨0, 0, 0⟩, 0, ⟨1, 0, 0⟩, ⟨0, 0, 1⟩⟩ : PlaneS ℚ)
        8 4 (1 / 4) 2 1 2 0).toOption =
      some [[⟨1 / 2, 0, 1⟩, ⟨3 / 2, 0, 1⟩, ⟨3 / 2, 0, 3⟩, ⟨1 / 2, 0, 3⟩],
            [⟨5 / 2, 0, 1⟩, ⟨7 / 2, 0, 1⟩, ⟨7 / 2, 0, 3⟩, ⟨5 / 2, 0, 3⟩],
            [⟨9 / 2, 0, 1⟩, ⟨11 / 2, 0, 1⟩, ⟨11 / 2, 0, 3⟩, ⟨9 / 2, 0, 3⟩],
            [⟨13 / 2, 0, 1⟩, ⟨15 / 2, 0, 1⟩, ⟨15 / 2, 0, 3⟩, ⟨13 / 2, 0, 3⟩]] := by
  decide +kernel

/-- `sub_rects_from_rect_dimensions(B=8, H=4, height 2, width 1, sill 1, separation 2)`,
`num_div = 4`; and the re-count: width `15/4`, separation `9/2` on base 8 gives
`round(8/4.5) = 2` but `2·3.75 + 0.75 > 8`, so `floor(8/4.5) = 1` rectangle. -/
example :
    let Mq : MathOps ℚ := ⟨id, id, id, id, id, id, fun _ _ => 0, 0, fun x => (Rat.floor x : ℚ)⟩
    dimsNumDiv Mq (8 : ℚ) 1 (dimsHorizSep 1 2) = 4 ∧
    dimsPlan Mq 4 (8 : ℚ) 4 2 1 1 2 =
      [⟨1 / 2, 3 / 2, 1, 3⟩, ⟨5 / 2, 7 / 2, 1, 3⟩, ⟨9 / 2, 11 / 2, 1, 3⟩, ⟨13 / 2, 15 / 2, 1, 3⟩] ∧
    dimsNumDiv0 Mq (8 : ℚ) (dimsHorizSep (15 / 4) (9 / 2)) = 2 ∧
    dimsNumDiv Mq (8 : ℚ) (15 / 4) (dimsHorizSep (15 / 4) (9 / 2)) = 1 ∧
    dimsPlan Mq 1 (8 : ℚ) 4 2 (15 / 4) 1 (9 / 2) = [⟨17 / 8, 47 / 8, 1, 3⟩] := by
  refine ⟨?_, ?_, ?_, ?_, ?_⟩ <;> decide +kernel

end Lbg.Props.C19b
