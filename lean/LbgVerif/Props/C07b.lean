/-
  C07b — `Polyface3D.get_outward_faces`, `Polyface3D.is_point_inside`, `Polyface3D.volume`
  (properties C07 / C08 / C01).                                                    (PARTIAL)

  Subject: the LITERAL hand models of `Model/Outward.lean` (tied to the real code by the
  correspondence module `corr/outward.py`).

  (a) The unconditional claim "every closed polyface comes out with all normals outward and a
      correct positive volume" is FALSE of the model, as it is of the code: kernel-checked
      witnesses (`witness_pyramid_*`, `witness_prism_*`, `get_outward_faces_not_always_outward`):
      a rhombus pyramid / an oblique rhombus prism, base given looking into the solid and one side
      face given inward; the base's test ray runs through an edge shared by two side faces, both
      of which count it, and the base is left pointing inward (volume 24 instead of 8, 40 instead
      of 24).  The real code returns the same flags and volumes on these inputs.
  (b) What IS proved: the flip decision of face `i` is the parity of the number of other faces
      whose `intersect_line_ray` reports a hit (`flip_flag_iff_odd`), independent of the order of
      the other faces (`flip_flag_perm`); a hit is "the ray meets the face's plane at a parameter
      `u ≥ 0` with `n·v ≠ 0`, and the 2D parity test of `Model/PointInside` accepts the plane
      coordinates of that point" (`ray_hits_iff`).  `flip_decision_partial`: IF for every other
      face the hit test agrees with a notion `Crosses` of "the ray properly crosses the face"
      (true when the ray passes strictly inside or strictly outside the face — no edge, no vertex,
      not in the face's plane — by the 2D results of C08 plus the Jordan curve theorem, which is
      NOT proved here) AND the Jordan–Brouwer parity fact for the closed surface is assumed as
      a hypothesis, THEN the face is flipped exactly when it points inward.
      `volume_outward_pos_partial`: if the faces returned all point away from an interior point
      and the surface is closed, the modelled volume is positive and equals `Σ |terms| / 3`
      after moving the origin to that point.
  (c) `volume_eq_vol`: the literal volume loop is the functional `C01.vol` of the triples
      `(face[0], normal, area)`, so the flip / sign / order theorems of `Props/C07.lean` and
      `Props/C01.lean` apply to it (`volume_perm`, `volume_flip_one`).  `vol_term_flip`: the
      literal `Face3D.flip` (reversed vertex list, `Plane.flip`) of a planar face on a valid plane
      negates its term (new start vertex, same area: `Lemmas.Outward.triple_flip`, `area_flip`);
      `volume_outward_faces`: the volume of `get_outward_faces(faces)` is the sum of the input
      terms with the flagged ones negated; `volume_outward_abs_partial`: it is `Σ |terms| / 3`
      when exactly the faces with a negative term are flagged.  `mk_face_valid`: the plane
      hypotheses hold for `Face3D(boundary)` of every planar loop with non-zero area (`sqrt` law).
  (d) `is_point_inside_parity`, `is_point_inside_perm`, `is_point_inside_rotate`: the solid
      containment model is the parity of the number of faces hit; it does not depend on the face
      order nor on the start vertex of any face's vertex list (plane kept).
-/
import LbgVerif.Model.Outward
import LbgVerif.Lemmas.Outward
import LbgVerif.Props.C07
import LbgVerif.Props.C06
import Mathlib.Tactic.Ring
import Mathlib.Tactic.Linarith
import Mathlib.Tactic.Positivity
import Mathlib.Algebra.Order.Field.Rat

set_option linter.unusedSectionVars false
set_option linter.unusedVariables false

namespace Lbg.Props.C07b
open Lbg Lbg.Gen Lbg.Lemmas Lbg.Lemmas.Outward Lbg.Model.Outward
open Lbg.Props.C01 Lbg.Props.C07
open Lbg.Props.C02 (PlaneValid OnPlane)

section generic
variable {α : Type} [Field α] [LinearOrder α] [IsStrictOrderedRing α]

/-! ## (b) The flip decision of `get_outward_faces` -/

/-- **Parity form.**  Face `i` is flipped by `get_outward_faces` exactly when an odd number of
the OTHER faces report an intersection with its test ray (`Ray3D(_point_on_face, normal)`). -/
theorem flip_flag_iff_odd (M : MathOps α) (faces : List (Face α)) (tol : α) (i : Nat)
    (face : Face α) :
    flipFlag M faces tol i face = true ↔
      (others faces i).countP (rayHits (testRay M face tol)) % 2 = 1 := by
  unfold flipFlag
  rw [nInt_eq]
  split_ifs with h <;> simp <;> omega

/-- The flags list is the flip decision face by face. -/
theorem outward_flags_get (M : MathOps α) (faces : List (Face α)) (tol : α) (i : Nat)
    (hi : i < faces.length) :
    (outwardFlags M faces tol)[i]? = some (flipFlag M faces tol i faces[i]) := by
  unfold outwardFlags
  simp [hi]

/-- The returned faces: face `i` reversed (`Face3D.flip`) when flagged, else unchanged. -/
theorem outward_faces_get (M : MathOps α) (faces : List (Face α)) (tol : α) (i : Nat)
    (hi : i < faces.length) :
    (outwardFaces M faces tol)[i]? =
      some (if flipFlag M faces tol i faces[i] then flip M faces[i] else faces[i]) := by
  unfold outwardFaces
  simp [hi]

/-- The decision does not depend on the ORDER of the other faces. -/
theorem flip_flag_perm (M : MathOps α) (faces faces' : List (Face α)) (tol : α) (i i' : Nat)
    (face : Face α) (h : (others faces i).Perm (others faces' i')) :
    flipFlag M faces tol i face = flipFlag M faces' tol i' face := by
  have e := flip_flag_iff_odd M faces tol i face
  have e' := flip_flag_iff_odd M faces' tol i' face
  rw [h.countP_eq] at e
  cases h1 : flipFlag M faces tol i face <;> cases h2 : flipFlag M faces' tol i' face <;>
    simp_all

/-- **What a hit is.**  `face.intersect_line_ray(ray)` reports an intersection exactly when the
ray is not parallel to the face's plane (`n·v ≠ 0`, the code's guard), some point `q = p + u·v`
with `u ≥ 0` lies on the plane, and `Polygon2D.is_point_inside_bound_rect` (bounding-rectangle
shortcut, then crossing parity along the tilted ray `(1, 0.00001)`) accepts the plane
coordinates of `q`. -/
theorem ray_hits_iff (ray : LR3 α) (f : Face α) :
    rayHits ray f = true ↔
      ∃ q, nv ray f.plane ≠ 0 ∧ Rng.On3 .ray ray q ∧
        f.plane.n.x * q.x + f.plane.n.y * q.y + f.plane.n.z * q.z = f.plane.k ∧
        Lbg.Model.PointInside.isPointInsideBoundRect (poly2d f) (plane_xyz_to_xy f.plane q) testVector2 = true := by
  unfold rayHits intersectRay
  rw [intersect_line3d_plane_r_eq]
  cases h : isectLP .ray ray f.plane with
  | none =>
    simp only [Option.isSome_none, Bool.false_eq_true, false_iff]
    rintro ⟨q, h1, h2, h3, _⟩
    have := (isectLP_eq_some_iff .ray ray f.plane q).mpr ⟨h1, h2, h3⟩
    rw [h] at this
    exact absurd this (by simp)
  | some q =>
    obtain ⟨h1, h2, h3⟩ := (isectLP_eq_some_iff .ray ray f.plane q).mp h
    simp only []
    constructor
    · intro hh
      refine ⟨q, h1, h2, h3, ?_⟩
      by_contra hc
      simp [hc] at hh
    · rintro ⟨q', g1, g2, g3, g4⟩
      have := (isectLP_eq_some_iff .ray ray f.plane q').mpr ⟨g1, g2, g3⟩
      rw [h] at this
      simp only [Option.some.injEq] at this
      subst this
      simp [g4]

/-- **The conditional correctness of the flip decision** (PARTIAL: the geometric facts are
hypotheses, not theorems).

Full statement wanted: for every closed 2-manifold polyhedral surface, face `i` is flipped iff
its normal points into the enclosed volume.  That is FALSE in general (see the witnesses below).
Proved here: let `Crosses g` be any notion of "the test ray of face `i` properly crosses face
`g`" and `Inward` the statement "face `i` points into the solid".  IF
 * (`hgen`, general position) for every other face `g` the code's hit test agrees with
   `Crosses g` — which holds when the ray meets the plane of `g` at a point strictly inside or
   strictly outside the polygon of `g` (not on an edge or vertex), or not at all, and is not
   contained in that plane; this reduction is `ray_hits_iff` + the 2D parity results of C08 +
   the Jordan curve theorem (NOT proved); and
 * (`hJB`, Jordan–Brouwer) a ray leaving the surface from an interior point of face `i` along
   its normal properly crosses the other faces an odd number of times exactly when that normal
   points inward (NOT proved),
THEN `get_outward_faces` flips face `i` exactly when it points inward. -/
theorem flip_decision_partial (M : MathOps α) (faces : List (Face α)) (tol : α) (i : Nat)
    (face : Face α) (Crosses : Face α → Prop) [DecidablePred Crosses] (Inward : Prop)
    (hgen : ∀ g ∈ others faces i, (rayHits (testRay M face tol) g = true ↔ Crosses g))
    (hJB : Inward ↔ (others faces i).countP (fun g => decide (Crosses g)) % 2 = 1) :
    flipFlag M faces tol i face = true ↔ Inward := by
  rw [flip_flag_iff_odd, hJB]
  have : (others faces i).countP (rayHits (testRay M face tol)) =
      (others faces i).countP (fun g => decide (Crosses g)) := by
    apply List.countP_congr
    intro g hg
    simp [hgen g hg]
  rw [this]

/-! ## (c) The volume loop is the functional `vol` of `Props/C01.lean` / `Props/C07.lean` -/

/-- `Polyface3D.volume` (the literal loop `_v += face[0].dot(face.normal) * face.area; _v / 3`)
is `C01.vol` of the triples `(face[0], face.normal, face.area)`. -/
theorem volume_eq_vol (faces : List (Face α)) : volume faces = vol (faces.map triple) := by
  unfold volume vol
  rw [foldl_add_eq_sum (fun f : Face α => v3_dot (f.verts.head?.getD ⟨0, 0, 0⟩) f.plane.n * area f)]
  rw [List.map_map, zero_add]
  rfl

/-- The modelled volume does not depend on the order of the faces. -/
theorem volume_perm (fs gs : List (Face α)) (h : fs.Perm gs) : volume fs = volume gs := by
  rw [volume_eq_vol, volume_eq_vol]
  exact vol_perm _ _ (h.map triple)

/-- One face whose triple has the reversed normal (same base point and area) changes the
modelled volume by exactly twice its term: `C07.volume_flip_face` for the literal loop. -/
theorem volume_flip_one (pre post : List (Face α)) (f f' : Face α)
    (h : triple f' = flipFace (triple f)) :
    volume (pre ++ [f'] ++ post) = volume (pre ++ [f] ++ post) - 2 * volTerm (triple f) / 3 := by
  rw [volume_eq_vol, volume_eq_vol]
  simp only [List.map_append, List.map_cons, List.map_nil, h]
  exact volume_flip_face _ _ _

/-- **`Face3D.flip` negates the volume term** of a planar face on a valid plane: the flipped face
starts at the LAST vertex, has the reversed normal and the same area; the new start vertex lies
in the same plane, so only the sign changes.  (`hs1`: `math.sqrt(1.0) == 1.0`.) -/
theorem vol_term_flip (M : MathOps α) (hs1 : M.sqrt 1 = 1) (f : Face α)
    (hv : PlaneValid f.plane) (hpl : ∀ p ∈ f.verts, OnPlane f.plane p) :
    volTerm (triple (Lbg.Model.Outward.flip M f)) = - volTerm (triple f) := by
  rw [triple_flip M hs1 f hv, volTerm_flip]
  congr 1
  unfold triple
  apply volTerm_base_point
  cases hl : f.verts with
  | nil => simp [V3.dot, V3.sub]
  | cons a t =>
    obtain ⟨z, hz⟩ : ∃ z, (a :: t).getLast? = some z :=
      ⟨_, List.getLast?_eq_some_getLast (List.cons_ne_nil a t)⟩
    have hzm : z ∈ f.verts := by rw [hl]; exact List.mem_of_getLast? hz
    have ham : a ∈ f.verts := by rw [hl]; simp
    have h1 := hpl z hzm
    have h2 := hpl a ham
    simp only [hz, List.head?_cons, Option.getD_some]
    simp only [OnPlane, V3.dot, V3.sub] at *
    linear_combination h1 - h2

/-- **The volume of the re-oriented faces is the signed sum of the input terms**: every face
`get_outward_faces` flags enters with the opposite sign (faces planar, planes valid).  With
`flip_flag_iff_odd` this expresses `Polyface3D(vertices, face_indices).volume` through the hit
parities alone. -/
theorem volume_outward_faces (M : MathOps α) (hs1 : M.sqrt 1 = 1) (faces : List (Face α))
    (tol : α) (hv : ∀ f ∈ faces, PlaneValid f.plane)
    (hpl : ∀ f ∈ faces, ∀ p ∈ f.verts, OnPlane f.plane p) :
    volume (outwardFaces M faces tol) =
      (faces.zipIdx.map (fun fi => if flipFlag M faces tol fi.2 fi.1 then - volTerm (triple fi.1)
        else volTerm (triple fi.1))).sum / 3 := by
  rw [volume_eq_vol]
  unfold vol outwardFaces
  rw [List.map_map, List.map_map]
  congr 2
  apply List.map_congr_left
  intro fi hfi
  have hm := List.fst_mem_of_mem_zipIdx hfi
  simp only [Function.comp]
  split_ifs
  · exact vol_term_flip M hs1 fi.1 (hv _ hm) (hpl _ hm)
  · rfl

/-- **`Σ |terms|` form** (PARTIAL: correctness of the flags is the hypothesis `hflag`, which is
what `flip_decision_partial` yields under its geometric assumptions).  If, seen from a point `c`
taken as origin (`c = 0`; for a closed surface the volume is translation invariant,
`C01.vol_translate_closed`), a face is flagged exactly when its term is negative, the reported
volume is `Σ |face[0]·n · area| / 3`. -/
theorem volume_outward_abs_partial (M : MathOps α) (hs1 : M.sqrt 1 = 1) (faces : List (Face α))
    (tol : α) (hv : ∀ f ∈ faces, PlaneValid f.plane)
    (hpl : ∀ f ∈ faces, ∀ p ∈ f.verts, OnPlane f.plane p)
    (hflag : ∀ fi ∈ faces.zipIdx, (flipFlag M faces tol fi.2 fi.1 = true ↔ volTerm (triple fi.1) < 0)) :
    volume (outwardFaces M faces tol) = (faces.map (fun f => |volTerm (triple f)|)).sum / 3 := by
  rw [volume_outward_faces M hs1 faces tol hv hpl]
  congr 1
  have : faces.map (fun f => |volTerm (triple f)|) =
      faces.zipIdx.map (fun fi => |volTerm (triple fi.1)|) := by
    conv_lhs => rw [← List.zipIdx_map_fst 0 faces]
    rw [List.map_map]; rfl
  rw [this]
  congr 1
  apply List.map_congr_left
  intro fi hfi
  have := hflag fi hfi
  split_ifs with h
  · rw [abs_of_neg (this.mp h)]
  · rw [abs_of_nonneg (not_lt.mp (fun hh => h (this.mpr hh)))]

/-- **Positivity after a correct orientation** (PARTIAL: that the faces returned point outward
is a hypothesis — it is what `flip_decision_partial` gives under its geometric assumptions).
If the faces `get_outward_faces` returns form a closed surface (`Σ Aᵢ nᵢ = 0`) and all point
away from one interior point `c`, the literal `Polyface3D.volume` is strictly positive. -/
theorem volume_outward_pos_partial (M : MathOps α) (faces : List (Face α)) (tol : α) (c : V3 α)
    (hne : faces ≠ [])
    (hclosed : areaVec ((outwardFaces M faces tol).map triple) = ⟨0, 0, 0⟩)
    (hout : ∀ f ∈ outwardFaces M faces tol, PointsAwayFrom c (triple f)) :
    0 < volume (outwardFaces M faces tol) := by
  rw [volume_eq_vol]
  apply volume_pos_of_outward _ c hclosed
  · intro h
    apply hne
    have := congrArg List.length h
    simpa [outwardFaces] using this
  · intro t ht
    obtain ⟨f, hf, rfl⟩ := List.mem_map.mp ht
    exact hout f hf

/-! ## The hypotheses "valid plane, planar face" hold for faces built by `Face3D(boundary)` -/

/-- The model's `_plane_from_vertices` is the one `Props/C06.lean` reasons about. -/
theorem plane_from_vertices_eq (M : MathOps α) (vs : List (V3 α)) :
    Lbg.Model.Outward.planeFromVertices M vs = Lbg.Props.C06.planeFromVertices M vs := by
  unfold Lbg.Model.Outward.planeFromVertices Lbg.Props.C06.planeFromVertices normalVec
  have e : Lbg.Model.Outward.fanNormal vs = Lbg.Props.C06.fanNormal vs := by
    cases vs <;> rfl
  rw [e]
  have hh : vs.head?.getD ⟨0, 0, 0⟩ = vs.headD ⟨0, 0, 0⟩ := by cases vs <;> rfl
  rw [hh]
  simp only []
  by_cases h : Lbg.Props.C06.fanNormal vs = ⟨0, 0, 0⟩
  · rw [if_pos h, h]; simp
  · rw [if_neg h]
    have : ¬ ((Lbg.Props.C06.fanNormal vs).x = 0 ∧ (Lbg.Props.C06.fanNormal vs).y = 0 ∧
        (Lbg.Props.C06.fanNormal vs).z = 0) := by
      rintro ⟨h1, h2, h3⟩
      exact h (V3.ext' h1 h2 h3)
    rw [if_neg this]

/-- **`Face3D(boundary)` of a planar loop with non-zero area** (either orientation, any start
vertex, given by coordinates in some valid frame), under the `sqrt` law: the stored vertices are
the input (the right-hand check changes nothing), the plane is valid and contains every vertex —
i.e. the hypotheses `hv`, `hpl` of `vol_term_flip` / `volume_outward_faces` hold for every face
`Polyface3D.faces` builds from a planar non-degenerate loop.  (From `C06.ctor_own_plane`.) -/
theorem mk_face_valid (M : MathOps α)
    (hsqrt : ∀ x, 0 ≤ x → M.sqrt x * M.sqrt x = x ∧ 0 ≤ M.sqrt x)
    {pl0 : PlaneS α} (hv0 : PlaneValid pl0) (cs0 : List (V2 α)) (h0 : shoelace cs0 ≠ 0) :
    let vs := cs0.map (plane_xy_to_xyz pl0)
    (mkFace M vs).verts = vs ∧ PlaneValid (mkFace M vs).plane ∧
      ∀ p ∈ (mkFace M vs).verts, OnPlane (mkFace M vs).plane p := by
  intro vs
  obtain ⟨hval, _, hon, hpos, herh⟩ := Lbg.Props.C06.ctor_own_plane M hsqrt hv0 cs0 h0
  have hcw : polygon2d_is_clockwise (vs.map (plane_xyz_to_xy
      (Lbg.Model.Outward.planeFromVertices M vs))) = false := by
    rw [plane_from_vertices_eq]
    have := (Lbg.Props.C01.polygon2d_is_clockwise_iff
      (vs.map (plane_xyz_to_xy (Lbg.Props.C06.planeFromVertices M vs))))
    cases hc : polygon2d_is_clockwise (vs.map (plane_xyz_to_xy
      (Lbg.Props.C06.planeFromVertices M vs)))
    · rfl
    · have h1 := this.mp hc
      exfalso; linarith
  have hmk : mkFace M vs = ⟨vs, Lbg.Props.C06.planeFromVertices M vs⟩ := by
    rw [plane_from_vertices_eq] at hcw
    unfold mkFace
    simp only [plane_from_vertices_eq]
    rw [hcw]
    simp
  rw [hmk]
  exact ⟨rfl, hval, hon⟩

/-! ## (d) `Polyface3D.is_point_inside` -/

/-- **Parity form**: for a solid polyface the answer is "an odd number of faces report an
intersection with `Ray3D(point, test_vector)`"; for a non-solid one it is `False`. -/
theorem is_point_inside_parity (solid : Bool) (faces : List (Face α)) (p v : V3 α) :
    isPointInside solid faces p v =
      (solid && decide (faces.countP (rayHits ⟨p, v⟩) % 2 = 1)) := by
  unfold isPointInside
  cases solid
  · simp
  · simp only [Bool.not_true, Bool.false_eq_true, if_false, countHitsFrom_eq, zero_add,
      Bool.true_and]
    split_ifs with h <;> simp <;> omega

/-- The answer does not depend on the order of the faces. -/
theorem is_point_inside_perm (solid : Bool) (fs gs : List (Face α)) (h : fs.Perm gs)
    (p v : V3 α) : isPointInside solid fs p v = isPointInside solid gs p v := by
  rw [is_point_inside_parity, is_point_inside_parity, h.countP_eq]

/-- A face hit test does not depend on the start vertex of the face's vertex list (same plane). -/
theorem ray_hits_rotate (ray : LR3 α) (vs : List (V3 α)) (pl : PlaneS α) (k : ℕ) :
    rayHits ray ⟨vs.rotate k, pl⟩ = rayHits ray ⟨vs, pl⟩ := by
  unfold rayHits intersectRay poly2d
  simp only [List.map_rotate, isPointInsideBoundRect_rotate]

/-- The same face up to the start vertex of its loop. -/
def SameUpToStart (f g : Face α) : Prop := g.plane = f.plane ∧ ∃ k : ℕ, g.verts = f.verts.rotate k

/-- **Start-vertex independence**: presenting each face with another start vertex (same plane)
does not change `is_point_inside`. -/
theorem is_point_inside_rotate (solid : Bool) (fs gs : List (Face α))
    (h : List.Forall₂ SameUpToStart fs gs) (p v : V3 α) :
    isPointInside solid fs p v = isPointInside solid gs p v := by
  rw [is_point_inside_parity, is_point_inside_parity]
  have : fs.countP (rayHits ⟨p, v⟩) = gs.countP (rayHits ⟨p, v⟩) := by
    induction h with
    | nil => rfl
    | @cons a b _ _ hab _ ih =>
      obtain ⟨hp, k, hk⟩ := hab
      have e : rayHits ⟨p, v⟩ b = rayHits ⟨p, v⟩ a := by
        obtain ⟨av, ap⟩ := a
        obtain ⟨bv, bp⟩ := b
        simp only at hp hk
        subst hp hk
        exact ray_hits_rotate _ _ _ _
      simp only [List.countP_cons, ih, e]
  rw [this]

/-- Combined: any reordering of the faces, each with any start vertex. -/
theorem is_point_inside_presentation (solid : Bool) (fs hs gs : List (Face α))
    (h1 : List.Forall₂ SameUpToStart fs hs) (h2 : hs.Perm gs) (p v : V3 α) :
    isPointInside solid gs p v = isPointInside solid fs p v := by
  rw [← is_point_inside_perm solid hs gs h2, ← is_point_inside_rotate solid fs hs h1]

end generic

/-! ## (a) Witnesses: the unconditional claim is false of the model (and of the code)

All statements below are evaluated by the kernel (`decide +kernel`) on the literal model with
the exact-on-squares `math` module `ratOps`; the correspondence module runs the same inputs
through the real code (same flags, same volumes). -/

section witnesses

/-- `ratOps.sqrt` is exact at every argument the plane frames of the witnesses take it at. -/
example : ratOps.sqrt 1 = 1 ∧ ratOps.sqrt 169 = 13 ∧ ratOps.sqrt (25 / 169) = 5 / 13 ∧
    ratOps.sqrt 2304 = 48 ∧ ratOps.sqrt 16 = 4 ∧ ratOps.sqrt 25 = 5 ∧ ratOps.sqrt 0 = 0 := by
  decide +kernel

/-- Non-vacuity of `flip_decision_partial`: a 2×2×2 box whose bottom face is given looking up
(into the box).  With `Crosses g :=` "`g` is the top face" (origin of its plane at height 2) the
general-position hypothesis `hgen` holds for the bottom face's test ray, exactly one other face is
crossed, and the face is flipped. -/
example :
    let verts : List (V3 ℚ) := [⟨0, 0, 0⟩, ⟨2, 0, 0⟩, ⟨2, 2, 0⟩, ⟨0, 2, 0⟩, ⟨0, 0, 2⟩, ⟨2, 0, 2⟩,
      ⟨2, 2, 2⟩, ⟨0, 2, 2⟩]
    let idx : List (List Nat) := [[0, 1, 2, 3], [0, 1, 5, 4], [1, 2, 6, 5], [2, 3, 7, 6],
      [3, 0, 4, 7], [4, 5, 6, 7]]
    let faces : List (Face ℚ) :=
      idx.map (fun loop => mkFace ratOps (loop.map (fun i => verts.getD i ⟨0, 0, 0⟩)))
    let face := faces.getD 0 ⟨[], ⟨⟨0, 0, 0⟩, ⟨0, 0, 0⟩, 0, ⟨0, 0, 0⟩, ⟨0, 0, 0⟩⟩⟩
    (∀ g ∈ others faces 0, (rayHits (testRay ratOps face tolFaces) g = true ↔ g.plane.o.z = 2)) ∧
    (others faces 0).countP (fun g => decide (g.plane.o.z = 2)) % 2 = 1 ∧
    flipFlag ratOps faces tolFaces 0 face = true := by
  decide +kernel

/-- Vertices of the rhombus pyramid: base `C B E D` in `z = 1`, apex `A` over its centre. -/
def wVerts : List (V3 ℚ) := [⟨0, 0, 1⟩, ⟨4, -3, 1⟩, ⟨8, 0, 1⟩, ⟨4, 3, 1⟩, ⟨4, 0, 2⟩]

/-- Its faces as index loops: the base `B E D C` (counter-clockwise seen from above: normal
`+z`, INTO the solid), three side faces outward, the fourth (`A C D`) inward. -/
def wIdx : List (List Nat) := [[1, 2, 3, 0], [0, 1, 4], [1, 2, 4], [2, 3, 4], [4, 0, 3]]

/-- The faces `Face3D(boundary)` as `Polyface3D.faces` builds them before re-orientation. -/
def wFaces : List (Face ℚ) :=
  wIdx.map (fun loop => mkFace ratOps (loop.map (fun i => wVerts.getD i ⟨0, 0, 0⟩)))

/-- A point inside the pyramid. -/
def wInside : V3 ℚ := ⟨4, 0, 3 / 2⟩

instance (c : V3 ℚ) (f : V3 ℚ × V3 ℚ × ℚ) : Decidable (PointsAwayFrom c f) := by
  unfold PointsAwayFrom; infer_instance

/-- Which faces point away from the interior point. -/
def awayFlags (c : V3 ℚ) (fs : List (Face ℚ)) : List Bool :=
  fs.map (fun f => decide (PointsAwayFrom c (triple f)))

/-- The witness is a closed 2-manifold (every edge used twice: `is_solid`), every face is planar
with a unit normal, and exactly the base and the last side face are given inward. -/
theorem witness_pyramid_input :
    Lbg.Model.EdgeInfo.isSolid (wIdx.map (fun l => [l])) = true ∧
    awayFlags wInside wFaces = [false, true, true, true, false] ∧
    (wFaces.map (fun f => f.plane.n)) =
      [⟨0, 0, 1⟩, ⟨-3 / 13, -4 / 13, 12 / 13⟩, ⟨3 / 13, -4 / 13, 12 / 13⟩,
       ⟨3 / 13, 4 / 13, 12 / 13⟩, ⟨3 / 13, -4 / 13, -12 / 13⟩] := by
  decide +kernel

/-- `get_outward_faces` flips only the side face; the base's test ray (from the point
`(0.01001, 0, 1)` next to `C`, along `+z`) is counted by BOTH side faces that share the edge
`C A` above it (`n_int = 2`). -/
theorem witness_pyramid_flags :
    outwardFlags ratOps wFaces tolFaces = [false, false, false, false, true] ∧
    nInt ratOps wFaces tolFaces 0 (wFaces.getD 0 ⟨[], ⟨⟨0, 0, 0⟩, ⟨0, 0, 0⟩, 0, ⟨0, 0, 0⟩, ⟨0, 0, 0⟩⟩⟩) = 2 := by
  decide +kernel

/-- The faces returned: the base still points INTO the solid. -/
theorem witness_pyramid_inward :
    awayFlags wInside (outwardFaces ratOps wFaces tolFaces) = [false, true, true, true, true] := by
  decide +kernel

/-- `Polyface3D(vertices, face_indices).volume` is 24; the enclosed volume is `24·1/3 = 8`, which
is what the loop gives once the base is flipped as well. -/
theorem witness_pyramid_volume :
    polyfaceVolume ratOps wVerts wIdx = 24 ∧
    volume ((wFaces.zip [true, false, false, false, true]).map
      (fun fb => if fb.2 then flip ratOps fb.1 else fb.1)) = 8 := by
  decide +kernel

/-- Oblique rhombus prism: the same base, translated by `(4, 0, 1)` (along the bisector of the
corner `C`), base given inward and the side face `D' C' C D` given inward. -/
def pVerts : List (V3 ℚ) :=
  [⟨0, 0, 1⟩, ⟨4, -3, 1⟩, ⟨8, 0, 1⟩, ⟨4, 3, 1⟩, ⟨4, 0, 2⟩, ⟨8, -3, 2⟩, ⟨12, 0, 2⟩, ⟨8, 3, 2⟩]

def pIdx : List (List Nat) :=
  [[1, 2, 3, 0], [0, 1, 5, 4], [1, 2, 6, 5], [2, 3, 7, 6], [7, 4, 0, 3], [4, 5, 6, 7]]

def pFaces : List (Face ℚ) :=
  pIdx.map (fun loop => mkFace ratOps (loop.map (fun i => pVerts.getD i ⟨0, 0, 0⟩)))

def pInside : V3 ℚ := ⟨6, 0, 3 / 2⟩

/-- The prism witness: closed, base and one side face inward; only the side face is flipped, the
base is left pointing into the solid and the volume is 40 instead of `24·1 = 24`. -/
theorem witness_prism :
    Lbg.Model.EdgeInfo.isSolid (pIdx.map (fun l => [l])) = true ∧
    awayFlags pInside pFaces = [false, true, true, true, false, true] ∧
    outwardFlags ratOps pFaces tolFaces = [false, false, false, false, true, false] ∧
    awayFlags pInside (outwardFaces ratOps pFaces tolFaces) = [false, true, true, true, true, true] ∧
    polyfaceVolume ratOps pVerts pIdx = 40 ∧
    volume ((pFaces.zip [true, false, false, false, true, false]).map
      (fun fb => if fb.2 then flip ratOps fb.1 else fb.1)) = 24 := by
  decide +kernel

/-- **The unconditional outwardness claim is false of the model.**  It is not true that for
every closed index structure whose faces can be oriented to point away from an interior point
`c`, `Polyface3D.faces` (= `get_outward_faces` of the faces as given) all point away from `c`. -/
theorem get_outward_faces_not_always_outward :
    ¬ ∀ (verts : List (V3 ℚ)) (idx : List (List Nat)) (c : V3 ℚ),
      Lbg.Model.EdgeInfo.isSolid (idx.map (fun l => [l])) = true →
      (∀ f ∈ idx.map (fun loop => mkFace ratOps (loop.map (fun i => verts.getD i ⟨0, 0, 0⟩))),
        PointsAwayFrom c (triple f) ∨ PointsAwayFrom c (flipFace (triple f))) →
      ∀ f ∈ polyfaceFaces ratOps verts idx, PointsAwayFrom c (triple f) := by
  intro h
  have h1 := h wVerts wIdx wInside (by decide +kernel) (by decide +kernel)
  have h2 : ¬ ∀ f ∈ polyfaceFaces ratOps wVerts wIdx, PointsAwayFrom wInside (triple f) := by
    decide +kernel
  exact h2 h1

/-- **The unconditional volume claim is false of the model**: a closed polyface whose reported
volume (24) differs from the volume of the same surface with all faces outward (8). -/
theorem volume_not_always_enclosed :
    ∃ (verts : List (V3 ℚ)) (idx : List (List Nat)) (flags : List Bool) (good : List (Face ℚ))
      (c : V3 ℚ),
      Lbg.Model.EdgeInfo.isSolid (idx.map (fun l => [l])) = true ∧
      (∀ f ∈ good, PointsAwayFrom c (triple f)) ∧ areaVec (good.map triple) = ⟨0, 0, 0⟩ ∧
      good = ((idx.map (fun loop => mkFace ratOps (loop.map (fun i => verts.getD i ⟨0, 0, 0⟩)))).zip
        flags).map (fun fb => if fb.2 then flip ratOps fb.1 else fb.1) ∧ flags.length = idx.length ∧
      volume good = 8 ∧ polyfaceVolume ratOps verts idx = 24 := by
  refine ⟨wVerts, wIdx, [true, false, false, false, true],
    (wFaces.zip [true, false, false, false, true]).map
      (fun fb => if fb.2 then flip ratOps fb.1 else fb.1), wInside, ?_, ?_, ?_, rfl, rfl, ?_, ?_⟩
  · decide +kernel
  · decide +kernel
  · decide +kernel
  · decide +kernel
  · decide +kernel

end witnesses

end Lbg.Props.C07b
