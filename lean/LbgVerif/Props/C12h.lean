/-
  C12h — `Ray2D.distance_to_point` and `Ray3D.distance_to_point`.

  The GENERATED kernels `a_ray2d_distance_to_point` / `a_ray3d_distance_to_point`
  (`Gen/Auto.lean`, regenerated from `geometry2d/ray.py`, `geometry3d/ray.py` with the inlined
  `closest_point2d_on_line2d` / `closest_point3d_on_line3d` of `intersection2d.py` /
  `intersection3d.py`) are the square root of the squared distance to the generated closest
  point on the ray; hence they are non-negative, zero exactly for queries on the ray, a lower
  bound for the distance to every point of the ray, and 1-Lipschitz in the query.  The
  square-root laws are explicit hypotheses, as in `Props/C12` for segments and planes
  (`hsqrt : ∀ x ≥ 0, √x·√x = x ∧ 0 ≤ √x`, witnessed over ℝ in the Real files).

  A change of `Ray2D/Ray3D.distance_to_point`, or of the ray branch of the closest-point
  routines (e.g. clamping `u > 1`, or forgetting the clamp at `u < 0`), changes the generated
  terms and breaks `ray2_distance_to_point_eq` / `ray3_distance_to_point_eq`.
-/
import LbgVerif.Gen.Auto
import LbgVerif.Gen.Arc
import LbgVerif.Props.C12

namespace Lbg.Props.C12h
open Lbg Lbg.Gen Lbg.Props.C12
variable {α : Type} [Field α] [LinearOrder α] [IsStrictOrderedRing α]

omit [IsStrictOrderedRing α] in
/-- The generated ray distance is the square root of the squared distance to the generated
closest point on the ray (2D). -/
theorem ray2_distance_to_point_eq (M : MathOps α) (l : LR2 α) (q : V2 α) :
    a_ray2d_distance_to_point M l q = M.sqrt (distSq2 q (closest_point2d_on_line2d_r q l)) := rfl

/-- Same, in terms of the abstract clamped projection used by the lemmas. -/
theorem ray2_distance_to_point_eq_closest (M : MathOps α) (l : LR2 α) (q : V2 α) :
    a_ray2d_distance_to_point M l q = M.sqrt (Lemmas.dsq2 q (Lemmas.closest2 .ray q l)) := by
  rw [← Lemmas.closest_point2d_on_line2d_r_eq]; rfl

/-- Distances are non-negative (2D ray). -/
theorem ray2_distance_to_point_nonneg (M : MathOps α)
    (hsqrt : ∀ x, 0 ≤ x → M.sqrt x * M.sqrt x = x ∧ 0 ≤ M.sqrt x) (l : LR2 α) (q : V2 α) :
    0 ≤ a_ray2d_distance_to_point M l q := by
  rw [ray2_distance_to_point_eq_closest]
  exact (hsqrt _ (Lemmas.dsq2_nonneg _ _)).2

/-- The distance is zero exactly for queries on the ray (2D). -/
theorem ray2_distance_to_point_zero_iff (M : MathOps α)
    (hsqrt : ∀ x, 0 ≤ x → M.sqrt x * M.sqrt x = x ∧ 0 ≤ M.sqrt x) (l : LR2 α) (q : V2 α) :
    a_ray2d_distance_to_point M l q = 0 ↔ OnRay2 l q := by
  rw [ray2_distance_to_point_eq_closest,
    Lemmas.sqrt_eq_zero_iff M hsqrt _ (Lemmas.dsq2_nonneg _ _)]
  exact Lemmas.closest2_zero_iff .ray q l

/-- The distance is a lower bound for the distance to every point of the ray (2D). -/
theorem ray2_distance_to_point_le (M : MathOps α)
    (hsqrt : ∀ x, 0 ≤ x → M.sqrt x * M.sqrt x = x ∧ 0 ≤ M.sqrt x) (l : LR2 α) (q x : V2 α)
    (hx : OnRay2 l x) : a_ray2d_distance_to_point M l q ≤ M.sqrt (distSq2 q x) := by
  rw [ray2_distance_to_point_eq_closest]
  obtain ⟨t, ht, rfl⟩ := (Lemmas.Rng.On_iff_at2 .ray l x).mp hx
  exact Lemmas.sqrt_le_sqrt M hsqrt _ _ (Lemmas.dsq2_nonneg _ _) (Lemmas.closest2_min .ray q l t ht)

/-- The distance is attained by a point of the ray: the generated closest point (2D). -/
theorem ray2_distance_to_point_attained (M : MathOps α) (l : LR2 α) (q : V2 α) :
    ∃ x, OnRay2 l x ∧ a_ray2d_distance_to_point M l q = M.sqrt (distSq2 q x) :=
  ⟨_, closest_point2d_on_line2d_r_on_object q l, ray2_distance_to_point_eq M l q⟩

/-- The distance to a ray is 1-Lipschitz in the query point (2D):
`|d(q₁) − d(q₂)| ≤ |q₁ − q₂|`. -/
theorem ray2_distance_to_point_lipschitz (M : MathOps α)
    (hsqrt : ∀ x, 0 ≤ x → M.sqrt x * M.sqrt x = x ∧ 0 ≤ M.sqrt x) (l : LR2 α) (q1 q2 : V2 α) :
    |a_ray2d_distance_to_point M l q1 - a_ray2d_distance_to_point M l q2|
      ≤ M.sqrt (distSq2 q1 q2) := by
  rw [ray2_distance_to_point_eq_closest, ray2_distance_to_point_eq_closest]
  exact Lemmas.dist_lipschitz2 M hsqrt (Lemmas.Rng.On .ray l)
    (fun q => Lemmas.closest2 .ray q l) (fun q => Lemmas.closest2_on .ray q l)
    (fun q x hx => by
      obtain ⟨t, ht, rfl⟩ := (Lemmas.Rng.On_iff_at2 .ray l x).mp hx
      exact Lemmas.closest2_min .ray q l t ht) q1 q2

/-- A ray is never farther from the query than the segment with the same `p`, `v`
(the segment is a subset of the ray) — 2D. -/
theorem ray2_distance_le_seg2_distance (M : MathOps α)
    (hsqrt : ∀ x, 0 ≤ x → M.sqrt x * M.sqrt x = x ∧ 0 ≤ M.sqrt x) (l : LR2 α) (q : V2 α) :
    a_ray2d_distance_to_point M l q ≤ seg2_distance_to_point M l q := by
  rw [seg2_distance_to_point_eq]
  obtain ⟨t, ht0, _, hat⟩ := closest_point2d_on_line2d_s_on_object q l
  exact ray2_distance_to_point_le M hsqrt l q _ ⟨t, ht0, hat⟩

omit [IsStrictOrderedRing α] in
/-- The generated ray distance is the square root of the squared distance to the generated
closest point on the ray (3D). -/
theorem ray3_distance_to_point_eq (M : MathOps α) (l : LR3 α) (q : V3 α) :
    a_ray3d_distance_to_point M l q = M.sqrt (distSq3 q (closest_point3d_on_line3d_r q l)) := rfl

/-- Same, in terms of the abstract clamped projection used by the lemmas. -/
theorem ray3_distance_to_point_eq_closest (M : MathOps α) (l : LR3 α) (q : V3 α) :
    a_ray3d_distance_to_point M l q = M.sqrt (Lemmas.dsq3 q (Lemmas.closest3 .ray q l)) := by
  rw [← Lemmas.closest_point3d_on_line3d_r_eq]; rfl

/-- Distances are non-negative (3D ray). -/
theorem ray3_distance_to_point_nonneg (M : MathOps α)
    (hsqrt : ∀ x, 0 ≤ x → M.sqrt x * M.sqrt x = x ∧ 0 ≤ M.sqrt x) (l : LR3 α) (q : V3 α) :
    0 ≤ a_ray3d_distance_to_point M l q := by
  rw [ray3_distance_to_point_eq_closest]
  exact (hsqrt _ (Lemmas.dsq3_nonneg _ _)).2

/-- The distance is zero exactly for queries on the ray (3D). -/
theorem ray3_distance_to_point_zero_iff (M : MathOps α)
    (hsqrt : ∀ x, 0 ≤ x → M.sqrt x * M.sqrt x = x ∧ 0 ≤ M.sqrt x) (l : LR3 α) (q : V3 α) :
    a_ray3d_distance_to_point M l q = 0 ↔ OnRay3 l q := by
  rw [ray3_distance_to_point_eq_closest,
    Lemmas.sqrt_eq_zero_iff M hsqrt _ (Lemmas.dsq3_nonneg _ _)]
  exact Lemmas.closest3_zero_iff .ray q l

/-- The distance is a lower bound for the distance to every point of the ray (3D). -/
theorem ray3_distance_to_point_le (M : MathOps α)
    (hsqrt : ∀ x, 0 ≤ x → M.sqrt x * M.sqrt x = x ∧ 0 ≤ M.sqrt x) (l : LR3 α) (q x : V3 α)
    (hx : OnRay3 l x) : a_ray3d_distance_to_point M l q ≤ M.sqrt (distSq3 q x) := by
  rw [ray3_distance_to_point_eq_closest]
  obtain ⟨t, ht, rfl⟩ := (Lemmas.Rng.On3_iff .ray l x).mp hx
  exact Lemmas.sqrt_le_sqrt M hsqrt _ _ (Lemmas.dsq3_nonneg _ _) (Lemmas.closest3_min .ray q l t ht)

/-- The distance is attained by a point of the ray: the generated closest point (3D). -/
theorem ray3_distance_to_point_attained (M : MathOps α) (l : LR3 α) (q : V3 α) :
    ∃ x, OnRay3 l x ∧ a_ray3d_distance_to_point M l q = M.sqrt (distSq3 q x) :=
  ⟨_, closest_point3d_on_line3d_r_on_object q l, ray3_distance_to_point_eq M l q⟩

/-- The distance to a ray is 1-Lipschitz in the query point (3D). -/
theorem ray3_distance_to_point_lipschitz (M : MathOps α)
    (hsqrt : ∀ x, 0 ≤ x → M.sqrt x * M.sqrt x = x ∧ 0 ≤ M.sqrt x) (l : LR3 α) (q1 q2 : V3 α) :
    |a_ray3d_distance_to_point M l q1 - a_ray3d_distance_to_point M l q2|
      ≤ M.sqrt (distSq3 q1 q2) := by
  rw [ray3_distance_to_point_eq_closest, ray3_distance_to_point_eq_closest]
  exact Lemmas.dist_lipschitz3 M hsqrt (Lemmas.Rng.On3 .ray l)
    (fun q => Lemmas.closest3 .ray q l) (fun q => Lemmas.closest3_on .ray q l)
    (fun q x hx => by
      obtain ⟨t, ht, rfl⟩ := (Lemmas.Rng.On3_iff .ray l x).mp hx
      exact Lemmas.closest3_min .ray q l t ht) q1 q2

/-- A ray is never farther from the query than the segment with the same `p`, `v` — 3D. -/
theorem ray3_distance_le_seg3_distance (M : MathOps α)
    (hsqrt : ∀ x, 0 ≤ x → M.sqrt x * M.sqrt x = x ∧ 0 ≤ M.sqrt x) (l : LR3 α) (q : V3 α) :
    a_ray3d_distance_to_point M l q ≤ seg3_distance_to_point M l q := by
  rw [seg3_distance_to_point_eq]
  obtain ⟨t, ht0, _, hat⟩ := closest_point3d_on_line3d_s_on_object q l
  exact ray3_distance_to_point_le M hsqrt l q _ ⟨t, ht0, hat⟩

/-- Non-vacuity (exact arithmetic, `sqrt` replaced by the identity on the squared value): the
query `(-3, 4)` lies behind the origin of the ray `(0,0) + t·(1,0)`; the closest point is the
ray origin (squared distance 25), whereas the infinite line would give 16 and a point beyond
the far end `(5, 1)` projects onto the ray (squared distance 1), not onto the end `(1, 0)`. -/
example : distSq2 (⟨-3, 4⟩ : V2 ℚ) (closest_point2d_on_line2d_r ⟨-3, 4⟩ ⟨⟨0, 0⟩, ⟨1, 0⟩⟩) = 25
    ∧ distSq2 (⟨5, 1⟩ : V2 ℚ) (closest_point2d_on_line2d_r ⟨5, 1⟩ ⟨⟨0, 0⟩, ⟨1, 0⟩⟩) = 1
    ∧ OnRay2 (⟨⟨0, 0⟩, ⟨1, 0⟩⟩ : LR2 ℚ) ⟨5, 0⟩ := by
  refine ⟨by decide +kernel, by decide +kernel, ⟨5, by decide +kernel, ?_⟩⟩
  unfold At2; constructor <;> simp

/-! ### `Arc2D.distance_to_point`, `Arc3D.distance_to_point`

The generated distance kernels inline the closest-point routine (with the conditionals pushed
outwards); they equal the square root of the squared distance from the query to the generated
`closest_point`, so every statement of `Props/C12` about `arc2_closest_point` /
`arc3_closest_point` is a statement about the point whose distance these methods report. -/

omit [IsStrictOrderedRing α] in
/-- `Arc2D.distance_to_point` is the distance from the query to `Arc2D.closest_point`. -/
theorem arc2_distance_to_point_eq (M : MathOps α) (a : Arc2S α) (q : V2 α) :
    a_arc2d_distance_to_point M a q = M.sqrt (distSq2 q (arc2_closest_point M a q)) := by
  unfold a_arc2d_distance_to_point arc2_closest_point
  simp only [apply_ite (fun p : V2 α => M.sqrt (distSq2 q p))]
  rfl

omit [IsStrictOrderedRing α] in
/-- `Arc3D.distance_to_point` is the distance from the query to `Arc3D.closest_point`. -/
theorem arc3_distance_to_point_eq (M : MathOps α) (a : Arc3S α) (q : V3 α) :
    a_arc3d_distance_to_point M a q = M.sqrt (distSq3 q (arc3_closest_point M a q)) := by
  unfold a_arc3d_distance_to_point arc3_closest_point
  simp only [apply_ite (fun p : V3 α => M.sqrt (distSq3 q p))]
  rfl

/-- Arc distances are non-negative (2D). -/
theorem arc2_distance_to_point_nonneg (M : MathOps α)
    (hsqrt : ∀ x, 0 ≤ x → M.sqrt x * M.sqrt x = x ∧ 0 ≤ M.sqrt x) (a : Arc2S α) (q : V2 α) :
    0 ≤ a_arc2d_distance_to_point M a q := by
  rw [arc2_distance_to_point_eq]
  exact (hsqrt _ (Lemmas.dsq2_nonneg _ _)).2

/-- Arc distances are non-negative (3D). -/
theorem arc3_distance_to_point_nonneg (M : MathOps α)
    (hsqrt : ∀ x, 0 ≤ x → M.sqrt x * M.sqrt x = x ∧ 0 ≤ M.sqrt x) (a : Arc3S α) (q : V3 α) :
    0 ≤ a_arc3d_distance_to_point M a q := by
  rw [arc3_distance_to_point_eq]
  exact (hsqrt _ (Lemmas.dsq3_nonneg _ _)).2

/-! ### The `closest_point` methods are the module functions

`LineSegment2D/3D.closest_point`, `Ray2D/3D.closest_point` and
`Plane.closest_points_between_line` (segment argument) are generated separately from the class
files (`Gen/Auto.lean`); they are definitionally the kernels of `intersection2d.py` /
`intersection3d.py` about which `Props/C12` proves on-object, minimality, zero-iff-on-object and
non-expansiveness.  A change of the *method* (argument order, a different helper, a local
re-implementation) breaks these equalities. -/

omit [IsStrictOrderedRing α] in
theorem seg2_closest_point_eq (l : LR2 α) (q : V2 α) :
    a_seg2d_closest_point l q = closest_point2d_on_line2d_s q l := rfl

omit [IsStrictOrderedRing α] in
theorem ray2_closest_point_eq (l : LR2 α) (q : V2 α) :
    a_ray2d_closest_point l q = closest_point2d_on_line2d_r q l := rfl

omit [IsStrictOrderedRing α] in
theorem seg3_closest_point_eq (l : LR3 α) (q : V3 α) :
    a_seg3d_closest_point l q = closest_point3d_on_line3d_s q l := rfl

omit [IsStrictOrderedRing α] in
theorem ray3_closest_point_eq (l : LR3 α) (q : V3 α) :
    a_ray3d_closest_point l q = closest_point3d_on_line3d_r q l := rfl

omit [IsStrictOrderedRing α] in
theorem plane_closest_points_between_line_eq (pl : PlaneS α) (l : LR3 α) :
    a_plane_closest_points_between_line pl l = closest_point3d_between_line3d_plane_s l pl := rfl

/-- `LineSegment2D.closest_point` lies on the segment and no point of the segment is closer. -/
theorem seg2_closest_point_method_spec (l : LR2 α) (q x : V2 α) (hx : OnSeg2 l x) :
    OnSeg2 l (a_seg2d_closest_point l q) ∧
      distSq2 q (a_seg2d_closest_point l q) ≤ distSq2 q x :=
  ⟨closest_point2d_on_line2d_s_on_object q l, closest_point2d_on_line2d_s_minimal q l x hx⟩

/-- `Ray3D.closest_point` lies on the ray and no point of the ray is closer. -/
theorem ray3_closest_point_method_spec (l : LR3 α) (q x : V3 α) (hx : OnRay3 l x) :
    OnRay3 l (a_ray3d_closest_point l q) ∧
      distSq3 q (a_ray3d_closest_point l q) ≤ distSq3 q x :=
  ⟨closest_point3d_on_line3d_r_on_object q l, closest_point3d_on_line3d_r_minimal q l x hx⟩

end Lbg.Props.C12h
