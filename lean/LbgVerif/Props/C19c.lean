/-
  C19c — `Face3D.extract_rectangle(tolerance)` (property C19, mechanism "extract_rectangle /
  _split_with_rectangle").  Subject: the LITERAL hand model `Model/ExtractRect.lean`
  (`extractRectangle`, `splitWithRectangle`, `corners`, `noOverlap`, `midOutside`, `otherFaces`,
  `topBottomHorizontalEdges`, `leftRightVerticalEdges`) on top of generated kernels.
  `corr/weld.py` (group `extract_rectangle`) runs model and real code side by side.

  What is proved:
    1. `corners_on_edges`: the four rectangle points are points of the two edges (closest points
       of a segment lie on the segment, C12) — convex combinations of the edge end points.
    2. Exactly when `None`:
       `split_none_iff`: `_split_with_rectangle` returns `None` ⇔ the no-overlap test fires, or
       the midpoint test fires, or (both pass, nothing raises and) one of the other faces is
       self-intersecting; `split_val_iff`: what it returns otherwise;
       `extract_none_of_holes`, `extract_none_of_flat` (the two guards),
       `extract_val_cases`: a returned rectangle comes from the horizontal pair (bottom edge
       `close_pt_2 → close_pt_4`, top edge `close_pt_1 → close_pt_3`) or from the vertical pair
       (sides `close_pt_1 → close_pt_2`, `close_pt_3 → close_pt_4`, the lower one first), with
       both edges taken from the boundary segments of the cleaned face;
       `extract_none_of_no_edges`: fewer than two horizontal and fewer than two vertical edges ⇒
       `None`.
    3. `rectangle_of_antiparallel_edges`: if the two edges are antiparallel (`edge_2.v = −λ
       edge_1.v`, `λ > 0`: bottom and top of a face traversed in one direction) and the
       no-overlap test passes even exactly, then both sides `close_pt_1 close_pt_2` and
       `close_pt_3 close_pt_4` are PERPENDICULAR to the edges (vertical in the face's frame when
       the edges are horizontal) and the rectangle has positive width along the edges; moreover
       `close_pt_1 ≠ edge_2.p2 → close_pt_2 = edge_1.p1` and
       `close_pt_3 ≠ edge_2.p1 → close_pt_4 = edge_1.p2` (`corner_cases_of_antiparallel`).
       For edges of the SAME direction that pass the test the quadrilateral is crossed (last
       example) — nothing is proved about that case.
    4. `area_conservation` (plane coordinates, exact comparisons): for the parent loop
       `a, a', C2, b, b', C1` (`a a'` = edge 1, `b b'` = edge 2), rectangle points on the lines of
       the edges and the other faces chosen by the code's three-way branches from the walked
       vertex lists `[a] ++ C1.reverse ++ [b']`, `[b] ++ C2.reverse ++ [a']`:
       `shoelace parent = shoelace [c2, c4, c3, c1] − shoelace other_1 − shoelace other_2`
       (the walked lists run against the parent's direction; `Face3D(…)` re-orients them), under
       the corner conditions of 3.

  NOT proved: that the literal walk `_vertices_between_points` returns exactly
  `[a] ++ C1.reverse ++ [b']` (it stops at the FIRST vertex within `tol` of the end point);
  with a positive tolerance the identity of 4 holds up to slivers of width `tol`; that the
  pieces do not overlap (needs simplicity of the parent); floats.
-/
import LbgVerif.Model.ExtractRect
import LbgVerif.Lemmas.ExtractRect
import LbgVerif.Props.C12
import LbgVerif.Lemmas.Shoelace
import Mathlib.Tactic.Ring
import Mathlib.Tactic.Linarith
import Mathlib.Tactic.FieldSimp
import Mathlib.Algebra.Order.Field.Rat

set_option linter.unusedSectionVars false
set_option linter.unusedVariables false
set_option linter.unusedSimpArgs false

namespace Lbg.Props.C19c
open Lbg Lbg.Gen Lbg.Lemmas Lbg.Model.ExtractRect Lbg.Lemmas.ExtractRect

variable {α : Type} [Field α] [LinearOrder α] [IsStrictOrderedRing α]

/-! ## 1. The rectangle points lie on the two edges -/

/-- **Corners on the edges** — `close_pt_1`, `close_pt_3` are points of `edge_2` and
`close_pt_2`, `close_pt_4` points of `edge_1` (`p + t v` with `0 ≤ t ≤ 1`), for any two
segments. -/
theorem corners_on_edges (e1 e2 : LR3 α) :
    C12.OnSeg3 e2 (corners e1 e2).1 ∧ C12.OnSeg3 e1 (corners e1 e2).2.1 ∧
    C12.OnSeg3 e2 (corners e1 e2).2.2.1 ∧ C12.OnSeg3 e1 (corners e1 e2).2.2.2 :=
  ⟨C12.closest_point3d_on_line3d_s_on_object _ _, C12.closest_point3d_on_line3d_s_on_object _ _,
    C12.closest_point3d_on_line3d_s_on_object _ _, C12.closest_point3d_on_line3d_s_on_object _ _⟩

/-! ## 2. Exactly when `None` -/

/-- **`_split_with_rectangle` returns `None`** exactly when the no-overlap test fires, or the
midpoint test fires, or both pass, the other faces are built without an exception and one of
them is self-intersecting. -/
theorem split_none_iff (M : MathOps α) (verts : List (V3 α)) (pl : PlaneS α) (e1 e2 : LR3 α)
    (tol : α) :
    splitWithRectangle M verts pl e1 e2 tol = Res.none ↔
      noOverlap e1 e2 tol = true ∨ midOutside M verts pl e1 e2 tol = true ∨
      ∃ others, otherFaces verts pl e1 e2 tol = some others ∧
        others.any (fun vs => face3d_is_self_intersecting vs pl) = true := by
  unfold splitWithRectangle
  by_cases h1 : noOverlap e1 e2 tol = true
  · simp [h1]
  by_cases h2 : midOutside M verts pl e1 e2 tol = true
  · simp [h1, h2]
  simp only [h1, h2, if_false, false_or, Bool.false_eq_true]
  cases ho : otherFaces verts pl e1 e2 tol with
  | none => simp
  | some others =>
    simp only [Option.some.injEq]
    constructor
    · intro h
      refine ⟨others, rfl, ?_⟩
      by_contra h3
      rw [if_neg h3] at h
      cases h
    · rintro ⟨o, rfl, h3⟩
      rw [if_pos h3]

/-- **… and returns a value** exactly when both tests pass, nothing raises and no other face is
self-intersecting; the value is the four closest points and the other faces. -/
theorem split_val_iff (M : MathOps α) (verts : List (V3 α)) (pl : PlaneS α) (e1 e2 : LR3 α)
    (tol : α) (r : (V3 α × V3 α × V3 α × V3 α) × List (List (V3 α))) :
    splitWithRectangle M verts pl e1 e2 tol = Res.val r ↔
      noOverlap e1 e2 tol = false ∧ midOutside M verts pl e1 e2 tol = false ∧
      otherFaces verts pl e1 e2 tol = some r.2 ∧
      r.2.any (fun vs => face3d_is_self_intersecting vs pl) = false ∧
      r.1 = corners e1 e2 := by
  unfold splitWithRectangle
  by_cases h1 : noOverlap e1 e2 tol = true
  · simp [h1]
  by_cases h2 : midOutside M verts pl e1 e2 tol = true
  · simp [h1, h2]
  have h1' : noOverlap e1 e2 tol = false := by simpa using h1
  have h2' : midOutside M verts pl e1 e2 tol = false := by simpa using h2
  simp only [h1', h2', if_false, true_and, Bool.false_eq_true]
  cases ho : otherFaces verts pl e1 e2 tol with
  | none => simp
  | some others =>
    by_cases h3 : others.any (fun vs => face3d_is_self_intersecting vs pl) = true
    · simp only [h3, if_true, Option.some.injEq]
      constructor
      · intro h; cases h
      · rintro ⟨rfl, h, _⟩; rw [h3] at h; cases h
    · have h3' : others.any (fun vs => face3d_is_self_intersecting vs pl) = false := by
        simpa using h3
      simp only [h3', if_false, Bool.false_eq_true, Res.val.injEq, Option.some.injEq]
      constructor
      · rintro rfl; exact ⟨rfl, h3', rfl⟩
      · rintro ⟨h, _, hc⟩
        exact Prod.ext hc.symm h

/-- At most two other faces. -/
theorem otherFaces_length (verts : List (V3 α)) (pl : PlaneS α) (e1 e2 : LR3 α) (tol : α)
    (others : List (List (V3 α))) (h : otherFaces verts pl e1 e2 tol = some others) :
    others.length ≤ 2 := by
  unfold otherFaces at h
  simp only [] at h
  split at h
  · cases h
  · split_ifs at h
    split at h
    · cases h
    · split_ifs at h
      cases h
      rw [List.length_append]
      have : ∀ o : Option (List (V3 α)), o.toList.length ≤ 1 := by
        intro o; cases o <;> simp
      exact Nat.add_le_add (this _) (this _)

/-- **Guard 1**: a face with holes gives `None`. -/
theorem extract_none_of_holes (M : MathOps α) (verts : List (V3 α)) (pl : PlaneS α) (tol : α) :
    extractRectangle M true verts pl tol = Res.none := by
  unfold extractRectangle; simp

/-- **Guard 2**: a face in a horizontal plane (`|n.x| ≤ tol` and `|n.y| ≤ tol`) gives `None`. -/
theorem extract_none_of_flat (M : MathOps α) (hh : Bool) (verts : List (V3 α)) (pl : PlaneS α)
    (tol : α) (hx : |pl.n.x| ≤ tol) (hy : |pl.n.y| ≤ tol) :
    extractRectangle M hh verts pl tol = Res.none := by
  unfold extractRectangle
  cases hh <;> simp [hx, hy]

/-- **Where a returned rectangle comes from** — if `extract_rectangle` returns
`(bottom, top, others)` then the face has no holes, is not flat, colinear-vertex removal gave a
cleaned vertex list `cv`, and EITHER the two lowest horizontal boundary segments `(e1, e2)` of
the cleaned face passed `_split_with_rectangle`, `bottom = close_pt_2 → close_pt_4`,
`top = close_pt_1 → close_pt_3`; OR the extreme vertical boundary segments `(e1, e2)` passed it
and `{bottom, top} = {close_pt_1 → close_pt_2, close_pt_3 → close_pt_4}` with `bottom` the one
whose start point is not higher. -/
theorem extract_val_cases (M : MathOps α) (hh : Bool) (verts : List (V3 α)) (pl : PlaneS α)
    (tol : α) (r : Rect α) (h : extractRectangle M hh verts pl tol = Res.val r) :
    hh = false ∧ ¬ (|pl.n.x| ≤ tol ∧ |pl.n.y| ≤ tol) ∧
    ∃ cv, Lbg.Model.Outward.removeColinear M ⟨verts, pl⟩ tol = some cv ∧
      ((∃ e1 e2, topBottomHorizontalEdges cv pl tol = some (e1, e2) ∧
          splitWithRectangle M cv pl e1 e2 tol = Res.val (corners e1 e2, r.others) ∧
          r.bottom = seg3_from_end_points (corners e1 e2).2.1 (corners e1 e2).2.2.2 ∧
          r.top = seg3_from_end_points (corners e1 e2).1 (corners e1 e2).2.2.1) ∨
       (∃ e1 e2, leftRightVerticalEdges cv pl tol = some (e1, e2) ∧
          splitWithRectangle M cv pl e1 e2 tol = Res.val (corners e1 e2, r.others) ∧
          ((r.bottom = seg3_from_end_points (corners e1 e2).1 (corners e1 e2).2.1 ∧
            r.top = seg3_from_end_points (corners e1 e2).2.2.1 (corners e1 e2).2.2.2) ∨
           (r.bottom = seg3_from_end_points (corners e1 e2).2.2.1 (corners e1 e2).2.2.2 ∧
            r.top = seg3_from_end_points (corners e1 e2).1 (corners e1 e2).2.1)) ∧
          r.bottom.p.z ≤ r.top.p.z)) := by
  unfold extractRectangle at h
  cases hh with
  | true => simp at h
  | false =>
    by_cases hf : |pl.n.x| ≤ tol ∧ |pl.n.y| ≤ tol
    · simp [hf] at h
    · refine ⟨rfl, hf, ?_⟩
      simp only [Bool.false_eq_true, if_false, hf] at h
      cases hc : Lbg.Model.Outward.removeColinear M ⟨verts, pl⟩ tol with
      | none => rw [hc] at h; cases h
      | some cv =>
        rw [hc] at h
        refine ⟨cv, rfl, ?_⟩
        simp only [] at h
        -- the vertical attempt, as a separate fact
        have vert : ∀ r' : Rect α,
            (match leftRightVerticalEdges cv pl tol with
              | none => Res.none
              | some (l, rr) =>
                match splitWithRectangle M cv pl l rr tol with
                | Res.raises => Res.raises
                | Res.none => Res.none
                | Res.val ((c1, c2, c3, c4), others) =>
                  if (seg3_from_end_points c3 c4).p.z < (seg3_from_end_points c1 c2).p.z then
                    Res.val ⟨seg3_from_end_points c3 c4, seg3_from_end_points c1 c2, others⟩
                  else Res.val ⟨seg3_from_end_points c1 c2, seg3_from_end_points c3 c4, others⟩)
              = Res.val r' →
            ∃ e1 e2, leftRightVerticalEdges cv pl tol = some (e1, e2) ∧
              splitWithRectangle M cv pl e1 e2 tol = Res.val (corners e1 e2, r'.others) ∧
              ((r'.bottom = seg3_from_end_points (corners e1 e2).1 (corners e1 e2).2.1 ∧
                r'.top = seg3_from_end_points (corners e1 e2).2.2.1 (corners e1 e2).2.2.2) ∨
               (r'.bottom = seg3_from_end_points (corners e1 e2).2.2.1 (corners e1 e2).2.2.2 ∧
                r'.top = seg3_from_end_points (corners e1 e2).1 (corners e1 e2).2.1)) ∧
              r'.bottom.p.z ≤ r'.top.p.z := by
          intro r' hv
          cases hlr : leftRightVerticalEdges cv pl tol with
          | none => rw [hlr] at hv; cases hv
          | some lr =>
            obtain ⟨l, rr⟩ := lr
            rw [hlr] at hv
            simp only [] at hv
            cases hs : splitWithRectangle M cv pl l rr tol with
            | raises => rw [hs] at hv; cases hv
            | none => rw [hs] at hv; cases hv
            | val v =>
              obtain ⟨⟨c1, c2, c3, c4⟩, others⟩ := v
              rw [hs] at hv
              simp only [] at hv
              have hcs := ((split_val_iff M cv pl l rr tol _).mp hs).2.2.2.2
              simp only at hcs
              refine ⟨l, rr, rfl, ?_⟩
              split_ifs at hv with hz
              · cases hv
                refine ⟨by rw [hs, hcs], Or.inr ?_, le_of_lt hz⟩
                rw [← hcs]; exact ⟨rfl, rfl⟩
              · cases hv
                refine ⟨by rw [hs, hcs], Or.inl ?_, not_lt.mp hz⟩
                rw [← hcs]; exact ⟨rfl, rfl⟩
        cases htb : topBottomHorizontalEdges cv pl tol with
        | none =>
          rw [htb] at h
          exact Or.inr (vert r h)
        | some bt =>
          obtain ⟨b, t⟩ := bt
          rw [htb] at h
          simp only [] at h
          cases hs : splitWithRectangle M cv pl b t tol with
          | raises => rw [hs] at h; cases h
          | none => rw [hs] at h; exact Or.inr (vert r h)
          | val v =>
            obtain ⟨⟨c1, c2, c3, c4⟩, others⟩ := v
            rw [hs] at h
            simp only [] at h
            cases h
            have hcs := ((split_val_iff M cv pl b t tol _).mp hs).2.2.2.2
            simp only at hcs
            refine Or.inl ⟨b, t, rfl, by rw [hs, hcs], ?_, ?_⟩ <;> rw [← hcs]

/-- **No candidate edges** — if colinear-vertex removal succeeds and the cleaned face has
neither two horizontal nor two vertical boundary segments, the answer is `None`. -/
theorem extract_none_of_no_edges (M : MathOps α) (verts : List (V3 α)) (pl : PlaneS α) (tol : α)
    (cv : List (V3 α)) (hc : Lbg.Model.Outward.removeColinear M ⟨verts, pl⟩ tol = some cv)
    (hh : topBottomHorizontalEdges cv pl tol = none)
    (hv : leftRightVerticalEdges cv pl tol = none) :
    extractRectangle M false verts pl tol = Res.none := by
  unfold extractRectangle
  simp only [Bool.false_eq_true, if_false]
  split_ifs
  · rfl
  · rw [hc]
    simp only [hh, hv]

/-! ## 3. Antiparallel edges: the quadrilateral is a rectangle -/

section antiparallel

/-- The direction of `edge_2` is a negative multiple of the direction of `edge_1`. -/
def Antiparallel (e1 e2 : LR3 α) (lam : α) : Prop :=
  0 < lam ∧ e2.v = V3.smul (-lam) e1.v

/-- **The quadrilateral is a rectangle** — for antiparallel edges of non-zero length that pass
the no-overlap test exactly (`close_pt_1 ≠ edge_2.p1`, `close_pt_3 ≠ edge_2.p2`; implied by the
code's test for every `tol ≥ 0`): the sides `close_pt_1 close_pt_2` and `close_pt_3 close_pt_4`
are perpendicular to the direction of the edges (vertical in the face's frame when the edges
are horizontal), and the rectangle has positive width: `close_pt_3` lies strictly ahead of
`close_pt_1` along `edge_1`'s direction. -/
theorem rectangle_of_antiparallel_edges (e1 e2 : LR3 α) (lam : α) (h : Antiparallel e1 e2 lam)
    (hu : V3.normSq e1.v ≠ 0)
    (h1 : (corners e1 e2).1 ≠ e2.p) (h3 : (corners e1 e2).2.2.1 ≠ seg3_p2 e2) :
    V3.dot (V3.sub (corners e1 e2).1 (corners e1 e2).2.1) e1.v = 0 ∧
    V3.dot (V3.sub (corners e1 e2).2.2.1 (corners e1 e2).2.2.2) e1.v = 0 ∧
    0 < V3.dot (V3.sub (corners e1 e2).2.2.1 (corners e1 e2).1) e1.v := by
  obtain ⟨A, u⟩ := e1
  obtain ⟨B, w⟩ := e2
  obtain ⟨hl, hw⟩ := h
  simp only at hw hu h1 h3
  subst hw
  rw [p2_eq] at h3
  obtain ⟨hb, hbl⟩ := overlap_of_pass A u B lam hl hu h1 h3
  have hp := corners_param A u B lam hl hu
  simp only at hp
  rw [hp]
  simp only
  set β := V3.dot (V3.sub B A) u / V3.normSq u with hβ
  have hd : V3.dot (V3.sub B A) u = β * V3.normSq u := by
    rw [hβ]; field_simp
  have hpos : 0 < V3.normSq u := by
    have : 0 ≤ V3.normSq u := by
      simp only [V3.normSq]
      nlinarith [mul_self_nonneg u.x, mul_self_nonneg u.y, mul_self_nonneg u.z]
    exact lt_of_le_of_ne this (Ne.symm hu)
  have s1 := clamp_side1 hl hb hbl
  have s2 := clamp_side2 hl hb hbl
  have s3 := clamp_width hl hb hbl
  -- the three dot products as multiples of `u·u`
  have e1 : V3.dot (V3.sub (V3.add B (V3.smul (clamp01 (β / lam)) (V3.smul (-lam) u)))
      (V3.add A (V3.smul (clamp01 (β - lam)) u))) u =
      (β - lam * clamp01 (β / lam) - clamp01 (β - lam)) * V3.normSq u := by
    have : V3.dot (V3.sub (V3.add B (V3.smul (clamp01 (β / lam)) (V3.smul (-lam) u)))
        (V3.add A (V3.smul (clamp01 (β - lam)) u))) u =
        V3.dot (V3.sub B A) u - lam * clamp01 (β / lam) * V3.normSq u -
          clamp01 (β - lam) * V3.normSq u := by
      simp only [V3.dot, V3.sub, V3.add, V3.smul, V3.normSq]; ring
    rw [this, hd]; ring
  have e2 : V3.dot (V3.sub (V3.add B (V3.smul (clamp01 ((β - 1) / lam)) (V3.smul (-lam) u)))
      (V3.add A (V3.smul (clamp01 β) u))) u =
      (β - lam * clamp01 ((β - 1) / lam) - clamp01 β) * V3.normSq u := by
    have : V3.dot (V3.sub (V3.add B (V3.smul (clamp01 ((β - 1) / lam)) (V3.smul (-lam) u)))
        (V3.add A (V3.smul (clamp01 β) u))) u =
        V3.dot (V3.sub B A) u - lam * clamp01 ((β - 1) / lam) * V3.normSq u -
          clamp01 β * V3.normSq u := by
      simp only [V3.dot, V3.sub, V3.add, V3.smul, V3.normSq]; ring
    rw [this, hd]; ring
  have e3 : V3.dot (V3.sub (V3.add B (V3.smul (clamp01 ((β - 1) / lam)) (V3.smul (-lam) u)))
      (V3.add B (V3.smul (clamp01 (β / lam)) (V3.smul (-lam) u)))) u =
      lam * (clamp01 (β / lam) - clamp01 ((β - 1) / lam)) * V3.normSq u := by
    simp only [V3.dot, V3.sub, V3.add, V3.smul, V3.normSq]; ring
  refine ⟨?_, ?_, ?_⟩
  · rw [e1, s1]; ring
  · rw [e2, s2]; ring
  · rw [e3]
    exact mul_pos (mul_pos hl (by linarith)) hpos

/-- **Which corners coincide with end points** (antiparallel edges passing the test):
if `close_pt_1` is not the end of `edge_2` then `close_pt_2` is the start of `edge_1`, and if
`close_pt_3` is not the start of `edge_2` then `close_pt_4` is the end of `edge_1` — so the
first branch of each `other_faces` block closes its face along a side of the rectangle. -/
theorem corner_cases_of_antiparallel (e1 e2 : LR3 α) (lam : α) (h : Antiparallel e1 e2 lam)
    (hu : V3.normSq e1.v ≠ 0)
    (h1 : (corners e1 e2).1 ≠ e2.p) (h3 : (corners e1 e2).2.2.1 ≠ seg3_p2 e2) :
    ((corners e1 e2).1 ≠ seg3_p2 e2 → (corners e1 e2).2.1 = e1.p) ∧
    ((corners e1 e2).2.2.1 ≠ e2.p → (corners e1 e2).2.2.2 = seg3_p2 e1) := by
  obtain ⟨A, u⟩ := e1
  obtain ⟨B, w⟩ := e2
  obtain ⟨hl, hw⟩ := h
  simp only at hw hu h1 h3
  subst hw
  rw [p2_eq] at h3
  obtain ⟨hb, hbl⟩ := overlap_of_pass A u B lam hl hu h1 h3
  have hp := corners_param A u B lam hl hu
  simp only at hp
  rw [hp]
  simp only [p2_eq]
  set β := V3.dot (V3.sub B A) u / V3.normSq u
  constructor
  · intro hne
    -- close_pt_1 ≠ B + w means clamp01 (β/λ) ≠ 1, i.e. β < λ, so clamp01 (β − λ) = 0
    have hlt : β < lam := by
      by_contra hge
      have : 1 ≤ β / lam := (one_le_div hl).mpr (not_lt.mp hge)
      rw [clamp01_of_one_le this] at hne
      apply hne
      simp [V3.add, V3.smul]
    rw [clamp01_of_nonpos (by linarith)]
    simp [V3.add, V3.smul]
  · intro hne
    -- close_pt_3 ≠ B means clamp01 ((β−1)/λ) ≠ 0, i.e. β > 1, so clamp01 β = 1
    have hgt : 1 < β := by
      by_contra hle
      have : (β - 1) / lam ≤ 0 :=
        div_nonpos_of_nonpos_of_nonneg (by linarith [not_lt.mp hle]) hl.le
      rw [clamp01_of_nonpos this] at hne
      apply hne
      simp [V3.add, V3.smul]
    rw [clamp01_of_one_le hgt.le]
    simp [V3.add, V3.smul]

end antiparallel

/-! ## 4. Area conservation (plane coordinates, exact comparisons) -/

section area

/-- **Area conservation** — parent loop `a, a', C2, b, b', C1` (`a a'` = `edge_1`, `b b'` =
`edge_2`, `C2` / `C1` the boundary chains between them), rectangle points `c2, c4` on the line
of `edge_1` and `c3, c1` on the line of `edge_2` (parametric form), other faces chosen by the
code's branches — with exact comparisons — from the walked vertex lists
`[a] ++ C1.reverse ++ [b']` and `[b] ++ C2.reverse ++ [a']`.  If `c1 ≠ b' → c2 = a` and
`c3 ≠ b → c4 = a'` (true for antiparallel edges, `corner_cases_of_antiparallel`), the doubled
signed areas satisfy

    parent = rectangle [c2, c4, c3, c1] − other_1 − other_2 .

The walked lists run against the parent's direction, so for a counter-clockwise parent the
other faces have negative signed area as lists (`Face3D(…, plane)` reverses them): the parent's
area is the sum of the areas of the rectangle and the other faces. -/
theorem area_conservation (a a' b b' : V2 α) (C1 C2 : List (V2 α)) (s1 s2 s3 s4 : α)
    (h12 : lerp b b' s1 ≠ b' → lerp a a' s2 = a)
    (h34 : lerp b b' s3 ≠ b → lerp a a' s4 = a') :
    shoelace ([a, a'] ++ C2 ++ [b, b'] ++ C1) =
      shoelace [lerp a a' s2, lerp a a' s4, lerp b b' s3, lerp b b' s1]
      - optSh (otherLoop ([a] ++ C1.reverse ++ [b']) (lerp b b' s1) b' (lerp a a' s2) a)
      - optSh (otherLoop ([b] ++ C2.reverse ++ [a']) (lerp b b' s3) b (lerp a a' s4) a') := by
  rw [shoelace_rect_split a a' b b' C1 C2 s2 s4 s3 s1,
    side_loop_A a b' (lerp b b' s1) (lerp a a' s2) C1 h12,
    side_loop_B b a' (lerp a a' s4) (lerp b b' s3) C2 h34]
  ring

end area

/-! ### Non-vacuity -/

section examples
open Lbg.Model.Outward (ratOps)

/-- The plane `y = 0` seen from `−y` (normal `(0, −1, 0)`, x-axis `(1, 0, 0)`, y-axis `(0, 0, 1)`). -/
def wallPlane : PlaneS ℚ := ⟨⟨0, -1, 0⟩, ⟨0, 0, 0⟩, 0, ⟨1, 0, 0⟩, ⟨0, 0, 1⟩⟩

/-- A trapezoidal wall, bottom `8` wide, top `5` wide. -/
def trapezoid : List (V3 ℚ) := [⟨0, 0, 0⟩, ⟨8, 0, 0⟩, ⟨6, 0, 3⟩, ⟨1, 0, 3⟩]

/-- `_split_with_rectangle` of the model on the trapezoid with its bottom and top edge (exact
square roots): the rectangle points `(1,0,3), (1,0,0), (6,0,3), (6,0,0)` and the two triangles
left and right of the rectangle (re-oriented by `Face3D(…, plane)`). -/
example : (match splitWithRectangle ratOps trapezoid wallPlane ⟨⟨0, 0, 0⟩, ⟨8, 0, 0⟩⟩
      ⟨⟨6, 0, 3⟩, ⟨-5, 0, 0⟩⟩ (1 / 100) with
    | Res.val r => some r
    | _ => none) =
    some ((⟨1, 0, 3⟩, ⟨1, 0, 0⟩, ⟨6, 0, 3⟩, ⟨6, 0, 0⟩),
      [[⟨1, 0, 0⟩, ⟨1, 0, 3⟩, ⟨0, 0, 0⟩], [⟨6, 0, 0⟩, ⟨8, 0, 0⟩, ⟨6, 0, 3⟩]]) := by
  decide +kernel

/-- Its bottom and top edges are antiparallel (`λ = 5/8`), pass the no-overlap test exactly and
have non-zero length: the hypotheses of `rectangle_of_antiparallel_edges`. -/
example :
    let e1 : LR3 ℚ := ⟨⟨0, 0, 0⟩, ⟨8, 0, 0⟩⟩
    let e2 : LR3 ℚ := ⟨⟨6, 0, 3⟩, ⟨-5, 0, 0⟩⟩
    Antiparallel e1 e2 (5 / 8) ∧ V3.normSq e1.v ≠ 0 ∧
    (corners e1 e2).1 ≠ e2.p ∧ (corners e1 e2).2.2.1 ≠ seg3_p2 e2 ∧
    corners e1 e2 = (⟨1, 0, 3⟩, ⟨1, 0, 0⟩, ⟨6, 0, 3⟩, ⟨6, 0, 0⟩) := by
  unfold Antiparallel
  decide +kernel

/-- `area_conservation` on the trapezoid in plane coordinates `(x, z)`:
`39 = 30 − (−3) − (−6)` (doubled areas; the walked other faces are clockwise). -/
example :
    let a : V2 ℚ := ⟨0, 0⟩
    let a' : V2 ℚ := ⟨8, 0⟩
    let b : V2 ℚ := ⟨6, 3⟩
    let b' : V2 ℚ := ⟨1, 3⟩
    (lerp b b' 1 ≠ b' → lerp a a' (1 / 8) = a) ∧ (lerp b b' 0 ≠ b → lerp a a' (3 / 4) = a') ∧
    shoelace ([a, a'] ++ [] ++ [b, b'] ++ []) = 39 ∧
    shoelace [lerp a a' (1 / 8), lerp a a' (3 / 4), lerp b b' 0, lerp b b' 1] = 30 ∧
    optSh (otherLoop ([a] ++ [].reverse ++ [b']) (lerp b b' 1) b' (lerp a a' (1 / 8)) a) = -3 ∧
    optSh (otherLoop ([b] ++ [].reverse ++ [a']) (lerp b b' 0) b (lerp a a' (3 / 4)) a') = -6 := by
  decide +kernel

/-- **Edges of the same direction** (note): `edge_1 = (2,0,0) → (4,0,0)`, `edge_2 = (0,0,1) →
(6,0,1)` pass the no-overlap test, but the "sides" `close_pt_1 close_pt_2` and
`close_pt_3 close_pt_4` are the two DIAGONALS of the rectangle `[2,4] × [0,1]`: the returned
bottom `(4,0,0) → (2,0,0)` and top `(2,0,1) → (4,0,1)` run in opposite directions.  (A simple
polygon with such a pair as its two lowest horizontal edges is rejected by the midpoint test in
the cases tried; nothing is proved about this case.) -/
example :
    let e1 : LR3 ℚ := ⟨⟨2, 0, 0⟩, ⟨2, 0, 0⟩⟩
    let e2 : LR3 ℚ := ⟨⟨0, 0, 1⟩, ⟨6, 0, 0⟩⟩
    noOverlap e1 e2 (1 / 100) = false ∧
    corners e1 e2 = (⟨2, 0, 1⟩, ⟨4, 0, 0⟩, ⟨4, 0, 1⟩, ⟨2, 0, 0⟩) := by
  decide +kernel

end examples

end Lbg.Props.C19c
