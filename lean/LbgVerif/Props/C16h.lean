/-
  C16h — 2D / 3D siblings of the vertex clean-up: the GENERATED
  `Polyline3D.remove_colinear_vertices` on the embedded vertices `(x, y) ↦ (x, y, 0)`
  (`Point3D.from_point2d`, generated `p3_from_point2d · 0`) is the embedding of the GENERATED
  `Polyline2D.remove_colinear_vertices` — although the 2D routine tests `|determinant sum|` and
  the 3D routine the magnitude of a cross product.  Proved through the ties of `Props/C15g`
  (generated = hand model) and the equality of the two squared-form tests on embedded points.
-/
import LbgVerif.Gen.Polyline
import LbgVerif.Gen.Auto2
import LbgVerif.Model.Colinear
import LbgVerif.Props.C15
import LbgVerif.Props.C15g
import Mathlib.Tactic.Ring
import Mathlib.Algebra.Order.Field.Rat

set_option linter.unusedSectionVars false

namespace Lbg.Props.C16h
open Lbg Lbg.Gen Lbg.Model.Colinear Lbg.Props.C15g
variable {α : Type} [Field α] [LinearOrder α] [IsStrictOrderedRing α]

/-- The embedding `Point3D.from_point2d(p)` (default `z = 0`), by the generated kernel. -/
def emb (p : V2 α) : V3 α := p3_from_point2d p 0

/-- On embedded points the 3D collinearity test (squared form: `|cross|²`) is the 2D test
(squared form: `(determinant sum)²`). -/
theorem keep3_emb (tol : α) (a b c : V2 α) :
    keep3 tol (emb a) (emb b) (emb c) = keep2 tol a b c := by
  have ha : v3_magnitude_squared (cross3 (emb a) (emb b) (emb c))
      = twiceArea2 a b c * twiceArea2 a b c := by
    unfold v3_magnitude_squared cross3 v3_cross V3.sub emb p3_from_point2d twiceArea2
      v2_determinant
    simp only []
    ring
  have hb : chordSq3 (emb a) (emb c) = chordSq2 a c := by
    unfold chordSq3 chordSq2 emb p3_from_point2d
    simp only []
    ring
  unfold keep3 keep2
  simp only [ha, hb]

/-- Reading a position of the embedded list is embedding the vertex read in the 2D list (also
for the filler of out-of-range positions, because `emb (0, 0) = (0, 0, 0)`). -/
theorem getD_map_emb (vs : List (V2 α)) (i : Nat) :
    (vs.map emb).getD i (⟨0, 0, 0⟩ : V3 α) = emb (vs.getD i ⟨0, 0⟩) := by
  simp only [List.getD_eq_getElem?_getD, List.getElem?_map]
  cases vs[i]? with
  | none => simp [emb, p3_from_point2d]
  | some v => rfl

/-- The hand models agree: the 3D scan on the embedded vertices keeps the same positions as the
2D scan. -/
theorem removeColinearPolyline3Idx_emb (tol : α) (vs : List (V2 α)) :
    removeColinearPolyline3Idx tol (vs.map emb) = removeColinearPolyline2Idx tol vs := by
  unfold removeColinearPolyline3Idx removeColinearPolyline2Idx
  rw [List.length_map]
  congr 1
  funext i2 i1 i0
  unfold keepAt
  rw [getD_map_emb, getD_map_emb, getD_map_emb, keep3_emb]

/-- Vertices at positions of the embedded list. -/
theorem verts_map_emb (vs : List (V2 α)) (idx : List Nat) :
    verts (⟨0, 0, 0⟩ : V3 α) (vs.map emb) idx = (verts ⟨0, 0⟩ vs idx).map emb := by
  unfold verts
  rw [List.map_map]
  apply List.map_congr_left
  intro i _
  exact getD_map_emb vs i

/-- The constructor check commutes with a vertex map. -/
theorem ctor3_map {V W : Type} (f : V → W) (r : List V) :
    ctor3 (r.map f) = (ctor3 r).map (List.map f) := by
  unfold ctor3
  rw [List.length_map]
  split_ifs <;> rfl

/-- **C16 (generated code): `Polyline3D.remove_colinear_vertices` of the embedded polyline is
the embedding of `Polyline2D.remove_colinear_vertices`**, for every `sqrt` obeying the law of
the square root, `tol ≥ 0` and at least 3 vertices (the constructors' invariant); exceptions
(`none`) correspond. -/
theorem polyline3_remove_colinear_vertices_emb (M : MathOps α)
    (hsqrt : ∀ x, 0 ≤ x → M.sqrt x * M.sqrt x = x ∧ 0 ≤ M.sqrt x)
    (vs : List (V2 α)) (i j : Bool) (tol : α) (htol : 0 ≤ tol) (h3 : 3 ≤ vs.length) :
    polyline3_remove_colinear_vertices M (vs.map emb) i tol =
      (polyline2_remove_colinear_vertices M vs j tol).map (List.map emb) := by
  rw [polyline3_remove_colinear_vertices_eq_squared M hsqrt (vs.map emb) i tol htol
      (by rw [List.length_map]; exact h3),
    polyline2_remove_colinear_vertices_eq_squared M hsqrt vs j tol htol h3]
  unfold removeColinearPolyline3 removeColinearPolyline2
  rw [removeColinearPolyline3Idx_emb, verts_map_emb, ctor3_map]

/-! ### Non-vacuity -/

example : keep3 (1/100 : ℚ) (emb ⟨0, 0⟩) (emb ⟨1, 0⟩) (emb ⟨2, 0⟩) = false ∧
    keep2 (1/100 : ℚ) ⟨0, 0⟩ ⟨1, 0⟩ ⟨2, 0⟩ = false ∧
    keep3 (1/100 : ℚ) (emb ⟨0, 0⟩) (emb ⟨1, 1⟩) (emb ⟨2, 0⟩) = true := by decide +kernel

end Lbg.Props.C16h
