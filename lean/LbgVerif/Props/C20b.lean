/-
  C20b — "… writing a Mesh3D to OBJ and reading it back reproduces vertices and faces exactly,
  and via ASCII STL reproduces the triangulated faces to 1e-6 relative without failing on quad
  faces"; "triangulating keeps surviving faces and colours aligned".          (C20, part 2)

  Subject: the literal token-line models `Model/Interop.lean` of `interop/obj.py`,
  `interop/stl.py`, `Mesh3D.to_obj / from_obj / to_stl / from_stl`,
  `MeshBase._interpret_input_from_face_vertices` and the colour loop of `Mesh2D.triangulated`,
  tied to the real code by `corr/interop.py` through real temporary files (token lines of the
  written files, reader results on written and hand-written files, every error branch).

  Number printing is the parameter `fmt : α → α` ("value of the text printed for x"):
  the identity for OBJ (`'{}'` = shortest round-trip repr; TRUSTED), rounding to 7 significant
  digits for STL (`'{:.6E}'`).  All theorems hold for every `fmt`; the `…_exact` corollaries
  specialise to `fmt = id` / to numbers whose 7-digit text is exact.

  What is proved (for every mesh satisfying exactly the guards of `Mesh3D.__init__`,
  `MeshOk`; `meshOk_iff_constructor`):
  A. OBJ object level — `OBJ.from_file (OBJ.to_file o)` = `o` with numbers through `fmt`, faces
     triangulated `(0,1,2),(2,3,0)` if requested, texture coordinates / normals / colours
     aligned one per vertex, `usemtl diffuse_0` for `include_mtl`.
  B. `Mesh3D.from_obj ∘ Mesh3D.to_obj`, all option combinations: the writer never fails, the
     reader returns the mesh the constructor builds from the same vertices and faces (exactly
     for `fmt = id`); with face colours + `include_colors` the unrolled mesh has the same face
     corner POINTS in order, `Σ len(face)` vertices, one colour per corner; with
     `triangulate_quads` the faces are `stl_split` of the original ones.
  C. STL — `STL.from_mesh3d` never fails on quads: the triangles are `stl_split` of the faces in
     order (as points), count = #tris + 2·#quads, each with its face's normal (cold: the
     generated kernels `mesh3d_normal_area_tri/quad`); the text reader returns exactly the
     written triangles and normals (through `fmt`); `Mesh3D.from_stl` welds equal points and
     its faces look up the same corner points in order; the Newell vectors of the two triangles
     of a quad add up to the quad's.
  D. `Mesh2D.triangulated` — new faces and new face colours stay aligned (each triangle carries
     the colour of the quad it came from), vertex colours are passed unchanged, and the two
     triangles of either diagonal have the quad's signed area.

  NOT proved here (correspondence only): the material structure with several materials
  (`usemtl` insertion and the index shift under triangulation), the binary STL reader, the
  error branches of the readers, `_calculate_vertex_normals`.
-/
import LbgVerif.Gen.Mesh
import LbgVerif.Model.Interop
import LbgVerif.Lemmas.Interop
import LbgVerif.Lemmas.Shoelace
import LbgVerif.Lemmas.Newell
import Mathlib.Tactic.Ring
import Mathlib.Tactic.Linarith
import Mathlib.Tactic.SplitIfs
import Mathlib.Tactic.NormNum
import Mathlib.Algebra.Order.Field.Rat

set_option linter.unusedSectionVars false
set_option linter.unusedVariables false
set_option linter.unusedSimpArgs false

namespace Lbg.Props.C20b
open Lbg Lbg.Gen Lbg.Lemmas Lbg.Model Lbg.Model.Interop Lbg.Lemmas.Interop
variable {α : Type} [Field α] [LinearOrder α] [IsStrictOrderedRing α]

/-! ## Guards -/

/-- `MeshOk` is exactly "the `Mesh3D` constructor accepts these vertices, faces and colours and
derives this `is_color_by_face`". -/
theorem meshOk_iff_constructor (m : Mesh3I α) :
    MeshOk m ↔
      mkMesh m.vertices m.faces m.colors =
        .ok ⟨m.vertices, m.faces, m.colors, m.isColorByFace, none, none, none⟩ := by
  constructor
  · exact mkMesh_of_ok m
  · intro h
    rw [mkMesh_ok_iff] at h
    obtain ⟨⟨h1, h2⟩, cm, h3, h4⟩ := h
    refine ⟨h1, h2, ?_⟩
    rw [h3]
    injection h4 with _ _ e1 e2
    rw [e1, e2]

/-- An `OBJ` object that satisfies `ObjOk` is what its constructor returns for its own data. -/
theorem objOk_constructor (o : Obj α) (h : ObjOk o) :
    mkObj o.vertices o.faces o.vt o.vn o.colors none = .ok o :=
  mkObj_of_ok o h

/-! ## A. OBJ object ↔ file -/

/-- **OBJ file round trip**: `to_file` succeeds and `from_file` of the written token lines
returns the object with numbers through `fmt`, faces triangulated if requested, and the
texture map / normals / colours still one per vertex (same lists, same order). -/
theorem obj_file_roundtrip (fmt : α → α) (o : Obj α) (tri mtl : Bool) (name : Tok α)
    (h : ObjOk o) (hc : ∀ cs, o.colors = some cs → ColorsPrintable cs) :
    ∃ file, objToFile fmt o tri mtl name = .ok file ∧
      objFromFile file = .ok (objReadBack fmt o tri mtl) :=
  obj_roundtrip fmt o tri mtl name h hc

/-- With exact number printing (`'{}'`), no triangulation and faces of at most 4 indices the
read-back object has EXACTLY the same vertices, faces, texture coordinates and normals. -/
theorem obj_file_roundtrip_exact (o : Obj α) (mtl : Bool) (name : Tok α) (h : ObjOk o)
    (hc : ∀ cs, o.colors = some cs → ColorsPrintable cs) (h4 : ∀ f ∈ o.faces, f.length ≤ 4) :
    ∃ file o', objToFile id o false mtl name = .ok file ∧ objFromFile file = .ok o' ∧
      o'.vertices = o.vertices ∧ o'.faces = o.faces ∧ o'.vt = o.vt ∧ o'.vn = o.vn := by
  obtain ⟨file, h1, h2⟩ := obj_roundtrip id o false mtl name h hc
  refine ⟨file, _, h1, h2, fmt3_id _, ?_, ?_, ?_⟩
  · simp only [objReadBack, readBackFaces, Bool.false_eq_true, if_false]
    conv_rhs => rw [← List.map_id o.faces]
    apply List.map_congr_left
    intro f hf
    exact trunc4_of_le f (h4 f hf)
  · simp only [objReadBack]
    cases o.vt with
    | none => rfl
    | some l => simp [fmt2_id]
  · simp only [objReadBack]
    cases o.vn with
    | none => rfl
    | some l => simp [fmt3_id]

/-- The four index forms of an `f` line (`a`, `a/b`, `a//c`, `a/b/c`, 1-based) all parse back
to the 0-based index. -/
theorem face_index_forms (hasVt hasVn : Bool) (i : ℤ) :
    tokInt (faceTok hasVt hasVn i : Tok α) = .ok (i + 1) :=
  tokInt_faceTok hasVt hasVn i

/-! ## B. `Mesh3D.from_obj ∘ Mesh3D.to_obj` -/

/-- **`Mesh3D.from_obj(Mesh3D.to_obj(m))`, every option combination**: for a mesh satisfying
the constructor's guards (vertex normals one per vertex if they are written, colours printable
if they are written) `to_obj` succeeds, `from_obj` succeeds on the written lines, and the result
has the vertices of the written OBJ object (numbers through `fmt`), its faces (triangulated if
requested) and its colours — the vertices / faces / colours lists of `objOfMesh`, i.e. the
mesh's own, or the unrolled ones for face colours. -/
theorem mesh_obj_roundtrip (M : MathOps α) (fmt : α → α) (m : Mesh3I α)
    (ic inn tri mtl : Bool) (name : Tok α) (h : MeshOk m)
    (hvn : inn = true → (vertexNormals M m).length = m.vertices.length)
    (hp : ic = true → ∀ cs, m.colors = some cs → ColorsPrintable cs) :
    ∃ file m', meshToObj M fmt m ic inn tri mtl name = .ok file ∧
      meshFromObj file = .ok m' ∧
      m'.vertices = (objOfMesh M m ic inn).vertices.map (fmt3 fmt) ∧
      m'.faces = readBackFaces (objOfMesh M m ic inn).faces tri ∧
      m'.colors = readBackColors fmt (objOfMesh M m ic inn).colors := by
  obtain ⟨hok, file, h1, _, h3⟩ :=
    Lbg.Lemmas.Interop.mesh_obj_roundtrip M fmt m ic inn tri mtl name h hvn hp
  set o := objOfMesh M m ic inn with ho
  have hnv : (o.vertices.map (fmt3 fmt)).length = o.vertices.length := by simp
  have hfaces := readBackFaces_mesh_ok o.vertices.length o.faces tri hok.faces_ok
  have hne : readBackFaces o.faces tri ≠ [] := by
    have := readBackFaces_ok o.vertices.length o.faces tri hok.faces_ne hok.faces_ok
    rw [checkFaces_ok_iff] at this
    exact this.1
  -- the colour setter never raises: the read-back colours are one per vertex
  have hcm : ∃ cm, colorMode (readBackFaces o.faces tri).length o.vertices.length
      (readBackColors fmt o.colors) = .ok cm ∧ cm.1 = readBackColors fmt o.colors := by
    cases hc : o.colors with
    | none => exact ⟨(none, false), rfl, rfl⟩
    | some cs =>
      have hl : (cs.map (fun c => (colToks fmt cs c).map CVal.str)).length = o.vertices.length := by
        simpa using hok.col_len cs hc
      simp only [readBackColors, colorMode]
      by_cases e1 : (cs.map (fun c => (colToks fmt cs c).map CVal.str)).length =
          (readBackFaces o.faces tri).length
      · rw [if_pos e1]; exact ⟨_, rfl, rfl⟩
      · rw [if_neg e1, if_pos hl]; exact ⟨_, rfl, rfl⟩
  obtain ⟨cm, hcm1, hcm2⟩ := hcm
  refine ⟨file, ⟨_, _, cm.1, cm.2, none, none, none⟩, h1, ?_, rfl, rfl, hcm2⟩
  rw [h3, mkMesh_ok_iff]
  refine ⟨⟨hne, ?_⟩, cm, ?_, rfl⟩
  · rw [hnv]; exact hfaces
  · rw [hnv]; exact hcm1

/-- **Exact OBJ round trip (no unrolling)**: with exact number printing, without
`triangulate_quads`, and unless face colours are written, `from_obj(to_obj(m))` has EXACTLY the
vertices and faces of `m` (same lists, same order). -/
theorem mesh_obj_roundtrip_exact (M : MathOps α) (m : Mesh3I α) (ic inn mtl : Bool)
    (name : Tok α) (h : MeshOk m) (hb : (ic && m.isColorByFace) = false)
    (hvn : inn = true → (vertexNormals M m).length = m.vertices.length)
    (hp : ic = true → ∀ cs, m.colors = some cs → ColorsPrintable cs) :
    ∃ file m', meshToObj M id m ic inn false mtl name = .ok file ∧
      meshFromObj file = .ok m' ∧ m'.vertices = m.vertices ∧ m'.faces = m.faces ∧
      m'.colors = readBackColors id (if ic then m.colors else none) := by
  obtain ⟨file, m', h1, h2, h3, h4, h5⟩ := mesh_obj_roundtrip M id m ic inn false mtl name h hvn hp
  have ho : objOfMesh M m ic inn = plainObj M m ic inn := by
    unfold objOfMesh; rw [hb]; simp
  rw [ho] at h3 h4 h5
  refine ⟨file, m', h1, h2, ?_, ?_, h5⟩
  · rw [h3]; exact fmt3_id _
  · rw [h4]
    simp only [plainObj, readBackFaces, Bool.false_eq_true, if_false]
    conv_rhs => rw [← List.map_id m.faces]
    apply List.map_congr_left
    intro f hf
    exact trunc4_of_le f (by rcases (h.faces_ok f hf).1 with e | e <;> omega)

/-- **Triangulated OBJ export**: with `triangulate_quads=True` (no unrolling, exact printing)
the read-back faces are `stl_split` of the original faces, in order: a triangle unchanged, a
quad `(a,b,c,d)` as `(a,b,c),(c,d,a)`; the vertices are unchanged. -/
theorem mesh_obj_roundtrip_triangulated (M : MathOps α) (m : Mesh3I α) (ic inn mtl : Bool)
    (name : Tok α) (h : MeshOk m) (hb : (ic && m.isColorByFace) = false)
    (hvn : inn = true → (vertexNormals M m).length = m.vertices.length)
    (hp : ic = true → ∀ cs, m.colors = some cs → ColorsPrintable cs) :
    ∃ file m', meshToObj M id m ic inn true mtl name = .ok file ∧
      meshFromObj file = .ok m' ∧ m'.vertices = m.vertices ∧
      m'.faces = m.faces.flatMap stlSplit := by
  obtain ⟨file, m', h1, h2, h3, h4, _⟩ := mesh_obj_roundtrip M id m ic inn true mtl name h hvn hp
  have ho : objOfMesh M m ic inn = plainObj M m ic inn := by
    unfold objOfMesh; rw [hb]; simp
  rw [ho] at h3 h4
  refine ⟨file, m', h1, h2, by rw [h3]; exact fmt3_id _, ?_⟩
  rw [h4]
  simp only [plainObj, readBackFaces, if_true, List.map_flatMap]
  apply List.flatMap_congr
  intro f hf
  rcases (h.faces_ok f hf).1 with e | e
  · match f, e with
    | [a, b, c], _ => simp [objSplit, stlSplit, trunc4]
  · match f, e with
    | [a, b, c, d], _ => simp [objSplit, stlSplit, trunc4]

/-- **Face colours + `include_colors=True` (unrolling)**: the written / read-back mesh has one
vertex per face corner — `Σ len(face)` vertices —, every face `j` has the SAME corner points in
the same order as face `j` of `m`, and the colours are one per corner: the colour of face `j`
repeated `len(face j)` times, in face order (as read back: tuples of `str`). -/
theorem mesh_obj_roundtrip_unrolled (M : MathOps α) (m : Mesh3I α) (inn mtl : Bool)
    (name : Tok α) (h : MeshOk m) (hb : m.isColorByFace = true) (cs : List (Color α))
    (hc : m.colors = some cs)
    (hvn : inn = true → (vertexNormals M m).length = m.vertices.length)
    (hp : ColorsPrintable cs) :
    ∃ file m', meshToObj M id m true inn false mtl name = .ok file ∧
      meshFromObj file = .ok m' ∧
      m'.vertices.length = (m.faces.map List.length).sum ∧
      m'.faces.map (faceVertsZ m'.vertices) = m.faces.map (faceVertsZ m.vertices) ∧
      m'.faces.map List.length = m.faces.map List.length ∧
      m'.colors = readBackColors id
        (some ((m.faces.zip cs).flatMap (fun p => List.replicate p.1.length p.2))) := by
  obtain ⟨file, m', h1, h2, h3, h4, h5⟩ :=
    mesh_obj_roundtrip M id m true inn false mtl name h hvn
      (fun _ cs' hcs' => by rw [hc] at hcs'; cases hcs'; exact hp)
  have ho : objOfMesh M m true inn = unrolledObj M m cs inn := by
    unfold objOfMesh; rw [hb, hc]; simp
  rw [ho] at h3 h4 h5
  rw [fmt3_id] at h3
  have hf : m'.faces = blocks 0 (m.faces.map List.length) := by
    rw [h4]
    simp only [unrolledObj, readBackFaces, Bool.false_eq_true, if_false]
    conv_rhs => rw [← List.map_id (blocks 0 (m.faces.map List.length))]
    apply List.map_congr_left
    intro f hf
    apply trunc4_of_le
    obtain ⟨h1, _⟩ := blocks_mem 0 _ f hf
    obtain ⟨g, hg, e⟩ := List.mem_map.mp h1
    rcases (h.faces_ok g hg).1 with e' | e' <;> omega
  refine ⟨file, m', h1, h2, ?_, ?_, ?_, h5⟩
  · rw [h3]; exact sum_lengths_flatten m
  · rw [hf, h3]
    have := blocks_points (m.faces.map (faceVertsZ m.vertices)) []
    simp only [List.length_nil, Nat.cast_zero, List.nil_append, List.map_map] at this
    have e : (List.length ∘ faceVertsZ m.vertices) = (List.length : List ℤ → ℕ) := by
      funext f; simp [faceVertsZ]
    rw [e] at this
    exact this
  · rw [hf]
    generalize m.faces.map List.length = ns
    generalize (0 : ℤ) = off
    induction ns generalizing off with
    | nil => rfl
    | cons n t ih => simp [blocks, block, ih]

/-! ## C. STL -/

/-- **`STL.from_mesh3d` never fails on quads**: for a mesh satisfying the constructor's guards
it returns the triangles `stl_split` of every face (looked up as points), in face order, each
paired with the normal of the face it came from; the result satisfies the `STL` guards. -/
theorem stl_from_mesh3d (M : MathOps α) (m : Mesh3I α) (name : String) (h : MeshOk m)
    (hn : nameOk name = true) :
    stlFromMesh3d M m name =
      .ok ⟨name, (stlPairs M m).map Prod.fst, (stlPairs M m).map Prod.snd⟩ ∧
    StlOk (⟨name, (stlPairs M m).map Prod.fst, (stlPairs M m).map Prod.snd⟩ : Stl α) :=
  stlFromMesh3d_eq M m name h hn

/-- A triangle face gives one STL triangle, a quad face `(a, b, c, d)` the two triangles
`(a, b, c)`, `(c, d, a)` — the split of `Props/C20` `stl_split_*`. -/
theorem stl_pairs_face (vs : List (V3 α)) (a b c d : ℤ) (nrm : V3 α) :
    stlFaceTris vs ([a, b, c], nrm) = [(faceVertsZ vs [a, b, c], nrm)] ∧
    stlFaceTris vs ([a, b, c, d], nrm) =
      [(faceVertsZ vs [a, b, c], nrm), (faceVertsZ vs [c, d, a], nrm)] := by
  constructor
  · simp [stlFaceTris]
  · simp [stlFaceTris, faceVertsZ]

/-- Number of STL facets = #triangle faces + 2 · #quad faces. -/
theorem stl_count (M : MathOps α) (m : Mesh3I α) (h : MeshOk m)
    (hl : (faceNormals M m).length = m.faces.length) :
    (stlPairs M m).length =
      m.faces.countP (fun f => decide (f.length = 3)) +
        2 * m.faces.countP (fun f => decide (f.length = 4)) :=
  stlPairs_length M m h hl

/-- **Written normals**: with empty `_face_normals` the normal written for (both triangles of)
a face is the normal the generated kernel computes from the face's corner points:
`mesh3d_normal_area_tri` for a triangle, `mesh3d_normal_area_quad` for a quad. -/
theorem stl_normals_cold (M : MathOps α) (m : Mesh3I α) (hc : m.faceNormals = none) :
    faceNormals M m = m.faces.map (fun f => (MeshCache3.faceNA M (faceVertsZ m.vertices f)).1) ∧
    (∀ a b c : V3 α, (MeshCache3.faceNA M [a, b, c]).1 = (mesh3d_normal_area_tri M (a, b, c)).1) ∧
    (∀ a b c d : V3 α,
      (MeshCache3.faceNA M [a, b, c, d]).1 = (mesh3d_normal_area_quad M (a, b, c, d)).1) :=
  ⟨faceNormals_cold M m hc, fun _ _ _ => rfl, fun _ _ _ _ => rfl⟩

/-- The normals list is one per face (so `zip(mesh.faces, mesh.face_normals)` loses nothing)
whenever a cached tuple has the right length. -/
theorem face_normals_length (M : MathOps α) (m : Mesh3I α)
    (hc : ∀ l, m.faceNormals = some (.inr l) → l.length = m.faces.length) :
    (faceNormals M m).length = m.faces.length :=
  faceNormals_length M m hc

/-- **ASCII STL round trip (STL level)**: the text reader on the written lines returns the same
name, the same triangles (same corner points, same order) and the same normals — numbers
through `fmt`. -/
theorem stl_text_roundtrip (fmt : α → α) (s : Stl α) (h : StlOk s) :
    stlFromFile (.text (stlToFile fmt s)) =
      .ok ⟨s.name, s.faceVertices.map (fun f => f.map (fmt3 fmt)),
           s.faceNormals.map (fmt3 fmt)⟩ :=
  Lbg.Lemmas.Interop.stl_text_roundtrip fmt s h

/-- **`Mesh3D.from_stl(Mesh3D.to_stl(m))`**: `to_stl` succeeds on triangles, quads and mixed
meshes; the STL read back has exactly the triangles of `stl_split` in order with their face
normals (numbers through `fmt`); `from_stl` succeeds, has as many faces as there are triangles,
pairwise distinct (welded) vertices, no colours, and face `k` looks up exactly the corner points
of written triangle `k`, in order. -/
theorem mesh_stl_roundtrip (M : MathOps α) (fmt : α → α) (m : Mesh3I α) (h : MeshOk m)
    (hl : (faceNormals M m).length = m.faces.length) :
    ∃ file, meshToStl M fmt m = .ok file ∧
      stlFromFile (.text file) =
        .ok ⟨"polyhedron", (stlPairs M m).map (fun p => p.1.map (fmt3 fmt)),
             (stlPairs M m).map (fun p => fmt3 fmt p.2)⟩ ∧
      ∃ m', meshFromStl (.text file) = .ok m' ∧
        m'.faces.map (faceVertsZ m'.vertices) =
          (stlPairs M m).map (fun p => p.1.map (fmt3 fmt)) ∧
        m'.vertices.Nodup ∧ m'.colors = none ∧ m'.faces.length = (stlPairs M m).length :=
  Lbg.Lemmas.Interop.mesh_stl_roundtrip M fmt m h hl

/-- **Exactness / tolerance of the STL text**: a corner point whose coordinates print exactly
(`fmt c = c`) is read back exactly; in general every read-back coordinate is within the relative
printing error `ε` of `fmt` (`5·10⁻⁷` for `'{:.6E}'`, well inside the property's `1e-6`). -/
theorem stl_point_tolerance (fmt : α → α) (ε : α) (hε : ∀ x, |fmt x - x| ≤ ε * |x|) (p : V3 α) :
    |(fmt3 fmt p).x - p.x| ≤ ε * |p.x| ∧ |(fmt3 fmt p).y - p.y| ≤ ε * |p.y| ∧
    |(fmt3 fmt p).z - p.z| ≤ ε * |p.z| ∧
    (fmt p.x = p.x → fmt p.y = p.y → fmt p.z = p.z → fmt3 fmt p = p) := by
  refine ⟨hε p.x, hε p.y, hε p.z, ?_⟩
  intro hx hy hz
  cases p
  simp only [fmt3] at hx hy hz ⊢
  rw [hx, hy, hz]

/-- **Newell vector preserved by the quad split**: the Newell vectors (normal × doubled area)
of the two written triangles of a quad add up to the quad's, for the corner POINTS looked up in
the vertex list — no area is lost or doubled, whatever the shape of the quad. -/
theorem stl_quad_newell (vs : List (V3 α)) (a b c d : ℤ) :
    V3.add (newell (faceVertsZ vs [a, b, c])) (newell (faceVertsZ vs [c, d, a])) =
      newell (faceVertsZ vs [a, b, c, d]) := by
  simp only [faceVertsZ, List.map_cons, List.map_nil]
  generalize pyGetD vs ⟨0, 0, 0⟩ a = pa
  generalize pyGetD vs ⟨0, 0, 0⟩ b = pb
  generalize pyGetD vs ⟨0, 0, 0⟩ c = pc
  generalize pyGetD vs ⟨0, 0, 0⟩ d = pd
  have h := newell_split [] [pb] [pd] pa pc
  have hr : newell [pc, pd, pa] = newell [pa, pc, pd] := by
    have := newell_rotate [pc, pd, pa] 2
    simpa using this.symm
  simp only [List.nil_append, List.cons_append] at h
  rw [h, hr]

/-! ## D. `Mesh2D.triangulated` -/

/-- **Colours stay aligned under `triangulated()`**: for a face-coloured mesh (one colour per
face, faces of 3 or 4 indices) the new colour list has one entry per new face, and pairing new
faces with new colours gives, in order, every triangle of old face `j` with the colour of old
face `j` (a triangle once, a quad's colour duplicated for its two triangles). -/
theorem triangulated_colors_aligned {γ : Type} (K : MeshCache.Kern α) (vs : List (V2 α))
    (faces : List (List ℕ)) (colors : List γ) (hlen : colors.length = faces.length)
    (hf : ∀ f ∈ faces, f.length = 3 ∨ f.length = 4) :
    (faces.flatMap (MeshCache.triangulateFace K vs)).zip (triColors faces colors) =
      (faces.zip colors).flatMap
        (fun p => (MeshCache.triangulateFace K vs p.1).map (fun t => (t, p.2))) ∧
    (triColors faces colors).length = (faces.flatMap (MeshCache.triangulateFace K vs)).length :=
  triangulated_aligned K vs faces colors hlen hf

/-- The whole of `triangulated()` for a face-coloured mesh: it succeeds, the new mesh is again
face-coloured, with the faces and colours of `triangulated_colors_aligned`. -/
theorem triangulated_by_face {γ : Type} (K : MeshCache.Kern α) (vs : List (V2 α))
    (faces : List (List ℕ)) (colors : List γ) (hlen : colors.length = faces.length)
    (hf : ∀ f ∈ faces, f.length = 3 ∨ f.length = 4) :
    triangulated2 K vs faces (some colors) true =
      .ok (faces.flatMap (MeshCache.triangulateFace K vs), some (triColors faces colors), true) := by
  have hl := (triangulated_aligned K vs faces colors hlen hf).2
  simp only [triangulated2, if_true, Option.getD_some, colorMode, hl]
  rfl

/-- **Vertex colours are kept**: for a vertex-coloured mesh `triangulated()` passes the colour
list through unchanged (the vertices are unchanged too, so colour `i` still belongs to vertex
`i`); the constructor of the new mesh then classifies it by its length (by face iff it equals
the NEW number of faces — the library's inherent ambiguity when `#vertices = #faces`). -/
theorem triangulated_vertex_colors {γ : Type} (K : MeshCache.Kern α) (vs : List (V2 α))
    (faces : List (List ℕ)) (colors : List γ) (hlen : colors.length = vs.length) :
    triangulated2 K vs faces (some colors) false =
      .ok (faces.flatMap (MeshCache.triangulateFace K vs), some colors,
           decide (colors.length = (faces.flatMap (MeshCache.triangulateFace K vs)).length)) := by
  simp only [triangulated2, Bool.false_eq_true, if_false, colorMode]
  by_cases h1 : colors.length = (faces.flatMap (MeshCache.triangulateFace K vs)).length
  · rw [if_pos h1, decide_eq_true h1]; rfl
  · rw [if_neg h1, if_pos hlen, decide_eq_false h1]; rfl

/-- **The two triangles tile the quad** (signed area): whichever diagonal `_quad_to_triangles`
chooses — `(0,1,2),(2,3,0)` or `(1,2,3),(3,0,1)` — the shoelace areas of the two triangles add
up to the quad's. -/
theorem triangulated_area (a b c d : V2 α) :
    shoelace [a, b, c] + shoelace [c, d, a] = shoelace [a, b, c, d] ∧
    shoelace [b, c, d] + shoelace [d, a, b] = shoelace [a, b, c, d] := by
  rw [shoelace_triangle, shoelace_triangle, shoelace_triangle, shoelace_triangle, shoelace_quad]
  simp only [V2.det, V2.sub]
  constructor <;> ring

/-- One quad face of `triangulated()`: exactly the two triangles of one of the two diagonals,
on the face's own vertex indices. -/
theorem triangulated_face (K : MeshCache.Kern α) (vs : List (V2 α)) (i j k l : ℕ) :
    MeshCache.triangulateFace K vs [i, j, k, l] = [[i, j, k], [k, l, i]] ∨
    MeshCache.triangulateFace K vs [i, j, k, l] = [[j, k, l], [l, i, j]] := by
  simp only [MeshCache.triangulateFace]
  split_ifs
  · left; rfl
  · right; rfl

/-! ## Non-vacuity at ℚ -/

/-- A `MathOps ℚ` for the examples (no normal is computed in them). -/
def M0 : MathOps ℚ := ⟨id, id, id, id, id, id, fun _ _ => 0, 0, id⟩

/-- A triangle + a quad (with a negative, valid index), face colours as `ladybug` colours. -/
def ex1 : Mesh3I ℚ :=
  ⟨[⟨0, 0, 0⟩, ⟨1, 0, 0⟩, ⟨0, 1, 0⟩, ⟨1, 1, 1/2⟩], [[0, 1, 2], [1, 3, 2, -4]],
   some [[.int 255, .int 0, .int 0, .int 255], [.int 0, .int 9, .int 0, .int 255]], true,
   none, none, none⟩

example : MeshOk ex1 := by
  refine ⟨by decide, ?_, by decide +kernel⟩
  intro f hf
  simp only [ex1, List.mem_cons, List.not_mem_nil, or_false] at hf
  rcases hf with rfl | rfl <;> decide +kernel

example : ColorsPrintable
    ([[.int 255, .int 0, .int 0, .int 255], [.int 0, .int 9, .int 0, .int 255]] : List (Color ℚ)) := by
  unfold ColorsPrintable; simp

/-- The OBJ file written for `ex1` without colours, and its exact read-back. -/
example :
    (meshToObj M0 id ex1 false false false false (.w "x.mtl")).toOption =
      some [[.w "#", .w "OBJ", .w "file", .w "written", .w "by", .w "ladybug", .w "geometry"], [],
        [.w "v", .n 0, .n 0, .n 0], [.w "v", .n 1, .n 0, .n 0], [.w "v", .n 0, .n 1, .n 0],
        [.w "v", .n 1, .n 1, .n (1/2)], [.w "f", .z 1, .z 2, .z 3], [.w "f", .z 2, .z 4, .z 3, .z (-3)]] ∧
    ((meshToObj M0 id ex1 false false false false (.w "x.mtl")).toOption.bind
        (fun f => (meshFromObj f).toOption.map (fun m' => (m'.vertices, m'.faces)))) =
      some (ex1.vertices, ex1.faces) := by
  decide +kernel

/-- Unrolled (face colours written): 7 vertices = 3 + 4, faces `(0,1,2)`, `(3,4,5,6)`, same corner
points, one colour per corner. -/
example :
    ((meshToObj M0 id ex1 true false false false (.w "x.mtl")).toOption.bind
        (fun f => (meshFromObj f).toOption.map (fun m' => (m'.vertices.length, m'.faces)))) =
      some (7, [[0, 1, 2], [3, 4, 5, 6]]) ∧
    ((meshToObj M0 id ex1 true false false false (.w "x.mtl")).toOption.bind
        (fun f => (meshFromObj f).toOption.map (fun m' => m'.faces.map (faceVertsZ m'.vertices)))) =
      some (ex1.faces.map (faceVertsZ ex1.vertices)) ∧
    ((meshToObj M0 id ex1 true false false false (.w "x.mtl")).toOption.bind
        (fun f => (meshFromObj f).toOption.bind (fun m' => m'.colors.map List.length))) =
      some 7 := by
  decide +kernel

/-- STL of `ex1` with pre-seeded normals: 3 facets (1 + 2), read back and welded to 4 points. -/
example :
    let m : Mesh3I ℚ := { ex1 with faceNormals := some (.inl ⟨0, 0, 1⟩) }
    ((meshToStl M0 id m).toOption.bind (fun f => (meshFromStl (.text f)).toOption.map
        (fun m' => (m'.vertices, m'.faces)))) =
      some ([⟨0, 0, 0⟩, ⟨1, 0, 0⟩, ⟨0, 1, 0⟩, ⟨1, 1, 1/2⟩], [[0, 1, 2], [1, 3, 2], [2, 0, 1]]) := by
  decide +kernel

/-- `triangulated()` colours: a quad and a triangle, colours `10`, `20` → `10, 10, 20`. -/
example : triColors [[0, 1, 2, 3], [1, 4, 2]] [10, 20] = [10, 10, 20] := by decide

end Lbg.Props.C20b
