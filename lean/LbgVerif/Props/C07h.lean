/-
  C07h — orientation / containment of polyfaces: the `Face3D` helpers of the hand model
  `Model/Outward.lean` (on which `Props/C07b` is proved) are EQUAL to the GENERATED
  definitions of the same `Face3D` members (`Gen/FaceMore.lean`, regenerated from
  `geometry3d/face.py`): `remove_colinear_vertices` (and, through it, the first step and the
  fallback of `_point_on_face`).  The ties of `polygon2d`, `area`, `center`,
  `_inward_pointing_vec`, `intersect_line_ray` are in `Props/C07g.lean`.
-/
import LbgVerif.Gen.FaceMore
import LbgVerif.Gen.Plane
import LbgVerif.Model.Outward
import LbgVerif.Props.C15g
import LbgVerif.Props.C10g
import LbgVerif.Props.C09g
import Mathlib.Algebra.Order.Field.Rat

namespace Lbg.Props.C07h
open Lbg Lbg.Gen Lbg.Model.Outward Lbg.Model.Colinear
variable {α : Type} [Field α] [LinearOrder α] [IsStrictOrderedRing α]

omit [LinearOrder α] [IsStrictOrderedRing α] in
/-- TIE: generated `Face3D.polygon2d` (vertices) = hand model `Outward.poly2d`. -/
theorem face3d_polygon2d_eq_model (f : Face α) :
    face3d_polygon2d f.verts f.plane = poly2d f := rfl

/-- TIE: generated `Face3D.remove_colinear_vertices(tol)` (face without holes) = hand model
`Outward.removeColinear` (`none` = `AssertionError` of the seam patch or of the `Face3D`
constructor), for every face with at least 3 vertices. -/
theorem face3d_remove_colinear_vertices_eq_model (M : MathOps α) (f : Face α) (tol : α)
    (h3 : 3 ≤ f.verts.length) :
    face3d_remove_colinear_vertices M f.verts f.plane tol = removeColinear M f tol := by
  rw [C15g.face3d_remove_colinear_vertices_eq_model M f.verts f.plane tol h3]
  unfold removeColinear
  rw [face3d_polygon2d_eq_model]
  cases removeColinearPolygonIdxCode M tol (poly2d f) with
  | none => rfl
  | some idx =>
    simp only [Option.map_some, Option.bind_some, C15g.ctor3]
    by_cases h : (verts (⟨0, 0, 0⟩ : V3 α) f.verts idx).length < 3
    · have h' : ((verts (⟨0, 0, 0⟩ : V3 α) f.verts idx).length : Int) < 3 := by omega
      rw [if_pos h, if_pos h']
    · have h' : ¬ ((verts (⟨0, 0, 0⟩ : V3 α) f.verts idx).length : Int) < 3 := by omega
      rw [if_neg h, if_neg h']

/-- **`Face3D._point_on_face(tol)` on regenerated code**: the first step of the hand model
`Outward.pointOnFace` (on which the outward-orientation theorems of `Props/C07b` rest) is the
GENERATED `Face3D.remove_colinear_vertices`, and its `except` fallback is the GENERATED
`Face3D.center` (ties `face3d_remove_colinear_vertices_eq_model`, `C07g.face3d_center…`):
when the generated clean-up raises, `_point_on_face` returns the generated centre. -/
theorem pointOnFace_of_remove_colinear_none (M : MathOps α) (v0 : V3 α) (rest : List (V3 α))
    (pl : PlaneS α) (tol : α) (h3 : 3 ≤ (v0 :: rest).length)
    (h : face3d_remove_colinear_vertices M (v0 :: rest) pl tol = none) :
    pointOnFace M ⟨v0 :: rest, pl⟩ tol = face3d_center (v0 :: rest) pl := by
  have e := face3d_remove_colinear_vertices_eq_model M ⟨v0 :: rest, pl⟩ tol h3
  simp only [] at e
  rw [h] at e
  unfold pointOnFace
  rw [← e]
  simp only []
  rw [show face3d_center (v0 :: rest) pl = base2d3_center (v0 :: rest) from rfl,
    C10g.base2d3_center_eq, (C10g.base2d3_min_max_eq _).1, (C10g.base2d3_min_max_eq _).2,
    C10g.base2d3_calculate_min_max_eq]
  rfl

/-! ### Non-vacuity -/

example : face3d_remove_colinear_vertices ratOps
    ([⟨0, 0, 0⟩, ⟨1, 0, 0⟩, ⟨2, 0, 0⟩, ⟨2, 2, 0⟩, ⟨0, 2, 0⟩] : List (V3 ℚ))
    ⟨⟨0, 0, 1⟩, ⟨0, 0, 0⟩, 0, ⟨1, 0, 0⟩, ⟨0, 1, 0⟩⟩ (1/100)
    = some [⟨0, 2, 0⟩, ⟨0, 0, 0⟩, ⟨2, 0, 0⟩, ⟨2, 2, 0⟩] := by decide +kernel

end Lbg.Props.C07h
