/-
  C01 / C06 (continued) — a face with holes: the merged vertex list of
  `Polygon2D.from_shape_with_holes` / `_merge_boundary_and_holes` and the plane from vertices,
  about the literal hand models of `Model/HoleMerge.lean` (tied to the code by
  `tools/harness/corr/holemerge.py`).

  For EVERY boundary and EVERY list of holes (arbitrary vertex lists — no simplicity, no
  containment is needed; `none` = the Python code raises), whenever the model returns a list `r`:

    * `merge_holes_cyclic`     for ANY functional `f`, `Σ f(r[i-1], r[i])` = the same sum over the
                               boundary + over every hole + `f p q + f q p` for every bridge `(p,q)`
    * `merge_holes_shoelace`   signed area: `shoelace r = shoelace boundary + Σ shoelace hole`
    * `orient_hole_shoelace`   the orientation step makes every hole wind AGAINST the boundary
                               (`shoelace hole' = ∓|shoelace hole|`) — the enforcement
    * `from_shape_with_holes_shoelace`, `from_shape_with_holes_area`
                               `shoelace r = shoelace B ∓ Σ |shoelace H|`, hence
                               `area r = area B − Σ area H` whenever `Σ area H ≤ area B`
    * `merge_holes_vertices`   `r` is a permutation of boundary ++ holes ++ the two end points of
                               every bridge (each bridge vertex occurs once MORE), and
                               `|r| = |B| + Σ |H| + 2·#holes`
    * `merge_holes_perimeter`  for a symmetric `f` (edge length): the cyclic sum over `r` is
                               boundary + holes + TWICE the bridges — so the perimeter of the
                               merged list is NOT the perimeter of the face.  `Face3D.perimeter`
                               (face.py l.452-459) does not use it: it sums `boundary_segments` and
                               `hole_segments`; only `Face3D.area` (`polygon2d.area`) and
                               `Face3D.vertices` use the merged list.
    * `plane_from_vertices_lit` the literal accumulation loop of `Face3D._plane_from_vertices` is
                               `C06.planeFromVertices`; its normal is a POSITIVE multiple of the
                               Newell vector of the loop (any loop with non-zero Newell vector),
                               the same for every start vertex; for planar loops all of
                               `C06.ctor_own_plane` applies.
-/
import LbgVerif.Model.HoleMerge
import LbgVerif.Lemmas.HoleMerge
import LbgVerif.Lemmas.Shoelace
import LbgVerif.Lemmas.Newell
import LbgVerif.Lemmas.Frame
import LbgVerif.Props.C01
import LbgVerif.Props.C06
import Mathlib.Tactic.Ring
import Mathlib.Tactic.FieldSimp
import Mathlib.Tactic.Linarith
import Mathlib.Tactic.Positivity
import Mathlib.Tactic.LinearCombination
import Mathlib.Tactic.SplitIfs
import Mathlib.Tactic.NormNum
import Mathlib.Algebra.Order.Field.Rat

set_option linter.unusedSectionVars false
set_option linter.unusedVariables false
set_option linter.unusedSimpArgs false

namespace Lbg.Props.C01b
open Lbg Lbg.Gen Lbg.Lemmas Lbg.Model
open Lbg.Props.C02 (PlaneValid OnPlane)
variable {α : Type} [Field α] [LinearOrder α] [IsStrictOrderedRing α]

/-! ## The merged list: any cyclic functional -/

/-- **Any cyclic functional.**  If `_merge_boundary_and_holes(boundary, holes)` returns `r`, there
are bridges `(p_k, q_k)`, one per hole, with `p_k` a vertex of the boundary or of a hole merged
earlier and `q_k` a vertex of a hole, such that for EVERY `f`
`Σ f(r[i-1], r[i]) = Σ_boundary + Σ_holes + Σ_k (f p_k q_k + f q_k p_k)`. -/
theorem merge_holes_cyclic (boundary : List (V2 α)) (holes : List (List (V2 α)))
    {r : List (V2 α)} (h : mergeBoundaryAndHoles boundary holes = some r) :
    ∃ bridges : List (V2 α × V2 α), bridges.length = holes.length ∧
      (∀ e ∈ bridges, (e.1 ∈ boundary ∨ e.1 ∈ holes.flatten) ∧ e.2 ∈ holes.flatten) ∧
      ∀ f : V2 α → V2 α → α,
        cycSum f r = cycSum f boundary + (holes.map (cycSum f)).sum +
          (bridges.map (fun e => f e.1 e.2 + f e.2 e.1)).sum := by
  obtain ⟨bridges, c1, c2, _, c4⟩ := mergeBoundaryAndHoles_spec boundary holes h
  exact ⟨bridges, c1, c2, c4⟩

/-- **Signed area.**  The merged list has `shoelace = shoelace boundary + Σ shoelace hole`: every
bridge is traversed once in each direction and cancels. -/
theorem merge_holes_shoelace (boundary : List (V2 α)) (holes : List (List (V2 α)))
    {r : List (V2 α)} (h : mergeBoundaryAndHoles boundary holes = some r) :
    shoelace r = shoelace boundary + (holes.map shoelace).sum := by
  obtain ⟨bridges, _, _, hf⟩ := merge_holes_cyclic boundary holes h
  have h0 : (bridges.map (fun e => V2.det e.1 e.2 + V2.det e.2 e.1)).sum = 0 := by
    have : (fun e : V2 α × V2 α => V2.det e.1 e.2 + V2.det e.2 e.1) = fun _ => 0 := by
      funext e; rw [det_antisymm e.1 e.2]; ring
    rw [this]; simp
  have hs : (holes.map (cycSum V2.det)).sum = (holes.map shoelace).sum := by
    congr 1
    apply List.map_congr_left
    intro l _
    exact (shoelace_eq_cycSum l).symm
  rw [shoelace_eq_cycSum, shoelace_eq_cycSum, hf V2.det, h0, hs, add_zero]

/-- **Vertices.**  The merged list is a permutation of boundary ++ all hole vertices ++ the two
end points of every bridge (so each bridge vertex occurs exactly once more than in the input),
and has `|boundary| + Σ |hole| + 2·#holes` vertices; in particular it contains every boundary
and every hole vertex. -/
theorem merge_holes_vertices (boundary : List (V2 α)) (holes : List (List (V2 α)))
    {r : List (V2 α)} (h : mergeBoundaryAndHoles boundary holes = some r) :
    (∃ bridges : List (V2 α × V2 α), bridges.length = holes.length ∧
      (∀ e ∈ bridges, (e.1 ∈ boundary ∨ e.1 ∈ holes.flatten) ∧ e.2 ∈ holes.flatten) ∧
      r.Perm (boundary ++ holes.flatten ++ bridges.flatMap (fun e => [e.1, e.2]))) ∧
    r.length = boundary.length + holes.flatten.length + 2 * holes.length ∧
    (∀ v ∈ boundary, v ∈ r) ∧ (∀ hole ∈ holes, ∀ v ∈ hole, v ∈ r) := by
  obtain ⟨bridges, c1, c2, c3, _⟩ := mergeBoundaryAndHoles_spec boundary holes h
  refine ⟨⟨bridges, c1, c2, c3⟩, ?_, ?_, ?_⟩
  · rw [c3.length_eq]
    have key : ∀ l : List (V2 α × V2 α),
        (l.flatMap (fun e => [e.1, e.2])).length = 2 * l.length := by
      intro l
      induction l with
      | nil => rfl
      | cons e t ih => simp only [List.flatMap_cons, List.length_append, List.length_cons,
          List.length_nil, ih]; omega
    simp only [List.length_append, key, c1]
  · intro v hv
    exact c3.symm.subset (List.mem_append_left _ (List.mem_append_left _ hv))
  · intro hole hh v hv
    exact c3.symm.subset (List.mem_append_left _ (List.mem_append_right _
      (List.mem_flatten.mpr ⟨hole, hh, hv⟩)))

/-- **Perimeter of the merged list.**  For a symmetric edge functional `f` (e.g. the edge
length `p.distance_to_point(q)`) the cyclic sum over the merged list is the sum over the
boundary plus the sums over the holes plus TWICE the bridge edges.  (`Face3D.perimeter` therefore
must not be — and is not — computed from `Face3D.vertices`: it adds `boundary_segments` and
`hole_segments`.) -/
theorem merge_holes_perimeter (boundary : List (V2 α)) (holes : List (List (V2 α)))
    {r : List (V2 α)} (h : mergeBoundaryAndHoles boundary holes = some r)
    (f : V2 α → V2 α → α) (hsym : ∀ p q, f p q = f q p) :
    ∃ bridges : List (V2 α × V2 α), bridges.length = holes.length ∧
      cycSum f r = cycSum f boundary + (holes.map (cycSum f)).sum +
        2 * (bridges.map (fun e => f e.1 e.2)).sum := by
  obtain ⟨bridges, c1, _, hf⟩ := merge_holes_cyclic boundary holes h
  refine ⟨bridges, c1, ?_⟩
  rw [hf f]
  congr 1
  have key : ∀ l : List (V2 α × V2 α),
      (l.map (fun e => f e.1 e.2 + f e.2 e.1)).sum = 2 * (l.map (fun e => f e.1 e.2)).sum := by
    intro l
    induction l with
    | nil => simp
    | cons e t ih =>
      simp only [List.map_cons, List.sum_cons, ih, hsym e.2 e.1]
      ring
  exact key bridges

/-- The edge length used by `Polygon2D.perimeter` is symmetric. -/
theorem distance_symm (M : MathOps α) (p q : V2 α) :
    p2_distance_to_point M p q = p2_distance_to_point M q p := by
  simp only [p2_distance_to_point]
  congr 1
  ring

/-! ## The orientation step -/

/-- **Enforcement of opposite winding.**  After
`if _are_clockwise(hole) is bound_direction: hole.reverse()` the hole winds against the boundary:
for a boundary that is not clockwise (`bound_direction = False`) its shoelace is `−|shoelace
hole|`, for a clockwise boundary it is `+|shoelace hole|`; the vertex set and count are
unchanged. -/
theorem orient_hole_shoelace (dir : Bool) (hole : List (V2 α)) :
    shoelace (orientHole dir hole) = (if dir = true then 1 else -1) * |shoelace hole| ∧
    (orientHole dir hole).Perm hole := by
  unfold orientHole
  have hcw := C01.polygon2d_are_clockwise_iff hole
  cases dir with
  | false =>
    by_cases hc : polygon2d_are_clockwise hole = true
    · have : shoelace hole < 0 := hcw.mp hc
      simp only [hc, Bool.true_eq_false, if_false, Bool.false_eq_true]
      exact ⟨by rw [abs_of_neg this]; ring, List.Perm.refl _⟩
    · have hc' : polygon2d_are_clockwise hole = false := by simpa using hc
      have : 0 ≤ shoelace hole := not_lt.mp (fun h => hc (hcw.mpr h))
      simp only [hc', if_true, Bool.false_eq_true, if_false]
      exact ⟨by rw [shoelace_reverse, abs_of_nonneg this]; ring, List.reverse_perm _⟩
  | true =>
    by_cases hc : polygon2d_are_clockwise hole = true
    · have : shoelace hole < 0 := hcw.mp hc
      simp only [hc, if_true]
      exact ⟨by rw [shoelace_reverse, abs_of_neg this]; ring, List.reverse_perm _⟩
    · have hc' : polygon2d_are_clockwise hole = false := by simpa using hc
      have : 0 ≤ shoelace hole := not_lt.mp (fun h => hc (hcw.mpr h))
      simp only [hc', Bool.false_eq_true, if_false, if_true]
      exact ⟨by rw [abs_of_nonneg this]; ring, List.Perm.refl _⟩

/-- **`from_shape_with_holes`: signed area with the signs the code establishes.**
`shoelace r = shoelace B − Σ |shoelace H|` for a boundary that is not clockwise and
`shoelace B + Σ |shoelace H|` for a clockwise one — holes given in EITHER winding. -/
theorem from_shape_with_holes_shoelace (boundary : List (V2 α)) (holes : List (List (V2 α)))
    {r : List (V2 α)} (h : fromShapeWithHoles boundary holes = some r) :
    shoelace r = shoelace boundary +
      (if polygon2d_are_clockwise boundary = true then 1 else -1) *
        (holes.map (fun hl => |shoelace hl|)).sum := by
  unfold fromShapeWithHoles at h
  split_ifs at h with h3
  rw [merge_holes_shoelace _ _ h, List.map_map]
  congr 1
  generalize polygon2d_are_clockwise boundary = dir
  clear h h3
  induction holes with
  | nil => simp
  | cons a t ih =>
    simp only [List.map_cons, List.sum_cons, Function.comp, ih,
      (orient_hole_shoelace dir a).1]
    ring

/-- **`from_shape_with_holes`: area = boundary area − hole areas.**  With the reported area
`Polygon2D.area = |shoelace| / 2`: whenever the holes together are not larger than the boundary
(holes inside the boundary, pairwise disjoint), the merged polygon — the `polygon2d` of a
`Face3D` with holes, from which `Face3D.area` is read — has area
`area(boundary) − Σ area(hole)`, for holes and boundary given in either winding. -/
theorem from_shape_with_holes_area (boundary : List (V2 α)) (holes : List (List (V2 α)))
    {r : List (V2 α)} (h : fromShapeWithHoles boundary holes = some r)
    (hle : (holes.map polygon2d_area).sum ≤ polygon2d_area boundary) :
    polygon2d_area r = polygon2d_area boundary - (holes.map polygon2d_area).sum := by
  have hs := from_shape_with_holes_shoelace boundary holes h
  have hsum : (holes.map polygon2d_area).sum = (holes.map (fun hl => |shoelace hl|)).sum / 2 := by
    clear h hle hs
    induction holes with
    | nil => simp
    | cons a t ih =>
      simp only [List.map_cons, List.sum_cons, ih, C01.polygon2d_area_eq']
      ring
  rw [hsum, C01.polygon2d_area_eq'] at hle
  rw [C01.polygon2d_area_eq', C01.polygon2d_area_eq', hsum, hs]
  have hS : 0 ≤ (holes.map (fun hl => |shoelace hl|)).sum := by
    apply List.sum_nonneg
    intro x hx
    obtain ⟨hl, _, rfl⟩ := List.mem_map.mp hx
    exact abs_nonneg _
  generalize (holes.map (fun hl => |shoelace hl|)).sum = S at *
  have hcw := C01.polygon2d_are_clockwise_iff boundary
  by_cases hc : polygon2d_are_clockwise boundary = true
  · have hb : shoelace boundary < 0 := hcw.mp hc
    rw [abs_of_neg hb] at hle ⊢
    rw [if_pos hc, abs_of_nonpos (by linarith)]
    ring
  · have hb : 0 ≤ shoelace boundary := not_lt.mp (fun h => hc (hcw.mpr h))
    rw [abs_of_nonneg hb] at hle ⊢
    rw [if_neg hc, abs_of_nonneg (by linarith)]
    ring

/-- **`from_shape_with_holes`: vertices.**  The merged list contains every boundary vertex and
every hole vertex, and has `|B| + Σ |H| + 2·#holes` vertices. -/
theorem from_shape_with_holes_vertices (boundary : List (V2 α)) (holes : List (List (V2 α)))
    {r : List (V2 α)} (h : fromShapeWithHoles boundary holes = some r) :
    r.length = boundary.length + holes.flatten.length + 2 * holes.length ∧
    (∀ v ∈ boundary, v ∈ r) ∧ (∀ hole ∈ holes, ∀ v ∈ hole, v ∈ r) ∧
    (∀ hole ∈ holes, 3 ≤ hole.length) := by
  unfold fromShapeWithHoles at h
  split_ifs at h with h3
  obtain ⟨_, hl, hb, hh⟩ := merge_holes_vertices _ _ h
  have hlen : ∀ (dir : Bool) (l : List (List (V2 α))),
      (l.map (orientHole dir)).flatten.length = l.flatten.length := by
    intro dir l
    induction l with
    | nil => rfl
    | cons a t ih =>
      simp only [List.map_cons, List.flatten_cons, List.length_append, ih,
        (orient_hole_shoelace dir a).2.length_eq]
  refine ⟨?_, hb, ?_, ?_⟩
  · rw [hl, hlen, List.length_map]
  · intro hole hm v hv
    exact hh _ (List.mem_map.mpr ⟨hole, hm, rfl⟩) v
      ((orient_hole_shoelace _ hole).2.symm.subset hv)
  · intro hole hm
    by_contra hc
    apply h3
    rw [List.any_eq_true]
    exact ⟨hole, hm, by simpa using hc⟩

/-! ## `Face3D._plane_from_vertices` -/

/-- The literal accumulation loop (`cprods` over `range(len(verts) - 2)`, then
`normal[k] += …`) is the fan sum `C06.fanNormal`, hence the Newell vector, of ANY vertex list. -/
theorem fan_normal_lit (vs : List (V3 α)) :
    fanNormalLit vs = C06.fanNormal vs ∧ fanNormalLit vs = newell vs := by
  have e : fanNormalLit vs = C06.fanNormal vs := by
    cases vs with
    | nil => rfl
    | cons p0 rest =>
      unfold fanNormalLit C06.fanNormal
      simp only [List.getD_cons_zero, List.getD_cons_succ, List.length_cons]
      have hl : rest.length + 1 - 2 = rest.length - 1 := by omega
      rw [hl, ← range_getD_pairs rest ⟨0, 0, 0⟩, List.foldl_map, List.foldl_map]
      rfl
  exact ⟨e, e.trans (C06.fan_eq_newell vs)⟩

/-- The literal model of `_plane_from_vertices` is `C06.planeFromVertices` (for which
`C06.ctor_own_plane` proves, for planar loops of non-zero area: valid frame, right-hand-rule
normal, all vertices on the plane, never clockwise); the empty list raises. -/
theorem plane_from_vertices_lit (M : MathOps α) (vs : List (V3 α)) :
    planeFromVerticesLit M vs =
      (if vs = [] then none else some (C06.planeFromVertices M vs)) := by
  cases vs with
  | nil => rfl
  | cons p0 rest =>
    simp only [planeFromVerticesLit, C06.planeFromVertices, (fan_normal_lit (p0 :: rest)).1,
      List.headD_cons, reduceCtorEq, if_false]
    congr 2
    by_cases h : C06.fanNormal (p0 :: rest) = ⟨0, 0, 0⟩
    · simp [h]
    · simp [h]

/-- **The normal is a positive multiple of the Newell vector**, for EVERY vertex list whose
Newell vector `Σ v[i-1] × v[i]` is non-zero (planar or not, concave or collinear leading
corner), under the `sqrt` law; the plane passes through the first vertex. -/
theorem plane_from_vertices_normal (M : MathOps α)
    (hsqrt : ∀ x, 0 ≤ x → M.sqrt x * M.sqrt x = x ∧ 0 ≤ M.sqrt x)
    (v0 : V3 α) (rest : List (V3 α)) (h0 : newell (v0 :: rest) ≠ ⟨0, 0, 0⟩) :
    ∃ pl, planeFromVerticesLit M (v0 :: rest) = some pl ∧ PlaneValid pl ∧ pl.o = v0 ∧
      ∃ c, 0 < c ∧ pl.n = V3.smul c (newell (v0 :: rest)) := by
  have hfan := (fan_normal_lit (v0 :: rest)).2
  set N := newell (v0 :: rest) with hN
  have hNne : V3.normSq N ≠ 0 := by
    intro hz
    apply h0
    have h1 := mul_self_nonneg N.x
    have h2 := mul_self_nonneg N.y
    have h3 := mul_self_nonneg N.z
    simp only [V3.normSq] at hz
    have hx : N.x * N.x = 0 := by linarith
    have hy : N.y * N.y = 0 := by linarith
    have hz' : N.z * N.z = 0 := by linarith
    ext
    · exact mul_self_eq_zero.mp hx
    · exact mul_self_eq_zero.mp hy
    · exact mul_self_eq_zero.mp hz'
  have hds := sqrt_pos_of_ne M hsqrt (v3_normSq_nonneg N) hNne
  set ds := M.sqrt (V3.normSq N) with hdsdef
  have hdd : ds * ds = V3.normSq N := (hsqrt _ (v3_normSq_nonneg N)).1
  let nv : V3 α := ⟨N.x / ds, N.y / ds, N.z / ds⟩
  have hnv : nv = V3.smul (1 / ds) N := by
    simp only [nv, V3.smul]; ext <;> simp only [] <;> ring
  have hnv1 : V3.normSq nv = 1 := by
    rw [hnv, v3_smul_normSq, ← hdd]
    field_simp
  have hpl : planeFromVerticesLit M (v0 :: rest) = some (plane_init M nv v0) := by
    simp only [planeFromVerticesLit, hfan, ← hN, if_pos h0]
    rfl
  obtain ⟨hval, _, hn, ho, _, _⟩ :=
    C06.plane_init_valid M hsqrt nv v0 (by rw [hnv1]; exact one_ne_zero)
  refine ⟨_, hpl, hval, ho, 1 / ds, by positivity, ?_⟩
  rw [hn, hnv1, sqrt_one M hsqrt, hnv]
  simp only [V3.smul]
  ext <;> simp only [] <;> ring

/-- **Start-vertex invariance of the normal**: rotating the vertex list leaves the computed unit
normal unchanged (the origin moves to the new first vertex). -/
theorem plane_from_vertices_rotate (M : MathOps α) (vs : List (V3 α)) (k : ℕ) :
    (planeFromVerticesLit M (vs.rotate k)).map (fun pl => pl.n) =
      (planeFromVerticesLit M vs).map (fun pl => pl.n) := by
  have hrot : fanNormalLit (vs.rotate k) = fanNormalLit vs := by
    rw [(fan_normal_lit _).2, (fan_normal_lit _).2, newell_rotate]
  have hn : ∀ (nv o : V3 α), (plane_init M nv o).n = v3_normalize M nv := by
    intro nv o
    rw [plane_init_eq]
    split_ifs <;> rfl
  have key : ∀ l : List (V3 α), l ≠ [] →
      (planeFromVerticesLit M l).map (fun pl => pl.n) =
        some (v3_normalize M (if fanNormalLit l ≠ ⟨0, 0, 0⟩ then
          (⟨(fanNormalLit l).x / M.sqrt ((fanNormalLit l).x * (fanNormalLit l).x +
              (fanNormalLit l).y * (fanNormalLit l).y + (fanNormalLit l).z * (fanNormalLit l).z),
            (fanNormalLit l).y / M.sqrt ((fanNormalLit l).x * (fanNormalLit l).x +
              (fanNormalLit l).y * (fanNormalLit l).y + (fanNormalLit l).z * (fanNormalLit l).z),
            (fanNormalLit l).z / M.sqrt ((fanNormalLit l).x * (fanNormalLit l).x +
              (fanNormalLit l).y * (fanNormalLit l).y + (fanNormalLit l).z * (fanNormalLit l).z)⟩
            : V3 α) else ⟨0, 0, 1⟩)) := by
    intro l hl
    cases l with
    | nil => exact absurd rfl hl
    | cons b u => simp only [planeFromVerticesLit, Option.map_some, hn]
  by_cases hvs : vs = []
  · subst hvs; simp
  · have hne : vs.rotate k ≠ [] := by
      intro hz
      apply hvs
      have := congrArg List.length hz
      rw [List.length_rotate] at this
      exact List.length_eq_zero_iff.mp this
    rw [key _ hne, key _ hvs, hrot]

/-- **Planar loops** (tie to `C06.ctor_own_plane`): for a loop of non-zero area given by
coordinates `cs0` in SOME valid frame `pl0` (either winding, any start vertex, concave or
collinear leading corner), the literal `_plane_from_vertices` returns a valid plane whose normal
is the right-hand-rule normal of the loop (`pl0.n` if the loop is counter-clockwise in `pl0`,
`−pl0.n` otherwise), containing every vertex, in which the loop is not clockwise. -/
theorem plane_from_vertices_planar (M : MathOps α)
    (hsqrt : ∀ x, 0 ≤ x → M.sqrt x * M.sqrt x = x ∧ 0 ≤ M.sqrt x)
    {pl0 : PlaneS α} (hv0 : PlaneValid pl0) (cs0 : List (V2 α)) (h0 : shoelace cs0 ≠ 0) :
    ∃ pl, planeFromVerticesLit M (cs0.map (plane_xy_to_xyz pl0)) = some pl ∧ PlaneValid pl ∧
      pl.n = (if 0 < shoelace cs0 then pl0.n else V3.neg pl0.n) ∧
      (∀ p ∈ cs0.map (plane_xy_to_xyz pl0), OnPlane pl p) ∧
      0 < shoelace ((cs0.map (plane_xy_to_xyz pl0)).map (plane_xyz_to_xy pl)) := by
  have hne : cs0.map (plane_xy_to_xyz pl0) ≠ [] := by
    intro hz
    apply h0
    have : cs0 = [] := List.map_eq_nil_iff.mp hz
    rw [this]; rfl
  obtain ⟨a, b, c, d, _⟩ := C06.ctor_own_plane M hsqrt hv0 cs0 h0
  exact ⟨_, by rw [plane_from_vertices_lit, if_neg hne], a, b, c, d⟩

/-! ## Non-vacuity / sanity at ℚ -/

/-- `12 × 8` rectangle with a `2 × 2` hole given COUNTER-clockwise (same winding as the
boundary): the code reverses the hole and inserts it at the closest pair `(0,0) — (2,2)`; ten
vertices become `4 + 4 + 2`, doubled signed area `192 − 8`. -/
example :
    fromShapeWithHoles ([⟨0, 0⟩, ⟨12, 0⟩, ⟨12, 8⟩, ⟨0, 8⟩] : List (V2 ℚ))
        [[⟨2, 2⟩, ⟨4, 2⟩, ⟨4, 4⟩, ⟨2, 4⟩]] =
      some [⟨0, 0⟩, ⟨2, 2⟩, ⟨2, 4⟩, ⟨4, 4⟩, ⟨4, 2⟩, ⟨2, 2⟩, ⟨0, 0⟩, ⟨12, 0⟩, ⟨12, 8⟩, ⟨0, 8⟩] ∧
    shoelace ([⟨0, 0⟩, ⟨2, 2⟩, ⟨2, 4⟩, ⟨4, 4⟩, ⟨4, 2⟩, ⟨2, 2⟩, ⟨0, 0⟩, ⟨12, 0⟩, ⟨12, 8⟩, ⟨0, 8⟩]
      : List (V2 ℚ)) = 192 - 8 := by
  constructor <;> decide +kernel

/-- Two holes, the second one closer: it is merged first, and the tie between equally close
pairs is resolved by the LAST pair in the double loop. -/
example :
    fromShapeWithHoles ([⟨0, 0⟩, ⟨8, 0⟩, ⟨8, 8⟩, ⟨0, 8⟩] : List (V2 ℚ))
        [[⟨3, 3⟩, ⟨5, 3⟩, ⟨5, 5⟩, ⟨3, 5⟩]] =
      some [⟨0, 0⟩, ⟨8, 0⟩, ⟨8, 8⟩, ⟨0, 8⟩, ⟨3, 5⟩, ⟨5, 5⟩, ⟨5, 3⟩, ⟨3, 3⟩, ⟨3, 5⟩, ⟨0, 8⟩] ∧
    fromShapeWithHoles ([⟨0, 0⟩, ⟨12, 0⟩, ⟨12, 8⟩, ⟨0, 8⟩] : List (V2 ℚ))
        [[⟨2, 2⟩, ⟨4, 2⟩]] = none ∧
    mergeBoundaryAndHoles ([] : List (V2 ℚ)) [[⟨2, 2⟩, ⟨4, 2⟩, ⟨4, 4⟩]] = none := by
  refine ⟨?_, ?_, ?_⟩ <;> decide +kernel

/-- `_plane_from_vertices` on a loop with a CONCAVE leading corner in the plane `z = 1`: the
accumulated normal is `(0, 0, 24)` (twice the area 12, pointing up: the loop is
counter-clockwise seen from `+z`), whatever the start vertex. -/
example :
    fanNormalLit ([⟨2, 2, 1⟩, ⟨4, 0, 1⟩, ⟨4, 4, 1⟩, ⟨0, 4, 1⟩, ⟨0, 0, 1⟩] : List (V3 ℚ)) = ⟨0, 0, 24⟩ ∧
    fanNormalLit ([⟨4, 4, 1⟩, ⟨0, 4, 1⟩, ⟨0, 0, 1⟩, ⟨2, 2, 1⟩, ⟨4, 0, 1⟩] : List (V3 ℚ)) = ⟨0, 0, 24⟩ ∧
    fanNormalLit ([⟨0, 0, 0⟩, ⟨1, 0, 0⟩, ⟨2, 0, 0⟩] : List (V3 ℚ)) = ⟨0, 0, 0⟩ := by
  refine ⟨?_, ?_, ?_⟩ <;> decide +kernel

end Lbg.Props.C01b
