/-
  C01 — area, perimeter/length, volume and centroid equal the exact values of the shape.

  The exact area of a polygon is DEFINED here as `|shoelace vs| / 2` (that this functional is
  the Lebesgue measure of a simple polygon is the classical fact that is not re-proved).  What
  is proved, about the kernels regenerated from the repository by py2lean (`Lbg.Gen.*`):

  1. the generated `Polygon2D.area / is_clockwise / _are_clockwise` loops compute exactly that
     functional and its sign;
  2. the functional has the laws of an area, for EVERY vertex list: start-vertex and
     orientation independence, invariance under the generated `move / rotate / reflect`,
     `k²` under the generated `scale`, fan formula from any base point, ear removal, and
     "sum of the triangles of any ear decomposition";
  3. the mesh kernels: `Mesh2D._get_area` (triangle, quad), `Mesh3D._get_tri_area`,
     `_calculate_normal_and_area_for_triangle / _for_quad` — the quad kernel reports the true
     area `|shoelace|/2` of every planar quad whose diagonal `p0 — p2` is interior (all convex
     quads), and the unit plane normal;
  4. centroids of triangles and (area-weighted) quads, equal to the exact `centroid`;
  5. closed forms of sphere / cylinder / cone / arc with `π`, `tan`, `sqrt` abstract;
  6. segment lengths;
  7. the algebra of the `Polyface3D.volume` summand (hand model `volTerm`, tied to the code by
     the correspondence harness).
-/
import LbgVerif.Gen.Poly
import LbgVerif.Gen.Mesh
import LbgVerif.Gen.Solid
import LbgVerif.Gen.Arc
import LbgVerif.Gen.Line
import LbgVerif.Gen.Vec
import LbgVerif.Gen.Plane
import LbgVerif.Lemmas.Measure
import LbgVerif.Lemmas.MeshKernels
import Mathlib.Tactic.Ring
import Mathlib.Tactic.FieldSimp
import Mathlib.Tactic.Linarith
import Mathlib.Tactic.LinearCombination
import Mathlib.Tactic.SplitIfs
import Mathlib.Tactic.NormNum
import Mathlib.Tactic.Positivity
import Mathlib.Algebra.Order.Field.Rat

set_option linter.unusedSectionVars false
set_option linter.unusedVariables false
set_option linter.unusedTactic false
set_option linter.unreachableTactic false

namespace Lbg.Props.C01
open Lbg Lbg.Gen Lbg.Lemmas
variable {α : Type} [Field α] [LinearOrder α] [IsStrictOrderedRing α]

/-! ## 1. The generated polygon kernels compute the shoelace functional -/

/-- Signed area of the triangle `(a, b, c)`: `det (b - a) (c - a) / 2`. -/
def triSigned (a b c : V2 α) : α := V2.det (V2.sub b a) (V2.sub c a) / 2

/-- `Polygon2D.area` is exactly `|shoelace| / 2` (written `|shoelace / 2|` as in the code). -/
theorem polygon2d_area_eq (vs : List (V2 α)) : polygon2d_area vs = |shoelace vs / 2| := by
  simp only [polygon2d_area, shoelace_loop]

/-- Same, with the absolute value outside: `area = |shoelace| / 2`. -/
theorem polygon2d_area_eq' (vs : List (V2 α)) : polygon2d_area vs = |shoelace vs| / 2 := by
  rw [polygon2d_area_eq, abs_div, abs_two]

/-- The reported area is never negative. -/
theorem polygon2d_area_nonneg (vs : List (V2 α)) : 0 ≤ polygon2d_area vs := by
  rw [polygon2d_area_eq]; exact abs_nonneg _

/-- `Polygon2D.is_clockwise` is exactly "the signed area is negative". -/
theorem polygon2d_is_clockwise_iff (vs : List (V2 α)) :
    polygon2d_is_clockwise vs = true ↔ shoelace vs / 2 < 0 := by
  simp only [polygon2d_is_clockwise, shoelace_loop, decide_eq_true_eq]

/-- `Polygon2D._are_clockwise` (used by `from_shape_with_holes`) is exactly "the shoelace sum is
negative". -/
theorem polygon2d_are_clockwise_iff (vs : List (V2 α)) :
    polygon2d_are_clockwise vs = true ↔ shoelace vs < 0 := by
  simp only [polygon2d_are_clockwise, shoelace_loop, decide_eq_true_eq]

/-- The two orientation kernels agree on every vertex list. -/
theorem polygon2d_are_clockwise_eq (vs : List (V2 α)) :
    polygon2d_are_clockwise vs = polygon2d_is_clockwise vs := by
  rw [Bool.eq_iff_iff, polygon2d_are_clockwise_iff, polygon2d_is_clockwise_iff]
  constructor
  · intro h; exact div_neg_of_neg_of_pos h two_pos
  · intro h
    by_contra h'
    exact absurd h (not_lt.mpr (div_nonneg (not_lt.mp h') zero_le_two))

/-! ## 2. Laws of the area functional (every vertex list, no length bound) -/

/-- Start-vertex invariance: the area does not depend on the cyclic start vertex. -/
theorem area_start_invariant (vs : List (V2 α)) (n : ℕ) :
    polygon2d_area (vs.rotate n) = polygon2d_area vs := by
  rw [polygon2d_area_eq, polygon2d_area_eq, shoelace_rotate]

/-- Start-vertex invariance of the orientation. -/
theorem is_clockwise_start_invariant (vs : List (V2 α)) (n : ℕ) :
    polygon2d_is_clockwise (vs.rotate n) = polygon2d_is_clockwise vs := by
  rw [Bool.eq_iff_iff, polygon2d_is_clockwise_iff, polygon2d_is_clockwise_iff, shoelace_rotate]

/-- Reversal invariance: both vertex orders report the same area. -/
theorem area_reverse (vs : List (V2 α)) : polygon2d_area vs.reverse = polygon2d_area vs := by
  rw [polygon2d_area_eq, polygon2d_area_eq, shoelace_reverse, neg_div, abs_neg]

/-- Reversing a polygon of non-zero area flips `is_clockwise`. -/
theorem is_clockwise_reverse (vs : List (V2 α)) (h : shoelace vs ≠ 0) :
    polygon2d_is_clockwise vs.reverse = !polygon2d_is_clockwise vs := by
  rw [Bool.eq_iff_iff, Bool.not_eq_true', ← Bool.not_eq_true, polygon2d_is_clockwise_iff,
    polygon2d_is_clockwise_iff, shoelace_reverse, neg_div]
  have h2 : shoelace vs / 2 ≠ 0 := div_ne_zero h two_ne_zero
  constructor
  · intro h1 h3; linarith
  · intro h1
    rcases lt_trichotomy (shoelace vs / 2) 0 with h3 | h3 | h3
    · exact absurd h3 h1
    · exact absurd h3 h2
    · linarith

/-- Translation invariance (generated `Point2D.move`): signed area, area and orientation. -/
theorem area_translate (vs : List (V2 α)) (t : V2 α) :
    shoelace (vs.map (fun p => p2_move p t)) = shoelace vs ∧
    polygon2d_area (vs.map (fun p => p2_move p t)) = polygon2d_area vs ∧
    polygon2d_is_clockwise (vs.map (fun p => p2_move p t)) = polygon2d_is_clockwise vs := by
  have h : shoelace (vs.map (fun p => p2_move p t)) = shoelace vs := by
    rw [shoelace_affine_of _ 1 0 0 1 t.x t.y (fun p => by simp only [p2_move]; ring)
      (fun p => by simp only [p2_move]; ring)]
    ring
  refine ⟨h, ?_, ?_⟩
  · rw [polygon2d_area_eq, polygon2d_area_eq, h]
  · rw [Bool.eq_iff_iff, polygon2d_is_clockwise_iff, polygon2d_is_clockwise_iff, h]

/-- Rotation invariance (generated `Point2D.rotate` about any origin `o`, ANY pair
`(cos, sin)` on the unit circle): signed area, area and orientation. -/
theorem area_rotate (M : MathOps α) (vs : List (V2 α)) (θ : α) (o : V2 α)
    (hcs : M.cos θ * M.cos θ + M.sin θ * M.sin θ = 1) :
    shoelace (vs.map (fun p => p2_rotate M p θ o)) = shoelace vs ∧
    polygon2d_area (vs.map (fun p => p2_rotate M p θ o)) = polygon2d_area vs ∧
    polygon2d_is_clockwise (vs.map (fun p => p2_rotate M p θ o)) = polygon2d_is_clockwise vs := by
  have h : shoelace (vs.map (fun p => p2_rotate M p θ o)) = shoelace vs := by
    rw [shoelace_affine_of _ (M.cos θ) (-(M.sin θ)) (M.sin θ) (M.cos θ)
      (-(M.cos θ) * o.x + M.sin θ * o.y + o.x) (-(M.sin θ) * o.x - M.cos θ * o.y + o.y)
      (fun p => by simp only [p2_rotate]; ring) (fun p => by simp only [p2_rotate]; ring)]
    have : M.cos θ * M.cos θ - -(M.sin θ) * M.sin θ = 1 := by linear_combination hcs
    rw [this, one_mul]
  refine ⟨h, ?_, ?_⟩
  · rw [polygon2d_area_eq, polygon2d_area_eq, h]
  · rw [Bool.eq_iff_iff, polygon2d_is_clockwise_iff, polygon2d_is_clockwise_iff, h]

/-- Reflection (generated `Point2D.reflect`, unit normal `n`, any origin `o`) negates the
signed area, hence keeps the area. -/
theorem area_reflect (vs : List (V2 α)) (n o : V2 α) (hn : n.x * n.x + n.y * n.y = 1) :
    shoelace (vs.map (fun p => p2_reflect p n o)) = - shoelace vs ∧
    polygon2d_area (vs.map (fun p => p2_reflect p n o)) = polygon2d_area vs := by
  have h : shoelace (vs.map (fun p => p2_reflect p n o)) = - shoelace vs := by
    rw [shoelace_affine_of _ (1 - 2 * n.x * n.x) (-2 * n.x * n.y) (-2 * n.x * n.y)
      (1 - 2 * n.y * n.y)
      (-o.x + 2 * (o.x * n.x + o.y * n.y) * n.x + o.x)
      (-o.y + 2 * (o.x * n.x + o.y * n.y) * n.y + o.y)
      (fun p => by simp only [p2_reflect]; ring) (fun p => by simp only [p2_reflect]; ring)]
    have : (1 - 2 * n.x * n.x) * (1 - 2 * n.y * n.y) - -2 * n.x * n.y * (-2 * n.x * n.y) = -1 := by
      linear_combination (-2 : α) * hn
    rw [this]; ring
  refine ⟨h, ?_⟩
  rw [polygon2d_area_eq, polygon2d_area_eq, h, neg_div, abs_neg]

/-- Reflecting a polygon of non-zero area flips `is_clockwise`. -/
theorem is_clockwise_reflect (vs : List (V2 α)) (n o : V2 α)
    (hn : n.x * n.x + n.y * n.y = 1) (h : shoelace vs ≠ 0) :
    polygon2d_is_clockwise (vs.map (fun p => p2_reflect p n o)) =
      !polygon2d_is_clockwise vs := by
  rw [← is_clockwise_reverse vs h, Bool.eq_iff_iff, polygon2d_is_clockwise_iff,
    polygon2d_is_clockwise_iff, (area_reflect vs n o hn).1, shoelace_reverse]

/-- Scaling by `k` about any origin (generated `Point2D.scale`) multiplies the signed area and
the area by `k²`; the orientation is kept when `k ≠ 0`. -/
theorem area_scale (vs : List (V2 α)) (k : α) (o : V2 α) :
    shoelace (vs.map (fun p => p2_scale p k o)) = k * k * shoelace vs ∧
    polygon2d_area (vs.map (fun p => p2_scale p k o)) = k * k * polygon2d_area vs ∧
    (k ≠ 0 → polygon2d_is_clockwise (vs.map (fun p => p2_scale p k o)) =
      polygon2d_is_clockwise vs) := by
  have h : shoelace (vs.map (fun p => p2_scale p k o)) = k * k * shoelace vs := by
    rw [shoelace_affine_of _ k 0 0 k (-o.x * k + o.x) (-o.y * k + o.y)
      (fun p => by simp only [p2_scale]; ring) (fun p => by simp only [p2_scale]; ring)]
    ring
  refine ⟨h, ?_, ?_⟩
  · rw [polygon2d_area_eq, polygon2d_area_eq, h, mul_div_assoc, abs_mul, abs_mul_self]
  · intro hk
    have hkk : 0 < k * k := mul_self_pos.mpr hk
    rw [Bool.eq_iff_iff, polygon2d_is_clockwise_iff, polygon2d_is_clockwise_iff, h,
      mul_div_assoc]
    constructor
    · intro h1; by_contra h2; exact absurd h1 (not_lt.mpr (mul_nonneg hkk.le (not_lt.mp h2)))
    · intro h1; exact mul_neg_of_pos_of_neg hkk h1

/-- Scaling about the world origin (generated `Point2D.scale` with `origin=None`). -/
theorem area_scale_world (vs : List (V2 α)) (k : α) :
    shoelace (vs.map (fun p => p2_scale_world p k)) = k * k * shoelace vs ∧
    polygon2d_area (vs.map (fun p => p2_scale_world p k)) = k * k * polygon2d_area vs := by
  have h : shoelace (vs.map (fun p => p2_scale_world p k)) = k * k * shoelace vs := by
    rw [shoelace_affine_of _ k 0 0 k 0 0
      (fun p => by simp only [p2_scale_world]; ring) (fun p => by simp only [p2_scale_world]; ring)]
    ring
  refine ⟨h, ?_⟩
  rw [polygon2d_area_eq, polygon2d_area_eq, h, mul_div_assoc, abs_mul, abs_mul_self]

/-- Fan formula: for ANY base point `o` the signed area is the sum of the signed areas of
the triangles `(o, a, b)` over the cyclic edges `(a, b)` — the algebraic content of "the area
is that of any triangulation". -/
theorem area_eq_fan (o : V2 α) (vs : List (V2 α)) :
    shoelace vs / 2 = ((cyclicPairs vs).map (fun p => triSigned o p.1 p.2)).sum ∧
    polygon2d_area vs = |((cyclicPairs vs).map (fun p => triSigned o p.1 p.2)).sum| := by
  have h : shoelace vs / 2 = ((cyclicPairs vs).map (fun p => triSigned o p.1 p.2)).sum := by
    unfold triSigned
    rw [sum_map_div (fun p : V2 α × V2 α => V2.det (V2.sub p.1 o) (V2.sub p.2 o)) 2,
      ← shoelace_eq_fan]
  exact ⟨h, by rw [polygon2d_area_eq, h]⟩

/-- Fan from the first vertex (the triangles `(v0, v_i, v_{i+1})` used by fan triangulations
of convex faces). -/
theorem area_eq_fan_head (p0 : V2 α) (rest : List (V2 α)) :
    shoelace (p0 :: rest) / 2 =
      ((rest.zip rest.tail).map (fun p => triSigned p0 p.1 p.2)).sum := by
  unfold triSigned
  rw [sum_map_div (fun p : V2 α × V2 α => V2.det (V2.sub p.1 p0) (V2.sub p.2 p0)) 2,
    ← shoelace_fan_head]

/-- Removing the ear `(a, b, c)` removes exactly the signed area of the ear triangle. -/
theorem area_of_ear (pre post : List (V2 α)) (a b c : V2 α) :
    shoelace (pre ++ [a, b, c] ++ post) / 2 =
      triSigned a b c + shoelace (pre ++ [a, c] ++ post) / 2 := by
  rw [shoelace_ear, triSigned]; ring

/-- Cutting a polygon along a chord `a — b` is additive in signed area. -/
theorem area_split (pre mid post : List (V2 α)) (a b : V2 α) :
    shoelace (pre ++ [a] ++ mid ++ [b] ++ post) / 2 =
      shoelace ([a] ++ mid ++ [b]) / 2 + shoelace (pre ++ [a, b] ++ post) / 2 := by
  rw [shoelace_split]; ring

/-- Face with a hole: after splicing the hole loop into the boundary through a doubled bridge
edge (what `_merge_boundary_and_holes` builds), the signed area is boundary + hole; with the
hole wound oppositely this is `boundary area − hole area`. -/
theorem area_bridge (b1 b2 h1 h2 : List (V2 α)) (p q : V2 α) :
    shoelace (b1 ++ [p] ++ ([q] ++ h2 ++ h1 ++ [q]) ++ [p] ++ b2) / 2 =
      shoelace (b1 ++ [p] ++ b2) / 2 + shoelace (h1 ++ [q] ++ h2) / 2 := by
  rw [shoelace_bridge]; ring

/-- Boundary counter-clockwise, hole clockwise (the orientation `from_shape_with_holes`
enforces with `_are_clockwise`): merged area = boundary area − hole area, provided the hole is
not larger than the boundary. -/
theorem area_with_hole (b1 b2 h1 h2 : List (V2 α)) (p q : V2 α)
    (hb : 0 ≤ shoelace (b1 ++ [p] ++ b2)) (hh : shoelace (h1 ++ [q] ++ h2) ≤ 0)
    (hle : - shoelace (h1 ++ [q] ++ h2) ≤ shoelace (b1 ++ [p] ++ b2)) :
    polygon2d_area (b1 ++ [p] ++ ([q] ++ h2 ++ h1 ++ [q]) ++ [p] ++ b2) =
      polygon2d_area (b1 ++ [p] ++ b2) - polygon2d_area (h1 ++ [q] ++ h2) := by
  rw [polygon2d_area_eq', polygon2d_area_eq', polygon2d_area_eq', shoelace_bridge,
    abs_of_nonneg hb, abs_of_nonpos hh, abs_of_nonneg (by linarith)]
  ring

/-- An ear decomposition of a vertex loop: repeatedly clip an ear `(a, b, c)` (anywhere in the
list, after any cyclic re-start) until at most two vertices remain; `tris` collects the clipped
triangles.  Every triangulation of a simple polygon without extra vertices arises this way
(its dual graph is a tree, whose leaves are ears). -/
inductive EarDecomp : List (V2 α) → List (V2 α × V2 α × V2 α) → Prop
  | done (l : List (V2 α)) (h : l.length ≤ 2) : EarDecomp l []
  | clip (pre post : List (V2 α)) (a b c : V2 α) (tris : List (V2 α × V2 α × V2 α)) :
      EarDecomp (pre ++ [a, c] ++ post) tris →
      EarDecomp (pre ++ [a, b, c] ++ post) ((a, b, c) :: tris)
  | restart (l : List (V2 α)) (n : ℕ) (tris : List (V2 α × V2 α × V2 α)) :
      EarDecomp (l.rotate n) tris → EarDecomp l tris

/-- **Area = sum of the triangles of any ear decomposition** (signed form, every list). -/
theorem area_of_ear_decomposition (vs : List (V2 α)) (tris : List (V2 α × V2 α × V2 α))
    (h : EarDecomp vs tris) :
    shoelace vs / 2 = (tris.map (fun t => triSigned t.1 t.2.1 t.2.2)).sum := by
  induction h with
  | done l hl =>
    match l, hl with
    | [], _ => simp
    | [a], _ => simp [shoelace_singleton]
    | [a, b], _ => simp [shoelace_pair]
    | _ :: _ :: _ :: _, hl => simp at hl
  | clip pre post a b c tris _ ih =>
    rw [area_of_ear, ih, List.map_cons, List.sum_cons]
  | restart l n tris _ ih =>
    rw [← ih, shoelace_rotate]

/-! ## 3. Mesh face kernels -/

/-- `Mesh2D._get_area` of a triangle: `|det (b - a) (c - a)| / 2`, i.e. the absolute signed
triangle area, i.e. the polygon area of the three vertices. -/
theorem mesh2d_get_area_tri_eq (a b c : V2 α) :
    mesh2d_get_area_tri (a, b, c) = |V2.det (V2.sub b a) (V2.sub c a)| / 2 ∧
    mesh2d_get_area_tri (a, b, c) = |triSigned a b c| ∧
    mesh2d_get_area_tri (a, b, c) = polygon2d_area [a, b, c] := by
  refine ⟨?_, ?_, ?_⟩
  · rw [mesh2d_get_area_tri_det, abs_div, abs_two]
  · rw [mesh2d_get_area_tri_det, triSigned]
  · rw [mesh2d_get_area_tri_det, polygon2d_area_eq, shoelace_triangle]

/-- `Mesh2D._get_area` of a quad: `|shoelace [a,b,c,d]| / 2 = |det (c - a) (d - b)| / 2`
(diagonal cross-product formula), i.e. the polygon area of the four vertices — for EVERY quad,
convex or not. -/
theorem mesh2d_get_area_quad_eq (a b c d : V2 α) :
    mesh2d_get_area_quad (a, b, c, d) = |shoelace [a, b, c, d]| / 2 ∧
    mesh2d_get_area_quad (a, b, c, d) = |V2.det (V2.sub c a) (V2.sub d b)| / 2 ∧
    mesh2d_get_area_quad (a, b, c, d) = polygon2d_area [a, b, c, d] := by
  refine ⟨?_, ?_, ?_⟩
  · rw [mesh2d_get_area_quad_shoelace, abs_div, abs_two]
  · rw [mesh2d_get_area_quad_shoelace, abs_div, abs_two, shoelace_quad]
  · rw [mesh2d_get_area_quad_shoelace, polygon2d_area_eq]

/-- **Unsigned ear decomposition**: if every clipped triangle is counter-clockwise (as in any
triangulation of a counter-clockwise simple polygon) the polygon area is the sum of the
`Mesh2D._get_area` values of the triangles. -/
theorem area_of_ear_decomposition_ccw (vs : List (V2 α)) (tris : List (V2 α × V2 α × V2 α))
    (h : EarDecomp vs tris) (hccw : ∀ t ∈ tris, 0 ≤ triSigned t.1 t.2.1 t.2.2) :
    polygon2d_area vs = (tris.map mesh2d_get_area_tri).sum := by
  have hmap : tris.map mesh2d_get_area_tri = tris.map (fun t => triSigned t.1 t.2.1 t.2.2) := by
    apply List.map_congr_left
    intro t ht
    obtain ⟨a, b, c⟩ := t
    rw [(mesh2d_get_area_tri_eq a b c).2.1, abs_of_nonneg (hccw (a, b, c) ht)]
  have hs := area_of_ear_decomposition vs tris h
  have hnn : 0 ≤ (tris.map (fun t => triSigned t.1 t.2.1 t.2.2)).sum := by
    apply List.sum_nonneg
    intro x hx
    obtain ⟨t, ht, rfl⟩ := List.mem_map.mp hx
    exact hccw t ht
  rw [polygon2d_area_eq, hs, hmap, abs_of_nonneg hnn]

/-- `Mesh3D._get_tri_area` is half the length of `(b - a) × (c - a)`: under the `sqrt` law
`area² = |cross|² / 4` and `area ≥ 0` (which determines it uniquely). -/
theorem mesh3d_get_tri_area_sq (M : MathOps α)
    (hsqrt : ∀ x, 0 ≤ x → M.sqrt x * M.sqrt x = x ∧ 0 ≤ M.sqrt x) (a b c : V3 α) :
    mesh3d_get_tri_area M (a, b, c) * mesh3d_get_tri_area M (a, b, c) =
      V3.normSq (V3.cross (V3.sub b a) (V3.sub c a)) / 4 ∧
    0 ≤ mesh3d_get_tri_area M (a, b, c) := by
  rw [mesh3d_get_tri_area_cross]
  obtain ⟨h1, h2⟩ := hsqrt _ (v3_normSq_nonneg (V3.cross (V3.sub b a) (V3.sub c a)))
  constructor
  · linear_combination (1 / 4 : α) * h1
  · positivity

/-- `Mesh3D._calculate_normal_and_area_for_triangle`: the area is the `_get_tri_area` value;
for a non-degenerate triangle the normal is THE unit vector along `(b - a) × (c - a)`
(`|N| • normal = N`, `|normal|² = 1`, `|N| > 0`); for a degenerate one it is the zero vector
(the code skips the division). -/
theorem mesh3d_normal_area_tri_spec (M : MathOps α)
    (hsqrt : ∀ x, 0 ≤ x → M.sqrt x * M.sqrt x = x ∧ 0 ≤ M.sqrt x) (a b c : V3 α) :
    (mesh3d_normal_area_tri M (a, b, c)).2 = mesh3d_get_tri_area M (a, b, c) ∧
    (V3.normSq (V3.cross (V3.sub b a) (V3.sub c a)) ≠ 0 →
      V3.smul (M.sqrt (V3.normSq (V3.cross (V3.sub b a) (V3.sub c a))))
          (mesh3d_normal_area_tri M (a, b, c)).1 = V3.cross (V3.sub b a) (V3.sub c a) ∧
      V3.normSq (mesh3d_normal_area_tri M (a, b, c)).1 = 1 ∧
      0 < M.sqrt (V3.normSq (V3.cross (V3.sub b a) (V3.sub c a)))) ∧
    (V3.normSq (V3.cross (V3.sub b a) (V3.sub c a)) = 0 →
      (mesh3d_normal_area_tri M (a, b, c)).1 = ⟨0, 0, 0⟩) := by
  rw [mesh3d_normal_area_tri_cross, mesh3d_get_tri_area_cross]
  refine ⟨rfl, fun hN => v3_normalize_spec M hsqrt _ hN, fun hN => ?_⟩
  simp only []
  rw [v3_eq_zero_of_normSq _ hN, v3_normalize_zero]

/-- For EVERY planar quad given through an orthonormal frame the generated quad kernel reports
`|tri (p0,p1,p2)| + |tri (p2,p3,p0)|` — the two triangles of the ONE diagonal `p0 — p2`
(the historical defect paired `(p0,p1,p2)` with the overlapping `(p2,p3,p1)`). -/
theorem mesh3d_normal_area_quad_planar_general (M : MathOps α)
    (hsqrt : ∀ x, 0 ≤ x → M.sqrt x * M.sqrt x = x ∧ 0 ≤ M.sqrt x) (o x y : V3 α)
    (hx : V3.normSq x = 1) (hy : V3.normSq y = 1) (hxy : V3.dot x y = 0)
    (c0 c1 c2 c3 : V2 α) :
    (mesh3d_normal_area_quad M
      (lift o x y c0, lift o x y c1, lift o x y c2, lift o x y c3)).2 =
      |triSigned c0 c1 c2| + |triSigned c2 c3 c0| := by
  rw [mesh3d_normal_area_quad_cross]
  simp only []
  rw [sqrt_normSq_cross_lift M hsqrt o x y hx hy hxy, sqrt_normSq_cross_lift M hsqrt o x y hx hy hxy,
    triSigned, triSigned, abs_div, abs_div, abs_two]
  ring

/-- **`mesh3d_normal_area_quad_planar`** — the theorem that exposes the (now repaired)
Mesh3D quad defect.  For a planar quad `pᵢ = o + aᵢ•x + bᵢ•y` in an orthonormal frame whose
two triangles `(p0,p1,p2)` and `(p2,p3,p0)` have the same orientation (`p0 — p2` is an interior
diagonal; true for every convex quad), the reported area is the exact area
`|shoelace [c0,c1,c2,c3]| / 2` of the plane coordinates — the same number `Mesh2D._get_area` and
`Polygon2D.area` report — and the reported normal is `+(x × y)` for a counter-clockwise quad,
`-(x × y)` for a clockwise one (zero vector for zero area). -/
theorem mesh3d_normal_area_quad_planar (M : MathOps α)
    (hsqrt : ∀ x, 0 ≤ x → M.sqrt x * M.sqrt x = x ∧ 0 ≤ M.sqrt x) (o x y : V3 α)
    (hx : V3.normSq x = 1) (hy : V3.normSq y = 1) (hxy : V3.dot x y = 0)
    (c0 c1 c2 c3 : V2 α)
    (hdiag : (0 ≤ triSigned c0 c1 c2 ∧ 0 ≤ triSigned c2 c3 c0) ∨
      (triSigned c0 c1 c2 ≤ 0 ∧ triSigned c2 c3 c0 ≤ 0)) :
    (mesh3d_normal_area_quad M
      (lift o x y c0, lift o x y c1, lift o x y c2, lift o x y c3)).2 =
        |shoelace [c0, c1, c2, c3]| / 2 ∧
    (mesh3d_normal_area_quad M
      (lift o x y c0, lift o x y c1, lift o x y c2, lift o x y c3)).2 =
        mesh2d_get_area_quad (c0, c1, c2, c3) ∧
    (mesh3d_normal_area_quad M
      (lift o x y c0, lift o x y c1, lift o x y c2, lift o x y c3)).2 =
        polygon2d_area [c0, c1, c2, c3] ∧
    (0 < shoelace [c0, c1, c2, c3] → (mesh3d_normal_area_quad M
      (lift o x y c0, lift o x y c1, lift o x y c2, lift o x y c3)).1 = V3.cross x y) ∧
    (shoelace [c0, c1, c2, c3] < 0 → (mesh3d_normal_area_quad M
      (lift o x y c0, lift o x y c1, lift o x y c2, lift o x y c3)).1 =
        V3.neg (V3.cross x y)) ∧
    (shoelace [c0, c1, c2, c3] = 0 → (mesh3d_normal_area_quad M
      (lift o x y c0, lift o x y c1, lift o x y c2, lift o x y c3)).1 = ⟨0, 0, 0⟩) := by
  have hA : (mesh3d_normal_area_quad M
      (lift o x y c0, lift o x y c1, lift o x y c2, lift o x y c3)).2 =
        |shoelace [c0, c1, c2, c3]| / 2 := by
    rw [mesh3d_normal_area_quad_planar_general M hsqrt o x y hx hy hxy,
      abs_add_abs_of_same_sign _ _ hdiag, shoelace_quad_split, triSigned, triSigned,
      ← add_div, abs_div, abs_two]
  have hw := normSq_cross_orthonormal x y hx hy hxy
  have hN : (mesh3d_normal_area_quad M
      (lift o x y c0, lift o x y c1, lift o x y c2, lift o x y c3)).1 =
      v3_normalize M (V3.smul (shoelace [c0, c1, c2, c3] / 2) (V3.cross x y)) := by
    rw [mesh3d_normal_area_quad_cross]
    simp only []
    rw [cross_lift, cross_lift, mid3_smul, shoelace_quad_split]
  obtain ⟨hpos, hneg, hzero⟩ :=
    v3_normalize_smul_unit M hsqrt (shoelace [c0, c1, c2, c3] / 2) (V3.cross x y) hw
  refine ⟨hA, ?_, ?_, ?_, ?_, ?_⟩
  · rw [hA, (mesh2d_get_area_quad_eq c0 c1 c2 c3).1]
  · rw [hA, polygon2d_area_eq']
  · intro h; rw [hN]; exact hpos (div_pos h two_pos)
  · intro h; rw [hN]; exact hneg (div_neg_of_neg_of_pos h two_pos)
  · intro h; rw [hN]; exact hzero (by rw [h, zero_div])

/-- The same for a `Plane`: `plane_xy_to_xyz pl` is the chart `lift pl.o pl.x pl.y`, so the
quad kernel applied to the 3D vertices `Plane.xy_to_xyz` produces reports the exact 2D area. -/
theorem mesh3d_quad_area_on_plane (M : MathOps α)
    (hsqrt : ∀ x, 0 ≤ x → M.sqrt x * M.sqrt x = x ∧ 0 ≤ M.sqrt x) (pl : PlaneS α)
    (hx : V3.normSq pl.x = 1) (hy : V3.normSq pl.y = 1) (hxy : V3.dot pl.x pl.y = 0)
    (c0 c1 c2 c3 : V2 α)
    (hdiag : (0 ≤ triSigned c0 c1 c2 ∧ 0 ≤ triSigned c2 c3 c0) ∨
      (triSigned c0 c1 c2 ≤ 0 ∧ triSigned c2 c3 c0 ≤ 0)) :
    (mesh3d_normal_area_quad M (plane_xy_to_xyz pl c0, plane_xy_to_xyz pl c1,
      plane_xy_to_xyz pl c2, plane_xy_to_xyz pl c3)).2 = |shoelace [c0, c1, c2, c3]| / 2 :=
  (mesh3d_normal_area_quad_planar M hsqrt pl.o pl.x pl.y hx hy hxy c0 c1 c2 c3 hdiag).1

/-- Area of a planar triangle given through an orthonormal frame: the 3D kernel reports the
exact 2D area `|det| / 2`. -/
theorem mesh3d_get_tri_area_planar (M : MathOps α)
    (hsqrt : ∀ x, 0 ≤ x → M.sqrt x * M.sqrt x = x ∧ 0 ≤ M.sqrt x) (o x y : V3 α)
    (hx : V3.normSq x = 1) (hy : V3.normSq y = 1) (hxy : V3.dot x y = 0) (a b c : V2 α) :
    mesh3d_get_tri_area M (lift o x y a, lift o x y b, lift o x y c) = |triSigned a b c| := by
  rw [mesh3d_get_tri_area_cross, sqrt_normSq_cross_lift M hsqrt o x y hx hy hxy, triSigned,
    abs_div, abs_two]

/-- For EVERY quad (planar or not) the area reported by the quad kernel is the sum of the
`_get_tri_area` values of the triangles `(p0,p1,p2)` and `(p2,p3,p0)` — what `Mesh3D.triangulated`
would report for the same face when it splits along `p0 — p2`. -/
theorem mesh3d_quad_area_eq_two_tris (M : MathOps α) (p0 p1 p2 p3 : V3 α) :
    (mesh3d_normal_area_quad M (p0, p1, p2, p3)).2 =
      mesh3d_get_tri_area M (p0, p1, p2) + mesh3d_get_tri_area M (p2, p3, p0) := by
  rw [mesh3d_normal_area_quad_cross, mesh3d_get_tri_area_cross, mesh3d_get_tri_area_cross]
  simp only []
  ring

/-- 2D counterpart: a quad with interior diagonal `c0 — c2` has the area of its two triangles
(so triangulating a quad mesh face along that diagonal preserves the reported area). -/
theorem mesh2d_quad_area_eq_two_tris (c0 c1 c2 c3 : V2 α)
    (hdiag : (0 ≤ triSigned c0 c1 c2 ∧ 0 ≤ triSigned c2 c3 c0) ∨
      (triSigned c0 c1 c2 ≤ 0 ∧ triSigned c2 c3 c0 ≤ 0)) :
    mesh2d_get_area_quad (c0, c1, c2, c3) =
      mesh2d_get_area_tri (c0, c1, c2) + mesh2d_get_area_tri (c2, c3, c0) := by
  rw [(mesh2d_get_area_tri_eq c0 c1 c2).2.1, (mesh2d_get_area_tri_eq c2 c3 c0).2.1,
    abs_add_abs_of_same_sign _ _ hdiag, mesh2d_get_area_quad_shoelace, shoelace_quad_split,
    triSigned, triSigned, add_div]

/-- **Planar face in 3D (Newell) = polygon in 2D (shoelace).**  For a vertex loop that is the
plane image (orthonormal axes) of the 2D loop `coords` — any number of vertices — the Newell
vector `Σ v_{i-1} × v_i` (hand-defined functional `newell`, the 3D analogue of the shoelace
sum used for face normals) is `shoelace coords • (x × y)`; hence half its length is exactly the
`Polygon2D.area` of the plane coordinates, and its direction is `±(x × y)` according to the
2D orientation. -/
theorem face3d_newell_area_planar (M : MathOps α)
    (hsqrt : ∀ x, 0 ≤ x → M.sqrt x * M.sqrt x = x ∧ 0 ≤ M.sqrt x) (pl : PlaneS α)
    (hx : V3.normSq pl.x = 1) (hy : V3.normSq pl.y = 1) (hxy : V3.dot pl.x pl.y = 0)
    (coords : List (V2 α)) :
    newell (coords.map (plane_xy_to_xyz pl)) = V3.smul (shoelace coords) (V3.cross pl.x pl.y) ∧
    M.sqrt (V3.normSq (newell (coords.map (plane_xy_to_xyz pl)))) / 2 = polygon2d_area coords ∧
    V3.dot (newell (coords.map (plane_xy_to_xyz pl))) (V3.cross pl.x pl.y) = shoelace coords := by
  have hN : newell (coords.map (plane_xy_to_xyz pl)) =
      V3.smul (shoelace coords) (V3.cross pl.x pl.y) :=
    newell_planar_of (plane_xy_to_xyz pl) pl.o pl.x pl.y (fun c => rfl) (fun c => rfl)
      (fun c => rfl) coords
  have hw := normSq_cross_orthonormal pl.x pl.y hx hy hxy
  refine ⟨hN, ?_, ?_⟩
  · rw [hN, sqrt_normSq_smul_unit M hsqrt _ _ hw, polygon2d_area_eq']
  · rw [hN]
    simp only [V3.normSq, V3.dot, V3.smul] at hw ⊢
    linear_combination (shoelace coords) * hw

/-- Non-vacuity of the diagonal hypothesis: the witness quad of the historical defect,
`(0,0),(4,0),(3,2),(0,1)` (convex, not a parallelogram): both triangles counter-clockwise,
exact area `11/2` (the defective code reported `15/2`). -/
example :
    (0 ≤ triSigned (⟨0, 0⟩ : V2 ℚ) ⟨4, 0⟩ ⟨3, 2⟩ ∧ 0 ≤ triSigned (⟨3, 2⟩ : V2 ℚ) ⟨0, 1⟩ ⟨0, 0⟩) ∧
    |shoelace ([⟨0, 0⟩, ⟨4, 0⟩, ⟨3, 2⟩, ⟨0, 1⟩] : List (V2 ℚ))| / 2 = 11 / 2 ∧
    mesh2d_get_area_quad ((⟨0, 0⟩, ⟨4, 0⟩, ⟨3, 2⟩, ⟨0, 1⟩) : V2 ℚ × V2 ℚ × V2 ℚ × V2 ℚ) = 11 / 2 := by
  decide +kernel

/-- Non-vacuity of the frame hypothesis: a tilted orthonormal pair over ℚ. -/
example : V3.normSq (⟨3 / 5, 4 / 5, 0⟩ : V3 ℚ) = 1 ∧ V3.normSq (⟨0, 0, 1⟩ : V3 ℚ) = 1 ∧
    V3.dot (⟨3 / 5, 4 / 5, 0⟩ : V3 ℚ) ⟨0, 0, 1⟩ = 0 := by decide +kernel

/-! ## 4. Centroids -/

/-- `Mesh2D._tri_centroid` is the vertex mean `(a + b + c) / 3`. -/
theorem mesh2d_tri_centroid_eq (a b c : V2 α) :
    mesh2d_tri_centroid (a, b, c) = ⟨(a.x + b.x + c.x) / 3, (a.y + b.y + c.y) / 3⟩ :=
  mesh2d_tri_centroid_mean a b c

/-- For a non-degenerate triangle the vertex mean IS the exact area centroid
`(cx, cy) / (3 · shoelace)`. -/
theorem mesh2d_tri_centroid_exact (a b c : V2 α) (h : triSigned a b c ≠ 0) :
    mesh2d_tri_centroid (a, b, c) = centroid [a, b, c] := by
  have hd : V2.det (V2.sub b a) (V2.sub c a) ≠ 0 := by
    intro h0; apply h; rw [triSigned, h0, zero_div]
  have h3 : (3 : α) ≠ 0 := by norm_num
  rw [mesh2d_tri_centroid_mean]
  simp only [centroid, cx_triangle, cy_triangle, shoelace_triangle]
  apply V2.ext' <;> simp only [] <;> field_simp

/-- `Mesh2D._face_center` of a triangle is its centroid kernel. -/
theorem mesh2d_face_center_tri_eq (v : V2 α × V2 α × V2 α) :
    mesh2d_face_center_tri v = mesh2d_tri_centroid v := rfl

/-- `Mesh2D._face_center` of a quad is the vertex mean (a face *centre*, not the centroid). -/
theorem mesh2d_face_center_quad_eq (a b c d : V2 α) :
    mesh2d_face_center_quad (a, b, c, d) =
      ⟨(a.x + b.x + c.x + d.x) / 4, (a.y + b.y + c.y + d.y) / 4⟩ := by
  unfold mesh2d_face_center_quad
  apply V2.ext' <;> simp only [] <;> ring

/-- `Mesh3D._tri_centroid` is the vertex mean. -/
theorem mesh3d_tri_centroid_eq (a b c : V3 α) :
    mesh3d_tri_centroid (a, b, c) =
      ⟨(a.x + b.x + c.x) / 3, (a.y + b.y + c.y) / 3, (a.z + b.z + c.z) / 3⟩ :=
  mesh3d_tri_centroid_mean a b c

/-- `Mesh3D._face_center` of a quad is the vertex mean. -/
theorem mesh3d_face_center_quad_eq (a b c d : V3 α) :
    mesh3d_face_center_quad (a, b, c, d) =
      ⟨(a.x + b.x + c.x + d.x) / 4, (a.y + b.y + c.y + d.y) / 4, (a.z + b.z + c.z + d.z) / 4⟩ := by
  unfold mesh3d_face_center_quad
  apply V3.ext' <;> simp only [] <;> ring

/-- `Mesh3D._quad_centroid` is the area-weighted mean of the centroids of the two triangles
`(p0,p1,p2)`, `(p2,p3,p0)` — the same diagonal as the area kernel — when the total area is
non-zero (the guard the code checks), and the vertex mean otherwise. -/
theorem mesh3d_quad_centroid_eq (M : MathOps α) (p0 p1 p2 p3 : V3 α) :
    mesh3d_quad_centroid M (p0, p1, p2, p3) =
      if mesh3d_get_tri_area M (p0, p1, p2) + mesh3d_get_tri_area M (p2, p3, p0) = 0 then
        mesh3d_face_center_quad (p0, p1, p2, p3)
      else
        V3.smul (1 / (mesh3d_get_tri_area M (p0, p1, p2) + mesh3d_get_tri_area M (p2, p3, p0)))
          (V3.add (V3.smul (mesh3d_get_tri_area M (p0, p1, p2)) (mesh3d_tri_centroid (p0, p1, p2)))
            (V3.smul (mesh3d_get_tri_area M (p2, p3, p0)) (mesh3d_tri_centroid (p2, p3, p0)))) :=
  mesh3d_quad_centroid_weighted M p0 p1 p2 p3

/-- **Exact centroid of a planar quad.**  For a planar quad given through an orthonormal frame
with interior diagonal `p0 — p2` (every convex quad) and non-zero area, `Mesh3D._quad_centroid`
is the plane image of the exact area centroid `(cx, cy) / (3 · shoelace)` of the plane
coordinates; in particular it lies in the plane of the quad. -/
theorem mesh3d_quad_centroid_planar (M : MathOps α)
    (hsqrt : ∀ x, 0 ≤ x → M.sqrt x * M.sqrt x = x ∧ 0 ≤ M.sqrt x) (o x y : V3 α)
    (hx : V3.normSq x = 1) (hy : V3.normSq y = 1) (hxy : V3.dot x y = 0)
    (c0 c1 c2 c3 : V2 α)
    (hdiag : (0 ≤ triSigned c0 c1 c2 ∧ 0 ≤ triSigned c2 c3 c0) ∨
      (triSigned c0 c1 c2 ≤ 0 ∧ triSigned c2 c3 c0 ≤ 0))
    (hS : shoelace [c0, c1, c2, c3] ≠ 0) :
    mesh3d_quad_centroid M (lift o x y c0, lift o x y c1, lift o x y c2, lift o x y c3) =
      lift o x y (centroid [c0, c1, c2, c3]) := by
  rw [mesh3d_quad_centroid_weighted, mesh3d_get_tri_area_planar M hsqrt o x y hx hy hxy,
    mesh3d_get_tri_area_planar M hsqrt o x y hx hy hxy]
  have hS' := hS
  rw [shoelace_quad_split] at hS'
  rcases hdiag with ⟨h1, h2⟩ | ⟨h1, h2⟩
  · have e1 : triSigned c0 c1 c2 = (1 / 2) * V2.det (V2.sub c1 c0) (V2.sub c2 c0) := by
      unfold triSigned; ring
    have e2 : triSigned c2 c3 c0 = (1 / 2) * V2.det (V2.sub c3 c2) (V2.sub c0 c2) := by
      unfold triSigned; ring
    rw [abs_of_nonneg h1, abs_of_nonneg h2, e1, e2]
    have hne : (1 / 2 : α) * V2.det (V2.sub c1 c0) (V2.sub c2 c0) +
        (1 / 2) * V2.det (V2.sub c3 c2) (V2.sub c0 c2) ≠ 0 := by
      rw [← mul_add]; exact mul_ne_zero (by norm_num) hS'
    rw [if_neg hne]
    exact weighted_centroid_lift o x y c0 c1 c2 c3 (1 / 2) (by norm_num) hS
  · have e1 : -triSigned c0 c1 c2 = (-1 / 2) * V2.det (V2.sub c1 c0) (V2.sub c2 c0) := by
      unfold triSigned; ring
    have e2 : -triSigned c2 c3 c0 = (-1 / 2) * V2.det (V2.sub c3 c2) (V2.sub c0 c2) := by
      unfold triSigned; ring
    rw [abs_of_nonpos h1, abs_of_nonpos h2, e1, e2]
    have hne : (-1 / 2 : α) * V2.det (V2.sub c1 c0) (V2.sub c2 c0) +
        (-1 / 2) * V2.det (V2.sub c3 c2) (V2.sub c0 c2) ≠ 0 := by
      rw [← mul_add]; exact mul_ne_zero (by norm_num) hS'
    rw [if_neg hne]
    exact weighted_centroid_lift o x y c0 c1 c2 c3 (-1 / 2) (by norm_num) hS

/-- Triangle centroids move with a translation (generated `move`), 2D and 3D. -/
theorem tri_centroid_translate (a b c t : V2 α) (a' b' c' t' : V3 α) :
    mesh2d_tri_centroid (p2_move a t, p2_move b t, p2_move c t) =
      p2_move (mesh2d_tri_centroid (a, b, c)) t ∧
    mesh3d_tri_centroid (p3_move a' t', p3_move b' t', p3_move c' t') =
      p3_move (mesh3d_tri_centroid (a', b', c')) t' := by
  rw [mesh2d_tri_centroid_mean, mesh2d_tri_centroid_mean, mesh3d_tri_centroid_mean,
    mesh3d_tri_centroid_mean]
  constructor
  · apply V2.ext' <;> simp only [p2_move] <;> ring
  · apply V3.ext' <;> simp only [p3_move] <;> ring

/-- Triangle centroids scale with a scaling about any origin (generated `scale`), 2D and 3D. -/
theorem tri_centroid_scale (a b c o : V2 α) (a' b' c' o' : V3 α) (k : α) :
    mesh2d_tri_centroid (p2_scale a k o, p2_scale b k o, p2_scale c k o) =
      p2_scale (mesh2d_tri_centroid (a, b, c)) k o ∧
    mesh3d_tri_centroid (p3_scale a' k o', p3_scale b' k o', p3_scale c' k o') =
      p3_scale (mesh3d_tri_centroid (a', b', c')) k o' := by
  rw [mesh2d_tri_centroid_mean, mesh2d_tri_centroid_mean, mesh3d_tri_centroid_mean,
    mesh3d_tri_centroid_mean]
  constructor
  · apply V2.ext' <;> simp only [p2_scale] <;> ring
  · apply V3.ext' <;> simp only [p3_scale] <;> ring

/-- The 3D triangle area does not change under a translation. -/
theorem mesh3d_get_tri_area_translate (M : MathOps α) (a b c t : V3 α) :
    mesh3d_get_tri_area M (p3_move a t, p3_move b t, p3_move c t) =
      mesh3d_get_tri_area M (a, b, c) := by
  have e : ∀ u v : V3 α, V3.sub (p3_move u t) (p3_move v t) = V3.sub u v := by
    intro u v; apply V3.ext' <;> simp only [V3.sub, p3_move] <;> ring
  rw [mesh3d_get_tri_area_cross, mesh3d_get_tri_area_cross, e, e]

/-- The 3D triangle area is multiplied by `k²` under a scaling by `k` about any origin
(under the `sqrt` law). -/
theorem mesh3d_get_tri_area_scale (M : MathOps α)
    (hsqrt : ∀ x, 0 ≤ x → M.sqrt x * M.sqrt x = x ∧ 0 ≤ M.sqrt x) (a b c o : V3 α) (k : α) :
    mesh3d_get_tri_area M (p3_scale a k o, p3_scale b k o, p3_scale c k o) =
      k * k * mesh3d_get_tri_area M (a, b, c) := by
  have e : ∀ u v : V3 α, V3.sub (p3_scale u k o) (p3_scale v k o) = V3.smul k (V3.sub u v) := by
    intro u v; apply V3.ext' <;> simp only [V3.sub, p3_scale, V3.smul] <;> ring
  have ec : ∀ u v : V3 α, V3.cross (V3.smul k u) (V3.smul k v) = V3.smul (k * k) (V3.cross u v) := by
    intro u v; apply V3.ext' <;> simp only [V3.cross, V3.smul] <;> ring
  have hs : M.sqrt (V3.normSq (V3.smul (k * k) (V3.cross (V3.sub b a) (V3.sub c a)))) =
      k * k * M.sqrt (V3.normSq (V3.cross (V3.sub b a) (V3.sub c a))) :=
    sqrt_scale M hsqrt (mul_self_nonneg k) (v3_normSq_nonneg _) (v3_smul_normSq _ _)
  rw [mesh3d_get_tri_area_cross, mesh3d_get_tri_area_cross, e, e, ec, hs]
  ring

/-- `Mesh3D._quad_centroid` moves with a translation, for EVERY quad (planar or not). -/
theorem mesh3d_quad_centroid_translate (M : MathOps α) (p0 p1 p2 p3 t : V3 α) :
    mesh3d_quad_centroid M (p3_move p0 t, p3_move p1 t, p3_move p2 t, p3_move p3 t) =
      p3_move (mesh3d_quad_centroid M (p0, p1, p2, p3)) t := by
  rw [mesh3d_quad_centroid_weighted, mesh3d_quad_centroid_weighted,
    mesh3d_get_tri_area_translate, mesh3d_get_tri_area_translate]
  generalize mesh3d_get_tri_area M (p0, p1, p2) = A1
  generalize mesh3d_get_tri_area M (p2, p3, p0) = A2
  split_ifs with h
  · rw [mesh3d_face_center_quad_eq, mesh3d_face_center_quad_eq]
    apply V3.ext' <;> simp only [p3_move] <;> ring
  · simp only [mesh3d_tri_centroid_mean]
    apply V3.ext' <;> simp only [p3_move, V3.smul, V3.add] <;> field_simp <;> ring

/-- `Mesh3D._quad_centroid` scales with a scaling by `k ≠ 0` about any origin, for EVERY quad
(under the `sqrt` law: both triangle weights are multiplied by `k²`). -/
theorem mesh3d_quad_centroid_scale (M : MathOps α)
    (hsqrt : ∀ x, 0 ≤ x → M.sqrt x * M.sqrt x = x ∧ 0 ≤ M.sqrt x)
    (p0 p1 p2 p3 o : V3 α) (k : α) (hk : k ≠ 0) :
    mesh3d_quad_centroid M (p3_scale p0 k o, p3_scale p1 k o, p3_scale p2 k o, p3_scale p3 k o) =
      p3_scale (mesh3d_quad_centroid M (p0, p1, p2, p3)) k o := by
  rw [mesh3d_quad_centroid_weighted, mesh3d_quad_centroid_weighted,
    mesh3d_get_tri_area_scale M hsqrt, mesh3d_get_tri_area_scale M hsqrt]
  generalize mesh3d_get_tri_area M (p0, p1, p2) = A1
  generalize mesh3d_get_tri_area M (p2, p3, p0) = A2
  have hkk : k * k ≠ 0 := mul_ne_zero hk hk
  have hiff : k * k * A1 + k * k * A2 = 0 ↔ A1 + A2 = 0 := by
    rw [← mul_add]; exact ⟨fun h => (mul_eq_zero.mp h).resolve_left hkk, fun h => by rw [h, mul_zero]⟩
  by_cases h : A1 + A2 = 0
  · rw [if_pos h, if_pos (hiff.mpr h), mesh3d_face_center_quad_eq, mesh3d_face_center_quad_eq]
    apply V3.ext' <;> simp only [p3_scale] <;> ring
  · rw [if_neg h, if_neg (fun h' => h (hiff.mp h'))]
    have h' : k * k * A1 + k * k * A2 ≠ 0 := fun h' => h (hiff.mp h')
    simp only [mesh3d_tri_centroid_mean]
    apply V3.ext' <;> simp only [p3_scale, V3.smul, V3.add] <;> field_simp <;> ring

/-- The interior-diagonal hypothesis of the quad theorems is a statement about the corner
turns at `c1` and `c3`: `triSigned c0 c1 c2` is half the turn `det (c1 - c0) (c2 - c1)` at `c1`
and `triSigned c2 c3 c0` half the turn at `c3`.  Hence it holds for EVERY convex quad (all four
turns of one sign), in either orientation. -/
theorem interior_diagonal_of_convex (c0 c1 c2 c3 : V2 α)
    (hconv : (0 ≤ V2.det (V2.sub c1 c0) (V2.sub c2 c1) ∧ 0 ≤ V2.det (V2.sub c3 c2) (V2.sub c0 c3)) ∨
      (V2.det (V2.sub c1 c0) (V2.sub c2 c1) ≤ 0 ∧ V2.det (V2.sub c3 c2) (V2.sub c0 c3) ≤ 0)) :
    (0 ≤ triSigned c0 c1 c2 ∧ 0 ≤ triSigned c2 c3 c0) ∨
      (triSigned c0 c1 c2 ≤ 0 ∧ triSigned c2 c3 c0 ≤ 0) := by
  have e1 : triSigned c0 c1 c2 = V2.det (V2.sub c1 c0) (V2.sub c2 c1) / 2 := by
    simp only [triSigned, V2.det, V2.sub]; ring
  have e2 : triSigned c2 c3 c0 = V2.det (V2.sub c3 c2) (V2.sub c0 c3) / 2 := by
    simp only [triSigned, V2.det, V2.sub]; ring
  rw [e1, e2]
  rcases hconv with ⟨h1, h2⟩ | ⟨h1, h2⟩
  · exact Or.inl ⟨div_nonneg h1 zero_le_two, div_nonneg h2 zero_le_two⟩
  · exact Or.inr ⟨div_nonpos_of_nonpos_of_nonneg h1 zero_le_two,
      div_nonpos_of_nonpos_of_nonneg h2 zero_le_two⟩

/-- **Centroid = area-weighted mean of triangle centroids** (`Mesh2D.centroid` weighting,
`Face3D.centroid`): for ANY base point `o`, the centroid numerators `cx / 6`, `cy / 6` are the
sums over the fan triangles `(o, a, b)` of (generated triangle centroid) × (signed triangle
area).  Dividing by the signed area `shoelace / 2` gives `centroid = Σ Gᵢ·Aᵢ / Σ Aᵢ`. -/
theorem centroid_fan (o : V2 α) (vs : List (V2 α)) :
    cx vs / 6 = ((cyclicPairs vs).map
      (fun p => (mesh2d_tri_centroid (o, p.1, p.2)).x * triSigned o p.1 p.2)).sum ∧
    cy vs / 6 = ((cyclicPairs vs).map
      (fun p => (mesh2d_tri_centroid (o, p.1, p.2)).y * triSigned o p.1 p.2)).sum := by
  constructor
  · rw [cx_eq_fan o, ← sum_map_div]
    congr 1
    apply List.map_congr_left
    intro p _
    rw [mesh2d_tri_centroid_mean, triSigned]
    ring
  · rw [cy_eq_fan o, ← sum_map_div]
    congr 1
    apply List.map_congr_left
    intro p _
    rw [mesh2d_tri_centroid_mean, triSigned]
    ring

/-- The exact centroid is independent of the start vertex and of the vertex order. -/
theorem centroid_start_and_order (vs : List (V2 α)) (n : ℕ) :
    centroid (vs.rotate n) = centroid vs ∧ centroid vs.reverse = centroid vs :=
  ⟨centroid_rotate vs n, centroid_reverse vs⟩

/-- The exact centroid moves with the generated `move`, `rotate` (any `(cos, sin)` on the unit
circle), and `scale` (`k ≠ 0`) maps, for every polygon of non-zero area. -/
theorem centroid_equivariant (M : MathOps α) (vs : List (V2 α)) (hA : shoelace vs ≠ 0)
    (t o : V2 α) (θ k : α) (hcs : M.cos θ * M.cos θ + M.sin θ * M.sin θ = 1) (hk : k ≠ 0) :
    centroid (vs.map (fun p => p2_move p t)) = p2_move (centroid vs) t ∧
    centroid (vs.map (fun p => p2_rotate M p θ o)) = p2_rotate M (centroid vs) θ o ∧
    centroid (vs.map (fun p => p2_scale p k o)) = p2_scale (centroid vs) k o := by
  have h3 : (3 : α) ≠ 0 := by norm_num
  refine ⟨?_, ?_, ?_⟩
  · rw [centroid_affine_of _ 1 0 0 1 t.x t.y (fun p => by simp only [p2_move]; ring)
      (fun p => by simp only [p2_move]; ring) vs h3 hA (by norm_num)]
    apply V2.ext' <;> simp only [p2_move] <;> ring
  · rw [centroid_affine_of _ (M.cos θ) (-(M.sin θ)) (M.sin θ) (M.cos θ)
      (-(M.cos θ) * o.x + M.sin θ * o.y + o.x) (-(M.sin θ) * o.x - M.cos θ * o.y + o.y)
      (fun p => by simp only [p2_rotate]; ring) (fun p => by simp only [p2_rotate]; ring) vs h3 hA
      (by rw [show M.cos θ * M.cos θ - -(M.sin θ) * M.sin θ = 1 by linear_combination hcs]
          exact one_ne_zero)]
    apply V2.ext' <;> simp only [p2_rotate] <;> ring
  · rw [centroid_affine_of _ k 0 0 k (-o.x * k + o.x) (-o.y * k + o.y)
      (fun p => by simp only [p2_scale]; ring) (fun p => by simp only [p2_scale]; ring) vs h3 hA
      (by simpa using hk)]
    apply V2.ext' <;> simp only [p2_scale] <;> ring

/-! ## 5. Closed forms (abstract `π`, `tan`, `sqrt`): the constants are pinned -/

/-- The double nearest to `4/3` that Python's `4 / 3` evaluates to, as an exact rational. -/
def fourThirdsDouble : α := (6004799503160661 : α) / 4503599627370496

/-- The double nearest to `1/3` that Python's `1 / 3` evaluates to, as an exact rational. -/
def oneThirdDouble : α := (6004799503160661 : α) / 18014398509481984

/-- The two float constants deviate from `4/3` and `1/3` by the relative amount `2⁻⁵⁴`
(≈ 5.6e-17, far inside the property's 1e-9). -/
theorem double_constants :
    (fourThirdsDouble : α) = (4 / 3) * (1 - 1 / 2 ^ 54) ∧
    (oneThirdDouble : α) = (1 / 3) * (1 - 1 / 2 ^ 54) := by
  unfold fourThirdsDouble oneThirdDouble
  constructor <;> norm_num

/-- `Sphere.area = 4·π·r²`. -/
theorem sphere_area_eq (M : MathOps α) (s : SphereS α) :
    sphere_area M s = 4 * M.pi * (s.radius * s.radius) := by
  unfold sphere_area; ring

/-- `Sphere.volume = (4/3)·π·r³`, where `4/3` is the double constant Python computes
(`4 / 3` is evaluated in floating point before the exact multiplications). -/
theorem sphere_volume_eq (M : MathOps α) (s : SphereS α) :
    sphere_volume M s = fourThirdsDouble * M.pi * (s.radius * s.radius * s.radius) ∧
    sphere_volume M s =
      (1 - 1 / 2 ^ 54) * (4 / 3 * M.pi * (s.radius * s.radius * s.radius)) := by
  have h : sphere_volume M s = fourThirdsDouble * M.pi * (s.radius * s.radius * s.radius) := by
    unfold sphere_volume fourThirdsDouble; ring
  refine ⟨h, ?_⟩
  rw [h, (double_constants (α := α)).1]; ring

/-- `Sphere.diameter = 2r`, `Sphere.circumference = 2πr`. -/
theorem sphere_diameter_circumference_eq (M : MathOps α) (s : SphereS α) :
    sphere_diameter s = 2 * s.radius ∧ sphere_circumference M s = 2 * M.pi * s.radius := by
  unfold sphere_diameter sphere_circumference
  constructor <;> ring

/-- `Cylinder.height = |axis| = sqrt (axis · axis)`. -/
theorem cyl_height_eq (M : MathOps α) (s : CylS α) :
    cyl_height M s = M.sqrt (V3.dot s.axis s.axis) := by
  unfold cyl_height V3.dot
  first | rfl | ring_nf

/-- `Cylinder.volume = π r² h`, `Cylinder.area = 2πr² + 2πr h`, `Cylinder.diameter = 2r`
(`h = |axis|`). -/
theorem cyl_measures_eq (M : MathOps α) (s : CylS α) :
    cyl_volume M s = M.pi * (s.radius * s.radius) * cyl_height M s ∧
    cyl_area M s = 2 * M.pi * (s.radius * s.radius) + 2 * M.pi * s.radius * cyl_height M s ∧
    cyl_diameter s = 2 * s.radius := by
  unfold cyl_volume cyl_area cyl_diameter cyl_height
  refine ⟨by ring, by ring, by ring⟩

/-- `Cone.height = |axis|`, `Cone.radius = h · tan(angle)`,
`Cone.slant_height = sqrt (R² + h²)`. -/
theorem cone_dims_eq (M : MathOps α) (s : ConeS α) :
    cone_height M s = M.sqrt (V3.dot s.axis s.axis) ∧
    cone_radius M s = cone_height M s * M.tan s.angle ∧
    cone_slant_height M s =
      M.sqrt (cone_radius M s * cone_radius M s + cone_height M s * cone_height M s) := by
  refine ⟨?_, ?_, ?_⟩
  · unfold cone_height V3.dot
    first | rfl | ring_nf
  · unfold cone_radius cone_height
    first | rfl | ring
  · unfold cone_slant_height cone_radius cone_height
    first | rfl | ring_nf

/-- `Cone.volume = (1/3)·π·R²·h` (with the double constant for `1/3`) and
`Cone.area = π R² + π R L` (`R = h·tan(angle)`, `L` the slant height). -/
theorem cone_measures_eq (M : MathOps α) (s : ConeS α) :
    cone_volume M s =
      oneThirdDouble * M.pi * (cone_radius M s * cone_radius M s) * cone_height M s ∧
    cone_volume M s = (1 - 1 / 2 ^ 54) *
      (1 / 3 * M.pi * (cone_radius M s * cone_radius M s) * cone_height M s) ∧
    cone_area M s = M.pi * (cone_radius M s * cone_radius M s) +
      M.pi * cone_radius M s * cone_slant_height M s := by
  have h : cone_volume M s =
      oneThirdDouble * M.pi * (cone_radius M s * cone_radius M s) * cone_height M s := by
    unfold cone_volume cone_radius cone_height oneThirdDouble
    first | rfl | ring
  refine ⟨h, ?_, ?_⟩
  · rw [h, (double_constants (α := α)).2]; ring
  · unfold cone_area cone_slant_height cone_radius
    first | rfl | ring_nf

/-- `Arc2D.angle`: `a2 - a1` for a non-inverted arc, `2π + a2 - a1` for an inverted one. -/
theorem arc2_angle_eq (M : MathOps α) (a : Arc2S α) :
    (a.a1 ≤ a.a2 → arc2_angle M a = a.a2 - a.a1) ∧
    (a.a2 < a.a1 → arc2_angle M a = 2 * M.pi + (a.a2 - a.a1)) := by
  unfold arc2_angle
  constructor
  · intro h; simp only [not_lt.mpr h, not_false_eq_true, if_true]
  · intro h; simp only [h, not_true_eq_false, if_false]

/-- `Arc2D.length = angle · r`; `Arc3D.length` is the length of its `arc2d`. -/
theorem arc_length_eq (M : MathOps α) (a : Arc2S α) (a3 : Arc3S α) :
    arc2_length M a = arc2_angle M a * a.r ∧ arc3_length M a3 = arc2_length M a3.arc2d := by
  exact ⟨rfl, rfl⟩

/-- A circle (`a1 = 0`, `a2 = 2π`, with `0 ≤ π`) has length `2πr`. -/
theorem arc2_length_circle (M : MathOps α) (a : Arc2S α) (h1 : a.a1 = 0)
    (h2 : a.a2 = 2 * M.pi) (hpi : 0 ≤ M.pi) : arc2_length M a = 2 * M.pi * a.r := by
  have hle : a.a1 ≤ a.a2 := by rw [h1, h2]; linarith
  rw [(arc_length_eq M a ⟨⟨⟨0,0,0⟩,⟨0,0,0⟩,0,⟨0,0,0⟩,⟨0,0,0⟩⟩, a⟩).1, (arc2_angle_eq M a).1 hle, h1, h2]
  ring

/-- `Arc2D.area` is defined exactly for circles (the guard `is_circle` the code asserts) and
then equals `π r²`. -/
theorem arc2_area_eq (M : MathOps α) (a : Arc2S α) :
    (a.a1 = 0 ∧ a.a2 = 2 * M.pi → arc2_area M a = some (M.pi * (a.r * a.r))) ∧
    (¬ (a.a1 = 0 ∧ a.a2 = 2 * M.pi) → arc2_area M a = none) ∧
    ((arc2_area M a).isSome = arc2_is_circle M a) := by
  unfold arc2_area arc2_is_circle
  refine ⟨?_, ?_, ?_⟩
  · rintro ⟨h1, h2⟩; rw [if_pos h1, if_pos h2]
  · intro h
    by_cases h1 : a.a1 = 0
    · by_cases h2 : a.a2 = 2 * M.pi
      · exact absurd ⟨h1, h2⟩ h
      · rw [if_pos h1, if_neg h2]
    · rw [if_neg h1]
  · by_cases h1 : a.a1 = 0
    · by_cases h2 : a.a2 = 2 * M.pi
      · rw [if_pos h1, if_pos h2]; simp [h1, h2]
      · rw [if_pos h1, if_neg h2]; simp [h2]
    · rw [if_neg h1]; simp [h1]

/-! ## 6. Segment lengths -/

/-- `LineSegment2D.length` and `LineSegment3D.length` are the Euclidean norms of the direction
vector: under the `sqrt` law `length² = v·v` and `length ≥ 0`. -/
theorem seg_length_sq (M : MathOps α)
    (hsqrt : ∀ x, 0 ≤ x → M.sqrt x * M.sqrt x = x ∧ 0 ≤ M.sqrt x) (l : LR2 α) (l3 : LR3 α) :
    (seg2_length M l * seg2_length M l = V2.dot l.v l.v ∧ 0 ≤ seg2_length M l) ∧
    (seg3_length M l3 * seg3_length M l3 = V3.dot l3.v l3.v ∧ 0 ≤ seg3_length M l3) := by
  unfold seg2_length seg3_length V2.dot V3.dot
  constructor
  · have h0 : 0 ≤ l.v.x * l.v.x + l.v.y * l.v.y := by
      linarith [mul_self_nonneg l.v.x, mul_self_nonneg l.v.y]
    exact hsqrt _ h0
  · have h0 : 0 ≤ l3.v.x * l3.v.x + l3.v.y * l3.v.y + l3.v.z * l3.v.z := by
      linarith [mul_self_nonneg l3.v.x, mul_self_nonneg l3.v.y, mul_self_nonneg l3.v.z]
    exact hsqrt _ h0

/-- The length of the segment built by `from_end_points a b` is the distance `|b - a|`. -/
theorem seg_length_from_end_points (M : MathOps α)
    (hsqrt : ∀ x, 0 ≤ x → M.sqrt x * M.sqrt x = x ∧ 0 ≤ M.sqrt x) (a b : V2 α) (a3 b3 : V3 α) :
    seg2_length M (seg2_from_end_points a b) * seg2_length M (seg2_from_end_points a b) =
      V2.normSq (V2.sub b a) ∧
    seg3_length M (seg3_from_end_points a3 b3) * seg3_length M (seg3_from_end_points a3 b3) =
      V3.normSq (V3.sub b3 a3) := by
  obtain ⟨⟨h2, _⟩, ⟨h3, _⟩⟩ := seg_length_sq M hsqrt (seg2_from_end_points a b)
    (seg3_from_end_points a3 b3)
  rw [h2, h3]
  constructor
  · simp only [seg2_from_end_points, V2.dot, V2.normSq, V2.sub]
  · simp only [seg3_from_end_points, V3.dot, V3.normSq, V3.sub]

/-! ## 7. Volume: algebra of the `Polyface3D.volume` summand

`Polyface3D.volume` is `sum(face[0].dot(face.normal) * face.area for face in faces) / 3`.
The loop is not generated; `volTerm` / `vol` below are a HAND MODEL of it over the triples
`(face[0], normal, area)` (the correspondence harness ties it to the code).  Proved: the laws
the property relies on, and the closed forms for tetrahedra, boxes and right prisms. -/

/-- The summand of `Polyface3D.volume` for a face `(p0, n, A)`: `(p0 · n) * A`. -/
def volTerm (f : V3 α × V3 α × α) : α := V3.dot f.1 f.2.1 * f.2.2

/-- Hand model of `Polyface3D.volume`: `(Σ volTerm) / 3`. -/
def vol (faces : List (V3 α × V3 α × α)) : α := (faces.map volTerm).sum / 3

/-- The total area vector `Σ Aᵢ nᵢ` of a list of faces (zero for a closed surface). -/
def areaVec (faces : List (V3 α × V3 α × α)) : V3 α :=
  ⟨(faces.map (fun f => f.2.2 * f.2.1.x)).sum, (faces.map (fun f => f.2.2 * f.2.1.y)).sum,
   (faces.map (fun f => f.2.2 * f.2.1.z)).sum⟩

/-- [hand model] Flipping a face (reversing its normal) negates its volume term — so a solid
given with mixed face orientations reports a wrong volume, by exactly twice the flipped
terms. -/
theorem volTerm_flip (p n : V3 α) (A : α) : volTerm (p, V3.neg n, A) = - volTerm (p, n, A) := by
  simp only [volTerm, V3.dot, V3.neg]; ring

/-- [hand model] The term does not depend on WHICH point of the face's plane is used as
`face[0]`: any `p'` with `(p' - p) · n = 0` gives the same term (start-vertex invariance). -/
theorem volTerm_base_point (p p' n : V3 α) (A : α) (h : V3.dot (V3.sub p' p) n = 0) :
    volTerm (p', n, A) = volTerm (p, n, A) := by
  simp only [volTerm, V3.dot, V3.sub] at *
  linear_combination A * h

/-- [hand model] Effect of flipping one face somewhere in the list on the total. -/
theorem vol_flip_face (pre post : List (V3 α × V3 α × α)) (p n : V3 α) (A : α) :
    vol (pre ++ [(p, V3.neg n, A)] ++ post) =
      vol (pre ++ [(p, n, A)] ++ post) - 2 * volTerm (p, n, A) / 3 := by
  simp only [vol, List.map_append, List.sum_append, List.map_cons, List.map_nil, List.sum_cons,
    List.sum_nil, volTerm_flip]
  ring

/-- [hand model] The total does not depend on the order of the faces. -/
theorem vol_perm (f g : List (V3 α × V3 α × α)) (h : f.Perm g) : vol f = vol g := by
  unfold vol
  rw [(h.map volTerm).sum_eq]

/-- [hand model] Translating every face by `t` changes the total by `t · (Σ Aᵢ nᵢ) / 3`. -/
theorem vol_translate (faces : List (V3 α × V3 α × α)) (t : V3 α) :
    vol (faces.map (fun f => (V3.add f.1 t, f.2.1, f.2.2))) =
      vol faces + V3.dot t (areaVec faces) / 3 := by
  unfold vol areaVec
  induction faces with
  | nil => simp [V3.dot]
  | cons f fs ih =>
    simp only [List.map_cons, List.sum_cons, V3.dot] at ih ⊢
    have e : volTerm (V3.add f.1 t, f.2.1, f.2.2) =
        volTerm f + (t.x * (f.2.2 * f.2.1.x) + t.y * (f.2.2 * f.2.1.y) + t.z * (f.2.2 * f.2.1.z)) := by
      simp only [volTerm, V3.dot, V3.add]; ring
    rw [e]
    linear_combination ih

/-- [hand model] For a closed surface (`Σ Aᵢ nᵢ = 0`) the volume is translation invariant. -/
theorem vol_translate_closed (faces : List (V3 α × V3 α × α)) (t : V3 α)
    (hc : areaVec faces = ⟨0, 0, 0⟩) :
    vol (faces.map (fun f => (V3.add f.1 t, f.2.1, f.2.2))) = vol faces := by
  rw [vol_translate, hc]; simp [V3.dot]

/-- A triangular face as the triple `(a, normal, area)` with normal and area from the generated
`Mesh3D._calculate_normal_and_area_for_triangle` kernel. -/
def triFace (M : MathOps α) (a b c : V3 α) : V3 α × V3 α × α :=
  (a, (mesh3d_normal_area_tri M (a, b, c)).1, (mesh3d_normal_area_tri M (a, b, c)).2)

/-- The volume term of a triangular face with kernel-computed normal and area is
`a · ((b - a) × (c - a)) / 2` — six times the signed volume of the tetrahedron `(0, a, b, c)`
divided by 2 (under the `sqrt` law; degenerate triangles contribute 0). -/
theorem volTerm_tri (M : MathOps α)
    (hsqrt : ∀ x, 0 ≤ x → M.sqrt x * M.sqrt x = x ∧ 0 ≤ M.sqrt x) (a b c : V3 α) :
    volTerm (triFace M a b c) = V3.dot a (V3.cross (V3.sub b a) (V3.sub c a)) / 2 := by
  obtain ⟨hA, hne, hz⟩ := mesh3d_normal_area_tri_spec M hsqrt a b c
  unfold triFace volTerm
  simp only []
  rw [hA, mesh3d_get_tri_area_cross]
  by_cases h0 : V3.normSq (V3.cross (V3.sub b a) (V3.sub c a)) = 0
  · rw [hz h0, v3_eq_zero_of_normSq _ h0]
    simp [V3.dot]
  · obtain ⟨h1, _, _⟩ := hne h0
    generalize (mesh3d_normal_area_tri M (a, b, c)).1 = n at h1 ⊢
    generalize M.sqrt (V3.normSq (V3.cross (V3.sub b a) (V3.sub c a))) = d at h1 ⊢
    rw [← h1]
    simp only [V3.dot, V3.smul]; ring

/-- **Tetrahedron**: with outward-ordered triangular faces `(a,c,b), (a,b,d), (b,c,d), (c,a,d)`
(outward when `det > 0`) and kernel-computed normals/areas, the modelled volume is
`det (b - a, c - a, d - a) / 6`. -/
theorem vol_tetra (M : MathOps α)
    (hsqrt : ∀ x, 0 ≤ x → M.sqrt x * M.sqrt x = x ∧ 0 ≤ M.sqrt x) (a b c d : V3 α) :
    vol [triFace M a c b, triFace M a b d, triFace M b c d, triFace M c a d] =
      V3.dot (V3.sub b a) (V3.cross (V3.sub c a) (V3.sub d a)) / 6 := by
  simp only [vol, List.map_cons, List.map_nil, List.sum_cons, List.sum_nil, volTerm_tri M hsqrt]
  simp only [V3.dot, V3.cross, V3.sub]
  ring

/-- [hand model] **Axis-aligned box** `[x0, x0+w] × [y0, y0+d] × [z0, z0+h]` given by its six
outward faces: the modelled volume is `w · d · h`. -/
theorem vol_box (x0 y0 z0 w d h : α) :
    vol [((⟨x0, y0, z0⟩ : V3 α), ⟨0, 0, -1⟩, w * d), (⟨x0, y0, z0 + h⟩, ⟨0, 0, 1⟩, w * d),
         (⟨x0, y0, z0⟩, ⟨0, -1, 0⟩, w * h), (⟨x0, y0 + d, z0⟩, ⟨0, 1, 0⟩, w * h),
         (⟨x0, y0, z0⟩, ⟨-1, 0, 0⟩, d * h), (⟨x0 + w, y0, z0⟩, ⟨1, 0, 0⟩, d * h)] = w * d * h := by
  have h3 : (3 : α) ≠ 0 := by norm_num
  simp only [vol, volTerm, V3.dot, List.map_cons, List.map_nil, List.sum_cons, List.sum_nil]
  field_simp
  ring

/-- The faces of a right prism over the base loop `vs` (counter-clockwise, in the plane
`z = z0`, height `h`): bottom (normal `-z`), top (normal `+z`), both of area `B`, and one side
rectangle per cyclic edge `(a, b)` with outward unit normal `(b.y - a.y, -(b.x - a.x), 0)/len`
and area `len · h`, where `len a b` is the edge length.  This is what
`Polyface3D.from_offset_face` builds. -/
def prismFaces (vs : List (V2 α)) (z0 h : α) (len : V2 α → V2 α → α) (B : α) (v0 : V2 α) :
    List (V3 α × V3 α × α) :=
  ((⟨v0.x, v0.y, z0⟩ : V3 α), (⟨0, 0, -1⟩ : V3 α), B) ::
  ((⟨v0.x, v0.y, z0 + h⟩ : V3 α), (⟨0, 0, 1⟩ : V3 α), B) ::
  (cyclicPairs vs).map (fun p =>
    ((⟨p.1.x, p.1.y, z0⟩ : V3 α),
     (⟨(p.2.y - p.1.y) / len p.1 p.2, -(p.2.x - p.1.x) / len p.1 p.2, 0⟩ : V3 α),
     len p.1 p.2 * h))

/-- [hand model] **Right prism**: for EVERY base loop (any number of vertices) with non-zero
edge lengths, the modelled volume of the prism is `base area × height` (base area =
`shoelace / 2`), whatever the edge-length function is. -/
theorem vol_prism (vs : List (V2 α)) (z0 h : α) (len : V2 α → V2 α → α) (v0 : V2 α)
    (hlen : ∀ p ∈ cyclicPairs vs, len p.1 p.2 ≠ 0) :
    vol (prismFaces vs z0 h len (shoelace vs / 2) v0) = shoelace vs / 2 * h := by
  have hside : ((cyclicPairs vs).map (fun p => volTerm
      ((⟨p.1.x, p.1.y, z0⟩ : V3 α),
       (⟨(p.2.y - p.1.y) / len p.1 p.2, -(p.2.x - p.1.x) / len p.1 p.2, 0⟩ : V3 α),
       len p.1 p.2 * h))).sum = shoelace vs * h := by
    rw [shoelace_eq_cycSum, cycSum, ← sum_map_mul_const]
    congr 1
    apply List.map_congr_left
    intro p hp
    have := hlen p hp
    simp only [volTerm, V3.dot, V2.det]
    field_simp
    ring
  unfold vol prismFaces
  simp only [List.map_cons, List.sum_cons, List.map_map, Function.comp_def]
  rw [hside]
  simp only [volTerm, V3.dot]
  ring

/-- Non-vacuity of the box/tetra formulas on concrete data: the unit cube has volume 1. -/
example : vol [((⟨0, 0, 0⟩ : V3 ℚ), ⟨0, 0, -1⟩, 1 * 1), (⟨0, 0, 0 + 1⟩, ⟨0, 0, 1⟩, 1 * 1),
         (⟨0, 0, 0⟩, ⟨0, -1, 0⟩, 1 * 1), (⟨0, 0 + 1, 0⟩, ⟨0, 1, 0⟩, 1 * 1),
         (⟨0, 0, 0⟩, ⟨-1, 0, 0⟩, 1 * 1), (⟨0 + 1, 0, 0⟩, ⟨1, 0, 0⟩, 1 * 1)] = 1 := by
  decide +kernel

end Lbg.Props.C01
