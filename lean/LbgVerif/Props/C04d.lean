/-
  C04d — the sweep `_Intersecter` and the public pipeline `union / intersect / difference /
  difference_reversed / xor` (model `Model/PolyBool.lean`, tied to the code by the
  correspondence module `corr/polybool.py`, group `pipeline`).        (PARTIAL)

  Proved about the model:
  * §1  `_lines_intersect`: `None` iff the cross product of the directions is below the
        tolerance; otherwise (for `tol > 0`) the returned point lies EXACTLY on both carrier
        lines, at parameter `a` along the first segment; the `alongA / alongB` codes
        `-2 … 2` are characterised as intervals of the parameter;
  * §2  the event list: `insertBefore` (= `_LinkedList.insertBefore`) keeps the old events in
        their order and puts the new one immediately before the first event it compares
        smaller than;
  * §3  `__eventDivide`: what it does to the store and to the event list — the old segment is
        cut at `pt`, a new segment `(pt, old end)` with the same fills is appended, nothing else
        changes; the two pieces add up to the old segment; `__checkIntersection` divides only the
        two segments it is given, at most twice, and only at their end points or at the computed
        intersection point;
  * §4  fill annotation, step level: the bottom-most segment gets `below = inverted`,
        `above = ¬below` (when it toggles); a segment above another one gets `below` = the
        `above` of that one; in a combine sweep the bottom-most segment gets the other
        polygon's `inverted` flag on both sides;
  * §5  GLOBAL invariants of the whole sweep (any fuel, any input):
        – `segments_fills_complete`: every segment `_segments` returns has both `myfill` flags
          set (never `None`) and no `otherfill`;
        – `combine_fills_complete`: if the inputs have complete `myfill`, every segment
          `_combine` returns has complete `myfill` and a complete `otherfill`;
        – `segments_errors` / `combine_errors`: the only exceptions the sweeps can end in are
          the `IndexError` of an empty region, an `AttributeError` from unlinking a list node
          twice, the code's own 'Zero-length segment' exception, and running out of fuel;
        – `segments_points` / `combine_points`: every end point of a returned segment is an
          input vertex or was computed by `_lines_intersect` from such points — the sweep never
          invents coordinates;
  * §6  the pipeline: `__operate` is the composition `_segments ×2 → _combine → _select_* →
        _segmentChainer`, and `operate_boundary_partial` chains §5 with `Props/C04c` and
        `Props/C04b`.

  NOT proved (`_partial`): that the fill flags the sweep computes are geometrically correct
  (hypothesis `FillsCorrect` of C04c), termination without the fuel, and that the even-odd
  reading of the chained loops is the region bounded by the selected segments.  The known open
  finding (the code raises 'PolyBool: Zero-length segment detected') is reproduced by the model —
  last `example`.
-/
import LbgVerif.Model.PolyBool
import LbgVerif.Lemmas.PolyBoolKept
import LbgVerif.Lemmas.PolyBoolErr
import LbgVerif.Props.C04b
import LbgVerif.Props.C04c
import Mathlib.Tactic.FieldSimp
import Mathlib.Tactic.Ring
import Mathlib.Tactic.Linarith
import Mathlib.Data.List.Perm.Basic

set_option linter.unusedSectionVars false

namespace Lbg.Props.C04d
open Lbg Lbg.Gen Lbg.Model.PolyBool Lbg.Lemmas.PolyBool

/-! ## §1  `_lines_intersect` and the `along` codes -/

section Epsilon
variable {α : Type} [Field α] [LinearOrder α] [IsStrictOrderedRing α]

/-- `_lines_intersect` returns `None` exactly when the cross product of the two direction
vectors is smaller than the tolerance in absolute value. -/
theorem linesIntersect_eq_none_iff (a0 a1 b0 b1 : V2 α) (tol : α) :
    linesIntersect a0 a1 b0 b1 tol = none ↔
      |(a1.x - a0.x) * (b1.y - b0.y) - (a1.y - a0.y) * (b1.x - b0.x)| < tol := by
  unfold linesIntersect
  simp only
  split_ifs with h <;> simp [h]

/-- For `tol > 0` the point `_lines_intersect` returns lies exactly on the carrier line of the
first segment AND on the carrier line of the second one (both cross products vanish): it is the
intersection point of the two lines (the real code computes it with one rounded division). -/
theorem linesIntersect_point_on_both_lines (a0 a1 b0 b1 : V2 α) (tol : α) (htol : 0 < tol)
    (x y : Int) (p : V2 α) (h : linesIntersect a0 a1 b0 b1 tol = some (x, y, p)) :
    (a1.x - a0.x) * (p.y - a0.y) - (a1.y - a0.y) * (p.x - a0.x) = 0 ∧
      (b1.x - b0.x) * (p.y - b0.y) - (b1.y - b0.y) * (p.x - b0.x) = 0 := by
  unfold linesIntersect at h
  simp only at h
  split_ifs at h with hc
  simp only [Option.some.injEq, Prod.mk.injEq] at h
  obtain ⟨_, _, rfl⟩ := h
  have hne : (a1.x - a0.x) * (b1.y - b0.y) - (a1.y - a0.y) * (b1.x - b0.x) ≠ 0 := by
    intro e; rw [e] at hc; simp at hc; exact absurd htol (not_lt.mpr hc)
  have he := mul_inv_cancel₀ hne
  constructor
  · simp only; ring
  · simp only [div_eq_mul_inv]
    linear_combination
      (-((b1.x - b0.x) * (a0.y - b0.y) - (b1.y - b0.y) * (a0.x - b0.x))) * he

/-- Code `0` ("strictly inside the segment, by more than the tolerance"): `tol ≤ v ≤ 1 - tol`. -/
theorem calcAlong_eq_zero_iff (v tol : α) (htol : 0 < tol) :
    calcAlong v tol = 0 ↔ tol ≤ v ∧ v ≤ 1 - tol := by
  unfold calcAlong
  split_ifs with h1 h2 h3 h4 <;> constructor <;> intro h <;>
    first
    | rfl
    | (exfalso; omega)
    | (exfalso; obtain ⟨ha, hb⟩ := h; linarith)
    | (constructor <;> linarith)

/-- Code `-1` ("at the start point, within the tolerance"): `-tol < v < tol`. -/
theorem calcAlong_eq_neg_one_iff (v tol : α) :
    calcAlong v tol = -1 ↔ -tol < v ∧ v < tol := by
  unfold calcAlong
  split_ifs with h1 h2 h3 h4 <;> constructor <;> intro h <;>
    first
    | rfl
    | (exfalso; omega)
    | (exfalso; obtain ⟨ha, hb⟩ := h; linarith)
    | (constructor <;> linarith)

/-- Code `1` ("at the end point, within the tolerance"): `1 - tol < v < 1 + tol` — provided the
tolerance is at most `1/2` (otherwise the start-point band, which is tested first, overlaps). -/
theorem calcAlong_eq_one_iff (v tol : α) (htol : 0 < tol) (hsmall : 2 * tol ≤ 1) :
    calcAlong v tol = 1 ↔ 1 - tol < v ∧ v < 1 + tol := by
  unfold calcAlong
  split_ifs with h1 h2 h3 h4 <;> constructor <;> intro h <;>
    first
    | rfl
    | (exfalso; omega)
    | (exfalso; obtain ⟨ha, hb⟩ := h; linarith)
    | (constructor <;> linarith)

omit [IsStrictOrderedRing α] in
/-- The codes are `-2, -1, 0, 1, 2`. -/
theorem calcAlong_range (v tol : α) :
    calcAlong v tol = -2 ∨ calcAlong v tol = -1 ∨ calcAlong v tol = 0 ∨ calcAlong v tol = 1 ∨
      calcAlong v tol = 2 := by
  unfold calcAlong; split_ifs <;> simp

end Epsilon

/-! ## §2  The event list -/

section Events
variable {β : Type}

/-- `_LinkedList.insertBefore(node, check)`: the list is split at the first element
satisfying `check`; everything before fails `check`; the new node goes in between. -/
theorem insertBefore_split (x : β) (c : β → Bool) (l : List β) :
    ∃ l1 l2, l = l1 ++ l2 ∧ insertBefore x c l = l1 ++ x :: l2 ∧ (∀ y ∈ l1, c y = false) ∧
      (∀ h, l2.head? = some h → c h = true) := by
  induction l with
  | nil => exact ⟨[], [], rfl, rfl, by simp, by simp⟩
  | cons a l ih =>
    unfold insertBefore
    by_cases hc : c a = true
    · rw [if_pos hc]
      exact ⟨[], a :: l, rfl, rfl, by simp, by intro h hh; simp at hh; subst hh; exact hc⟩
    · rw [if_neg hc]
      obtain ⟨l1, l2, h1, h2, h3, h4⟩ := ih
      refine ⟨a :: l1, l2, by rw [h1]; rfl, by rw [h2]; rfl, ?_, h4⟩
      intro y hy
      rcases List.mem_cons.mp hy with rfl | hm
      · simpa using hc
      · exact h3 y hm

/-- Inserting an event neither loses nor duplicates nor reorders the other events. -/
theorem insertBefore_perm (x : β) (c : β → Bool) (l : List β) :
    (insertBefore x c l).Perm (x :: l) ∧ l.Sublist (insertBefore x c l) := by
  obtain ⟨l1, l2, h1, h2, _, _⟩ := insertBefore_split x c l
  rw [h2, h1]
  exact ⟨List.perm_middle, List.Sublist.append (List.Sublist.refl _) (List.sublist_cons_self _ _)⟩

end Events

section Sweep
variable {α : Type} [Field α] [LinearOrder α]

/-- `__eventAdd` keeps the store, the status list and the output, and adds exactly the one
event, before the first event `here` with `eventCompare(ev, here) < 0`. -/
theorem eventAdd_spec (tol : α) (st : St α) (e : Ev) :
    (eventAdd tol st e).segs = st.segs ∧ (eventAdd tol st e).status = st.status ∧
      (eventAdd tol st e).out = st.out ∧ (eventAdd tol st e).events.Perm (e :: st.events) ∧
      st.events.Sublist (eventAdd tol st e).events := by
  refine ⟨rfl, rfl, rfl, ?_, ?_⟩
  · exact (insertBefore_perm _ _ _).1
  · exact (insertBefore_perm _ _ _).2

/-! ## §3  `__eventDivide` and `__checkIntersection` -/

/-- `__eventDivide(ev, pt)` (when none of the unlink operations fails): the store gains exactly
one segment — the piece `(pt, old end)` carrying the fills of the divided segment, no
`otherfill`, same `primary`, not yet in the status list —, the divided segment keeps everything
but its end, which becomes `pt`; status list and output are untouched; the event list gains
exactly the two events of the new piece (the end event of the divided segment is re-inserted at
its new position). -/
theorem eventDivide_spec (tol : α) (st st' : St α) (i : Nat) (pt : V2 α)
    (h : eventDivide tol st i pt = .ok st') :
    st'.segs = st.segs.set i { st.seg i with stop := pt } ++
        [⟨pt, (st.seg i).stop, (st.seg i).myfill, none, (st.seg i).primary, false⟩] ∧
      st'.status = st.status ∧ st'.out = st.out ∧
      st'.events.Perm ((st.segs.length, true) :: (st.segs.length, false) :: st.events) := by
  unfold eventDivide at h
  simp only [bind, Except.bind] at h
  cases h1 : removeEvent st (i, false) with
  | error e => rw [h1] at h; cases h
  | ok st1 =>
    rw [h1] at h
    simp only [pure, Except.pure, Except.ok.injEq] at h
    subst h
    obtain ⟨hmem, rfl⟩ := removeEvent_ok h1
    refine ⟨rfl, rfl, rfl, ?_⟩
    unfold eventAddSegment
    simp only
    refine (eventAdd_spec tol _ _).2.2.2.1.trans ?_
    refine (List.Perm.cons _ (eventAdd_spec tol _ _).2.2.2.1).trans ?_
    have hlen : (eventAdd tol (St.setSeg { st with events := st.events.erase (i, false) } i
        { st.seg i with stop := pt }) (i, false)).segs.length = st.segs.length := by
      simp [eventAdd, St.setSeg]
    rw [hlen]
    refine (List.Perm.swap _ _ _).trans ?_
    refine List.Perm.cons _ (List.Perm.cons _ ?_)
    show (eventAdd tol _ (i, false)).events.Perm st.events
    exact (eventAdd_spec tol _ _).2.2.2.1.trans (List.perm_cons_erase hmem).symm

/-- The two pieces of a divided segment add up to the segment: as vectors
`(pt − start) + (end − pt) = end − start` (conservation of the covered span). -/
theorem divide_pieces_add_up (start stop pt : V2 α) :
    V2.add (V2.sub pt start) (V2.sub stop pt) = V2.sub stop start := by
  unfold V2.add V2.sub
  ext <;> simp

/-- `__checkIntersection(ev1, ev2)` divides only `ev1` or `ev2`, at most twice, and only at an
end point of one of the two segments or at the point computed by `_lines_intersect`. -/
theorem checkIntersection_plan (tol : α) (st : St α) (e1 e2 : Nat) :
    (intersectionPlan tol st e1 e2).1.length ≤ 2 ∧
      ∀ d ∈ (intersectionPlan tol st e1 e2).1, (d.1 = e1 ∨ d.1 = e2) ∧
        (d.2 = (st.seg e1).start ∨ d.2 = (st.seg e1).stop ∨ d.2 = (st.seg e2).start ∨
          d.2 = (st.seg e2).stop ∨
          ∃ x y, linesIntersect (st.seg e1).start (st.seg e1).stop (st.seg e2).start
            (st.seg e2).stop tol = some (x, y, d.2)) :=
  ⟨plan_length tol st e1 e2, fun d hd => ⟨plan_index tol st e1 e2 d hd, plan_points tol st e1 e2 d hd⟩⟩

/-- The event returned by `__checkIntersection` is `None` or its second argument (the status
segment that coincides with the new one). -/
theorem checkIntersection_ret (tol : α) (st : St α) (e1 e2 : Nat) :
    (intersectionPlan tol st e1 e2).2 = none ∨ (intersectionPlan tol st e1 e2).2 = some e2 := by
  unfold intersectionPlan
  simp only
  split
  · split_ifs <;> simp
  · simp

/-! ## §4  Fill annotation, step level -/

/-- SELF-INTERSECTION sweep, nothing below in the status list: `below` becomes the polygon's
`is_inverted` flag (what is "outside all regions"), `above` its negation when the segment
toggles (a fresh segment always does), else the same. -/
theorem annotate_self_bottom (tol : α) (inv sec : Bool) (s : SegRec α) :
    annotateSeg ⟨true, tol, inv, sec⟩ s none =
      .ok { s with myfill := ⟨if toggleOf s.myfill then some (!inv) else some inv, some inv⟩ } := by
  unfold annotateSeg
  simp only [↓reduceIte, truthy]
  rfl

/-- … in particular a segment straight from `addRegion` (fills `None`/`None`) of a non-inverted
polygon gets `above = True`, `below = False`: inside is above the bottom-most edge. -/
theorem annotate_self_bottom_fresh (tol : α) (inv sec : Bool) (a b : V2 α) :
    annotateSeg ⟨true, tol, inv, sec⟩ ⟨a, b, ⟨none, none⟩, none, true, false⟩ none =
      .ok ⟨a, b, ⟨some (!inv), some inv⟩, none, true, false⟩ := by
  rw [annotate_self_bottom]; rfl

/-- SELF-INTERSECTION sweep above a status segment `sb`: `below` is `sb`'s `above` (the state of
the gap between the two), `above` flips it iff the segment toggles. -/
theorem annotate_self_above (tol : α) (inv sec : Bool) (s sb : SegRec α) :
    annotateSeg ⟨true, tol, inv, sec⟩ s (some sb) =
      .ok { s with myfill :=
        ⟨if toggleOf s.myfill then some (!(truthy sb.myfill.above)) else sb.myfill.above,
          sb.myfill.above⟩ } := by
  unfold annotateSeg
  simp only [↓reduceIte]
  rfl

/-- A segment toggles iff its two flags differ — or are still unset. -/
theorem toggleOf_eq (f : Fill) :
    toggleOf f = (if f.below = none then true else f.above != f.below) := rfl

/-- COMBINE sweep, nothing below, no `otherfill` yet: the segment lies outside every region of
the OTHER polygon, so it gets that polygon's `is_inverted` flag on both sides. -/
theorem annotate_combine_bottom (tol : α) (inv1 inv2 : Bool) (s : SegRec α)
    (h : s.otherfill = none) :
    let inside := if s.primary then inv2 else inv1
    annotateSeg ⟨false, tol, inv1, inv2⟩ s none =
      .ok { s with otherfill := some ⟨some inside, some inside⟩ } := by
  intro inside
  unfold annotateSeg
  simp only [Bool.false_eq_true, ↓reduceIte, h]
  rfl

/-- COMBINE sweep above a status segment `sb`: the other polygon's fill around the new segment
is what is above `sb` — read from `sb.otherfill` when `sb` belongs to the same polygon, from
`sb.myfill` when it belongs to the other one. -/
theorem annotate_combine_above (tol : α) (inv1 inv2 : Bool) (s sb : SegRec α) (o : Fill)
    (h : s.otherfill = none) (ho : sb.otherfill = some o) :
    let f : Fill := if s.primary == sb.primary then ⟨o.above, o.above⟩
      else ⟨sb.myfill.above, sb.myfill.above⟩
    annotateSeg ⟨false, tol, inv1, inv2⟩ s (some sb) = .ok { s with otherfill := some f } := by
  intro f
  unfold annotateSeg
  simp only [Bool.false_eq_true, ↓reduceIte, h, ho, f]
  split_ifs <;> rfl

/-! ## §5  Global invariants of the sweep -/

/-- Every segment returned by `_segments(poly, tol)` has both flags of `myfill` set and no
`otherfill` — whatever the regions, the tolerance and the fuel.  (So `segmentCopy` in
`_combine` never copies a `None`.) -/
theorem segments_fills_complete (regions : List (List (V2 α))) (inv : Bool) (tol : α)
    (fuel : Nat) (out : List (FSeg α)) (h : segments regions inv tol fuel = .ok out) :
    ∀ s ∈ out, Complete s.myfill ∧ s.otherfill = none := by
  unfold segments at h
  simp only [bind, Except.bind] at h
  cases h1 : regions.foldlM (addRegion tol) St.empty with
  | error e => rw [h1] at h; cases h
  | ok st =>
    rw [h1] at h
    simp only at h
    cases h2 : loop ⟨true, tol, inv, false⟩ fuel st with
    | error e => rw [h2] at h; cases h
    | ok st' =>
      rw [h2] at h
      simp only [pure, Except.pure, Except.ok.injEq] at h
      subst h
      have w0 : WF (GSelf (α := α)) st := by
        have : ∀ (rs : List (List (V2 α))) (s0 : St α), WF (GSelf (α := α)) s0 →
            ∀ s1, rs.foldlM (addRegion tol) s0 = .ok s1 → WF (GSelf (α := α)) s1 := by
          intro rs
          induction rs with
          | nil =>
            intro s0 w s1 hs
            simp only [List.foldlM_nil, pure, Except.pure, Except.ok.injEq] at hs
            subst hs; exact w
          | cons r rs ih =>
            intro s0 w s1 hs
            simp only [List.foldlM_cons, bind, Except.bind] at hs
            cases hr : addRegion tol s0 r with
            | error e => rw [hr] at hs; cases hs
            | ok s0' =>
              rw [hr] at hs
              exact ih s0' (w.addRegion tol r
                (fun p q _ _ => ⟨by intro hc; simp at hc, rfl, rfl⟩) hr) s1 hs
        exact this regions _ (WF.empty _) st h1
      have w1 := w0.loop (kept_self tol inv false) fuel h2
      intro s hs
      obtain ⟨r, hg, hst, rfl⟩ := w1.outSegs s hs
      exact ⟨hg.1 hst, hg.2.2⟩

/-- If the two inputs of `_combine` have complete `myfill` (as `_segments` and `_select_*`
produce), every segment it returns has complete `myfill` and a complete `otherfill`: `__select`
never reads a `None` flag and never takes the `otherfill is None` path on such input. -/
theorem combine_fills_complete (segs1 segs2 : List (FSeg α)) (inv1 inv2 : Bool) (tol : α)
    (fuel : Nat) (h1 : ∀ s ∈ segs1, Complete s.myfill) (h2 : ∀ s ∈ segs2, Complete s.myfill)
    (out : List (FSeg α)) (h : combine segs1 inv1 segs2 inv2 tol fuel = .ok out) :
    ∀ s ∈ out, Complete s.myfill ∧ ∃ o, s.otherfill = some o ∧ Complete o := by
  unfold combine at h
  simp only [bind, Except.bind] at h
  cases hl : loop ⟨false, tol, inv1, inv2⟩ fuel
      (addSegs tol (addSegs tol St.empty segs1 true) segs2 false) with
  | error e => rw [hl] at h; cases h
  | ok st' =>
    rw [hl] at h
    simp only [pure, Except.pure, Except.ok.injEq] at h
    subst h
    have wa : WF (GComb (α := α)) (addSegs tol St.empty segs1 true) :=
      (WF.empty _).addSegs tol segs1 true
        (fun s hs => ⟨h1 s hs, by intro f hf; simp at hf, by intro hc; simp at hc⟩)
    have wb : WF (GComb (α := α)) (addSegs tol (addSegs tol St.empty segs1 true) segs2 false) :=
      wa.addSegs tol segs2 false
        (fun s hs => ⟨h2 s hs, by intro f hf; simp at hf, by intro hc; simp at hc⟩)
    have w1 := wb.loop (kept_comb tol inv1 inv2) fuel hl
    intro s hs
    obtain ⟨r, hg, hst, rfl⟩ := w1.outSegs s hs
    refine ⟨hg.1, ?_⟩
    cases ho : r.otherfill with
    | none => exact absurd ho (hg.2.2 hst)
    | some o => exact ⟨o, rfl, hg.2.1 o ho⟩

/-- Every end point of a segment returned by `_segments` is a vertex of one of the input
regions or was obtained from such points by (iterated) `_lines_intersect`: the sweep never
invents a coordinate. -/
theorem segments_points (regions : List (List (V2 α))) (inv : Bool) (tol : α) (fuel : Nat)
    (out : List (FSeg α)) (h : segments regions inv tol fuel = .ok out) :
    ∀ s ∈ out, Reach tol (fun p => ∃ r ∈ regions, p ∈ r) s.start ∧
      Reach tol (fun p => ∃ r ∈ regions, p ∈ r) s.stop := by
  unfold segments at h
  simp only [bind, Except.bind] at h
  cases h1 : regions.foldlM (addRegion tol) St.empty with
  | error e => rw [h1] at h; cases h
  | ok st =>
    rw [h1] at h
    simp only at h
    cases h2 : loop ⟨true, tol, inv, false⟩ fuel st with
    | error e => rw [h2] at h; cases h
    | ok st' =>
      rw [h2] at h
      simp only [pure, Except.pure, Except.ok.injEq] at h
      subst h
      let V : V2 α → Prop := fun p => ∃ r ∈ regions, p ∈ r
      have w0 : WF (GPts tol V) st := by
        have : ∀ (rs : List (List (V2 α))) (s0 : St α), (∀ r ∈ rs, r ∈ regions) →
            WF (GPts tol V) s0 →
            ∀ s1, rs.foldlM (addRegion tol) s0 = .ok s1 → WF (GPts tol V) s1 := by
          intro rs
          induction rs with
          | nil =>
            intro s0 _ w s1 hs
            simp only [List.foldlM_nil, pure, Except.pure, Except.ok.injEq] at hs
            subst hs; exact w
          | cons r rs ih =>
            intro s0 hsub w s1 hs
            simp only [List.foldlM_cons, bind, Except.bind] at hs
            cases hr : addRegion tol s0 r with
            | error e => rw [hr] at hs; cases hs
            | ok s0' =>
              rw [hr] at hs
              refine ih s0' (fun r' hr' => hsub r' (by simp [hr'])) (w.addRegion tol r ?_ hr) s1 hs
              intro p q hp hq
              exact ⟨Reach.base ⟨r, hsub r (by simp), hp⟩, Reach.base ⟨r, hsub r (by simp), hq⟩⟩
        exact this regions _ (fun r hr => hr) (WF.empty _) st h1
      have w1 := w0.loop (kept_pts ⟨true, tol, inv, false⟩ V) fuel h2
      intro s hs
      obtain ⟨r, hg, _, rfl⟩ := w1.outSegs s hs
      exact hg

/-- The same for `_combine`: end points of its output come from end points of its two inputs
by `_lines_intersect`. -/
theorem combine_points (segs1 segs2 : List (FSeg α)) (inv1 inv2 : Bool) (tol : α) (fuel : Nat)
    (out : List (FSeg α)) (h : combine segs1 inv1 segs2 inv2 tol fuel = .ok out) :
    let V : V2 α → Prop := fun p => ∃ s ∈ segs1 ++ segs2, p = s.start ∨ p = s.stop
    ∀ s ∈ out, Reach tol V s.start ∧ Reach tol V s.stop := by
  intro V
  unfold combine at h
  simp only [bind, Except.bind] at h
  cases hl : loop ⟨false, tol, inv1, inv2⟩ fuel
      (addSegs tol (addSegs tol St.empty segs1 true) segs2 false) with
  | error e => rw [hl] at h; cases h
  | ok st' =>
    rw [hl] at h
    simp only [pure, Except.pure, Except.ok.injEq] at h
    subst h
    have wa : WF (GPts tol V) (addSegs tol St.empty segs1 true) :=
      (WF.empty _).addSegs tol segs1 true (fun s hs =>
        ⟨Reach.base ⟨s, by simp [hs], Or.inl rfl⟩, Reach.base ⟨s, by simp [hs], Or.inr rfl⟩⟩)
    have wb : WF (GPts tol V) (addSegs tol (addSegs tol St.empty segs1 true) segs2 false) :=
      wa.addSegs tol segs2 false (fun s hs =>
        ⟨Reach.base ⟨s, by simp [hs], Or.inl rfl⟩, Reach.base ⟨s, by simp [hs], Or.inr rfl⟩⟩)
    have w1 := wb.loop (kept_pts ⟨false, tol, inv1, inv2⟩ V) fuel hl
    intro s hs
    obtain ⟨r, hg, _, rfl⟩ := w1.outSegs s hs
    exact hg

/-- EXCEPTIONS of `_segments`.  The model of `_segments(poly, tol)` can only end in: "index"
(`region[-1]` of an empty region: `IndexError`), "unlinked" (a linked-list node removed twice:
`AttributeError`), "zero-length" (the code's own `Exception('PolyBool: Zero-length segment
detected …')`) or "fuel".  In particular it never reads a fill flag of a `None` fill. -/
theorem segments_errors (regions : List (List (V2 α))) (inv : Bool) (tol : α) (fuel : Nat)
    (msg : String) (h : segments regions inv tol fuel = .error msg) :
    msg = "index" ∨ msg = "unlinked" ∨ msg = "zero-length" ∨ msg = "fuel" := by
  unfold segments at h
  simp only [bind, Except.bind] at h
  have hadd : ∀ (rs : List (List (V2 α))) (s0 : St α), WF (GSelf (α := α)) s0 →
      (∀ s1, rs.foldlM (addRegion tol) s0 = .ok s1 → WF (GSelf (α := α)) s1) ∧
      (∀ m, rs.foldlM (addRegion tol) s0 = .error m → m = "index") := by
    intro rs
    induction rs with
    | nil =>
      intro s0 w
      refine ⟨?_, ?_⟩
      · intro s1 hs
        simp only [List.foldlM_nil, pure, Except.pure, Except.ok.injEq] at hs
        subst hs; exact w
      · intro m hm; simp only [List.foldlM_nil, pure, Except.pure] at hm; cases hm
    | cons r rs ih =>
      intro s0 w
      cases hr : addRegion tol s0 r with
      | error e =>
        refine ⟨?_, ?_⟩
        · intro s1 hs
          simp only [List.foldlM_cons, bind, Except.bind, hr] at hs; cases hs
        · intro m hm
          simp only [List.foldlM_cons, bind, Except.bind, hr] at hm
          cases hm
          unfold addRegion at hr
          cases hl : r.getLast? with
          | none =>
            rw [hl] at hr
            have h' : (Except.error "index" : Except String (St α)) = Except.error e := hr
            cases h'; rfl
          | some last => rw [hl] at hr; cases hr
      | ok s0' =>
        have w' := w.addRegion tol r (fun p q _ _ => ⟨by intro hc; simp at hc, rfl, rfl⟩) hr
        obtain ⟨i1, i2⟩ := ih s0' w'
        refine ⟨?_, ?_⟩
        · intro s1 hs
          simp only [List.foldlM_cons, bind, Except.bind, hr] at hs
          exact i1 s1 hs
        · intro m hm
          simp only [List.foldlM_cons, bind, Except.bind, hr] at hm
          exact i2 m hm
  cases h1 : regions.foldlM (addRegion tol) St.empty with
  | error e =>
    rw [h1] at h; cases h
    exact Or.inl ((hadd regions _ (WF.empty _)).2 _ h1)
  | ok st =>
    rw [h1] at h
    simp only at h
    have w0 := (hadd regions _ (WF.empty _)).1 _ h1
    cases h2 : loop ⟨true, tol, inv, false⟩ fuel st with
    | error e =>
      rw [h2] at h; cases h
      rcases loop_err (kept_self tol inv false) (total_self tol inv false) fuel w0 h2 with
        (h' | h') | h'
      · exact Or.inr (Or.inl h')
      · exact Or.inr (Or.inr (Or.inl h'))
      · exact Or.inr (Or.inr (Or.inr h'))
    | ok st' => rw [h2] at h; cases h

/-- EXCEPTIONS of `_combine` on inputs with complete fills: "unlinked", "zero-length" or
"fuel" — never an `AttributeError` from a missing `otherfill` ("nofill"). -/
theorem combine_errors (segs1 segs2 : List (FSeg α)) (inv1 inv2 : Bool) (tol : α)
    (fuel : Nat) (h1 : ∀ s ∈ segs1, Complete s.myfill) (h2 : ∀ s ∈ segs2, Complete s.myfill)
    (msg : String) (h : combine segs1 inv1 segs2 inv2 tol fuel = .error msg) :
    msg = "unlinked" ∨ msg = "zero-length" ∨ msg = "fuel" := by
  unfold combine at h
  simp only [bind, Except.bind] at h
  have wa : WF (GComb (α := α)) (addSegs tol St.empty segs1 true) :=
    (WF.empty _).addSegs tol segs1 true
      (fun s hs => ⟨h1 s hs, by intro f hf; simp at hf, by intro hc; simp at hc⟩)
  have wb : WF (GComb (α := α)) (addSegs tol (addSegs tol St.empty segs1 true) segs2 false) :=
    wa.addSegs tol segs2 false
      (fun s hs => ⟨h2 s hs, by intro f hf; simp at hf, by intro hc; simp at hc⟩)
  cases hl : loop ⟨false, tol, inv1, inv2⟩ fuel
      (addSegs tol (addSegs tol St.empty segs1 true) segs2 false) with
  | error e =>
    rw [hl] at h; cases h
    rcases loop_err (kept_comb tol inv1 inv2) (total_comb tol inv1 inv2) fuel wb hl with
      (h' | h') | h'
    · exact Or.inl h'
    · exact Or.inr (Or.inl h')
    · exact Or.inr (Or.inr h')
  | ok st' => rw [hl] at h; cases h

/-! ## §6  The pipeline -/

/-- `__operate` succeeds iff its three sweeps succeed, and then the result is the chained
selection: the stages of `union`, `intersect`, `difference`, `difference_reversed`, `xor`. -/
theorem operate_ok_iff (op : Op) (r1 r2 : List (List (V2 α))) (i1 i2 : Bool) (tol : α)
    (fuel : Nat) (R : List (List (V2 α))) (inv : Bool) :
    operate op r1 i1 r2 i2 tol fuel = .ok (R, inv) ↔
      ∃ s1 s2 comb, segments r1 i1 tol fuel = .ok s1 ∧ segments r2 i2 tol fuel = .ok s2 ∧
        combine s1 i1 s2 i2 tol fuel = .ok comb ∧
        R = Lbg.Model.Chainer.chainer ((select comb op.table).map fun s => (s.start, s.stop)) tol ∧
        inv = op.inverted i1 i2 := by
  unfold operate
  constructor
  · intro h
    simp only [bind, Except.bind] at h
    split at h
    · cases h
    rename_i s1 h1
    split at h
    · cases h
    rename_i s2 h2
    split at h
    · cases h
    rename_i comb h3
    simp only [pure, Except.pure, Except.ok.injEq, Prod.mk.injEq] at h
    exact ⟨s1, s2, comb, h1, h2, h3, h.1.symm, h.2.symm⟩
  · rintro ⟨s1, s2, comb, h1, h2, h3, rfl, rfl⟩
    simp only [bind, Except.bind, h1, h2, h3]
    rfl

/-- PIPELINE (partial).  When a public operation returns `(regions, is_inverted)`:
 1. the combined segments all carry four set fill flags (§5);
 2. IF those flags are geometrically correct (`C04c.FillsCorrect` against a ground truth `g` —
    the part about the sweep that is NOT proved), THEN the segments handed to the chainer are
    exactly the combined segments across which `op(A, B)` changes, each with the result's fill
    on either side, `is_inverted = op(inverted A, inverted B)`, and `regions` is
    `_segmentChainer` of them — about which `C04b.chainer_conservation` says (for separated
    end points) that every such boundary segment is used in exactly one returned loop or
    left-over chain. -/
theorem operate_boundary_partial (op : Op) (r1 r2 : List (List (V2 α))) (i1 i2 : Bool)
    (tol : α) (fuel : Nat) (R : List (List (V2 α))) (inv : Bool)
    (h : operate op r1 i1 r2 i2 tol fuel = .ok (R, inv)) :
    ∃ comb : List (FSeg α),
      (∀ s ∈ comb, Complete s.myfill ∧ ∃ o, s.otherfill = some o ∧ Complete o) ∧
      ∀ g : FSeg α → C04c.Truth, (∀ s ∈ comb, C04c.FillsCorrect s (g s)) →
        let boundary := comb.filterMap (fun s =>
          if C04c.opFun op (g s).a1 (g s).a2 ≠ C04c.opFun op (g s).b1 (g s).b2
          then some (C04c.resultSeg s (C04c.opFun op (g s).a1 (g s).a2)
            (C04c.opFun op (g s).b1 (g s).b2)) else none)
        R = Lbg.Model.Chainer.chainer (boundary.map fun s => (s.start, s.stop)) tol ∧
          inv = C04c.opFun op i1 i2 := by
  obtain ⟨s1, s2, comb, e1, e2, e3, rfl, rfl⟩ := (operate_ok_iff op r1 r2 i1 i2 tol fuel R inv).mp h
  refine ⟨comb, ?_, ?_⟩
  · exact combine_fills_complete s1 s2 i1 i2 tol fuel
      (fun s hs => (segments_fills_complete r1 i1 tol fuel s1 e1 s hs).1)
      (fun s hs => (segments_fills_complete r2 i2 tol fuel s2 e2 s hs).1) comb e3
  · intro g hg
    have := C04c.selectOp_of_correct op comb i1 i2 g hg
    unfold selectOp at this
    simp only [Prod.mk.injEq] at this
    exact ⟨by rw [this.1], by rw [C04c.inverted_eq]⟩

end Sweep

/-! ## Non-vacuity and the known finding -/

/-- Two overlapping squares: the model's `union` returns the L-shaped octagon, `intersect` the
common square (exactly what the real code returns — pinned case 'squares-overlap' of the
correspondence). -/
example :
    operate .intersect [[⟨0, 0⟩, ⟨4, 0⟩, ⟨4, 4⟩, ⟨0, 4⟩]] false
      [[⟨2, 2⟩, ⟨6, 2⟩, ⟨6, 6⟩, ⟨2, 6⟩]] false (1 / 1000000 : ℚ) 1000 =
      .ok ([[⟨4, 4⟩, ⟨4, 2⟩, ⟨2, 2⟩, ⟨2, 4⟩]], false) := by
  decide +kernel

/-- THE KNOWN OPEN FINDING of C04 (`known_findings.json`, 'zero-length-segment|steep-edge') is
reproduced by the model: on the two triangles of the finding (decimal coordinates, sweep
tolerance `0.01 / 1000`) the model ends in the error "zero-length", i.e. the code's
`raise Exception('PolyBool: Zero-length segment detected …')` — the end event of a divided
piece is reached before its start event was put into the status list. -/
example :
    operate .union
      [[⟨554345 / 100000, 428454 / 100000⟩, ⟨456839 / 100000, 473985 / 100000⟩,
        ⟨479873 / 100000, 5192 / 1000⟩]] false
      [[⟨543397 / 100000, 486834 / 100000⟩, ⟨527445 / 100000, 351164 / 100000⟩,
        ⟨543402 / 100000, 368823 / 100000⟩]] false (1 / 100000 : ℚ) 1000 =
      .error "zero-length" := by
  decide +kernel

end Lbg.Props.C04d
