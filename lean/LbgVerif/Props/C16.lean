/-
  C16 — 2D and 3D sibling classes agree on geometry in a common plane.

  Two ways of putting 2D data into 3D are considered:
  * `embed (x, y) = (x, y, 0)` — the world XY plane;
  * `plane_xy_to_xyz pl` (the generated `Plane.xy_to_xyz`) for ANY plane whose `x`, `y` axes are
    orthonormal (`OrthoXY pl`; every constructed `Plane` satisfies it, see
    `orthoXY_of_planeValid`).  `embed` is the special case `pl = worldXY`.

  For both, the generated 3D kernels applied to the mapped data return the mapped result of
  the generated 2D kernels:
  1. mesh face areas (triangle; quad with interior diagonal `p0 — p2`) and face centroids /
     centres;
  2. segment length, `p2`, `midpoint`, `point_at`, `point_at_length`, `from_end_points`;
  3. closest points on segments / rays / infinite lines, distance to a point, and the
     segment–line intersection (3D: segment against the vertical plane through the 2D line);
  4. `Arc3D` is the plane image of its `arc2d` (`p1`, `p2`, `midpoint`, `point_at`, `length`);
  5. face normals: `normal_from_3pts` of mapped points is `det • (x × y)`, and the summed fan
     normal of a planar face is `shoelace(coords) • (x × y)`.

  All statements are about the kernels regenerated from the repository (`Lbg.Gen.*`); a drift
  between the siblings breaks the corresponding proof.
-/
import LbgVerif.Gen.Mesh
import LbgVerif.Gen.Vec
import LbgVerif.Gen.Line
import LbgVerif.Gen.Plane
import LbgVerif.Gen.Arc
import LbgVerif.Gen.Face
import LbgVerif.Gen.Isect2
import LbgVerif.Gen.Isect3
import LbgVerif.Lemmas.Measure
import LbgVerif.Lemmas.MeshKernels
import LbgVerif.Lemmas.Siblings
import LbgVerif.Props.C02
import Mathlib.Tactic.Ring
import Mathlib.Tactic.FieldSimp
import Mathlib.Tactic.Linarith
import Mathlib.Tactic.LinearCombination
import Mathlib.Tactic.SplitIfs
import Mathlib.Tactic.NormNum
import Mathlib.Algebra.Order.Field.Rat

set_option linter.unusedSectionVars false
set_option linter.unusedVariables false
set_option linter.unusedTactic false
set_option linter.unreachableTactic false
set_option linter.unnecessarySeqFocus false

namespace Lbg.Props.C16
open Lbg Lbg.Gen Lbg.Lemmas
variable {α : Type} [Field α] [LinearOrder α] [IsStrictOrderedRing α]

/-! ## 0. The two embeddings -/

/-- The plane's `x`, `y` axes are orthonormal — the only property of the plane the sibling
theorems need. -/
structure OrthoXY (pl : PlaneS α) : Prop where
  x_unit : V3.normSq pl.x = 1
  y_unit : V3.normSq pl.y = 1
  xy : V3.dot pl.x pl.y = 0

/-- Every valid `Plane` (unit normal, unit x-axis perpendicular to it, `y = n × x`: the
invariant `PlaneValid` of C02, established by `Plane.__init__`) has orthonormal axes. -/
theorem orthoXY_of_planeValid {pl : PlaneS α} (hv : C02.PlaneValid pl) : OrthoXY pl := by
  obtain ⟨h1, _, h3⟩ := hv.y_frame
  exact ⟨hv.x_unit, h1, h3⟩

/-- The world XY plane (`Plane()` with default arguments). -/
def worldXY : PlaneS α := ⟨⟨0, 0, 1⟩, ⟨0, 0, 0⟩, 0, ⟨1, 0, 0⟩, ⟨0, 1, 0⟩⟩

/-- The world XY plane has orthonormal axes (and is a valid plane). -/
theorem orthoXY_worldXY : OrthoXY (worldXY : PlaneS α) ∧ C02.PlaneValid (worldXY : PlaneS α) := by
  constructor
  · constructor <;> simp [worldXY, V3.normSq, V3.dot]
  · constructor <;> simp [worldXY, V3.normSq, V3.dot, V3.cross]

/-- `Plane.xy_to_xyz` is the affine chart `o + c.x • x + c.y • y`. -/
theorem plane_xy_to_xyz_eq_lift (pl : PlaneS α) (c : V2 α) :
    plane_xy_to_xyz pl c = lift pl.o pl.x pl.y c := rfl

/-- `embed` is `Plane.xy_to_xyz` of the world XY plane. -/
theorem embed_eq_plane (p : V2 α) : embed p = plane_xy_to_xyz (worldXY : PlaneS α) p := by
  rw [plane_xy_to_xyz_eq_lift]; exact embed_eq_lift p

/-- `Plane.xyz_to_xy` undoes `Plane.xy_to_xyz` (orthonormal axes): comparing "after mapping
through the plane's 2D coordinates" and "after mapping the 2D result into the plane" is the
same thing. -/
theorem plane_round_trip (pl : PlaneS α) (hf : OrthoXY pl) (c : V2 α) :
    plane_xyz_to_xy pl (plane_xy_to_xyz pl c) = c :=
  plane_xyz_to_xy_lift pl hf.x_unit hf.y_unit hf.xy c

/-- A 2D segment / ray mapped into the plane: base point through the chart, direction through
its linear part. -/
def mapSeg (pl : PlaneS α) (l : LR2 α) : LR3 α :=
  ⟨plane_xy_to_xyz pl l.p, liftV pl.x pl.y l.v⟩

/-- A 2D segment / ray embedded in the world XY plane. -/
def embedSeg (l : LR2 α) : LR3 α := ⟨embed l.p, embed l.v⟩

/-- `embedSeg` is `mapSeg worldXY`. -/
theorem embedSeg_eq_mapSeg (l : LR2 α) : embedSeg l = mapSeg (worldXY : PlaneS α) l := by
  unfold embedSeg mapSeg
  rw [embed_eq_plane, embed_eq_liftV]
  rfl

/-! ## 0b. Vectors and points -/

/-- `Vector3D.dot / cross / magnitude / magnitude_squared / normalize` of plane-mapped vectors
(linear part of the chart, orthonormal axes): the dot product, the length and its square are
those of the 2D vectors, the cross product is `determinant • (x × y)`, and `normalize` commutes
with the map. -/
theorem vector_ops_plane (M : MathOps α) (pl : PlaneS α) (hf : OrthoXY pl) (u v : V2 α) :
    v3_dot (liftV pl.x pl.y u) (liftV pl.x pl.y v) = v2_dot u v ∧
    v3_cross (liftV pl.x pl.y u) (liftV pl.x pl.y v) =
      V3.smul (v2_determinant u v) (V3.cross pl.x pl.y) ∧
    v3_magnitude_squared (liftV pl.x pl.y u) = v2_magnitude_squared u ∧
    v3_magnitude M (liftV pl.x pl.y u) = v2_magnitude M u ∧
    v3_normalize M (liftV pl.x pl.y u) = liftV pl.x pl.y (v2_normalize M u) := by
  have hd := dot_liftV pl.x pl.y hf.x_unit hf.y_unit hf.xy u v
  have hn := normSq_liftV pl.x pl.y hf.x_unit hf.y_unit hf.xy u
  have hc := cross_liftV pl.x pl.y u v
  simp only [V3.dot, V2.dot, V3.normSq, V2.normSq] at hd hn
  refine ⟨hd, ?_, hn, ?_, ?_⟩
  · have e : v2_determinant u v = V2.det u v := by unfold v2_determinant V2.det; ring
    rw [e, ← hc]
    unfold v3_cross
    apply V3.ext' <;> simp only [V3.cross] <;> ring
  · unfold v3_magnitude v2_magnitude
    congr 1 <;> linear_combination hn
  · unfold v3_normalize v2_normalize
    simp only [hn]
    by_cases h : M.sqrt (u.x * u.x + u.y * u.y) = 0
    · simp only [h, if_true]
    · simp only [h, if_false]
      apply V3.ext' <;> simp only [liftV] <;> field_simp

/-- The same for embedded vectors: `dot`, `magnitude` agree and the cross product is
`(0, 0, determinant)`. -/
theorem vector_ops_embed (M : MathOps α) (u v : V2 α) :
    v3_dot (embed u) (embed v) = v2_dot u v ∧
    v3_cross (embed u) (embed v) = ⟨0, 0, v2_determinant u v⟩ ∧
    v3_magnitude M (embed u) = v2_magnitude M u ∧
    v3_normalize M (embed u) = embed (v2_normalize M u) := by
  obtain ⟨h1, h2, _, h4, h5⟩ := vector_ops_plane M worldXY orthoXY_worldXY.1 u v
  simp only [embed_eq_liftV]
  refine ⟨h1, ?_, h4, h5⟩
  have e : (worldXY : PlaneS α).x = ⟨1, 0, 0⟩ ∧ (worldXY : PlaneS α).y = ⟨0, 1, 0⟩ := ⟨rfl, rfl⟩
  rw [e.1, e.2] at h2
  rw [h2]
  apply V3.ext' <;> simp [V3.smul, V3.cross]

/-- `Point3D.distance_to_point` of plane-mapped points is the 2D distance (orthonormal axes;
equal `sqrt` arguments). -/
theorem point_distance_plane (M : MathOps α) (pl : PlaneS α) (hf : OrthoXY pl) (a b : V2 α) :
    p3_distance_to_point M (plane_xy_to_xyz pl a) (plane_xy_to_xyz pl b) =
      p2_distance_to_point M a b := by
  have h := normSq_liftV pl.x pl.y hf.x_unit hf.y_unit hf.xy (V2.sub a b)
  rw [← lift_sub_lift pl.o] at h
  unfold p3_distance_to_point p2_distance_to_point
  simp only [V3.normSq, V2.normSq, V3.sub, V2.sub, ← plane_xy_to_xyz_eq_lift] at h ⊢
  congr 1 <;> linear_combination h

/-! ## 1. Mesh faces -/

/-- Triangle face area: `Mesh3D._get_tri_area` of the mapped triangle equals `Mesh2D._get_area`
of the 2D triangle (any plane with orthonormal axes; `sqrt` law). -/
theorem tri_area_plane (M : MathOps α)
    (hsqrt : ∀ x, 0 ≤ x → M.sqrt x * M.sqrt x = x ∧ 0 ≤ M.sqrt x) (pl : PlaneS α)
    (hf : OrthoXY pl) (a b c : V2 α) :
    mesh3d_get_tri_area M (plane_xy_to_xyz pl a, plane_xy_to_xyz pl b, plane_xy_to_xyz pl c) =
      mesh2d_get_area_tri (a, b, c) := by
  simp only [plane_xy_to_xyz_eq_lift]
  rw [mesh3d_get_tri_area_cross,
    sqrt_normSq_cross_lift M hsqrt pl.o pl.x pl.y hf.x_unit hf.y_unit hf.xy,
    mesh2d_get_area_tri_det, abs_div, abs_two]

/-- Triangle face area in the world XY plane. -/
theorem tri_area_embed (M : MathOps α)
    (hsqrt : ∀ x, 0 ≤ x → M.sqrt x * M.sqrt x = x ∧ 0 ≤ M.sqrt x) (a b c : V2 α) :
    mesh3d_get_tri_area M (embed a, embed b, embed c) = mesh2d_get_area_tri (a, b, c) := by
  simp only [embed_eq_plane]
  exact tri_area_plane M hsqrt worldXY orthoXY_worldXY.1 a b c

/-- The area reported by `_calculate_normal_and_area_for_triangle` agrees as well, and the
reported normal is `± (x × y)` according to the orientation of the 2D triangle. -/
theorem normal_area_tri_plane (M : MathOps α)
    (hsqrt : ∀ x, 0 ≤ x → M.sqrt x * M.sqrt x = x ∧ 0 ≤ M.sqrt x) (pl : PlaneS α)
    (hf : OrthoXY pl) (a b c : V2 α) :
    (mesh3d_normal_area_tri M
      (plane_xy_to_xyz pl a, plane_xy_to_xyz pl b, plane_xy_to_xyz pl c)).2 =
        mesh2d_get_area_tri (a, b, c) ∧
    (0 < V2.det (V2.sub b a) (V2.sub c a) → (mesh3d_normal_area_tri M
      (plane_xy_to_xyz pl a, plane_xy_to_xyz pl b, plane_xy_to_xyz pl c)).1 =
        V3.cross pl.x pl.y) ∧
    (V2.det (V2.sub b a) (V2.sub c a) < 0 → (mesh3d_normal_area_tri M
      (plane_xy_to_xyz pl a, plane_xy_to_xyz pl b, plane_xy_to_xyz pl c)).1 =
        V3.neg (V3.cross pl.x pl.y)) := by
  have hw := normSq_cross_orthonormal pl.x pl.y hf.x_unit hf.y_unit hf.xy
  obtain ⟨hpos, hneg, _⟩ :=
    v3_normalize_smul_unit M hsqrt (V2.det (V2.sub b a) (V2.sub c a)) (V3.cross pl.x pl.y) hw
  simp only [plane_xy_to_xyz_eq_lift]
  rw [mesh3d_normal_area_tri_cross, cross_lift]
  refine ⟨?_, hpos, hneg⟩
  simp only []
  rw [sqrt_normSq_smul_unit M hsqrt _ _ hw, mesh2d_get_area_tri_det, abs_div, abs_two]

/-- Quad face area: for a quad whose diagonal `p0 — p2` is interior (the two triangles
`(c0,c1,c2)`, `(c2,c3,c0)` have the same orientation; every convex quad), the area reported by
`Mesh3D._calculate_normal_and_area_for_quad` on the mapped quad equals `Mesh2D._get_area` of
the 2D quad.  (This is the sibling pair that had drifted: the 3D kernel used two overlapping
triangles.) -/
theorem quad_area_plane (M : MathOps α)
    (hsqrt : ∀ x, 0 ≤ x → M.sqrt x * M.sqrt x = x ∧ 0 ≤ M.sqrt x) (pl : PlaneS α)
    (hf : OrthoXY pl) (c0 c1 c2 c3 : V2 α)
    (hdiag : (0 ≤ V2.det (V2.sub c1 c0) (V2.sub c2 c0) ∧ 0 ≤ V2.det (V2.sub c3 c2) (V2.sub c0 c2)) ∨
      (V2.det (V2.sub c1 c0) (V2.sub c2 c0) ≤ 0 ∧ V2.det (V2.sub c3 c2) (V2.sub c0 c2) ≤ 0)) :
    (mesh3d_normal_area_quad M (plane_xy_to_xyz pl c0, plane_xy_to_xyz pl c1,
      plane_xy_to_xyz pl c2, plane_xy_to_xyz pl c3)).2 = mesh2d_get_area_quad (c0, c1, c2, c3) := by
  simp only [plane_xy_to_xyz_eq_lift]
  rw [mesh3d_normal_area_quad_cross]
  simp only []
  rw [sqrt_normSq_cross_lift M hsqrt pl.o pl.x pl.y hf.x_unit hf.y_unit hf.xy,
    sqrt_normSq_cross_lift M hsqrt pl.o pl.x pl.y hf.x_unit hf.y_unit hf.xy,
    abs_add_abs_of_same_sign _ _ hdiag, mesh2d_get_area_quad_shoelace, shoelace_quad_split,
    abs_div, abs_two]

/-- Quad face area in the world XY plane. -/
theorem quad_area_embed (M : MathOps α)
    (hsqrt : ∀ x, 0 ≤ x → M.sqrt x * M.sqrt x = x ∧ 0 ≤ M.sqrt x) (c0 c1 c2 c3 : V2 α)
    (hdiag : (0 ≤ V2.det (V2.sub c1 c0) (V2.sub c2 c0) ∧ 0 ≤ V2.det (V2.sub c3 c2) (V2.sub c0 c2)) ∨
      (V2.det (V2.sub c1 c0) (V2.sub c2 c0) ≤ 0 ∧ V2.det (V2.sub c3 c2) (V2.sub c0 c2) ≤ 0)) :
    (mesh3d_normal_area_quad M (embed c0, embed c1, embed c2, embed c3)).2 =
      mesh2d_get_area_quad (c0, c1, c2, c3) := by
  simp only [embed_eq_plane]
  exact quad_area_plane M hsqrt worldXY orthoXY_worldXY.1 c0 c1 c2 c3 hdiag

/-- Triangle centroids and quad face centres commute with the plane map (no condition on the
plane: the map is affine). -/
theorem face_centers_plane (pl : PlaneS α) (a b c d : V2 α) :
    mesh3d_tri_centroid (plane_xy_to_xyz pl a, plane_xy_to_xyz pl b, plane_xy_to_xyz pl c) =
      plane_xy_to_xyz pl (mesh2d_tri_centroid (a, b, c)) ∧
    mesh3d_face_center_quad (plane_xy_to_xyz pl a, plane_xy_to_xyz pl b, plane_xy_to_xyz pl c,
      plane_xy_to_xyz pl d) = plane_xy_to_xyz pl (mesh2d_face_center_quad (a, b, c, d)) := by
  constructor
  · rw [mesh3d_tri_centroid_mean, mesh2d_tri_centroid_mean]
    apply V3.ext' <;> simp only [plane_xy_to_xyz] <;> ring
  · unfold mesh3d_face_center_quad mesh2d_face_center_quad
    apply V3.ext' <;> simp only [plane_xy_to_xyz] <;> ring

/-- Triangle centroids and quad face centres in the world XY plane. -/
theorem face_centers_embed (a b c d : V2 α) :
    mesh3d_tri_centroid (embed a, embed b, embed c) = embed (mesh2d_tri_centroid (a, b, c)) ∧
    mesh3d_face_center_quad (embed a, embed b, embed c, embed d) =
      embed (mesh2d_face_center_quad (a, b, c, d)) := by
  simp only [embed_eq_plane]
  exact face_centers_plane worldXY a b c d

/-! ## 2. Segments and rays -/

/-- `length` agrees (orthonormal axes; the two `sqrt` arguments are equal, so no law about
`sqrt` is needed). -/
theorem seg_length_plane (M : MathOps α) (pl : PlaneS α) (hf : OrthoXY pl) (l : LR2 α) :
    seg3_length M (mapSeg pl l) = seg2_length M l := by
  have h := normSq_liftV pl.x pl.y hf.x_unit hf.y_unit hf.xy l.v
  unfold seg3_length seg2_length mapSeg
  simp only [V3.normSq, V2.normSq] at h ⊢
  congr 1 <;> linear_combination h

/-- `length` in the world XY plane. -/
theorem seg_length_embed (M : MathOps α) (l : LR2 α) :
    seg3_length M (embedSeg l) = seg2_length M l := by
  rw [embedSeg_eq_mapSeg]; exact seg_length_plane M worldXY orthoXY_worldXY.1 l

/-- `p2`, `midpoint` and `point_at` commute with the plane map (any plane). -/
theorem seg_points_plane (pl : PlaneS α) (l : LR2 α) (t : α) :
    seg3_p2 (mapSeg pl l) = plane_xy_to_xyz pl (seg2_p2 l) ∧
    seg3_midpoint (mapSeg pl l) = plane_xy_to_xyz pl (seg2_midpoint l) ∧
    seg3_point_at (mapSeg pl l) t = plane_xy_to_xyz pl (seg2_point_at l t) := by
  refine ⟨?_, ?_, ?_⟩
  · unfold seg3_p2 seg2_p2 mapSeg
    apply V3.ext' <;> simp only [plane_xy_to_xyz, liftV] <;> ring
  · unfold seg3_midpoint seg2_midpoint mapSeg
    apply V3.ext' <;> simp only [plane_xy_to_xyz, liftV] <;> ring
  · unfold seg3_point_at seg2_point_at mapSeg
    apply V3.ext' <;> simp only [plane_xy_to_xyz, liftV] <;> ring

/-- `p2`, `midpoint` and `point_at` in the world XY plane. -/
theorem seg_points_embed (l : LR2 α) (t : α) :
    seg3_p2 (embedSeg l) = embed (seg2_p2 l) ∧
    seg3_midpoint (embedSeg l) = embed (seg2_midpoint l) ∧
    seg3_point_at (embedSeg l) t = embed (seg2_point_at l t) := by
  simp only [embedSeg_eq_mapSeg, embed_eq_plane]
  exact seg_points_plane worldXY l t

/-- `point_at_length` commutes with the plane map (orthonormal axes). -/
theorem seg_point_at_length_plane (M : MathOps α) (pl : PlaneS α) (hf : OrthoXY pl)
    (l : LR2 α) (d : α) :
    seg3_point_at_length M (mapSeg pl l) d =
      plane_xy_to_xyz pl (seg2_point_at_length M l d) := by
  have e3 : seg3_point_at_length M (mapSeg pl l) d =
      seg3_point_at (mapSeg pl l) (d / seg3_length M (mapSeg pl l)) := by
    unfold seg3_point_at_length seg3_point_at seg3_length
    first | rfl | ring_nf
  have e2 : seg2_point_at_length M l d = seg2_point_at l (d / seg2_length M l) := by
    unfold seg2_point_at_length seg2_point_at seg2_length
    first | rfl | ring_nf
  rw [e3, e2, seg_length_plane M pl hf, (seg_points_plane pl l _).2.2]

/-- `from_end_points` commutes with the plane map. -/
theorem seg_from_end_points_plane (pl : PlaneS α) (a b : V2 α) :
    seg3_from_end_points (plane_xy_to_xyz pl a) (plane_xy_to_xyz pl b) =
      mapSeg pl (seg2_from_end_points a b) := by
  unfold seg3_from_end_points seg2_from_end_points mapSeg
  apply lr3_ext
  · rfl
  · apply V3.ext' <;> simp only [plane_xy_to_xyz, liftV] <;> ring

/-! ## 3. Closest points, distances, intersections -/

/-- **Closest point on a segment / ray / infinite line** commutes with the plane map
(orthonormal axes), for all four generated variants. -/
theorem closest_point_plane (pl : PlaneS α) (hf : OrthoXY pl) (q : V2 α) (l : LR2 α) :
    closest_point3d_on_line3d_s (plane_xy_to_xyz pl q) (mapSeg pl l) =
      plane_xy_to_xyz pl (closest_point2d_on_line2d_s q l) ∧
    closest_point3d_on_line3d_r (plane_xy_to_xyz pl q) (mapSeg pl l) =
      plane_xy_to_xyz pl (closest_point2d_on_line2d_r q l) ∧
    closest_point3d_on_line3d_infinite_s (plane_xy_to_xyz pl q) (mapSeg pl l) =
      plane_xy_to_xyz pl (closest_point2d_on_line2d_infinite_s q l) ∧
    closest_point3d_on_line3d_infinite_r (plane_xy_to_xyz pl q) (mapSeg pl l) =
      plane_xy_to_xyz pl (closest_point2d_on_line2d_infinite_r q l) := by
  simp only [plane_xy_to_xyz_eq_lift, mapSeg, closest3_s_form, closest3_r_form, closest3_is_form,
    closest3_ir_form, closest2_s_form, closest2_r_form, closest2_is_form, closest2_ir_form]
  exact ⟨cp3_lift _ _ _ _ hf.x_unit hf.y_unit hf.xy q l,
    cp3_lift _ _ _ _ hf.x_unit hf.y_unit hf.xy q l,
    cp3_lift _ _ _ _ hf.x_unit hf.y_unit hf.xy q l,
    cp3_lift _ _ _ _ hf.x_unit hf.y_unit hf.xy q l⟩

/-- Closest points in the world XY plane. -/
theorem closest_point_embed (q : V2 α) (l : LR2 α) :
    closest_point3d_on_line3d_s (embed q) (embedSeg l) =
      embed (closest_point2d_on_line2d_s q l) ∧
    closest_point3d_on_line3d_r (embed q) (embedSeg l) =
      embed (closest_point2d_on_line2d_r q l) ∧
    closest_point3d_on_line3d_infinite_s (embed q) (embedSeg l) =
      embed (closest_point2d_on_line2d_infinite_s q l) ∧
    closest_point3d_on_line3d_infinite_r (embed q) (embedSeg l) =
      embed (closest_point2d_on_line2d_infinite_r q l) := by
  simp only [embedSeg_eq_mapSeg, embed_eq_plane]
  exact closest_point_plane worldXY orthoXY_worldXY.1 q l

/-- The same statement "through the plane's 2D coordinates": mapping the 3D closest point back
with `Plane.xyz_to_xy` gives the 2D closest point. -/
theorem closest_point_plane_coords (pl : PlaneS α) (hf : OrthoXY pl) (q : V2 α) (l : LR2 α) :
    plane_xyz_to_xy pl (closest_point3d_on_line3d_s (plane_xy_to_xyz pl q) (mapSeg pl l)) =
      closest_point2d_on_line2d_s q l := by
  rw [(closest_point_plane pl hf q l).1, plane_round_trip pl hf]

/-- `distance_to_point` of a segment agrees (orthonormal axes; equal `sqrt` arguments). -/
theorem seg_distance_plane (M : MathOps α) (pl : PlaneS α) (hf : OrthoXY pl) (q : V2 α)
    (l : LR2 α) :
    seg3_distance_to_point M (mapSeg pl l) (plane_xy_to_xyz pl q) =
      seg2_distance_to_point M l q := by
  have e3 : seg3_distance_to_point M (mapSeg pl l) (plane_xy_to_xyz pl q) =
      M.sqrt (V3.normSq (V3.sub (plane_xy_to_xyz pl q)
        (closest_point3d_on_line3d_s (plane_xy_to_xyz pl q) (mapSeg pl l)))) := rfl
  have e2 : seg2_distance_to_point M l q =
      M.sqrt (V2.normSq (V2.sub q (closest_point2d_on_line2d_s q l))) := rfl
  rw [e3, e2, (closest_point_plane pl hf q l).1]
  simp only [plane_xy_to_xyz_eq_lift]
  rw [lift_sub_lift, normSq_liftV pl.x pl.y hf.x_unit hf.y_unit hf.xy]

/-- The vertical plane (normal in the XY plane, perpendicular to `b.v`) through the 2D line
`b`: normal `(b.v.y, -b.v.x, 0)`, `k = n · b.p`. -/
def vertPlane (b : LR2 α) : PlaneS α :=
  ⟨⟨b.v.y, -b.v.x, 0⟩, embed b.p, b.v.y * b.p.x - b.v.x * b.p.y, embed b.v, ⟨0, 0, 1⟩⟩

/-- **Intersection**: the 3D segment–plane intersection of an embedded segment `a` with the
vertical plane through the 2D line `b` is the embedding of the 2D intersection of the segment
`a` with the infinite line `b` (`intersect_line2d_infinite`) — same guard (`parallel → None`),
same parameter test, same point. -/
theorem intersect_embed (a b : LR2 α) :
    intersect_line3d_plane_s (embedSeg a) (vertPlane b) =
      (intersect_line2d_infinite_ss a b).map embed ∧
    intersect_line3d_plane_s (embedSeg a) (vertPlane b) =
      (intersect_line2d_infinite_sr a b).map embed := by
  constructor
  · unfold intersect_line3d_plane_s intersect_line2d_infinite_ss embedSeg vertPlane embed
    simp only [apply_ite (Option.map _), Option.map_none, Option.map_some]
    ring_nf
  · unfold intersect_line3d_plane_s intersect_line2d_infinite_sr embedSeg vertPlane embed
    simp only [apply_ite (Option.map _), Option.map_none, Option.map_some]
    ring_nf

/-- The same for a ray `a` (`Ray3D.intersect_plane` against `Ray2D` ∩ infinite line). -/
theorem intersect_embed_ray (a b : LR2 α) :
    intersect_line3d_plane_r (embedSeg a) (vertPlane b) =
      (intersect_line2d_infinite_rs a b).map embed ∧
    intersect_line3d_plane_r (embedSeg a) (vertPlane b) =
      (intersect_line2d_infinite_rr a b).map embed := by
  constructor
  · unfold intersect_line3d_plane_r intersect_line2d_infinite_rs embedSeg vertPlane embed
    simp only [apply_ite (Option.map _), Option.map_none, Option.map_some]
    ring_nf
  · unfold intersect_line3d_plane_r intersect_line2d_infinite_rr embedSeg vertPlane embed
    simp only [apply_ite (Option.map _), Option.map_none, Option.map_some]
    ring_nf

/-- The vertical plane through a 2D line with unit direction is a valid `Plane` with the line's
direction as x-axis, so the theorem above is about an object the library can construct. -/
theorem vertPlane_valid (b : LR2 α) (hb : V2.normSq b.v = 1) :
    C02.PlaneValid (vertPlane b) ∧ C02.OnPlane (vertPlane b) (embed b.p) := by
  simp only [V2.normSq] at hb
  refine ⟨⟨?_, ?_, ?_, ?_, ?_⟩, ?_⟩
  · simp only [vertPlane, V3.normSq]; linear_combination hb
  · simp only [vertPlane, embed, V3.normSq]; linear_combination hb
  · simp only [vertPlane, embed, V3.dot]; ring
  · apply V3.ext' <;> simp only [vertPlane, embed, V3.cross]
    · ring
    · ring
    · linear_combination -hb
  · simp only [vertPlane, embed, V3.dot]; ring
  · simp only [C02.OnPlane, vertPlane, embed, V3.dot]; ring

/-! ## 4. Arcs: `Arc3D` is the plane image of its `arc2d` -/

/-- `Arc3D.p1 / p2 / midpoint / point_at` are `plane.xy_to_xyz` of the `Arc2D` values and
`Arc3D.length` is the `Arc2D` length (pure delegation: definitional). -/
theorem arc3_delegates (M : MathOps α) (a : Arc3S α) (t : α) :
    arc3_p1 a = plane_xy_to_xyz a.plane (arc2_p1 a.arc2d) ∧
    arc3_p2 a = plane_xy_to_xyz a.plane (arc2_p2 a.arc2d) ∧
    arc3_midpoint M a = plane_xy_to_xyz a.plane (arc2_midpoint M a.arc2d) ∧
    arc3_point_at M a t = plane_xy_to_xyz a.plane (arc2_point_at M a.arc2d t) ∧
    arc3_length M a = arc2_length M a.arc2d :=
  ⟨rfl, rfl, rfl, rfl, rfl⟩

/-- `Arc3D.closest_point` is the plane image of `Arc2D.closest_point` of the plane coordinates
of the foot of the query point on the plane (pure delegation). -/
theorem arc3_closest_point_delegates (M : MathOps α) (a : Arc3S α) (q : V3 α) :
    arc3_closest_point M a q = plane_xy_to_xyz a.plane
      (arc2_closest_point M a.arc2d (plane_xyz_to_xy a.plane (plane_closest_point a.plane q))) := by
  unfold arc3_closest_point arc2_closest_point
  simp only [apply_ite (plane_xy_to_xyz a.plane)]
  rfl

/-- The centre of an `Arc3D` is the plane origin, i.e. the image of the 2D centre `(0, 0)` that
`Arc3D.__init__` gives its `arc2d`. -/
theorem arc3_center (a : Arc3S α) (hc : a.arc2d.c = ⟨0, 0⟩) :
    arc3_c a = plane_xy_to_xyz a.plane a.arc2d.c := by
  rw [hc]
  unfold arc3_c plane_xy_to_xyz
  apply V3.ext' <;> simp

/-- For an arc in the world XY plane the 3D points are the embedded 2D points. -/
theorem arc3_embed (M : MathOps α) (a2 : Arc2S α) (t : α) :
    arc3_p1 ⟨worldXY, a2⟩ = embed (arc2_p1 a2) ∧
    arc3_p2 ⟨worldXY, a2⟩ = embed (arc2_p2 a2) ∧
    arc3_midpoint M ⟨worldXY, a2⟩ = embed (arc2_midpoint M a2) ∧
    arc3_point_at M ⟨worldXY, a2⟩ t = embed (arc2_point_at M a2 t) := by
  simp only [embed_eq_plane]
  exact ⟨rfl, rfl, rfl, rfl⟩

/-! ## 5. Face normals -/

/-- `Face3D._normal_from_3pts` is the cross product of the two edge vectors. -/
theorem normal_from_3pts_eq_cross (p1 p2 p3 : V3 α) :
    face3d_normal_from_3pts p1 p2 p3 = V3.cross (V3.sub p2 p1) (V3.sub p3 p1) := by
  unfold face3d_normal_from_3pts
  apply V3.ext' <;> simp only [V3.cross, V3.sub] <;> ring

/-- Normal from three mapped points: `det (b - a) (c - a) • (x × y)` (any plane). -/
theorem normal_from_3pts_plane (pl : PlaneS α) (a b c : V2 α) :
    face3d_normal_from_3pts (plane_xy_to_xyz pl a) (plane_xy_to_xyz pl b) (plane_xy_to_xyz pl c) =
      V3.smul (V2.det (V2.sub b a) (V2.sub c a)) (V3.cross pl.x pl.y) := by
  simp only [plane_xy_to_xyz_eq_lift]
  rw [normal_from_3pts_eq_cross, cross_lift]

/-- Normal from three embedded points: `(0, 0, det (b - a) (c - a))`. -/
theorem normal_from_3pts_embed (a b c : V2 α) :
    face3d_normal_from_3pts (embed a) (embed b) (embed c) =
      ⟨0, 0, V2.det (V2.sub b a) (V2.sub c a)⟩ := by
  simp only [embed_eq_plane]
  rw [normal_from_3pts_plane]
  apply V3.ext' <;> simp [worldXY, V3.smul, V3.cross]

/-- **Summed fan normal of a planar face** (the loop `for i: n += normal_from_3pts(v0, v_i,
v_{i+1})` is hand-modelled as this fold): for a face whose vertices are the plane images of the
2D loop `c0 :: rest`, the sum is `shoelace (c0 :: rest) • (x × y)` — twice the signed 2D area
times the plane normal; its sign is the 2D orientation. -/
theorem fan_normal_plane (pl : PlaneS α) (c0 : V2 α) (rest : List (V2 α)) :
    ((rest.map (plane_xy_to_xyz pl)).zip (rest.map (plane_xy_to_xyz pl)).tail).foldl
        (fun acc p => V3.add acc (face3d_normal_from_3pts (plane_xy_to_xyz pl c0) p.1 p.2))
        ⟨0, 0, 0⟩ =
      V3.smul (shoelace (c0 :: rest)) (V3.cross pl.x pl.y) := by
  have h := newell_fan_head (plane_xy_to_xyz pl c0) (rest.map (plane_xy_to_xyz pl))
  simp only [normal_from_3pts_eq_cross]
  rw [h, ← List.map_cons]
  exact newell_planar_of (plane_xy_to_xyz pl) pl.o pl.x pl.y (fun c => rfl) (fun c => rfl)
    (fun c => rfl) (c0 :: rest)

/-- For a valid plane `x × y` is the plane normal `n`, so the summed fan normal of a planar
face is `shoelace • n`. -/
theorem cross_xy_eq_normal (pl : PlaneS α) (hv : C02.PlaneValid pl) :
    V3.cross pl.x pl.y = pl.n := by
  obtain ⟨hn, hx, hnx, hy, _⟩ := hv
  rw [hy]
  simp only [V3.normSq, V3.dot] at hn hx hnx
  apply V3.ext' <;> simp only [V3.cross]
  · linear_combination pl.n.x * hx - pl.x.x * hnx
  · linear_combination pl.n.y * hx - pl.x.y * hnx
  · linear_combination pl.n.z * hx - pl.x.z * hnx

/-! ## Non-vacuity -/

/-- A tilted plane over ℚ with orthonormal axes (so `OrthoXY` is satisfiable beyond the world
plane): `x = (3/5, 4/5, 0)`, `y = (0, 0, 1)`. -/
example : OrthoXY (⟨⟨4 / 5, -3 / 5, 0⟩, ⟨1, 2, 3⟩, -2 / 5, ⟨3 / 5, 4 / 5, 0⟩, ⟨0, 0, 1⟩⟩ : PlaneS ℚ) := by
  constructor <;> decide +kernel

/-- The diagonal hypothesis of `quad_area_plane` on the witness quad of the historical defect. -/
example : 0 ≤ V2.det (V2.sub (⟨4, 0⟩ : V2 ℚ) ⟨0, 0⟩) (V2.sub ⟨3, 2⟩ ⟨0, 0⟩) ∧
    0 ≤ V2.det (V2.sub (⟨0, 1⟩ : V2 ℚ) ⟨3, 2⟩) (V2.sub ⟨0, 0⟩ ⟨3, 2⟩) := by decide +kernel

/-- A concrete instance of `intersect_embed` with an actual intersection point. -/
example : intersect_line2d_infinite_ss (⟨⟨0, 0⟩, ⟨2, 2⟩⟩ : LR2 ℚ) ⟨⟨0, 1⟩, ⟨1, 0⟩⟩ = some ⟨1, 1⟩ := by
  decide +kernel

end Lbg.Props.C16
