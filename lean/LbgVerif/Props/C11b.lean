/-
  C11b — the COMPOSITE intersection / splitting routines (C11 for polygons, polylines, faces
  and polyfaces; last clause of C17 for `split_with_plane`).

  The subject are the literal models `Model/IsectComposite.lean` (tied to the Python code by the
  correspondence module `corr/isectcomposite.py`), which loop over the edges / faces and call the
  GENERATED kernels of `Gen/Isect2.lean`, `Gen/Isect3.lean`.  The kernel theorems of
  `Props/C11.lean` are lifted through the loops.

  Reading guide (per routine `R`):
    `R_eq_hits`       the result IS the list of kernel answers in edge order: nothing is dropped,
                      nothing is deduplicated (completeness, order);
    `R_mem_iff`       soundness + completeness: `q` is returned iff some edge meets the operand
                      transversally at `q`, inside both parameter ranges;
    `R_length`        number of results = number of edges the kernel answers on;
    `R_rotate/_reverse` invariance under the choice of start vertex / orientation;
    `polygon_*_vertex_twice`  what happens at a shared vertex: the CODE DOES NOT DEDUPLICATE — a
                      transversal hit exactly at a polygon vertex is reported by both adjacent edges.

  Scope notes.
  * "Transversal": the 2D kernels return `none` when the direction determinant is exactly zero,
    so an operand collinear with an edge contributes nothing for that edge (`Transversal2`, the
    guard the code checks).  The same for a segment lying in the cutting plane (`Crosses3`).
  * `Face3D.intersect_plane` pairs the (sorted, when more than two) hits of the cut line with the
    face polygon as they come: because hits at a vertex are doubled it can return zero-length
    segments and drop the actual chord (examples at the end; reported as a finding).  Soundness
    (every end point on both planes and on an edge) holds, completeness at vertices does not.
  * NOT covered: `Arc2D.split_line_infinite`, `Arc3D.split_with_plane`, `Arc3D.intersect_plane`,
    `Plane.intersect_arc` (their kernels are in `Props/C11.lean` §arc and `Props/C17.lean` §C).
-/
import LbgVerif.Model.IsectComposite
import LbgVerif.Lemmas.IsectComposite
import LbgVerif.Props.C02
import LbgVerif.Props.C06
import LbgVerif.Props.C11
import LbgVerif.Props.C17
import Mathlib.Tactic.Ring
import Mathlib.Tactic.Linarith
import Mathlib.Tactic.LinearCombination
import Mathlib.Algebra.Order.Field.Rat

set_option linter.unusedSectionVars false

namespace Lbg.Props.C11b
open Lbg Lbg.Gen Lbg.Model Lbg.Model.IsectComposite
open Lbg.Props.C11 (At2 OnSeg2 OnRay2 OnLine2 Transversal2 At3 OnSeg3 OnRay3 OnPlane Crosses3)
variable {α : Type} [Field α] [LinearOrder α] [IsStrictOrderedRing α]

/-! ## Predicates -/

/-- `q` lies on the `line_ray` argument within its range: a `Ray2D` (`0 ≤ t`) or a
`LineSegment2D` (`0 ≤ t ≤ 1`). -/
def OnArg2 (isRay : Bool) (lr : LR2 α) (q : V2 α) : Prop :=
  if isRay then OnRay2 lr q else OnSeg2 lr q

/-- `q` lies on the 3D `line_ray` argument within its range. -/
def OnArg3 (isRay : Bool) (lr : LR3 α) (q : V3 α) : Prop :=
  if isRay then OnRay3 lr q else OnSeg3 lr q

/-! ## The kernels the loops call -/

/-- `intersect_line2d(edge, line_ray)`: returns `q` iff edge and argument are transversal and `q`
lies on the edge (parameter in `[0,1]`) and on the argument within its range. -/
theorem kernel2_iff (isRay : Bool) (s lr : LR2 α) (q : V2 α) :
    kernel2 isRay s lr = some q ↔ Transversal2 s lr ∧ OnSeg2 s q ∧ OnArg2 isRay lr q := by
  cases isRay
  · simpa [kernel2, OnArg2] using C11.intersect_line2d_ss_iff s lr q
  · simpa [kernel2, OnArg2] using C11.intersect_line2d_sr_iff s lr q

/-- `intersect_line2d_infinite(edge, ray)`: returns `q` iff transversal, `q` on the edge
(parameter in `[0,1]`) and on the infinite carrier line of the argument.  Whether the argument
is a `Ray2D` or a `LineSegment2D` makes no difference. -/
theorem kernel2Inf_iff (isRay : Bool) (s lr : LR2 α) (q : V2 α) :
    kernel2Inf isRay s lr = some q ↔ Transversal2 s lr ∧ OnSeg2 s q ∧ OnLine2 lr q := by
  cases isRay
  · simpa [kernel2Inf] using C11.intersect_line2d_infinite_ss_iff s lr q
  · simpa [kernel2Inf] using C11.intersect_line2d_infinite_sr_iff s lr q

/-- `intersect_line3d_plane(line_ray, plane)`: returns `q` iff `n·v ≠ 0`, `q` on the argument
within its range and on the plane. -/
theorem kernel3_iff (isRay : Bool) (lr : LR3 α) (pl : PlaneS α) (q : V3 α) :
    kernel3 isRay lr pl = some q ↔ Crosses3 lr pl ∧ OnArg3 isRay lr q ∧ OnPlane pl q := by
  cases isRay
  · simpa [kernel3, OnArg3] using C11.intersect_line3d_plane_s_iff lr pl q
  · simpa [kernel3, OnArg3] using C11.intersect_line3d_plane_r_iff lr pl q

/-! ## A. The edge lists -/

/-- `Polygon2D.segments`: as many edges as vertices; edge `i` is
`LineSegment2D.from_end_points(v[i], v[(i+1) % n])`. -/
theorem polygon_edges (vs : List (V2 α)) :
    (PointInside.segments vs).length = vs.length ∧
    ∀ (i : ℕ) (h : i < vs.length),
      (PointInside.segments vs)[i]? =
        some (seg2_from_end_points vs[i] (vs[(i + 1) % vs.length]'(Nat.mod_lt _ (by omega)))) := by
  refine ⟨Lemmas.segments_length vs, fun i h => ?_⟩
  rw [List.getElem?_eq_getElem (by rw [Lemmas.segments_length]; exact h),
    Lemmas.segments_getElem vs i h]

/-- `Polyline2D.segments`: `n - 1` edges; edge `i` is `from_end_points(v[i], v[i+1])`. -/
theorem polyline2_edges (vs : List (V2 α)) :
    (polylineSegments2 vs).length = vs.length - 1 ∧
    ∀ (i : ℕ) (h : i + 1 < vs.length),
      (polylineSegments2 vs)[i]? = some (seg2_from_end_points (vs[i]'(by omega)) vs[i + 1]) := by
  refine ⟨Lemmas.polylineSegments2_length vs, fun i h => ?_⟩
  rw [List.getElem?_eq_getElem (by rw [Lemmas.polylineSegments2_length]; omega),
    Lemmas.polylineSegments2_getElem vs i h]

/-- `Polyline3D.segments`: `n - 1` edges; edge `i` is `from_end_points(v[i], v[i+1])`. -/
theorem polyline3_edges (vs : List (V3 α)) :
    (polylineSegments3 vs).length = vs.length - 1 ∧
    ∀ (i : ℕ) (h : i + 1 < vs.length),
      (polylineSegments3 vs)[i]? = some (seg3_from_end_points (vs[i]'(by omega)) vs[i + 1]) := by
  refine ⟨Lemmas.polylineSegments3_length vs, fun i h => ?_⟩
  rw [List.getElem?_eq_getElem (by rw [Lemmas.polylineSegments3_length]; omega),
    Lemmas.polylineSegments3_getElem vs i h]

/-- An edge `from_end_points(a, b)` starts at `a` and ends at `b`: a point is on it (parameter in
`[0,1]`) iff it is `a + t·(b − a)` with `0 ≤ t ≤ 1`. -/
theorem onSeg2_from_end_points (a b q : V2 α) :
    OnSeg2 (seg2_from_end_points a b) q ↔
      ∃ t, 0 ≤ t ∧ t ≤ 1 ∧ q.x = a.x + t * (b.x - a.x) ∧ q.y = a.y + t * (b.y - a.y) :=
  Iff.rfl

/-- The same in 3D. -/
theorem onSeg3_from_end_points (a b q : V3 α) :
    OnSeg3 (seg3_from_end_points a b) q ↔
      ∃ t, 0 ≤ t ∧ t ≤ 1 ∧ q.x = a.x + t * (b.x - a.x) ∧ q.y = a.y + t * (b.y - a.y) ∧
        q.z = a.z + t * (b.z - a.z) :=
  Iff.rfl

/-! ## B. `Polygon2D.intersect_line_ray` / `intersect_line_infinite` -/

/-- Completeness / order (`Polygon2D.intersect_line_ray`): the result is exactly the list of the
kernel's answers on the edges, in edge order; no hit is dropped and none is merged. -/
theorem polygon_line_ray_eq_hits (vs : List (V2 α)) (isRay : Bool) (lr : LR2 α) :
    polygonIntersectLineRay vs isRay lr =
      (PointInside.segments vs).filterMap (fun s => kernel2 isRay s lr) :=
  Lemmas.collect_eq_filterMap _ _

/-- Soundness and completeness (`Polygon2D.intersect_line_ray`): `q` is returned iff some edge of
the polygon is transversal to the argument and `q` lies on that edge (parameter in `[0,1]`) and on
the argument inside its range. -/
theorem polygon_line_ray_mem_iff (vs : List (V2 α)) (isRay : Bool) (lr : LR2 α) (q : V2 α) :
    q ∈ polygonIntersectLineRay vs isRay lr ↔
      ∃ s ∈ PointInside.segments vs, Transversal2 s lr ∧ OnSeg2 s q ∧ OnArg2 isRay lr q := by
  unfold polygonIntersectLineRay
  rw [Lemmas.mem_collect]
  simp only [kernel2_iff]

/-- Soundness (`Polygon2D.intersect_line_ray`): every returned point lies on an edge of the polygon
and on the argument, inside both parameter ranges. -/
theorem polygon_line_ray_sound (vs : List (V2 α)) (isRay : Bool) (lr : LR2 α) (q : V2 α)
    (h : q ∈ polygonIntersectLineRay vs isRay lr) :
    (∃ s ∈ PointInside.segments vs, OnSeg2 s q) ∧ OnArg2 isRay lr q := by
  obtain ⟨s, hs, _, h1, h2⟩ := (polygon_line_ray_mem_iff vs isRay lr q).mp h
  exact ⟨⟨s, hs, h1⟩, h2⟩

/-- Completeness (`Polygon2D.intersect_line_ray`): a transversal crossing of an edge inside both
ranges is returned. -/
theorem polygon_line_ray_complete (vs : List (V2 α)) (isRay : Bool) (lr : LR2 α) (q : V2 α)
    (s : LR2 α) (hs : s ∈ PointInside.segments vs) (ht : Transversal2 s lr) (h1 : OnSeg2 s q)
    (h2 : OnArg2 isRay lr q) : q ∈ polygonIntersectLineRay vs isRay lr :=
  (polygon_line_ray_mem_iff vs isRay lr q).mpr ⟨s, hs, ht, h1, h2⟩

/-- Number of results (`Polygon2D.intersect_line_ray`) = number of edges crossed. -/
theorem polygon_line_ray_length (vs : List (V2 α)) (isRay : Bool) (lr : LR2 α) :
    (polygonIntersectLineRay vs isRay lr).length =
      (PointInside.segments vs).countP (fun s => (kernel2 isRay s lr).isSome) :=
  Lemmas.collect_length _ _

/-- Invariance (`Polygon2D.intersect_line_ray`): starting the vertex list at another vertex
rotates the result (same points, same cyclic order). -/
theorem polygon_line_ray_rotate (vs : List (V2 α)) (n : ℕ) (isRay : Bool) (lr : LR2 α) :
    (polygonIntersectLineRay (vs.rotate n) isRay lr).IsRotated
      (polygonIntersectLineRay vs isRay lr) := by
  unfold polygonIntersectLineRay
  rw [Lemmas.segments_rotate]
  exact Lemmas.collect_rotate _ _ _

/-- … in particular the result is a permutation. -/
theorem polygon_line_ray_rotate_perm (vs : List (V2 α)) (n : ℕ) (isRay : Bool) (lr : LR2 α) :
    (polygonIntersectLineRay (vs.rotate n) isRay lr).Perm (polygonIntersectLineRay vs isRay lr) :=
  (polygon_line_ray_rotate vs n isRay lr).perm

/-- Invariance (`Polygon2D.intersect_line_ray`): reversing the vertex order permutes the result. -/
theorem polygon_line_ray_reverse (vs : List (V2 α)) (isRay : Bool) (lr : LR2 α) :
    (polygonIntersectLineRay vs.reverse isRay lr).Perm (polygonIntersectLineRay vs isRay lr) := by
  unfold polygonIntersectLineRay
  refine (Lemmas.collect_perm (Lemmas.segments_reverse_perm vs)).trans ?_
  rw [Lemmas.collect_map]
  have e : (fun q : V2 α × V2 α => kernel2 isRay (seg2_from_end_points q.2 q.1) lr) =
      fun q => kernel2 isRay (seg2_from_end_points q.1 q.2) lr :=
    funext fun q => Lemmas.kernel2_flip isRay q.1 q.2 lr
  rw [e, ← Lemmas.collect_map (fun q : V2 α × V2 α => seg2_from_end_points q.1 q.2)
    (fun s => kernel2 isRay s lr)]
  exact (Lemmas.collect_perm (Lemmas.segments_perm_cyclicPairs vs)).symm

/-- Completeness / order (`Polygon2D.intersect_line_infinite`). -/
theorem polygon_line_infinite_eq_hits (vs : List (V2 α)) (isRay : Bool) (lr : LR2 α) :
    polygonIntersectLineInfinite vs isRay lr =
      (PointInside.segments vs).filterMap (fun s => kernel2Inf isRay s lr) :=
  Lemmas.collect_eq_filterMap _ _

/-- Soundness and completeness (`Polygon2D.intersect_line_infinite`): `q` is returned iff some edge
is transversal to the line and `q` lies on that edge and on the infinite carrier line. -/
theorem polygon_line_infinite_mem_iff (vs : List (V2 α)) (isRay : Bool) (lr : LR2 α) (q : V2 α) :
    q ∈ polygonIntersectLineInfinite vs isRay lr ↔
      ∃ s ∈ PointInside.segments vs, Transversal2 s lr ∧ OnSeg2 s q ∧ OnLine2 lr q := by
  unfold polygonIntersectLineInfinite
  rw [Lemmas.mem_collect]
  simp only [kernel2Inf_iff]

/-- Number of results (`Polygon2D.intersect_line_infinite`). -/
theorem polygon_line_infinite_length (vs : List (V2 α)) (isRay : Bool) (lr : LR2 α) :
    (polygonIntersectLineInfinite vs isRay lr).length =
      (PointInside.segments vs).countP (fun s => (kernel2Inf isRay s lr).isSome) :=
  Lemmas.collect_length _ _

/-- The kind of the argument is irrelevant for `intersect_line_infinite`. -/
theorem polygon_line_infinite_kind (vs : List (V2 α)) (lr : LR2 α) :
    polygonIntersectLineInfinite vs true lr = polygonIntersectLineInfinite vs false lr := by
  unfold polygonIntersectLineInfinite
  exact Lemmas.collect_congr fun s _ => by rw [Lemmas.kernel2Inf_eq, Lemmas.kernel2Inf_eq]

/-- Invariance (`Polygon2D.intersect_line_infinite`): another start vertex rotates the result. -/
theorem polygon_line_infinite_rotate (vs : List (V2 α)) (n : ℕ) (isRay : Bool) (lr : LR2 α) :
    (polygonIntersectLineInfinite (vs.rotate n) isRay lr).IsRotated
      (polygonIntersectLineInfinite vs isRay lr) := by
  unfold polygonIntersectLineInfinite
  rw [Lemmas.segments_rotate]
  exact Lemmas.collect_rotate _ _ _

/-- Invariance (`Polygon2D.intersect_line_infinite`): reversing the vertex order permutes the
result. -/
theorem polygon_line_infinite_reverse (vs : List (V2 α)) (isRay : Bool) (lr : LR2 α) :
    (polygonIntersectLineInfinite vs.reverse isRay lr).Perm
      (polygonIntersectLineInfinite vs isRay lr) := by
  unfold polygonIntersectLineInfinite
  refine (Lemmas.collect_perm (Lemmas.segments_reverse_perm vs)).trans ?_
  rw [Lemmas.collect_map]
  have e : (fun q : V2 α × V2 α => kernel2Inf isRay (seg2_from_end_points q.2 q.1) lr) =
      fun q => kernel2Inf isRay (seg2_from_end_points q.1 q.2) lr :=
    funext fun q => Lemmas.kernel2Inf_flip isRay q.1 q.2 lr
  rw [e, ← Lemmas.collect_map (fun q : V2 α × V2 α => seg2_from_end_points q.1 q.2)
    (fun s => kernel2Inf isRay s lr)]
  exact (Lemmas.collect_perm (Lemmas.segments_perm_cyclicPairs vs)).symm

/-- A vertex `b` hit transversally is reported by BOTH adjacent edges: the kernel answers `b` on
the edge ending at `b` (parameter 1) and on the edge starting at `b` (parameter 0). -/
theorem vertex_hit_both_edges (isRay : Bool) (a b c : V2 α) (lr : LR2 α)
    (hb : OnArg2 isRay lr b)
    (h1 : Transversal2 (seg2_from_end_points a b) lr)
    (h2 : Transversal2 (seg2_from_end_points b c) lr) :
    kernel2 isRay (seg2_from_end_points a b) lr = some b ∧
      kernel2 isRay (seg2_from_end_points b c) lr = some b := by
  constructor
  · rw [kernel2_iff]
    exact ⟨h1, ⟨1, zero_le_one, le_refl _, by simp [seg2_from_end_points],
      by simp [seg2_from_end_points]⟩, hb⟩
  · rw [kernel2_iff]
    exact ⟨h2, ⟨0, le_refl _, zero_le_one, by simp [seg2_from_end_points],
      by simp [seg2_from_end_points]⟩, hb⟩

/-- Hit exactly at a shared vertex (`Polygon2D.intersect_line_ray`): THE CODE DOES NOT
DEDUPLICATE.  If the argument passes through the vertex `v[i]`, `i = (j+1) % n`, transversally to
both adjacent edges, the point `v[i]` occurs at least twice in the result. -/
theorem polygon_line_ray_vertex_twice (vs : List (V2 α)) (hn : 2 ≤ vs.length) (j : ℕ)
    (hj : j < vs.length) (isRay : Bool) (lr : LR2 α)
    (hon : OnArg2 isRay lr (vs[(j + 1) % vs.length]'(Nat.mod_lt _ (by omega))))
    (h1 : Transversal2 (seg2_from_end_points vs[j]
      (vs[(j + 1) % vs.length]'(Nat.mod_lt _ (by omega)))) lr)
    (h2 : Transversal2 (seg2_from_end_points (vs[(j + 1) % vs.length]'(Nat.mod_lt _ (by omega)))
      (vs[((j + 1) % vs.length + 1) % vs.length]'(Nat.mod_lt _ (by omega)))) lr) :
    2 ≤ (polygonIntersectLineRay vs isRay lr).count
      (vs[(j + 1) % vs.length]'(Nat.mod_lt _ (by omega))) := by
  have hi : (j + 1) % vs.length < vs.length := Nat.mod_lt _ (by omega)
  obtain ⟨k1, k2⟩ := vertex_hit_both_edges isRay _ _ _ lr hon h1 h2
  unfold polygonIntersectLineRay
  rw [Lemmas.collect_count]
  have hlen := Lemmas.segments_length vs
  have e1 : (fun s => decide (kernel2 isRay s lr = some (vs[(j + 1) % vs.length]'hi)))
      ((PointInside.segments vs)[j]'(by omega)) = true := by
    rw [Lemmas.segments_getElem vs j hj]; exact decide_eq_true k1
  have e2 : (fun s => decide (kernel2 isRay s lr = some (vs[(j + 1) % vs.length]'hi)))
      ((PointInside.segments vs)[(j + 1) % vs.length]'(by omega)) = true := by
    rw [Lemmas.segments_getElem vs _ hi]; exact decide_eq_true k2
  have hne : j ≠ (j + 1) % vs.length := by
    intro h
    rcases Nat.lt_or_ge (j + 1) vs.length with h' | h'
    · rw [Nat.mod_eq_of_lt h'] at h; omega
    · have : j + 1 = vs.length := by omega
      rw [this, Nat.mod_self] at h; omega
  rcases Nat.lt_or_gt_of_ne hne with h | h
  · exact Lemmas.two_le_countP h (by omega) e1 e2
  · exact Lemmas.two_le_countP h (by omega) e2 e1

/-! ## C. `Polyline2D.intersect_line_ray` / `intersect_line_infinite` -/

/-- Completeness / order (`Polyline2D.intersect_line_ray`). -/
theorem polyline2_line_ray_eq_hits (vs : List (V2 α)) (isRay : Bool) (lr : LR2 α) :
    polyline2IntersectLineRay vs isRay lr =
      (polylineSegments2 vs).filterMap (fun s => kernel2 isRay s lr) :=
  Lemmas.collect_eq_filterMap _ _

/-- Soundness and completeness (`Polyline2D.intersect_line_ray`). -/
theorem polyline2_line_ray_mem_iff (vs : List (V2 α)) (isRay : Bool) (lr : LR2 α) (q : V2 α) :
    q ∈ polyline2IntersectLineRay vs isRay lr ↔
      ∃ s ∈ polylineSegments2 vs, Transversal2 s lr ∧ OnSeg2 s q ∧ OnArg2 isRay lr q := by
  unfold polyline2IntersectLineRay
  rw [Lemmas.mem_collect]
  simp only [kernel2_iff]

/-- Number of results (`Polyline2D.intersect_line_ray`). -/
theorem polyline2_line_ray_length (vs : List (V2 α)) (isRay : Bool) (lr : LR2 α) :
    (polyline2IntersectLineRay vs isRay lr).length =
      (polylineSegments2 vs).countP (fun s => (kernel2 isRay s lr).isSome) :=
  Lemmas.collect_length _ _

/-- Invariance (`Polyline2D.intersect_line_ray`): the reversed polyline gives the same points in
reverse order. -/
theorem polyline2_line_ray_reverse (vs : List (V2 α)) (isRay : Bool) (lr : LR2 α) :
    polyline2IntersectLineRay vs.reverse isRay lr =
      (polyline2IntersectLineRay vs isRay lr).reverse := by
  unfold polyline2IntersectLineRay
  rw [Lemmas.polylineSegments2_reverse, Lemmas.collect_reverse, Lemmas.collect_map]
  have e : (fun q : V2 α × V2 α => kernel2 isRay (seg2_from_end_points q.2 q.1) lr) =
      fun q => kernel2 isRay (seg2_from_end_points q.1 q.2) lr :=
    funext fun q => Lemmas.kernel2_flip isRay q.1 q.2 lr
  rw [e, ← Lemmas.collect_map (fun q : V2 α × V2 α => seg2_from_end_points q.1 q.2)
    (fun s => kernel2 isRay s lr)]
  rfl

/-- Completeness / order (`Polyline2D.intersect_line_infinite`). -/
theorem polyline2_line_infinite_eq_hits (vs : List (V2 α)) (isRay : Bool) (lr : LR2 α) :
    polyline2IntersectLineInfinite vs isRay lr =
      (polylineSegments2 vs).filterMap (fun s => kernel2Inf isRay s lr) :=
  Lemmas.collect_eq_filterMap _ _

/-- Soundness and completeness (`Polyline2D.intersect_line_infinite`). -/
theorem polyline2_line_infinite_mem_iff (vs : List (V2 α)) (isRay : Bool) (lr : LR2 α)
    (q : V2 α) :
    q ∈ polyline2IntersectLineInfinite vs isRay lr ↔
      ∃ s ∈ polylineSegments2 vs, Transversal2 s lr ∧ OnSeg2 s q ∧ OnLine2 lr q := by
  unfold polyline2IntersectLineInfinite
  rw [Lemmas.mem_collect]
  simp only [kernel2Inf_iff]

/-- Number of results (`Polyline2D.intersect_line_infinite`). -/
theorem polyline2_line_infinite_length (vs : List (V2 α)) (isRay : Bool) (lr : LR2 α) :
    (polyline2IntersectLineInfinite vs isRay lr).length =
      (polylineSegments2 vs).countP (fun s => (kernel2Inf isRay s lr).isSome) :=
  Lemmas.collect_length _ _

/-- Invariance (`Polyline2D.intersect_line_infinite`): reversed polyline, reversed result. -/
theorem polyline2_line_infinite_reverse (vs : List (V2 α)) (isRay : Bool) (lr : LR2 α) :
    polyline2IntersectLineInfinite vs.reverse isRay lr =
      (polyline2IntersectLineInfinite vs isRay lr).reverse := by
  unfold polyline2IntersectLineInfinite
  rw [Lemmas.polylineSegments2_reverse, Lemmas.collect_reverse, Lemmas.collect_map]
  have e : (fun q : V2 α × V2 α => kernel2Inf isRay (seg2_from_end_points q.2 q.1) lr) =
      fun q => kernel2Inf isRay (seg2_from_end_points q.1 q.2) lr :=
    funext fun q => Lemmas.kernel2Inf_flip isRay q.1 q.2 lr
  rw [e, ← Lemmas.collect_map (fun q : V2 α × V2 α => seg2_from_end_points q.1 q.2)
    (fun s => kernel2Inf isRay s lr)]
  rfl

/-! ## D. `Polyline3D.intersect_plane` -/

/-- Completeness / order (`Polyline3D.intersect_plane`). -/
theorem polyline3_plane_eq_hits (vs : List (V3 α)) (pl : PlaneS α) :
    polyline3IntersectPlane vs pl =
      (polylineSegments3 vs).filterMap (fun s => intersect_line3d_plane_s s pl) :=
  Lemmas.collect_eq_filterMap _ _

/-- Soundness and completeness (`Polyline3D.intersect_plane`): `q` is returned iff some edge is
not parallel to the plane (`n·v ≠ 0`) and `q` lies on that edge (parameter in `[0,1]`) and on the
plane. -/
theorem polyline3_plane_mem_iff (vs : List (V3 α)) (pl : PlaneS α) (q : V3 α) :
    q ∈ polyline3IntersectPlane vs pl ↔
      ∃ s ∈ polylineSegments3 vs, Crosses3 s pl ∧ OnSeg3 s q ∧ OnPlane pl q := by
  unfold polyline3IntersectPlane
  rw [Lemmas.mem_collect]
  simp only [C11.intersect_line3d_plane_s_iff]

/-- Number of results (`Polyline3D.intersect_plane`). -/
theorem polyline3_plane_length (vs : List (V3 α)) (pl : PlaneS α) :
    (polyline3IntersectPlane vs pl).length =
      (polylineSegments3 vs).countP (fun s => (intersect_line3d_plane_s s pl).isSome) :=
  Lemmas.collect_length _ _

/-- Invariance (`Polyline3D.intersect_plane`): reversed polyline, reversed result. -/
theorem polyline3_plane_reverse (vs : List (V3 α)) (pl : PlaneS α) :
    polyline3IntersectPlane vs.reverse pl = (polyline3IntersectPlane vs pl).reverse := by
  unfold polyline3IntersectPlane
  rw [Lemmas.polylineSegments3_reverse, Lemmas.collect_reverse, Lemmas.collect_map]
  have e : (fun q : V3 α × V3 α =>
      intersect_line3d_plane_s (seg3_from_end_points q.2 q.1) pl) =
      fun q => intersect_line3d_plane_s (seg3_from_end_points q.1 q.2) pl :=
    funext fun q => by
      rw [Lemmas.intersect_line3d_plane_s_eq, Lemmas.intersect_line3d_plane_s_eq,
        Lemmas.isectLP_flip]
  rw [e, ← Lemmas.collect_map (fun q : V3 α × V3 α => seg3_from_end_points q.1 q.2)
    (fun s => intersect_line3d_plane_s s pl)]
  rfl

/-- Invariance (`Polyline3D.intersect_plane`): the orientation of the plane (normal `n` and
constant `k` both negated) does not matter. -/
theorem polyline3_plane_flip_plane (vs : List (V3 α)) (pl pl' : PlaneS α)
    (hn : pl'.n = V3.neg pl.n) (hk : pl'.k = - pl.k) :
    polyline3IntersectPlane vs pl' = polyline3IntersectPlane vs pl := by
  unfold polyline3IntersectPlane
  refine Lemmas.collect_congr fun s _ => ?_
  ext q
  rw [C11.intersect_line3d_plane_s_iff, C11.intersect_line3d_plane_s_iff]
  simp only [Crosses3, OnPlane, hn, hk, V3.neg]
  constructor
  · rintro ⟨h1, h2, h3⟩
    exact ⟨fun h => h1 (by linear_combination (-1 : α) * h), h2,
      by linear_combination (-1 : α) * h3⟩
  · rintro ⟨h1, h2, h3⟩
    exact ⟨fun h => h1 (by linear_combination (-1 : α) * h), h2,
      by linear_combination (-1 : α) * h3⟩

/-! ## E. `Face3D.intersect_line_ray`, `Polyface3D.intersect_line_ray` -/

/-- `Face3D.intersect_line_ray` returns `p` iff the argument hits the face's plane at `p`
(`n·v ≠ 0`, `p` on the argument within its range, `p` on the plane) AND the containment test
`polygon2d.is_point_inside_bound_rect` accepts the plane coordinates of `p`. -/
theorem face_line_ray_iff (pl : PlaneS α) (poly2 : List (V2 α)) (isRay : Bool) (lr : LR3 α)
    (tv : V2 α) (p : V3 α) :
    faceIntersectLineRayP pl poly2 isRay lr tv = some p ↔
      (Crosses3 lr pl ∧ OnArg3 isRay lr p ∧ OnPlane pl p) ∧
        PointInside.isPointInsideBoundRect poly2 (plane_xyz_to_xy pl p) tv = true := by
  rw [← kernel3_iff]
  unfold faceIntersectLineRayP
  cases h : kernel3 isRay lr pl with
  | none => simp
  | some p' =>
    simp only [Option.some.injEq]
    split_ifs with hin
    · constructor
      · rintro h'; cases Option.some.inj h'; exact ⟨rfl, hin⟩
      · rintro ⟨rfl, _⟩; rfl
    · constructor
      · intro h'; exact absurd h' (by simp)
      · rintro ⟨rfl, h2⟩; exact absurd h2 hin

/-- Soundness (`Face3D.intersect_line_ray`): the returned point lies on the face's plane and on
the ray / segment inside its parameter range. -/
theorem face_line_ray_sound (pl : PlaneS α) (poly2 : List (V2 α)) (isRay : Bool) (lr : LR3 α)
    (tv : V2 α) (p : V3 α) (h : faceIntersectLineRayP pl poly2 isRay lr tv = some p) :
    OnPlane pl p ∧ OnArg3 isRay lr p :=
  let ⟨⟨_, h2, h3⟩, _⟩ := (face_line_ray_iff pl poly2 isRay lr tv p).mp h
  ⟨h3, h2⟩

/-- Completeness (`Face3D.intersect_line_ray`): a transversal hit of the plane inside the range,
whose plane coordinates the containment test accepts, is returned (and it is the only candidate:
the plane hit is unique). -/
theorem face_line_ray_complete (pl : PlaneS α) (poly2 : List (V2 α)) (isRay : Bool) (lr : LR3 α)
    (tv : V2 α) (p : V3 α) (hc : Crosses3 lr pl) (h1 : OnArg3 isRay lr p) (h2 : OnPlane pl p)
    (hin : PointInside.isPointInsideBoundRect poly2 (plane_xyz_to_xy pl p) tv = true) :
    faceIntersectLineRayP pl poly2 isRay lr tv = some p :=
  (face_line_ray_iff pl poly2 isRay lr tv p).mpr ⟨⟨hc, h1, h2⟩, hin⟩

/-- `None` (`Face3D.intersect_line_ray`): exactly when there is no plane hit inside the range, or
the containment test rejects the hit. -/
theorem face_line_ray_none_iff (pl : PlaneS α) (poly2 : List (V2 α)) (isRay : Bool) (lr : LR3 α)
    (tv : V2 α) :
    faceIntersectLineRayP pl poly2 isRay lr tv = none ↔
      ∀ p, Crosses3 lr pl → OnArg3 isRay lr p → OnPlane pl p →
        PointInside.isPointInsideBoundRect poly2 (plane_xyz_to_xy pl p) tv = false := by
  rw [Option.eq_none_iff_forall_ne_some]
  constructor
  · intro h p hc h1 h2
    by_contra hin
    exact h p (face_line_ray_complete pl poly2 isRay lr tv p hc h1 h2 (by simpa using hin))
  · intro h p hp
    obtain ⟨⟨hc, h1, h2⟩, hin⟩ := (face_line_ray_iff pl poly2 isRay lr tv p).mp hp
    rw [h p hc h1 h2] at hin
    exact absurd hin (by simp)

/-- A face without holes: `polygon2d` is the image of `Face3D.vertices` under `xyz_to_xy`. -/
theorem face_line_ray_holeless (pl : PlaneS α) (vs3 : List (V3 α)) (isRay : Bool) (lr : LR3 α)
    (tv : V2 α) :
    faceIntersectLineRay pl vs3 isRay lr tv =
      faceIntersectLineRayP pl (vs3.map (plane_xyz_to_xy pl)) isRay lr tv := rfl

/-- Completeness / order (`Polyface3D.intersect_line_ray`): the result is the list of the faces'
answers in face order; a point on an edge shared by two faces that both accept it is reported
once per face (no deduplication). -/
theorem polyface_line_ray_eq_hits (faces : List (PlaneS α × List (V2 α))) (isRay : Bool)
    (lr : LR3 α) (tv : V2 α) :
    polyfaceIntersectLineRay faces isRay lr tv =
      faces.filterMap (fun f => faceIntersectLineRayP f.1 f.2 isRay lr tv) :=
  Lemmas.collect_eq_filterMap _ _

/-- Soundness and completeness (`Polyface3D.intersect_line_ray`): `q` is returned iff some face's
plane is hit at `q` inside the range and that face's containment test accepts `q`. -/
theorem polyface_line_ray_mem_iff (faces : List (PlaneS α × List (V2 α))) (isRay : Bool)
    (lr : LR3 α) (tv : V2 α) (q : V3 α) :
    q ∈ polyfaceIntersectLineRay faces isRay lr tv ↔
      ∃ f ∈ faces, (Crosses3 lr f.1 ∧ OnArg3 isRay lr q ∧ OnPlane f.1 q) ∧
        PointInside.isPointInsideBoundRect f.2 (plane_xyz_to_xy f.1 q) tv = true := by
  unfold polyfaceIntersectLineRay
  rw [Lemmas.mem_collect]
  simp only [face_line_ray_iff]

/-- Every point returned by `Polyface3D.intersect_line_ray` lies on the argument. -/
theorem polyface_line_ray_sound (faces : List (PlaneS α × List (V2 α))) (isRay : Bool)
    (lr : LR3 α) (tv : V2 α) (q : V3 α) (h : q ∈ polyfaceIntersectLineRay faces isRay lr tv) :
    OnArg3 isRay lr q ∧ ∃ f ∈ faces, OnPlane f.1 q := by
  obtain ⟨f, hf, ⟨_, h1, h2⟩, _⟩ := (polyface_line_ray_mem_iff faces isRay lr tv q).mp h
  exact ⟨h1, f, hf, h2⟩

/-- Invariance (`Polyface3D.intersect_line_ray`): the order of the faces only permutes the
result. -/
theorem polyface_line_ray_perm (faces faces' : List (PlaneS α × List (V2 α)))
    (hp : faces.Perm faces') (isRay : Bool) (lr : LR3 α) (tv : V2 α) :
    (polyfaceIntersectLineRay faces isRay lr tv).Perm
      (polyfaceIntersectLineRay faces' isRay lr tv) :=
  Lemmas.collect_perm hp

/-! ## F. `Face3D.intersect_plane`, `Polyface3D.intersect_plane` -/

/-- Structure of `Face3D.intersect_plane`: `None` if the planes are parallel
(`intersect_plane_plane` returns nothing, see `C11.intersect_plane_plane_none_iff`) or the cut line
meets no edge; otherwise the hits of the cut line with the polygon (all of them, hits at vertices
doubled, `polygon_line_infinite_eq_hits`), sorted along the line when there are more than two,
lifted to 3D and paired up AS THEY COME: `(h0,h1), (h2,h3), …` (a trailing odd hit is dropped). -/
theorem face_plane_eq (pl : PlaneS α) (poly2 : List (V2 α)) (other : PlaneS α) :
    faceIntersectPlaneP pl poly2 other =
      match intersect_plane_plane pl other with
      | none => none
      | some (p, v) =>
        let hits := polygonIntersectLineInfinite poly2 true (faceCutRay pl p v)
        if hits = [] then none
        else some (pairUp ((sortIfMany (faceCutRay pl p v) hits).map (plane_xy_to_xyz pl))) := by
  unfold faceIntersectPlaneP
  cases intersect_plane_plane pl other with
  | none => rfl
  | some pv =>
    obtain ⟨p, v⟩ := pv
    simp only []
    by_cases h : polygonIntersectLineInfinite poly2 true (faceCutRay pl p v) = []
    · simp [h]
    · have : (polygonIntersectLineInfinite poly2 true (faceCutRay pl p v)).length ≠ 0 := by
        simpa using h
      simp [h, this]

/-- Number of segments (`Face3D.intersect_plane`): half the number of hits (rounded down). -/
theorem face_plane_count (pl : PlaneS α) (poly2 : List (V2 α)) (other : PlaneS α)
    (p v : V3 α) (hpv : intersect_plane_plane pl other = some (p, v)) (segs : List (LR3 α))
    (h : faceIntersectPlaneP pl poly2 other = some segs) :
    segs.length = (polygonIntersectLineInfinite poly2 true (faceCutRay pl p v)).length / 2 := by
  rw [face_plane_eq, hpv] at h
  simp only [] at h
  split_ifs at h with h0
  cases Option.some.inj h
  rw [Lemmas.pairUp_length, List.length_map, (Lemmas.sortIfMany_perm _ _).length_eq]

/-- With more than two hits the lifted hits are ordered along the cut line before pairing. -/
theorem face_plane_sorted (ray : LR2 α) (pts : List (V2 α)) (h : 2 < pts.length) :
    (sortIfMany ray pts).Pairwise (fun a b => cutKey ray a ≤ cutKey ray b) ∧
      (sortIfMany ray pts).Perm pts :=
  ⟨Lemmas.sortIfMany_sorted ray pts h, Lemmas.sortIfMany_perm ray pts⟩

/-- Soundness (`Face3D.intersect_plane`), for a face whose plane is a valid frame (unit normal,
orthonormal axes, `k = n·o`: what `Plane.__init__` builds, `C06.plane_init_valid`): both end
points of every returned segment lie on the face's plane, on the cutting plane, and — in plane
coordinates — on an edge of the face polygon (parameter in `[0,1]`). -/
theorem face_plane_sound {pl : PlaneS α} (hv : C02.PlaneValid pl) (poly2 : List (V2 α))
    (other : PlaneS α) (segs : List (LR3 α))
    (h : faceIntersectPlaneP pl poly2 other = some segs) (s : LR3 α) (hs : s ∈ segs)
    (e : V3 α) (he : e = s.p ∨ e = seg3_p2 s) :
    OnPlane pl e ∧ OnPlane other e ∧
      ∃ edge ∈ PointInside.segments poly2, OnSeg2 edge (plane_xyz_to_xy pl e) := by
  rw [face_plane_eq] at h
  cases hpv : intersect_plane_plane pl other with
  | none => rw [hpv] at h; exact absurd h (by simp)
  | some pv =>
    obtain ⟨p, v⟩ := pv
    rw [hpv] at h
    simp only [] at h
    split_ifs at h with h0
    cases Option.some.inj h
    obtain ⟨hp1, hp2, hv1, hv2, _, _⟩ := C11.intersect_plane_plane_sound pl other p v hpv
    -- the end point is the lift of a hit
    obtain ⟨a, ha, b, hb, rfl⟩ := Lemmas.mem_pairUp hs
    have hab : e = a ∨ e = b := by
      rcases he with rfl | rfl
      · left; rw [Lemmas.seg3_from_end_points_eq]
      · right; exact Lemmas.seg3_p2_from_end_points a b
    have hmem : e ∈ (sortIfMany (faceCutRay pl p v)
        (polygonIntersectLineInfinite poly2 true (faceCutRay pl p v))).map (plane_xy_to_xyz pl) := by
      rcases hab with rfl | rfl <;> assumption
    obtain ⟨hq, hq1, rfl⟩ := List.mem_map.mp hmem
    have hq2 : hq ∈ polygonIntersectLineInfinite poly2 true (faceCutRay pl p v) :=
      (Lemmas.sortIfMany_perm _ _).mem_iff.mp hq1
    obtain ⟨edge, hedge, _, hon, ⟨t, hx, hy⟩⟩ :=
      (polygon_line_infinite_mem_iff poly2 true _ hq).mp hq2
    -- the hit is the projection of the point `w = p + t·v` of the 3D cut line
    have hw : C02.OnPlane pl ⟨p.x + t * v.x, p.y + t * v.y, p.z + t * v.z⟩ := by
      simp only [C02.OnPlane, V3.dot, OnPlane] at *
      linear_combination hp1 + t * hv1
    have e1 : hq = plane_xyz_to_xy pl ⟨p.x + t * v.x, p.y + t * v.y, p.z + t * v.z⟩ := by
      simp only [faceCutRay, plane_xyz_to_xy, V3.add, V2.sub] at hx hy
      ext
      · simp only [plane_xyz_to_xy]; linear_combination hx
      · simp only [plane_xyz_to_xy]; linear_combination hy
    have e2 : plane_xy_to_xyz pl hq = ⟨p.x + t * v.x, p.y + t * v.y, p.z + t * v.z⟩ := by
      rw [e1]; exact C06.plane_xyz_roundtrip hv _ hw
    refine ⟨?_, ?_, edge, hedge, ?_⟩
    · rw [e2]; simpa only [C02.OnPlane, V3.dot, OnPlane] using hw
    · rw [e2]
      simp only [OnPlane, V3.dot] at *
      linear_combination hp2 + t * hv2
    · rw [C06.plane_xy_roundtrip hv]; exact hon

/-- A face without holes: `polygon2d` is the image of `Face3D.vertices` under `xyz_to_xy`. -/
theorem face_plane_holeless (pl : PlaneS α) (vs3 : List (V3 α)) (other : PlaneS α) :
    faceIntersectPlane pl vs3 other =
      faceIntersectPlaneP pl (vs3.map (plane_xyz_to_xy pl)) other := rfl

/-- `Polyface3D.intersect_plane`: the concatenation of the faces' segment lists in face order
(faces answering `None` contribute nothing). -/
theorem polyface_plane_eq (faces : List (PlaneS α × List (V2 α))) (other : PlaneS α) :
    polyfaceIntersectPlane faces other =
      (faces.filterMap (fun f => faceIntersectPlaneP f.1 f.2 other)).flatten := by
  unfold polyfaceIntersectPlane
  induction faces using List.reverseRecOn with
  | nil => rfl
  | append_singleton l a ih =>
    rw [List.foldl_append, ih]
    simp only [List.foldl_cons, List.foldl_nil, List.filterMap_append, List.flatten_append]
    cases h : faceIntersectPlaneP a.1 a.2 other <;> simp [h]

/-- Soundness and completeness w.r.t. the faces (`Polyface3D.intersect_plane`): a segment is
returned iff some face returns it. -/
theorem polyface_plane_mem_iff (faces : List (PlaneS α × List (V2 α))) (other : PlaneS α)
    (s : LR3 α) :
    s ∈ polyfaceIntersectPlane faces other ↔
      ∃ f ∈ faces, ∃ segs, faceIntersectPlaneP f.1 f.2 other = some segs ∧ s ∈ segs := by
  rw [polyface_plane_eq, List.mem_flatten]
  constructor
  · rintro ⟨segs, hsegs, hs⟩
    obtain ⟨f, hf, e⟩ := List.mem_filterMap.mp hsegs
    exact ⟨f, hf, segs, e, hs⟩
  · rintro ⟨f, hf, segs, e, hs⟩
    exact ⟨segs, List.mem_filterMap.mpr ⟨f, hf, e⟩, hs⟩

/-- Soundness (`Polyface3D.intersect_plane`) when every face plane is a valid frame: both ends
of every returned segment lie on the cutting plane and on (the plane and an edge of) a face. -/
theorem polyface_plane_sound (faces : List (PlaneS α × List (V2 α))) (other : PlaneS α)
    (hv : ∀ f ∈ faces, C02.PlaneValid f.1) (s : LR3 α)
    (hs : s ∈ polyfaceIntersectPlane faces other) (e : V3 α) (he : e = s.p ∨ e = seg3_p2 s) :
    OnPlane other e ∧ ∃ f ∈ faces, OnPlane f.1 e ∧
      ∃ edge ∈ PointInside.segments f.2, OnSeg2 edge (plane_xyz_to_xy f.1 e) := by
  obtain ⟨f, hf, segs, hsegs, hmem⟩ := (polyface_plane_mem_iff faces other s).mp hs
  obtain ⟨h1, h2, h3⟩ := face_plane_sound (hv f hf) f.2 other segs hsegs s hmem e he
  exact ⟨h2, f, hf, h1, h3⟩

/-! ## G. Splitting (`C17`, last clause): `LineSegment3D.split_with_plane`,
`Polyline3D.split_with_plane` -/

/-- The vertices of a piece: the two ends of a `LineSegment3D`, the vertex list of a
`Polyline3D`. -/
def pieceVerts : Sum (LR3 α) (List (V3 α)) → List (V3 α)
  | .inl s => [s.p, seg3_p2 s]
  | .inr l => l

/-- `LineSegment3D.length` / `Polyline3D.length` of a piece. -/
def pieceLen (M : MathOps α) : Sum (LR3 α) (List (V3 α)) → α
  | .inl s => seg3_length M s
  | .inr l => Lemmas.pathLen3 M l

/-- The model of `LineSegment3D.split_with_plane` written as the method is written coincides with
the translator's kernel `Gen.seg3_split_with_plane`, so `C17.seg3_split_none`,
`C17.seg3_split_some`, `C17.seg3_split_lengths` apply to it. -/
theorem seg3_split_eq_gen (l : LR3 α) (pl : PlaneS α) :
    seg3SplitWithPlane l pl = seg3_split_with_plane l pl :=
  Lemmas.seg3SplitWithPlane_eq_gen l pl

/-- `LineSegment3D.split_with_plane`, no cut: if `intersect_plane` finds nothing the result is
`[self]`. -/
theorem seg3_split_none (l : LR3 α) (pl : PlaneS α)
    (h : intersect_line3d_plane_s l pl = none) : seg3SplitWithPlane l pl = [l] := by
  unfold seg3SplitWithPlane; rw [h]

/-- `LineSegment3D.split_with_plane`, cut at `q`: two pieces; the first starts at `p1` and ends at
`q`, the second starts at `q` and ends at `p2`; `q` is on the plane and on the segment; under
the `sqrt` law the two lengths add up to the length of the segment.  (pieces = cuts + 1.) -/
theorem seg3_split_some (M : MathOps α)
    (hsqrt : ∀ x, 0 ≤ x → M.sqrt x * M.sqrt x = x ∧ 0 ≤ M.sqrt x)
    (l : LR3 α) (pl : PlaneS α) (q : V3 α) (h : intersect_line3d_plane_s l pl = some q) :
    ∃ s1 s2, seg3SplitWithPlane l pl = [s1, s2] ∧
      s1.p = l.p ∧ seg3_p2 s1 = q ∧ s2.p = q ∧ seg3_p2 s2 = seg3_p2 l ∧
      OnPlane pl q ∧ OnSeg3 l q ∧
      seg3_length M s1 + seg3_length M s2 = seg3_length M l := by
  have hl : seg3_from_end_points l.p (seg3_p2 l) = l := by
    obtain ⟨p, v⟩ := l
    simp only [seg3_from_end_points, seg3_p2]
    congr 1; ext <;> simp only [] <;> ring
  obtain ⟨hs1, hs2⟩ := C11.intersect_line3d_plane_s_sound l pl q h
  refine ⟨seg3_from_end_points l.p q, seg3_from_end_points q (seg3_p2 l), ?_, ?_, ?_, ?_, ?_,
    hs2, hs1, ?_⟩
  · unfold seg3SplitWithPlane; rw [h]
  · rw [Lemmas.seg3_from_end_points_eq]
  · exact Lemmas.seg3_p2_from_end_points _ _
  · rw [Lemmas.seg3_from_end_points_eq]
  · exact Lemmas.seg3_p2_from_end_points _ _
  · have := Lemmas.cut_lengths M hsqrt pl l.p (seg3_p2 l) q (by rw [hl]; exact h)
    rw [hl] at this
    exact this

/-- The objects returned by `Polyline3D.split_with_plane` have the vertex lists `grouped_verts`;
a group of exactly two vertices becomes a `LineSegment3D`, any other a `Polyline3D`. -/
theorem polyline3_split_pieces (vs : List (V3 α)) (pl : PlaneS α) :
    (polyline3SplitWithPlane vs pl).map pieceVerts = polyline3GroupedVerts vs pl ∧
    (polyline3SplitWithPlane vs pl).length = (polyline3GroupedVerts vs pl).length ∧
    ∀ o ∈ polyline3SplitWithPlane vs pl,
      (∃ s, o = Sum.inl s) ↔ (pieceVerts o).length = 2 := by
  unfold polyline3SplitWithPlane groupedVertsToObjs
  refine ⟨?_, by simp, ?_⟩
  · rw [List.map_map]
    conv_rhs => rw [← List.map_id (polyline3GroupedVerts vs pl)]
    refine List.map_congr_left fun g _ => ?_
    simp only [Function.comp, id]
    split
    · simp only [pieceVerts, Lemmas.seg3_p2_from_end_points]
      rw [Lemmas.seg3_from_end_points_eq]
    · rfl
  · intro o ho
    obtain ⟨g, _, rfl⟩ := List.mem_map.mp ho
    split
    · simp [pieceVerts]
    · rename_i hne
      simp only [pieceVerts, reduceCtorEq, exists_false, false_iff]
      intro hlen
      match g, hlen with
      | [a, b], _ => exact hne a b rfl

/-- Number of pieces = number of cuts + 1 (`Polyline3D.split_with_plane` against
`Polyline3D.intersect_plane`; a cut exactly at an interior vertex counts twice, once for each
adjacent segment — the code does not merge them, the piece in between is degenerate). -/
theorem polyline3_split_count (v0 : V3 α) (rest : List (V3 α)) (pl : PlaneS α) :
    (polyline3SplitWithPlane (v0 :: rest) pl).length =
      (polyline3IntersectPlane (v0 :: rest) pl).length + 1 := by
  rw [(polyline3_split_pieces _ pl).2.1, Lemmas.polyline3GroupedVerts_cons,
    Lemmas.groupsFrom_length]

/-- Consecutive pieces share the cut point: piece `i` ends at cut `i` and piece `i+1` starts at
cut `i`, where the cuts are the points of `Polyline3D.intersect_plane` in order. -/
theorem polyline3_split_meet (v0 : V3 α) (rest : List (V3 α)) (pl : PlaneS α) :
    (polyline3GroupedVerts (v0 :: rest) pl).dropLast.map List.getLast? =
        (polyline3IntersectPlane (v0 :: rest) pl).map some ∧
    (polyline3GroupedVerts (v0 :: rest) pl).tail.map List.head? =
        (polyline3IntersectPlane (v0 :: rest) pl).map some := by
  rw [Lemmas.polyline3GroupedVerts_cons]
  exact ⟨Lemmas.groupsFrom_ends pl _ _ _, Lemmas.groupsFrom_starts pl _ _ _⟩

/-- The first piece starts at `p1` (the first vertex), the last piece ends at `p2` (the last
vertex). -/
theorem polyline3_split_ends (v0 : V3 α) (rest : List (V3 α)) (pl : PlaneS α) :
    (polyline3GroupedVerts (v0 :: rest) pl).head?.bind List.head? = some v0 ∧
    (polyline3GroupedVerts (v0 :: rest) pl).getLast?.bind List.getLast? =
      (v0 :: rest).getLast? := by
  rw [Lemmas.polyline3GroupedVerts_cons]
  refine ⟨?_, Lemmas.groupsFrom_last pl [v0] v0 rest rfl⟩
  obtain ⟨g, r, e, hh, _⟩ := Lemmas.groupsFrom_head pl [v0] (by simp) v0 rest
  rw [e]; simpa using hh

/-- Every cut point lies on the plane and on a segment of the polyline (parameter in `[0,1]`). -/
theorem polyline3_split_cuts (vs : List (V3 α)) (pl : PlaneS α) (q : V3 α)
    (h : q ∈ polyline3IntersectPlane vs pl) :
    OnPlane pl q ∧ ∃ s ∈ polylineSegments3 vs, OnSeg3 s q := by
  obtain ⟨s, hs, _, h1, h2⟩ := (polyline3_plane_mem_iff vs pl q).mp h
  exact ⟨h2, s, hs, h1⟩

/-- The concatenation of the pieces' vertex lists with the cut points removed (each cut point is
the last vertex of one piece and the first of the next) is the original vertex list. -/
theorem polyline3_split_join (v0 : V3 α) (rest : List (V3 α)) (pl : PlaneS α) :
    Lemmas.joinPieces (polyline3GroupedVerts (v0 :: rest) pl) = v0 :: rest := by
  rw [Lemmas.polyline3GroupedVerts_cons, Lemmas.joinPieces_groupsFrom pl [v0] (by simp)]
  rfl

/-- Every piece has at least two vertices (for a polyline with at least two vertices). -/
theorem polyline3_split_two_le (v0 v1 : V3 α) (rest : List (V3 α)) (pl : PlaneS α) :
    ∀ g ∈ polyline3GroupedVerts (v0 :: v1 :: rest) pl, 2 ≤ g.length := by
  rw [Lemmas.polyline3GroupedVerts_cons]
  exact Lemmas.groupsFrom_two_le pl [v0] v0 (v1 :: rest) (by simp; omega) (by simp)

/-- The lengths add up exactly: under the `sqrt` law the sum of the lengths of the pieces
(`LineSegment3D.length` / `Polyline3D.length`) is the length of the polyline. -/
theorem polyline3_split_lengths (M : MathOps α)
    (hsqrt : ∀ x, 0 ≤ x → M.sqrt x * M.sqrt x = x ∧ 0 ≤ M.sqrt x)
    (v0 : V3 α) (rest : List (V3 α)) (pl : PlaneS α) :
    ((polyline3SplitWithPlane (v0 :: rest) pl).map (pieceLen M)).sum =
      Lemmas.pathLen3 M (v0 :: rest) := by
  have h := Lemmas.pathLen3_groupsFrom M hsqrt pl [v0] v0 rest rfl
  rw [Lemmas.pathLen3_single, zero_add, ← Lemmas.polyline3GroupedVerts_cons] at h
  rw [← h]
  unfold polyline3SplitWithPlane groupedVertsToObjs
  rw [List.map_map]
  congr 1
  refine List.map_congr_left fun g _ => ?_
  simp only [Function.comp]
  split
  · simp [pieceLen, Lemmas.pathLen3, polylineSegments3]
  · rfl

/-- No cut: the polyline comes back as one piece with its own vertex list. -/
theorem polyline3_split_no_cut (v0 : V3 α) (rest : List (V3 α)) (pl : PlaneS α)
    (h : polyline3IntersectPlane (v0 :: rest) pl = []) :
    polyline3GroupedVerts (v0 :: rest) pl = [v0 :: rest] := by
  have hj := polyline3_split_join v0 rest pl
  have hc := polyline3_split_count v0 rest pl
  rw [(polyline3_split_pieces _ pl).2.1, h] at hc
  match hg : polyline3GroupedVerts (v0 :: rest) pl, hc with
  | [g], _ => rw [hg] at hj; simpa [Lemmas.joinPieces] using hj

/-! ## H. Non-vacuity and the behaviour at vertices (ℚ) -/

/-- A horizontal segment through the square: one hit on the right edge, one on the left edge,
in edge order. -/
example : polygonIntersectLineRay ([⟨0, 0⟩, ⟨4, 0⟩, ⟨4, 4⟩, ⟨0, 4⟩] : List (V2 ℚ)) false
    ⟨⟨-1, 2⟩, ⟨6, 0⟩⟩ = [⟨4, 2⟩, ⟨0, 2⟩] := by decide +kernel

/-- The same as a ray starting inside: only the right edge. -/
example : polygonIntersectLineRay ([⟨0, 0⟩, ⟨4, 0⟩, ⟨4, 4⟩, ⟨0, 4⟩] : List (V2 ℚ)) true
    ⟨⟨2, 2⟩, ⟨1, 0⟩⟩ = [⟨4, 2⟩] := by decide +kernel

/-- The diagonal passes through two vertices: each is reported twice, once per adjacent edge
(the code does not deduplicate; `polygon_line_ray_vertex_twice`). -/
example : polygonIntersectLineInfinite ([⟨0, 0⟩, ⟨4, 0⟩, ⟨4, 4⟩, ⟨0, 4⟩] : List (V2 ℚ)) true
    ⟨⟨0, 0⟩, ⟨1, 1⟩⟩ = [⟨0, 0⟩, ⟨4, 4⟩, ⟨4, 4⟩, ⟨0, 0⟩] := by decide +kernel

/-- The hypotheses of `polygon_line_ray_vertex_twice` are satisfiable (square, diagonal ray,
`j = 1`, vertex `v[2] = (4,4)`): the ray reaches the vertex at parameter 4 and is transversal to
both adjacent edges. -/
example : 2 ≤ (polygonIntersectLineRay ([⟨0, 0⟩, ⟨4, 0⟩, ⟨4, 4⟩, ⟨0, 4⟩] : List (V2 ℚ)) true
    ⟨⟨0, 0⟩, ⟨1, 1⟩⟩).count ⟨4, 4⟩ :=
  polygon_line_ray_vertex_twice [⟨0, 0⟩, ⟨4, 0⟩, ⟨4, 4⟩, ⟨0, 4⟩] (by decide) 1 (by decide) true
    ⟨⟨0, 0⟩, ⟨1, 1⟩⟩ ⟨4, by decide +kernel, by decide +kernel, by decide +kernel⟩
    (by unfold Transversal2; decide +kernel) (by unfold Transversal2; decide +kernel)

/-- An argument collinear with an edge: that edge contributes nothing (determinant 0); the two
neighbouring edges report its end points. -/
example : polygonIntersectLineInfinite ([⟨0, 0⟩, ⟨4, 0⟩, ⟨4, 4⟩, ⟨0, 4⟩] : List (V2 ℚ)) true
    ⟨⟨0, 0⟩, ⟨1, 0⟩⟩ = [⟨4, 0⟩, ⟨0, 0⟩] := by decide +kernel

/-- Rotating / reversing the square: same multiset of hits. -/
example : polygonIntersectLineRay ([⟨4, 4⟩, ⟨0, 4⟩, ⟨0, 0⟩, ⟨4, 0⟩] : List (V2 ℚ)) false
    ⟨⟨-1, 2⟩, ⟨6, 0⟩⟩ = [⟨0, 2⟩, ⟨4, 2⟩] := by decide +kernel

/-- An open polyline crossed twice; reversed polyline, reversed result. -/
example : polyline2IntersectLineRay ([⟨0, 0⟩, ⟨2, 2⟩, ⟨4, 0⟩] : List (V2 ℚ)) false
    ⟨⟨0, 1⟩, ⟨4, 0⟩⟩ = [⟨1, 1⟩, ⟨3, 1⟩] ∧
    polyline2IntersectLineRay ([⟨4, 0⟩, ⟨2, 2⟩, ⟨0, 0⟩] : List (V2 ℚ)) false
    ⟨⟨0, 1⟩, ⟨4, 0⟩⟩ = [⟨3, 1⟩, ⟨1, 1⟩] := by decide +kernel

/-- `Face3D.intersect_line_ray`: a ray through the unit square's interior is returned, one
beside it is rejected by the containment test, a segment that stops short misses the plane. -/
example :
    let pl : PlaneS ℚ := ⟨⟨0, 0, 1⟩, ⟨0, 0, 0⟩, 0, ⟨1, 0, 0⟩, ⟨0, 1, 0⟩⟩
    let sq : List (V3 ℚ) := [⟨0, 0, 0⟩, ⟨4, 0, 0⟩, ⟨4, 4, 0⟩, ⟨0, 4, 0⟩]
    faceIntersectLineRay pl sq true ⟨⟨1, 2, 5⟩, ⟨0, 0, -1⟩⟩ ⟨1, 1 / 100000⟩ = some ⟨1, 2, 0⟩ ∧
    faceIntersectLineRay pl sq true ⟨⟨6, 2, 5⟩, ⟨0, 0, -1⟩⟩ ⟨1, 1 / 100000⟩ = none ∧
    faceIntersectLineRay pl sq false ⟨⟨1, 2, 5⟩, ⟨0, 0, -1⟩⟩ ⟨1, 1 / 100000⟩ = none := by
  decide +kernel

/-- `Face3D.intersect_plane`: the plane `x = 1` cuts the square in one chord. -/
example :
    let pl : PlaneS ℚ := ⟨⟨0, 0, 1⟩, ⟨0, 0, 0⟩, 0, ⟨1, 0, 0⟩, ⟨0, 1, 0⟩⟩
    let sq : List (V3 ℚ) := [⟨0, 0, 0⟩, ⟨4, 0, 0⟩, ⟨4, 4, 0⟩, ⟨0, 4, 0⟩]
    faceIntersectPlane pl sq ⟨⟨1, 0, 0⟩, ⟨1, 0, 0⟩, 1, ⟨0, 1, 0⟩, ⟨0, 0, 1⟩⟩ =
      some [⟨⟨1, 0, 0⟩, ⟨0, 4, 0⟩⟩] := by decide +kernel

/-- FINDING (`Face3D.intersect_plane` at a vertex).  The triangle `(0,0) (4,0) (2,4)` cut by the
plane `x = 2` through its apex: the apex is hit by both adjacent edges, so there are three hits
`[(2,0), (2,4), (2,4)]`.  With normal `(1,0,0)` the sort key grows with `y`, the base point comes
first and the chord `(2,0)–(2,4)` is returned … -/
example :
    faceIntersectPlane (⟨⟨0, 0, 1⟩, ⟨0, 0, 0⟩, 0, ⟨1, 0, 0⟩, ⟨0, 1, 0⟩⟩ : PlaneS ℚ)
      [⟨0, 0, 0⟩, ⟨4, 0, 0⟩, ⟨2, 4, 0⟩]
      ⟨⟨1, 0, 0⟩, ⟨2, 0, 0⟩, 2, ⟨0, 1, 0⟩, ⟨0, 0, 1⟩⟩ =
      some [⟨⟨2, 0, 0⟩, ⟨0, 4, 0⟩⟩] := by
  refine Lemmas.faceIntersectPlaneP_steps _ _ _ ⟨2, 0, 0⟩ ⟨0, 1, 0⟩ ⟨⟨2, 0⟩, ⟨0, 1⟩⟩
    [⟨2, 0⟩, ⟨2, 4⟩, ⟨2, 4⟩] [⟨2, 0⟩, ⟨2, 4⟩, ⟨2, 4⟩] _ (by decide +kernel) (by decide +kernel)
    (by decide +kernel) (by decide) ?_ (by decide +kernel)
  simp [sortIfMany, cutKey, List.mergeSort, List.MergeSort.Internal.splitInTwo]

/-- … with the opposite normal `(-1,0,0)` (the SAME plane) the two copies of the apex come first
and the result is the zero-length segment at the apex — the chord is lost: the result depends on
the orientation of the cutting plane. -/
example :
    faceIntersectPlane (⟨⟨0, 0, 1⟩, ⟨0, 0, 0⟩, 0, ⟨1, 0, 0⟩, ⟨0, 1, 0⟩⟩ : PlaneS ℚ)
      [⟨0, 0, 0⟩, ⟨4, 0, 0⟩, ⟨2, 4, 0⟩]
      ⟨⟨-1, 0, 0⟩, ⟨2, 0, 0⟩, -2, ⟨0, -1, 0⟩, ⟨0, 0, 1⟩⟩ =
      some [⟨⟨2, 4, 0⟩, ⟨0, 0, 0⟩⟩] := by
  refine Lemmas.faceIntersectPlaneP_steps _ _ _ ⟨2, 0, 0⟩ ⟨0, -1, 0⟩ ⟨⟨2, 0⟩, ⟨0, -1⟩⟩
    [⟨2, 0⟩, ⟨2, 4⟩, ⟨2, 4⟩] [⟨2, 4⟩, ⟨2, 4⟩, ⟨2, 0⟩] _ (by decide +kernel) (by decide +kernel)
    (by decide +kernel) (by decide) ?_ (by decide +kernel)
  simp [sortIfMany, cutKey, List.mergeSort, List.MergeSort.Internal.splitInTwo]

/-- FINDING, second form: the square cut along its diagonal returns two zero-length segments (the
two vertices, each doubled) instead of the diagonal. -/
example :
    faceIntersectPlane (⟨⟨0, 0, 1⟩, ⟨0, 0, 0⟩, 0, ⟨1, 0, 0⟩, ⟨0, 1, 0⟩⟩ : PlaneS ℚ)
      [⟨0, 0, 0⟩, ⟨4, 0, 0⟩, ⟨4, 4, 0⟩, ⟨0, 4, 0⟩]
      ⟨⟨1, -1, 0⟩, ⟨0, 0, 0⟩, 0, ⟨1, 1, 0⟩, ⟨0, 0, 1⟩⟩ =
      some [⟨⟨0, 0, 0⟩, ⟨0, 0, 0⟩⟩, ⟨⟨4, 4, 0⟩, ⟨0, 0, 0⟩⟩] := by
  refine Lemmas.faceIntersectPlaneP_steps _ _ _ ⟨0, 0, 0⟩ ⟨1, 1, 0⟩ ⟨⟨0, 0⟩, ⟨1, 1⟩⟩
    [⟨0, 0⟩, ⟨4, 4⟩, ⟨4, 4⟩, ⟨0, 0⟩] [⟨0, 0⟩, ⟨0, 0⟩, ⟨4, 4⟩, ⟨4, 4⟩] _ (by decide +kernel)
    (by decide +kernel) (by decide +kernel) (by decide) ?_ (by decide +kernel)
  simp [sortIfMany, cutKey, List.mergeSort, List.MergeSort.Internal.splitInTwo]

/-- The face plane of the examples is a valid frame (hypothesis of `face_plane_sound`). -/
example : C02.PlaneValid (⟨⟨0, 0, 1⟩, ⟨0, 0, 0⟩, 0, ⟨1, 0, 0⟩, ⟨0, 1, 0⟩⟩ : PlaneS ℚ) :=
  ⟨by decide +kernel, by decide +kernel, by decide +kernel, by decide +kernel, by decide +kernel⟩

/-- `Polyline3D.split_with_plane`: the zig-zag cut by `x = 1` and by `x = 3`: a `LineSegment3D`
and a `Polyline3D`; the pieces meet at the cut point. -/
example :
    let zig : List (V3 ℚ) := [⟨0, 0, 0⟩, ⟨2, 0, 0⟩, ⟨2, 2, 0⟩, ⟨4, 2, 0⟩]
    polyline3SplitWithPlane zig ⟨⟨1, 0, 0⟩, ⟨1, 0, 0⟩, 1, ⟨0, 1, 0⟩, ⟨0, 0, 1⟩⟩ =
      [Sum.inl ⟨⟨0, 0, 0⟩, ⟨1, 0, 0⟩⟩, Sum.inr [⟨1, 0, 0⟩, ⟨2, 0, 0⟩, ⟨2, 2, 0⟩, ⟨4, 2, 0⟩]] ∧
    polyline3IntersectPlane zig ⟨⟨1, 0, 0⟩, ⟨1, 0, 0⟩, 1, ⟨0, 1, 0⟩, ⟨0, 0, 1⟩⟩ = [⟨1, 0, 0⟩] := by
  decide +kernel

/-- A cut exactly at the interior vertex `(2,0,0)` (plane `y = 0` would contain the first segment:
it is parallel, no cut there; plane `x = 2` contains the middle segment): the vertex is cut by the
first segment (parameter 1) and the point `(2,2,0)` by the third (parameter 0): three pieces. -/
example :
    let zig : List (V3 ℚ) := [⟨0, 0, 0⟩, ⟨2, 0, 0⟩, ⟨2, 2, 0⟩, ⟨4, 2, 0⟩]
    polyline3GroupedVerts zig ⟨⟨1, 0, 0⟩, ⟨2, 0, 0⟩, 2, ⟨0, 1, 0⟩, ⟨0, 0, 1⟩⟩ =
      [[⟨0, 0, 0⟩, ⟨2, 0, 0⟩], [⟨2, 0, 0⟩, ⟨2, 0, 0⟩, ⟨2, 2, 0⟩, ⟨2, 2, 0⟩],
       [⟨2, 2, 0⟩, ⟨4, 2, 0⟩]] := by decide +kernel

/-- A cut at an interior vertex where both adjacent segments cross the plane: the vertex is cut
twice and the piece in between is the degenerate polyline `[v, v, v]`. -/
example :
    polyline3GroupedVerts ([⟨0, 0, 0⟩, ⟨2, 1, 0⟩, ⟨4, 0, 0⟩] : List (V3 ℚ))
      ⟨⟨1, 0, 0⟩, ⟨2, 0, 0⟩, 2, ⟨0, 1, 0⟩, ⟨0, 0, 1⟩⟩ =
      [[⟨0, 0, 0⟩, ⟨2, 1, 0⟩], [⟨2, 1, 0⟩, ⟨2, 1, 0⟩, ⟨2, 1, 0⟩], [⟨2, 1, 0⟩, ⟨4, 0, 0⟩]] := by
  decide +kernel

/-- `LineSegment3D.split_with_plane` on a concrete segment. -/
example : seg3SplitWithPlane (⟨⟨0, 0, -1⟩, ⟨0, 0, 4⟩⟩ : LR3 ℚ)
    ⟨⟨0, 0, 1⟩, ⟨0, 0, 0⟩, 0, ⟨1, 0, 0⟩, ⟨0, 1, 0⟩⟩ =
      [⟨⟨0, 0, -1⟩, ⟨0, 0, 1⟩⟩, ⟨⟨0, 0, 0⟩, ⟨0, 0, 3⟩⟩] := by decide +kernel

end Lbg.Props.C11b
