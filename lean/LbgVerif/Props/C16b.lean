/-
  C16b — 2D and 3D sibling classes agree on geometry in a common plane: the COMPOSITE
  routines (literal hand models `Model/Colinear`, `JoinSegments`, `MeshCache(3)`, `PolylineCache`,
  `IsectComposite`, `FaceCache`, `EdgeInfo`).

  Setting: a plane `pl` with orthonormal axes (`C16.OrthoXY pl`; every constructed `Plane`
  satisfies it: `C16.orthoXY_of_planeValid`), a list `vs` of 2D points and its image
  `emb pl vs = vs.map (Plane.xy_to_xyz pl)` (`p ↦ o + p.x • x + p.y • y`).

  1. vertex clean-up: `Polyline3D.remove_colinear_vertices` on `emb pl vs` keeps exactly the
     positions `Polyline2D.remove_colinear_vertices` keeps on `vs` (squared and `sqrt` forms),
     the resulting vertex lists and cache states correspond; `Face3D.remove_colinear_vertices`
     is `Polygon2D.remove_colinear_vertices` on the plane coordinates.
     `remove_duplicate_vertices` uses the COORDINATE-WISE test `is_equivalent`; it agrees with
     the 2D sibling for planes parallel to the world XY plane with the world axes
     (`duplicate_idx_embedAt`) and for `tol = 0` in every plane, but NOT for a general plane or
     even a rotated frame inside the XY plane (`duplicate_filter_not_frame_invariant`); what holds
     in general is a sandwich between `tol` and `2·tol` (`is_equivalent_sandwich_plane`).
  2. `join_segments`: commutes with every point map under which the equivalence tests
     correspond (`join_segments_map`); instances: XY-parallel planes with the tolerance test,
     every plane with `tol = 0` / exact equality; counterexample for a tilted frame.
  3. meshes: `Mesh3D` face areas / total area of the image mesh = `Mesh2D` values (triangles;
     quads whose diagonal `p0—p2` is interior), edge classes identical.
  4. polylines: segments, `length` (any plane), `min / max / center` (XY-parallel planes).
  5. `Polyline3D.intersect_plane` with the plane through the image of a 2D line and the plane
     normal = image of `Polyline2D.intersect_line_infinite`.
  6. `Face3D` built on `emb pl vs` with plane `pl`: `polygon2d`, `area`, `perimeter`, `is_convex`,
     `is_self_intersecting`, `centroid` are the `Polygon2D` values of `vs` (centroid: the plane
     image of the 2D mesh centroid).
-/
import LbgVerif.Lemmas.Siblings2
import LbgVerif.Model.MeshCache
import LbgVerif.Model.MeshCache3
import LbgVerif.Model.EdgeInfo
import LbgVerif.Model.FaceCache
import LbgVerif.Lemmas.FaceCache
import LbgVerif.Props.C16
import LbgVerif.Props.C03b
import LbgVerif.Props.C03c
import Mathlib.Tactic.Ring
import Mathlib.Tactic.Linarith
import Mathlib.Tactic.LinearCombination
import Mathlib.Tactic.NormNum
import Mathlib.Algebra.Order.Field.Rat

set_option linter.unusedSectionVars false
set_option linter.unusedVariables false
set_option linter.unusedTactic false
set_option linter.unreachableTactic false
set_option linter.unnecessarySeqFocus false
set_option linter.unusedSimpArgs false

namespace Lbg.Props.C16b
open Lbg Lbg.Gen Lbg.Lemmas Lbg.Model Lbg.Model.Colinear Lbg.Model.JoinSegments Lbg.Model.MeshCache
  Lbg.Model.MeshCache3 Lbg.Model.PolylineCache Lbg.Model.IsectComposite Lbg.Model.FaceCache
open Lbg.Props.C16 (OrthoXY worldXY orthoXY_worldXY orthoXY_of_planeValid)
variable {α : Type} [Field α] [LinearOrder α] [IsStrictOrderedRing α]

/-! ## 0. The embedding -/

/-- The image of a 2D vertex list in the plane `pl`: every point through `Plane.xy_to_xyz`
(`p ↦ o + p.x • x + p.y • y`). -/
def emb (pl : PlaneS α) (vs : List (V2 α)) : List (V3 α) := vs.map (plane_xy_to_xyz pl)

/-- `emb` in terms of the chart `lift` of `Lemmas/Measure`. -/
theorem emb_eq_lift (pl : PlaneS α) (vs : List (V2 α)) :
    emb pl vs = vs.map (lift pl.o pl.x pl.y) := rfl

/-- The plane through `o` parallel to the world XY plane with the world axes (`Plane(o=o)`). -/
def xyPlaneAt (o : V3 α) : PlaneS α := ⟨⟨0, 0, 1⟩, o, o.z, ⟨1, 0, 0⟩, ⟨0, 1, 0⟩⟩

/-- `xyPlaneAt o` is a valid plane; its chart is `(x, y) ↦ (o.x + x, o.y + y, o.z)`; the world
XY plane is `xyPlaneAt 0`. -/
theorem xyPlaneAt_spec (o : V3 α) :
    C02.PlaneValid (xyPlaneAt o) ∧ OrthoXY (xyPlaneAt o) ∧
    (∀ p, plane_xy_to_xyz (xyPlaneAt o) p = embedAt o p) ∧
    (xyPlaneAt (⟨0, 0, 0⟩ : V3 α) = worldXY) := by
  refine ⟨?_, ?_, ?_, rfl⟩
  · constructor <;> simp [xyPlaneAt, V3.normSq, V3.dot, V3.cross]
  · constructor <;> simp [xyPlaneAt, V3.normSq, V3.dot]
  · intro p
    rw [embedAt_eq_lift]; rfl

/-- `emb` for an XY-parallel plane is the coordinate embedding. -/
theorem emb_xyPlaneAt (o : V3 α) (vs : List (V2 α)) :
    emb (xyPlaneAt o) vs = vs.map (embedAt o) := by
  unfold emb
  apply List.map_congr_left
  intro p _
  exact (xyPlaneAt_spec o).2.2.1 p

/-! ## 1. Vertex clean-up -/

/-- **`remove_colinear_vertices`, kept positions** (squared form of the test): the
`Polyline3D` scan on the plane image keeps exactly the positions the `Polyline2D` scan keeps
on the 2D points — every plane with orthonormal axes, every vertex list, every `tol`. -/
theorem polyline_colinear_idx_plane (pl : PlaneS α) (hf : OrthoXY pl) (tol : α) (vs : List (V2 α)) :
    removeColinearPolyline3Idx tol (emb pl vs) = removeColinearPolyline2Idx tol vs := by
  unfold removeColinearPolyline3Idx removeColinearPolyline2Idx
  rw [emb_eq_lift, List.length_map]
  apply polylineIdx_congr
  intro i2 i1 i0 h2 h1 h0
  exact keepAt_map (lift pl.o pl.x pl.y) (keep2 tol) (keep3 tol)
    (keep3_lift pl.o pl.x pl.y hf.x_unit hf.y_unit hf.xy tol) ⟨0, 0⟩ ⟨0, 0, 0⟩ vs i2 i1 i0 h2 h1 h0

/-- The same for the SOURCE form of the test (`math.sqrt` in `distance_to_point` and
`magnitude`), under the `sqrt` law. -/
theorem polyline_colinear_idx_code_plane (M : MathOps α)
    (hsqrt : ∀ x, 0 ≤ x → M.sqrt x * M.sqrt x = x ∧ 0 ≤ M.sqrt x)
    (pl : PlaneS α) (hf : OrthoXY pl) (tol : α) (vs : List (V2 α)) :
    removeColinearPolyline3IdxCode M tol (emb pl vs) = removeColinearPolyline2IdxCode M tol vs := by
  unfold removeColinearPolyline3IdxCode removeColinearPolyline2IdxCode
  rw [emb_eq_lift, List.length_map]
  apply polylineIdx_congr
  intro i2 i1 i0 h2 h1 h0
  exact keepAt_map (lift pl.o pl.x pl.y) (keep2Code M tol) (keep3Code M tol)
    (keep3Code_lift M hsqrt pl.o pl.x pl.y hf.x_unit hf.y_unit hf.xy tol) ⟨0, 0⟩ ⟨0, 0, 0⟩ vs
    i2 i1 i0 h2 h1 h0

/-- **`remove_colinear_vertices`, vertices**: the cleaned `Polyline3D` vertex list is the
plane image of the cleaned `Polyline2D` vertex list (`Polyline` needs ≥ 2 vertices). -/
theorem polyline_colinear_verts_plane (pl : PlaneS α) (hf : OrthoXY pl) (tol : α)
    (vs : List (V2 α)) (hn : 2 ≤ vs.length) :
    removeColinearPolyline3 tol (emb pl vs) = emb pl (removeColinearPolyline2 tol vs) := by
  unfold removeColinearPolyline3 removeColinearPolyline2
  rw [polyline_colinear_idx_plane pl hf]
  unfold emb
  apply verts_map
  unfold removeColinearPolyline2Idx
  exact polylineIdx_lt _ _ hn

/-- **Cache-machine level**: `Polyline3D.from_polyline2d(p2, plane).remove_colinear_vertices(tol)`
is `Polyline3D.from_polyline2d(p2.remove_colinear_vertices(tol), plane)` (same vertices, same
`interpolated`, all memo slots empty). -/
theorem polyline_colinear_cache_plane (pl : PlaneS α) (hf : OrthoXY pl) (tol : α) (s : PL2 α)
    (hn : 2 ≤ s.vertices.length) :
    removeColinear3 (fromPolyline2d pl s) tol = fromPolyline2d pl (removeColinear2 s tol) := by
  unfold removeColinear3 removeColinear2 fromPolyline2d
  simp only [PolylineCache.fresh3, List.length_map]
  split_ifs with h3
  · rfl
  · have := polyline_colinear_verts_plane pl hf tol s.vertices hn
    unfold emb at this
    simp only [fresh2, this]

/-- **`Face3D.remove_colinear_vertices`** (face without holes built on the plane image, with
that plane) **is `Polygon2D.remove_colinear_vertices`** on the 2D points: same success /
`AssertionError`, same kept positions, and the new face is built on the image of the cleaned
polygon. -/
theorem face_colinear_plane (pl : PlaneS α) (hf : OrthoXY pl) (tol : α) (vs : List (V2 α)) :
    (FaceCache.removeColinear (mkFace (emb pl vs) pl) tol).2 =
      (removeColinearPolygon tol vs).map (fun l => mkFace (emb pl l) pl) := by
  have hp : poly2dOf (mkFace (emb pl vs) pl) = vs :=
    map_xyz_to_xy_lift pl hf.x_unit hf.y_unit hf.xy vs
  unfold FaceCache.removeColinear readPolygon2d removeColinearPolygon
  simp only [mkFace] at hp ⊢
  rw [hp, Option.map_map]
  cases hidx : removeColinearPolygonIdx tol vs with
  | none => rfl
  | some idx =>
    simp only [Option.map_some, Function.comp, Option.some.injEq]
    have hv : verts ⟨0, 0, 0⟩ (emb pl vs) idx = emb pl (verts ⟨0, 0⟩ vs idx) := by
      unfold emb
      apply verts_map
      unfold removeColinearPolygonIdx at hidx
      exact polygonIdx_lt _ _ idx hidx
    rw [hv]

/-- **`remove_duplicate_vertices`, XY-parallel planes**: for a plane parallel to the world XY
plane with the world axes (constant `z`; in particular the world XY plane itself) the 3D
duplicate filter keeps exactly the positions the 2D filter keeps — every `tol`. -/
theorem duplicate_idx_embedAt (o : V3 α) (tol : α) (vs : List (V2 α)) :
    removeDuplicate3Idx tol (emb (xyPlaneAt o) vs) = removeDuplicateIdx tol vs := by
  unfold removeDuplicate3Idx removeDuplicateIdx
  rw [emb_xyPlaneAt, List.length_map]
  apply dupIdx_congr
  intro i j hi hj
  exact eqvAt_map (embedAt o) (fun a b => v2_is_equivalent a b tol)
    (fun a b => v3_is_equivalent a b tol) (fun a b => v3_is_equivalent_embedAt o a b tol)
    ⟨0, 0⟩ ⟨0, 0, 0⟩ vs i j hi hj

/-- **`remove_duplicate_vertices`, `tol = 0`** (exact coincidence): every plane with
orthonormal axes. -/
theorem duplicate_idx_zero_plane (pl : PlaneS α) (hf : OrthoXY pl) (vs : List (V2 α)) :
    removeDuplicate3Idx 0 (emb pl vs) = removeDuplicateIdx 0 vs := by
  unfold removeDuplicate3Idx removeDuplicateIdx
  rw [emb_eq_lift, List.length_map]
  apply dupIdx_congr
  intro i j hi hj
  exact eqvAt_map (lift pl.o pl.x pl.y) (fun a b => v2_is_equivalent a b 0)
    (fun a b => v3_is_equivalent a b 0)
    (fun a b => v3_is_equivalent_zero_lift pl.o pl.x pl.y hf.x_unit hf.y_unit hf.xy a b)
    ⟨0, 0⟩ ⟨0, 0, 0⟩ vs i j hi hj

/-- **What holds in a general plane**: `Point3D.is_equivalent` is coordinate-wise, so it is not
an isometry invariant; the two sibling tests only bracket each other — 2D-equivalent within
`tol` ⇒ 3D-equivalent within `2·tol`, and 3D-equivalent within `tol` ⇒ 2D-equivalent within
`2·tol`. -/
theorem is_equivalent_sandwich_plane (pl : PlaneS α) (hf : OrthoXY pl) (a b : V2 α) (tol : α) :
    (v2_is_equivalent a b tol = true →
      v3_is_equivalent (plane_xy_to_xyz pl a) (plane_xy_to_xyz pl b) (2 * tol) = true) ∧
    (v3_is_equivalent (plane_xy_to_xyz pl a) (plane_xy_to_xyz pl b) tol = true →
      v2_is_equivalent a b (2 * tol) = true) :=
  ⟨v3_is_equivalent_of_v2 pl.o pl.x pl.y hf.x_unit hf.y_unit hf.xy a b tol,
   v2_is_equivalent_of_v3 pl.o pl.x pl.y hf.x_unit hf.y_unit hf.xy a b tol⟩

/-- A valid plane over ℚ: the world XY plane with its frame rotated by the 3-4-5 angle about
`z` (`x = (3/5, 4/5, 0)`, `y = (−4/5, 3/5, 0)`, `n = (0, 0, 1)`). -/
def rotXY : PlaneS ℚ := ⟨⟨0, 0, 1⟩, ⟨0, 0, 0⟩, 0, ⟨3 / 5, 4 / 5, 0⟩, ⟨-4 / 5, 3 / 5, 0⟩⟩

/-- `rotXY` is a valid plane (so the counterexamples below are about constructible objects). -/
theorem rotXY_valid : C02.PlaneValid rotXY ∧ OrthoXY rotXY := by
  refine ⟨⟨?_, ?_, ?_, ?_, ?_⟩, ⟨?_, ?_, ?_⟩⟩ <;> decide +kernel

/-- **FINDING (scope of C16): the duplicate filter is not frame invariant.**  In the valid
plane `rotXY` (even the SAME point set as the world XY plane, only the in-plane axes turned),
with `tol = 1`:
* `[(0,0), (1,1)]`: the 2D filter drops a vertex (`|Δx|, |Δy| ≤ 1`), the 3D filter on the
  image `[(0,0,0), (−1/5, 7/5, 0)]` keeps both (`|Δy| = 7/5 > 1`);
* `[(0,0), (7/5, −1/5)]`: the 2D filter keeps both, the 3D filter on the image
  `[(0,0,0), (1, 1, 0)]` drops one. -/
theorem duplicate_filter_not_frame_invariant :
    removeDuplicateIdx (1 : ℚ) [⟨0, 0⟩, ⟨1, 1⟩] = [] ∧
    removeDuplicate3Idx (1 : ℚ) (emb rotXY [⟨0, 0⟩, ⟨1, 1⟩]) = [0, 1] ∧
    removeDuplicateIdx (1 : ℚ) [⟨0, 0⟩, ⟨7 / 5, -1 / 5⟩] = [0, 1] ∧
    removeDuplicate3Idx (1 : ℚ) (emb rotXY [⟨0, 0⟩, ⟨7 / 5, -1 / 5⟩]) = [] := by
  refine ⟨?_, ?_, ?_, ?_⟩ <;> decide +kernel

/-! ## 2. Joining segments -/

/-- **`join_segments` commutes with every point map under which the two `is_equivalent`
tests correspond**: joining the image segments with the 3D test gives the images of the chains
joined with the 2D test (same groups, same order, same direction). -/
theorem join_segments_map {P Q : Type} (f : P → Q) (e : P → P → Bool) (e' : Q → Q → Bool)
    (he : ∀ a b, e' (f a) (f b) = e a b) (segs : List (Seg P)) :
    joinSegments e' (segs.map (mapSegP f)) = (joinSegments e segs).map (List.map f) :=
  joinSegments_map f e e' he segs

/-- `Polyline3D.join_segments` on segments in an XY-parallel plane = image of
`Polyline2D.join_segments`, with the real tolerance tests, every `tol`. -/
theorem join_segments_embedAt (o : V3 α) (tol : α) (segs : List (Seg (V2 α))) :
    joinSegments (fun a b => v3_is_equivalent a b tol) (segs.map (mapSegP (embedAt o))) =
      (joinSegments (fun a b => v2_is_equivalent a b tol) segs).map (List.map (embedAt o)) :=
  joinSegments_map _ _ _ (fun a b => v3_is_equivalent_embedAt o a b tol) segs

/-- `join_segments` with `tol = 0` in every plane with orthonormal axes. -/
theorem join_segments_zero_plane (pl : PlaneS α) (hf : OrthoXY pl) (segs : List (Seg (V2 α))) :
    joinSegments (fun a b => v3_is_equivalent a b 0) (segs.map (mapSegP (plane_xy_to_xyz pl))) =
      (joinSegments (fun a b => v2_is_equivalent a b 0) segs).map (emb pl) :=
  joinSegments_map _ _ _
    (fun a b => v3_is_equivalent_zero_lift pl.o pl.x pl.y hf.x_unit hf.y_unit hf.xy a b) segs

/-- `join_segments` with exact equality (`==`) as the test, for every injective point map —
in particular every plane chart. -/
theorem join_segments_exact {P Q : Type} [DecidableEq P] [DecidableEq Q] (f : P → Q)
    (hinj : ∀ a b, f a = f b → a = b) (segs : List (Seg P)) :
    joinSegments (fun a b => decide (a = b)) (segs.map (mapSegP f)) =
      (joinSegments (fun a b => decide (a = b)) segs).map (List.map f) := by
  apply joinSegments_map
  intro a b
  apply decide_eq_decide.2
  exact ⟨hinj a b, fun h => by rw [h]⟩

/-- The plane chart is injective (orthonormal axes), so `join_segments_exact` applies to it. -/
theorem plane_chart_injective (pl : PlaneS α) (hf : OrthoXY pl) (a b : V2 α)
    (h : plane_xy_to_xyz pl a = plane_xy_to_xyz pl b) : a = b :=
  lift_injective pl.o pl.x pl.y hf.x_unit hf.y_unit hf.xy a b h

/-- **FINDING, joining**: in `rotXY` with `tol = 1` the segments `(−3,0)–(0,0)` and
`(1,1)–(4,1)` are joined into one polyline by `Polyline2D.join_segments` but stay two separate
segments under `Polyline3D.join_segments` applied to their images. -/
theorem join_segments_not_frame_invariant :
    (joinSegments (fun a b => v2_is_equivalent a b (1 : ℚ))
      [(⟨-3, 0⟩, ⟨0, 0⟩), (⟨1, 1⟩, ⟨4, 1⟩)]).length = 1 ∧
    (joinSegments (fun a b => v3_is_equivalent a b (1 : ℚ))
      ([(⟨-3, 0⟩, ⟨0, 0⟩), (⟨1, 1⟩, ⟨4, 1⟩)].map (mapSegP (plane_xy_to_xyz rotXY)))).length = 2 := by
  constructor <;> decide +kernel

/-! ## 3. Meshes -/

/-- Faces on which `Mesh2D._get_area` and `Mesh3D._calculate_normal_and_area_for_*` are
comparable: triangles, and quads whose diagonal `p0—p2` is interior (the triangles
`(p0,p1,p2)`, `(p2,p3,p0)` have the same orientation: every convex quad).  `Mesh3D` adds the
areas of these two triangles, `Mesh2D` takes the shoelace area. -/
def FaceOK2 : List (V2 α) → Prop
  | [_, _, _] => True
  | [c0, c1, c2, c3] =>
    (0 ≤ V2.det (V2.sub c1 c0) (V2.sub c2 c0) ∧ 0 ≤ V2.det (V2.sub c3 c2) (V2.sub c0 c2)) ∨
    (V2.det (V2.sub c1 c0) (V2.sub c2 c0) ≤ 0 ∧ V2.det (V2.sub c3 c2) (V2.sub c0 c2) ≤ 0)
  | _ => False

/-- One face: the `Mesh3D` area of the image face is the `Mesh2D` area (`sqrt` law). -/
theorem face_area_plane (M : MathOps α)
    (hsqrt : ∀ x, 0 ≤ x → M.sqrt x * M.sqrt x = x ∧ 0 ≤ M.sqrt x) (pl : PlaneS α)
    (hf : OrthoXY pl) (pts : List (V2 α)) (hok : FaceOK2 pts) :
    (faceNA M (pts.map (plane_xy_to_xyz pl))).2 = getArea pts := by
  match pts, hok with
  | [a, b, c], _ =>
    rw [(C03b.kernels_are_generated a b c c).1]
    exact (C16.normal_area_tri_plane M hsqrt pl hf a b c).1
  | [c0, c1, c2, c3], hd =>
    rw [(C03b.kernels_are_generated c0 c1 c2 c3).2.1]
    exact C16.quad_area_plane M hsqrt pl hf c0 c1 c2 c3 hd

/-- **`Mesh3D.face_areas`** (fresh values) of the image mesh **= `Mesh2D.face_areas`**, for
vertex indices inside the vertex list and faces as in `FaceOK2`. -/
theorem mesh_face_areas_plane (M : MathOps α)
    (hsqrt : ∀ x, 0 ≤ x → M.sqrt x * M.sqrt x = x ∧ 0 ≤ M.sqrt x) (pl : PlaneS α)
    (hf : OrthoXY pl) (vs : List (V2 α)) (fs : List (List Nat))
    (hwf : ∀ f ∈ fs, ∀ i ∈ f, i < vs.length) (hok : ∀ f ∈ fs, FaceOK2 (faceVerts vs f)) :
    trueFaceAreas3 M (emb pl vs) fs = trueFaceAreas vs fs := by
  unfold trueFaceAreas3 trueFaceAreas emb
  apply List.map_congr_left
  intro f hfm
  rw [faceVerts3_map2 _ vs f (hwf f hfm)]
  exact face_area_plane M hsqrt pl hf _ (hok f hfm)

/-- **`Mesh3D.area` = `Mesh2D.area`** (fresh values; python `sum` of the face areas). -/
theorem mesh_area_plane (M : MathOps α)
    (hsqrt : ∀ x, 0 ≤ x → M.sqrt x * M.sqrt x = x ∧ 0 ≤ M.sqrt x) (pl : PlaneS α)
    (hf : OrthoXY pl) (vs : List (V2 α)) (fs : List (List Nat))
    (hwf : ∀ f ∈ fs, ∀ i ∈ f, i < vs.length) (hok : ∀ f ∈ fs, FaceOK2 (faceVerts vs f)) :
    trueArea3 M (emb pl vs) fs = trueArea vs fs := by
  unfold trueArea3 trueArea
  rw [mesh_face_areas_plane M hsqrt pl hf vs fs hwf hok]

/-- **Cache-machine level**: the getters `face_areas` and `area` of a newly built
`Mesh3D(emb vs, faces)` answer what the getters of `Mesh2D(vs, faces)` answer. -/
theorem mesh_reads_plane (M : MathOps α)
    (hsqrt : ∀ x, 0 ≤ x → M.sqrt x * M.sqrt x = x ∧ 0 ≤ M.sqrt x) (pl : PlaneS α)
    (hf : OrthoXY pl) (vs : List (V2 α)) (fs : List (List Nat))
    (hwf : ∀ f ∈ fs, ∀ i ∈ f, i < vs.length) (hok : ∀ f ∈ fs, FaceOK2 (faceVerts vs f)) :
    (readFaceAreas3 M (MeshCache3.fresh3 (emb pl vs) fs)).1 =
      some (readFaceAreas (MeshCache.fresh vs fs)).1 ∧
    (readArea3 M (MeshCache3.fresh3 (emb pl vs) fs)).1 =
      some (MeshCache.readArea (MeshCache.fresh vs fs)).1 := by
  have h1 := mesh_face_areas_plane M hsqrt pl hf vs fs hwf hok
  constructor
  · simp only [readFaceAreas3, MeshCache3.fresh3, readFaceAreas, MeshCache.fresh, h1]
    rfl
  · simp only [readArea3, readFaceAreas3, MeshCache3.fresh3, MeshCache.readArea, readFaceAreas,
      MeshCache.fresh, h1]
    rfl

/-- **Edge classes** (`naked_edges`, `internal_edges`, `non_manifold_edges`, `edge_types`)
are computed by `MeshBase._compute_edge_info` from the FACE INDEX lists alone: a `Mesh2D` and
a `Mesh3D` with the same faces get identical tables, whatever their vertices are. -/
theorem mesh_edge_classes (s2 : Mesh2C α) (s3 : Mesh3C α) (h : s3.faces = s2.faces) :
    EdgeInfo.meshEdgeInfo s3.faces = EdgeInfo.meshEdgeInfo s2.faces ∧
    EdgeInfo.nakedEdges (EdgeInfo.meshEdgeInfo s3.faces) =
      EdgeInfo.nakedEdges (EdgeInfo.meshEdgeInfo s2.faces) ∧
    EdgeInfo.internalEdges (EdgeInfo.meshEdgeInfo s3.faces) =
      EdgeInfo.internalEdges (EdgeInfo.meshEdgeInfo s2.faces) ∧
    EdgeInfo.nonManifoldEdges (EdgeInfo.meshEdgeInfo s3.faces) =
      EdgeInfo.nonManifoldEdges (EdgeInfo.meshEdgeInfo s2.faces) := by
  rw [h]; exact ⟨rfl, rfl, rfl, rfl⟩

/-- The edge SEGMENTS built from an index pair: the 3D segment between the image vertices is
the plane image of the 2D segment (indices inside the vertex list). -/
theorem mesh_edge_segment_plane (pl : PlaneS α) (vs : List (V2 α)) (e : Nat × Nat)
    (h1 : e.1 < vs.length) (h2 : e.2 < vs.length) :
    seg3_from_end_points ((emb pl vs).getD e.1 ⟨0, 0, 0⟩) ((emb pl vs).getD e.2 ⟨0, 0, 0⟩) =
      C16.mapSeg pl (seg2_from_end_points (vs.getD e.1 ⟨0, 0⟩) (vs.getD e.2 ⟨0, 0⟩)) := by
  unfold emb
  rw [getD_map_of_lt _ ⟨0, 0⟩ _ vs e.1 h1, getD_map_of_lt _ ⟨0, 0⟩ _ vs e.2 h2]
  exact C16.seg_from_end_points_plane pl _ _

/-- Non-vacuity of `FaceOK2` / the index guard: a unit square and a triangle over ℚ. -/
example :
    let vs : List (V2 ℚ) := [⟨0, 0⟩, ⟨2, 0⟩, ⟨2, 1⟩, ⟨0, 1⟩, ⟨3, 3⟩]
    let fs : List (List Nat) := [[0, 1, 2, 3], [1, 4, 2]]
    (∀ f ∈ fs, ∀ i ∈ f, i < vs.length) ∧ (∀ f ∈ fs, FaceOK2 (faceVerts vs f)) := by
  intro vs fs
  constructor
  · decide
  · intro f hf
    simp only [fs, List.mem_cons, List.not_mem_nil, or_false] at hf
    rcases hf with rfl | rfl
    · left; constructor <;> decide +kernel
    · trivial

/-- The guard of `FaceOK2` is needed: for the concave quad `(0,0), (4,0), (1,1), (0,4)` (diagonal
`p0—p2` interior) both siblings give 4, but listed from the next vertex — `(4,0), (1,1), (0,4),
(0,0)`, diagonal `p0—p2` now EXTERIOR — `Mesh2D._get_area` still gives 4 while the sum of the
two triangle areas that `Mesh3D` forms is 12 (a documented limitation of
`_calculate_normal_and_area_for_quad`: "only reliable when quads are convex"). -/
example :
    getArea ([⟨4, 0⟩, ⟨1, 1⟩, ⟨0, 4⟩, ⟨0, 0⟩] : List (V2 ℚ)) = 4 ∧
    |V2.det (V2.sub (⟨1, 1⟩ : V2 ℚ) ⟨4, 0⟩) (V2.sub ⟨0, 4⟩ ⟨4, 0⟩)| / 2 +
      |V2.det (V2.sub (⟨0, 0⟩ : V2 ℚ) ⟨0, 4⟩) (V2.sub ⟨4, 0⟩ ⟨0, 4⟩)| / 2 = 12 ∧
    ¬ FaceOK2 ([⟨4, 0⟩, ⟨1, 1⟩, ⟨0, 4⟩, ⟨0, 0⟩] : List (V2 ℚ)) := by
  refine ⟨by decide +kernel, by decide +kernel, ?_⟩
  intro h
  rcases h with ⟨h1, h2⟩ | ⟨h1, h2⟩
  · exact absurd h1 (by decide +kernel)
  · exact absurd h2 (by decide +kernel)

/-! ## 4. Polylines -/

/-- **`Polyline3D.segments`** of the image polyline are the plane images of
`Polyline2D.segments` (base point through the chart, direction through its linear part). -/
theorem polyline_segments_plane (pl : PlaneS α) (vs : List (V2 α)) :
    segs3 (emb pl vs) = (segs2 vs).map (C16.mapSeg pl) :=
  segs3_lift pl.o pl.x pl.y vs

/-- **`Polyline3D.length` = `Polyline2D.length`** (fresh values), every plane with orthonormal
axes; no law of `sqrt` is needed. -/
theorem polyline_length_plane (M : MathOps α) (pl : PlaneS α) (hf : OrthoXY pl)
    (vs : List (V2 α)) : length3 M (emb pl vs) = length2 M vs :=
  length3_lift M pl.o pl.x pl.y hf.x_unit hf.y_unit hf.xy vs

/-- **Cache-machine level**: `Polyline3D.from_polyline2d(p2, plane).length` answers what
`p2.length` answers, for every `Polyline2D` state whose cache is not stale (`C03c.PInv2`; every
state reachable from a constructor by an admissible history). -/
theorem polyline_read_length_plane (M : MathOps α) (pl : PlaneS α) (hf : OrthoXY pl)
    (s : PL2 α) (hs : C03c.PInv2 M s) :
    (readLength3 M (fromPolyline2d pl s)).1 = (readLength2 M s).1 := by
  show (readLength3 M (PolylineCache.fresh3 (emb pl s.vertices) s.interpolated)).1 = _
  rw [(C03c.readLength3_spec M _ (C03c.pinv3_fresh M _ _)).1, (C03c.readLength2_spec M s hs).1]
  exact polyline_length_plane M pl hf s.vertices

/-- **`min`, `max`, `center`** of a polyline in an XY-parallel plane are the images of the
`Polyline2D` values (non-empty vertex list).  In a tilted plane the axis-aligned bounding box
of the image is not the image of the 2D bounding box, so there is nothing to compare. -/
theorem polyline_minmax_embedAt (o : V3 α) (s : PL2 α) (hne : s.vertices ≠ []) :
    (readMin3 (fromPolyline2d (xyPlaneAt o) s)).1 =
      embedAt o (readMin2 (fresh2 s.vertices s.interpolated)).1 ∧
    (readMax3 (fromPolyline2d (xyPlaneAt o) s)).1 =
      embedAt o (readMax2 (fresh2 s.vertices s.interpolated)).1 ∧
    (readCenter3 (fromPolyline2d (xyPlaneAt o) s)).1 =
      embedAt o (readCenter2 (fresh2 s.vertices s.interpolated)).1 := by
  have hv : (fromPolyline2d (xyPlaneAt o) s).vertices = s.vertices.map (embedAt o) :=
    emb_xyPlaneAt o s.vertices
  have hmm := calcMinMax3_embedAt o s.vertices hne
  have e1 : (calcMinMax3 (s.vertices.map (embedAt o))).1 = embedAt o (calcMinMax s.vertices).1 := by
    rw [hmm]
  have e2 : (calcMinMax3 (s.vertices.map (embedAt o))).2 = embedAt o (calcMinMax s.vertices).2 := by
    rw [hmm]
  refine ⟨?_, ?_, ?_⟩
  · simp only [readMin3, readMin2, fromPolyline2d, PolylineCache.fresh3, fresh2]
    rw [← emb_xyPlaneAt] at e1; exact e1
  · simp only [readMax3, readMax2, fromPolyline2d, PolylineCache.fresh3, fresh2]
    rw [← emb_xyPlaneAt] at e2; exact e2
  · simp only [readCenter3, readCenter2, readMin3, readMin2, readMax3, readMax2, fromPolyline2d,
      PolylineCache.fresh3, fresh2]
    rw [← emb_xyPlaneAt] at e1 e2
    unfold emb at e1 e2
    rw [e1, e2]
    apply V3.ext' <;> simp only [embedAt] <;> ring

/-! ## 5. Intersections -/

/-- The plane through the image of the 2D line `b` that contains the plane normal (see
`Lemmas.cutPlane`). -/
def cutPlaneOf (pl : PlaneS α) (b : LR2 α) : PlaneS α := cutPlane pl.o pl.x pl.y b

/-- For a valid plane and a unit direction `b.v`, `cutPlaneOf pl b` is a valid `Plane` (so it can
be constructed by the library), it contains the image of every point of the line `b`, and it
contains the normal direction of `pl` (it is the plane "through the line, perpendicular to
`pl`"). -/
theorem cutPlaneOf_valid (pl : PlaneS α) (hv : C02.PlaneValid pl) (b : LR2 α)
    (hb : V2.normSq b.v = 1) :
    C02.PlaneValid (cutPlaneOf pl b) ∧
    (∀ t s : α, C02.OnPlane (cutPlaneOf pl b)
      (V3.add (plane_xy_to_xyz pl (V2.add b.p (V2.smul t b.v))) (V3.smul s pl.n))) := by
  have hf := orthoXY_of_planeValid hv
  obtain ⟨_, hny, _⟩ := hv.y_frame
  have hnx := hv.n_perp_x
  have hN : V3.normSq (liftV pl.x pl.y ⟨b.v.y, -b.v.x⟩) = 1 := by
    rw [normSq_liftV pl.x pl.y hf.x_unit hf.y_unit hf.xy]
    simp only [V2.normSq] at hb ⊢; linear_combination hb
  have hX : V3.normSq (liftV pl.x pl.y b.v) = 1 := by
    rw [normSq_liftV pl.x pl.y hf.x_unit hf.y_unit hf.xy]; exact hb
  have hNX : V3.dot (liftV pl.x pl.y ⟨b.v.y, -b.v.x⟩) (liftV pl.x pl.y b.v) = 0 := by
    rw [dot_liftV pl.x pl.y hf.x_unit hf.y_unit hf.xy]
    simp only [V2.dot]; ring
  refine ⟨⟨hN, hX, hNX, rfl, rfl⟩, ?_⟩
  intro t s
  have h1 := dot_liftV pl.x pl.y hf.x_unit hf.y_unit hf.xy ⟨b.v.y, -b.v.x⟩ b.v
  simp only [V3.dot, V2.dot, liftV] at h1
  simp only [V3.dot] at hnx hny
  simp only [C02.OnPlane, cutPlaneOf, cutPlane, V3.dot, V3.add, V3.smul, V2.add, V2.smul,
    plane_xy_to_xyz, lift, liftV]
  linear_combination t * h1 + s * b.v.y * hnx - s * b.v.x * hny

/-- **`Polyline3D.intersect_plane`** of the image polyline with `cutPlaneOf pl b` **is the
plane image of `Polyline2D.intersect_line_infinite(b)`** (`b` a `LineSegment2D` or a `Ray2D`):
the same points in the same order.  Hypotheses: orthonormal axes only; no condition on `vs`,
`b` (a degenerate `b.v = 0` makes both sides empty). -/
theorem polyline_intersect_plane (pl : PlaneS α) (hf : OrthoXY pl) (vs : List (V2 α))
    (isRay : Bool) (b : LR2 α) :
    polyline3IntersectPlane (emb pl vs) (cutPlaneOf pl b) =
      emb pl (polyline2IntersectLineInfinite vs isRay b) :=
  polyline3IntersectPlane_lift pl.o pl.x pl.y hf.x_unit hf.y_unit hf.xy vs isRay b

/-- Through the plane's 2D coordinates: mapping the 3D intersection points back with
`Plane.xyz_to_xy` gives the 2D intersection points. -/
theorem polyline_intersect_plane_coords (pl : PlaneS α) (hf : OrthoXY pl) (vs : List (V2 α))
    (isRay : Bool) (b : LR2 α) :
    (polyline3IntersectPlane (emb pl vs) (cutPlaneOf pl b)).map (plane_xyz_to_xy pl) =
      polyline2IntersectLineInfinite vs isRay b := by
  rw [polyline_intersect_plane pl hf vs isRay b]
  exact map_xyz_to_xy_lift pl hf.x_unit hf.y_unit hf.xy _

/-- A concrete instance with two actual intersection points in a tilted valid plane. -/
example :
    polyline2IntersectLineInfinite ([⟨0, 0⟩, ⟨2, 2⟩, ⟨4, 0⟩] : List (V2 ℚ)) false
      ⟨⟨0, 1⟩, ⟨1, 0⟩⟩ = [⟨1, 1⟩, ⟨3, 1⟩] := by decide +kernel

/-! ## 6. Face3D against Polygon2D -/

/-- `Polygon2D.perimeter`: `sum([seg.length for seg in self.segments])` over the closed
segment list `_segments_from_vertices`. -/
def perimeter2 (M : MathOps α) (vs : List (V2 α)) : α := lengthOf2 M (loopSegs2 vs)

/-- `Polygon2D.perimeter` is the cyclic sum of the vertex distances. -/
theorem perimeter2_eq (M : MathOps α) (vs : List (V2 α)) :
    perimeter2 M vs = cycSum (dist2 M) vs := by
  unfold perimeter2 lengthOf2 loopSegs2 cycSum
  rw [pySum_eq_sum, List.map_rotate, ((List.rotate_perm _ 1).sum_eq), List.map_map]
  rfl

/-- The face `Face3D(emb pl vs, pl)` (no holes, `enforce_right_hand=False`). -/
def faceOn (pl : PlaneS α) (vs : List (V2 α)) : FaceC α := mkFace (emb pl vs) pl

/-- **`Face3D.polygon2d`** of the face built on the image of `vs` is `vs` itself. -/
theorem face_polygon2d_plane (pl : PlaneS α) (hf : OrthoXY pl) (vs : List (V2 α)) :
    (readPolygon2d (faceOn pl vs)).1 = vs ∧ (readBoundaryPolygon2d (faceOn pl vs)).1 = vs :=
  ⟨map_xyz_to_xy_lift pl hf.x_unit hf.y_unit hf.xy vs,
   map_xyz_to_xy_lift pl hf.x_unit hf.y_unit hf.xy vs⟩

/-- **`Face3D.area` = `Polygon2D.area`.** -/
theorem face_area_eq_polygon (pl : PlaneS α) (hf : OrthoXY pl) (vs : List (V2 α)) :
    (FaceCache.readArea (faceOn pl vs)).1 = polygon2d_area vs := by
  have := (face_polygon2d_plane pl hf vs).1
  simp only [FaceCache.readArea, faceOn, mkFace, readPolygon2d] at this ⊢
  rw [this]

/-- **`Face3D.is_convex` = `Polygon2D.is_convex`.** -/
theorem face_is_convex_eq_polygon (pl : PlaneS α) (hf : OrthoXY pl) (vs : List (V2 α)) :
    (readIsConvex (faceOn pl vs)).1 = isConvex2 vs := by
  have := (face_polygon2d_plane pl hf vs).1
  simp only [readIsConvex, faceOn, mkFace, readPolygon2d] at this ⊢
  rw [this]

/-- **`Face3D.is_self_intersecting` = `Polygon2D.is_self_intersecting`** (of the boundary). -/
theorem face_self_intersecting_eq_polygon (pl : PlaneS α) (hf : OrthoXY pl) (vs : List (V2 α)) :
    (readSelfInt (faceOn pl vs)).1 = polySelfInt2 vs := by
  have := (face_polygon2d_plane pl hf vs).2
  simp only [readSelfInt, faceOn, mkFace, readBoundaryPolygon2d, selfIntOfPolys,
    Bool.or_false] at this ⊢
  rw [this]

/-- **`Face3D.perimeter` = `Polygon2D.perimeter`** (equal `sqrt` arguments segment by
segment; python `sum` in the same order up to the rotation of the segment list, which does not
change an exact sum). -/
theorem face_perimeter_eq_polygon (M : MathOps α) (pl : PlaneS α) (hf : OrthoXY pl)
    (vs : List (V2 α)) : (readPerimeter M (faceOn pl vs)).1 = perimeter2 M vs := by
  have e : (readPerimeter M (faceOn pl vs)).1 = loopLen M (emb pl vs) := by
    simp only [readPerimeter, faceOn, mkFace, readBoundarySegments, perimOfSegs, bsegsOf, loopLen]
  rw [e, loopLen_eq, perimeter2_eq, emb_eq_lift, cycSum_map]
  exact cycSum_congr (fun p q => dist3_lift M pl.o pl.x pl.y hf.x_unit hf.y_unit hf.xy p q) vs

/-- **`Face3D.centroid`** is the plane image of the centroid of the 2D triangulated mesh of the
polygon `vs` (`Mesh2D.from_polygon_triangulated(Polygon2D(vs)).centroid`, for every value of
that kernel). -/
theorem face_centroid_eq_polygon (K : FaceCache.Kern α) (pl : PlaneS α) (hf : OrthoXY pl)
    (vs : List (V2 α)) :
    (FaceCache.readCentroid K (faceOn pl vs)).1 = plane_xy_to_xyz pl (K.cent2 vs none) := by
  have := (face_polygon2d_plane pl hf vs).2
  simp only [FaceCache.readCentroid, readMesh2d, readHolePolygon2d, faceOn, mkFace,
    readBoundaryPolygon2d] at this ⊢
  rw [this]

/-- Non-vacuity: `rotXY` and the tilted plane of `Props/C16` satisfy `OrthoXY`; a concrete
L-shaped polygon has area 3 in both descriptions. -/
example : OrthoXY rotXY ∧ polygon2d_area ([⟨0, 0⟩, ⟨2, 0⟩, ⟨2, 1⟩, ⟨1, 1⟩, ⟨1, 2⟩, ⟨0, 2⟩] : List (V2 ℚ)) = 3 ∧
    (FaceCache.readArea (faceOn rotXY [⟨0, 0⟩, ⟨2, 0⟩, ⟨2, 1⟩, ⟨1, 1⟩, ⟨1, 2⟩, ⟨0, 2⟩])).1 = 3 := by
  refine ⟨rotXY_valid.2, by decide +kernel, by decide +kernel⟩

/-! ## 7. Non-vacuity in a genuinely tilted plane -/

/-- A tilted valid plane over ℚ: normal `(4/5, −3/5, 0)`, origin `(1, 2, 3)`,
`x = (3/5, 4/5, 0)`, `y = n × x = (0, 0, 1)`. -/
def tiltPl : PlaneS ℚ := ⟨⟨4 / 5, -3 / 5, 0⟩, ⟨1, 2, 3⟩, -2 / 5, ⟨3 / 5, 4 / 5, 0⟩, ⟨0, 0, 1⟩⟩

/-- `tiltPl` is a valid plane with orthonormal axes. -/
theorem tiltPl_valid : C02.PlaneValid tiltPl ∧ OrthoXY tiltPl := by
  refine ⟨⟨?_, ?_, ?_, ?_, ?_⟩, ⟨?_, ?_, ?_⟩⟩ <;> decide +kernel

/-- Concrete instance of the clean-up sibling theorem in `tiltPl`: both scans drop the two
mid-edge vertices of an L-shaped chain. -/
example :
    removeColinearPolyline2Idx (1 / 100 : ℚ) [⟨0, 0⟩, ⟨1, 0⟩, ⟨2, 0⟩, ⟨2, 1⟩, ⟨2, 2⟩] = [0, 2, 4] ∧
    removeColinearPolyline3Idx (1 / 100 : ℚ)
      (emb tiltPl [⟨0, 0⟩, ⟨1, 0⟩, ⟨2, 0⟩, ⟨2, 1⟩, ⟨2, 2⟩]) = [0, 2, 4] := by
  constructor <;> decide +kernel

/-- Concrete instance of the intersection sibling theorem in `tiltPl`: two hits, in the same
order, the 3D points being the plane images of the 2D points. -/
example :
    polyline3IntersectPlane (emb tiltPl [⟨0, 0⟩, ⟨2, 2⟩, ⟨4, 0⟩])
      (cutPlaneOf tiltPl ⟨⟨0, 1⟩, ⟨1, 0⟩⟩) = emb tiltPl [⟨1, 1⟩, ⟨3, 1⟩] ∧
    emb tiltPl [⟨1, 1⟩, ⟨3, 1⟩] = [⟨8 / 5, 14 / 5, 4⟩, ⟨14 / 5, 22 / 5, 4⟩] := by
  constructor <;> decide +kernel

/-- Concrete instance of the mesh sibling values in `tiltPl` (with a `sqrt` that is exact on the
squares that occur): a 2 × 1 rectangle and a triangle. -/
example :
    let M : MathOps ℚ := ⟨fun x => if x = 4 then 2 else if x = 9 then 3 else x, id, id, id, id, id,
      fun _ _ => 0, 3, id⟩
    trueFaceAreas3 M (emb tiltPl [⟨0, 0⟩, ⟨2, 0⟩, ⟨2, 1⟩, ⟨0, 1⟩, ⟨3, 3⟩]) [[0, 1, 2, 3], [1, 4, 2]] =
      trueFaceAreas ([⟨0, 0⟩, ⟨2, 0⟩, ⟨2, 1⟩, ⟨0, 1⟩, ⟨3, 3⟩] : List (V2 ℚ)) [[0, 1, 2, 3], [1, 4, 2]] := by
  decide +kernel

end Lbg.Props.C16b
