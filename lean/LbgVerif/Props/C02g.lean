/-
  C02g — rigid motions / scaling of polylines: theorems about the GENERATED definitions of
  `Polyline2D` / `Polyline3D` (`Gen/Polyline.lean`).

  * `polyline2_move_eq_map` … : the generated `move / rotate / reflect / scale` of a polyline are
    `List.map` of the generated point kernels (`p2_move`, `p2_rotate`, …) — so every theorem
    of C02 about the point kernels lifts vertex-wise;
  * `polyline2_reverse_eq`: `reverse` reverses the vertex list;
  * `polyline2_segments_eq`: segment `i` is `from_end_points(v[i], v[i+1])`; there are
    `len - 1` of them;
  * `polyline2_length_eq`: `length` is the sum of the generated `seg2_length` over the segments;
  * `polyline2_length_move`: `length` is invariant under the generated `move`;
  * `polyline2_length_scale_world`: `length` scales by `|k|` under the generated `scale`
    (about the world origin), under the `sqrt` laws.
-/
import LbgVerif.Gen.Polyline
import LbgVerif.Gen.Vec
import LbgVerif.Gen.Line
import LbgVerif.Lemmas.GenLoops
import LbgVerif.Lemmas.Cyclic
import Mathlib.Algebra.BigOperators.Ring.List
import Mathlib.Algebra.Order.Field.Rat
import Mathlib.Tactic.Linarith
import Mathlib.Tactic.Positivity
import Mathlib.Tactic.Ring

namespace Lbg.Props.C02g
open Lbg Lbg.Gen Lbg.Lemmas
variable {α : Type} [Field α] [LinearOrder α] [IsStrictOrderedRing α]

/-! ### vertex-wise transformations -/

omit [LinearOrder α] [IsStrictOrderedRing α] in
/-- Generated `Polyline2D.move` is `map` of the generated `Point2D.move`. -/
theorem polyline2_move_eq_map (vs : List (V2 α)) (i : Bool) (mv : V2 α) :
    polyline2_move vs i mv = vs.map (fun p => p2_move p mv) := rfl

omit [LinearOrder α] [IsStrictOrderedRing α] in
/-- Generated `Polyline2D.rotate` is `map` of the generated `Point2D.rotate`. -/
theorem polyline2_rotate_eq_map (M : MathOps α) (vs : List (V2 α)) (i : Bool) (a : α) (o : V2 α) :
    polyline2_rotate M vs i a o = vs.map (fun p => p2_rotate M p a o) := rfl

omit [LinearOrder α] [IsStrictOrderedRing α] in
/-- Generated `Polyline2D.reflect` is `map` of the generated `Point2D.reflect`. -/
theorem polyline2_reflect_eq_map (vs : List (V2 α)) (i : Bool) (n o : V2 α) :
    polyline2_reflect vs i n o = vs.map (fun p => p2_reflect p n o) := rfl

omit [LinearOrder α] [IsStrictOrderedRing α] in
/-- Generated `Polyline2D.scale(factor, origin)` is `map` of the generated `Point2D.scale`. -/
theorem polyline2_scale_eq_map (vs : List (V2 α)) (i : Bool) (k : α) (o : V2 α) :
    polyline2_scale vs i k o = vs.map (fun p => p2_scale p k o) := rfl

omit [LinearOrder α] [IsStrictOrderedRing α] in
/-- Generated `Polyline2D.scale(factor)` is `map` of the generated world-origin scaling. -/
theorem polyline2_scale_world_eq_map (vs : List (V2 α)) (i : Bool) (k : α) :
    polyline2_scale_world vs i k = vs.map (fun p => p2_scale_world p k) := rfl

omit [LinearOrder α] [IsStrictOrderedRing α] in
/-- Generated `Polyline3D.move` is `map` of the generated `Point3D.move`. -/
theorem polyline3_move_eq_map (vs : List (V3 α)) (i : Bool) (mv : V3 α) :
    polyline3_move vs i mv = vs.map (fun p => p3_move p mv) := rfl

omit [LinearOrder α] [IsStrictOrderedRing α] in
/-- Generated `Polyline3D.rotate` is `map` of the generated `Point3D.rotate`. -/
theorem polyline3_rotate_eq_map (M : MathOps α) (vs : List (V3 α)) (i : Bool) (ax : V3 α) (a : α)
    (o : V3 α) : polyline3_rotate M vs i ax a o = vs.map (fun p => p3_rotate M p ax a o) := rfl

omit [LinearOrder α] [IsStrictOrderedRing α] in
/-- Generated `Polyline3D.rotate_xy` is `map` of the generated `Point3D.rotate_xy`. -/
theorem polyline3_rotate_xy_eq_map (M : MathOps α) (vs : List (V3 α)) (i : Bool) (a : α)
    (o : V3 α) : polyline3_rotate_xy M vs i a o = vs.map (fun p => p3_rotate_xy M p a o) := rfl

omit [LinearOrder α] [IsStrictOrderedRing α] in
/-- Generated `Polyline3D.reflect` is `map` of the generated `Point3D.reflect`. -/
theorem polyline3_reflect_eq_map (vs : List (V3 α)) (i : Bool) (n o : V3 α) :
    polyline3_reflect vs i n o = vs.map (fun p => p3_reflect p n o) := rfl

omit [LinearOrder α] [IsStrictOrderedRing α] in
/-- Generated `Polyline3D.scale` is `map` of the generated `Point3D.scale`. -/
theorem polyline3_scale_eq_map (vs : List (V3 α)) (i : Bool) (k : α) (o : V3 α) :
    polyline3_scale vs i k o = vs.map (fun p => p3_scale p k o) := rfl

omit [Field α] [LinearOrder α] [IsStrictOrderedRing α] in
/-- Generated `Polyline2D.reverse` reverses the vertex list. -/
theorem polyline2_reverse_eq (vs : List (V2 α)) (i : Bool) :
    polyline2_reverse vs i = vs.reverse := by
  unfold polyline2_reverse
  exact List.map_id _

omit [LinearOrder α] [IsStrictOrderedRing α] in
/-- Transformations keep the number of vertices (so the constructor's `len ≥ 3` holds again). -/
theorem polyline2_move_length (vs : List (V2 α)) (i : Bool) (mv : V2 α) :
    (polyline2_move vs i mv).length = vs.length := by
  rw [polyline2_move_eq_map, List.length_map]

/-! ### segments and length -/

/-- Consecutive vertex pairs `(v[i], v[i+1])`, `i = 0 … n-2` (what
`for i, vert in enumerate(self._vertices[:-1]): … self._vertices[i + 1]` visits). -/
def consec {β : Type} (l : List β) : List (β × β) := List.zip l.dropLast (l.drop 1)

omit [LinearOrder α] [IsStrictOrderedRing α] in
/-- Generated `Polyline2D.segments`: segment `i` is the generated
`LineSegment2D.from_end_points(v[i], v[i+1])`. -/
theorem polyline2_segments_eq (vs : List (V2 α)) (i : Bool) :
    polyline2_segments vs i = (consec vs).map (fun q => seg2_from_end_points q.1 q.2) := rfl

omit [LinearOrder α] [IsStrictOrderedRing α] in
/-- A polyline with `n` vertices has `n - 1` segments. -/
theorem polyline2_segments_length (vs : List (V2 α)) (i : Bool) :
    (polyline2_segments vs i).length = vs.length - 1 := by
  rw [polyline2_segments_eq]
  simp [consec]

omit [LinearOrder α] [IsStrictOrderedRing α] in
/-- Generated `Polyline2D.length` is the sum of the generated `LineSegment2D.length` over the
generated segments. -/
theorem polyline2_length_eq (M : MathOps α) (vs : List (V2 α)) (i : Bool) :
    polyline2_length M vs i = ((polyline2_segments vs i).map (seg2_length M)).sum := by
  unfold polyline2_length
  simp only []
  rw [foldl_add_eq_sum (fun x => x), zero_add, List.map_id']
  rfl

omit [LinearOrder α] [IsStrictOrderedRing α] in
/-- `consec` commutes with `map`. -/
theorem consec_map {β γ : Type} (f : β → γ) (l : List β) :
    consec (l.map f) = (consec l).map (Prod.map f f) := by
  unfold consec
  rw [← List.map_dropLast, ← List.map_drop, List.zip_map]

omit [LinearOrder α] [IsStrictOrderedRing α] in
/-- Length as a sum over consecutive vertex pairs. -/
theorem polyline2_length_consec (M : MathOps α) (vs : List (V2 α)) (i : Bool) :
    polyline2_length M vs i = ((consec vs).map (fun q =>
      M.sqrt ((q.2.x - q.1.x) * (q.2.x - q.1.x) + (q.2.y - q.1.y) * (q.2.y - q.1.y)))).sum := by
  rw [polyline2_length_eq, polyline2_segments_eq, List.map_map]
  rfl

omit [LinearOrder α] [IsStrictOrderedRing α] in
/-- The generated polyline length is invariant under the generated `move`. -/
theorem polyline2_length_move (M : MathOps α) (vs : List (V2 α)) (i j : Bool) (mv : V2 α) :
    polyline2_length M (polyline2_move vs i mv) j = polyline2_length M vs j := by
  rw [polyline2_length_consec, polyline2_length_consec, polyline2_move_eq_map, consec_map,
    List.map_map]
  congr 1
  apply List.map_congr_left
  intro q _
  simp only [Function.comp, Prod.map, p2_move]
  congr 2 <;> ring

/-- `sqrt (k² x) = |k| sqrt x` from the two `sqrt` laws. -/
theorem sqrt_mul_sq (M : MathOps α)
    (hsqrt : ∀ x : α, 0 ≤ x → M.sqrt x * M.sqrt x = x ∧ 0 ≤ M.sqrt x) (k x : α) (hx : 0 ≤ x) :
    M.sqrt (k * k * x) = |k| * M.sqrt x := by
  have hkx : 0 ≤ k * k * x := mul_nonneg (mul_self_nonneg k) hx
  obtain ⟨h1, h2⟩ := hsqrt _ hkx
  obtain ⟨h3, h4⟩ := hsqrt _ hx
  have h5 : 0 ≤ |k| * M.sqrt x := mul_nonneg (abs_nonneg k) h4
  have h6 : (|k| * M.sqrt x) * (|k| * M.sqrt x) = k * k * x := by
    have : |k| * |k| = k * k := abs_mul_abs_self k
    calc (|k| * M.sqrt x) * (|k| * M.sqrt x) = (|k| * |k|) * (M.sqrt x * M.sqrt x) := by ring
      _ = k * k * x := by rw [this, h3]
  exact (mul_self_inj_of_nonneg h2 h5).mp (h1.trans h6.symm)

/-- Under the `sqrt` laws the generated polyline length scales by `|k|` under the generated
scaling about the world origin (`Polyline2D.scale(factor)`). -/
theorem polyline2_length_scale_world (M : MathOps α)
    (hsqrt : ∀ x : α, 0 ≤ x → M.sqrt x * M.sqrt x = x ∧ 0 ≤ M.sqrt x)
    (vs : List (V2 α)) (i j : Bool) (k : α) :
    polyline2_length M (polyline2_scale_world vs i k) j = |k| * polyline2_length M vs j := by
  rw [polyline2_length_consec, polyline2_length_consec, polyline2_scale_world_eq_map,
    consec_map, List.map_map, ← List.sum_map_mul_left]
  congr 1
  apply List.map_congr_left
  intro q _
  simp only [Function.comp, Prod.map, p2_scale_world]
  rw [← sqrt_mul_sq M hsqrt k _ (add_nonneg (mul_self_nonneg _) (mul_self_nonneg _))]
  congr 1
  ring

/-- The same law for scaling about an arbitrary origin (`Polyline2D.scale(factor, origin)`). -/
theorem polyline2_length_scale (M : MathOps α)
    (hsqrt : ∀ x : α, 0 ≤ x → M.sqrt x * M.sqrt x = x ∧ 0 ≤ M.sqrt x)
    (vs : List (V2 α)) (i j : Bool) (k : α) (o : V2 α) :
    polyline2_length M (polyline2_scale vs i k o) j = |k| * polyline2_length M vs j := by
  rw [polyline2_length_consec, polyline2_length_consec, polyline2_scale_eq_map,
    consec_map, List.map_map, ← List.sum_map_mul_left]
  congr 1
  apply List.map_congr_left
  intro q _
  simp only [Function.comp, Prod.map, p2_scale]
  rw [← sqrt_mul_sq M hsqrt k _ (add_nonneg (mul_self_nonneg _) (mul_self_nonneg _))]
  congr 1
  ring

/-! ### Non-vacuity -/

example : polyline2_segments ([⟨0, 0⟩, ⟨2, 0⟩, ⟨2, 3⟩] : List (V2 ℚ)) false
    = [⟨⟨0, 0⟩, ⟨2, 0⟩⟩, ⟨⟨2, 0⟩, ⟨0, 3⟩⟩] := by decide +kernel

example : polyline2_move ([⟨0, 0⟩, ⟨2, 0⟩, ⟨2, 3⟩] : List (V2 ℚ)) false ⟨1, -1⟩
    = [⟨1, -1⟩, ⟨3, -1⟩, ⟨3, 2⟩] := by decide +kernel

end Lbg.Props.C02g
