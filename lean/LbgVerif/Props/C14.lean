/-
  C14 — operations are pure and deterministic (machine-checked part).

  `LbgVerif/Gen/Effects.lean` is regenerated from the Python sources on every run by
  `tools/py2lean/effects.py`.  It contains, for EVERY function of the package, the raw
  syntactic effect facts (`writes`, `calls`) and a CERTIFICATE computed in Python
  (`mutates`, the claimed least fixpoint of "may mutate this parameter in place").
  This file
    1. re-checks the certificate (`certificate_closed`) and proves that a closed
       certificate contains the inductively defined relation `Mutates`
       (`mutates_sound`) — so Lean does not trust the Python fixpoint computation;
    2. proves that no PUBLIC function can (transitively) mutate a parameter that is not
       documented as updated in place (`no_caller_visible_write`);
    3. proves that every store on the receiver's slots outside constructors/setters is a
       guarded memo store (`self_stores_are_memo`);
    4. proves that there is no clock / PRNG / `id()` / global-state use and that the set /
       dict iteration sites are exactly the reviewed ones (`no_clock_or_prng`).

  Virtual parameters: index `5 * p + d` = parameter `p` (0-based, `self`/`cls` = 0) at
  depth `d` (0 the object itself, 1 its elements/attributes, …, 4 anything deeper).

  What is NOT proved here (trusted, cross-checked by the dynamic snapshot harness): that
  the extractor sees every mutation — it is a syntactic may-analysis whose blind spots
  are counted in the comment at the end of `Gen/Effects.lean`.
-/
import LbgVerif.Gen.Effects
import LbgVerif.Lemmas.Effects

namespace Lbg.Props.C14
open Lbg Lbg.Gen Lbg.Lemmas

/-! ### the relation the certificate has to contain -/

/-- `Mutates f i`: function number `f` of the effect table may mutate its virtual
parameter `i` in place — either its own body writes it, or it passes (part of) it to a
callee that may mutate the corresponding virtual parameter.  (`x` is a packed pair
`calleeParam * 1000 + myParam`.) -/
inductive Mutates : Nat → Nat → Prop
  | direct {f : Nat} {e : FnEff} {i : Nat} :
      effTable[f]? = some e → i ∈ e.writes → Mutates f i
  | call {f : Nat} {e : FnEff} {c : CallGroup} {g x : Nat} :
      effTable[f]? = some e → c ∈ e.calls → g ∈ c.callees → x ∈ c.pairs →
      Mutates g (x / 1000) → Mutates f (x % 1000)

/-- the certified set of function `g` according to the index `claimedMutates` -/
def claimed (g : Nat) : List Nat := lookupN g claimedMutates

/-- closure condition of one record: the direct writes are certified, and for every call
edge every certified parameter of the callee is mapped into the certified set. -/
def closedFn (e : FnEff) : Bool :=
  subsetN e.writes e.mutates &&
  e.calls.all (fun c => c.callees.all (fun g =>
    (claimed g).isEmpty ||
    c.pairs.all (fun x => !(memN (x / 1000) (claimed g)) || memN (x % 1000) e.mutates)))

/-- the certificate index agrees with the record -/
def indexedFn (e : FnEff) : Bool := eqN (claimed e.idx) e.mutates

/-- a public function certifies only documented in-place updates -/
def publicOk (e : FnEff) : Bool := !e.isPublic || subsetN e.mutates e.allowed

/-! ### 1. the certificate -/

/-- The records are numbered by their position (`idx` fields are 0, 1, 2, …), and there
are `effCount` of them. -/
theorem table_indexed : idxFrom FnEff.idx 0 effTable = true ∧ effTable.length = effCount := by
  decide +kernel

/-- C14 (certificate check): every record of the regenerated table satisfies the closure
condition, and the index `claimedMutates` used to look up callees agrees with the
`mutates` field of every record. -/
theorem certificate_closed :
    effTable.all (fun e => closedFn e && indexedFn e) = true := by
  decide +kernel

private theorem entry_of_getElem? {f : Nat} {e : FnEff} (h : effTable[f]? = some e) :
    closedFn e = true ∧ claimed f = e.mutates := by
  have hm : e ∈ effTable := List.mem_of_getElem? h
  have := (List.all_eq_true.mp certificate_closed) e hm
  simp only [Bool.and_eq_true] at this
  refine ⟨this.1, ?_⟩
  have hi : e.idx = 0 + f := idxFrom_getElem? table_indexed.1 h
  have := eqN_iff.mp this.2
  simpa [hi] using this

/-- C14 (the real theorem behind the certificate): whatever the inductive relation
`Mutates` derives — a direct write, or a write reached through any chain of call edges —
is contained in the certified `mutates` field of the function's record.  Proved by
induction on derivations from the closure check; the Python fixpoint is not trusted. -/
theorem mutates_sound {f i : Nat} (h : Mutates f i) :
    ∃ e, effTable[f]? = some e ∧ i ∈ e.mutates := by
  induction h with
  | @direct f e i he hw =>
    refine ⟨e, he, ?_⟩
    have hc := (entry_of_getElem? he).1
    simp only [closedFn, Bool.and_eq_true] at hc
    exact subsetN_iff.mp hc.1 i hw
  | @call f e c g x he hc hg hx _ ih =>
    obtain ⟨eg, heg, hj⟩ := ih
    refine ⟨e, he, ?_⟩
    have hcl := (entry_of_getElem? he).1
    have hgm : claimed g = eg.mutates := (entry_of_getElem? heg).2
    simp only [closedFn, Bool.and_eq_true] at hcl
    have h1 := (List.all_eq_true.mp hcl.2) c hc
    have h2 := (List.all_eq_true.mp h1) g hg
    have hj' : memN (x / 1000) (claimed g) = true := by
      rw [hgm]; exact memN_iff.mpr hj
    simp only [Bool.or_eq_true] at h2
    rcases h2 with h2 | h2
    · -- the claimed set of g is empty: impossible, it contains x / 1000
      have : claimed g = [] := by simpa using h2
      rw [this] at hj'
      simp [memN] at hj'
    · have h3 := (List.all_eq_true.mp h2) x hx
      simp only [Bool.or_eq_true, Bool.not_eq_true', hj'] at h3
      rcases h3 with h3 | h3
      · exact absurd h3 (by simp)
      · exact memN_iff.mp h3

/-! ### 2. no caller-visible write -/

/-- C14 (table check): the certified set of every public function is inside its
documented `allowed` set. -/
theorem public_certified_allowed : effTable.all publicOk = true := by
  decide +kernel

/-- C14 `no_caller_visible_write`: if a PUBLIC function of the package may mutate one of
its virtual parameters in place — directly or through any chain of calls — then that
parameter is documented as updated in place (`allowed`: the input list of
`Polygon2D.intersect_polygon_segments`, the graph/node arguments of the four editing
methods of `DirectedGraphNetwork`, and the fresh receiver of a constructor).  In
particular no other public operation mutates its receiver's lists, a geometry object
passed to it, or a caller-owned list, at any depth. -/
theorem no_caller_visible_write {f i : Nat} {e : FnEff}
    (he : effTable[f]? = some e) (hpub : e.isPublic = true) (h : Mutates f i) :
    i ∈ e.allowed := by
  obtain ⟨e', he', hi⟩ := mutates_sound h
  have : e' = e := by rw [he] at he'; exact (Option.some.inj he').symm
  subst this
  have hm : e' ∈ effTable := List.mem_of_getElem? he
  have hp := (List.all_eq_true.mp public_certified_allowed) e' hm
  simp only [publicOk, hpub, Bool.not_true, Bool.false_or] at hp
  exact subsetN_iff.mp hp i hi

/-! ### 3. stores on the receiver -/

/-- Reviewed unguarded stores on `self` outside constructors and setters (function, slot).
Empty for the current tree: every such store is a memo store. -/
def reviewedSelfStores : List (String × String) := []

/-- C14 `self_stores_are_memo`: every attribute store on the receiver outside
`__init__`/`__new__`/property setters (and outside the methods of private helper
classes, whose instances a caller never owns) fills a memo slot: it is inside
`if self.slot is None:` (ctx "guard"), in a `@property` getter (ctx "property"), or in a
private helper all of whose call sites are `self._helper()` under such a guard on a slot
the helper stores (ctx "helper").  That the stored value equals the freshly computed
one is C03. -/
theorem self_stores_are_memo :
    selfStores.all (fun s => s.guarded || reviewedSelfStores.contains (s.fn, s.slot)) = true := by
  decide +kernel

/-! ### 4. determinism sources -/

/-- Reviewed iteration sites over sets / dicts (function, kind, site).  None of them lets
the iteration order reach a result:
* `group_by_overlap`, `group_by_touching`, `group_by_coplanar_overlap`:
  `g_to_remove = list(set(g_to_remove))` is followed by `g_to_remove.sort()`;
* `_merge_boundary_and_hole*`: `min(dist_dict.keys())` is order-independent (distinct
  float keys), `for ind_list in hd.values(): ind_list[0] += add_ind` updates every value;
* `merge_overlapping_edges`: `all(li in dup for li in loop_i)` is order-independent and
  `final_vi = list(loop_i)` (a set of `int` vertex indices, whose hashes are not
  randomised) is re-ordered by `sorted(zip(vert_coor, final_vi))` before use. -/
def reviewedIterations : List NondetUse := [
  ⟨"geometry2d.polygon:Polygon2D.group_by_overlap", "set-iter", "list() over set(g_to_remove)"⟩,
  ⟨"geometry2d.polygon:Polygon2D.group_by_touching", "set-iter", "list() over set(g_to_remove)"⟩,
  ⟨"geometry2d.polygon:Polygon2D._merge_boundary_and_holes", "dict-iter", "min() over dist_dict.keys()"⟩,
  ⟨"geometry2d.polygon:Polygon2D._merge_boundary_and_holes", "dict-iter", "for over hd.values()"⟩,
  ⟨"geometry2d.polygon:Polygon2D._merge_boundary_and_hole_detailed", "dict-iter", "min() over dist_dict.keys()"⟩,
  ⟨"geometry2d.polygon:Polygon2D._merge_boundary_and_closest_hole", "dict-iter", "min() over dist_dict.keys()"⟩,
  ⟨"geometry2d.polygon:Polygon2D._merge_boundary_and_hole", "dict-iter", "min() over dist_dict.keys()"⟩,
  ⟨"geometry3d.face:Face3D.group_by_coplanar_overlap", "set-iter", "list() over set(g_to_remove)"⟩,
  ⟨"geometry3d.polyface:Polyface3D.merge_overlapping_edges", "set-iter", "comprehension over loop_i"⟩,
  ⟨"geometry3d.polyface:Polyface3D.merge_overlapping_edges", "set-iter", "list() over loop_i"⟩
]

/-- C14 `no_clock_or_prng`: no function of the package uses `time`, `random` (or
`datetime`/`uuid`/`secrets`), `id()`, or writes module-level / class-level state; and the
places where a `set` or `dict` is iterated are exactly the reviewed list above (a new
iteration site, or a changed one, breaks this proof until it is reviewed). -/
theorem no_clock_or_prng :
    nondetUses.all (fun u => u.kind == "set-iter" || u.kind == "dict-iter") = true ∧
    nondetUses = reviewedIterations := by
  decide +kernel

/-! ### non-vacuity -/

/-- the table is not empty and some helpers really are certified as mutating -/
example : effTable.any (fun e => !e.mutates.isEmpty && !e.isPublic) = true := by
  decide +kernel

/-- the public check is not vacuous: some public functions mutate (documented) arguments -/
example : effTable.any (fun e => e.isPublic && !e.mutates.isEmpty) = true := by
  decide +kernel

/-- the list-surgery helper `_merge_boundary_and_holes(boundary, holes, split)` (when the
table has a record of that name) is certified as mutating `boundary` itself (virtual
parameter 0) and `holes` itself (5) -/
example : ((effTable.find? (fun e =>
      e.name == "geometry2d.polygon:Polygon2D._merge_boundary_and_holes")).map
        (fun e => (memN 0 e.mutates, memN 5 e.mutates))).getD (true, true) = (true, true) := by
  decide +kernel

/-- the relation `Mutates` is inhabited (some record has a direct write) -/
example : ∃ f i, Mutates f i := by
  have h : ∃ (f : Nat) (e : FnEff), effTable[f]? = some e ∧ e.writes ≠ [] := by
    have : effTable.any (fun e => !e.writes.isEmpty) = true := by decide +kernel
    obtain ⟨e, hm, he⟩ := List.any_eq_true.mp this
    obtain ⟨f, hf⟩ := List.getElem?_of_mem hm
    exact ⟨f, e, hf, by intro h0; simp [h0] at he⟩
  obtain ⟨f, e, hf, hw⟩ := h
  obtain ⟨i, hi⟩ := List.exists_mem_of_ne_nil _ hw
  exact ⟨f, i, Mutates.direct hf hi⟩

end Lbg.Props.C14
