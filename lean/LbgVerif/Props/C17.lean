/-
  C17 — curve parametrisation, subdivision and splitting are exact.

  Property theorems about the kernels regenerated from the repository by py2lean:
  `seg2/seg3_point_at`, `_point_at_length`, `_midpoint`, `_p2`, `_length`,
  `seg3_split_with_plane`, `arc2_point_at`, `arc2_point_at_angle`, `arc2_p1/p2/midpoint`,
  `arc2_angle`, `arc2_length`, `arc2_cc_difference`, `arc3_point_at`, plus the hand model of
  the `subdivide_evenly` loop (`Lemmas/Subdivide.lean`).

  A. segments: `point_at t = p + t·v`, end points, midpoint, `point_at_length`, distances
     proportional to the parameter.
  B. `subdivide_evenly(n)` over an ordered field (NO rounding): exactly `n + 1` points, the
     `j`-th being `point_at (j/n)`, first `p`, last `p2`, equally spaced.  The float behaviour
     (rounding of the accumulated parameter, 125 wrong counts among the first 300 `n` in the
     unrepaired 2D code) is outside this theorem: it is decided by the harness for every
     `n ≤ 500` together with the source's "append p2 if short" repair.
  C. arcs: `point_at` lies on the circle, evaluates cos/sin at `a1 + t·angle` reduced by `2π`
     (an angle of the span for `t ∈ [0,1]`), `p1/p2/midpoint`, `angle`, `length`,
     `_cc_difference`.
  D. `LineSegment3D.split_with_plane`: pieces meet at the cut point, which is on the plane;
     parameters `[0,u]`, `[u,1]`; direction vectors and lengths add up.
-/
import LbgVerif.Gen.Vec
import LbgVerif.Gen.Line
import LbgVerif.Gen.Arc
import LbgVerif.Gen.Plane
import LbgVerif.Props.C02
import LbgVerif.Props.C06
import LbgVerif.Lemmas.ArcBox
import LbgVerif.Lemmas.Subdivide
import LbgVerif.Lemmas.Frame
import Mathlib.Tactic.Ring
import Mathlib.Tactic.FieldSimp
import Mathlib.Tactic.Linarith
import Mathlib.Tactic.Positivity
import Mathlib.Tactic.LinearCombination
import Mathlib.Tactic.SplitIfs
import Mathlib.Tactic.NormNum
import Mathlib.Algebra.Order.Field.Rat

set_option linter.unusedSectionVars false
set_option linter.unusedVariables false
set_option linter.unusedTactic false
set_option linter.unusedSimpArgs false
set_option linter.unreachableTactic false
set_option linter.unnecessarySeqFocus false

namespace Lbg.Props.C17
open Lbg Lbg.Gen Lbg.Lemmas
open Lbg.Props.C02 (PlaneValid OnPlane distSq2 distSq3)
variable {α : Type} [Field α] [LinearOrder α] [IsStrictOrderedRing α]

/-! ## A. Segments: linear parametrisation -/

/-- `LineSegment2D.point_at(t) = p + t·v`. -/
theorem seg2_point_at_eq (l : LR2 α) (t : α) :
    seg2_point_at l t = V2.add l.p (V2.smul t l.v) := by
  simp only [seg2_point_at, V2.add, V2.smul]
  ext <;> simp only [] <;> ring

/-- 2D: `point_at 0 = p`, `point_at 1 = p2`, `midpoint = point_at (1/2)`. -/
theorem seg2_point_at_ends (l : LR2 α) :
    seg2_point_at l 0 = l.p ∧ seg2_point_at l 1 = seg2_p2 l ∧
    seg2_midpoint l = seg2_point_at l (1 / 2) := by
  refine ⟨?_, ?_, rfl⟩ <;> simp only [seg2_point_at, seg2_p2] <;> ext <;> simp only [] <;> ring

/-- 2D: `point_at_length(d) = point_at(d / length)` (the code divides by `length`; this identity
does not evaluate the quotient). -/
theorem seg2_point_at_length_eq (M : MathOps α) (l : LR2 α) (d : α) :
    seg2_point_at_length M l d = seg2_point_at l (d / seg2_length M l) := rfl

/-- 2D: for a non-degenerate segment (`v ≠ 0`) under the `sqrt` law, `point_at_length(d)` is
at squared distance `d²` from the start point (it is the point at arc length `d`). -/
theorem seg2_point_at_length_dist (M : MathOps α)
    (hsqrt : ∀ x, 0 ≤ x → M.sqrt x * M.sqrt x = x ∧ 0 ≤ M.sqrt x) (l : LR2 α)
    (hv : V2.normSq l.v ≠ 0) (d : α) :
    distSq2 (seg2_point_at_length M l d) l.p = d * d := by
  have h0 : 0 ≤ V2.normSq l.v := by
    unfold V2.normSq; nlinarith [mul_self_nonneg l.v.x, mul_self_nonneg l.v.y]
  have hpos := sqrt_pos_of_ne M hsqrt h0 hv
  obtain ⟨h1, _⟩ := hsqrt _ h0
  unfold V2.normSq at *
  simp only [distSq2, seg2_point_at_length, V2.normSq, V2.sub]
  generalize M.sqrt (l.v.x * l.v.x + l.v.y * l.v.y) = L at *
  field_simp
  linear_combination (-(d * d)) * h1

/-- 2D: distances along the segment are proportional to the parameter:
`|point_at s - point_at t|² = (s - t)²·|v|²`. -/
theorem seg2_point_at_dist (l : LR2 α) (s t : α) :
    distSq2 (seg2_point_at l s) (seg2_point_at l t) = (s - t) * (s - t) * V2.normSq l.v := by
  simp only [distSq2, seg2_point_at, V2.normSq, V2.sub]
  ring

/-- `LineSegment3D.point_at(t) = p + t·v`. -/
theorem seg3_point_at_eq (l : LR3 α) (t : α) :
    seg3_point_at l t = V3.add l.p (V3.smul t l.v) := by
  simp only [seg3_point_at, V3.add, V3.smul]
  ext <;> simp only [] <;> ring

/-- 3D: `point_at 0 = p`, `point_at 1 = p2`, `midpoint = point_at (1/2)`. -/
theorem seg3_point_at_ends (l : LR3 α) :
    seg3_point_at l 0 = l.p ∧ seg3_point_at l 1 = seg3_p2 l ∧
    seg3_midpoint l = seg3_point_at l (1 / 2) := by
  refine ⟨?_, ?_, rfl⟩ <;> simp only [seg3_point_at, seg3_p2] <;> ext <;> simp only [] <;> ring

/-- 3D: `point_at_length(d) = point_at(d / length)`. -/
theorem seg3_point_at_length_eq (M : MathOps α) (l : LR3 α) (d : α) :
    seg3_point_at_length M l d = seg3_point_at l (d / seg3_length M l) := rfl

/-- 3D: for `v ≠ 0` under the `sqrt` law, `point_at_length(d)` is at squared distance `d²`
from the start point. -/
theorem seg3_point_at_length_dist (M : MathOps α)
    (hsqrt : ∀ x, 0 ≤ x → M.sqrt x * M.sqrt x = x ∧ 0 ≤ M.sqrt x) (l : LR3 α)
    (hv : V3.normSq l.v ≠ 0) (d : α) :
    distSq3 (seg3_point_at_length M l d) l.p = d * d := by
  have h0 := v3_normSq_nonneg l.v
  have hpos := sqrt_pos_of_ne M hsqrt h0 hv
  obtain ⟨h1, _⟩ := hsqrt _ h0
  unfold V3.normSq at *
  simp only [distSq3, seg3_point_at_length, V3.normSq, V3.sub]
  generalize M.sqrt (l.v.x * l.v.x + l.v.y * l.v.y + l.v.z * l.v.z) = L at *
  field_simp
  linear_combination (-(d * d)) * h1

/-- 3D: `|point_at s - point_at t|² = (s - t)²·|v|²`. -/
theorem seg3_point_at_dist (l : LR3 α) (s t : α) :
    distSq3 (seg3_point_at l s) (seg3_point_at l t) = (s - t) * (s - t) * V3.normSq l.v := by
  simp only [distSq3, seg3_point_at, V3.normSq, V3.sub]
  ring

/-! ## B. `subdivide_evenly(n)` over an exact ordered field

`subdivLoop` / `subdivideEvenly` (`Lemmas/Subdivide.lean`) transcribe the Python loop

    interval = 1 / number; parameter = interval; sub_pts = [self.p]
    while parameter <= 1: sub_pts.append(self.point_at(parameter)); parameter += interval
    if len(sub_pts) != number + 1: sub_pts.append(self.p2)

with fuel.  The theorems hold for EVERY fuel `≥ n + 1`: the loop stops by its own condition.
Float rounding of the accumulated `parameter` is NOT covered here (harness: all `n ≤ 500`). -/

/-- `subdivide_evenly_count` (2D segments): over an ordered field, `subdivide_evenly(n)`,
`n ≥ 1`, returns exactly `n + 1` points, the `j`-th being `point_at (j/n)` (`j = 0 … n`). -/
theorem seg2_subdivide_evenly (l : LR2 α) (n : ℕ) (hn : 0 < n) (fuel : ℕ) (hf : n + 1 ≤ fuel) :
    subdivideEvenly (seg2_point_at l) l.p (seg2_p2 l) 1 fuel n true =
      (List.range (n + 1)).map (fun (j : ℕ) => seg2_point_at l ((j : α) / n)) ∧
    (subdivideEvenly (seg2_point_at l) l.p (seg2_p2 l) 1 fuel n true).length = n + 1 := by
  have hn' : (0 : α) < n := Nat.cast_pos.mpr hn
  have hl2 : (1 : α) < ((n : α) + 1) / n := by rw [lt_div_iff₀ hn']; linarith
  obtain ⟨h, hlen⟩ := subdivideEvenly_spec (seg2_point_at l) l.p (seg2_p2 l) n hn 1 (le_refl _)
    hl2 fuel hf true
  refine ⟨?_, hlen⟩
  rw [h, List.range_succ_eq_map, List.map_cons, List.map_map]
  congr 1
  · rw [Nat.cast_zero, zero_div, (seg2_point_at_ends l).1]
  · apply List.map_congr_left
    intro j _
    simp only [Function.comp, Nat.cast_succ]

/-- `subdivide_evenly_count` (3D segments): exactly `n + 1` points, the `j`-th being
`point_at (j/n)`. -/
theorem seg3_subdivide_evenly (l : LR3 α) (n : ℕ) (hn : 0 < n) (fuel : ℕ) (hf : n + 1 ≤ fuel) :
    subdivideEvenly (seg3_point_at l) l.p (seg3_p2 l) 1 fuel n true =
      (List.range (n + 1)).map (fun (j : ℕ) => seg3_point_at l ((j : α) / n)) ∧
    (subdivideEvenly (seg3_point_at l) l.p (seg3_p2 l) 1 fuel n true).length = n + 1 := by
  have hn' : (0 : α) < n := Nat.cast_pos.mpr hn
  have hl2 : (1 : α) < ((n : α) + 1) / n := by rw [lt_div_iff₀ hn']; linarith
  obtain ⟨h, hlen⟩ := subdivideEvenly_spec (seg3_point_at l) l.p (seg3_p2 l) n hn 1 (le_refl _)
    hl2 fuel hf true
  refine ⟨?_, hlen⟩
  rw [h, List.range_succ_eq_map, List.map_cons, List.map_map]
  congr 1
  · rw [Nat.cast_zero, zero_div, (seg3_point_at_ends l).1]
  · apply List.map_congr_left
    intro j _
    simp only [Function.comp, Nat.cast_succ]

/-- The subdivision points `point_at (j/n)`, `j = 0 … n`: the first is `p`, the last is `p2`
and consecutive points are equally spaced, `|P_{j+1} - P_j|² = |v|²/n²` (2D). -/
theorem seg2_subdivision_points (l : LR2 α) (n : ℕ) (hn : 0 < n) :
    seg2_point_at l (((0 : ℕ) : α) / n) = l.p ∧ seg2_point_at l ((n : α) / n) = seg2_p2 l ∧
    ∀ j : ℕ, distSq2 (seg2_point_at l (((j + 1 : ℕ) : α) / n)) (seg2_point_at l ((j : α) / n)) =
      V2.normSq l.v / ((n : α) * n) := by
  have hn' : (n : α) ≠ 0 := (Nat.cast_pos.mpr hn).ne'
  refine ⟨by rw [Nat.cast_zero, zero_div, (seg2_point_at_ends l).1],
    by rw [div_self hn', (seg2_point_at_ends l).2.1], fun j => ?_⟩
  rw [seg2_point_at_dist]; push_cast; field_simp; ring

/-- Same for 3D segments: first `p`, last `p2`, equal spacing `|v|²/n²`. -/
theorem seg3_subdivision_points (l : LR3 α) (n : ℕ) (hn : 0 < n) :
    seg3_point_at l (((0 : ℕ) : α) / n) = l.p ∧ seg3_point_at l ((n : α) / n) = seg3_p2 l ∧
    ∀ j : ℕ, distSq3 (seg3_point_at l (((j + 1 : ℕ) : α) / n)) (seg3_point_at l ((j : α) / n)) =
      V3.normSq l.v / ((n : α) * n) := by
  have hn' : (n : α) ≠ 0 := (Nat.cast_pos.mpr hn).ne'
  refine ⟨by rw [Nat.cast_zero, zero_div, (seg3_point_at_ends l).1],
    by rw [div_self hn', (seg3_point_at_ends l).2.1], fun j => ?_⟩
  rw [seg3_point_at_dist]; push_cast; field_simp; ring

/-- `Arc2D.subdivide_evenly(n)` uses the loop limit `1.000000001` and no repair step.  Over an
ordered field it returns exactly `n + 1` points `point_at (j/n)` PROVIDED the limit is below
`(n+1)/n` (for the literal `1.000000001` this means `n < 10⁹`); stated for an arbitrary limit
`1 ≤ lim < (n+1)/n` and any start point `p1`. -/
theorem arc2_subdivide_evenly (M : MathOps α) (a : Arc2S α) (n : ℕ) (hn : 0 < n) (lim : α)
    (hl1 : 1 ≤ lim) (hl2 : lim < ((n : α) + 1) / n) (fuel : ℕ) (hf : n + 1 ≤ fuel) :
    subdivideEvenly (arc2_point_at M a) (arc2_p1 a) (arc2_p2 a) lim fuel n false =
      arc2_p1 a :: (List.range n).map (fun (j : ℕ) => arc2_point_at M a (((j : α) + 1) / n)) ∧
    (subdivideEvenly (arc2_point_at M a) (arc2_p1 a) (arc2_p2 a) lim fuel n false).length
      = n + 1 :=
  subdivideEvenly_spec (arc2_point_at M a) (arc2_p1 a) (arc2_p2 a) n hn lim hl1 hl2 fuel hf false

/-! ## C. Arcs: angle parametrisation with wrap at `2π` -/

/-- `Arc2D.point_at(t)` evaluates cos / sin at `paramAngle t`, which is `a1 + angle·t` or
`a1 + angle·t - 2π` (congruent mod `2π`), the latter exactly when `a1 + angle·t > 2π`. -/
theorem arc2_point_at_angle_used (M : MathOps α) (a : Arc2S α) (t : α) :
    arc2_point_at M a t = arcPoint M a (paramAngle M a t) ∧
    ((paramAngle M a t = a.a1 + arc2_angle M a * t ∧ ¬ M.pi * 2 < a.a1 + arc2_angle M a * t) ∨
     (paramAngle M a t = a.a1 + arc2_angle M a * t - M.pi * 2 ∧
        M.pi * 2 < a.a1 + arc2_angle M a * t)) := by
  refine ⟨rfl, ?_⟩
  unfold paramAngle
  by_cases h : M.pi * 2 < a.a1 + arc2_angle M a * t
  · right; exact ⟨by rw [if_neg (not_not.mpr h)], h⟩
  · left; exact ⟨by rw [if_pos h], h⟩

/-- For `t ∈ [0, 1]` the angle used by `point_at(t)` lies in the arc's counter-clockwise span
(`a1 ≤ θ ≤ a2`, or `θ ≥ a1 ∨ θ ≤ a2` within `[0, 2π]` for an inverted arc). -/
theorem arc2_point_at_in_span (M : MathOps α) (a : Arc2S α) (hp : 0 < M.pi) (hA : AnglesOk M a)
    (t : α) (h0 : 0 ≤ t) (h1 : t ≤ 1) : InSpan M a (paramAngle M a t) :=
  paramAngle_inSpan M a hp hA h0 h1

/-- `Arc2D.point_at(t)` lies on the circle: `|point_at t - c|² = r²`, given `cos² + sin² = 1` at
the evaluated angle. -/
theorem arc2_point_at_on_circle (M : MathOps α) (a : Arc2S α) (t : α)
    (hcs : M.cos (paramAngle M a t) * M.cos (paramAngle M a t)
      + M.sin (paramAngle M a t) * M.sin (paramAngle M a t) = 1) :
    distSq2 (arc2_point_at M a t) a.c = a.r * a.r := by
  rw [arc2_point_at_eq]
  simp only [distSq2, arcPoint, V2.normSq, V2.sub]
  linear_combination (a.r * a.r) * hcs

/-- `point_at(t) = point_at_angle(angle·t)`, `midpoint = point_at(1/2)`,
`length = angle·r`. -/
theorem arc2_point_at_relations (M : MathOps α) (a : Arc2S α) (t : α) :
    arc2_point_at M a t = arc2_point_at_angle M a (arc2_angle M a * t) ∧
    arc2_midpoint M a = arc2_point_at M a (1 / 2) ∧
    arc2_length M a = arc2_angle M a * a.r :=
  ⟨rfl, rfl, rfl⟩

/-- `Arc2D.angle`: for `0 ≤ a1, a2 ≤ 2π` it lies in `[0, 2π]`; it is `a2 - a1` for an ordinary
arc and `2π + a2 - a1` for an inverted one; it is strictly positive when `a1 ≠ a2`, except for
the degenerate pair `a1 = 2π, a2 = 0` (the same direction written twice), where it is `0`. -/
theorem arc2_angle_range (M : MathOps α) (a : Arc2S α) (hp : 0 < M.pi) (hA : AnglesOk M a) :
    0 ≤ arc2_angle M a ∧ arc2_angle M a ≤ 2 * M.pi ∧
    (¬ a.a2 < a.a1 → arc2_angle M a = a.a2 - a.a1) ∧
    (a.a2 < a.a1 → arc2_angle M a = 2 * M.pi + (a.a2 - a.a1)) ∧
    (a.a1 ≠ a.a2 → ¬ (a.a1 = 2 * M.pi ∧ a.a2 = 0) → 0 < arc2_angle M a) := by
  obtain ⟨h1, h2, h3, h4⟩ := hA
  unfold arc2_angle
  simp only []
  by_cases hi : a.a2 < a.a1
  · rw [if_neg (not_not.mpr hi)]
    refine ⟨by linarith, by linarith, fun h => absurd hi h, fun _ => rfl, fun _ hd => ?_⟩
    rcases lt_or_eq_of_le h2 with hlt | heq
    · linarith
    · rcases lt_or_eq_of_le h3 with hlt' | heq'
      · linarith
      · exact absurd ⟨heq, heq'.symm⟩ hd
  · rw [if_pos hi]
    have hle := not_lt.mp hi
    refine ⟨by linarith, by linarith, fun _ => rfl, fun h => absurd h hi, fun hne _ => ?_⟩
    have : a.a1 < a.a2 := lt_of_le_of_ne hle hne
    linarith

/-- `Arc2D.p1` is `point_at_angle(0)` and `point_at(0)` (given coherent caches and
`a1 ≤ 2π`). -/
theorem arc2_p1_eq (M : MathOps α) (a : Arc2S α) (hC : CachesOk M a) (h1 : a.a1 ≤ 2 * M.pi) :
    arc2_p1 a = arc2_point_at_angle M a 0 ∧ arc2_p1 a = arc2_point_at M a 0 := by
  obtain ⟨hc1, hs1, _, _⟩ := hC
  have hw : ¬ M.pi * 2 < a.a1 := by linarith
  constructor
  · simp only [arc2_p1, arc2_point_at_angle, add_zero, if_pos hw, hc1, hs1]
  · simp only [arc2_p1, arc2_point_at, mul_zero, add_zero, if_pos hw, hc1, hs1]

/-- `Arc2D.p2` is `point_at_angle(angle)` and `point_at(1)`: the angle reached is `a2`
(ordinary arc) or `a2 + 2π`, reduced to `a2` by the wrap (inverted arc with `a2 > 0`).  For an
inverted arc with `a2 = 0` the wrap does not fire (`a1 + angle = 2π` exactly) and the equality
needs `cos 2π = cos 0`, `sin 2π = sin 0`: hypothesis `hper`. -/
theorem arc2_p2_eq (M : MathOps α) (a : Arc2S α) (hp : 0 < M.pi) (hA : AnglesOk M a)
    (hC : CachesOk M a)
    (hper : M.cos (2 * M.pi) = M.cos 0 ∧ M.sin (2 * M.pi) = M.sin 0) :
    arc2_p2 a = arc2_point_at_angle M a (arc2_angle M a) ∧ arc2_p2 a = arc2_point_at M a 1 := by
  obtain ⟨_, _, hc2, hs2⟩ := hC
  obtain ⟨h1, h2, h3, h4⟩ := hA
  have key : arc2_p2 a = arc2_point_at_angle M a (arc2_angle M a) := by
    simp only [arc2_p2, arc2_point_at_angle, arc2_angle]
    by_cases hi : a.a2 < a.a1
    · simp only [if_neg (not_not.mpr hi)]
      rcases lt_or_eq_of_le h3 with hpos | h0
      · have hw : M.pi * 2 < a.a1 + (2 * M.pi + (a.a2 - a.a1)) := by linarith
        rw [if_neg (not_not.mpr hw)]
        have e : a.a1 + (2 * M.pi + (a.a2 - a.a1)) - M.pi * 2 = a.a2 := by ring
        rw [e, hc2, hs2]
      · have e : a.a1 + (2 * M.pi + (a.a2 - a.a1)) = 2 * M.pi := by rw [← h0]; ring
        have hw : ¬ M.pi * 2 < a.a1 + (2 * M.pi + (a.a2 - a.a1)) := by rw [e]; linarith
        rw [if_pos hw, e, hper.1, hper.2, hc2, hs2, ← h0]
    · simp only [if_pos hi]
      have e : a.a1 + (a.a2 - a.a1) = a.a2 := by ring
      have hw : ¬ M.pi * 2 < a.a1 + (a.a2 - a.a1) := by rw [e]; linarith
      rw [if_pos hw, e, hc2, hs2]
  refine ⟨key, ?_⟩
  rw [key, (arc2_point_at_relations M a 1).1, mul_one]

/-- `Arc2D._cc_difference(θ)`: the counter-clockwise offset of `θ` from `a1`.  For
`θ, a1 ∈ [0, 2π)` it lies in `[0, 2π)` and differs from `θ - a1` by `0` or `2π`, i.e. it is
`(θ - a1) mod 2π`; it is `0` exactly at `θ = a1` and it is strictly increasing as `θ` runs
counter-clockwise from `a1` (it orders the cut angles along the arc). -/
theorem arc2_cc_difference_spec (M : MathOps α) (a : Arc2S α) (hp : 0 < M.pi) (θ : α)
    (ha : 0 ≤ a.a1 ∧ a.a1 < 2 * M.pi) (hθ : 0 ≤ θ ∧ θ < 2 * M.pi) :
    0 ≤ arc2_cc_difference M a θ ∧ arc2_cc_difference M a θ < 2 * M.pi ∧
    (∃ k : ℤ, (k = 0 ∨ k = 1) ∧ arc2_cc_difference M a θ = θ - a.a1 + k * (2 * M.pi)) ∧
    (arc2_cc_difference M a θ = 0 ↔ θ = a.a1) := by
  unfold arc2_cc_difference
  simp only []
  by_cases h : θ < a.a1
  · rw [if_neg (not_not.mpr h)]
    refine ⟨by linarith, by linarith, ⟨1, Or.inr rfl, by push_cast; ring⟩, ?_⟩
    constructor
    · intro h0; exfalso; linarith
    · intro h0; exfalso; linarith
  · rw [if_pos h]
    have hle := not_lt.mp h
    refine ⟨by linarith, by linarith, ⟨0, Or.inl rfl, by push_cast; ring⟩, ?_⟩
    constructor
    · intro h0; linarith
    · intro h0; rw [h0]; ring

/-- `_cc_difference` is strictly monotone along the counter-clockwise direction starting at
`a1`: of two angles not before `a1` the larger has the larger offset, angles before `a1`
(reached after wrapping) come after all angles not before `a1`, and among those again the
larger angle has the larger offset. -/
theorem arc2_cc_difference_order (M : MathOps α) (a : Arc2S α) (hp : 0 < M.pi) (θ φ : α)
    (ha : 0 ≤ a.a1 ∧ a.a1 < 2 * M.pi) (hθ : 0 ≤ θ ∧ θ < 2 * M.pi) (hφ : 0 ≤ φ ∧ φ < 2 * M.pi) :
    (a.a1 ≤ θ → θ < φ → arc2_cc_difference M a θ < arc2_cc_difference M a φ) ∧
    (a.a1 ≤ θ → φ < a.a1 → arc2_cc_difference M a θ < arc2_cc_difference M a φ) ∧
    (θ < φ → φ < a.a1 → arc2_cc_difference M a θ < arc2_cc_difference M a φ) := by
  unfold arc2_cc_difference
  simp only []
  refine ⟨fun h1 h2 => ?_, fun h1 h2 => ?_, fun h1 h2 => ?_⟩
  · rw [if_pos (not_lt.mpr h1), if_pos (not_lt.mpr (le_trans h1 h2.le))]; linarith
  · rw [if_pos (not_lt.mpr h1), if_neg (not_not.mpr h2)]; linarith
  · rw [if_neg (not_not.mpr (lt_trans h1 h2)), if_neg (not_not.mpr h2)]; linarith

/-- `Arc2D._a_from_pt` recovers the angle of a point of the circle: for `q = c + r (cos t, sin t)`,
`0 ≤ t < 2π`, `r > 0`, it returns `t` — under the `sqrt` law, `cos² + sin² = 1` at `t`, the sign
of `sin` on the two half turns, `acos (cos u) = u` on `[0, π]` and `cos (2π - t) = cos t`
(the code takes `acos` of the normalised x-offset and reflects it to `2π - acos` when the
y-offset is negative). -/
theorem arc2_a_from_pt_spec (M : MathOps α)
    (hsqrt : ∀ x, 0 ≤ x → M.sqrt x * M.sqrt x = x ∧ 0 ≤ M.sqrt x)
    (a : Arc2S α) (hr : 0 < a.r) (t : α) (h0 : 0 ≤ t) (h1 : t < 2 * M.pi)
    (hcs : M.cos t * M.cos t + M.sin t * M.sin t = 1)
    (hsin_pos : t ≤ M.pi → 0 ≤ M.sin t) (hsin_neg : M.pi < t → M.sin t < 0)
    (hacos : ∀ u, 0 ≤ u → u ≤ M.pi → M.acos (M.cos u) = u)
    (hsym : M.cos (2 * M.pi - t) = M.cos t) :
    arc2_a_from_pt M a (arcPoint M a t) = t := by
  have e1 : a.c.x + M.cos t * a.r - a.c.x = M.cos t * a.r := by ring
  have e2 : a.c.y + M.sin t * a.r - a.c.y = M.sin t * a.r := by ring
  have hs1 := sqrt_one M hsqrt
  have hlen : M.sqrt (M.cos t * a.r * (M.cos t * a.r) + M.sin t * a.r * (M.sin t * a.r)) = a.r :=
    sqrt_unique M hsqrt hr.le (by linear_combination (-(a.r * a.r)) * hcs)
  have harg : (1 * (M.cos t * a.r) + 0 * (M.sin t * a.r)) / (1 * a.r) = M.cos t := by
    rw [one_mul, zero_mul, add_zero, one_mul]; field_simp
  have hdet : 1 * (M.sin t * a.r) - 0 * (M.cos t * a.r) = M.sin t * a.r := by ring
  unfold arc2_a_from_pt
  simp only [arcPoint, e1, e2, hs1, hlen, harg, hdet]
  by_cases hneg : M.sin t * a.r < 0
  · rw [if_neg (not_not.mpr hneg)]
    have hst : M.sin t < 0 := by
      by_contra hc
      have := mul_nonneg (not_lt.mp hc) hr.le
      linarith
    have htp : M.pi < t := by
      by_contra hc
      have := hsin_pos (not_lt.mp hc)
      linarith
    rw [← hsym, hacos _ (by linarith) (by linarith)]
    ring
  · rw [if_pos hneg]
    have hst : 0 ≤ M.sin t := by
      by_contra hc
      have := mul_neg_of_neg_of_pos (not_le.mp hc) hr
      exact hneg this
    have htp : t ≤ M.pi := by
      by_contra hc
      have := hsin_neg (not_le.mp hc)
      linarith
    exact hacos t h0 htp

/-- `Arc3D.point_at(t)` is the plane image of the 2D arc's `point_at(t)`; `midpoint` is
`point_at(1/2)`; `length = angle·r`. -/
theorem arc3_point_at_eq (M : MathOps α) (a : Arc3S α) (t : α) :
    arc3_point_at M a t = plane_xy_to_xyz a.plane (arc2_point_at M a.arc2d t) ∧
    arc3_midpoint M a = arc3_point_at M a (1 / 2) ∧
    arc3_length M a = arc2_angle M a.arc2d * a.arc2d.r ∧
    arc3_p1 a = plane_xy_to_xyz a.plane (arc2_p1 a.arc2d) ∧
    arc3_p2 a = plane_xy_to_xyz a.plane (arc2_p2 a.arc2d) :=
  ⟨rfl, rfl, rfl, rfl, rfl⟩

/-- `Arc3D.point_at(t)` lies on the circle in space: its squared distance from the centre
`plane.o` is `r²` and it lies on the arc's plane (valid plane, 2D centre `(0,0)` as set by the
constructor, `cos² + sin² = 1` at the evaluated angle). -/
theorem arc3_point_at_on_circle (M : MathOps α) (a : Arc3S α) (t : α) (hv : PlaneValid a.plane)
    (hc : a.arc2d.c = ⟨0, 0⟩)
    (hcs : M.cos (paramAngle M a.arc2d t) * M.cos (paramAngle M a.arc2d t)
      + M.sin (paramAngle M a.arc2d t) * M.sin (paramAngle M a.arc2d t) = 1) :
    distSq3 (arc3_point_at M a t) (arc3_c a) = a.arc2d.r * a.arc2d.r ∧
    OnPlane a.plane (arc3_point_at M a t) := by
  rw [(arc3_point_at_eq M a t).1]
  refine ⟨?_, C06.plane_xy_to_xyz_on_plane hv _⟩
  have e : arc3_c a = plane_xy_to_xyz a.plane ⟨0, 0⟩ := by
    simp only [arc3_c, plane_xy_to_xyz]
    ext <;> simp only [] <;> ring
  rw [e, C06.plane_xy_to_xyz_isometry hv, ← hc]
  exact arc2_point_at_on_circle M a.arc2d t hcs

/-! ## D. `LineSegment3D.split_with_plane` -/

/-- The parameter at which the segment's line meets the plane: `u = (k - n·p) / (n·v)`. -/
def splitParam (l : LR3 α) (pl : PlaneS α) : α :=
  (pl.k - V3.dot pl.n l.p) / V3.dot pl.n l.v

/-- No split: if the segment is parallel to the plane (`n·v = 0`) or the crossing parameter is
outside `[0, 1]`, `split_with_plane` returns `[self]`. -/
theorem seg3_split_none (l : LR3 α) (pl : PlaneS α)
    (h : V3.dot pl.n l.v = 0 ∨ splitParam l pl < 0 ∨ 1 < splitParam l pl) :
    seg3_split_with_plane l pl = [l] := by
  unfold splitParam V3.dot at h
  unfold seg3_split_with_plane
  simp only []
  split_ifs with h1 h2 h3
  · rfl
  · rfl
  · rfl
  · exfalso
    rcases h with h | h | h
    · exact h1 h
    · exact h2 h
    · exact h3 h

/-- Split: if `n·v ≠ 0` and the crossing parameter `u` lies in `[0, 1]`, the result is two
segments; the first is `point_at [0, u]` (starts at `p`, direction `u·v`), the second is
`point_at [u, 1]` (starts at the cut point `point_at u`, direction `(1-u)·v`); they meet at the
cut point (`first.p2 = second.p`), the cut point lies on the plane, the second ends at `p2`,
and the direction vectors add up to `v`. -/
theorem seg3_split_some (l : LR3 α) (pl : PlaneS α) (hd : V3.dot pl.n l.v ≠ 0)
    (h0 : 0 ≤ splitParam l pl) (h1 : splitParam l pl ≤ 1) :
    ∃ s1 s2 : LR3 α, seg3_split_with_plane l pl = [s1, s2] ∧
      s1.p = l.p ∧ s1.v = V3.smul (splitParam l pl) l.v ∧
      s2.p = seg3_point_at l (splitParam l pl) ∧ s2.v = V3.smul (1 - splitParam l pl) l.v ∧
      seg3_p2 s1 = s2.p ∧ seg3_p2 s2 = seg3_p2 l ∧
      OnPlane pl s2.p ∧ V3.add s1.v s2.v = l.v := by
  have hd' := hd
  unfold V3.dot at hd'
  unfold seg3_split_with_plane
  simp only []
  rw [if_neg hd']
  have hu : (pl.k - (pl.n.x * l.p.x + pl.n.y * l.p.y + pl.n.z * l.p.z)) /
      (pl.n.x * l.v.x + pl.n.y * l.v.y + pl.n.z * l.v.z) = splitParam l pl := rfl
  rw [hu, if_neg (not_lt.mpr h0), if_neg (not_lt.mpr h1)]
  refine ⟨_, _, rfl, rfl, ?_, ?_, ?_, ?_, ?_, ?_, ?_⟩
  · simp only [V3.smul]; ext <;> simp only [] <;> ring
  · simp only [seg3_point_at]; ext <;> simp only [] <;> ring
  · simp only [V3.smul]; ext <;> simp only [] <;> ring
  · simp only [seg3_p2]; ext <;> simp only [] <;> ring
  · simp only [seg3_p2]; ext <;> simp only [] <;> ring
  · simp only [OnPlane, V3.dot]
    have e : splitParam l pl * (pl.n.x * l.v.x + pl.n.y * l.v.y + pl.n.z * l.v.z) =
        pl.k - (pl.n.x * l.p.x + pl.n.y * l.p.y + pl.n.z * l.p.z) := by
      unfold splitParam V3.dot; field_simp
    linear_combination e
  · simp only [V3.add]; ext <;> simp only [] <;> ring

/-- `split_lengths_sum`: under the `sqrt` law the lengths of the two pieces are `u·|v|` and
`(1-u)·|v|` and add up to the length of the original segment. -/
theorem seg3_split_lengths (M : MathOps α)
    (hsqrt : ∀ x, 0 ≤ x → M.sqrt x * M.sqrt x = x ∧ 0 ≤ M.sqrt x)
    (l : LR3 α) (pl : PlaneS α) (hd : V3.dot pl.n l.v ≠ 0)
    (h0 : 0 ≤ splitParam l pl) (h1 : splitParam l pl ≤ 1) :
    ∃ s1 s2 : LR3 α, seg3_split_with_plane l pl = [s1, s2] ∧
      seg3_length M s1 = splitParam l pl * seg3_length M l ∧
      seg3_length M s2 = (1 - splitParam l pl) * seg3_length M l ∧
      seg3_length M s1 + seg3_length M s2 = seg3_length M l := by
  obtain ⟨s1, s2, hs, _, hv1, _, hv2, _⟩ := seg3_split_some l pl hd h0 h1
  have hn := v3_normSq_nonneg l.v
  have e1 : seg3_length M s1 = splitParam l pl * seg3_length M l := by
    have := sqrt_scale M hsqrt h0 hn (v3_smul_normSq (splitParam l pl) l.v)
    rw [← hv1] at this
    exact this
  have e2 : seg3_length M s2 = (1 - splitParam l pl) * seg3_length M l := by
    have := sqrt_scale M hsqrt (by linarith : 0 ≤ 1 - splitParam l pl) hn
      (v3_smul_normSq (1 - splitParam l pl) l.v)
    rw [← hv2] at this
    exact this
  exact ⟨s1, s2, hs, e1, e2, by rw [e1, e2]; ring⟩

/-! ## Non-vacuity / sanity (ℚ) -/

/-- `subdivide_evenly(9)` (the first `n` for which the float loop of the unrepaired 2D code drops
the last point) on the segment `(0,0) → (9,18)` in exact arithmetic: 10 points, `(j, 2j)`. -/
example :
    subdivideEvenly (seg2_point_at (⟨⟨0, 0⟩, ⟨9, 18⟩⟩ : LR2 ℚ)) ⟨0, 0⟩ ⟨9, 18⟩ 1 10 9 true =
      [⟨0, 0⟩, ⟨1, 2⟩, ⟨2, 4⟩, ⟨3, 6⟩, ⟨4, 8⟩, ⟨5, 10⟩, ⟨6, 12⟩, ⟨7, 14⟩, ⟨8, 16⟩, ⟨9, 18⟩] := by
  decide +kernel

/-- A concrete split: the segment `(0,0,-1) → (0,0,3)` cut by the plane `z = 0`: `u = 1/4`,
pieces `(0,0,-1) + [0,1]·(0,0,1)` and `(0,0,0) + [0,1]·(0,0,3)`. -/
example :
    let l : LR3 ℚ := ⟨⟨0, 0, -1⟩, ⟨0, 0, 4⟩⟩
    let pl : PlaneS ℚ := ⟨⟨0, 0, 1⟩, ⟨0, 0, 0⟩, 0, ⟨1, 0, 0⟩, ⟨0, 1, 0⟩⟩
    V3.dot pl.n l.v ≠ 0 ∧ splitParam l pl = 1 / 4 ∧
      seg3_split_with_plane l pl = [⟨⟨0, 0, -1⟩, ⟨0, 0, 1⟩⟩, ⟨⟨0, 0, 0⟩, ⟨0, 0, 3⟩⟩] := by
  refine ⟨by decide +kernel, by decide +kernel, by decide +kernel⟩

end Lbg.Props.C17
