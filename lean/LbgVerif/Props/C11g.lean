/-
  C11g — composite intersections: the GENERATED definitions of
  `Polygon2D.intersect_line_ray` / `intersect_line_infinite` (`Gen/PolyMore.lean`, from
  `geometry2d/polygon.py`), `Polyline2D.intersect_line_ray` / `intersect_line_infinite`
  (`Gen/Polyline.lean`, from `geometry2d/polyline.py`) and `Polyline3D.intersect_plane`
  (`Gen/Polyline.lean`, from `geometry3d/polyline.py`) are EQUAL to the literal hand models of
  `Model/IsectComposite.lean` (`polygonIntersectLineRay`, `polygonIntersectLineInfinite`,
  `polyline2IntersectLineRay`, `polyline2IntersectLineInfinite`, `polyline3IntersectPlane`).
  The suffix `_s` / `_r` of a generated kernel says whether the `line_ray` argument is a
  `LineSegment2D` or a `Ray2D`; the hand models take this as the flag `isRay`.

  Hence the theorems of `Props/C11b` about these hand models (the result is the list of kernel
  answers in edge order, soundness + completeness, counts, rotation / reversal invariance, the
  doubled hit at a shared vertex) are theorems about the regenerated code; a change of the loops
  in `polygon.py` / `polyline.py` (or of the inlined `intersect_line2d`, `intersect_line3d_plane`)
  changes the generated terms and breaks the equalities below.

  Receiver invariant registered for all these kernels: `3 ≤ vs.length`.  The polygon ties need
  only `vs ≠ []`, the polyline ties nothing.

  Not tied: `polygon2d_self_intersection_points` (`Polygon2D.self_intersection_points`) — it has
  no hand model in `Model/IsectComposite.lean` (nor elsewhere); the face / polyface / split
  routines of that model have no generated kernel (`seg3_split_with_plane` is tied in
  `Lemmas.seg3SplitWithPlane_eq_gen`).
-/
import LbgVerif.Gen.PolyMore
import LbgVerif.Gen.Polyline
import LbgVerif.Model.IsectComposite
import LbgVerif.Lemmas.IsectComposite
import LbgVerif.Lemmas.GenTiesC12
import LbgVerif.Props.C08g
import LbgVerif.Props.C11b
import Mathlib.Tactic.SplitIfs
import Mathlib.Algebra.Order.Field.Rat

namespace Lbg.Props.C11g
open Lbg Lbg.Gen Lbg.Lemmas Lbg.Lemmas.GenTiesC12 Lbg.Model Lbg.Model.IsectComposite
open Lbg.Props.C11 (OnSeg2 OnRay2 OnLine2 Transversal2 OnSeg3 OnPlane Crosses3)
variable {α : Type} [Field α] [LinearOrder α] [IsStrictOrderedRing α]

/-! ### The edge lists of polylines -/

omit [LinearOrder α] [IsStrictOrderedRing α] in
/-- TIE: generated `polyline2_segments` (Python `Polyline2D.segments`, `zip(vs[:-1], vs[1:])`)
= hand model `IsectComposite.polylineSegments2`. -/
theorem polyline2_segments_eq_model (vs : List (V2 α)) (i : Bool) :
    polyline2_segments vs i = polylineSegments2 vs := by
  unfold polylineSegments2
  rw [← zip_dropLast_drop_one]
  rfl

omit [LinearOrder α] [IsStrictOrderedRing α] in
/-- TIE: generated `polyline3_segments` (Python `Polyline3D.segments`) = hand model
`IsectComposite.polylineSegments3`. -/
theorem polyline3_segments_eq_model (vs : List (V3 α)) (i : Bool) :
    polyline3_segments vs i = polylineSegments3 vs := by
  unfold polylineSegments3
  rw [← zip_dropLast_drop_one]
  rfl

/-! ### The loops with the kernels inlined = `collect` of the generated kernels -/

omit [IsStrictOrderedRing α] in
/-- Generated `Polygon2D.intersect_line_ray` (segment argument): the loop over the generated
`segments` appending the non-`None` answers of the generated `intersect_line2d(_s, line_ray)`. -/
theorem polygon2d_intersect_line_ray_s_eq_collect (vs : List (V2 α)) (l : LR2 α) :
    polygon2d_intersect_line_ray_s vs l =
      collect (fun s => intersect_line2d_ss s l) (polygon2d_segments vs) := by
  unfold polygon2d_intersect_line_ray_s polygon2d_segments
  exact foldl_step_eq_collect (fun s => intersect_line2d_ss s l) _
    (fun st s => by unfold intersect_line2d_ss; simp only []; split_ifs <;> rfl) _

omit [IsStrictOrderedRing α] in
/-- Generated `Polygon2D.intersect_line_ray` (ray argument). -/
theorem polygon2d_intersect_line_ray_r_eq_collect (vs : List (V2 α)) (l : LR2 α) :
    polygon2d_intersect_line_ray_r vs l =
      collect (fun s => intersect_line2d_sr s l) (polygon2d_segments vs) := by
  unfold polygon2d_intersect_line_ray_r polygon2d_segments
  exact foldl_step_eq_collect (fun s => intersect_line2d_sr s l) _
    (fun st s => by unfold intersect_line2d_sr; simp only []; split_ifs <;> rfl) _

omit [IsStrictOrderedRing α] in
/-- Generated `Polygon2D.intersect_line_infinite` (segment argument). -/
theorem polygon2d_intersect_line_infinite_s_eq_collect (vs : List (V2 α)) (l : LR2 α) :
    polygon2d_intersect_line_infinite_s vs l =
      collect (fun s => intersect_line2d_infinite_ss s l) (polygon2d_segments vs) := by
  unfold polygon2d_intersect_line_infinite_s polygon2d_segments
  exact foldl_step_eq_collect (fun s => intersect_line2d_infinite_ss s l) _
    (fun st s => by unfold intersect_line2d_infinite_ss; simp only []; split_ifs <;> rfl) _

omit [IsStrictOrderedRing α] in
/-- Generated `Polygon2D.intersect_line_infinite` (ray argument). -/
theorem polygon2d_intersect_line_infinite_r_eq_collect (vs : List (V2 α)) (l : LR2 α) :
    polygon2d_intersect_line_infinite_r vs l =
      collect (fun s => intersect_line2d_infinite_sr s l) (polygon2d_segments vs) := by
  unfold polygon2d_intersect_line_infinite_r polygon2d_segments
  exact foldl_step_eq_collect (fun s => intersect_line2d_infinite_sr s l) _
    (fun st s => by unfold intersect_line2d_infinite_sr; simp only []; split_ifs <;> rfl) _

omit [IsStrictOrderedRing α] in
/-- Generated `Polyline2D.intersect_line_ray` (segment argument). -/
theorem polyline2_intersect_line_ray_s_eq_collect (vs : List (V2 α)) (i : Bool) (l : LR2 α) :
    polyline2_intersect_line_ray_s vs i l =
      collect (fun s => intersect_line2d_ss s l) (polyline2_segments vs i) := by
  unfold polyline2_intersect_line_ray_s polyline2_segments
  exact foldl_step_eq_collect (fun s => intersect_line2d_ss s l) _
    (fun st s => by unfold intersect_line2d_ss; simp only []; split_ifs <;> rfl) _

omit [IsStrictOrderedRing α] in
/-- Generated `Polyline2D.intersect_line_ray` (ray argument). -/
theorem polyline2_intersect_line_ray_r_eq_collect (vs : List (V2 α)) (i : Bool) (l : LR2 α) :
    polyline2_intersect_line_ray_r vs i l =
      collect (fun s => intersect_line2d_sr s l) (polyline2_segments vs i) := by
  unfold polyline2_intersect_line_ray_r polyline2_segments
  exact foldl_step_eq_collect (fun s => intersect_line2d_sr s l) _
    (fun st s => by unfold intersect_line2d_sr; simp only []; split_ifs <;> rfl) _

omit [IsStrictOrderedRing α] in
/-- Generated `Polyline2D.intersect_line_infinite` (segment argument). -/
theorem polyline2_intersect_line_infinite_s_eq_collect (vs : List (V2 α)) (i : Bool)
    (l : LR2 α) :
    polyline2_intersect_line_infinite_s vs i l =
      collect (fun s => intersect_line2d_infinite_ss s l) (polyline2_segments vs i) := by
  unfold polyline2_intersect_line_infinite_s polyline2_segments
  exact foldl_step_eq_collect (fun s => intersect_line2d_infinite_ss s l) _
    (fun st s => by unfold intersect_line2d_infinite_ss; simp only []; split_ifs <;> rfl) _

omit [IsStrictOrderedRing α] in
/-- Generated `Polyline2D.intersect_line_infinite` (ray argument). -/
theorem polyline2_intersect_line_infinite_r_eq_collect (vs : List (V2 α)) (i : Bool)
    (l : LR2 α) :
    polyline2_intersect_line_infinite_r vs i l =
      collect (fun s => intersect_line2d_infinite_sr s l) (polyline2_segments vs i) := by
  unfold polyline2_intersect_line_infinite_r polyline2_segments
  exact foldl_step_eq_collect (fun s => intersect_line2d_infinite_sr s l) _
    (fun st s => by unfold intersect_line2d_infinite_sr; simp only []; split_ifs <;> rfl) _

omit [IsStrictOrderedRing α] in
/-- Generated `Polyline3D.intersect_plane`: the loop over the generated `segments` appending the
non-`None` answers of the generated `intersect_line3d_plane(_s, plane)`. -/
theorem polyline3_intersect_plane_eq_collect (vs : List (V3 α)) (i : Bool) (pl : PlaneS α) :
    polyline3_intersect_plane vs i pl =
      collect (fun s => intersect_line3d_plane_s s pl) (polyline3_segments vs i) := by
  unfold polyline3_intersect_plane polyline3_segments
  exact foldl_step_eq_collect (fun s => intersect_line3d_plane_s s pl) _
    (fun st s => by unfold intersect_line3d_plane_s; simp only []; split_ifs <;> rfl) _

/-! ### The ties -/

omit [IsStrictOrderedRing α] in
/-- TIE: generated `polygon2d_intersect_line_ray_s` (Python `Polygon2D.intersect_line_ray` with a
`LineSegment2D`) = hand model `polygonIntersectLineRay … false`. -/
theorem polygon2d_intersect_line_ray_s_eq_model (vs : List (V2 α)) (h : vs ≠ []) (l : LR2 α) :
    polygon2d_intersect_line_ray_s vs l = polygonIntersectLineRay vs false l := by
  rw [polygon2d_intersect_line_ray_s_eq_collect, C08g.polygon2d_segments_eq_model vs h]
  rfl

omit [IsStrictOrderedRing α] in
/-- TIE: generated `polygon2d_intersect_line_ray_r` (Python `Polygon2D.intersect_line_ray` with a
`Ray2D`) = hand model `polygonIntersectLineRay … true`. -/
theorem polygon2d_intersect_line_ray_r_eq_model (vs : List (V2 α)) (h : vs ≠ []) (l : LR2 α) :
    polygon2d_intersect_line_ray_r vs l = polygonIntersectLineRay vs true l := by
  rw [polygon2d_intersect_line_ray_r_eq_collect, C08g.polygon2d_segments_eq_model vs h]
  rfl

omit [IsStrictOrderedRing α] in
/-- TIE: generated `polygon2d_intersect_line_infinite_s` (Python
`Polygon2D.intersect_line_infinite` with a `LineSegment2D`) = hand model
`polygonIntersectLineInfinite … false`. -/
theorem polygon2d_intersect_line_infinite_s_eq_model (vs : List (V2 α)) (h : vs ≠ [])
    (l : LR2 α) :
    polygon2d_intersect_line_infinite_s vs l = polygonIntersectLineInfinite vs false l := by
  rw [polygon2d_intersect_line_infinite_s_eq_collect, C08g.polygon2d_segments_eq_model vs h]
  rfl

omit [IsStrictOrderedRing α] in
/-- TIE: generated `polygon2d_intersect_line_infinite_r` (Python
`Polygon2D.intersect_line_infinite` with a `Ray2D`) = hand model
`polygonIntersectLineInfinite … true`. -/
theorem polygon2d_intersect_line_infinite_r_eq_model (vs : List (V2 α)) (h : vs ≠ [])
    (l : LR2 α) :
    polygon2d_intersect_line_infinite_r vs l = polygonIntersectLineInfinite vs true l := by
  rw [polygon2d_intersect_line_infinite_r_eq_collect, C08g.polygon2d_segments_eq_model vs h]
  rfl

omit [IsStrictOrderedRing α] in
/-- TIE: generated `polyline2_intersect_line_ray_s` (Python `Polyline2D.intersect_line_ray` with a
`LineSegment2D`) = hand model `polyline2IntersectLineRay … false`.  No assumptions. -/
theorem polyline2_intersect_line_ray_s_eq_model (vs : List (V2 α)) (i : Bool) (l : LR2 α) :
    polyline2_intersect_line_ray_s vs i l = polyline2IntersectLineRay vs false l := by
  rw [polyline2_intersect_line_ray_s_eq_collect, polyline2_segments_eq_model]
  rfl

omit [IsStrictOrderedRing α] in
/-- TIE: generated `polyline2_intersect_line_ray_r` (Python `Polyline2D.intersect_line_ray` with a
`Ray2D`) = hand model `polyline2IntersectLineRay … true`.  No assumptions. -/
theorem polyline2_intersect_line_ray_r_eq_model (vs : List (V2 α)) (i : Bool) (l : LR2 α) :
    polyline2_intersect_line_ray_r vs i l = polyline2IntersectLineRay vs true l := by
  rw [polyline2_intersect_line_ray_r_eq_collect, polyline2_segments_eq_model]
  rfl

omit [IsStrictOrderedRing α] in
/-- TIE: generated `polyline2_intersect_line_infinite_s` (Python
`Polyline2D.intersect_line_infinite` with a `LineSegment2D`) = hand model
`polyline2IntersectLineInfinite … false`.  No assumptions. -/
theorem polyline2_intersect_line_infinite_s_eq_model (vs : List (V2 α)) (i : Bool) (l : LR2 α) :
    polyline2_intersect_line_infinite_s vs i l = polyline2IntersectLineInfinite vs false l := by
  rw [polyline2_intersect_line_infinite_s_eq_collect, polyline2_segments_eq_model]
  rfl

omit [IsStrictOrderedRing α] in
/-- TIE: generated `polyline2_intersect_line_infinite_r` (Python
`Polyline2D.intersect_line_infinite` with a `Ray2D`) = hand model
`polyline2IntersectLineInfinite … true`.  No assumptions. -/
theorem polyline2_intersect_line_infinite_r_eq_model (vs : List (V2 α)) (i : Bool) (l : LR2 α) :
    polyline2_intersect_line_infinite_r vs i l = polyline2IntersectLineInfinite vs true l := by
  rw [polyline2_intersect_line_infinite_r_eq_collect, polyline2_segments_eq_model]
  rfl

omit [IsStrictOrderedRing α] in
/-- TIE: generated `polyline3_intersect_plane` (Python `Polyline3D.intersect_plane`) = hand model
`polyline3IntersectPlane`.  No assumptions. -/
theorem polyline3_intersect_plane_eq_model (vs : List (V3 α)) (i : Bool) (pl : PlaneS α) :
    polyline3_intersect_plane vs i pl = polyline3IntersectPlane vs pl := by
  rw [polyline3_intersect_plane_eq_collect, polyline3_segments_eq_model]
  rfl

/-! ### Hand-model theorems of `Props/C11b` transported to the generated definitions -/

/-- (from `C11b.polygon_line_ray_mem_iff`) Soundness and completeness of the generated
`Polygon2D.intersect_line_ray` with a segment argument: `q` is returned iff some edge of the
polygon is transversal to the argument and `q` lies on that edge and on the argument, both
parameters in `[0, 1]`. -/
theorem gen_polygon_line_seg_mem_iff (vs : List (V2 α)) (h : vs ≠ []) (l : LR2 α) (q : V2 α) :
    q ∈ polygon2d_intersect_line_ray_s vs l ↔
      ∃ s ∈ polygon2d_segments vs, Transversal2 s l ∧ OnSeg2 s q ∧ OnSeg2 l q := by
  rw [polygon2d_intersect_line_ray_s_eq_model vs h, C08g.polygon2d_segments_eq_model vs h]
  exact C11b.polygon_line_ray_mem_iff vs false l q

/-- (from `C11b.polygon_line_ray_sound`) Soundness of the generated
`Polygon2D.intersect_line_ray` with a segment argument: every returned point lies on an edge of
the polygon and on the argument segment. -/
theorem gen_polygon_line_seg_sound (vs : List (V2 α)) (h : vs ≠ []) (l : LR2 α) (q : V2 α)
    (hq : q ∈ polygon2d_intersect_line_ray_s vs l) :
    (∃ s ∈ polygon2d_segments vs, OnSeg2 s q) ∧ OnSeg2 l q := by
  rw [polygon2d_intersect_line_ray_s_eq_model vs h] at hq
  rw [C08g.polygon2d_segments_eq_model vs h]
  exact C11b.polygon_line_ray_sound vs false l q hq

/-- (from `C11b.polygon_line_ray_mem_iff`) The same for a ray argument: the parameter on the ray
is only required to be `≥ 0`. -/
theorem gen_polygon_ray_mem_iff (vs : List (V2 α)) (h : vs ≠ []) (l : LR2 α) (q : V2 α) :
    q ∈ polygon2d_intersect_line_ray_r vs l ↔
      ∃ s ∈ polygon2d_segments vs, Transversal2 s l ∧ OnSeg2 s q ∧ OnRay2 l q := by
  rw [polygon2d_intersect_line_ray_r_eq_model vs h, C08g.polygon2d_segments_eq_model vs h]
  exact C11b.polygon_line_ray_mem_iff vs true l q

/-- (from `C11b.polygon_line_ray_rotate`) Starting the vertex list at another vertex rotates
the result of the generated `Polygon2D.intersect_line_ray`. -/
theorem gen_polygon_line_seg_rotate (vs : List (V2 α)) (h : vs ≠ []) (n : ℕ) (l : LR2 α) :
    (polygon2d_intersect_line_ray_s (vs.rotate n) l).IsRotated
      (polygon2d_intersect_line_ray_s vs l) := by
  have hr : vs.rotate n ≠ [] := by simpa using h
  rw [polygon2d_intersect_line_ray_s_eq_model vs h,
    polygon2d_intersect_line_ray_s_eq_model _ hr]
  exact C11b.polygon_line_ray_rotate vs n false l

/-- (from `C11b.polygon_line_infinite_mem_iff`) Soundness and completeness of the generated
`Polygon2D.intersect_line_infinite`: `q` is returned iff some edge is transversal to the
argument and `q` lies on that edge and on the infinite carrier line of the argument. -/
theorem gen_polygon_line_infinite_mem_iff (vs : List (V2 α)) (h : vs ≠ []) (l : LR2 α)
    (q : V2 α) :
    q ∈ polygon2d_intersect_line_infinite_r vs l ↔
      ∃ s ∈ polygon2d_segments vs, Transversal2 s l ∧ OnSeg2 s q ∧ OnLine2 l q := by
  rw [polygon2d_intersect_line_infinite_r_eq_model vs h, C08g.polygon2d_segments_eq_model vs h]
  exact C11b.polygon_line_infinite_mem_iff vs true l q

/-- (from `C11b.polyline3_plane_mem_iff`) Soundness and completeness of the generated
`Polyline3D.intersect_plane`: `q` is returned iff some edge is not parallel to the plane and `q`
lies on that edge and on the plane. -/
theorem gen_polyline3_plane_mem_iff (vs : List (V3 α)) (i : Bool) (pl : PlaneS α) (q : V3 α) :
    q ∈ polyline3_intersect_plane vs i pl ↔
      ∃ s ∈ polyline3_segments vs i, Crosses3 s pl ∧ OnSeg3 s q ∧ OnPlane pl q := by
  rw [polyline3_intersect_plane_eq_model, polyline3_segments_eq_model]
  exact C11b.polyline3_plane_mem_iff vs pl q

/-- (from `C11b.polyline2_line_ray_reverse`) Reversing the polyline reverses the result of the
generated `Polyline2D.intersect_line_ray`. -/
theorem gen_polyline2_line_seg_reverse (vs : List (V2 α)) (i : Bool) (l : LR2 α) :
    polyline2_intersect_line_ray_s vs.reverse i l
      = (polyline2_intersect_line_ray_s vs i l).reverse := by
  rw [polyline2_intersect_line_ray_s_eq_model, polyline2_intersect_line_ray_s_eq_model]
  exact C11b.polyline2_line_ray_reverse vs false l

/-! ### Non-vacuity: the generated kernels on concrete inputs (ℚ) -/

/-- The square `(0,0) (2,0) (2,2) (0,2)` cut by the segment `(-1,1) → (3,1)`: edge order
(right edge first, then left edge); the ray from `(1,1)` meets only the right edge; a cut through
the vertex `(2,2)` is reported by both adjacent edges. -/
example : polygon2d_intersect_line_ray_s ([⟨0, 0⟩, ⟨2, 0⟩, ⟨2, 2⟩, ⟨0, 2⟩] : List (V2 ℚ))
      ⟨⟨-1, 1⟩, ⟨4, 0⟩⟩ = [⟨2, 1⟩, ⟨0, 1⟩] ∧
    polygon2d_intersect_line_ray_r ([⟨0, 0⟩, ⟨2, 0⟩, ⟨2, 2⟩, ⟨0, 2⟩] : List (V2 ℚ))
      ⟨⟨1, 1⟩, ⟨1, 0⟩⟩ = [⟨2, 1⟩] ∧
    polygon2d_intersect_line_infinite_r ([⟨0, 0⟩, ⟨2, 0⟩, ⟨2, 2⟩, ⟨0, 2⟩] : List (V2 ℚ))
      ⟨⟨1, 1⟩, ⟨1, 1⟩⟩ = [⟨0, 0⟩, ⟨2, 2⟩, ⟨2, 2⟩, ⟨0, 0⟩] := by decide +kernel

example : polyline2_intersect_line_ray_s ([⟨0, 0⟩, ⟨2, 0⟩, ⟨2, 2⟩] : List (V2 ℚ)) false
      ⟨⟨1, -1⟩, ⟨2, 4⟩⟩ = [⟨3 / 2, 0⟩, ⟨2, 1⟩] ∧
    polyline3_intersect_plane ([⟨0, 0, 0⟩, ⟨0, 0, 2⟩, ⟨1, 0, 2⟩, ⟨1, 0, 0⟩] : List (V3 ℚ)) false
      ⟨⟨0, 0, 1⟩, ⟨0, 0, 1⟩, 1, ⟨1, 0, 0⟩, ⟨0, 1, 0⟩⟩ = [⟨0, 0, 1⟩, ⟨1, 0, 1⟩] := by decide +kernel

end Lbg.Props.C11g
