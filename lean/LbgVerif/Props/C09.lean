/-
  C09 — "Coplanar face booleans and splits partition the face region."   (PARTIAL)

  What is proved here:

  A. Transfer between a face and its plane polygon (generated kernels `plane_xy_to_xyz`,
     `plane_xyz_to_xy`; valid frame `PlaneValid` from C02/C06): the plane map is injective and
     inverted by `xyz_to_xy`; images of 2D regions commute with union, intersection and
     difference (so the 3D faces realise the same set operation as their plane polygons);
     the lifted loop lies on the plane, its Newell vector is `shoelace • n` — the 3D face has
     the normal direction given by the winding of its polygon and area `|shoelace| / 2`
     (squared form, and with the `sqrt` law).
  B. **`group_evenodd`** for the REPAIRED grouping loop of `Face3D._from_bool_poly`
     (hand model `Model/BoolGroup.lean`, checked against the real method by the driver op
     `model.bool_group`): let the loops be listed so that containers come first (the code
     sorts by area, descending) and let any two loops be either disjoint or nested (laminar
     family).  Then for EVERY point the number of returned faces (outer loop minus its holes)
     containing it is `(number of loops containing it) mod 2`: the faces are pairwise
     disjoint and their union is exactly the even-odd region — for ANY nesting depth.
     The hypothesis on a point is stated abstractly through the set of loops containing it
     (`mem`); `group_evenodd_laminar` derives it from a containment relation on an arbitrary
     point type.  The `tolerance is None` branch (no look at existing holes) is shown to FAIL
     at depth 3 (an island inside a hole is swallowed).
  C. Area conservation on the cell specification (C04 §5 read for faces): split parts
     partition, difference = A − intersection, union + intersection = sum.

  What is NOT proved: everything C04 leaves open (the sweep), `polygon_relationship` /
  `is_polygon_inside` (the containment test is abstract here: the theorem needs it to be
  exact on the returned loops; a hole touching the boundary at a vertex used to violate that
  — see known findings), that sorting by area puts containers first (monotonicity of area,
  geometric), `DirectedGraphNetwork` cycle extraction for the `split_with_*` family,
  `merge_faces_to_holes` (same grouping idea, not modelled).
-/
import LbgVerif.Gen.Plane
import LbgVerif.Model.BoolGroup
import LbgVerif.Lemmas.BoolGroup
import LbgVerif.Lemmas.Shoelace
import LbgVerif.Lemmas.Newell
import LbgVerif.Props.C02
import LbgVerif.Props.C06
import Mathlib.Tactic.Ring
import Mathlib.Tactic.Linarith
import Mathlib.Tactic.LinearCombination
import Mathlib.Tactic.NormNum
import Mathlib.Algebra.Order.Field.Rat
import Mathlib.Data.Finset.Card

set_option linter.unusedSectionVars false
set_option linter.unusedVariables false
set_option linter.unusedSimpArgs false

namespace Lbg.Props.C09
open Lbg Lbg.Gen Lbg.Lemmas Lbg.Model
open Lbg.Props.C02 (PlaneValid OnPlane)
variable {α : Type} [Field α] [LinearOrder α] [IsStrictOrderedRing α]

/-! ## Predicates used in the statements -/

/-- The 3D image of a 2D region under the plane map. -/
def liftRegion (pl : PlaneS α) (A : V2 α → Prop) (p : V3 α) : Prop :=
  ∃ q, A q ∧ plane_xy_to_xyz pl q = p

/-- The point (described by the set `mem` of loops containing it) lies in the face made of the
group's outer loop minus its holes. -/
def inFace {L : Type} (mem : L → Bool) (g : L × List L) : Bool := inRegion mem g

/-- Even-odd rule: the point lies in the region bounded by the loops iff an odd number of loops
contain it. -/
def evenOdd {L : Type} (mem : L → Bool) (loops : List L) : Bool :=
  decide (loops.countP (fun l => mem l) % 2 = 1)

/-! ## A. Face ↔ plane polygon -/

/-- The plane map of a valid frame is injective. -/
theorem plane_map_injective {pl : PlaneS α} (hv : PlaneValid pl) (a b : V2 α)
    (h : plane_xy_to_xyz pl a = plane_xy_to_xyz pl b) : a = b := by
  have := congrArg (plane_xyz_to_xy pl) h
  rwa [C06.plane_xy_roundtrip hv, C06.plane_xy_roundtrip hv] at this

/-- A 3D point is in the image of a region iff it lies on the plane and its plane coordinates
are in the region: membership transfers through `xyz_to_xy`. -/
theorem lift_mem_iff {pl : PlaneS α} (hv : PlaneValid pl) (A : V2 α → Prop) (p : V3 α) :
    liftRegion pl A p ↔ OnPlane pl p ∧ A (plane_xyz_to_xy pl p) := by
  constructor
  · rintro ⟨q, hq, rfl⟩
    exact ⟨C06.plane_xy_to_xyz_on_plane hv q, by rwa [C06.plane_xy_roundtrip hv]⟩
  · rintro ⟨hp, hA⟩
    exact ⟨_, hA, C06.plane_xyz_roundtrip hv p hp⟩

/-- Set relations transfer: the image of a union / intersection / difference of plane regions
is the union / intersection / difference of the images (the last two by injectivity). -/
theorem lift_set_ops {pl : PlaneS α} (hv : PlaneValid pl) (A B : V2 α → Prop) (p : V3 α) :
    (liftRegion pl (fun q => A q ∨ B q) p ↔ liftRegion pl A p ∨ liftRegion pl B p) ∧
    (liftRegion pl (fun q => A q ∧ B q) p ↔ liftRegion pl A p ∧ liftRegion pl B p) ∧
    (liftRegion pl (fun q => A q ∧ ¬ B q) p ↔ liftRegion pl A p ∧ ¬ liftRegion pl B p) := by
  simp only [lift_mem_iff hv]
  refine ⟨by tauto, by tauto, by tauto⟩

/-- Containment transfers: `A ⊆ B` in the plane iff the image of `A` is inside the image of
`B`. -/
theorem lift_subset_iff {pl : PlaneS α} (hv : PlaneValid pl) (A B : V2 α → Prop) :
    (∀ q, A q → B q) ↔ (∀ p, liftRegion pl A p → liftRegion pl B p) := by
  constructor
  · rintro h p ⟨q, hq, rfl⟩; exact ⟨q, h q hq, rfl⟩
  · intro h q hq
    obtain ⟨q', hq', e⟩ := h _ ⟨q, hq, rfl⟩
    rwa [← plane_map_injective hv q' q e]

/-- The faces built by `_from_bool_poly` (`plane.xy_to_xyz` of every polygon vertex) lie in
the plane of the first operand. -/
theorem lifted_face_on_plane {pl : PlaneS α} (hv : PlaneValid pl) (cs : List (V2 α)) :
    ∀ p ∈ cs.map (plane_xy_to_xyz pl), OnPlane pl p := by
  intro p hp
  obtain ⟨q, _, rfl⟩ := List.mem_map.mp hp
  exact C06.plane_xy_to_xyz_on_plane hv q

/-- Normal direction and area of a lifted loop: its Newell vector is `shoelace(cs) • n`; its
component along the plane normal is the doubled SIGNED area of the polygon, and its squared
length is the squared doubled area.  Hence the 3D face has area `|shoelace| / 2` and the
normal `+n` for a counter-clockwise polygon, `-n` for a clockwise one. -/
theorem lifted_face_newell {pl : PlaneS α} (hv : PlaneValid pl) (cs : List (V2 α)) :
    newell (cs.map (plane_xy_to_xyz pl)) = V3.smul (shoelace cs) pl.n ∧
    V3.dot (newell (cs.map (plane_xy_to_xyz pl))) pl.n = shoelace cs ∧
    V3.normSq (newell (cs.map (plane_xy_to_xyz pl))) = shoelace cs * shoelace cs := by
  have e : newell (cs.map (plane_xy_to_xyz pl)) = V3.smul (shoelace cs) pl.n := by
    rw [← C06.fan_eq_newell, C06.fan_planar hv]
  have hn := hv.n_unit
  refine ⟨e, ?_, ?_⟩
  · rw [e]; simp only [V3.dot, V3.smul, V3.normSq] at hn ⊢
    linear_combination (shoelace cs) * hn
  · rw [e]; simp only [V3.smul, V3.normSq] at hn ⊢
    linear_combination (shoelace cs * shoelace cs) * hn

/-- Area of the 3D face under the `sqrt` law: half the length of the Newell vector is
`|shoelace| / 2`, the area of the plane polygon. -/
theorem lifted_face_area (M : MathOps α)
    (hsqrt : ∀ x, 0 ≤ x → M.sqrt x * M.sqrt x = x ∧ 0 ≤ M.sqrt x)
    {pl : PlaneS α} (hv : PlaneValid pl) (cs : List (V2 α)) :
    M.sqrt (V3.normSq (newell (cs.map (plane_xy_to_xyz pl)))) / 2 = |shoelace cs| / 2 := by
  rw [(lifted_face_newell hv cs).2.2]
  obtain ⟨h1, h2⟩ := hsqrt (shoelace cs * shoelace cs) (mul_self_nonneg _)
  congr 1
  have h3 : |shoelace cs| * |shoelace cs| = shoelace cs * shoelace cs := abs_mul_abs_self _
  have h4 := abs_nonneg (shoelace cs)
  nlinarith [mul_self_nonneg (M.sqrt (shoelace cs * shoelace cs) - |shoelace cs|),
    mul_nonneg h2 h4]

/-! ## B. Grouping the loops of a boolean result into faces with holes -/

section grouping
variable {L : Type}

/-- The literal two-stage form of the code (first polygon seeds the groups, then the loop over
`polys[1:]`) is the loop over all polygons started from no group. -/
theorem group_loops_eq_foldl (inside : L → L → Bool) (polys : List L) :
    groupLoops inside polys = polys.foldl (placeLoop (isHoleOf inside)) [] :=
  groupWith_eq_foldl _ polys

/-- Every stored loop is an input loop: nothing is invented or duplicated by the grouping. -/
theorem group_loops_subset (inside : L → L → Bool) (polys : List L) :
    ∀ l ∈ loopsOf (groupLoops inside polys), l ∈ polys := by
  rw [group_loops_eq_foldl]
  have gen : ∀ (rest : List L) (gs : List (L × List L)),
      ∀ l ∈ loopsOf (rest.foldl (placeLoop (isHoleOf inside)) gs), l ∈ loopsOf gs ∨ l ∈ rest := by
    intro rest
    induction rest with
    | nil => intro gs l hl; exact Or.inl hl
    | cons s rest ih =>
      intro gs l hl
      rw [List.foldl_cons] at hl
      rcases ih _ l hl with h | h
      · rcases loopsOf_placeLoop _ gs s l h with rfl | h'
        · exact Or.inr List.mem_cons_self
        · exact Or.inl h'
      · exact Or.inr (List.mem_cons_of_mem _ h)
  intro l hl
  rcases gen polys [] l hl with h | h
  · simp [loopsOf] at h
  · exact h

/-- **`group_evenodd`** (counting form, any nesting depth).  Fix a point and let `mem l` say
whether loop `l` contains it.  Assume
* `hnest`: a point inside `b` is inside every loop that contains `b`;
* `hsorted`: for loops `a` before `b` in the (area-sorted) list that both contain the point,
  `a` contains `b` (they are nested, not crossing, and the container comes first).
Then the number of returned faces containing the point is `#{loops containing it} mod 2` —
in particular it is 0 or 1: the faces never overlap. -/
theorem group_evenodd_count (inside : L → L → Bool) (mem : L → Bool) (polys : List L)
    (hnest : ∀ a b, inside a b = true → mem b = true → mem a = true)
    (hsorted : polys.Pairwise (fun a b => mem a = true → mem b = true → inside a b = true)) :
    ((groupLoops inside polys).filter (inFace mem)).length =
      polys.countP (fun l => mem l) % 2 := by
  rw [group_loops_eq_foldl]
  have := cover_foldl inside mem hnest polys [] 0 (by simp [loopsOf]) hsorted (by simp [cover])
  have e : inFace mem = inRegion mem := funext fun g => rfl
  rw [e]
  simpa [cover] using this

/-- **`group_evenodd`**: under the same hypotheses the point lies in the union of the returned
faces (outer minus holes) iff an odd number of loops contain it (even-odd rule). -/
theorem group_evenodd (inside : L → L → Bool) (mem : L → Bool) (polys : List L)
    (hnest : ∀ a b, inside a b = true → mem b = true → mem a = true)
    (hsorted : polys.Pairwise (fun a b => mem a = true → mem b = true → inside a b = true)) :
    (groupLoops inside polys).any (inFace mem) = evenOdd mem polys := by
  have h := group_evenodd_count inside mem polys hnest hsorted
  unfold evenOdd
  by_cases hp : polys.countP (fun l => mem l) % 2 = 1
  · rw [hp] at h
    simp only [hp, decide_true]
    rw [List.any_eq_true]
    have : 0 < ((groupLoops inside polys).filter (inFace mem)).length := by omega
    obtain ⟨g, hg⟩ := List.exists_mem_of_length_pos this
    rw [List.mem_filter] at hg
    exact ⟨g, hg.1, hg.2⟩
  · have h0 : polys.countP (fun l => mem l) % 2 = 0 := by omega
    rw [h0] at h
    simp only [hp, decide_false]
    rw [List.any_eq_false]
    intro g hg hin
    have : g ∈ (groupLoops inside polys).filter (inFace mem) := List.mem_filter.mpr ⟨hg, hin⟩
    rw [List.length_eq_zero_iff.mp h] at this
    simp at this

/-- The returned faces are pairwise disjoint: no point lies in two of them. -/
theorem group_faces_disjoint (inside : L → L → Bool) (mem : L → Bool) (polys : List L)
    (hnest : ∀ a b, inside a b = true → mem b = true → mem a = true)
    (hsorted : polys.Pairwise (fun a b => mem a = true → mem b = true → inside a b = true)) :
    ((groupLoops inside polys).filter (inFace mem)).length ≤ 1 := by
  rw [group_evenodd_count inside mem polys hnest hsorted]; omega

/-- **`group_evenodd_laminar`**: the same for an arbitrary point type.  `contains l x` says
that point `x` lies inside loop `l`.  If containment of loops implies containment of points and
the sorted list is a laminar family with containers first (any earlier loop either contains a
later one or is disjoint from it), then for EVERY point `x` membership in the union of the
returned faces equals the even-odd rule, and the faces are pairwise disjoint. -/
theorem group_evenodd_laminar {Pt : Type} (inside : L → L → Bool) (contains : L → Pt → Bool)
    (polys : List L)
    (hnest : ∀ a b, inside a b = true → ∀ x, contains b x = true → contains a x = true)
    (hlam : polys.Pairwise (fun a b => inside a b = true ∨
        ∀ x, ¬ (contains a x = true ∧ contains b x = true))) (x : Pt) :
    (groupLoops inside polys).any (inFace (fun l => contains l x)) =
        evenOdd (fun l => contains l x) polys ∧
    ((groupLoops inside polys).filter (inFace (fun l => contains l x))).length ≤ 1 := by
  have hs : polys.Pairwise (fun a b => (fun l => contains l x) a = true →
      (fun l => contains l x) b = true → inside a b = true) := by
    refine hlam.imp ?_
    intro a b h ha hb
    rcases h with h | h
    · exact h
    · exact absurd ⟨ha, hb⟩ (h x)
  exact ⟨group_evenodd inside _ polys (fun a b hab hb => hnest a b hab x hb) hs,
    group_faces_disjoint inside _ polys (fun a b hab hb => hnest a b hab x hb) hs⟩

end grouping

/-- Non-vacuity and the depth-3 witness.  Loops `0 ⊃ 1 ⊃ 2 ⊃ 3` and a separate loop `4`
(`inside a b` iff `a < b ≤ 3`).  The repaired loop returns the faces `0 − 1`, `2 − 3`, `4`;
a point inside loops `0, 1, 2` (odd) is covered, one inside `0, 1` (even) is not. -/
example :
    let inside : ℕ → ℕ → Bool := fun a b => decide (a < b ∧ b ≤ 3)
    groupLoops inside [0, 1, 2, 3, 4] = [(0, [1]), (2, [3]), (4, [])] ∧
    (groupLoops inside [0, 1, 2, 3, 4]).any (inFace (fun l => decide (l ≤ 2))) = true ∧
    evenOdd (fun l => decide (l ≤ 2)) [0, 1, 2, 3, 4] = true ∧
    (groupLoops inside [0, 1, 2, 3, 4]).any (inFace (fun l => decide (l ≤ 1))) = false ∧
    evenOdd (fun l => decide (l ≤ 1)) [0, 1, 2, 3, 4] = false := by
  decide

/-- The `tolerance is None` branch does not look at the holes a group already has: with
`0 ⊃ 1 ⊃ 2` the island `2` becomes a second hole of `0`, so a point inside all three loops
(odd: it belongs to the region) is in NO returned face — `group_evenodd` fails for that
branch at nesting depth 3. -/
example :
    let inside : ℕ → ℕ → Bool := fun a b => decide (a < b)
    groupLoopsNoTol inside [0, 1, 2] = [(0, [1, 2])] ∧
    (groupLoopsNoTol inside [0, 1, 2]).any (inFace (fun _ => true)) = false ∧
    evenOdd (fun _ => true) [0, 1, 2] = true ∧
    groupLoops inside [0, 1, 2] = [(0, [1]), (2, [])] := by
  decide

/-! ## C. Area conservation on the cell specification -/

section cells
variable {C : Type} [DecidableEq C]

/-- `coplanar_split` / `split_with_*`: the parts `A ∩ B`, `A \ B` partition `A` (and likewise
`B`): they are disjoint, cover the operand, and their areas (cell counts) add up to the
original. -/
theorem split_parts_partition (A B : Finset C) :
    Disjoint (A \ B) (A ∩ B) ∧ A = (A \ B) ∪ (A ∩ B) ∧
    A.card = (A \ B).card + (A ∩ B).card ∧ B.card = (B \ A).card + (A ∩ B).card := by
  refine ⟨?_, ?_, ?_, ?_⟩
  · rw [Finset.disjoint_left]
    intro x h1 h2
    simp only [Finset.mem_sdiff, Finset.mem_inter] at h1 h2
    tauto
  · ext x
    simp only [Finset.mem_union, Finset.mem_sdiff, Finset.mem_inter]
    tauto
  · rw [Finset.card_sdiff_add_card_inter]
  · rw [Finset.inter_comm, Finset.card_sdiff_add_card_inter]

/-- `coplanar_difference`: area of the difference = area of `A` minus area of the
intersection. -/
theorem difference_area (A B : Finset C) : (A \ B).card = A.card - (A ∩ B).card := by
  have := (split_parts_partition A B).2.2.1
  omega

/-- `coplanar_union` / `coplanar_intersection`: union + intersection = sum of the operands. -/
theorem union_intersection_area (A B : Finset C) :
    (A ∪ B).card + (A ∩ B).card = A.card + B.card :=
  Finset.card_union_add_card_inter A B

end cells

end Lbg.Props.C09
