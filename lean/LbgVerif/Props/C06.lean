/-
  C06 — Face3D plane, normal and right-hand-rule contract.

  Property theorems about the kernels regenerated from the repository by py2lean:
  `plane_init`, `plane_init_x` (`Plane.__init__`, both x-axis branches), `plane_xyz_to_xy`,
  `plane_xy_to_xyz`, `plane_flip`, `face3d_normal_from_3pts`, `polygon2d_is_clockwise`.

  A. the constructed plane is a valid frame (unit normal, orthonormal RIGHT-HANDED axes,
     `k = n·o`) in both x-axis branches and with a user x-axis — under the `sqrt` law only;
  B. the 2D↔3D maps are mutually inverse on the plane and are isometries;
  C. the summed fan of cross products of `_plane_from_vertices` is the Newell vector, is
     independent of the start vertex, is negated by reversal and equals
     `shoelace(coords) • n` for a loop lying in a valid frame: **`normal_is_rhr`**;
  D. **`ctor_not_clockwise`**: after the `enforce_right_hand` step the stored boundary has
     positive shoelace in the stored plane (own plane or user plane of either orientation);
  E. `flip`: normal negated, frame still valid, reversed boundary has the same shoelace in
     the flipped plane as the original boundary in the original plane.

  Not proved here (float rounding): unit length of the stored normal beyond the `sqrt` law.
-/
import LbgVerif.Gen.Vec
import LbgVerif.Gen.Plane
import LbgVerif.Gen.Face
import LbgVerif.Gen.Poly
import LbgVerif.Props.C02
import LbgVerif.Lemmas.Frame
import LbgVerif.Lemmas.Newell
import LbgVerif.Lemmas.Shoelace
import Mathlib.Tactic.Ring
import Mathlib.Tactic.FieldSimp
import Mathlib.Tactic.Linarith
import Mathlib.Tactic.Positivity
import Mathlib.Tactic.LinearCombination
import Mathlib.Tactic.SplitIfs
import Mathlib.Tactic.NormNum
import Mathlib.Algebra.Order.Field.Rat

set_option linter.unusedSectionVars false
set_option linter.unusedVariables false
set_option linter.unusedTactic false
set_option linter.unusedSimpArgs false
set_option linter.unreachableTactic false
set_option linter.unnecessarySeqFocus false

namespace Lbg.Props.C06
open Lbg Lbg.Gen Lbg.Lemmas
open Lbg.Props.C02 (PlaneValid OnPlane distSq2 distSq3 planeValid_mk)
variable {α : Type} [Field α] [LinearOrder α] [IsStrictOrderedRing α]

/-! ## A. `Plane.__init__` builds a valid right-handed frame -/

/-- `frame_orthonormal`: in a valid plane `x`, `y`, `n` are pairwise perpendicular unit
vectors. -/
theorem frame_orthonormal {pl : PlaneS α} (hv : PlaneValid pl) :
    V3.normSq pl.n = 1 ∧ V3.normSq pl.x = 1 ∧ V3.normSq pl.y = 1 ∧
    V3.dot pl.n pl.x = 0 ∧ V3.dot pl.n pl.y = 0 ∧ V3.dot pl.x pl.y = 0 :=
  ⟨hv.n_unit, hv.x_unit, hv.y_frame.1, hv.n_perp_x, hv.y_frame.2.1, hv.y_frame.2.2⟩

/-- `frame_right_handed`: in a valid plane `x × y = n`, `y × n = x`, `n × x = y` (the frame
`x, y, n` is right-handed). -/
theorem frame_right_handed {pl : PlaneS α} (hv : PlaneValid pl) :
    V3.cross pl.x pl.y = pl.n ∧ V3.cross pl.y pl.n = pl.x ∧ V3.cross pl.n pl.x = pl.y := by
  refine ⟨?_, ?_, hv.y_eq.symm⟩
  · rw [hv.y_eq]; exact cross_x_cross_n_x _ _ hv.x_unit hv.n_perp_x
  · rw [hv.y_eq]
    have hn := hv.n_unit; have hnx := hv.n_perp_x
    simp only [V3.normSq, V3.dot, V3.cross] at *
    ext <;> simp only []
    · linear_combination pl.x.x * hn - pl.n.x * hnx
    · linear_combination pl.x.y * hn - pl.n.y * hnx
    · linear_combination pl.x.z * hn - pl.n.z * hnx

/-- `plane_init_valid`: `Plane(n, o)` for a non-zero `n`, under the `sqrt` law: the stored
normal is `n / |n|` (with `|n| = sqrt (n·n) > 0`), the origin is `o`, and the frame is valid
(unit normal, unit x-axis perpendicular to it, `y = n × x`, `k = n·o`) — in BOTH branches of the
x-axis choice: `n.x = n.y = 0` gives `x = (1, 0, 0)`, otherwise `x` is a positive multiple of
`(n.y, -n.x, 0)`. -/
theorem plane_init_valid (M : MathOps α)
    (hsqrt : ∀ x, 0 ≤ x → M.sqrt x * M.sqrt x = x ∧ 0 ≤ M.sqrt x)
    (n o : V3 α) (hn : V3.normSq n ≠ 0) :
    PlaneValid (plane_init M n o) ∧
    0 < M.sqrt (V3.normSq n) ∧
    (plane_init M n o).n = V3.smul (1 / M.sqrt (V3.normSq n)) n ∧
    (plane_init M n o).o = o ∧
    ((n.x = 0 ∧ n.y = 0) → (plane_init M n o).x = ⟨1, 0, 0⟩) ∧
    (¬ (n.x = 0 ∧ n.y = 0) →
      ∃ c, 0 < c ∧ (plane_init M n o).x = ⟨c * n.y, -(c * n.x), 0⟩) := by
  have hpos := sqrt_pos_of_ne M hsqrt (v3_normSq_nonneg n) hn
  have hN := v3_normalize_eq M hsqrt n hn
  have hU := v3_normalize_normSq M hsqrt n hn
  rw [plane_init_eq]
  generalize hd : M.sqrt (V3.normSq n) = d at *
  generalize hN' : v3_normalize M n = N at *
  have hNx : N.x = 0 ↔ n.x = 0 := by
    rw [hN]; simp only [V3.smul]
    constructor
    · intro h; rcases mul_eq_zero.mp h with h | h
      · exfalso; exact (one_div_pos.mpr hpos).ne' h
      · exact h
    · intro h; rw [h, mul_zero]
  have hNy : N.y = 0 ↔ n.y = 0 := by
    rw [hN]; simp only [V3.smul]
    constructor
    · intro h; rcases mul_eq_zero.mp h with h | h
      · exfalso; exact (one_div_pos.mpr hpos).ne' h
      · exact h
    · intro h; rw [h, mul_zero]
  by_cases hc : N.x = 0 ∧ N.y = 0
  · rw [if_pos hc]
    have hc' : n.x = 0 ∧ n.y = 0 := ⟨hNx.mp hc.1, hNy.mp hc.2⟩
    refine ⟨?_, hpos, hN, rfl, fun _ => rfl, fun h => absurd hc' h⟩
    refine planeValid_mk N o ⟨1, 0, 0⟩ hU ?_ ?_
    · simp [V3.normSq]
    · simp [V3.dot, hc.1]
  · rw [if_neg hc]
    have hc' : ¬ (n.x = 0 ∧ n.y = 0) := fun h => hc ⟨hNx.mpr h.1, hNy.mpr h.2⟩
    have hw : V3.normSq (⟨N.y, -N.x, 0⟩ : V3 α) ≠ 0 := by
      simp only [V3.normSq]
      intro h
      have h1 := mul_self_nonneg N.x; have h2 := mul_self_nonneg N.y
      have hx0 : N.x * N.x = 0 := by nlinarith
      have hy0 : N.y * N.y = 0 := by nlinarith
      exact hc ⟨mul_self_eq_zero.mp hx0, mul_self_eq_zero.mp hy0⟩
    have hwpos := sqrt_pos_of_ne M hsqrt (v3_normSq_nonneg _) hw
    have hW := v3_normalize_eq M hsqrt _ hw
    have hWU := v3_normalize_normSq M hsqrt _ hw
    refine ⟨?_, hpos, hN, rfl, fun h => absurd h hc', fun _ => ?_⟩
    · refine planeValid_mk N o _ hU hWU ?_
      rw [hW]
      simp only [V3.dot, V3.smul]; ring
    · refine ⟨1 / M.sqrt (V3.normSq (⟨N.y, -N.x, 0⟩ : V3 α)) * (1 / d),
        mul_pos (one_div_pos.mpr hwpos) (one_div_pos.mpr hpos), ?_⟩
      show v3_normalize M ⟨N.y, -N.x, 0⟩ = _
      rw [hW, hN]
      simp only [V3.smul]
      ext <;> simp only [] <;> ring

/-- `plane_init_x_valid`: `Plane(n, o, x)` with a user x-axis `x ≠ 0`, `x ⟂ n`, `n ≠ 0`, under
the `sqrt` law: normal `n/|n|`, x-axis `x/|x|`, origin `o`, and the frame is valid (hence
orthonormal and right-handed). -/
theorem plane_init_x_valid (M : MathOps α)
    (hsqrt : ∀ x, 0 ≤ x → M.sqrt x * M.sqrt x = x ∧ 0 ≤ M.sqrt x)
    (n o x : V3 α) (hn : V3.normSq n ≠ 0) (hx : V3.normSq x ≠ 0) (hnx : V3.dot x n = 0) :
    PlaneValid (plane_init_x M n o x) ∧
    (plane_init_x M n o x).n = V3.smul (1 / M.sqrt (V3.normSq n)) n ∧
    (plane_init_x M n o x).x = V3.smul (1 / M.sqrt (V3.normSq x)) x ∧
    (plane_init_x M n o x).o = o := by
  rw [plane_init_x_eq]
  refine ⟨?_, v3_normalize_eq M hsqrt n hn, v3_normalize_eq M hsqrt x hx, rfl⟩
  refine planeValid_mk _ o _ (v3_normalize_normSq M hsqrt n hn)
    (v3_normalize_normSq M hsqrt x hx) ?_
  rw [v3_normalize_eq M hsqrt n hn, v3_normalize_eq M hsqrt x hx]
  simp only [V3.dot, V3.smul] at *
  linear_combination (1 / M.sqrt (V3.normSq n)) * (1 / M.sqrt (V3.normSq x)) * hnx

/-! ## B. 2D ↔ 3D round trips -/

/-- `plane_roundtrip` (2D → 3D → 2D): in a valid plane `xyz_to_xy (xy_to_xyz q) = q` for EVERY
2D point `q`. -/
theorem plane_xy_roundtrip {pl : PlaneS α} (hv : PlaneValid pl) (q : V2 α) :
    plane_xyz_to_xy pl (plane_xy_to_xyz pl q) = q := by
  obtain ⟨_, hx, hy, _, _, hxy⟩ := frame_orthonormal hv
  simp only [plane_xyz_to_xy, plane_xy_to_xyz, V3.normSq, V3.dot] at *
  ext <;> simp only []
  · linear_combination q.x * hx + q.y * hxy
  · linear_combination q.x * hxy + q.y * hy

/-- `xy_to_xyz` lands on the plane: `n · xy_to_xyz q = k`. -/
theorem plane_xy_to_xyz_on_plane {pl : PlaneS α} (hv : PlaneValid pl) (q : V2 α) :
    OnPlane pl (plane_xy_to_xyz pl q) := by
  obtain ⟨_, _, _, hnx, hny, _⟩ := frame_orthonormal hv
  have hk := hv.k_eq
  simp only [OnPlane, plane_xy_to_xyz, V3.dot] at *
  linear_combination q.x * hnx + q.y * hny - hk

/-- `plane_roundtrip` (3D → 2D → 3D): in a valid plane `xy_to_xyz (xyz_to_xy p) = p` for every
point `p` ON the plane (`n·p = k`, equivalently `(p - o)·n = 0`). -/
theorem plane_xyz_roundtrip {pl : PlaneS α} (hv : PlaneValid pl) (p : V3 α)
    (hp : OnPlane pl p) : plane_xy_to_xyz pl (plane_xyz_to_xy pl p) = p := by
  obtain ⟨hn, hx, hnx, hy, hk⟩ := hv
  simp only [OnPlane] at hp
  rw [hk] at hp
  simp only [plane_xyz_to_xy, plane_xy_to_xyz, hy, V3.normSq, V3.dot, V3.cross] at *
  have hvn : pl.n.x * (p.x - pl.o.x) + pl.n.y * (p.y - pl.o.y) + pl.n.z * (p.z - pl.o.z) = 0 := by
    linear_combination hp
  ext <;> simp only []
  · linear_combination
      ((p.x - pl.o.x) * (pl.x.x * pl.x.x + pl.x.y * pl.x.y + pl.x.z * pl.x.z) - pl.x.x * (pl.x.x * (p.x - pl.o.x) + pl.x.y * (p.y - pl.o.y) + pl.x.z * (p.z - pl.o.z))) * hn
      + ((p.x - pl.o.x) - pl.n.x * (pl.n.x * (p.x - pl.o.x) + pl.n.y * (p.y - pl.o.y) + pl.n.z * (p.z - pl.o.z))) * hx
      + (pl.n.x * (pl.x.x * (p.x - pl.o.x) + pl.x.y * (p.y - pl.o.y) + pl.x.z * (p.z - pl.o.z)) + pl.x.x * (pl.n.x * (p.x - pl.o.x) + pl.n.y * (p.y - pl.o.y) + pl.n.z * (p.z - pl.o.z)) - (p.x - pl.o.x) * (pl.n.x * pl.x.x + pl.n.y * pl.x.y + pl.n.z * pl.x.z)) * hnx
      - pl.n.x * hvn
  · linear_combination
      ((p.y - pl.o.y) * (pl.x.x * pl.x.x + pl.x.y * pl.x.y + pl.x.z * pl.x.z) - pl.x.y * (pl.x.x * (p.x - pl.o.x) + pl.x.y * (p.y - pl.o.y) + pl.x.z * (p.z - pl.o.z))) * hn
      + ((p.y - pl.o.y) - pl.n.y * (pl.n.x * (p.x - pl.o.x) + pl.n.y * (p.y - pl.o.y) + pl.n.z * (p.z - pl.o.z))) * hx
      + (pl.n.y * (pl.x.x * (p.x - pl.o.x) + pl.x.y * (p.y - pl.o.y) + pl.x.z * (p.z - pl.o.z)) + pl.x.y * (pl.n.x * (p.x - pl.o.x) + pl.n.y * (p.y - pl.o.y) + pl.n.z * (p.z - pl.o.z)) - (p.y - pl.o.y) * (pl.n.x * pl.x.x + pl.n.y * pl.x.y + pl.n.z * pl.x.z)) * hnx
      - pl.n.y * hvn
  · linear_combination
      ((p.z - pl.o.z) * (pl.x.x * pl.x.x + pl.x.y * pl.x.y + pl.x.z * pl.x.z) - pl.x.z * (pl.x.x * (p.x - pl.o.x) + pl.x.y * (p.y - pl.o.y) + pl.x.z * (p.z - pl.o.z))) * hn
      + ((p.z - pl.o.z) - pl.n.z * (pl.n.x * (p.x - pl.o.x) + pl.n.y * (p.y - pl.o.y) + pl.n.z * (p.z - pl.o.z))) * hx
      + (pl.n.z * (pl.x.x * (p.x - pl.o.x) + pl.x.y * (p.y - pl.o.y) + pl.x.z * (p.z - pl.o.z)) + pl.x.z * (pl.n.x * (p.x - pl.o.x) + pl.n.y * (p.y - pl.o.y) + pl.n.z * (p.z - pl.o.z)) - (p.z - pl.o.z) * (pl.n.x * pl.x.x + pl.n.y * pl.x.y + pl.n.z * pl.x.z)) * hnx
      - pl.n.z * hvn

/-- `xy_to_xyz` is an isometry from the 2D coordinate plane into space: squared distances are
preserved. -/
theorem plane_xy_to_xyz_isometry {pl : PlaneS α} (hv : PlaneValid pl) (a b : V2 α) :
    distSq3 (plane_xy_to_xyz pl a) (plane_xy_to_xyz pl b) = distSq2 a b := by
  obtain ⟨_, hx, hy, _, _, hxy⟩ := frame_orthonormal hv
  simp only [distSq3, distSq2, plane_xy_to_xyz, V3.normSq, V2.normSq, V3.sub, V2.sub,
    V3.dot] at *
  linear_combination (a.x - b.x) * (a.x - b.x) * hx + (a.y - b.y) * (a.y - b.y) * hy
    + 2 * (a.x - b.x) * (a.y - b.y) * hxy

/-- `xyz_to_xy` restricted to the plane is an isometry (it is the inverse of `xy_to_xyz`):
squared distances between points ON the plane are preserved. -/
theorem plane_xyz_to_xy_isometry {pl : PlaneS α} (hv : PlaneValid pl) (p q : V3 α)
    (hp : OnPlane pl p) (hq : OnPlane pl q) :
    distSq2 (plane_xyz_to_xy pl p) (plane_xyz_to_xy pl q) = distSq3 p q := by
  rw [← plane_xy_to_xyz_isometry hv, plane_xyz_roundtrip hv p hp, plane_xyz_roundtrip hv q hq]

/-- Every vertex of a loop lying on the plane is mapped through the plane's 2D coordinates and
back onto itself (list form of the round trip, as used by `Face3D` for `vertices`/`polygon2d`). -/
theorem plane_roundtrip_list {pl : PlaneS α} (hv : PlaneValid pl) (vs : List (V3 α))
    (hvs : ∀ p ∈ vs, OnPlane pl p) :
    (vs.map (plane_xyz_to_xy pl)).map (plane_xy_to_xyz pl) = vs := by
  rw [List.map_map]
  conv_rhs => rw [← List.map_id vs]
  apply List.map_congr_left
  intro p hp
  exact plane_xyz_roundtrip hv p (hvs p hp)

/-! ## C. The normal of a planar loop: fan sum = Newell vector = `shoelace • n` -/

/-- `Face3D._normal_from_3pts(a, b, c)` is the cross product `(b - a) × (c - a)`. -/
theorem normal_from_3pts_eq_cross (a b c : V3 α) :
    face3d_normal_from_3pts a b c = V3.cross (V3.sub b a) (V3.sub c a) := by
  simp only [face3d_normal_from_3pts, V3.cross, V3.sub]
  ext <;> simp only [] <;> ring

/-- The loop of `Face3D._plane_from_vertices`: with `base = verts[0]`, the sum over
`i = 0 … len-3` of `_normal_from_3pts(base, verts[i+1], verts[i+2])`, accumulated from
`[0, 0, 0]`. -/
def fanNormal : List (V3 α) → V3 α
  | [] => ⟨0, 0, 0⟩
  | p0 :: rest =>
    (rest.zip rest.tail).foldl
      (fun acc p => V3.add acc (face3d_normal_from_3pts p0 p.1 p.2)) ⟨0, 0, 0⟩

/-- `fan_eq_newell`: the fan sum of `_plane_from_vertices` is the Newell vector
`Σ v_{i-1} × v_i` of the loop — for EVERY loop (any length, planar or not, concave or collinear
first corner). -/
theorem fan_eq_newell (vs : List (V3 α)) : fanNormal vs = newell vs := by
  cases vs with
  | nil => rfl
  | cons p0 rest =>
    simp only [fanNormal, normal_from_3pts_eq_cross]
    exact newell_fan_head p0 rest

/-- `newell_start_invariant`: the fan sum does not depend on the start vertex. -/
theorem fan_rotate (vs : List (V3 α)) (k : ℕ) : fanNormal (vs.rotate k) = fanNormal vs := by
  rw [fan_eq_newell, fan_eq_newell, newell_rotate]

/-- Reversing the vertex order negates the fan sum. -/
theorem fan_reverse (vs : List (V3 α)) : fanNormal vs.reverse = V3.neg (fanNormal vs) := by
  rw [fan_eq_newell, fan_eq_newell, newell_reverse]

/-- For a loop given by 2D coordinates `cs` in a valid frame, the fan sum is
`shoelace(cs) • n` (twice the signed area times the plane normal). -/
theorem fan_planar {pl : PlaneS α} (hv : PlaneValid pl) (cs : List (V2 α)) :
    fanNormal (cs.map (plane_xy_to_xyz pl)) = V3.smul (shoelace cs) pl.n := by
  rw [fan_eq_newell, newell_planar_of (plane_xy_to_xyz pl) pl.o pl.x pl.y
    (fun c => rfl) (fun c => rfl) (fun c => rfl), (frame_right_handed hv).1]

/-- Same statement for a 3D loop all of whose vertices lie on a valid plane: the fan sum is
`shoelace(xyz_to_xy vertices) • n`. -/
theorem fan_on_plane {pl : PlaneS α} (hv : PlaneValid pl) (vs : List (V3 α))
    (hvs : ∀ p ∈ vs, OnPlane pl p) :
    fanNormal vs = V3.smul (shoelace (vs.map (plane_xyz_to_xy pl))) pl.n := by
  rw [← fan_planar hv, plane_roundtrip_list hv vs hvs]

/-- **`normal_is_rhr`**: for a loop lying in a valid frame, the fan sum is a POSITIVE multiple
of the plane normal exactly when the 2D loop is counter-clockwise (`shoelace > 0`), and a
negative multiple exactly when it is clockwise — whatever the start vertex (`rotate k`), in
particular with a concave or collinear first corner. -/
theorem normal_is_rhr {pl : PlaneS α} (hv : PlaneValid pl) (cs : List (V2 α)) (k : ℕ) :
    ((∃ c, 0 < c ∧ fanNormal ((cs.map (plane_xy_to_xyz pl)).rotate k) = V3.smul c pl.n)
      ↔ 0 < shoelace cs) ∧
    ((∃ c, c < 0 ∧ fanNormal ((cs.map (plane_xy_to_xyz pl)).rotate k) = V3.smul c pl.n)
      ↔ shoelace cs < 0) := by
  rw [fan_rotate, fan_planar hv]
  have key : ∀ c, V3.smul (shoelace cs) pl.n = V3.smul c pl.n → shoelace cs = c := by
    intro c h
    have h1 : V3.dot (V3.smul (shoelace cs) pl.n) pl.n = V3.dot (V3.smul c pl.n) pl.n := by
      rw [h]
    have hn := hv.n_unit
    simp only [V3.dot, V3.smul, V3.normSq] at h1 hn
    linear_combination h1 + (c - shoelace cs) * hn
  constructor
  · constructor
    · rintro ⟨c, hc, h⟩; rw [key c h]; exact hc
    · intro h; exact ⟨_, h, rfl⟩
  · constructor
    · rintro ⟨c, hc, h⟩; rw [key c h]; exact hc
    · intro h; exact ⟨_, h, rfl⟩

/-- After normalisation (`sqrt` law): the unit normal computed from the fan sum of a loop with
non-zero area lying in a valid frame is the frame normal `n` when the loop is counter-clockwise
in that frame and `-n` when it is clockwise — for every start vertex. -/
theorem normal_is_rhr_unit (M : MathOps α)
    (hsqrt : ∀ x, 0 ≤ x → M.sqrt x * M.sqrt x = x ∧ 0 ≤ M.sqrt x)
    {pl : PlaneS α} (hv : PlaneValid pl) (cs : List (V2 α)) (k : ℕ) (h0 : shoelace cs ≠ 0) :
    v3_normalize M (fanNormal ((cs.map (plane_xy_to_xyz pl)).rotate k)) =
      if 0 < shoelace cs then pl.n else V3.neg pl.n := by
  rw [fan_rotate, fan_planar hv]
  have hn := hv.n_unit
  have hsq : V3.normSq (V3.smul (shoelace cs) pl.n) = shoelace cs * shoelace cs := by
    rw [v3_smul_normSq, hn, mul_one]
  have hne : V3.normSq (V3.smul (shoelace cs) pl.n) ≠ 0 := by
    rw [hsq]; exact mul_self_ne_zero.mpr h0
  rw [v3_normalize_eq M hsqrt _ hne, hsq]
  split_ifs with hpos
  · rw [sqrt_unique M hsqrt hpos.le rfl]
    simp only [V3.smul]
    ext <;> simp only [] <;> field_simp
  · have hneg : shoelace cs < 0 := lt_of_le_of_ne (not_lt.mp hpos) h0
    have : M.sqrt (shoelace cs * shoelace cs) = -shoelace cs :=
      sqrt_unique M hsqrt (by linarith) (by ring)
    rw [this]
    simp only [V3.smul, V3.neg]
    ext <;> simp only [] <;> field_simp

/-! ## D. The constructor never stores a clockwise boundary -/

/-- The generated `Polygon2D.is_clockwise` (`area < 0` with `area = shoelace / 2`) is the sign
test `shoelace < 0`. -/
theorem is_clockwise_iff (cs : List (V2 α)) :
    polygon2d_is_clockwise cs = true ↔ shoelace cs < 0 := by
  have e : polygon2d_is_clockwise cs = decide (shoelace cs / 2 < 0) := by
    unfold polygon2d_is_clockwise shoelace
    simp only [V2.det]
    exact decide_eq_decide.mpr Iff.rfl
  rw [e, decide_eq_true_iff]
  constructor
  · intro h; have : (0 : α) < 2 := two_pos; by_contra hc
    have := div_nonneg (not_lt.mp hc) this.le; linarith
  · intro h; exact div_neg_of_neg_of_pos h two_pos

/-- The `enforce_right_hand` step of `Face3D.__init__` on a vertex list whose 2D coordinates
in the stored plane are `coords v`: `if self.is_clockwise: reversed(...)`. -/
def enforceRightHand {β : Type} (coords : β → V2 α) (vs : List β) : List β :=
  if polygon2d_is_clockwise (vs.map coords) = true then vs.reverse else vs

/-- **`ctor_not_clockwise`** (core): after the `enforce_right_hand` step the stored boundary
has positive shoelace whenever the loop has non-zero area, and is never clockwise
(`shoelace ≥ 0`, `is_clockwise = False`) in any case.  Equivalent elementary form:
`0 < shoelace (if shoelace cs < 0 then cs.reverse else cs)` when `shoelace cs ≠ 0`. -/
theorem ctor_not_clockwise {β : Type} (coords : β → V2 α) (vs : List β) :
    polygon2d_is_clockwise ((enforceRightHand coords vs).map coords) = false ∧
    0 ≤ shoelace ((enforceRightHand coords vs).map coords) ∧
    (shoelace (vs.map coords) ≠ 0 → 0 < shoelace ((enforceRightHand coords vs).map coords)) := by
  have key : 0 ≤ shoelace ((enforceRightHand coords vs).map coords) ∧
      (shoelace (vs.map coords) ≠ 0 →
        0 < shoelace ((enforceRightHand coords vs).map coords)) := by
    unfold enforceRightHand
    split_ifs with h
    · rw [is_clockwise_iff] at h
      rw [List.map_reverse, shoelace_reverse]
      exact ⟨by linarith, fun _ => by linarith⟩
    · rw [is_clockwise_iff] at h
      exact ⟨not_lt.mp h, fun h0 => lt_of_le_of_ne (not_lt.mp h) (Ne.symm h0)⟩
  refine ⟨?_, key.1, key.2⟩
  rw [← Bool.not_eq_true, is_clockwise_iff]
  exact not_lt.mpr key.1

/-- Elementary form of `ctor_not_clockwise` on the 2D coordinates themselves. -/
theorem ctor_not_clockwise_coords (cs : List (V2 α)) (h0 : shoelace cs ≠ 0) :
    0 < shoelace (if shoelace cs < 0 then cs.reverse else cs) := by
  split_ifs with h
  · rw [shoelace_reverse]; linarith
  · exact lt_of_le_of_ne (not_lt.mp h) (Ne.symm h0)

/-- `ctor_not_clockwise`, user plane: a boundary lying on a valid user plane whose normal may
point along OR against the vertex order.  After `enforce_right_hand` the stored boundary (the
input or its reversal) has positive shoelace in the user plane, and the fan-sum normal of the
STORED boundary is a positive multiple of the stored plane normal (the stored unit normal is
the right-hand-rule normal of the stored boundary). -/
theorem ctor_user_plane {pl : PlaneS α} (hv : PlaneValid pl) (vs : List (V3 α))
    (hvs : ∀ p ∈ vs, OnPlane pl p) (h0 : shoelace (vs.map (plane_xyz_to_xy pl)) ≠ 0) :
    0 < shoelace ((enforceRightHand (plane_xyz_to_xy pl) vs).map (plane_xyz_to_xy pl)) ∧
    ∃ c, 0 < c ∧ fanNormal (enforceRightHand (plane_xyz_to_xy pl) vs) = V3.smul c pl.n := by
  have h := (ctor_not_clockwise (plane_xyz_to_xy pl) vs).2.2 h0
  refine ⟨h, _, h, ?_⟩
  apply fan_on_plane hv
  intro p hp
  unfold enforceRightHand at hp
  split_ifs at hp
  · exact hvs p (List.mem_reverse.mp hp)
  · exact hvs p hp

/-- `Face3D._plane_from_vertices(verts)`: fan sum, normalised by `ds = sqrt(Σ normal[i]²)`
unless it is `[0, 0, 0]` (then `+Z`), plane through `verts[0]`. -/
def planeFromVertices (M : MathOps α) (vs : List (V3 α)) : PlaneS α :=
  let nrm := fanNormal vs
  let ds := M.sqrt (nrm.x * nrm.x + nrm.y * nrm.y + nrm.z * nrm.z)
  let nv : V3 α := if nrm = ⟨0, 0, 0⟩ then ⟨0, 0, 1⟩ else ⟨nrm.x / ds, nrm.y / ds, nrm.z / ds⟩
  plane_init M nv (vs.headD ⟨0, 0, 0⟩)

/-- `ctor_not_clockwise`, own plane: for a planar loop of non-zero area (given by coordinates
`cs0` in SOME valid frame `pl0`, either orientation) the plane computed by
`_plane_from_vertices` is valid, its normal is the right-hand-rule normal of the loop
(`pl0.n` if the loop is counter-clockwise in `pl0`, `-pl0.n` otherwise), every vertex lies on
it, and the loop's 2D coordinates in that plane have positive shoelace — so `is_clockwise` is
already `False` and `enforce_right_hand` changes nothing. -/
theorem ctor_own_plane (M : MathOps α)
    (hsqrt : ∀ x, 0 ≤ x → M.sqrt x * M.sqrt x = x ∧ 0 ≤ M.sqrt x)
    {pl0 : PlaneS α} (hv0 : PlaneValid pl0) (cs0 : List (V2 α)) (h0 : shoelace cs0 ≠ 0) :
    let vs := cs0.map (plane_xy_to_xyz pl0)
    let pl := planeFromVertices M vs
    PlaneValid pl ∧
    pl.n = (if 0 < shoelace cs0 then pl0.n else V3.neg pl0.n) ∧
    (∀ p ∈ vs, OnPlane pl p) ∧
    0 < shoelace (vs.map (plane_xyz_to_xy pl)) ∧
    enforceRightHand (plane_xyz_to_xy pl) vs = vs := by
  intro vs pl
  have hpl0 : pl = planeFromVertices M vs := rfl
  clear_value pl
  have hvs : vs = cs0.map (plane_xy_to_xyz pl0) := rfl
  clear_value vs
  have hfan : fanNormal vs = V3.smul (shoelace cs0) pl0.n := by rw [hvs]; exact fan_planar hv0 cs0
  have hn0 := hv0.n_unit
  have hsq : V3.normSq (fanNormal vs) = shoelace cs0 * shoelace cs0 := by
    rw [hfan, v3_smul_normSq, hn0, mul_one]
  have hne : V3.normSq (fanNormal vs) ≠ 0 := by rw [hsq]; exact mul_self_ne_zero.mpr h0
  have hnz : fanNormal vs ≠ ⟨0, 0, 0⟩ := by
    intro h; apply hne; rw [h]; simp [V3.normSq]
  have hdpos := sqrt_pos_of_ne M hsqrt (v3_normSq_nonneg _) hne
  -- the normalised normal
  set n1 : V3 α := if 0 < shoelace cs0 then pl0.n else V3.neg pl0.n with hn1
  have hunit := normal_is_rhr_unit M hsqrt hv0 cs0 0 h0
  rw [List.rotate_zero, ← hvs] at hunit
  have hpl : pl = plane_init M n1 (vs.headD ⟨0, 0, 0⟩) := by
    rw [hpl0]
    unfold planeFromVertices
    simp only [if_neg hnz]
    congr 1
    rw [hn1, ← hunit]
    unfold v3_normalize
    unfold V3.normSq at hdpos
    simp only [if_neg hdpos.ne']
  have hn1u : V3.normSq n1 = 1 := by
    rw [hn1]; split_ifs
    · exact hn0
    · simp only [V3.normSq, V3.neg] at *; linear_combination hn0
  obtain ⟨hval, _, hN, hO, _, _⟩ := plane_init_valid M hsqrt n1 (vs.headD ⟨0, 0, 0⟩)
    (by rw [hn1u]; exact one_ne_zero)
  rw [← hpl] at hval hN hO
  have hplN : pl.n = n1 := by
    rw [hN, hn1u, sqrt_one M hsqrt]; simp [V3.smul]
  -- every vertex lies on the new plane
  have hk0 : ∀ p ∈ vs, V3.dot pl0.n p = pl0.k := by
    intro p hp
    rw [hvs] at hp
    obtain ⟨c, _, rfl⟩ := List.mem_map.mp hp
    exact plane_xy_to_xyz_on_plane hv0 c
  have hcs_ne : cs0 ≠ [] := by
    intro h; apply h0; rw [h]; rfl
  have hhead : vs.headD ⟨0, 0, 0⟩ ∈ vs := by
    obtain ⟨c, t, hct⟩ := List.exists_cons_of_ne_nil hcs_ne
    rw [hvs, hct]; simp
  have hon : ∀ p ∈ vs, OnPlane pl p := by
    intro p hp
    have h1 := hk0 p hp
    have h2 := hk0 _ hhead
    unfold OnPlane
    rw [hval.k_eq, hO, hplN, hn1]
    split_ifs
    · rw [h1, h2]
    · simp only [V3.dot, V3.neg] at *; linear_combination -h1 + h2
  -- compare the two expressions of the fan sum
  have hfan2 := fan_on_plane hval vs hon
  rw [hplN] at hfan2
  have hpos : 0 < shoelace (vs.map (plane_xyz_to_xy pl)) := by
    have hdot : V3.dot (fanNormal vs) n1 = shoelace (vs.map (plane_xyz_to_xy pl)) := by
      rw [hfan2]; simp only [V3.dot, V3.smul, V3.normSq] at *; linear_combination
        shoelace (vs.map (plane_xyz_to_xy pl)) * hn1u
    rw [← hdot, hfan, hn1]
    split_ifs with hs
    · simp only [V3.dot, V3.smul, V3.normSq] at *
      have : shoelace cs0 * pl0.n.x * pl0.n.x + shoelace cs0 * pl0.n.y * pl0.n.y
          + shoelace cs0 * pl0.n.z * pl0.n.z = shoelace cs0 := by
        linear_combination shoelace cs0 * hn0
      rw [this]; exact hs
    · have hs' : shoelace cs0 < 0 := lt_of_le_of_ne (not_lt.mp hs) h0
      simp only [V3.dot, V3.smul, V3.normSq, V3.neg] at *
      have : shoelace cs0 * pl0.n.x * -pl0.n.x + shoelace cs0 * pl0.n.y * -pl0.n.y
          + shoelace cs0 * pl0.n.z * -pl0.n.z = -shoelace cs0 := by
        linear_combination (-shoelace cs0) * hn0
      rw [this]; linarith
  refine ⟨hval, hplN, hon, hpos, ?_⟩
  unfold enforceRightHand
  rw [if_neg]
  rw [is_clockwise_iff]
  exact not_lt.mpr hpos.le

/-! ## E. `flip` -/

/-- `Plane.flip` on a valid frame (C06-relevant corollary of `C02.plane_flip_valid`): the normal
is negated, origin and x-axis are kept, the y-axis is negated, the result is a valid
(orthonormal, right-handed) frame and contains the same points. -/
theorem plane_flip_spec (M : MathOps α) (h1 : M.sqrt 1 = 1) (pl : PlaneS α)
    (hv : PlaneValid pl) :
    (plane_flip M pl).n = V3.neg pl.n ∧ (plane_flip M pl).o = pl.o ∧
    (plane_flip M pl).x = pl.x ∧ (plane_flip M pl).y = V3.neg pl.y ∧
    PlaneValid (plane_flip M pl) ∧ ∀ p, OnPlane pl p ↔ OnPlane (plane_flip M pl) p := by
  obtain ⟨ho, hn, hx, hy, hval, hon⟩ := C02.plane_flip_valid M h1 pl hv
  refine ⟨hn, ho, hx, hy, hval, fun p => ⟨hon p, ?_⟩⟩
  intro hp
  have hk := hv.k_eq; have hk' := hval.k_eq
  rw [hn, ho] at hk'
  simp only [OnPlane, hn] at *
  rw [hk'] at hp
  simp only [V3.dot, V3.neg] at *
  linear_combination -hp - hk

/-- In the flipped plane every point has the same first coordinate and the NEGATED second
coordinate (the 2D picture is mirrored in the x-axis). -/
theorem plane_flip_coords (M : MathOps α) (h1 : M.sqrt 1 = 1) (pl : PlaneS α)
    (hv : PlaneValid pl) (p : V3 α) :
    plane_xyz_to_xy (plane_flip M pl) p =
      ⟨(plane_xyz_to_xy pl p).x, -(plane_xyz_to_xy pl p).y⟩ := by
  obtain ⟨_, ho, hx, hy, _, _⟩ := plane_flip_spec M h1 pl hv
  unfold plane_xyz_to_xy
  rw [ho, hx, hy]
  simp only [V3.neg]
  ext <;> simp only [] <;> ring

/-- `flip_spec` (orientation): `Face3D.flip` passes the REVERSED vertices and the flipped
plane; the reversed boundary has in the flipped plane exactly the shoelace value the original
boundary has in the original plane (mirror × reversal = sign restored), so a counter-clockwise
face stays counter-clockwise and `|area|` is unchanged. -/
theorem flip_shoelace (M : MathOps α) (h1 : M.sqrt 1 = 1) (pl : PlaneS α)
    (hv : PlaneValid pl) (vs : List (V3 α)) :
    shoelace (vs.reverse.map (plane_xyz_to_xy (plane_flip M pl))) =
      shoelace (vs.map (plane_xyz_to_xy pl)) := by
  rw [List.map_reverse, shoelace_reverse]
  have e : vs.map (plane_xyz_to_xy (plane_flip M pl)) =
      (vs.map (plane_xyz_to_xy pl)).map (linMap 1 0 0 (-1)) := by
    rw [List.map_map]
    apply List.map_congr_left
    intro p _
    rw [plane_flip_coords M h1 pl hv p]
    simp only [Function.comp, linMap]
    ext <;> simp only [] <;> ring
  rw [e, shoelace_linMap]
  ring

/-- `flip_spec` (normal): the fan-sum normal of the reversed vertex list is the negated fan-sum
normal — it points along the flipped plane's normal whenever the original pointed along the
original normal. -/
theorem flip_normal (M : MathOps α) (h1 : M.sqrt 1 = 1) (pl : PlaneS α)
    (hv : PlaneValid pl) (vs : List (V3 α)) (c : α) (h : fanNormal vs = V3.smul c pl.n) :
    fanNormal vs.reverse = V3.smul c (plane_flip M pl).n := by
  rw [fan_reverse, h, (plane_flip_spec M h1 pl hv).1]
  simp only [V3.smul, V3.neg]
  ext <;> simp only [] <;> ring

/-! ## Non-vacuity (ℚ) -/

/-- A concrete valid frame at ℚ (normal `(0,0,1)`, origin `(1,2,3)`, `x = (1,0,0)`,
`y = (0,1,0)`) and an L-shaped counter-clockwise loop that STARTS AT ITS CONCAVE CORNER `(1,1)`:
the hypotheses of `fan_planar` / `normal_is_rhr` hold, the shoelace is `6 > 0`, and the fan sum
of the lifted loop is `6 • n` (a first-corner-only normal would point the other way). -/
example :
    let pl : PlaneS ℚ := ⟨⟨0, 0, 1⟩, ⟨1, 2, 3⟩, 3, ⟨1, 0, 0⟩, ⟨0, 1, 0⟩⟩
    let cs : List (V2 ℚ) := [⟨1, 1⟩, ⟨1, 2⟩, ⟨0, 2⟩, ⟨0, 0⟩, ⟨2, 0⟩, ⟨2, 1⟩]
    PlaneValid pl ∧ shoelace cs = 6 ∧
      fanNormal (cs.map (plane_xy_to_xyz pl)) = ⟨0, 0, 6⟩ ∧
      face3d_normal_from_3pts (plane_xy_to_xyz pl ⟨1, 1⟩) (plane_xy_to_xyz pl ⟨1, 2⟩)
        (plane_xy_to_xyz pl ⟨0, 2⟩) = ⟨0, 0, 1⟩ := by
  refine ⟨⟨by decide +kernel, by decide +kernel, by decide +kernel, by decide +kernel,
    by decide +kernel⟩, by decide +kernel, by decide +kernel, by decide +kernel⟩

/-- A loop whose first three vertices are collinear (first fan triangle degenerate), in a tilted
valid frame with rational axes (`n = (2,-2,1)/3`, `x = (1,2,2)/3`, `y = n × x`): the fan sum is
still `shoelace • n`, here `8 • n`. -/
example :
    let pl : PlaneS ℚ := ⟨⟨2/3, -2/3, 1/3⟩, ⟨0, 0, 0⟩, 0, ⟨1/3, 2/3, 2/3⟩, ⟨-2/3, -1/3, 2/3⟩⟩
    let cs : List (V2 ℚ) := [⟨0, 0⟩, ⟨1, 0⟩, ⟨2, 0⟩, ⟨2, 2⟩, ⟨0, 2⟩]
    PlaneValid pl ∧ shoelace cs = 8 ∧
      fanNormal (cs.map (plane_xy_to_xyz pl)) = V3.smul 8 pl.n ∧
      enforceRightHand id cs.reverse = cs := by
  refine ⟨⟨by decide +kernel, by decide +kernel, by decide +kernel, by decide +kernel,
    by decide +kernel⟩, by decide +kernel, by decide +kernel, by decide +kernel⟩

/-- `M.sqrt 1 = 1` (all that `plane_flip_spec` / `flip_shoelace` need) is satisfiable over ℚ.
The full `sqrt` law (`plane_init_valid`, `normal_is_rhr_unit`, `ctor_own_plane`) cannot hold
over ℚ; it holds over ℝ with `Real.sqrt`, see `Props/C10Real.lean` / `Props/C02Real.lean`. -/
example : ∃ M : MathOps ℚ, M.sqrt 1 = 1 :=
  ⟨⟨fun _ => 1, fun _ => 0, fun _ => 1, fun _ => 0, fun _ => 0, fun _ => 0, fun _ _ => 0, 3,
    fun x => x⟩, rfl⟩

end Lbg.Props.C06
