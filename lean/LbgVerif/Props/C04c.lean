/-
  C04c — `__select` and the five `_select_*` wrappers (model `Model/BoolSelect.lean`, which calls
  the generated tables / index formula / inversion flags of `Gen/Tables.lean`).

  * §1  what `__select` does with one segment and with a list: a segment is kept iff the table
        entry at its fill index is non-zero, the kept copy has the same end points, no
        `otherfill`, and `_Fill(below = (v == 2), above = (v == 1))`; order is preserved;
  * §2  combined with `Props/C04.lean` (the five tables are the truth tables of the five
        operations): IF the four fill flags of every combined segment are geometrically correct
        (they say whether operand 1 / operand 2 is filled just above / just below the segment)
        THEN the kept segments are exactly those across which the RESULT region changes (its
        boundary), each annotated with the result's fill above and below; the `is_inverted` flag
        is the operation applied to the operands' flags.

  The hypothesis of §2 is what the sweep (`Model/PolyBool.lean`) is supposed to establish; it
  is not proved here (see `Props/C04d.lean` for what is proved about the sweep).
-/
import LbgVerif.Model.BoolSelect
import LbgVerif.Props.C04

namespace Lbg.Props.C04c
open Lbg Lbg.Gen Lbg.Model.PolyBool Lbg.Props.C04

variable {α : Type}

/-! ## Predicates used in the statements -/

/-- The Boolean function of an operation. -/
def opFun : Op → Bool → Bool → Bool
  | .union => opUnion
  | .intersect => opIntersect
  | .difference => opDifference
  | .differenceRev => opDifferenceRev
  | .xor => opXor

/-- Ground truth at one combined segment: is operand 1 / operand 2 filled just above (`a₁`,
`a₂`) and just below (`b₁`, `b₂`) the segment. -/
structure Truth where
  a1 : Bool
  b1 : Bool
  a2 : Bool
  b2 : Bool

/-- The four fill flags of a combined segment are geometrically correct: `myfill` describes
operand 1, `otherfill` operand 2 (a missing `otherfill` claims that operand 2 is empty on both
sides); flags are read with Python truthiness. -/
def FillsCorrect (s : FSeg α) (g : Truth) : Prop :=
  truthy s.myfill.above = g.a1 ∧ truthy s.myfill.below = g.b1 ∧
    (match s.otherfill with
     | none => g.a2 = false ∧ g.b2 = false
     | some o => truthy o.above = g.a2 ∧ truthy o.below = g.b2)

/-- The segment `__select` emits for a boundary segment of the result: same end points, fill
`(above, below)`, no other fill. -/
def resultSeg (s : FSeg α) (above below : Bool) : FSeg α :=
  ⟨s.start, s.stop, ⟨some above, some below⟩, none⟩

/-! ## §1  `__select`, literally -/

/-- The index `__select` computes is the generated formula on the truthiness of the four flags
(a missing `otherfill` counts as two `False`s). -/
theorem selIndex_eq (s : FSeg α) :
    selIndex s = select_index (truthy s.myfill.above) (truthy s.myfill.below)
      (truthy (s.otherfill.bind Fill.above)) (truthy (s.otherfill.bind Fill.below)) := by
  unfold selIndex
  cases h : s.otherfill with
  | none => simp [truthy, select_index_nofill_eq]
  | some o => simp

/-- The index is always inside a 16-entry table (Python never raises `IndexError` there). -/
theorem selIndex_lt (s : FSeg α) : selIndex s < 16 := by
  rw [selIndex_eq]; exact select_index_lt _ _ _ _

/-- A segment is dropped iff its table entry is zero. -/
theorem selectOne_eq_none_iff (t : List Nat) (s : FSeg α) :
    selectOne t s = none ↔ tableAt t (selIndex s) = 0 := by
  unfold selectOne
  by_cases h : tableAt t (selIndex s) = 0
  · simp only [h]; simp
  · simp only [bne_iff_ne, ne_eq, h, not_false_eq_true, ↓reduceIte]; simp

/-- A kept segment is a fresh `_Segment(start, end, _Fill(below = (v == 2), above = (v == 1)))`
with `v` its (non-zero) table entry. -/
theorem selectOne_eq_some_iff (t : List Nat) (s r : FSeg α) :
    selectOne t s = some r ↔
      tableAt t (selIndex s) ≠ 0 ∧
      r = ⟨s.start, s.stop,
        ⟨some (tableAt t (selIndex s) == 1), some (tableAt t (selIndex s) == 2)⟩, none⟩ := by
  unfold selectOne
  by_cases h : tableAt t (selIndex s) = 0
  · simp only [h]; simp
  · simp only [bne_iff_ne, ne_eq, h, not_false_eq_true, ↓reduceIte, true_and]
    constructor
    · intro e; exact (Option.some.inj e).symm
    · intro e; rw [e]

/-- `__select` keeps the segments in their input order and never invents one: the result is the
`filterMap` of the per-segment rule; in particular it is no longer than the input. -/
theorem select_length_le (segs : List (FSeg α)) (t : List Nat) :
    (select segs t).length ≤ segs.length :=
  List.length_filterMap_le _ _

/-- Membership in the result of `__select`. -/
theorem mem_select_iff (segs : List (FSeg α)) (t : List Nat) (r : FSeg α) :
    r ∈ select segs t ↔ ∃ s ∈ segs, tableAt t (selIndex s) ≠ 0 ∧
      r = ⟨s.start, s.stop,
        ⟨some (tableAt t (selIndex s) == 1), some (tableAt t (selIndex s) == 2)⟩, none⟩ := by
  unfold select
  simp only [List.mem_filterMap, selectOne_eq_some_iff]

/-- `__select` distributes over concatenation (segments are judged one by one). -/
theorem select_append (s1 s2 : List (FSeg α)) (t : List Nat) :
    select (s1 ++ s2) t = select s1 t ++ select s2 t := by
  unfold select; exact List.filterMap_append

/-! ## §2  With correct fill flags the kept segments are the boundary of the result -/

/-- Every operation's generated table implements the operation's Boolean function (the five
`select_*_spec` theorems of C04, collected). -/
theorem table_implements (op : Op) : TableImplements op.table (opFun op) := by
  cases op
  · exact select_union_spec
  · exact select_intersect_spec
  · exact select_difference_spec
  · exact select_difference_rev_spec
  · exact select_xor_spec

/-- The `is_inverted` flag each wrapper gives its result is the operation applied to the flags
of the operands. -/
theorem inverted_eq (op : Op) (i1 i2 : Bool) : op.inverted i1 i2 = opFun op i1 i2 := by
  cases op
  · exact select_union_inverted_eq i1 i2
  · exact select_intersect_inverted_eq i1 i2
  · exact select_difference_inverted_eq i1 i2
  · exact select_difference_rev_inverted_eq i1 i2
  · exact select_xor_inverted_eq i1 i2

/-- With correct flags the index read is the one of the ground truth. -/
theorem selIndex_of_correct {s : FSeg α} {g : Truth} (h : FillsCorrect s g) :
    selIndex s = select_index g.a1 g.b1 g.a2 g.b2 := by
  obtain ⟨h1, h2, h3⟩ := h
  rw [selIndex_eq, h1, h2]
  cases ho : s.otherfill with
  | none => rw [ho] at h3; simp [truthy, h3.1, h3.2]
  | some o => rw [ho] at h3; simp [h3.1, h3.2]

/-- ONE SEGMENT.  If the four flags of a combined segment are correct, the selector of `op`
 * drops it iff the result region `op(operand 1, operand 2)` is the same just above and just
   below it (the segment is not on the boundary of the result), and
 * otherwise keeps it with fill above = `op a₁ a₂`, fill below = `op b₁ b₂` — the result
   region's fill on either side. -/
theorem selectOne_of_correct (op : Op) {s : FSeg α} {g : Truth} (h : FillsCorrect s g) :
    selectOne op.table s =
      if opFun op g.a1 g.a2 ≠ opFun op g.b1 g.b2
      then some (resultSeg s (opFun op g.a1 g.a2) (opFun op g.b1 g.b2)) else none := by
  have hk := select_fill_of_implements (table_implements op) g.a1 g.b1 g.a2 g.b2
  simp only at hk
  obtain ⟨hk1, hk2, _⟩ := hk
  have hidx := selIndex_of_correct h
  have hv : tableAt op.table (selIndex s) = entry op.table (select_index g.a1 g.b1 g.a2 g.b2) := by
    rw [hidx]; rfl
  by_cases hb : opFun op g.a1 g.a2 ≠ opFun op g.b1 g.b2
  · rw [if_pos hb]
    have hne : entry op.table (select_index g.a1 g.b1 g.a2 g.b2) ≠ 0 := hk1.mpr hb
    obtain ⟨e1, e2⟩ := hk2 hne
    rw [selectOne_eq_some_iff, hv]
    refine ⟨hne, ?_⟩
    unfold resultSeg
    rw [← e1, ← e2]
    simp [beq_eq_decide]
  · rw [if_neg hb]
    rw [selectOne_eq_none_iff, hv]
    by_contra hne
    exact hb (hk1.mp hne)

/-- THE LIST.  If every combined segment carries correct flags (`g s` = ground truth at `s`),
then `_select_<op>` returns exactly the segments across which the result region changes, in
order, each with the result's fill above / below, and the `is_inverted` flag `op inv₁ inv₂`. -/
theorem selectOp_of_correct (op : Op) (combined : List (FSeg α)) (inv1 inv2 : Bool)
    (g : FSeg α → Truth) (h : ∀ s ∈ combined, FillsCorrect s (g s)) :
    selectOp op combined inv1 inv2 =
      (combined.filterMap (fun s =>
          if opFun op (g s).a1 (g s).a2 ≠ opFun op (g s).b1 (g s).b2
          then some (resultSeg s (opFun op (g s).a1 (g s).a2) (opFun op (g s).b1 (g s).b2))
          else none),
        opFun op inv1 inv2) := by
  unfold selectOp select
  rw [inverted_eq]
  congr 1
  apply List.filterMap_congr
  intro s hs
  exact selectOne_of_correct op (h s hs)

/-- Consequence in "iff" form: a segment of the combined sweep survives `_select_<op>` iff it
separates result-inside from result-outside, and then the inside is on the side its fill says. -/
theorem mem_selectOp_iff_boundary (op : Op) (combined : List (FSeg α)) (inv1 inv2 : Bool)
    (g : FSeg α → Truth) (h : ∀ s ∈ combined, FillsCorrect s (g s)) (r : FSeg α) :
    r ∈ (selectOp op combined inv1 inv2).1 ↔
      ∃ s ∈ combined, opFun op (g s).a1 (g s).a2 ≠ opFun op (g s).b1 (g s).b2 ∧
        r = resultSeg s (opFun op (g s).a1 (g s).a2) (opFun op (g s).b1 (g s).b2) := by
  rw [selectOp_of_correct op combined inv1 inv2 g h]
  simp only [List.mem_filterMap]
  constructor
  · rintro ⟨s, hs, hr⟩
    by_cases hb : opFun op (g s).a1 (g s).a2 ≠ opFun op (g s).b1 (g s).b2
    · rw [if_pos hb] at hr
      exact ⟨s, hs, hb, (Option.some.inj hr).symm⟩
    · rw [if_neg hb] at hr; cases hr
  · rintro ⟨s, hs, hb, rfl⟩
    exact ⟨s, hs, by rw [if_pos hb]⟩

/-! ## Non-vacuity -/

/-- A concrete combined list with correct flags for two overlapping unit-height rectangles
(`[0,2]×[0,1]` and `[1,3]×[0,1]`, bottom edges only): the union keeps the outer parts and the
shared part once, the intersection only the shared part. -/
example :
    let s1 : FSeg ℚ := ⟨⟨0, 0⟩, ⟨1, 0⟩, ⟨some true, some false⟩, some ⟨some false, some false⟩⟩
    let s2 : FSeg ℚ := ⟨⟨1, 0⟩, ⟨2, 0⟩, ⟨some true, some false⟩, some ⟨some true, some false⟩⟩
    let s3 : FSeg ℚ := ⟨⟨2, 0⟩, ⟨3, 0⟩, ⟨some false, some false⟩, some ⟨some true, some false⟩⟩
    FillsCorrect s1 ⟨true, false, false, false⟩ ∧ FillsCorrect s2 ⟨true, false, true, false⟩ ∧
    FillsCorrect s3 ⟨false, false, true, false⟩ ∧
    ((selectOp .union [s1, s2, s3] false false).1.map (fun s => (s.start.x, s.stop.x))
      = [(0, 1), (1, 2), (2, 3)]) ∧
    ((selectOp .intersect [s1, s2, s3] false false).1.map (fun s => (s.start.x, s.stop.x))
      = [(1, 2)]) := by
  refine ⟨⟨rfl, rfl, rfl, rfl⟩, ⟨rfl, rfl, rfl, rfl⟩, ⟨rfl, rfl, rfl, rfl⟩, ?_, ?_⟩ <;>
    decide +kernel

end Lbg.Props.C04c
