/-
  C19g — `perimeter_core_by_offset`: the segment list of the hand model `Model/Offset.lean`
  (`Model.segmentsOf`, on which the partition theorems of `Props/C19` are proved) is EQUAL to the
  GENERATED `Polygon2D.segments` / `Polygon2D._segments_from_vertices` (`Gen/PolyMore.lean`,
  regenerated from `geometry2d/polygon.py`).  Hence the quads of `perimeter_core_by_offset`
  are built from the regenerated segments.

  `Polygon2D.offset`: the GENERATED definition (`Gen/Offset.lean`: the `enumerate` loop with
  its `ZeroDivisionError` exits, IndexError checks, both orientation branches, the constructor
  check) is EQUAL to `offsetOpt`, the exception-aware reading of the hand model
  `Model.polygonOffset` (`Model/SubRects.lean`, on which `Props/C19b` §D is proved), and to
  `Model.polygonOffset` itself followed by the constructor check whenever no pass raises or
  needs the `except ValueError` clamp of `Vector2D.angle` (which the generated kernel does not
  contain).
-/
import LbgVerif.Gen.PolyMore
import LbgVerif.Model.Offset
import LbgVerif.Props.C08g
import LbgVerif.Props.C19
import LbgVerif.Gen.Offset
import LbgVerif.Model.SubRects
import LbgVerif.Lemmas.GenLoops2
import LbgVerif.Lemmas.GenTiesOffset
import LbgVerif.Lemmas.OffsetLoop
import LbgVerif.Props.C15g
import LbgVerif.Props.C19b
import Mathlib.Tactic.ClearExcept
import Mathlib.Algebra.Order.Field.Rat

set_option linter.unusedSectionVars false
set_option linter.unusedSimpArgs false
set_option linter.unusedVariables false

namespace Lbg.Props.C19g
open Lbg Lbg.Gen Lbg.Model Lbg.Model.Colinear Lbg.Lemmas Lbg.Lemmas.GenLoops2
  Lbg.Lemmas.GenTiesOffset Lbg.Lemmas.Colinear
open Lbg.Props.C15g (ctor3)
variable {α : Type} [Field α] [LinearOrder α] [IsStrictOrderedRing α]

/-- The two hand renderings of `lst.append(lst.pop(0))` coincide. -/
theorem popAppend_eq_popFirstToEnd {β : Type} (l : List β) :
    popAppend l = PointInside.popFirstToEnd l := by
  cases l with
  | nil => rfl
  | cons s t => rfl

/-- The hand model `Model.segmentsOf` (Offset) and the hand model `PointInside.segments` of
`Polygon2D._segments_from_vertices` are the same function. -/
theorem segmentsOf_eq_segments (vs : List (V2 α)) : segmentsOf vs = PointInside.segments vs := by
  unfold segmentsOf PointInside.segments
  exact popAppend_eq_popFirstToEnd _

/-- TIE: generated `Polygon2D.segments` = hand model `Model.segmentsOf`, for a non-empty vertex
list. -/
theorem polygon2d_segments_eq_segmentsOf (vs : List (V2 α)) (h : vs ≠ []) :
    polygon2d_segments vs = segmentsOf vs := by
  rw [C08g.polygon2d_segments_eq_model vs h, segmentsOf_eq_segments]

/-- TIE: generated static `Polygon2D._segments_from_vertices(vertices)` raises (IndexError of
`pop(0)`) exactly on the empty list and otherwise returns `Model.segmentsOf vertices`. -/
theorem polygon2d_segments_from_vertices_eq_segmentsOf (vs : List (V2 α)) :
    polygon2d_segments_from_vertices vs = if vs = [] then none else some (segmentsOf vs) := by
  rw [C08g.polygon2d_segments_from_vertices_eq, segmentsOf_eq_segments]

/-- The quads of `perimeter_core_by_offset` (`holes is None`) are built from the GENERATED
segments of the polygon and of its core: `zip(polygon.segments, core.segments)` with the tuple
`(out.p1, out.p2, in.p2, in.p1)`. -/
theorem perimeterQuads_eq_gen (P Q : List (V2 α)) (hP : P ≠ []) (hQ : Q ≠ []) :
    perimeterQuads P Q =
      ((polygon2d_segments P).zip (polygon2d_segments Q)).map (fun s => quadOut s.1 s.2) := by
  rw [polygon2d_segments_eq_segmentsOf P hP, polygon2d_segments_eq_segmentsOf Q hQ]
  rfl

/-- **`perimeter_core_partition` for the regenerated segments** (`C19.perimeter_core_partition`
transported): the quads built from the generated `Polygon2D.segments` of any two non-empty
loops of equal length have signed areas summing to `shoelace P - shoelace Q`. -/
theorem perimeter_core_partition_gen (P Q : List (V2 α)) (hP : P ≠ []) (hQ : Q ≠ [])
    (h : P.length = Q.length) :
    C19.shoelaceSum (((polygon2d_segments P).zip (polygon2d_segments Q)).map
      (fun s => quadOut s.1 s.2)) + Lemmas.shoelace Q = Lemmas.shoelace P := by
  rw [← perimeterQuads_eq_gen P Q hP hQ]
  exact C19.perimeter_core_partition P Q h

/-- One generated segment per vertex (`C19.segments_length` transported). -/
theorem polygon2d_segments_length (vs : List (V2 α)) (h : vs ≠ []) :
    (polygon2d_segments vs).length = vs.length := by
  rw [polygon2d_segments_eq_segmentsOf vs h]; exact C19.segments_length vs

/-! ## `Polygon2D.offset` -/

/-- The half angle of one pass of the `move_vecs` loop of `Polygon2D.offset` exactly as the
generated code computes it: `math.acos` of the quotient directly (the `except ValueError` clamp
of `Vector2D.angle` is not part of the generated kernel), then the `ang == 0 → pi / 2` guard. -/
def rawHalfAngle (M : MathOps α) (cw : Bool) (v1 v2 : V2 α) : α :=
  let inner := M.acos (v2_dot v1 v2 / (v2_magnitude M v1 * v2_magnitude M v2))
  let ang := (if ¬ (cw = true) then
      (if ¬ (0 < v2_determinant v1 v2) then inner else 2 * M.pi - inner)
    else (if ¬ (v2_determinant v1 v2 < 0) then inner else 2 * M.pi - inner)) / 2
  if ang = 0 then M.pi / 2 else ang

/-- One pass of the `move_vecs` loop with its exceptions: `none` = `ZeroDivisionError` (a zero
edge vector in `Vector2D.angle`, or `distance / math.sin(ang)` with `sin(ang) == 0`). -/
def moveVecOpt (M : MathOps α) (cw : Bool) (distance : α) (t : V2 α × V2 α × V2 α) :
    Option (V2 α) :=
  let v1 := v2Sub t.1 t.2.1
  let v2 := v2Sub t.2.2 t.2.1
  if v2_magnitude M v1 * v2_magnitude M v2 = 0 then none
  else if M.sin (rawHalfAngle M cw v1 v2) = 0 then none
  else some (offsetMoveVec M cw v1 (rawHalfAngle M cw v1 v2) distance)

/-- All passes of the loop and `pt.move(m_vec)` for every vertex; `none` if some pass raises. -/
def movedPts (M : MathOps α) (cw : Bool) (distance : α) (init : List (V2 α)) :
    Option (List (V2 α)) :=
  if ∀ i, i < init.length →
      (moveVecOpt M cw distance (tripleAt ⟨0, 0⟩ init i)).isSome = true then
    some ((init.zip ((List.range init.length).filterMap
      (fun i => moveVecOpt M cw distance (tripleAt ⟨0, 0⟩ init i)))).map
        (fun e => p2_move e.1 e.2))
  else none

/-- `init_verts` of `Polygon2D.offset`: counter-clockwise order, repeated neighbours dropped. -/
def offsetInit (vs : List (V2 α)) : List (V2 α) :=
  dropRepeated (if ¬ (polygon2d_is_clockwise vs = true) then vs else vs.reverse)

/-- `Polygon2D.offset(distance)` (`check_intersection=False`) with its exceptions (`none`):
the exception-aware reading of the hand model `Model.polygonOffset`. -/
def offsetOpt (M : MathOps α) (vs : List (V2 α)) (distance : α) : Option (List (V2 α)) :=
  if distance = 0 then some vs
  else if ((offsetInit vs).length : Int) < 3 then some vs
  else (movedPts M (polygon2d_is_clockwise vs) distance (offsetInit vs)).bind (fun pts =>
    ctor3 (if polygon2d_is_clockwise vs = true then pts.reverse else pts))

/-- One pass of the generated loop on a clean state is the model pass `tryStep` (both branches
`i == max_i` / `i != max_i`), for a fixed orientation. -/
local macro "offset_step" M:term "," cw:term "," distance:term "," init:term "," maxi:term "," hd0:term : tactic =>
  `(tactic| (
      intro i hi out
      have hi0 : ($init)[i] = ($init).getD i ⟨0, 0⟩ := by simp [List.getD_eq_getElem?_getD, hi]
      rw [hi0]
      have hne : ¬ ¬ ((0 : Int), out).1 = 0 := by simp
      rw [if_neg hne, tryStep_clean]
      unfold tripleAt
      have hh : ($init).headD (⟨0, 0⟩ : V2 _) = $hd0 := rfl
      by_cases hlast : (i : Int) = (($init).length : Int) - 1
      · have hlast' : ((($init).getD i (⟨0, 0⟩ : V2 _), i).2 : Int) = $maxi := hlast
        rw [if_pos hlast', if_pos hlast]
        simp -zeta only [Bool.false_eq_true, if_false, if_true, eq_self_iff_true]
        simp only [toNat_ite_eq_pyIdx]
        generalize ($init).getD (pyIdx ($init).length ((i : Int) - 1)) (⟨0, 0⟩ : V2 _) = prev
        generalize ($init).getD i (⟨0, 0⟩ : V2 _) = pt
        rw [hh]
        generalize $hd0 = next
        unfold moveVecOpt rawHalfAngle offsetMoveVec v2Sub v2_magnitude v2_dot v2_determinant
          v2_normalize v2_rotate
        simp only [Bool.false_eq_true, if_false, not_false_eq_true, if_true, not_true_eq_false,
          eq_self_iff_true]
        apply tryPush_shape2
      · have hlast' : ¬ ((($init).getD i (⟨0, 0⟩ : V2 _), i).2 : Int) = $maxi := hlast
        rw [if_neg hlast', if_neg hlast]
        have r1 : ¬ ((i : Int) + 1 < -(($init).length : Int) ∨
            (($init).length : Int) ≤ (i : Int) + 1) := by omega
        have e1 : pyIdx ($init).length ((i : Int) + 1) = i + 1 := by
          have := pyIdx_nonneg ($init).length (i + 1); push_cast at this; exact this
        simp -zeta only [r1, Bool.false_eq_true, if_false, if_true, eq_self_iff_true]
        simp only [toNat_ite_eq_pyIdx, e1, r1, if_false]
        generalize ($init).getD (pyIdx ($init).length ((i : Int) - 1)) (⟨0, 0⟩ : V2 _) = prev
        generalize ($init).getD (i + 1) (⟨0, 0⟩ : V2 _) = next
        generalize ($init).getD i (⟨0, 0⟩ : V2 _) = pt
        unfold moveVecOpt rawHalfAngle offsetMoveVec v2Sub v2_magnitude v2_dot v2_determinant
          v2_normalize v2_rotate
        simp only [Bool.false_eq_true, if_false, not_false_eq_true, if_true, not_true_eq_false,
          eq_self_iff_true]
        apply tryPush_shape2))

/-- The generated duplicate filter (`pt != base_verts[i - 1]` coordinate by coordinate) is the
hand model's `dropRepeated`. -/
theorem dropRepeated_eq (l : List (V2 α)) (f : V2 α × V2 α → Option (V2 α))
    (hf : ∀ p, f p = if p.2.x = p.1.x then (if p.2.y = p.1.y then none else some p.2) else some p.2) :
    List.filterMap f (cyclicPairs l) = dropRepeated l := by
  unfold dropRepeated
  apply List.filterMap_congr
  intro p _
  rw [hf]
  by_cases hx : p.2.x = p.1.x <;> by_cases hy : p.2.y = p.1.y
  · have : p.2 = p.1 := V2.ext' hx hy
    simp [hx, hy, this]
  · have : p.2 ≠ p.1 := fun h => hy (by rw [h])
    simp [hx, hy, this]
  · have : p.2 ≠ p.1 := fun h => hx (by rw [h])
    simp [hx, this]
  · have : p.2 ≠ p.1 := fun h => hx (by rw [h])
    simp [hx, this]

/-- Generated `Polygon2D.offset` on a counter-clockwise (or degenerate) polygon. -/
theorem polygon2d_offset_eq_offsetOpt_ccw (M : MathOps α) (vs : List (V2 α)) (distance : α)
    (hcw : polygon2d_is_clockwise vs = false) :
    polygon2d_offset M vs distance = offsetOpt M vs distance := by
  unfold polygon2d_offset offsetOpt
  by_cases hd : distance = 0
  · rw [if_pos hd, if_pos hd]
  rw [if_neg hd, if_neg hd]
  extract_lets +onlyGivenNames acc1 area cw
  have hcw' : cw = false := hcw
  rw [if_neg (by rw [hcw']; decide)]
  extract_lets +onlyGivenNames init
  have hinit : init = offsetInit vs := by
    unfold offsetInit
    rw [hcw, if_pos (by decide)]
    exact dropRepeated_eq vs _ (fun p => rfl)
  rw [hcw, ← hinit]
  clear_value cw init
  subst hcw'
  clear hinit
  by_cases hl : (init.length : Int) < 3
  · rw [if_pos hl, if_pos hl]
  · rw [if_neg hl, if_neg hl]
    extract_lets +onlyGivenNames maxi hd0
    rw [foldl_zipIdx_try (g := fun i => moveVecOpt M false distance (tripleAt ⟨0, 0⟩ init i))]
    · unfold movedPts
      by_cases hall : ∀ i, i < init.length →
          (moveVecOpt M false distance (tripleAt ⟨0, 0⟩ init i)).isSome = true
      · rw [(foldl_tryStep_spec _ init.length).1 hall, if_pos hall]
        rfl
      · have hex : ∃ i, i < init.length ∧
            moveVecOpt M false distance (tripleAt ⟨0, 0⟩ init i) = none := by
          by_contra hcon
          apply hall
          intro i hi
          cases hg : moveVecOpt M false distance (tripleAt ⟨0, 0⟩ init i) with
          | none => exact absurd ⟨i, hi, hg⟩ hcon
          | some y => rfl
        have h2 := (foldl_tryStep_spec (fun i => moveVecOpt M false distance
          (tripleAt ⟨0, 0⟩ init i)) init.length).2 hex
        rw [if_neg hall]
        generalize List.foldl _ _ (List.range init.length) = acc at h2 ⊢
        simp only []
        rw [if_neg (by rw [h2]; decide), if_pos h2]
        rfl
    · intro st x h0
      rw [if_pos h0]
    · offset_step M, false, distance, init, maxi, hd0

/-- Generated `Polygon2D.offset` on a clockwise polygon. -/
theorem polygon2d_offset_eq_offsetOpt_cw (M : MathOps α) (vs : List (V2 α)) (distance : α)
    (hcw : polygon2d_is_clockwise vs = true) :
    polygon2d_offset M vs distance = offsetOpt M vs distance := by
  unfold polygon2d_offset offsetOpt
  by_cases hd : distance = 0
  · rw [if_pos hd, if_pos hd]
  rw [if_neg hd, if_neg hd]
  extract_lets +onlyGivenNames acc1 area cw
  have hcw' : cw = true := hcw
  rw [if_pos hcw']
  extract_lets +onlyGivenNames init
  have hinit : init = offsetInit vs := by
    unfold offsetInit
    rw [hcw, if_neg (by decide)]
    exact dropRepeated_eq vs.reverse _ (fun p => rfl)
  rw [hcw, ← hinit]
  clear_value cw init
  subst hcw'
  clear hinit
  by_cases hl : (init.length : Int) < 3
  · rw [if_pos hl, if_pos hl]
  · rw [if_neg hl, if_neg hl]
    extract_lets +onlyGivenNames maxi hd0
    rw [foldl_zipIdx_try (g := fun i => moveVecOpt M true distance (tripleAt ⟨0, 0⟩ init i))]
    · unfold movedPts
      by_cases hall : ∀ i, i < init.length →
          (moveVecOpt M true distance (tripleAt ⟨0, 0⟩ init i)).isSome = true
      · rw [(foldl_tryStep_spec _ init.length).1 hall, if_pos hall]
        rfl
      · have hex : ∃ i, i < init.length ∧
            moveVecOpt M true distance (tripleAt ⟨0, 0⟩ init i) = none := by
          by_contra hcon
          apply hall
          intro i hi
          cases hg : moveVecOpt M true distance (tripleAt ⟨0, 0⟩ init i) with
          | none => exact absurd ⟨i, hi, hg⟩ hcon
          | some y => rfl
        have h2 := (foldl_tryStep_spec (fun i => moveVecOpt M true distance
          (tripleAt ⟨0, 0⟩ init i)) init.length).2 hex
        rw [if_neg hall]
        generalize List.foldl _ _ (List.range init.length) = acc at h2 ⊢
        simp only []
        rw [if_neg (by rw [h2]; decide), if_pos h2]
        rfl
    · intro st x h0
      rw [if_pos h0]
    · offset_step M, true, distance, init, maxi, hd0
/-- TIE (exception-aware): generated `Polygon2D.offset(distance)` = `offsetOpt`, for every
vertex list. -/
theorem polygon2d_offset_eq_offsetOpt (M : MathOps α) (vs : List (V2 α)) (distance : α) :
    polygon2d_offset M vs distance = offsetOpt M vs distance := by
  cases hcw : polygon2d_is_clockwise vs with
  | false => exact polygon2d_offset_eq_offsetOpt_ccw M vs distance hcw
  | true => exact polygon2d_offset_eq_offsetOpt_cw M vs distance hcw

/-- No exception and no `acos` clamp in the pass of the loop at the neighbourhood `t`:
both edge vectors non-zero, the cosine within `[-1, 1]`, `sin(ang) ≠ 0`. -/
def NoExc (M : MathOps α) (cw : Bool) (t : V2 α × V2 α × V2 α) : Prop :=
  v2_magnitude M (v2Sub t.1 t.2.1) * v2_magnitude M (v2Sub t.2.2 t.2.1) ≠ 0 ∧
  ¬ (v2_dot (v2Sub t.1 t.2.1) (v2Sub t.2.2 t.2.1) /
      (v2_magnitude M (v2Sub t.1 t.2.1) * v2_magnitude M (v2Sub t.2.2 t.2.1)) < -1 ∨
     1 < v2_dot (v2Sub t.1 t.2.1) (v2Sub t.2.2 t.2.1) /
      (v2_magnitude M (v2Sub t.1 t.2.1) * v2_magnitude M (v2Sub t.2.2 t.2.1))) ∧
  M.sin (offsetHalfAngle M cw (v2Sub t.1 t.2.1) (v2Sub t.2.2 t.2.1)) ≠ 0

/-- Without the clamp the generated half angle is the hand model's `offsetHalfAngle`. -/
theorem rawHalfAngle_eq (M : MathOps α) (cw : Bool) (v1 v2 : V2 α)
    (hq : ¬ (v2_dot v1 v2 / (v2_magnitude M v1 * v2_magnitude M v2) < -1 ∨
      1 < v2_dot v1 v2 / (v2_magnitude M v1 * v2_magnitude M v2))) :
    rawHalfAngle M cw v1 v2 = offsetHalfAngle M cw v1 v2 := by
  unfold rawHalfAngle offsetHalfAngle v2AngleClockwise v2AngleCounterclockwise v2Angle
  simp only []
  rw [if_neg hq]
  simp only [not_lt, ge_iff_le]

/-- In a pass without exception the generated move vector is the hand model's. -/
theorem moveVecOpt_of_noExc (M : MathOps α) (cw : Bool) (distance : α)
    (t : V2 α × V2 α × V2 α) (h : NoExc M cw t) :
    moveVecOpt M cw distance t = some (offsetMoveVec M cw (v2Sub t.1 t.2.1)
      (offsetHalfAngle M cw (v2Sub t.1 t.2.1) (v2Sub t.2.2 t.2.1)) distance) := by
  obtain ⟨h1, h2, h3⟩ := h
  unfold moveVecOpt
  simp only []
  rw [rawHalfAngle_eq M cw _ _ h2, if_neg h1, if_neg h3]

/-- `zip` with a list computed from the positions, then a binary map. -/
theorem zip_range_map {β γ δ : Type} (d : β) (l : List β) (f : Nat → γ) (h : β → γ → δ) :
    (l.zip ((List.range l.length).map f)).map (fun e => h e.1 e.2) =
      (List.range l.length).map (fun i => h (l.getD i d) (f i)) := by
  apply List.ext_getElem
  · simp
  · intro i h1 h2
    simp only [List.length_map, List.length_range] at h2
    simp [List.getD_eq_getElem?_getD, h2]

/-- TIE: generated `Polygon2D.offset(distance)` = hand model `Model.polygonOffset` followed by
the `Polygon2D` constructor check, whenever no pass of the `move_vecs` loop raises
(`ZeroDivisionError`) or needs the `except ValueError` clamp of `Vector2D.angle`. -/
theorem polygon2d_offset_eq_model (M : MathOps α) (vs : List (V2 α)) (distance : α)
    (h3 : 3 ≤ vs.length)
    (hne : ∀ i, i < (offsetInit vs).length →
      NoExc M (polygon2d_is_clockwise vs) (tripleAt ⟨0, 0⟩ (offsetInit vs) i)) :
    polygon2d_offset M vs distance = ctor3 (polygonOffset M vs distance) := by
  have hvs : ctor3 vs = some vs := by
    unfold ctor3; rw [if_neg (by omega)]
  rw [polygon2d_offset_eq_offsetOpt]
  unfold offsetOpt polygonOffset
  by_cases hd : distance = 0
  · rw [if_pos hd, if_pos hd, hvs]
  rw [if_neg hd, if_neg hd]
  simp only []
  have hinit : dropRepeated (if ¬ (polygon2d_is_clockwise vs = true) then vs else vs.reverse)
      = offsetInit vs := rfl
  rw [hinit]
  by_cases hl : ((offsetInit vs).length : Int) < 3
  · have hl' : (offsetInit vs).length < 3 := by omega
    rw [if_pos hl, if_pos hl', hvs]
  · have hl' : ¬ (offsetInit vs).length < 3 := by omega
    rw [if_neg hl, if_neg hl']
    have hall : ∀ i, i < (offsetInit vs).length →
        (moveVecOpt M (polygon2d_is_clockwise vs) distance
          (tripleAt ⟨0, 0⟩ (offsetInit vs) i)).isSome = true := by
      intro i hi
      rw [moveVecOpt_of_noExc M _ distance _ (hne i hi)]; rfl
    unfold movedPts
    rw [if_pos hall]
    simp only [Option.bind_some]
    congr 1
    have hfm : (List.range (offsetInit vs).length).filterMap
        (fun i => moveVecOpt M (polygon2d_is_clockwise vs) distance
          (tripleAt ⟨0, 0⟩ (offsetInit vs) i))
        = (List.range (offsetInit vs).length).map (fun i =>
          offsetMoveVec M (polygon2d_is_clockwise vs)
            (v2Sub (tripleAt ⟨0, 0⟩ (offsetInit vs) i).1 (tripleAt ⟨0, 0⟩ (offsetInit vs) i).2.1)
            (offsetHalfAngle M (polygon2d_is_clockwise vs)
              (v2Sub (tripleAt ⟨0, 0⟩ (offsetInit vs) i).1 (tripleAt ⟨0, 0⟩ (offsetInit vs) i).2.1)
              (v2Sub (tripleAt ⟨0, 0⟩ (offsetInit vs) i).2.2
                (tripleAt ⟨0, 0⟩ (offsetInit vs) i).2.1)) distance) := by
      rw [← List.filterMap_eq_map]
      apply List.filterMap_congr
      intro i hi
      rw [List.mem_range] at hi
      rw [moveVecOpt_of_noExc M _ distance _ (hne i hi)]
      rfl
    have hpts : (List.map (fun e => p2_move e.1 e.2)
        ((offsetInit vs).zip ((List.range (offsetInit vs).length).filterMap
          (fun i => moveVecOpt M (polygon2d_is_clockwise vs) distance
            (tripleAt ⟨0, 0⟩ (offsetInit vs) i)))))
        = (cyclicTriples (offsetInit vs)).map (fun t =>
            offsetVertex M (polygon2d_is_clockwise vs) distance t.1 t.2.1 t.2.2) := by
      rw [hfm, zip_range_map (⟨0, 0⟩ : V2 α) (offsetInit vs) _ (fun a b => p2_move a b),
        cyclicTriples_eq_map_range (⟨0, 0⟩ : V2 α), List.map_map]
      rfl
    rw [hpts]

/-- **Vertex-wise form for the generated code, counter-clockwise input**
(`C19b.offset_vertexwise_ccw` transported): for a loop without repeated neighbours, at least 3
vertices, not clockwise, `distance ≠ 0`, and no exception / clamp in any pass, the generated
`Polygon2D.offset` returns the polygon whose vertex `i` is
`Model.offsetVertex M false d v[i-1] v[i] v[i+1]` — the function the per-vertex theorems
`C19.offset_move_vec_ccw`, `C19.moved_vertex_offset` speak about. -/
theorem polygon2d_offset_vertexwise_ccw (M : MathOps α) (vs : List (V2 α)) (d : α) (hd : d ≠ 0)
    (hnr : NoRepeat vs) (h3 : 3 ≤ vs.length) (hcw : polygon2d_is_clockwise vs = false)
    (hne : ∀ i, i < vs.length → NoExc M false (tripleAt ⟨0, 0⟩ vs i)) :
    polygon2d_offset M vs d =
      some ((cyclicTriples vs).map (fun t => offsetVertex M false d t.1 t.2.1 t.2.2)) := by
  have hinit : offsetInit vs = vs := by
    unfold offsetInit
    rw [hcw, if_pos (by decide)]
    exact dropRepeated_of_noRepeat hnr
  rw [polygon2d_offset_eq_model M vs d h3 (by rw [hinit, hcw]; exact hne),
    C19b.offset_vertexwise_ccw M vs d hd hnr h3 hcw]
  unfold ctor3
  rw [if_neg (by rw [List.length_map, cyclicTriples_length]; omega)]

/-- **Same vertex count for the generated code** (`C19b.offset_length` transported): whenever
the generated `Polygon2D.offset` of a loop without repeated neighbours returns a polygon
through the model branch (no exception / clamp), it has as many vertices as the input. -/
theorem polygon2d_offset_length (M : MathOps α) (vs res : List (V2 α)) (d : α)
    (hnr : NoRepeat vs) (h3 : 3 ≤ vs.length)
    (hne : ∀ i, i < (offsetInit vs).length →
      NoExc M (polygon2d_is_clockwise vs) (tripleAt ⟨0, 0⟩ (offsetInit vs) i))
    (h : polygon2d_offset M vs d = some res) : res.length = vs.length := by
  rw [polygon2d_offset_eq_model M vs d h3 hne] at h
  obtain ⟨e, _⟩ := C15g.ctor3_eq_some _ res h
  rw [e, C19b.offset_length M vs d hnr]

/-- `Polygon2D.offset(0)` on the generated code, through the tie (cf. `C19h`). -/
theorem polygon2d_offset_zero_via_model (M : MathOps α) (vs : List (V2 α)) :
    polygon2d_offset M vs 0 = some vs := by
  rw [polygon2d_offset_eq_offsetOpt]; unfold offsetOpt; rw [if_pos rfl]

/-! ### Non-vacuity -/

/-- The `math` module of the non-vacuity example of `Props/C19b` (rational point `(3/5, 4/5)`
of the unit circle for `sin`/`cos`, `acos ≡ 2`, `π ≙ 4`, `sqrt = id`). -/
def Mq : MathOps ℚ := ⟨fun x => x, fun _ => 4 / 5, fun _ => 3 / 5, id, fun _ => 2, id,
  fun _ _ => 0, 4, id⟩

example : polygon2d_offset Mq [⟨0, 0⟩, ⟨8, 0⟩, ⟨8, 8⟩, ⟨0, 8⟩] 1
    = some (polygonOffset Mq [⟨0, 0⟩, ⟨8, 0⟩, ⟨8, 8⟩, ⟨0, 8⟩] 1) := by decide +kernel

example : polygon2d_offset Mq [⟨0, 0⟩, ⟨0, 8⟩, ⟨8, 8⟩, ⟨8, 0⟩] 1
    = some (polygonOffset Mq [⟨0, 0⟩, ⟨0, 8⟩, ⟨8, 8⟩, ⟨8, 0⟩] 1) := by decide +kernel

/-- The `ZeroDivisionError` exit: with a `math` module whose `sin` vanishes, `distance /
math.sin(ang)` raises and the generated `offset` returns `none`. -/
example : polygon2d_offset (⟨fun x => x, fun _ => 0, fun _ => 1, id, fun _ => 2, id,
      fun _ _ => 0, 4, id⟩ : MathOps ℚ) [⟨0, 0⟩, ⟨8, 0⟩, ⟨8, 8⟩, ⟨0, 8⟩] 1 = none := by
  decide +kernel


example : polygon2d_segments ([⟨0, 0⟩, ⟨4, 0⟩, ⟨4, 4⟩, ⟨0, 4⟩] : List (V2 ℚ))
    = segmentsOf [⟨0, 0⟩, ⟨4, 0⟩, ⟨4, 4⟩, ⟨0, 4⟩] := by decide +kernel

example : perimeterQuads ([⟨0, 0⟩, ⟨4, 0⟩, ⟨4, 4⟩, ⟨0, 4⟩] : List (V2 ℚ))
      [⟨1, 1⟩, ⟨3, 1⟩, ⟨3, 3⟩, ⟨1, 3⟩]
    = [[⟨0, 0⟩, ⟨4, 0⟩, ⟨3, 1⟩, ⟨1, 1⟩], [⟨4, 0⟩, ⟨4, 4⟩, ⟨3, 3⟩, ⟨3, 1⟩],
       [⟨4, 4⟩, ⟨0, 4⟩, ⟨1, 3⟩, ⟨3, 3⟩], [⟨0, 4⟩, ⟨0, 0⟩, ⟨1, 1⟩, ⟨1, 3⟩]] := by decide +kernel

end Lbg.Props.C19g
