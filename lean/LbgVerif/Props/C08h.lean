/-
  C08h — `Polygon2D.does_polygon_touch`: the GENERATED definition (`Gen/PolyMore.lean`,
  regenerated from `geometry2d/polygon.py`, with `overlapping_bounding_rect`,
  `point_relationship`, `segments` and `does_intersection_exist_line2d` inlined) is EQUAL to the
  hand-written DECISION LOGIC `Model.PolygonRelationship.doesPolygonTouch` applied to the
  generated sub-kernels.  Hence the decision-tree theorems of `Props/C08` (§5) speak about the
  regenerated code.
-/
import LbgVerif.Gen.PolyMore
import LbgVerif.Gen.Isect2
import LbgVerif.Model.PolygonRelationship
import LbgVerif.Model.PointInside
import LbgVerif.Props.C08
import LbgVerif.Props.C08g
import LbgVerif.Lemmas.GenLoops2
import Mathlib.Algebra.Order.Field.Rat

set_option linter.unusedSectionVars false

namespace Lbg.Props.C08h
open Lbg Lbg.Gen Lbg.Model.PolygonRelationship Lbg.Lemmas.GenLoops2
variable {α : Type} [Field α] [LinearOrder α] [IsStrictOrderedRing α]

/-- `point_relationship` as inlined in `does_polygon_touch` (`if on_edge: 0; if not outside_rect
and odd: 1; else -1`) against the chain of early returns of the stand-alone kernel. -/
theorem inline_rel_shape (b : Bool) (c1 c2 c3 c4 par : Prop) [Decidable c1] [Decidable c2]
    [Decidable c3] [Decidable c4] [Decidable par] :
    (if b = true then (0 : Int) else if (¬ (((c1 ∨ c2) ∨ c3) ∨ c4)) ∧ ¬ par then 1 else -1) =
    (if b = true then (0 : Int) else if c1 then -1 else if c2 then -1 else if c3 then -1
      else if c4 then -1 else if par then -1 else 1) := by
  cases b <;> by_cases c1 <;> by_cases c2 <;> by_cases c3 <;> by_cases c4 <;> by_cases par <;>
    simp [*]

/-- The chain of early returns of `does_polygon_touch` against the hand decision logic. -/
theorem touch_shape (a b : Prop) [Decidable a] [Decidable b] (r1 r2 : List Int) (c c' : Bool)
    (hc : c = c') :
    (if a then false else if b then false else if (0 : Int) ∈ r1 then true
      else if (1 : Int) ∈ r1 then true else if (0 : Int) ∈ r2 then true
      else if (1 : Int) ∈ r2 then true else if c = true then true else false)
    = doesPolygonTouch (decide (¬ a ∧ ¬ b)) r1 r2 c' := by
  subst hc
  unfold doesPolygonTouch
  by_cases a <;> by_cases b <;> by_cases (0 : Int) ∈ r1 <;> by_cases (1 : Int) ∈ r1 <;>
    by_cases (0 : Int) ∈ r2 <;> by_cases (1 : Int) ∈ r2 <;> cases c <;> simp [*]

/-- "Some segment of `self` meets some segment of `polygon`" (`crossing0` of the hand model),
on the generated segments with the generated `does_intersection_exist_line2d`. -/
def crossing0 (vs ws : List (V2 α)) : Bool :=
  (polygon2d_segments vs).any (fun s => (polygon2d_segments ws).any
    (fun t => does_intersection_exist_line2d_ss s t))

/-- TIE: generated `Polygon2D.does_polygon_touch(polygon, tol)` = hand decision logic
`doesPolygonTouch` applied to the generated `overlapping_bounding_rect`, the generated
`point_relationship` of every vertex of the other polygon (both ways) and the segment-crossing
test over the generated segments — for all vertex lists. -/
theorem polygon2d_does_polygon_touch_eq_model (M : MathOps α) (vs ws : List (V2 α)) (tol : α) :
    polygon2d_does_polygon_touch M vs ws tol =
      doesPolygonTouch (polygon2d_overlapping_bounding_rect vs ws tol)
        (ws.map (fun p => polygon2d_point_relationship M vs p tol))
        (vs.map (fun p => polygon2d_point_relationship M ws p tol))
        (crossing0 vs ws) := by
  unfold polygon2d_does_polygon_touch crossing0
  simp only []
  generalize hr1 : List.map _ ws = r1
  generalize hr2 : List.map _ vs = r2
  have e1 : r1 = ws.map (fun p => polygon2d_point_relationship M vs p tol) := by
    rw [← hr1]
    apply List.map_congr_left
    intro p _
    unfold polygon2d_point_relationship
    simp only []
    exact inline_rel_shape _ _ _ _ _ _
  have e2 : r2 = vs.map (fun p => polygon2d_point_relationship M ws p tol) := by
    rw [← hr2]
    apply List.map_congr_left
    intro p _
    unfold polygon2d_point_relationship
    simp only []
    exact inline_rel_shape _ _ _ _ _ _
  clear hr1 hr2
  rw [← e1, ← e2]
  clear e1 e2
  simp only [foldl_return_any]
  unfold polygon2d_overlapping_bounding_rect
  simp only []
  refine touch_shape _ _ r1 r2 _ _ ?_
  unfold polygon2d_segments
  simp only []
  congr 1
  funext s
  rw [isSome_ite_some_none]
  congr 1
  funext t
  unfold does_intersection_exist_line2d_ss
  simp only []
  split_ifs <;> simp [*]

/-- The same with the vertex relationships given by the hand model
`PointInside.pointRelationship` (default test vector `Vector2D(1, 0.00001)`), using the ties of
`Props/C08g`. -/
theorem polygon2d_does_polygon_touch_eq_models (M : MathOps α) (v0 : V2 α) (vrest : List (V2 α))
    (w0 : V2 α) (wrest : List (V2 α)) (tol : α) :
    polygon2d_does_polygon_touch M (v0 :: vrest) (w0 :: wrest) tol =
      doesPolygonTouch (polygon2d_overlapping_bounding_rect (v0 :: vrest) (w0 :: wrest) tol)
        ((w0 :: wrest).map (fun p => Model.PointInside.pointRelationship M (v0 :: vrest) p tol
          ⟨1, (5902958103587057 : α) / 590295810358705651712⟩))
        ((v0 :: vrest).map (fun p => Model.PointInside.pointRelationship M (w0 :: wrest) p tol
          ⟨1, (5902958103587057 : α) / 590295810358705651712⟩))
        (crossing0 (v0 :: vrest) (w0 :: wrest)) := by
  rw [polygon2d_does_polygon_touch_eq_model]
  simp only [C08g.polygon2d_point_relationship_eq_model]

/-- **`does_polygon_touch` (generated code) is `False` exactly when** the generated bounding
rectangles do not overlap within the tolerance, or no vertex of either polygon is on or inside
the other (generated `point_relationship` ∈ {0, 1}) and no two generated segments cross
(`C08.does_polygon_touch_false_iff` transported). -/
theorem polygon2d_does_polygon_touch_false_iff (M : MathOps α) (vs ws : List (V2 α)) (tol : α) :
    polygon2d_does_polygon_touch M vs ws tol = false ↔
      polygon2d_overlapping_bounding_rect vs ws tol = false ∨
      ((∀ p ∈ ws, polygon2d_point_relationship M vs p tol = -1) ∧
       (∀ p ∈ vs, polygon2d_point_relationship M ws p tol = -1) ∧
       crossing0 vs ws = false) := by
  rw [polygon2d_does_polygon_touch_eq_model, C08.does_polygon_touch_false_iff]
  have hrange : ∀ (xs : List (V2 α)) (p : V2 α),
      polygon2d_point_relationship M xs p tol = -1 ∨ polygon2d_point_relationship M xs p tol = 0
        ∨ polygon2d_point_relationship M xs p tol = 1 := by
    intro xs p
    unfold polygon2d_point_relationship
    simp only []
    split_ifs <;> simp
  have key : ∀ (xs ys : List (V2 α)),
      ((0 : Int) ∉ ys.map (fun p => polygon2d_point_relationship M xs p tol) ∧
       (1 : Int) ∉ ys.map (fun p => polygon2d_point_relationship M xs p tol)) ↔
      ∀ p ∈ ys, polygon2d_point_relationship M xs p tol = -1 := by
    intro xs ys
    simp only [List.mem_map, not_exists, not_and]
    constructor
    · rintro ⟨h0, h1⟩ p hp
      rcases hrange xs p with h | h | h
      · exact h
      · exact absurd h (h0 p hp)
      · exact absurd h (h1 p hp)
    · intro h
      exact ⟨fun p hp e => by rw [h p hp] at e; exact absurd e (by decide),
             fun p hp e => by rw [h p hp] at e; exact absurd e (by decide)⟩
  constructor
  · rintro (h | ⟨a, b, c, d, e⟩)
    · exact Or.inl h
    · exact Or.inr ⟨(key vs ws).1 ⟨a, b⟩, (key ws vs).1 ⟨c, d⟩, e⟩
  · rintro (h | ⟨a, b, e⟩)
    · exact Or.inl h
    · obtain ⟨a0, a1⟩ := (key vs ws).2 a
      obtain ⟨b0, b1⟩ := (key ws vs).2 b
      exact Or.inr ⟨a0, a1, b0, b1, e⟩

/-- Disjoint bounding rectangles: the generated `does_polygon_touch` answers `False` without
looking at the polygons. -/
theorem polygon2d_does_polygon_touch_no_bbox (M : MathOps α) (vs ws : List (V2 α)) (tol : α)
    (h : polygon2d_overlapping_bounding_rect vs ws tol = false) :
    polygon2d_does_polygon_touch M vs ws tol = false :=
  (polygon2d_does_polygon_touch_false_iff M vs ws tol).2 (Or.inl h)

/-! ### Non-vacuity (ℚ; `sqrt` is only compared with the tolerance) -/

/-- A `math` module for evaluation at ℚ: `sqrt x := x` is monotone and vanishes at `0`, which is
all the examples below depend on. -/
def Mq : MathOps ℚ :=
  { sqrt := id, sin := id, cos := id, tan := id, acos := id, asin := id,
    atan2 := fun a _ => a, pi := 3, floor := id }

example : polygon2d_does_polygon_touch Mq
    [⟨0, 0⟩, ⟨2, 0⟩, ⟨2, 2⟩, ⟨0, 2⟩] [⟨2, 0⟩, ⟨4, 0⟩, ⟨4, 2⟩, ⟨2, 2⟩] (1/100) = true := by
  decide +kernel

example : polygon2d_does_polygon_touch Mq
    [⟨0, 0⟩, ⟨2, 0⟩, ⟨2, 2⟩, ⟨0, 2⟩] [⟨5, 0⟩, ⟨7, 0⟩, ⟨7, 2⟩, ⟨5, 2⟩] (1/100) = false := by
  decide +kernel

end Lbg.Props.C08h
