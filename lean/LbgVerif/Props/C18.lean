/-
  Property C18 — `join_segments` (2D and 3D) conserves its input: every input segment is
  used exactly once along the returned chains (hence any additive edge measure such as
  length is preserved), and the chains are maximal.

  The theorems are about the literal model `LbgVerif/Model/JoinSegments.lean` of
  `ladybug_geometry/_polyline.py` (`_group_vertices`, `_build_polyline`,
  `_connect_seg_to_poly`), for an arbitrary point type and an arbitrary Boolean
  `eqv a b ≙ a.is_equivalent(b, tol)`; they hold for every list of segments, in every order
  and orientation.  The driver runs the same model against the real code
  (`model.join_segments`, `model.join_segments3`).
-/
import LbgVerif.Model.JoinSegments
import LbgVerif.Lemmas.JoinSegments
import Mathlib.Data.Sym.Sym2
import Mathlib.Algebra.BigOperators.Group.Multiset.Defs

namespace Lbg.Props.C18
open Lbg Lbg.Model.JoinSegments Lbg.Lemmas.JoinSegments
open scoped List

variable {P : Type} (eqv : P → P → Bool)

/-! ### 1. Every input segment is used exactly once -/

/-! Predicates (defined in `Lemmas/JoinSegments.lean`), unfolded as checked equations. -/

/-- `Near a b`: chain end point `a` stands for segment end point `b` — it is `b`, or the code
found `a.is_equivalent(b, tol)`. -/
theorem near_iff (a b : P) : Near eqv a b ↔ (a = b ∨ eqv a b = true) := Iff.rfl

/-- `SegRel e s`: the chain edge `e` has the end points of the input segment `s`, up to `Near`,
in one of the two orientations. -/
theorem segRel_iff (e s : Seg P) :
    SegRel eqv e s ↔ ((Near eqv e.1 s.1 ∧ Near eqv e.2 s.2) ∨ (Near eqv e.1 s.2 ∧ Near eqv e.2 s.1)) :=
  Iff.rfl

/-- `IsEnd c p`: `p` is the first or the last vertex of the chain `c`. -/
theorem isEnd_iff (c : List P) (p : P) : IsEnd c p ↔ (c.head? = some p ∨ c.getLast? = some p) :=
  Iff.rfl

/-- `SegEnd segs p`: `p` is an end point of one of the segments. -/
theorem segEnd_iff (segs : List (Seg P)) (p : P) :
    SegEnd segs p ↔ ∃ s ∈ segs, p = s.1 ∨ p = s.2 := Iff.rfl


/-- **C18 "use every input segment exactly once" (tolerance form).**  The multiset of edges
(consecutive vertex pairs) of the returned chains is in one-to-one correspondence with the
multiset of input segments, each edge having the end points of its segment in one of the two
orientations, up to `Near`: an end point is the segment's own end point or a point the code
found `is_equivalent` to it (when two segments meet within the tolerance the chain keeps ONE
of the two nearly coincident end points).  Holds for every input list — every order, every
orientation — and every relation `eqv`. -/
theorem join_conserves (segs : List (Seg P)) :
    Multiset.Rel (SegRel eqv) (↑((joinSegments eqv segs).flatMap edges)) (↑segs) := by
  match segs with
  | [] => exact Multiset.Rel.zero
  | [s] =>
    show Multiset.Rel (SegRel eqv) (↑[(s.1, s.2)]) (↑[s])
    exact Multiset.rel_refl_of_refl_on (fun x _ => SegRel.refl eqv x)
  | base :: s :: rest =>
    obtain ⟨news, h1, h2, _⟩ :=
      groupLoop_spec eqv ((s :: rest).length + 1) base (s :: rest) [] (by simp) (by omega)
    show Multiset.Rel (SegRel eqv)
      (↑((groupLoop eqv ((s :: rest).length + 1) base (s :: rest) []).flatMap edges)) _
    rw [h1, List.nil_append]
    exact h2

/-- **C18 "use every input segment exactly once" (exact form).**  When `is_equivalent` only
accepts equal points (`tol = 0`, or inputs whose coincident end points are bitwise equal), the
multiset of undirected edges of the returned chains EQUALS the multiset of undirected input
segments. -/
theorem join_conserves_exact (hex : ∀ a b, eqv a b = true → a = b) (segs : List (Seg P)) :
    (↑(((joinSegments eqv segs).flatMap edges).map (fun e => s(e.1, e.2))) :
        Multiset (Sym2 P)) =
      ↑(segs.map (fun e => s(e.1, e.2))) := by
  have h := join_conserves eqv segs
  have hn : ∀ a b, Near eqv a b → a = b := fun a b hab => hab.elim id (hex a b)
  have h2 : Multiset.Rel (fun e s' : Seg P => s(e.1, e.2) = s(s'.1, s'.2))
      (↑((joinSegments eqv segs).flatMap edges)) (↑segs) := by
    refine h.mono ?_
    intro e _ s' _ hr
    rcases hr with ⟨h1, h2⟩ | ⟨h1, h2⟩
    · rw [hn _ _ h1, hn _ _ h2]
    · rw [hn _ _ h1, hn _ _ h2]; exact Sym2.eq_swap
  have h3 := (Multiset.rel_map (p := (· = ·)) (f := fun e : Seg P => s(e.1, e.2))
    (g := fun e : Seg P => s(e.1, e.2))).2 h2
  rw [Multiset.rel_eq] at h3
  simpa using h3

/-- Shape of the result: every returned chain has at least two vertices (so it is a valid
`LineSegment` or `Polyline`) and every chain vertex is literally an end point of an input
segment (no new points are made). -/
theorem join_chains_wellformed (segs : List (Seg P)) :
    ∀ c ∈ joinSegments eqv segs, 2 ≤ c.length ∧ ∀ v ∈ c, SegEnd segs v := by
  match segs with
  | [] => intro c hc; simp [joinSegments] at hc
  | [s] =>
    intro c hc
    simp only [joinSegments, List.mem_singleton] at hc
    subst hc
    refine ⟨by simp, ?_⟩
    intro v hv
    exact ⟨s, List.mem_singleton_self s, by simpa using hv⟩
  | base :: s :: rest =>
    obtain ⟨news, h1, _, h3, h4, _⟩ :=
      groupLoop_spec eqv ((s :: rest).length + 1) base (s :: rest) [] (by simp) (by omega)
    intro c hc
    have hc' : c ∈ groupLoop eqv ((s :: rest).length + 1) base (s :: rest) [] := hc
    rw [h1, List.nil_append] at hc'
    exact ⟨h4 c hc', h3 c hc'⟩

/-! ### 2. Total length (any additive symmetric edge measure) is preserved -/

/-- **C18 "preserving total length".**  In the exact case, for every symmetric edge measure
`len` with values in an additive commutative monoid (Euclidean length at ℝ, squared length,
edge count, …) the total over the edges of the returned chains equals the total over the
input segments. -/
theorem join_total_length {M : Type} [AddCommMonoid M] (len : P → P → M)
    (hlen : ∀ a b, len a b = len b a) (hex : ∀ a b, eqv a b = true → a = b)
    (segs : List (Seg P)) :
    (((joinSegments eqv segs).flatMap edges).map (fun e => len e.1 e.2)).sum =
      (segs.map (fun e => len e.1 e.2)).sum := by
  have h := join_conserves_exact eqv hex segs
  have h2 := congrArg (fun m => (Multiset.map (Sym2.lift ⟨len, hlen⟩) m).sum) h
  simpa [Multiset.map_coe, List.map_map, Function.comp_def] using h2

/-! ### 3. The chains are maximal -/

/-- **C18 "maximal".**  What the greedy builder really guarantees is stronger than the
property's wording: a chain is closed only when no segment still in the list touches either of
its ends, and all later chains are made of those remaining segments; hence for two different
returned chains, the earlier one has NO end point `p` and the later one NO end point `q` with
`p.is_equivalent(q, tol)` — there is no exception for junctions (where three or more segments
meet, the first chain to arrive passes through or absorbs a further segment, so later chains
that end there meet an interior vertex of it, never an end).  No symmetry or transitivity of
`eqv` is needed. -/
theorem join_maximal (segs : List (Seg P)) :
    (joinSegments eqv segs).Pairwise
      (fun c c' => ∀ p q, IsEnd c p → IsEnd c' q → eqv p q = false) := by
  match segs with
  | [] => exact List.Pairwise.nil
  | [s] => exact List.pairwise_singleton _ _
  | base :: s :: rest =>
    obtain ⟨news, h1, _, _, _, h5⟩ :=
      groupLoop_spec eqv ((s :: rest).length + 1) base (s :: rest) [] (by simp) (by omega)
    show (groupLoop eqv ((s :: rest).length + 1) base (s :: rest) []).Pairwise _
    rw [h1, List.nil_append]
    exact h5

/-- Symmetric form: with a symmetric `is_equivalent` (the library's is), two returned chains
at different positions of the result never have equivalent end points.  In particular the
clause "unless three or more segments meet there" of the property is never needed: the
statement "an end point of another chain equivalent to `p` implies that three input segment
ends are equivalent to `p`" holds with a false premise. -/
theorem join_no_shared_ends (hsymm : ∀ a b, eqv a b = eqv b a) (segs : List (Seg P))
    (i j : Nat) (hij : i ≠ j) (ci cj : List P)
    (hi : (joinSegments eqv segs)[i]? = some ci) (hj : (joinSegments eqv segs)[j]? = some cj)
    (p q : P) (hp : IsEnd ci p) (hq : IsEnd cj q) : eqv p q = false := by
  have h := List.pairwise_iff_getElem.1 (join_maximal eqv segs)
  obtain ⟨hi1, hi2⟩ := List.getElem?_eq_some_iff.1 hi
  obtain ⟨hj1, hj2⟩ := List.getElem?_eq_some_iff.1 hj
  subst hi2 hj2
  rcases Nat.lt_or_gt_of_ne hij with hlt | hgt
  · exact h i j hi1 hj1 hlt p q hp hq
  · rw [hsymm]; exact h j i hj1 hi1 hgt q p hq hp

/-! ### Termination: the fuel is enough -/

/-- The `while` loop of `_build_polyline` has exited after at most `len(other_segs)`
attachments: any larger fuel gives the same result. -/
theorem build_fuel_irrelevant (fuel : Nat) (poly : List P) (segs : List (Seg P))
    (h : segs.length ≤ fuel) :
    buildLoop eqv fuel poly segs = buildLoop eqv segs.length poly segs :=
  buildLoop_fuel_irrelevant eqv fuel poly segs h

/-- The `while` loop of `_group_vertices` has exited within `len(remain_segs)` rounds: one
more unit of fuel changes nothing (so by induction any larger fuel gives the same chains). -/
theorem group_fuel_irrelevant (fuel : Nat) (base : Seg P) (remain : List (Seg P))
    (acc : List (List P)) (h : remain.length ≤ fuel) :
    groupLoop eqv (fuel + 1) base remain acc = groupLoop eqv fuel base remain acc :=
  groupLoop_fuel_succ eqv fuel base remain acc h

/-! ### 4. Examples (kernel-checked tests of the model on concrete soups) -/

/-- Exact matching on ℕ-labelled points. -/
def eqN (a b : Nat) : Bool := a == b

/-- A path 1-2-3-4 given shuffled and flipped is reassembled into one chain. -/
example : joinSegments eqN [(2, 3), (2, 1), (4, 3)] = [[1, 2, 3, 4]] := by decide

/-- A closed loop and a separate segment. -/
example : joinSegments eqN [(1, 2), (7, 8), (3, 1), (2, 3)] = [[3, 1, 2, 3], [7, 8]] := by decide

/-- A junction of three segments at `0`: the first chain passes through the junction, the
third segment stays alone and ends at an INTERIOR vertex of the first chain. -/
example : joinSegments eqN [(1, 0), (0, 2), (0, 3)] = [[1, 0, 2], [0, 3]] := by decide

/-- Order dependence (why the quantifier ranges over all orders): the same junction listed
in another order is cut differently, with the same edges. -/
example : joinSegments eqN [(0, 3), (1, 0), (0, 2)] = [[1, 0, 3], [0, 2]] := by decide

/-- Fewer than two segments are returned as they are. -/
example : joinSegments eqN [(5, 6)] = [[5, 6]] ∧ joinSegments eqN ([] : List (Seg Nat)) = [] := by
  decide

/-- `_group_vertices` itself (not guarded by `len(segments) <= 1`) LOSES a single segment:
`remain_segs` is empty, the loop body never runs.  `join_segments` guards this case. -/
example : groupVertices eqN [(5, 6)] = some [] := by decide

/-- A tolerance-like relation on ℕ (|a-b| ≤ 1): the chain keeps one of the two nearly
coincident end points (`10`, not `11`), as `join_conserves` states. -/
example : joinSegments (fun a b => decide (a ≤ b + 1 ∧ b ≤ a + 1)) [(0, 10), (11, 20)]
    = [[0, 10, 20]] := by decide

end Lbg.Props.C18
