/-
  C12b — the COMPOSITE distance routines of C12: "closest_point / distance_to_point … on
  POLYGONS … return a point no farther from the query than any other point of the object;
  distances are non-negative, zero on the object, 1-Lipschitz in the query.
  `pole_of_inaccessibility` returns an interior point whose distance to the boundary is within
  the requested precision of the largest attainable."

  Property theorems only (helper lemmas: `Lemmas/PolyDistance.lean`, `Lemmas/Polylabel.lean`,
  `Lemmas/CrossSep.lean`, `Lemmas/PolylabelTerm.lean`).  The statements are about the literal
  hand models of `Model/PolyDistance.lean` (tied to the code by the correspondence module
  `corr/polydistance.py`), which are built on the GENERATED kernels
  `Gen.seg2_distance_to_point`, `Gen.closest_point2d_on_line2d_s`, `Gen.polygon2d_area` and on
  `Model/PointInside`.

  What the code does, read from the source and confirmed by correspondence:
  * `Polygon2D.distance_from_edge_to_point` = `min` over the sides of the segment distance;
  * `Polygon2D.distance_to_point` = `0` when `is_point_inside_bound_rect(point)` (crossing count
    with the test vector `(1, 0.00001)` after the bounding-rectangle rejection) says inside,
    else the edge distance.  It is NOT a metric distance for points the crossing test
    misclassifies (C08 says when it is right); no Lipschitz theorem is claimed for it;
  * `_Cell.d` = ± the same edge distance (own squared-distance kernel `_get_seg_dist_sq`, own
    crossing test), `_Cell.max = d + h·√2`;
  * `pole_of_inaccessibility` = polylabel: best-first quadtree refinement of the bounding
    rectangle, cells discarded when `max − best.d ≤ tolerance`.  It searches the BOUNDING
    RECTANGLE and maximises the SIGNED distance; the degenerate early return
    (`cell_size == 0 or area < max_dim·tolerance`) gives the rectangle centre with no guarantee.
  * The library has no polygon / face / polyline / polyface `closest_point` routine;
    `Face3D.pole_of_inaccessibility` is `plane.xy_to_xyz` of the 2D result.
  * `closest_point2d_between_line2d` (`Model/SegSeg.lean`) takes the smallest of the four
    end-point-to-segment distances; that is the distance between the segments exactly when they
    do not cross (the documented precondition) — section (d).

  The square-root laws are explicit hypotheses `hsqrt : ∀ x ≥ 0, √x·√x = x ∧ 0 ≤ √x` (they hold
  for `Real.sqrt`, see `Props/C02Real.lean`); they cannot hold over ℚ, so the ℚ examples use the
  squared formulation, or a table `sqrt` on perfect squares.
-/
import LbgVerif.Model.PolyDistance
import LbgVerif.Lemmas.PolyDistance
import LbgVerif.Lemmas.Polylabel
import LbgVerif.Lemmas.CrossSep
import LbgVerif.Lemmas.PolylabelTerm
import LbgVerif.Lemmas.SegSeg
import LbgVerif.Model.SegSeg
import LbgVerif.Props.C10
import Mathlib.Tactic.Ring
import Mathlib.Tactic.Linarith
import Mathlib.Tactic.NormNum
import Mathlib.Algebra.Order.Field.Rat

set_option linter.unusedSectionVars false
set_option linter.unusedVariables false

namespace Lbg.Props.C12b
open Lbg Lbg.Gen Lbg.Model.PointInside Lbg.Model.PolyDistance Lbg.Model.SegSeg
variable {α : Type} [Field α] [LinearOrder α] [IsStrictOrderedRing α]

/-! ## Predicates used in the statements -/

/-- `q` lies on the segment `l` (`l.p + t·l.v`, `t ∈ [0,1]`). -/
def OnSeg (l : LR2 α) (q : V2 α) : Prop :=
  ∃ t, 0 ≤ t ∧ t ≤ 1 ∧ (q.x = l.p.x + t * l.v.x ∧ q.y = l.p.y + t * l.v.y)

/-- Squared Euclidean distance in 2D. -/
def distSq2 (a b : V2 α) : α := (a.x - b.x) * (a.x - b.x) + (a.y - b.y) * (a.y - b.y)

/-- `x` lies on the closed side from `a` to `b`. -/
def OnSide (a b x : V2 α) : Prop :=
  ∃ t, 0 ≤ t ∧ t ≤ 1 ∧ x.x = a.x + t * (b.x - a.x) ∧ x.y = a.y + t * (b.y - a.y)

/-- `x` lies on the boundary of the polygon with vertex list `vs`: on one of the closed sides
`vs[i-1] vs[i]` (cyclically, the closing side included). -/
def OnBoundary (vs : List (V2 α)) (x : V2 α) : Prop :=
  ∃ ab ∈ cyclicPairs vs, OnSide ab.1 ab.2 x

/-- `w` lies on the closed segment `pq`. -/
def OnSegment (p q w : V2 α) : Prop :=
  ∃ t, 0 ≤ t ∧ t ≤ 1 ∧ w.x = p.x + t * (q.x - p.x) ∧ w.y = p.y + t * (q.y - p.y)

/-- The signed distance the pole search maximises: `_Cell(z.x, z.y, ·, polygon).d`. -/
def cellDist (M : MathOps α) (vs : List (V2 α)) (z : V2 α) : α :=
  pointToPolygonDistance M z.x z.y vs

/-- The inside flag of `_Cell._point_to_polygon_distance`: an odd number of sides `(b, a)`
passes its crossing test. -/
def cellInside (vs : List (V2 α)) (z : V2 α) : Bool :=
  decide ((cyclicPairs vs).countP (fun ba => cellCross z.x z.y ba.1 ba.2) % 2 = 1)

/-- `z` lies in the bounding rectangle `self.min … self.max` of the polygon `v0 :: rest`. -/
def InBoundRect (v0 : V2 α) (rest : List (V2 α)) (z : V2 α) : Prop :=
  (boundRect v0 rest).1.x ≤ z.x ∧ z.x ≤ (boundRect v0 rest).2.x ∧
  (boundRect v0 rest).1.y ≤ z.y ∧ z.y ≤ (boundRect v0 rest).2.y

/-- `cell_size = min(width, height)` of `pole_of_inaccessibility`. -/
def cellSize (v0 : V2 α) (rest : List (V2 α)) : α :=
  min ((boundRect v0 rest).2.x - (boundRect v0 rest).1.x)
    ((boundRect v0 rest).2.y - (boundRect v0 rest).1.y)

/-- `max_dim = max(width, height)` of `pole_of_inaccessibility`. -/
def maxDim (v0 : V2 α) (rest : List (V2 α)) : α :=
  max ((boundRect v0 rest).2.x - (boundRect v0 rest).1.x)
    ((boundRect v0 rest).2.y - (boundRect v0 rest).1.y)

/-- The cell was made by the constructor `_Cell(x, y, h, polygon)` with `h ≥ 0`. -/
def IsCell (M : MathOps α) (vs : List (V2 α)) (c : Cell α) : Prop :=
  c = mkCell M vs c.x c.y c.h ∧ 0 ≤ c.h

/-- Number of nodes of a complete quadtree of depth `r`, `(4^(r+1) − 1)/3`. -/
def quadNodes (r : ℕ) : ℕ := Lemmas.wt r

/-! ## (a) `Polygon2D.distance_from_edge_to_point` -/

/-- The edge distance is the square root of the squared edge distance (the `min` over the
sides of the squared distance to the generated segment closest point): `math.sqrt` commutes
with `min`. -/
theorem edge_distance_eq_sqrt (M : MathOps α)
    (hsqrt : ∀ x, 0 ≤ x → M.sqrt x * M.sqrt x = x ∧ 0 ≤ M.sqrt x)
    (vs : List (V2 α)) (q : V2 α) :
    distanceFromEdgeToPoint M vs q = M.sqrt (edgeDistSq vs q) :=
  Lemmas.distanceFromEdgeToPoint_eq M hsqrt vs q

/-- Minimality over the WHOLE boundary: no point of any side is closer to the query than the
squared edge distance. -/
theorem edgeDistSq_le_boundary (vs : List (V2 α)) (q x : V2 α) (hx : OnBoundary vs x) :
    edgeDistSq vs q ≤ distSq2 q x :=
  Lemmas.edgeDistSq_le vs q x hx

/-- Attainment: the squared edge distance is the squared distance to some boundary point — so
it is the minimum of the squared distance over the boundary. -/
theorem edgeDistSq_attained (vs : List (V2 α)) (h : vs ≠ []) (q : V2 α) :
    ∃ x, OnBoundary vs x ∧ edgeDistSq vs q = distSq2 q x :=
  Lemmas.edgeDistSq_attained vs h q

/-- The squared edge distance is non-negative. -/
theorem edgeDistSq_nonneg (vs : List (V2 α)) (q : V2 α) : 0 ≤ edgeDistSq vs q :=
  Lemmas.edgeDistSq_nonneg vs q

/-- The squared edge distance is zero exactly for queries on the boundary. -/
theorem edgeDistSq_zero_iff (vs : List (V2 α)) (h : vs ≠ []) (q : V2 α) :
    edgeDistSq vs q = 0 ↔ OnBoundary vs q :=
  Lemmas.edgeDistSq_eq_zero_iff vs h q

/-- Distances are non-negative. -/
theorem edge_distance_nonneg (M : MathOps α)
    (hsqrt : ∀ x, 0 ≤ x → M.sqrt x * M.sqrt x = x ∧ 0 ≤ M.sqrt x)
    (vs : List (V2 α)) (q : V2 α) : 0 ≤ distanceFromEdgeToPoint M vs q := by
  rw [edge_distance_eq_sqrt M hsqrt]
  exact (hsqrt _ (Lemmas.edgeDistSq_nonneg vs q)).2

/-- The edge distance is a lower bound for the distance to every boundary point. -/
theorem edge_distance_le (M : MathOps α)
    (hsqrt : ∀ x, 0 ≤ x → M.sqrt x * M.sqrt x = x ∧ 0 ≤ M.sqrt x)
    (vs : List (V2 α)) (q x : V2 α) (hx : OnBoundary vs x) :
    distanceFromEdgeToPoint M vs q ≤ M.sqrt (distSq2 q x) := by
  rw [edge_distance_eq_sqrt M hsqrt]
  exact Lemmas.sqrt_le_sqrt M hsqrt _ _ (Lemmas.edgeDistSq_nonneg vs q)
    (Lemmas.edgeDistSq_le vs q x hx)

/-- … and it is the distance to some boundary point (the closest one). -/
theorem edge_distance_attained (M : MathOps α)
    (hsqrt : ∀ x, 0 ≤ x → M.sqrt x * M.sqrt x = x ∧ 0 ≤ M.sqrt x)
    (vs : List (V2 α)) (h : vs ≠ []) (q : V2 α) :
    ∃ x, OnBoundary vs x ∧ distanceFromEdgeToPoint M vs q = M.sqrt (distSq2 q x) := by
  obtain ⟨x, hx, e⟩ := Lemmas.edgeDistSq_attained vs h q
  exact ⟨x, hx, by rw [edge_distance_eq_sqrt M hsqrt, e]; rfl⟩

/-- The edge distance is zero exactly for queries on an edge. -/
theorem edge_distance_zero_iff (M : MathOps α)
    (hsqrt : ∀ x, 0 ≤ x → M.sqrt x * M.sqrt x = x ∧ 0 ≤ M.sqrt x)
    (vs : List (V2 α)) (h : vs ≠ []) (q : V2 α) :
    distanceFromEdgeToPoint M vs q = 0 ↔ OnBoundary vs q := by
  rw [edge_distance_eq_sqrt M hsqrt,
    Lemmas.sqrt_eq_zero_iff M hsqrt _ (Lemmas.edgeDistSq_nonneg vs q)]
  exact Lemmas.edgeDistSq_eq_zero_iff vs h q

/-- The edge distance does not depend on the start vertex (cyclic rotation of the list). -/
theorem edge_distance_rotate (M : MathOps α)
    (hsqrt : ∀ x, 0 ≤ x → M.sqrt x * M.sqrt x = x ∧ 0 ≤ M.sqrt x)
    (vs : List (V2 α)) (n : ℕ) (q : V2 α) :
    distanceFromEdgeToPoint M (vs.rotate n) q = distanceFromEdgeToPoint M vs q := by
  rw [edge_distance_eq_sqrt M hsqrt, edge_distance_eq_sqrt M hsqrt, Lemmas.edgeDistSq_rotate]

/-- The edge distance does not depend on the orientation (reversal of the list). -/
theorem edge_distance_reverse (M : MathOps α)
    (hsqrt : ∀ x, 0 ≤ x → M.sqrt x * M.sqrt x = x ∧ 0 ≤ M.sqrt x)
    (vs : List (V2 α)) (q : V2 α) :
    distanceFromEdgeToPoint M vs.reverse q = distanceFromEdgeToPoint M vs q := by
  rw [edge_distance_eq_sqrt M hsqrt, edge_distance_eq_sqrt M hsqrt, Lemmas.edgeDistSq_reverse]

/-- The same invariances for the squared edge distance (no square root needed). -/
theorem edgeDistSq_rotate_reverse (vs : List (V2 α)) (n : ℕ) (q : V2 α) :
    edgeDistSq (vs.rotate n) q = edgeDistSq vs q ∧ edgeDistSq vs.reverse q = edgeDistSq vs q :=
  ⟨Lemmas.edgeDistSq_rotate vs n q, Lemmas.edgeDistSq_reverse vs q⟩

/-- The edge distance is 1-Lipschitz in the query point: `|d(q₁) − d(q₂)| ≤ |q₁ − q₂|`. -/
theorem edge_distance_lipschitz (M : MathOps α)
    (hsqrt : ∀ x, 0 ≤ x → M.sqrt x * M.sqrt x = x ∧ 0 ≤ M.sqrt x)
    (vs : List (V2 α)) (h : vs ≠ []) (q1 q2 : V2 α) :
    |distanceFromEdgeToPoint M vs q1 - distanceFromEdgeToPoint M vs q2|
      ≤ M.sqrt (distSq2 q1 q2) := by
  rw [edge_distance_eq_sqrt M hsqrt, edge_distance_eq_sqrt M hsqrt]
  exact Lemmas.edgeDist_lipschitz M hsqrt vs h q1 q2

/-! ## (b) `Polygon2D.distance_to_point` -/

/-- Points the crossing test (after the bounding-rectangle rejection) reports inside get
distance `0`. -/
theorem distance_to_point_inside (M : MathOps α) (vs : List (V2 α)) (q tv : V2 α)
    (h : isPointInsideBoundRect vs q tv = true) : distanceToPoint M vs q tv = 0 := by
  unfold distanceToPoint; rw [if_pos h]

/-- All other points get the edge distance. -/
theorem distance_to_point_outside (M : MathOps α) (vs : List (V2 α)) (q tv : V2 α)
    (h : isPointInsideBoundRect vs q tv = false) :
    distanceToPoint M vs q tv = distanceFromEdgeToPoint M vs q := by
  unfold distanceToPoint distanceFromEdgeToPoint; rw [if_neg (by simp [h])]

/-- The same case split for the squared model, and `distance_to_point` is its square root. -/
theorem distance_to_point_eq_sqrt (M : MathOps α)
    (hsqrt : ∀ x, 0 ≤ x → M.sqrt x * M.sqrt x = x ∧ 0 ≤ M.sqrt x)
    (vs : List (V2 α)) (q tv : V2 α) :
    distanceToPoint M vs q tv = M.sqrt (distSq vs q tv) := by
  by_cases h : isPointInsideBoundRect vs q tv = true
  · rw [distance_to_point_inside M vs q tv h]
    unfold distSq; rw [if_pos h]; exact (Lemmas.sqrt_zero' M hsqrt).symm
  · have h' : isPointInsideBoundRect vs q tv = false := by simpa using h
    rw [distance_to_point_outside M vs q tv h', edge_distance_eq_sqrt M hsqrt]
    unfold distSq; rw [if_neg h]

/-- Non-negative, and never more than the edge distance. -/
theorem distance_to_point_bounds (M : MathOps α)
    (hsqrt : ∀ x, 0 ≤ x → M.sqrt x * M.sqrt x = x ∧ 0 ≤ M.sqrt x)
    (vs : List (V2 α)) (q tv : V2 α) :
    0 ≤ distanceToPoint M vs q tv ∧
      distanceToPoint M vs q tv ≤ distanceFromEdgeToPoint M vs q := by
  have h0 := edge_distance_nonneg M hsqrt vs q
  by_cases h : isPointInsideBoundRect vs q tv = true
  · rw [distance_to_point_inside M vs q tv h]; exact ⟨le_rfl, h0⟩
  · have h' : isPointInsideBoundRect vs q tv = false := by simpa using h
    rw [distance_to_point_outside M vs q tv h']; exact ⟨h0, le_rfl⟩

/-- Zero on the object: a query on the boundary has distance `0` whatever the crossing test
says, and so has every query the crossing test reports inside; conversely distance `0` means
one of the two. -/
theorem distance_to_point_zero_iff (M : MathOps α)
    (hsqrt : ∀ x, 0 ≤ x → M.sqrt x * M.sqrt x = x ∧ 0 ≤ M.sqrt x)
    (vs : List (V2 α)) (h : vs ≠ []) (q tv : V2 α) :
    distanceToPoint M vs q tv = 0 ↔
      (isPointInsideBoundRect vs q tv = true ∨ OnBoundary vs q) := by
  by_cases hin : isPointInsideBoundRect vs q tv = true
  · rw [distance_to_point_inside M vs q tv hin]; simp [hin]
  · have h' : isPointInsideBoundRect vs q tv = false := by simpa using hin
    rw [distance_to_point_outside M vs q tv h', edge_distance_zero_iff M hsqrt vs h]
    simp [h']

/-- For a point outside (by the crossing test) the result is a lower bound for the distance to
every boundary point, attained at one of them. -/
theorem distance_to_point_outside_minimal (M : MathOps α)
    (hsqrt : ∀ x, 0 ≤ x → M.sqrt x * M.sqrt x = x ∧ 0 ≤ M.sqrt x)
    (vs : List (V2 α)) (h : vs ≠ []) (q tv : V2 α)
    (hout : isPointInsideBoundRect vs q tv = false) :
    (∀ x, OnBoundary vs x → distanceToPoint M vs q tv ≤ M.sqrt (distSq2 q x)) ∧
    (∃ x, OnBoundary vs x ∧ distanceToPoint M vs q tv = M.sqrt (distSq2 q x)) := by
  rw [distance_to_point_outside M vs q tv hout]
  exact ⟨fun x hx => edge_distance_le M hsqrt vs q x hx, edge_distance_attained M hsqrt vs h q⟩

/-! ## (c) `_Cell` and `Polygon2D.pole_of_inaccessibility` -/

/-- `_Cell._get_seg_dist_sq(px, py, a, b)` is the squared distance from `(px, py)` to the
generated closest point on the segment `a b` (the hand-coded clamping `t > 1 / t > 0 / else`
agrees with `closest_point2d_on_line2d`). -/
theorem segDistSq_eq_closest (px py : α) (a b : V2 α) :
    segDistSq px py a b
      = distSq2 ⟨px, py⟩ (closest_point2d_on_line2d_s ⟨px, py⟩ (seg2_from_end_points a b)) := by
  rw [Lemmas.segDistSq_eq, Lemmas.closest_point2d_on_line2d_s_eq]; rfl

/-- The cell distance is the edge distance of `distance_from_edge_to_point` with the sign of
the crossing-number test: `+` inside, `−` outside. -/
theorem cell_distance_eq (M : MathOps α) (vs : List (V2 α)) (h : vs ≠ []) (z : V2 α) :
    cellDist M vs z = if cellInside vs z then M.sqrt (edgeDistSq vs z)
      else - M.sqrt (edgeDistSq vs z) :=
  Lemmas.pointToPolygonDistance_eq M vs h z.x z.y

/-- `|_Cell.d|` is `Polygon2D.distance_from_edge_to_point` of the cell centre. -/
theorem abs_cell_distance (M : MathOps α)
    (hsqrt : ∀ x, 0 ≤ x → M.sqrt x * M.sqrt x = x ∧ 0 ≤ M.sqrt x)
    (vs : List (V2 α)) (h : vs ≠ []) (z : V2 α) :
    |cellDist M vs z| = distanceFromEdgeToPoint M vs z := by
  rw [cell_distance_eq M vs h, edge_distance_eq_sqrt M hsqrt]
  have h0 := (hsqrt _ (Lemmas.edgeDistSq_nonneg vs z)).2
  split_ifs
  · exact abs_of_nonneg h0
  · rw [abs_neg]; exact abs_of_nonneg h0

/-- The crossing-number test of `_Cell` separates: if it gives different answers at `p` and
`q`, the closed segment `pq` meets the boundary of the polygon.  Holds for EVERY vertex list
(also self-intersecting loops): the even-odd rule is constant on every segment that misses all
sides. -/
theorem cell_inside_separates (vs : List (V2 α)) (p q : V2 α)
    (h : cellInside vs p ≠ cellInside vs q) : ∃ w, OnBoundary vs w ∧ OnSegment p q w := by
  have key : ∀ p q : V2 α, cellInside vs p = true → cellInside vs q = false →
      ∃ w, OnBoundary vs w ∧ OnSegment p q w := by
    intro p q hp hq
    obtain ⟨w, t, hw, h0, h1, hx, hy⟩ := Lemmas.crossSep vs p q hp hq
    exact ⟨w, hw, t, h0, h1, hx, hy⟩
  cases hp : cellInside vs p <;> cases hq : cellInside vs q
  · exact absurd (hp.trans hq.symm) h
  · obtain ⟨w, hw, t, h0, h1, hx, hy⟩ := key q p hq hp
    refine ⟨w, hw, 1 - t, by linarith, by linarith, ?_, ?_⟩
    · rw [hx]; ring
    · rw [hy]; ring
  · exact key p q hp hq
  · exact absurd (hp.trans hq.symm) h

/-- The signed cell distance is 1-Lipschitz: `d(p) − d(q) ≤ |p − q|` for all points, across
the boundary too. -/
theorem cell_distance_lipschitz (M : MathOps α)
    (hsqrt : ∀ x, 0 ≤ x → M.sqrt x * M.sqrt x = x ∧ 0 ≤ M.sqrt x)
    (vs : List (V2 α)) (h : vs ≠ []) (p q : V2 α) :
    cellDist M vs p - cellDist M vs q ≤ M.sqrt (distSq2 p q) :=
  Lemmas.signedDist_lipschitz M hsqrt vs h (Lemmas.crossSep vs) p q

/-- `max = d + h·√2` bounds the signed distance at EVERY point of the cell's square. -/
theorem cell_max_bounds (M : MathOps α)
    (hsqrt : ∀ x, 0 ≤ x → M.sqrt x * M.sqrt x = x ∧ 0 ≤ M.sqrt x)
    (vs : List (V2 α)) (h : vs ≠ []) (x y hh : α) (h0 : 0 ≤ hh) (z : V2 α)
    (hzx : |z.x - x| ≤ hh) (hzy : |z.y - y| ≤ hh) :
    cellDist M vs z ≤ (mkCell M vs x y hh).max :=
  Lemmas.cellBound_of_lipschitz M hsqrt vs
    (Lemmas.signedDist_lipschitz M hsqrt vs h (Lemmas.crossSep vs))
    (mkCell M vs x y hh) z ⟨rfl, h0⟩ ⟨hzx, hzy⟩

/-- The `put` of the model keeps the queue sorted by descending `max`, so `get()` (the head)
returns a cell of largest `max` — the heap order of `PriorityQueue` on `(-max, counter)`. -/
theorem queue_insert_sorted (c : Cell α) (q : List (Cell α))
    (h : q.Pairwise (fun a b => a.max ≥ b.max)) :
    (qInsert c q).Pairwise (fun a b => a.max ≥ b.max) ∧
      (∀ e, e ∈ qInsert c q ↔ e = c ∨ e ∈ q) :=
  ⟨Lemmas.qInsert_sorted c q h, fun e => Lemmas.mem_qInsert c e q⟩

/-- The degenerate early return: an empty vertex list, `cell_size == 0`, or
`area < max_dim * tolerance` returns the centre of the bounding rectangle (no optimality is
claimed for it). -/
theorem pole_degenerate (M : MathOps α) (v0 : V2 α) (rest : List (V2 α)) (tol : α) (fuel : ℕ)
    (h : cellSize v0 rest = 0 ∨ polygon2d_area (v0 :: rest) < maxDim v0 rest * tol) :
    poleOfInaccessibility M (v0 :: rest) tol fuel = .degenerate
      ⟨((boundRect v0 rest).1.x + (boundRect v0 rest).2.x) / 2,
       ((boundRect v0 rest).1.y + (boundRect v0 rest).2.y) / 2⟩ := by
  unfold poleOfInaccessibility poleInit
  simp only [cellSize, maxDim] at h
  simp only [if_pos h, bboxCenter]

/-- The bounding rectangle computed by `_calculate_min_max` has `min ≤ max` in both
coordinates (from C10), so `width`, `height`, `cell_size ≥ 0`. -/
theorem boundRect_le (v0 : V2 α) (rest : List (V2 α)) :
    (boundRect v0 rest).1.x ≤ (boundRect v0 rest).2.x ∧
      (boundRect v0 rest).1.y ≤ (boundRect v0 rest).2.y := by
  obtain ⟨h1, h2, _⟩ := C10.minMax2_spec v0 rest
  exact ⟨h1, h2⟩

/-- LOOP INVARIANT ⇒ OPTIMALITY.  If the search is entered and finishes (empty queue) with
enough fuel for the two grid loops of the first cover (`max_dim ≤ fuel · cell_size`), then the
returned point `(best.x, best.y)` is the centre of a constructor-made cell, `best.d` is its
signed distance, and EVERY point `z` of the bounding rectangle has signed distance at most
`best.d + tolerance`: the result is within `tolerance` of the largest signed distance
attainable in the bounding rectangle. -/
theorem pole_near_optimal (M : MathOps α)
    (hsqrt : ∀ x, 0 ≤ x → M.sqrt x * M.sqrt x = x ∧ 0 ≤ M.sqrt x)
    (v0 : V2 α) (rest : List (V2 α)) (tol : α) (fuel : ℕ) (st : PState α)
    (hres : poleOfInaccessibility M (v0 :: rest) tol fuel = .searched st)
    (hdone : st.queue = [])
    (hgrid : maxDim v0 rest ≤ fuel * cellSize v0 rest) :
    IsCell M (v0 :: rest) st.best ∧
    st.best.d = cellDist M (v0 :: rest) ⟨st.best.x, st.best.y⟩ ∧
    ∀ z, InBoundRect v0 rest z →
      cellDist M (v0 :: rest) z ≤ cellDist M (v0 :: rest) ⟨st.best.x, st.best.y⟩ + tol := by
  unfold poleOfInaccessibility at hres
  cases hinit : poleInit M (v0 :: rest) tol fuel with
  | none => rw [hinit] at hres; exact absurd hres (by simp)
  | some st0 =>
    rw [hinit] at hres
    simp only [PoleResult.searched.injEq] at hres
    have hne : (v0 :: rest) ≠ [] := by simp
    have hb := Lemmas.cellBound_of_lipschitz M hsqrt (v0 :: rest)
      (Lemmas.signedDist_lipschitz M hsqrt (v0 :: rest) hne (Lemmas.crossSep _))
    have h0 := Lemmas.poleInit_inv M v0 rest tol fuel st0 hinit (boundRect_le v0 rest) hgrid
    obtain ⟨hinv, _⟩ := Lemmas.polylabel_run_inv M (v0 :: rest) tol _ hb fuel st0 h0
    rw [hres] at hinv
    have hd := hinv.bestOK.d_eq
    refine ⟨hinv.bestOK, hd, ?_⟩
    intro z hz
    have := Lemmas.inv_final M (v0 :: rest) tol _ st hinv hdone z hz
    rw [hd] at this
    exact this

/-- INTERIOR.  Under the hypotheses of `pole_near_optimal`, if some point of the bounding
rectangle has signed distance larger than the tolerance (the polygon has interior that is more
than `tolerance` deep), the returned point is reported INSIDE by the crossing test, and its
distance from the edges (`distance_from_edge_to_point`) is within `tolerance` of the signed
distance of every point of the bounding rectangle. -/
theorem pole_interior (M : MathOps α)
    (hsqrt : ∀ x, 0 ≤ x → M.sqrt x * M.sqrt x = x ∧ 0 ≤ M.sqrt x)
    (v0 : V2 α) (rest : List (V2 α)) (tol : α) (fuel : ℕ) (st : PState α)
    (hres : poleOfInaccessibility M (v0 :: rest) tol fuel = .searched st)
    (hdone : st.queue = [])
    (hgrid : maxDim v0 rest ≤ fuel * cellSize v0 rest)
    (z0 : V2 α) (hz0 : InBoundRect v0 rest z0) (hdeep : tol < cellDist M (v0 :: rest) z0) :
    cellInside (v0 :: rest) ⟨st.best.x, st.best.y⟩ = true ∧
    ∀ z, InBoundRect v0 rest z →
      cellDist M (v0 :: rest) z
        ≤ distanceFromEdgeToPoint M (v0 :: rest) ⟨st.best.x, st.best.y⟩ + tol := by
  obtain ⟨_, _, hopt⟩ := pole_near_optimal M hsqrt v0 rest tol fuel st hres hdone hgrid
  have hne : (v0 :: rest) ≠ [] := by simp
  have hpos : 0 < cellDist M (v0 :: rest) ⟨st.best.x, st.best.y⟩ := by
    have := hopt z0 hz0; linarith
  have hin : cellInside (v0 :: rest) ⟨st.best.x, st.best.y⟩ = true := by
    by_contra hn
    rw [cell_distance_eq M _ hne, if_neg hn] at hpos
    have := (hsqrt _ (Lemmas.edgeDistSq_nonneg (v0 :: rest) ⟨st.best.x, st.best.y⟩)).2
    linarith
  refine ⟨hin, fun z hz => ?_⟩
  have := hopt z hz
  rw [cell_distance_eq M _ hne ⟨st.best.x, st.best.y⟩, if_pos hin,
    ← edge_distance_eq_sqrt M hsqrt] at this
  exact this

/-- TERMINATION.  If the search is entered, the half diagonal of the first cells satisfies
`(cell_size/2)·√2 ≤ tolerance·2^R`, and the fuel is at least
`(number of first cells) · (4^(R+1) − 1)/3`, the loop empties the queue: cells with
`h·√2 ≤ tolerance` are never split and `h` halves with every split. -/
theorem pole_terminates (M : MathOps α)
    (v0 : V2 α) (rest : List (V2 α)) (tol : α) (fuel : ℕ) (st0 : PState α)
    (hinit : poleInit M (v0 :: rest) tol fuel = some st0) (R : ℕ)
    (hR : cellSize v0 rest / 2 * M.sqrt 2 ≤ tol * 2 ^ R)
    (hfuel : st0.queue.length * quadNodes R ≤ fuel) :
    (run M (v0 :: rest) tol fuel st0).queue = [] := by
  obtain ⟨hpos, hq⟩ := Lemmas.poleInit_queue M v0 rest tol fuel st0 hinit (boundRect_le v0 rest)
  have hok := Lemmas.initialQueue_ok M (v0 :: rest) (boundRect v0 rest).1 (boundRect v0 rest).2
    _ hpos fuel
  rw [← hq] at hok
  have hsmall : ∀ c ∈ st0.queue, Lemmas.Small M tol c.h R := by
    intro c hc
    unfold Lemmas.Small
    rw [(hok c hc).2]; exact hR
  apply Lemmas.run_term M tol (v0 :: rest) fuel st0
  · intro c hc
    exact ⟨(hok c hc).1, ⟨R, hsmall c hc⟩⟩
  · exact le_trans (Lemmas.mu_le M tol st0.queue R hsmall) hfuel

/-- `quadNodes R = (4^(R+1) − 1)/3`. -/
theorem quadNodes_closed (R : ℕ) : 3 * quadNodes R + 1 = 4 ^ (R + 1) := Lemmas.wt_closed R

/-- TOTAL CORRECTNESS.  With the square-root laws, a non-degenerate polygon, and fuel covering
the first grid (`max_dim ≤ fuel·cell_size`) and the quadtree
(`(first cells)·(4^(R+1)−1)/3 ≤ fuel` where `(cell_size/2)·√2 ≤ tolerance·2^R`), the model of
`pole_of_inaccessibility` finishes, and its result is within `tolerance` of the largest signed
distance in the bounding rectangle. -/
theorem pole_total (M : MathOps α)
    (hsqrt : ∀ x, 0 ≤ x → M.sqrt x * M.sqrt x = x ∧ 0 ≤ M.sqrt x)
    (v0 : V2 α) (rest : List (V2 α)) (tol : α) (fuel : ℕ) (st0 : PState α)
    (hinit : poleInit M (v0 :: rest) tol fuel = some st0) (R : ℕ)
    (hR : cellSize v0 rest / 2 * M.sqrt 2 ≤ tol * 2 ^ R)
    (hfuel : st0.queue.length * quadNodes R ≤ fuel)
    (hgrid : maxDim v0 rest ≤ fuel * cellSize v0 rest) :
    ∃ st, poleOfInaccessibility M (v0 :: rest) tol fuel = .searched st ∧ st.queue = [] ∧
      ∀ z, InBoundRect v0 rest z →
        cellDist M (v0 :: rest) z ≤ cellDist M (v0 :: rest) ⟨st.best.x, st.best.y⟩ + tol := by
  have hdone := pole_terminates M v0 rest tol fuel st0 hinit R hR hfuel
  have hres : poleOfInaccessibility M (v0 :: rest) tol fuel
      = .searched (run M (v0 :: rest) tol fuel st0) := by
    unfold poleOfInaccessibility; rw [hinit]
  exact ⟨_, hres, hdone,
    (pole_near_optimal M hsqrt v0 rest tol fuel _ hres hdone hgrid).2.2⟩


/-! ## (d) `closest_point2d_between_line2d`, `closest_end_point2d_between_line2d`

  (`LineSegment2D.closest_points_between_line` and `distance_to_line` return the points /
  the distance of `closest_point2d_between_line2d(self, line)`.) -/

/-- The result is one of the four candidates of the code (an end point of one segment and its
generated closest point on the other), and its distance is the smallest of the four. -/
theorem closest_points_between_is_candidate (M : MathOps α) (a b : LR2 α) :
    closestPointsBetween M a b ∈
      [(M.sqrt (Lemmas.cand1 a b), a.p, Lemmas.closest2 .seg a.p b),
       (M.sqrt (Lemmas.cand2 a b), seg2_p2 a, Lemmas.closest2 .seg (seg2_p2 a) b),
       (M.sqrt (Lemmas.cand3 a b), Lemmas.closest2 .seg b.p a, b.p),
       (M.sqrt (Lemmas.cand4 a b), Lemmas.closest2 .seg (seg2_p2 b) a, seg2_p2 b)] ∧
    (closestPointsBetween M a b).1 ≤ M.sqrt (Lemmas.cand1 a b) ∧
    (closestPointsBetween M a b).1 ≤ M.sqrt (Lemmas.cand2 a b) ∧
    (closestPointsBetween M a b).1 ≤ M.sqrt (Lemmas.cand3 a b) ∧
    (closestPointsBetween M a b).1 ≤ M.sqrt (Lemmas.cand4 a b) := by
  unfold closestPointsBetween
  simp only []
  rw [Lemmas.candidates_eq]
  obtain ⟨h1, h2, h3⟩ := Lemmas.firstMin_spec
    (M.sqrt (Lemmas.cand1 a b), a.p, Lemmas.closest2 .seg a.p b)
    [(M.sqrt (Lemmas.cand2 a b), seg2_p2 a, Lemmas.closest2 .seg (seg2_p2 a) b),
     (M.sqrt (Lemmas.cand3 a b), Lemmas.closest2 .seg b.p a, b.p),
     (M.sqrt (Lemmas.cand4 a b), Lemmas.closest2 .seg (seg2_p2 b) a, seg2_p2 b)]
  exact ⟨h1, h2, h3 _ List.mem_cons_self, h3 _ (List.mem_cons_of_mem _ List.mem_cons_self),
    h3 _ (List.mem_cons_of_mem _ (List.mem_cons_of_mem _ List.mem_cons_self))⟩

/-- The four distances the code compares are the generated end-point-to-segment distances
`LineSegment2D.distance_to_point`: the result is at most each of them. -/
theorem closest_points_between_le_endpoints (M : MathOps α) (a b : LR2 α) :
    (closestPointsBetween M a b).1 ≤ seg2_distance_to_point M b a.p ∧
    (closestPointsBetween M a b).1 ≤ seg2_distance_to_point M b (seg2_p2 a) ∧
    (closestPointsBetween M a b).1 ≤ seg2_distance_to_point M a b.p ∧
    (closestPointsBetween M a b).1 ≤ seg2_distance_to_point M a (seg2_p2 b) := by
  obtain ⟨_, h1, h2, h3, h4⟩ := closest_points_between_is_candidate M a b
  simp only [Lemmas.seg2_distance_to_point_eq]
  exact ⟨h1, h2, h3, h4⟩

/-- On-object: the first returned point lies on `a`, the second on `b`, and the returned
distance is the distance between the two returned points. -/
theorem closest_points_between_on_objects (M : MathOps α) (a b : LR2 α) :
    OnSeg a (closestPointsBetween M a b).2.1 ∧ OnSeg b (closestPointsBetween M a b).2.2 ∧
    (closestPointsBetween M a b).1
      = M.sqrt (distSq2 (closestPointsBetween M a b).2.1 (closestPointsBetween M a b).2.2) := by
  have hp : ∀ l : LR2 α, OnSeg l l.p := fun l => ⟨0, le_rfl, zero_le_one, by simp, by simp⟩
  have hp2 : ∀ l : LR2 α, OnSeg l (seg2_p2 l) :=
    fun l => ⟨1, zero_le_one, le_rfl, by simp [seg2_p2], by simp [seg2_p2]⟩
  have hc : ∀ (q : V2 α) (l : LR2 α), OnSeg l (Lemmas.closest2 .seg q l) :=
    fun q l => Lemmas.closest2_on .seg q l
  obtain ⟨hm, _⟩ := closest_points_between_is_candidate M a b
  simp only [List.mem_cons, List.mem_nil_iff, or_false] at hm
  rcases hm with h | h | h | h <;> rw [h] <;> simp only []
  · exact ⟨hp a, hc _ _, rfl⟩
  · exact ⟨hp2 a, hc _ _, rfl⟩
  · exact ⟨hc _ _, hp b, by rw [Lemmas.cand3, Lemmas.dsq2_comm]; rfl⟩
  · exact ⟨hc _ _, hp2 b, by rw [Lemmas.cand4, Lemmas.dsq2_comm]; rfl⟩

/-- Distances are non-negative. -/
theorem closest_points_between_nonneg (M : MathOps α)
    (hsqrt : ∀ x, 0 ≤ x → M.sqrt x * M.sqrt x = x ∧ 0 ≤ M.sqrt x) (a b : LR2 α) :
    0 ≤ (closestPointsBetween M a b).1 := by
  rw [(closest_points_between_on_objects M a b).2.2]
  exact (hsqrt _ (Lemmas.dsq2_nonneg _ _)).2

/-- MINIMALITY under the documented precondition: if the two segments have no common point,
the returned distance is a lower bound for the distance between ANY point of `a` and ANY point
of `b` (and it is attained by the returned pair, `closest_points_between_on_objects`) — "one of
the 4 endpoints must be a closest point". -/
theorem closest_points_between_minimal (M : MathOps α)
    (hsqrt : ∀ x, 0 ≤ x → M.sqrt x * M.sqrt x = x ∧ 0 ≤ M.sqrt x) (a b : LR2 α)
    (hmiss : ∀ x, OnSeg a x → ¬ OnSeg b x) (x y : V2 α) (hx : OnSeg a x) (hy : OnSeg b y) :
    (closestPointsBetween M a b).1 ≤ M.sqrt (distSq2 x y) := by
  obtain ⟨s, hs, rfl⟩ := (Lemmas.Rng.On_iff_at2 .seg a x).mp hx
  obtain ⟨t, ht, rfl⟩ := (Lemmas.Rng.On_iff_at2 .seg b y).mp hy
  have hm : Lemmas.SegsMiss a b := by
    intro s' t' h1 h2 h3 h4 e
    apply hmiss (Lemmas.at2 a s') ((Lemmas.Rng.On_iff_at2 .seg a _).mpr ⟨s', ⟨h1, h2⟩, rfl⟩)
    rw [e]
    exact (Lemmas.Rng.On_iff_at2 .seg b _).mpr ⟨t', ⟨h3, h4⟩, rfl⟩
  obtain ⟨_, h1, h2, h3, h4⟩ := closest_points_between_is_candidate M a b
  have key : ∀ D, 0 ≤ D → D ≤ Lemmas.fst a b s t → M.sqrt D ≤ M.sqrt (distSq2 (Lemmas.at2 a s)
      (Lemmas.at2 b t)) := fun D h0 hle => Lemmas.sqrt_le_sqrt M hsqrt _ _ h0 hle
  rcases Lemmas.cand_le_of_miss a b hm s t hs ht with h | h | h | h
  · exact le_trans h1 (key _ (Lemmas.dsq2_nonneg _ _) h)
  · exact le_trans h2 (key _ (Lemmas.dsq2_nonneg _ _) h)
  · exact le_trans h3 (key _ (Lemmas.dsq2_nonneg _ _) h)
  · exact le_trans h4 (key _ (Lemmas.dsq2_nonneg _ _) h)

/-- Both argument orders give the same distance (the four candidates are the same). -/
theorem closest_points_between_symm (M : MathOps α) (a b : LR2 α) :
    (closestPointsBetween M a b).1 = (closestPointsBetween M b a).1 := by
  obtain ⟨hm, h1, h2, h3, h4⟩ := closest_points_between_is_candidate M a b
  obtain ⟨hm', h1', h2', h3', h4'⟩ := closest_points_between_is_candidate M b a
  have e13 : Lemmas.cand1 b a = Lemmas.cand3 a b := rfl
  have e24 : Lemmas.cand2 b a = Lemmas.cand4 a b := rfl
  have e31 : Lemmas.cand3 b a = Lemmas.cand1 a b := rfl
  have e42 : Lemmas.cand4 b a = Lemmas.cand2 a b := rfl
  rw [e13] at h1'; rw [e24] at h2'; rw [e31] at h3'; rw [e42] at h4'
  simp only [List.mem_cons, List.mem_nil_iff, or_false] at hm hm'
  apply le_antisymm
  · rcases hm' with h | h | h | h <;> rw [h] <;> simp only []
    · rw [e13]; exact h3
    · rw [e24]; exact h4
    · rw [e31]; exact h1
    · rw [e42]; exact h2
  · rcases hm with h | h | h | h <;> rw [h] <;> simp only []
    · exact h3'
    · exact h4'
    · exact h1'
    · exact h2'

/-- A zero distance means the returned points coincide: the segments touch there. -/
theorem closest_points_between_zero (M : MathOps α)
    (hsqrt : ∀ x, 0 ≤ x → M.sqrt x * M.sqrt x = x ∧ 0 ≤ M.sqrt x) (a b : LR2 α)
    (h : (closestPointsBetween M a b).1 = 0) :
    (closestPointsBetween M a b).2.1 = (closestPointsBetween M a b).2.2 := by
  rw [(closest_points_between_on_objects M a b).2.2] at h
  have h' := (Lemmas.sqrt_eq_zero_iff M hsqrt
    (Lemmas.dsq2 (closestPointsBetween M a b).2.1 (closestPointsBetween M a b).2.2)
    (Lemmas.dsq2_nonneg _ _)).mp h
  exact (Lemmas.dsq2_eq_zero_iff _ _).mp h'

/-- `closest_end_point2d_between_line2d`: the result is one of the four end-point pairs, its
distance is the distance of that pair and at most the distance of every end-point pair. -/
theorem closest_end_points_between_spec (M : MathOps α) (a b : LR2 α) :
    ((closestEndPointsBetween M a b).2.1 = a.p ∨ (closestEndPointsBetween M a b).2.1 = seg2_p2 a) ∧
    ((closestEndPointsBetween M a b).2.2 = b.p ∨ (closestEndPointsBetween M a b).2.2 = seg2_p2 b) ∧
    (closestEndPointsBetween M a b).1 = p2_distance_to_point M
      (closestEndPointsBetween M a b).2.1 (closestEndPointsBetween M a b).2.2 ∧
    (closestEndPointsBetween M a b).1 ≤ p2_distance_to_point M a.p b.p ∧
    (closestEndPointsBetween M a b).1 ≤ p2_distance_to_point M a.p (seg2_p2 b) ∧
    (closestEndPointsBetween M a b).1 ≤ p2_distance_to_point M (seg2_p2 a) b.p ∧
    (closestEndPointsBetween M a b).1 ≤ p2_distance_to_point M (seg2_p2 a) (seg2_p2 b) := by
  unfold closestEndPointsBetween endCandidates
  simp only []
  obtain ⟨hm, h2, h3⟩ := Lemmas.firstMin_spec
    (p2_distance_to_point M a.p b.p, a.p, b.p)
    [(p2_distance_to_point M a.p (seg2_p2 b), a.p, seg2_p2 b),
     (p2_distance_to_point M (seg2_p2 a) b.p, seg2_p2 a, b.p),
     (p2_distance_to_point M (seg2_p2 a) (seg2_p2 b), seg2_p2 a, seg2_p2 b)]
  refine ⟨?_, ?_, ?_, h2, h3 _ List.mem_cons_self,
    h3 _ (List.mem_cons_of_mem _ List.mem_cons_self),
    h3 _ (List.mem_cons_of_mem _ (List.mem_cons_of_mem _ List.mem_cons_self))⟩ <;>
    (simp only [List.mem_cons, List.mem_nil_iff, or_false] at hm
     rcases hm with h | h | h | h <;> rw [h] <;> simp)

/-! ## Non-vacuity examples at ℚ -/

/-- The L-shaped hexagon `(0,0) (4,0) (4,2) (2,2) (2,4) (0,4)`. -/
def lshape : List (V2 ℚ) := [⟨0, 0⟩, ⟨4, 0⟩, ⟨4, 2⟩, ⟨2, 2⟩, ⟨2, 4⟩, ⟨0, 4⟩]

/-- The default test vector `(1, 0.00001)` (as a rational). -/
def stdTv : V2 ℚ := ⟨1, 1 / 100000⟩

/-- Squared edge distance of the notch point `(3,3)` (closest boundary point `(3,2)` or `(2,3)`),
of the interior point `(1,1)`, of the reflex vertex `(2,2)`, of a far point (closest: the
vertex `(4,2)`). -/
example : edgeDistSq lshape ⟨3, 3⟩ = 1 ∧ edgeDistSq lshape ⟨1, 1⟩ = 1 ∧
    edgeDistSq lshape ⟨2, 2⟩ = 0 ∧ edgeDistSq lshape ⟨7, 6⟩ = 25 := by decide +kernel

/-- `distance_to_point` (squared): `0` inside, the edge distance in the notch and outside the
bounding rectangle. -/
example : distSq lshape ⟨1, 1⟩ stdTv = 0 ∧ distSq lshape ⟨3, 3⟩ stdTv = 1 ∧
    distSq lshape ⟨7, 6⟩ stdTv = 25 ∧ distSq lshape.reverse ⟨3, 3⟩ stdTv = 1 := by
  decide +kernel

/-- The crossing test of `_Cell`: inside at `(1,1)` and `(3,1)`, outside in the notch `(3,3)`;
the boundary is met on the way (`cell_inside_separates` is not vacuous). -/
example : cellInside lshape ⟨1, 1⟩ = true ∧ cellInside lshape ⟨3, 1⟩ = true ∧
    cellInside lshape ⟨3, 3⟩ = false ∧ OnBoundary lshape (⟨3, 2⟩ : V2 ℚ) := by
  refine ⟨by decide +kernel, by decide +kernel, by decide +kernel, ?_⟩
  exact ⟨(⟨4, 2⟩, ⟨2, 2⟩), by decide +kernel, 1 / 2, by norm_num, by norm_num,
    by norm_num, by norm_num⟩

/-- A table square root, exact on the perfect squares the example below meets, `3/2` for `√2`
(an upper bound, so `max` still bounds the cell). -/
def tableOps : MathOps ℚ where
  sqrt x := if x = 4 then 2 else if x = 1 then 1 else if x = 2 then 3 / 2 else 0
  sin _ := 0
  cos _ := 0
  tan _ := 0
  acos _ := 0
  asin _ := 0
  atan2 _ _ := 0
  pi := 0
  floor x := x

/-- The search on the square `(0,0) (4,0) (4,4) (0,4)` with tolerance `1`: one first cell,
split once, its four children discarded; result `(2,2)` with distance `2` after 5 `get()`s. -/
example :
    (match poleOfInaccessibility tableOps [⟨0, 0⟩, ⟨4, 0⟩, ⟨4, 4⟩, ⟨0, 4⟩] 1 10 with
      | .searched st => (st.best.x, st.best.y, st.best.d, st.pops, st.probes, st.queue.length)
      | .degenerate _ => (0, 0, 0, 0, 0, 0)) = ((2 : ℚ), (2 : ℚ), (2 : ℚ), 5, 5, 0) := by
  decide +kernel

/-- The degenerate early return on a zero-area triangle: the centre of the bounding box. -/
example : (poleOfInaccessibility tableOps [⟨0, 0⟩, ⟨3, 0⟩, ⟨6, 0⟩] (1 / 100) 10).point
    = (⟨3, 0⟩ : V2 ℚ) := by
  decide +kernel

/-- The fuel hypotheses of `pole_total` are satisfiable: for the square with tolerance `1`,
`cell_size/2·√2 = 3 ≤ 1·2^2`, one first cell, `quadNodes 2 = 21 ≤ 30`, `max_dim = 4 ≤ 30·4`. -/
example : cellSize (⟨0, 0⟩ : V2 ℚ) [⟨4, 0⟩, ⟨4, 4⟩, ⟨0, 4⟩] / 2 * tableOps.sqrt 2 ≤ 1 * 2 ^ 2 ∧
    1 * quadNodes 2 ≤ 30 ∧
    maxDim (⟨0, 0⟩ : V2 ℚ) [⟨4, 0⟩, ⟨4, 4⟩, ⟨0, 4⟩]
      ≤ (30 : ℕ) * cellSize (⟨0, 0⟩ : V2 ℚ) [⟨4, 0⟩, ⟨4, 4⟩, ⟨0, 4⟩] := by
  decide +kernel


/-- Segment-to-segment (squared distances through `sqOps`): the parallel pair
`(0,0)–(4,0)`, `(1,1)–(3,1)` has distance² `1` with the FIRST minimal candidate
`((1,0), (1,1))`; for the crossing pair `(0,0)–(4,0)`, `(2,−1)–(2,2)` the routine returns
distance² `1` although the segments meet — the documented precondition of
`closest_points_between_minimal` is necessary. -/
example :
    closestPointsBetween (sqOps tableOps) (⟨⟨0, 0⟩, ⟨4, 0⟩⟩ : LR2 ℚ) ⟨⟨1, 1⟩, ⟨2, 0⟩⟩
      = (1, ⟨1, 0⟩, ⟨1, 1⟩) ∧
    (closestPointsBetween (sqOps tableOps) (⟨⟨0, 0⟩, ⟨4, 0⟩⟩ : LR2 ℚ) ⟨⟨2, -1⟩, ⟨0, 3⟩⟩).1 = 1 ∧
    (closestEndPointsBetween (sqOps tableOps) (⟨⟨0, 0⟩, ⟨4, 0⟩⟩ : LR2 ℚ) ⟨⟨6, 1⟩, ⟨2, 0⟩⟩)
      = (5, ⟨4, 0⟩, ⟨6, 1⟩) := by
  decide +kernel

end Lbg.Props.C12b
