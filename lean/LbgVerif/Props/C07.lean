/-
  C07 — "Closed polyfaces are solid, outward-facing, with correct edge classes."   (PARTIAL)

  What is proved here (about the LITERAL hand model `Model/EdgeInfo.lean` of the loop shared by
  `Polyface3D.__init__` and `MeshBase._compute_edge_info`, against the executable
  specification `Spec/EdgeCount.lean`; the harness runs both against the real code):

  1. `edge_count_spec`: for EVERY index structure the model's `edge_types[i] + 1` is the
     number of loop sides on the undirected edge `edge_indices[i]`; stored sides are proper
     (`a ≠ b`), pairwise distinct up to orientation, and every used edge is stored.
     `modelCounts_perm_spec`: the multiset of (undirected edge, count) equals the
     specification's `edgeCounts`; `naked/internal/nonManifold_perm_spec`: the three edge
     classes agree with the independent count.  `edge_count_presentation`: that multiset does
     not depend on face order, loop start vertex or loop orientation.
  2. `is_solid_iff_all_two`, `remove_face_naked`, `duplicate_face_nonmanifold`.
  3. `prism_closed`: the index formulas of `_verts_faces_edges_from_boundary` +
     `from_offset_face` (no holes) give a structure in which every edge is used exactly twice,
     for EVERY `n ≥ 3`, and the pre-seeded `edge_indices` are exactly its edges.
  4. `from_box_tables`: the literal tables in `Polyface3D.from_box`.
  5. Algebra of the divergence volume (`C01.vol` hand model): a flipped face negates its term,
     all faces flipped negate the volume, independence of face order and start vertex
     (`volume_presentation`), and `volume_pos_of_outward` / `volume_neg_of_inward`: for a closed
     surface whose faces all point away from (towards) one interior point — every convex solid —
     the divergence volume is strictly positive (negative).

  What is NOT proved: that `get_outward_faces` (ray parity from a nudged point) returns
  outward normals — this is geometric (Jordan–Brouwer content) and two known findings about it
  are open; tolerance welding in `from_faces`; that the abstract sum `vol` of outward faces is
  the Lebesgue volume.  These are covered by the correspondence harness only.
-/
import LbgVerif.Model.EdgeInfo
import LbgVerif.Spec.EdgeCount
import LbgVerif.Lemmas.EdgeInfo
import LbgVerif.Lemmas.Prism
import LbgVerif.Props.C01
import Mathlib.Tactic.Ring
import Mathlib.Tactic.Linarith
import Mathlib.Tactic.Positivity
import Mathlib.Data.List.Perm.Basic
import Mathlib.Data.List.Nodup

set_option linter.unusedSectionVars false
set_option linter.unusedVariables false

namespace Lbg.Props.C07
open Lbg Lbg.Model.EdgeInfo Lbg.Spec.EdgeCount Lbg.Lemmas.EdgeInfo Lbg.Lemmas.Prism

/-! ## 1. The incremental count is the incidence count -/

/-- What the model reports, read as a multiset of (undirected edge, number of uses):
`edge_types` stores "uses − 1". -/
def modelCounts (fs : List (List (List Nat))) : List (Edge × Nat) :=
  ((edgeInfo fs).edge_i.zip (edgeInfo fs).edge_t).map (fun et => (normP et.1, et.2 + 1))

private theorem zip_map_self {β γ : Type} (l : List β) (g : β → γ) :
    l.zip (l.map g) = l.map (fun e => (e, g e)) := by
  induction l with
  | nil => rfl
  | cons a t ih => simp [ih]

private theorem inv' (fs : List (List (List Nat))) :
    (edgeInfo fs).edge_t =
        (edgeInfo fs).edge_i.map (fun e => uses fs (normP e) - 1) ∧
    (∀ e ∈ (edgeInfo fs).edge_i, e.1 ≠ e.2 ∧ 1 ≤ uses fs (normP e)) ∧
    ((edgeInfo fs).edge_i.map normP).Nodup ∧
    (∀ e, e ∈ (edgeInfo fs).edge_i.map normP ↔ 1 ≤ uses fs e) := by
  have hI := inv_edgeInfo fs
  unfold uses
  rw [allEdges_eq]
  refine ⟨hI.types, ?_, hI.nodup, ?_⟩
  · intro e he
    obtain ⟨h1, h2⟩ := hI.proper e he
    exact ⟨h1, List.count_pos_iff.mpr h2⟩
  · intro e
    constructor
    · intro he
      obtain ⟨e0, he0, rfl⟩ := List.mem_map.mp he
      exact List.count_pos_iff.mpr (hI.proper e0 he0).2
    · intro he
      exact hI.stored e (List.count_pos_iff.mp he)

/-- **`edge_count_spec`** — for every index structure (polyface faces with holes; meshes via
`meshEdgeInfo_spec`): the two lists have equal length; at every position `i` the stored type
plus one is the number of loop sides on the undirected edge `edge_indices[i]` (counted
independently by `Spec.EdgeCount.uses`); every stored side is proper; no undirected edge is
stored twice (in either orientation); and an undirected edge is stored iff some loop uses
it. -/
theorem edge_count_spec (fs : List (List (List Nat))) :
    (edgeInfo fs).edge_t.length = (edgeInfo fs).edge_i.length ∧
    (∀ (i : Nat) (e : DEdge), (edgeInfo fs).edge_i[i]? = some e →
      ∃ t, (edgeInfo fs).edge_t[i]? = some t ∧ t + 1 = uses fs (normP e)) ∧
    (∀ e ∈ (edgeInfo fs).edge_i, e.1 ≠ e.2) ∧
    ((edgeInfo fs).edge_i.map normP).Nodup ∧
    (∀ e, e ∈ (edgeInfo fs).edge_i.map normP ↔ 1 ≤ uses fs e) := by
  obtain ⟨h1, h2, h3, h4⟩ := inv' fs
  refine ⟨by rw [h1, List.length_map], ?_, fun e he => (h2 e he).1, h3, h4⟩
  intro i e hi
  refine ⟨uses fs (normP e) - 1, ?_, ?_⟩
  · rw [h1, List.getElem?_map, hi]; rfl
  · have := (h2 e (List.mem_of_getElem? hi)).2
    omega

/-- The same for meshes (`MeshBase._compute_edge_info`): a mesh is an index structure whose
faces have one loop each. -/
theorem meshEdgeInfo_spec (fs : List (List Nat)) :
    meshEdgeInfo fs = edgeInfo (fs.map (fun f => [f])) := meshEdgeInfo_eq fs

/-- The stored side is the side as first walked: `(fi[i-1], fi[i])` of some loop, never a
reversed copy (orientation of `edge_indices`). -/
theorem edge_indices_are_walked_sides (fs : List (List (List Nat))) :
    ∀ e ∈ (edgeInfo fs).edge_i, e ∈ sidesOf fs := by
  have key : ∀ (es : List DEdge) (s : St), (∀ e ∈ s.edge_i, e ∈ sidesOf fs) →
      (∀ e ∈ es, e ∈ sidesOf fs) → ∀ e ∈ (es.foldl step s).edge_i, e ∈ sidesOf fs := by
    intro es
    induction es with
    | nil => intro s hs _; simpa using hs
    | cons d t ih =>
      intro s hs hes
      rw [List.foldl_cons]
      apply ih
      · intro e he
        unfold step at he
        split at he
        · exact hs e he
        · split at he
          · exact hs e he
          · split_ifs at he
            · rcases List.mem_append.mp he with he | he
              · exact hs e he
              · simp only [List.mem_singleton] at he
                subst he
                exact hes _ (by simp)
            · exact hs e he
      · intro e he
        exact hes e (List.mem_cons_of_mem _ he)
  rw [edgeInfo_eq]
  exact key (sidesOf fs) ⟨[], []⟩ (by simp) (fun e he => he)

/-- The model's (edge, count) table in closed form. -/
theorem modelCounts_eq (fs : List (List (List Nat))) :
    modelCounts fs = ((edgeInfo fs).edge_i.map normP).map (fun e => (e, uses fs e)) := by
  obtain ⟨h1, h2, _, _⟩ := inv' fs
  unfold modelCounts
  rw [h1, zip_map_self, List.map_map, List.map_map]
  apply List.map_congr_left
  intro e he
  have := (h2 e he).2
  simp only [Function.comp, Prod.mk.injEq, true_and]
  omega

/-- The stored undirected edges are, as a multiset, the specification's sorted key list. -/
theorem edge_keys_perm_spec (fs : List (List (List Nat))) :
    ((edgeInfo fs).edge_i.map normP).Perm (edgeKeys fs) := by
  obtain ⟨_, _, h3, h4⟩ := inv' fs
  unfold edgeKeys
  rw [List.perm_ext_iff_of_nodup h3 (nodup_keysOf _)]
  intro e
  rw [h4, mem_keysOf]
  exact List.count_pos_iff

/-- **`modelCounts_perm_spec`** — the multiset of (undirected edge, number of uses) reported by
the model equals the specification's `edgeCounts` (which counts by definition). -/
theorem modelCounts_perm_spec (fs : List (List (List Nat))) :
    (modelCounts fs).Perm (edgeCounts fs) := by
  rw [modelCounts_eq]
  exact (edge_keys_perm_spec fs).map _

private theorem class_eq (fs : List (List (List Nat))) (p : Nat → Bool) :
    (edgesOfType (edgeInfo fs) p).map normP =
      ((modelCounts fs).filter (fun c => p (c.2 - 1))).map Prod.fst := by
  unfold edgesOfType modelCounts
  rw [List.filter_map, List.map_map, List.map_map]
  rfl

/-- Naked edges (`edge_type == 0`) are, as a multiset of undirected edges, exactly the edges
used by one loop side. -/
theorem naked_perm_spec (fs : List (List (List Nat))) :
    ((nakedEdges (edgeInfo fs)).map normP).Perm (naked fs) := by
  unfold nakedEdges naked nakedOf
  rw [class_eq]
  have := ((modelCounts_perm_spec fs).filter (fun c => (c.2 - 1 == 0))).map Prod.fst
  refine this.trans (List.Perm.of_eq ?_)
  congr 1
  apply List.filter_congr
  intro c hc
  have h1 : 1 ≤ c.2 := by
    have := edgeCounts_snd fs c hc
    unfold edgeCounts countsOf at hc
    obtain ⟨e, he, rfl⟩ := List.mem_map.mp hc
    exact List.count_pos_iff.mpr ((mem_keysOf _ _).mp he)
  simp only [Bool.beq_eq_decide_eq, decide_eq_decide]
  omega

/-- Internal edges (`edge_type == 1`) are exactly the edges used by two loop sides. -/
theorem internal_perm_spec (fs : List (List (List Nat))) :
    ((internalEdges (edgeInfo fs)).map normP).Perm (internal fs) := by
  unfold internalEdges internal internalOf
  rw [class_eq]
  have := ((modelCounts_perm_spec fs).filter (fun c => (c.2 - 1 == 1))).map Prod.fst
  refine this.trans (List.Perm.of_eq ?_)
  congr 1
  apply List.filter_congr
  intro c hc
  simp only [Bool.beq_eq_decide_eq, decide_eq_decide]
  omega

/-- Non-manifold edges (`edge_type > 1`) are exactly the edges used by three or more loop
sides. -/
theorem nonManifold_perm_spec (fs : List (List (List Nat))) :
    ((nonManifoldEdges (edgeInfo fs)).map normP).Perm (nonManifold fs) := by
  unfold nonManifoldEdges nonManifold nonManifoldOf
  rw [class_eq]
  have := ((modelCounts_perm_spec fs).filter (fun c => decide (2 ≤ c.2 - 1))).map Prod.fst
  refine this.trans (List.Perm.of_eq ?_)
  congr 1
  apply List.filter_congr
  intro c hc
  simp only [decide_eq_decide]
  omega

/-- The three class theorems for meshes (`Mesh2D` / `Mesh3D` share `_compute_edge_info`). -/
theorem mesh_classes_perm_spec (fs : List (List Nat)) :
    ((nakedEdges (meshEdgeInfo fs)).map normP).Perm (naked (fs.map (fun f => [f]))) ∧
    ((internalEdges (meshEdgeInfo fs)).map normP).Perm (internal (fs.map (fun f => [f]))) ∧
    ((nonManifoldEdges (meshEdgeInfo fs)).map normP).Perm
      (nonManifold (fs.map (fun f => [f]))) := by
  rw [meshEdgeInfo_eq]
  exact ⟨naked_perm_spec _, internal_perm_spec _, nonManifold_perm_spec _⟩

/-- Concrete run of the model: two triangles sharing the edge `{1, 2}` walked in opposite
directions, plus a degenerate side `(3, 3)` that is skipped. -/
example : edgeInfo [[[0, 1, 2]], [[2, 1, 3, 3]]] =
    ⟨[(2, 0), (0, 1), (1, 2), (3, 2), (1, 3)], [0, 0, 1, 0, 0]⟩ := by decide

/-! ### Presentation independence -/

/-- The same loop written from another start vertex, possibly in the opposite direction. -/
inductive LoopEquiv : List Nat → List Nat → Prop
  | rot (l : List Nat) (n : Nat) : LoopEquiv l (l.rotate n)
  | rev (l : List Nat) (n : Nat) : LoopEquiv l (l.rotate n).reverse

/-- The same face: loop by loop the same loop (any start, any orientation). -/
def FaceEquiv (f g : List (List Nat)) : Prop := List.Forall₂ LoopEquiv f g

/-- The same polyface given differently: faces shuffled, then each loop of each face
restarted and/or reversed. -/
def SamePresentation (fs gs : List (List (List Nat))) : Prop :=
  ∃ hs, fs.Perm hs ∧ List.Forall₂ FaceEquiv hs gs

theorem loopEdges_equiv {l m : List Nat} (h : LoopEquiv l m) :
    (loopEdges l).Perm (loopEdges m) := by
  cases h with
  | rot n => exact (loopEdges_rotate_perm l n).symm
  | rev n => exact ((loopEdges_reverse_perm _).trans (loopEdges_rotate_perm l n)).symm

/-- A re-presentation has the same multiset of undirected sides. -/
theorem allEdges_presentation {fs gs : List (List (List Nat))} (h : SamePresentation fs gs) :
    (allEdges fs).Perm (allEdges gs) := by
  obtain ⟨hs, h1, h2⟩ := h
  unfold allEdges
  refine (h1.flatMap_right faceEdges).trans ?_
  apply flatMap_perm_of_forall₂
  refine List.Forall₂.imp ?_ h2
  intro f g hfg
  unfold faceEdges
  apply flatMap_perm_of_forall₂
  exact List.Forall₂.imp (fun _ _ h => loopEdges_equiv h) hfg

/-- The incidence count does not depend on face order, loop start vertex or loop
orientation. -/
theorem uses_presentation {fs gs : List (List (List Nat))} (h : SamePresentation fs gs)
    (e : Edge) : uses fs e = uses gs e :=
  (allEdges_presentation h).count_eq e

/-- **`edge_count_presentation`** — the multiset of (undirected edge, count) the model reports
is independent of the order of the faces, of the start vertex of every loop and of the
orientation of every loop.  (The LISTS `edge_indices`/`edge_types` do depend on the
presentation: order of first occurrence, orientation as first walked.) -/
theorem edge_count_presentation {fs gs : List (List (List Nat))}
    (h : SamePresentation fs gs) : (modelCounts fs).Perm (modelCounts gs) := by
  obtain ⟨_, _, f3, f4⟩ := inv' fs
  obtain ⟨_, _, g3, g4⟩ := inv' gs
  rw [modelCounts_eq, modelCounts_eq]
  have hk : ((edgeInfo fs).edge_i.map normP).Perm ((edgeInfo gs).edge_i.map normP) := by
    rw [List.perm_ext_iff_of_nodup f3 g3]
    intro e
    rw [f4, g4, uses_presentation h]
  have hf : (fun e => (e, uses fs e)) = (fun e => (e, uses gs e)) := by
    funext e; rw [uses_presentation h]
  rw [hf]
  exact hk.map _

/-! ## 2. Solidity -/

/-- **`is_solid_iff_all_two`** — `is_solid` (every stored type equals 1) holds exactly when the
specification says the structure is edge-closed (every used edge has exactly two sides). -/
theorem is_solid_iff_all_two (fs : List (List (List Nat))) : isSolid fs = isClosed fs := by
  obtain ⟨h1, h2, _, h4⟩ := inv' fs
  rw [Bool.eq_iff_iff]
  unfold isSolid isSolidOf isClosed closedOf edgeCounts countsOf
  rw [h1]
  simp only [List.all_eq_true, List.mem_map, beq_iff_eq, forall_exists_index, and_imp,
    forall_apply_eq_imp_iff₂]
  constructor
  · intro h e he
    have hu : 1 ≤ uses fs e := List.count_pos_iff.mpr ((mem_keysOf _ _).mp he)
    obtain ⟨e0, he0, rfl⟩ := List.mem_map.mp ((h4 e).mpr hu)
    have := h e0 he0
    show uses fs (normP e0) = 2
    omega
  · intro h e0 he0
    have hu := (h2 e0 he0).2
    have : uses fs (normP e0) = 2 :=
      h (normP e0) ((mem_keysOf _ _).mpr (List.count_pos_iff.mp hu))
    omega

/-- `is_solid` in terms of the incidence count: every undirected edge is used twice or not at
all. -/
theorem is_solid_iff_uses (fs : List (List (List Nat))) :
    isSolid fs = true ↔ ∀ e, uses fs e = 0 ∨ uses fs e = 2 := by
  obtain ⟨h1, h2, _, h4⟩ := inv' fs
  unfold isSolid isSolidOf
  rw [h1]
  simp only [List.all_eq_true, List.mem_map, beq_iff_eq, forall_exists_index, and_imp,
    forall_apply_eq_imp_iff₂]
  constructor
  · intro h e
    by_cases hu : 1 ≤ uses fs e
    · obtain ⟨e0, he0, rfl⟩ := List.mem_map.mp ((h4 e).mpr hu)
      have := h e0 he0
      right; omega
    · left; omega
  · intro h e0 he0
    have hu := (h2 e0 he0).2
    rcases h (normP e0) with h0 | h0 <;> omega

/-- Solidity does not depend on the presentation. -/
theorem is_solid_presentation {fs gs : List (List (List Nat))} (h : SamePresentation fs gs) :
    isSolid fs = isSolid gs := by
  rw [Bool.eq_iff_iff, is_solid_iff_uses, is_solid_iff_uses]
  simp only [uses_presentation h]

/-- Non-vacuity: the tetrahedron is solid in two presentations (second: faces shuffled, loops
restarted and reversed); without its last face it is not, with exactly that face's edges
naked; with a duplicated face those edges are non-manifold. -/
example :
    isSolid [[[0, 2, 1]], [[0, 1, 3]], [[1, 2, 3]], [[2, 0, 3]]] = true ∧
    isSolid [[[3, 2, 1]], [[1, 0, 2]], [[3, 0, 2]], [[1, 3, 0]]] = true ∧
    isSolid [[[0, 2, 1]], [[0, 1, 3]], [[1, 2, 3]]] = false ∧
    (nakedEdges (edgeInfo [[[0, 2, 1]], [[0, 1, 3]], [[1, 2, 3]]])).map normP =
      [(0, 2), (0, 3), (2, 3)] ∧
    (nonManifoldEdges (edgeInfo
      [[[0, 2, 1]], [[0, 1, 3]], [[2, 0, 3]], [[1, 2, 3]], [[2, 0, 3]]])).map normP =
      [(0, 2), (0, 3), (2, 3)] := by
  decide

/-- Incidence count of a structure with one face inserted anywhere. -/
theorem uses_insert (pre post : List (List (List Nat))) (f : List (List Nat)) (e : Edge) :
    uses (pre ++ f :: post) e = (faceEdges f).count e + uses (pre ++ post) e := by
  rw [uses_perm (List.perm_middle (a := f) (l₁ := pre) (l₂ := post)) e, uses_cons]

/-- **`remove_face_naked`** — from a structure in which every edge is used exactly twice,
deleting one face `f` (whose own sides are pairwise distinct edges) leaves exactly the edges of
`f` with one use (naked) and every other edge as it was (two uses, or unused). -/
theorem remove_face_naked (pre post : List (List (List Nat))) (f : List (List Nat))
    (hsolid : isSolid (pre ++ f :: post) = true) (hf : (faceEdges f).Nodup) (e : Edge) :
    (e ∈ faceEdges f → uses (pre ++ post) e = 1) ∧
    (e ∉ faceEdges f → uses (pre ++ post) e = uses (pre ++ f :: post) e ∧
      (uses (pre ++ post) e = 0 ∨ uses (pre ++ post) e = 2)) := by
  have h2 := (is_solid_iff_uses _).mp hsolid e
  have hins := uses_insert pre post f e
  constructor
  · intro he
    have : (faceEdges f).count e = 1 := List.count_eq_one_of_mem hf he
    omega
  · intro he
    have : (faceEdges f).count e = 0 := List.count_eq_zero_of_not_mem he
    omega

/-- After deleting a face of a solid, the model's naked edges are exactly the edges of that
face, there are no non-manifold edges, and (if the face had a side at all) the result is not
solid. -/
theorem remove_face_model (pre post : List (List (List Nat))) (f : List (List Nat))
    (hsolid : isSolid (pre ++ f :: post) = true) (hf : (faceEdges f).Nodup) :
    (∀ e, e ∈ (nakedEdges (edgeInfo (pre ++ post))).map normP ↔ e ∈ faceEdges f) ∧
    nonManifoldEdges (edgeInfo (pre ++ post)) = [] ∧
    (faceEdges f ≠ [] → isSolid (pre ++ post) = false) := by
  have hmem := mem_naked (pre ++ post)
  refine ⟨?_, ?_, ?_⟩
  · intro e
    rw [(naked_perm_spec (pre ++ post)).mem_iff, hmem]
    have := remove_face_naked pre post f hsolid hf e
    constructor
    · intro h1
      by_contra hne
      have := (this.2 hne).2
      omega
    · exact this.1
  · have hp := (nonManifold_perm_spec (pre ++ post))
    have hnil : nonManifold (pre ++ post) = [] := by
      unfold nonManifold nonManifoldOf
      rw [List.map_eq_nil_iff, List.filter_eq_nil_iff]
      intro c hc
      have hs := edgeCounts_snd _ c hc
      have := remove_face_naked pre post f hsolid hf c.1
      by_cases hm : c.1 ∈ faceEdges f
      · have := this.1 hm
        simp only [decide_eq_true_eq]; omega
      · have := (this.2 hm).2
        simp only [decide_eq_true_eq]; omega
    rw [hnil] at hp
    have := hp.eq_nil
    exact List.map_eq_nil_iff.mp this
  · intro hne
    obtain ⟨e, he⟩ := List.exists_mem_of_ne_nil _ hne
    have h1 := (remove_face_naked pre post f hsolid hf e).1 he
    cases hb : isSolid (pre ++ post) with
    | false => rfl
    | true =>
      have := (is_solid_iff_uses _).mp hb e
      omega

/-- **`duplicate_face_nonmanifold`** — adding a copy of a face `f` (with pairwise distinct
sides) to a structure in which every edge is used twice and which contains `f` makes exactly
the edges of `f` used three times (non-manifold) and leaves every other edge unchanged. -/
theorem duplicate_face_nonmanifold (pre post : List (List (List Nat))) (f : List (List Nat))
    (hsolid : isSolid (pre ++ post) = true) (hmem : f ∈ pre ++ post)
    (hf : (faceEdges f).Nodup) (e : Edge) :
    (e ∈ faceEdges f → uses (pre ++ f :: post) e = 3) ∧
    (e ∉ faceEdges f → uses (pre ++ f :: post) e = uses (pre ++ post) e ∧
      (uses (pre ++ f :: post) e = 0 ∨ uses (pre ++ f :: post) e = 2)) := by
  have h2 := (is_solid_iff_uses _).mp hsolid e
  have hins := uses_insert pre post f e
  constructor
  · intro he
    have h1 : (faceEdges f).count e = 1 := List.count_eq_one_of_mem hf he
    have hpos : 1 ≤ uses (pre ++ post) e := by
      apply List.count_pos_iff.mpr
      unfold allEdges
      exact List.mem_flatMap.mpr ⟨f, hmem, he⟩
    omega
  · intro he
    have : (faceEdges f).count e = 0 := List.count_eq_zero_of_not_mem he
    omega

/-- After duplicating a face of a solid, the model's non-manifold edges are exactly the edges of
that face, there are no naked edges, and (if the face had a side at all) the result is not
solid. -/
theorem duplicate_face_model (pre post : List (List (List Nat))) (f : List (List Nat))
    (hsolid : isSolid (pre ++ post) = true) (hmem : f ∈ pre ++ post)
    (hf : (faceEdges f).Nodup) :
    (∀ e, e ∈ (nonManifoldEdges (edgeInfo (pre ++ f :: post))).map normP ↔ e ∈ faceEdges f) ∧
    nakedEdges (edgeInfo (pre ++ f :: post)) = [] ∧
    (faceEdges f ≠ [] → isSolid (pre ++ f :: post) = false) := by
  have hcls := mem_nonManifold (pre ++ f :: post)
  refine ⟨?_, ?_, ?_⟩
  · intro e
    rw [(nonManifold_perm_spec _).mem_iff, hcls]
    have := duplicate_face_nonmanifold pre post f hsolid hmem hf e
    constructor
    · intro h1
      by_contra hne
      have := (this.2 hne).2
      omega
    · intro he
      have := this.1 he
      omega
  · have hp := (naked_perm_spec (pre ++ f :: post))
    have hnil : naked (pre ++ f :: post) = [] := by
      unfold naked nakedOf
      rw [List.map_eq_nil_iff, List.filter_eq_nil_iff]
      intro c hc
      have hs := edgeCounts_snd _ c hc
      have := duplicate_face_nonmanifold pre post f hsolid hmem hf c.1
      by_cases hm : c.1 ∈ faceEdges f
      · have := this.1 hm
        simp only [beq_iff_eq]; omega
      · have := (this.2 hm).2
        simp only [beq_iff_eq]; omega
    rw [hnil] at hp
    exact List.map_eq_nil_iff.mp hp.eq_nil
  · intro hne
    obtain ⟨e, he⟩ := List.exists_mem_of_ne_nil _ hne
    have h1 := (duplicate_face_nonmanifold pre post f hsolid hmem hf e).1 he
    cases hb : isSolid (pre ++ f :: post) with
    | false => rfl
    | true =>
      have := (is_solid_iff_uses _).mp hb e
      omega

/-! ## 3. Extrusions: `_verts_faces_edges_from_boundary` + `from_offset_face` (no holes) -/

/-- **`prism_closed`** — for EVERY `n ≥ 3`: in the index structure that `from_offset_face`
builds for a face without holes with `n` boundary vertices (bottom loop `(n-1, …, 0)`, side
quads `(i, i+1, i+n+1, i+n)` and the closing quad `(n-1, 0, n, 2n-1)`, top loop `(n, …, 2n-1)`)
every undirected edge is used exactly twice if it is one of the pre-seeded `edge_indices`
(`edge_i1 + [(n-1, 0)] + edge_i2 + edge_i3 + [(2n-1, n)]`) and not at all otherwise; the
pre-seeded list has no duplicates up to orientation. -/
theorem prism_closed (n : Nat) (hn : 3 ≤ n) :
    (∀ e, uses (prismFaces n) e = if e ∈ (prismEdgeIndices n).map normP then 2 else 0) ∧
    ((prismEdgeIndices n).map normP).Nodup := by
  obtain ⟨k, rfl⟩ : ∃ k, n = k + 1 := ⟨n - 1, by omega⟩
  rw [prismEdgeIndices_norm k (by omega)]
  have hnd := prismEdges_nodup k (by omega)
  refine ⟨?_, hnd⟩
  intro e
  rw [uses_prism k (by omega)]
  split_ifs with h
  · rw [List.count_eq_one_of_mem hnd h]
  · rw [List.count_eq_zero_of_not_mem h]

/-- Consequently the model, run on the extrusion's faces, reports a solid, stores exactly the
pre-seeded edges (as a multiset of undirected edges) and gives every one the type `1` — i.e.
the `edge_information` that `from_offset_face` passes to the constructor
(`'edge_types': [1] * len(edge_indices)`) is what `__init__` would have computed. -/
theorem prism_model (n : Nat) (hn : 3 ≤ n) :
    isSolid (prismFaces n) = true ∧
    ((edgeInfo (prismFaces n)).edge_i.map normP).Perm ((prismEdgeIndices n).map normP) ∧
    (edgeInfo (prismFaces n)).edge_t = List.replicate (prismEdgeIndices n).length 1 := by
  obtain ⟨hu, hnd⟩ := prism_closed n hn
  have hsolid : isSolid (prismFaces n) = true := by
    rw [is_solid_iff_uses]
    intro e
    rw [hu e]
    split_ifs <;> simp
  obtain ⟨hlen, _, _, h3, h4⟩ := edge_count_spec (prismFaces n)
  have hperm : ((edgeInfo (prismFaces n)).edge_i.map normP).Perm
      ((prismEdgeIndices n).map normP) := by
    rw [List.perm_ext_iff_of_nodup h3 hnd]
    intro e
    rw [h4, hu e]
    split_ifs with h <;> simp [h]
  refine ⟨hsolid, hperm, ?_⟩
  have hl : (edgeInfo (prismFaces n)).edge_t.length = (prismEdgeIndices n).length := by
    rw [hlen]
    simpa using hperm.length_eq
  rw [List.eq_replicate_iff]
  refine ⟨hl, ?_⟩
  intro t ht
  unfold isSolid isSolidOf at hsolid
  rw [List.all_eq_true] at hsolid
  simpa using hsolid t ht

/-- Non-vacuity / literal check: the triangle prism. -/
example : prismFaces 3 = [[[2, 1, 0]], [[0, 1, 4, 3]], [[1, 2, 5, 4]], [[2, 0, 3, 5]], [[3, 4, 5]]] ∧
    prismEdgeIndices 3 = [(0, 1), (1, 2), (2, 0), (0, 3), (1, 4), (2, 5), (3, 4), (4, 5), (5, 3)] := by
  decide

/-! ## 4. The literal tables of `Polyface3D.from_box` -/

/-- `_face_indices` of `from_box`. -/
def boxFaces : List (List (List Nat)) :=
  [[[0, 1, 2, 3]], [[2, 1, 5, 6]], [[6, 7, 3, 2]], [[0, 3, 7, 4]], [[0, 4, 5, 1]], [[7, 6, 5, 4]]]

/-- `_edge_indices` of `from_box`. -/
def boxEdgeIndices : List DEdge :=
  [(3, 0), (0, 1), (1, 2), (2, 3), (0, 4), (4, 5), (5, 1), (3, 7), (7, 4), (6, 2), (5, 6), (6, 7)]

/-- `'edge_types': [1] * 12`. -/
def boxEdgeTypes : List Nat := List.replicate 12 1

/-- **`from_box_tables`** — the pre-seeded `edge_information` of `from_box` agrees with what
`__init__` computes from `_face_indices`: the same 12 undirected edges, every type `1`, solid.
(The LISTS differ in order, and some entries differ in orientation — the constructor would store
`(1, 5)`, `(7, 3)`, `(4, 0)` in order of first occurrence; `edge_information` is only ever read through
the undirected edge and its type.) -/
theorem from_box_tables :
    ((edgeInfo boxFaces).edge_i.map normP).Perm (boxEdgeIndices.map normP) ∧
    (edgeInfo boxFaces).edge_t = boxEdgeTypes ∧
    isSolid boxFaces = true ∧
    isSolidOf boxEdgeTypes = true ∧
    (∀ e ∈ boxEdgeIndices, e ∈ sidesOf boxFaces) := by
  decide

/-- What the constructor itself computes for the box (for the record). -/
example : (edgeInfo boxFaces).edge_i =
    [(3, 0), (0, 1), (1, 2), (2, 3), (6, 2), (1, 5), (5, 6), (6, 7), (7, 3), (4, 0), (7, 4),
      (4, 5)] := by
  decide

/-! ## 5. Outwardness and the divergence volume (algebraic laws only)

`Polyface3D.volume` is `Σ face[0]·normal·area / 3` — hand model `C01.vol` over triples
`(face[0], normal, area)`.  What is proved is ALGEBRA of that sum.  Whether
`get_outward_faces` (ray parity from a point nudged off the first boundary corner) actually
returns outward normals is NOT proved (two known findings about it are open); the harness
checks it against an interior point and the sign of the exact volume. -/

section volume
open Lbg.Props.C01
variable {α : Type} [Field α] [LinearOrder α] [IsStrictOrderedRing α]

/-- A face triple with its normal reversed (what `Face3D.flip` does to `(face[0], normal,
area)` up to the choice of `face[0]`, which does not matter by `volume_base_point`). -/
def flipFace (f : V3 α × V3 α × α) : V3 α × V3 α × α := (f.1, V3.neg f.2.1, f.2.2)

/-- A flipped face negates its volume term (re-export of `C01.volTerm_flip`). -/
theorem volume_term_flip (f : V3 α × V3 α × α) : volTerm (flipFace f) = - volTerm f :=
  volTerm_flip f.1 f.2.1 f.2.2

/-- Flipping twice restores the face. -/
theorem flipFace_flipFace (f : V3 α × V3 α × α) : flipFace (flipFace f) = f := by
  obtain ⟨p, n, A⟩ := f
  simp [flipFace, V3.neg]

/-- One wrongly oriented face changes the reported volume by exactly twice its term
(re-export of `C01.vol_flip_face`). -/
theorem volume_flip_face (pre post : List (V3 α × V3 α × α)) (f : V3 α × V3 α × α) :
    vol (pre ++ [flipFace f] ++ post) = vol (pre ++ [f] ++ post) - 2 * volTerm f / 3 :=
  vol_flip_face pre post f.1 f.2.1 f.2.2

/-- All faces reversed: the reported volume changes sign. -/
theorem volume_flip_all (faces : List (V3 α × V3 α × α)) :
    vol (faces.map flipFace) = - vol faces := by
  unfold vol
  rw [List.map_map]
  have : (faces.map (volTerm ∘ flipFace)).sum = - (faces.map volTerm).sum := by
    induction faces with
    | nil => simp
    | cons f t ih =>
      simp only [List.map_cons, List.sum_cons, Function.comp, volume_term_flip] at ih ⊢
      rw [ih]; ring
  rw [this]; ring

/-- The same face seen from another start vertex: same normal and area, base point anywhere in
the face's plane. -/
def SameFace (f g : V3 α × V3 α × α) : Prop :=
  g.2 = f.2 ∧ V3.dot (V3.sub g.1 f.1) f.2.1 = 0

/-- Start-vertex independence of a term (re-export of `C01.volTerm_base_point`). -/
theorem volume_base_point {f g : V3 α × V3 α × α} (h : SameFace f g) : volTerm g = volTerm f := by
  obtain ⟨p, n, A⟩ := f
  obtain ⟨p', n', A'⟩ := g
  obtain ⟨h1, h2⟩ := h
  simp only [Prod.mk.injEq] at h1
  obtain ⟨rfl, rfl⟩ := h1
  exact volTerm_base_point p p' n' A' h2

/-- **Presentation independence of the volume** — faces in any order, each with any start
vertex (base point in the face plane), give the same sum; and a presentation with some faces
flipped gives the same sum once those faces are flipped back (`flipFace_flipFace`). -/
theorem volume_presentation {fs hs gs : List (V3 α × V3 α × α)}
    (h1 : List.Forall₂ SameFace fs hs) (h2 : hs.Perm gs) : vol gs = vol fs := by
  rw [← vol_perm hs gs h2]
  clear h2
  unfold vol
  congr 1
  induction h1 with
  | nil => rfl
  | cons hab _ ih => simp only [List.map_cons, List.sum_cons, ih, volume_base_point hab]

/-- A face points away from the point `c`: `c` is strictly on the inner side of the face's
plane and the area is positive. -/
def PointsAwayFrom (c : V3 α) (f : V3 α × V3 α × α) : Prop :=
  0 < V3.dot (V3.sub f.1 c) f.2.1 * f.2.2

private theorem sum_pos_of_pos (l : List α) (h : ∀ x ∈ l, 0 < x) (hne : l ≠ []) : 0 < l.sum := by
  induction l with
  | nil => exact absurd rfl hne
  | cons a t ih =>
    rw [List.sum_cons]
    have ha := h a (by simp)
    by_cases ht : t = []
    · subst ht; simpa using ha
    · have := ih (fun x hx => h x (List.mem_cons_of_mem _ hx)) ht
      linarith

/-- **Positivity for solids that are star-shaped in the plane sense** (in particular every
convex solid): if the surface is closed (`Σ Aᵢ nᵢ = 0`, which holds for every closed polyhedral
surface) and every face points away from one common interior point `c`, the divergence volume
is strictly positive. -/
theorem volume_pos_of_outward (faces : List (V3 α × V3 α × α)) (c : V3 α)
    (hclosed : areaVec faces = ⟨0, 0, 0⟩) (hne : faces ≠ [])
    (hout : ∀ f ∈ faces, PointsAwayFrom c f) : 0 < vol faces := by
  rw [← vol_translate_closed faces (V3.neg c) hclosed]
  unfold vol
  apply div_pos _ (by norm_num : (0 : α) < 3)
  apply sum_pos_of_pos
  · intro x hx
    simp only [List.map_map, List.mem_map, Function.comp] at hx
    obtain ⟨f, hf, rfl⟩ := hx
    have := hout f hf
    simp only [PointsAwayFrom, volTerm, V3.dot, V3.sub, V3.add, V3.neg] at this ⊢
    linarith [this]
  · simpa using hne

/-- Non-vacuity: the unit cube with outward faces and the centre `(1/2, 1/2, 1/2)` satisfies the
hypotheses of `volume_pos_of_outward`. -/
example :
    let faces : List (V3 ℚ × V3 ℚ × ℚ) :=
      [(⟨0, 0, 0⟩, ⟨0, 0, -1⟩, 1), (⟨0, 0, 1⟩, ⟨0, 0, 1⟩, 1), (⟨0, 0, 0⟩, ⟨0, -1, 0⟩, 1),
       (⟨0, 1, 0⟩, ⟨0, 1, 0⟩, 1), (⟨0, 0, 0⟩, ⟨-1, 0, 0⟩, 1), (⟨1, 0, 0⟩, ⟨1, 0, 0⟩, 1)]
    areaVec faces = ⟨0, 0, 0⟩ ∧ (∀ f ∈ faces, PointsAwayFrom ⟨1 / 2, 1 / 2, 1 / 2⟩ f) ∧
      vol faces = 1 := by
  simp only [PointsAwayFrom]
  decide +kernel

/-- Reversing every face reverses the total area vector. -/
theorem areaVec_flip (faces : List (V3 α × V3 α × α)) :
    areaVec (faces.map flipFace) = V3.neg (areaVec faces) := by
  induction faces with
  | nil => simp [areaVec, V3.neg]
  | cons f t ih =>
    simp only [areaVec, List.map_cons, List.sum_cons, flipFace, V3.neg, V3.mk.injEq] at ih ⊢
    obtain ⟨h1, h2, h3⟩ := ih
    refine ⟨?_, ?_, ?_⟩ <;> linarith

/-- Conversely, if every face points TOWARDS the interior point (all normals inward) the
reported volume is strictly negative — the sign of the divergence volume detects a globally
wrong orientation. -/
theorem volume_neg_of_inward (faces : List (V3 α × V3 α × α)) (c : V3 α)
    (hclosed : areaVec faces = ⟨0, 0, 0⟩) (hne : faces ≠ [])
    (hin : ∀ f ∈ faces, PointsAwayFrom c (flipFace f)) : vol faces < 0 := by
  have hflip : areaVec (faces.map flipFace) = ⟨0, 0, 0⟩ := by
    rw [areaVec_flip, hclosed]
    simp [V3.neg]
  have := volume_pos_of_outward (faces.map flipFace) c hflip (by simpa using hne)
    (by intro f hf; obtain ⟨g, hg, rfl⟩ := List.mem_map.mp hf; exact hin g hg)
  rw [volume_flip_all] at this
  linarith

/-- In a convex-type solid with all faces outward, flipping any one face strictly lowers the
reported volume: the correctly oriented presentation is the one with the largest value. -/
theorem volume_flip_face_lt (pre post : List (V3 α × V3 α × α)) (f : V3 α × V3 α × α)
    (hpos : 0 < volTerm f) :
    vol (pre ++ [flipFace f] ++ post) < vol (pre ++ [f] ++ post) := by
  rw [volume_flip_face]
  have : 0 < 2 * volTerm f / 3 := by positivity
  linarith

end volume

end Lbg.Props.C07
